import CpModel.Serial
/-
  CpProofs.Serial — lemmas and theorems about the serialisation model (C14).
-/
namespace Cp.Serial

/-! ## `KeysOrderable` -/

mutual
/-- Every plain `dict` inside the value (and every object's `__dict__`) has keys `sorted()` accepts
(`keysSortable`), and — `native = true` — every dict that `json.dumps` encodes itself (it sits in a plain
enum's raw `.value`, or at the top) has only str/int/float/bool/None keys.  This is the guard under which
neither `_get_ordered_dict` nor `json.dumps` raises `TypeError`.  (For dicts in native position the
`keysSortable` conjunct is needed by Markdown only.) -/
def keysOk : Bool → PyVal → Bool
  | _, .none => true
  | _, .bool _ => true
  | _, .int _ => true
  | _, .float _ => true
  | _, .str _ => true
  | _, .bytes _ => true
  | _, .opaque _ => true
  | _, .enumParams _ _ sv =>
    match sv with
    | some v => keysOk false v
    | none => true
  | _, .enumPlain _ _ v => keysOk true v
  | native, .seq isSet xs => keysOkL (native && !isSet) xs
  | native, .dict o kvs =>
    (o || keysSortable (kvs.map (·.1))) && (!native || (kvs.map (·.1)).all nativeKeyOk) && keysOkKV native kvs
  | _, .hasAsdict _ _ arg inner =>
    (match arg with
     | some x => keysOk false x
     | none => true) && keysOk false inner
  | _, .attrs _ _ fs => keysOkKV false fs
  | _, .hasDict _ vars => keysSortable (vars.map (·.1)) && keysOkKV false vars
def keysOkL : Bool → List PyVal → Bool
  | _, [] => true
  | native, x :: xs => keysOk native x && keysOkL native xs
def keysOkKV : Bool → List (PyVal × PyVal) → Bool
  | _, [] => true
  | native, (k, v) :: rest => keysOk false k && keysOk native v && keysOkKV native rest
end

/-- the hypothesis of the totality theorems -/
def KeysOrderable (v : PyVal) : Prop := keysOk false v = true
/-- the same for a value handed to `json.dumps` directly (`as_json()`) -/
def KeysOrderableNative (v : PyVal) : Prop := keysOk true v = true

/-! ## JSON traversal is total -/

theorem orderPairs_ok {β : Type} (o : Bool) (kvs : List (PyVal × β))
    (h : (o || keysSortable (kvs.map (·.1))) = true) : ∃ r, orderPairs o kvs = .ok r := by
  unfold orderPairs
  cases o with
  | true => exact ⟨_, rfl⟩
  | false =>
    simp at h
    simp [h]

theorem jsonKVs_keys : ∀ (kvs : List (PyVal × PyVal)) (items : List (PyVal × Json)),
    jsonKVs kvs = .ok items → items.map (·.1) = kvs.map (·.1)
  | [], items, h => by
    simp [jsonKVs] at h
    subst h; rfl
  | (k, v) :: rest, items, h => by
    simp only [jsonKVs, bind, Except.bind] at h
    split at h
    · cases h
    · rename_i j hj
      split at h
      · cases h
      · rename_i js hjs
        simp [pure, Except.pure] at h
        subst h
        simp [jsonKVs_keys rest js hjs]

/-- an `Except` bind whose first step succeeds -/
theorem bind_ok {α β : Type} (x : Except PErr α) (f : α → Except PErr β) (a : α) (h : x = .ok a) :
    (x >>= f) = f a := by
  subst h; rfl

theorem obj_of_items (o : Bool) (kvs : List (PyVal × PyVal)) (items : List (PyVal × Json))
    (hs : (o || keysSortable (kvs.map (·.1))) = true) (hi : jsonKVs kvs = .ok items) :
    ∃ j, (do
      let items ← jsonKVs kvs
      let sorted ← orderPairs o items
      pure (Json.obj (sorted.map fun kv => (keyString kv.1, kv.2))) : Except PErr Json) = .ok j := by
  have hk := jsonKVs_keys kvs items hi
  rw [← hk] at hs
  obtain ⟨r, hr⟩ := orderPairs_ok o items hs
  refine ⟨Json.obj (r.map fun kv => (keyString kv.1, kv.2)), ?_⟩
  rw [bind_ok _ _ _ hi, bind_ok _ _ _ hr]
  rfl

mutual
theorem jsonTraverse_total : ∀ (v : PyVal), keysOk false v = true → ∃ j, jsonTraverse v = .ok j
  | .none, _ => by simp [jsonTraverse]
  | .bool _, _ => by simp [jsonTraverse]
  | .int _, _ => by simp [jsonTraverse]
  | .float _, _ => by simp [jsonTraverse]
  | .str _, _ => by simp [jsonTraverse]
  | .bytes _, _ => by simp [jsonTraverse]
  | .opaque _, _ => by simp [jsonTraverse]
  | .enumParams _ _ _, _ => by simp [jsonTraverse]
  | .enumPlain n _ v, h => by
    simp only [keysOk] at h
    obtain ⟨j, hj⟩ := jsonNative_total v h
    exact ⟨_, by simp only [jsonTraverse]; rw [bind_ok _ _ _ hj]; rfl⟩
  | .hasAsdict _ _ arg inner, h => by
    have h2 : keysOk false inner = true := by
      cases arg <;> simp only [keysOk, Bool.and_eq_true, Bool.true_and] at h
      · exact h
      · exact h.2
    obtain ⟨j, hj⟩ := jsonTraverse_total inner h2
    exact ⟨j, by simp only [jsonTraverse]; exact hj⟩
  | .dict o kvs, h => by
    simp only [keysOk, Bool.and_eq_true] at h
    obtain ⟨items, hi⟩ := jsonKVs_total kvs h.2
    simp only [jsonTraverse]
    exact obj_of_items o kvs items h.1.1 hi
  | .attrs _ _ fs, h => by
    simp only [keysOk] at h
    obtain ⟨items, hi⟩ := jsonKVs_total fs h
    exact ⟨_, by simp only [jsonTraverse]; rw [bind_ok _ _ _ hi]; rfl⟩
  | .hasDict _ vars, h => by
    simp only [keysOk, Bool.and_eq_true] at h
    obtain ⟨items, hi⟩ := jsonKVs_total vars h.2
    simp only [jsonTraverse]
    exact obj_of_items false vars items (by simp [h.1]) hi
  | .seq true xs, h => by
    simp only [keysOk, Bool.false_and] at h
    obtain ⟨js, hjs⟩ := jsonList_total xs h
    exact ⟨_, by simp only [jsonTraverse]; rw [bind_ok _ _ _ hjs]; rfl⟩
  | .seq false xs, h => by
    simp only [keysOk, Bool.false_and] at h
    obtain ⟨js, hjs⟩ := jsonList_total xs h
    exact ⟨_, by simp only [jsonTraverse]; rw [bind_ok _ _ _ hjs]; rfl⟩

theorem jsonList_total : ∀ (xs : List PyVal), keysOkL false xs = true → ∃ js, jsonList xs = .ok js
  | [], _ => by simp [jsonList]
  | x :: xs, h => by
    simp only [keysOkL, Bool.and_eq_true] at h
    obtain ⟨j, hj⟩ := jsonTraverse_total x h.1
    obtain ⟨js, hjs⟩ := jsonList_total xs h.2
    exact ⟨_, by simp only [jsonList]; rw [bind_ok _ _ _ hj, bind_ok _ _ _ hjs]; rfl⟩

theorem jsonKVs_total : ∀ (kvs : List (PyVal × PyVal)), keysOkKV false kvs = true → ∃ items, jsonKVs kvs = .ok items
  | [], _ => by simp [jsonKVs]
  | (k, v) :: rest, h => by
    simp only [keysOkKV, Bool.and_eq_true] at h
    obtain ⟨j, hj⟩ := jsonTraverse_total v h.1.2
    obtain ⟨js, hjs⟩ := jsonKVs_total rest h.2
    exact ⟨_, by simp only [jsonKVs]; rw [bind_ok _ _ _ hj, bind_ok _ _ _ hjs]; rfl⟩

theorem jsonNative_total : ∀ (v : PyVal), keysOk true v = true → ∃ j, jsonNative v = .ok j
  | .none, _ => by simp [jsonNative]
  | .bool _, _ => by simp [jsonNative]
  | .int _, _ => by simp [jsonNative]
  | .float _, _ => by simp [jsonNative]
  | .str _, _ => by simp [jsonNative]
  | .bytes _, _ => by simp [jsonNative]
  | .opaque _, _ => by simp [jsonNative]
  | .enumParams _ _ _, _ => by simp [jsonNative]
  | .enumPlain n true v, h => by
    simp only [keysOk] at h
    obtain ⟨j, hj⟩ := jsonNative_total v h
    exact ⟨j, by simp only [jsonNative]; exact hj⟩
  | .enumPlain n false v, h => by
    simp only [keysOk] at h
    obtain ⟨j, hj⟩ := jsonNative_total v h
    exact ⟨_, by simp only [jsonNative]; rw [bind_ok _ _ _ hj]; rfl⟩
  | .hasAsdict _ _ arg inner, h => by
    have h2 : keysOk false inner = true := by
      cases arg <;> simp only [keysOk, Bool.and_eq_true, Bool.true_and] at h
      · exact h
      · exact h.2
    obtain ⟨j, hj⟩ := jsonTraverse_total inner h2
    exact ⟨j, by simp only [jsonNative]; exact hj⟩
  | .dict o kvs, h => by
    simp only [keysOk, Bool.and_eq_true, Bool.not_true, Bool.false_or] at h
    obtain ⟨items, hi⟩ := jsonNativeKVs_total kvs h.1.2 h.2
    exact ⟨_, by simp only [jsonNative]; rw [bind_ok _ _ _ hi]; rfl⟩
  | .attrs _ _ fs, h => by
    simp only [keysOk] at h
    obtain ⟨items, hi⟩ := jsonKVs_total fs h
    exact ⟨_, by simp only [jsonNative]; rw [bind_ok _ _ _ hi]; rfl⟩
  | .hasDict _ vars, h => by
    simp only [keysOk, Bool.and_eq_true] at h
    obtain ⟨items, hi⟩ := jsonKVs_total vars h.2
    simp only [jsonNative]
    exact obj_of_items false vars items (by simp [h.1]) hi
  | .seq true xs, h => by
    simp only [keysOk, Bool.not_true, Bool.and_false] at h
    obtain ⟨js, hjs⟩ := jsonList_total xs h
    exact ⟨_, by simp only [jsonNative]; rw [bind_ok _ _ _ hjs]; rfl⟩
  | .seq false xs, h => by
    simp only [keysOk, Bool.not_false, Bool.and_true] at h
    obtain ⟨js, hjs⟩ := jsonNativeList_total xs h
    exact ⟨_, by simp only [jsonNative]; rw [bind_ok _ _ _ hjs]; rfl⟩

theorem jsonNativeList_total : ∀ (xs : List PyVal), keysOkL true xs = true → ∃ js, jsonNativeList xs = .ok js
  | [], _ => by simp [jsonNativeList]
  | x :: xs, h => by
    simp only [keysOkL, Bool.and_eq_true] at h
    obtain ⟨j, hj⟩ := jsonNative_total x h.1
    obtain ⟨js, hjs⟩ := jsonNativeList_total xs h.2
    exact ⟨_, by simp only [jsonNativeList]; rw [bind_ok _ _ _ hj, bind_ok _ _ _ hjs]; rfl⟩

theorem jsonNativeKVs_total : ∀ (kvs : List (PyVal × PyVal)), (kvs.map (·.1)).all nativeKeyOk = true →
    keysOkKV true kvs = true → ∃ items, jsonNativeKVs kvs = .ok items
  | [], _, _ => by simp [jsonNativeKVs]
  | (k, v) :: rest, hk, h => by
    simp only [keysOkKV, Bool.and_eq_true] at h
    simp only [List.map_cons, List.all_cons, Bool.and_eq_true] at hk
    obtain ⟨j, hj⟩ := jsonNative_total v h.1.2
    obtain ⟨js, hjs⟩ := jsonNativeKVs_total rest hk.2 h.2
    simp only [jsonNativeKVs, hk.1, Bool.not_true, Bool.false_eq_true, ↓reduceIte]
    rw [bind_ok _ _ _ hj, bind_ok _ _ _ hjs]
    exact ⟨_, rfl⟩
end

/-! ## Markdown is total -/

/-- a suspended Markdown call that succeeds whatever class, level and encoder state it is run with -/
def ActTotal (a : MdAct) : Prop := ∀ cls lvl σ, ∃ r, a cls lvl σ = .ok r

def EntriesTotal (es : List MdEntry) : Prop := ∀ e ∈ es, ActTotal e.keyAct ∧ ActTotal e.valAct

theorem encode_total (t : String) : ActTotal (encode t) := fun _ _ _ => ⟨_, rfl⟩
theorem constRes_total (r : MdRes) : ActTotal (constRes r) := fun _ _ _ => ⟨_, rfl⟩

theorem EntriesTotal.filter {es : List MdEntry} (p : MdEntry → Bool) (h : EntriesTotal es) :
    EntriesTotal (es.filter p) := fun e he => h e (List.mem_filter.mp he).1

theorem nameOf_total (metas : List FieldMeta) (e : MdEntry) (cls : String) (σ : EncState)
    (h : ActTotal e.keyAct) : ∃ r, nameOf metas e cls σ = .ok r := by
  unfold nameOf
  split
  · split <;> exact ⟨_, rfl⟩
  · obtain ⟨r, hr⟩ := h cls 0 { σ with base := Enc.dflt }
    rw [bind_ok _ _ _ hr]
    exact ⟨_, rfl⟩

theorem namesOf_total (metas : List FieldMeta) (cls : String) : ∀ (es : List MdEntry) (σ : EncState),
    EntriesTotal es → ∃ r, namesOf metas cls es σ = .ok r
  | [], _, _ => ⟨_, rfl⟩
  | e :: es, σ, h => by
    obtain ⟨⟨n, σ₁⟩, hn⟩ := nameOf_total metas e cls σ (h e (List.mem_cons_self ..)).1
    obtain ⟨⟨ns, σ₂⟩, hns⟩ := namesOf_total metas cls es σ₁ (fun e' he' => h e' (List.mem_cons_of_mem _ he'))
    simp only [namesOf]
    rw [bind_ok _ _ _ hn]
    simp only []
    rw [bind_ok _ _ _ hns]
    exact ⟨_, rfl⟩

theorem complexItems_total (cls : String) (level : Nat) : ∀ (items : List (String × MdEntry)) (acc : String) (σ : EncState),
    (∀ p ∈ items, ActTotal p.2.valAct) → ∃ r, complexItems cls level items acc σ = .ok r
  | [], _, _, _ => ⟨_, rfl⟩
  | (name, e) :: rest, acc, σ, h => by
    obtain ⟨⟨r, σ₁⟩, hr⟩ := h (name, e) (List.mem_cons_self ..) cls (level + 1) σ
    simp only [complexItems]
    rw [bind_ok _ _ _ hr]
    exact complexItems_total cls level rest _ σ₁ (fun p hp => h p (List.mem_cons_of_mem _ hp))

theorem runComplex_total (metas : List FieldMeta) (es : List MdEntry) (h : EntriesTotal es) :
    ActTotal (runComplex metas es) := by
  intro cls lvl σ
  obtain ⟨⟨names, σ₁⟩, hn⟩ := namesOf_total metas cls es σ h
  obtain ⟨⟨text, σ₂⟩, ht⟩ := complexItems_total cls lvl (names.zip es) "" σ₁
    (fun p hp => (h p.2 (List.of_mem_zip (a := p.1) (b := p.2) hp).2).2)
  unfold runComplex
  rw [bind_ok _ _ _ hn]
  simp only []
  rw [bind_ok _ _ _ ht]
  simp only []
  split <;> exact ⟨_, rfl⟩

theorem listItems_total (cls : String) (level : Nat) : ∀ (items : List MdAct) (index : Nat) (acc : String) (σ : EncState),
    (∀ a ∈ items, ActTotal a) → ∃ r, listItems cls level items index acc σ = .ok r
  | [], _, _, _, _ => ⟨_, rfl⟩
  | a :: rest, index, acc, σ, h => by
    obtain ⟨⟨r, σ₁⟩, hr⟩ := h a (List.mem_cons_self ..) cls (level + 1) σ
    simp only [listItems]
    rw [bind_ok _ _ _ hr]
    exact listItems_total cls level rest _ _ σ₁ (fun p hp => h p (List.mem_cons_of_mem _ hp))

theorem runList_total (items : List MdAct) (h : ∀ a ∈ items, ActTotal a) : ActTotal (runList items) := by
  intro cls lvl σ
  unfold runList
  split
  · exact ⟨_, rfl⟩
  · obtain ⟨⟨t, σ₁⟩, ht⟩ := listItems_total cls lvl items 0 "" σ h
    rw [bind_ok _ _ _ ht]
    exact ⟨_, rfl⟩

theorem mem_insertBy {α : Type} (le : α → α → Bool) (x y : α) : ∀ (l : List α), y ∈ insertBy le x l → y = x ∨ y ∈ l
  | [], h => by simp [insertBy] at h; exact Or.inl h
  | z :: zs, h => by
    simp only [insertBy] at h
    split at h
    · simp only [List.mem_cons] at h ⊢
      exact h
    · simp only [List.mem_cons] at h ⊢
      rcases h with h | h
      · exact Or.inr (Or.inl h)
      · rcases mem_insertBy le x y zs h with h | h
        · exact Or.inl h
        · exact Or.inr (Or.inr h)

theorem mem_sortBy {α : Type} (le : α → α → Bool) (y : α) : ∀ (l : List α), y ∈ sortBy le l → y ∈ l
  | [], h => by simp [sortBy] at h
  | x :: xs, h => by
    simp only [sortBy, List.foldr_cons] at h
    rcases mem_insertBy le x y _ h with h | h
    · exact h ▸ List.mem_cons_self ..
    · exact List.mem_cons_of_mem _ (mem_sortBy le y xs h)

theorem mem_orderPairs {β : Type} (o : Bool) (kvs r : List (PyVal × β)) (h : orderPairs o kvs = .ok r) :
    ∀ p ∈ r, p ∈ kvs := by
  unfold orderPairs at h
  split at h
  · cases h; exact fun _ hp => hp
  · split at h
    · cases h; exact fun p hp => mem_sortBy _ p kvs hp
    · cases h

theorem mem_orderSet {β : Type} (keys : List String) (xs : List β) (y : β) (h : y ∈ orderSet keys xs) : y ∈ xs := by
  unfold orderSet at h
  obtain ⟨p, hp, rfl⟩ := List.mem_map.mp h
  exact (List.of_mem_zip (a := p.1) (b := p.2) (mem_sortBy _ p _ hp)).2

theorem runSet_total (js : List Json) (keys : Except PErr (List Json)) (items : List MdAct) (hk : keys = .ok js)
    (h : ∀ a ∈ items, ActTotal a) : ActTotal (runSet keys items) := by
  intro cls lvl σ
  subst hk
  simp only [runSet]
  exact runList_total _ (fun a ha => h a (mem_orderSet _ _ a ha)) cls lvl σ

theorem runDict_total (o : Bool) (es : List MdEntry) (hs : (o || keysSortable (es.map (·.key))) = true)
    (h : EntriesTotal es) : ActTotal (runDict o es) := by
  intro cls lvl σ
  have hs' : (o || keysSortable ((es.map fun e => (e.key, e)).map (·.1))) = true := by
    simpa [List.map_map, Function.comp_def] using hs
  obtain ⟨sorted, hsorted⟩ := orderPairs_ok o _ hs'
  unfold runDict
  rw [bind_ok _ _ _ hsorted]
  apply runComplex_total
  intro e he
  obtain ⟨p, hp, rfl⟩ := List.mem_map.mp he
  have := mem_orderPairs o _ _ hsorted p hp
  obtain ⟨e', he', rfl⟩ := List.mem_map.mp this
  exact h e' he'

theorem hdrResult_total (h : ObjHdr) (am : MdAct) (ham : ActTotal am) (act : MdAct)
    (hact : hdrResult h am = some act) : ActTotal act := by
  unfold hdrResult at hact
  split at hact
  · cases hact; exact encode_total _
  · split at hact
    · cases hact; exact fun _ lvl σ => ham _ lvl σ
    · split at hact
      · cases hact; exact constRes_total _
      · split at hact
        · cases hact; exact constRes_total _
        · split at hact
          · cases hact; exact constRes_total _
          · cases hact

theorem asMarkdownOf_total (h : ObjHdr) (arg : Option MdAct) (cx : MdAct)
    (harg : ∀ a, arg = some a → ActTotal a) (hcx : ActTotal cx) : ActTotal (asMarkdownOf h arg cx) := by
  unfold asMarkdownOf
  split
  · exact constRes_total _
  · split
    · exact harg _ rfl
    · exact hcx

theorem mdEntries_keys : ∀ (kvs : List (PyVal × PyVal)), (mdEntries kvs).map (·.key) = kvs.map (·.1)
  | [] => by simp [mdEntries]
  | (k, v) :: rest => by simp [mdEntries, mdEntries_keys rest]

theorem keysSortable_filter (p : PyVal → Bool) (l : List PyVal) (h : keysSortable l = true) :
    keysSortable (l.filter p) = true := by
  unfold keysSortable at h ⊢
  simp only [Bool.or_eq_true, List.all_eq_true, decide_eq_true_eq] at h ⊢
  have hl : (l.filter p).length ≤ l.length := List.length_filter_le ..
  rcases h with (((h | h) | h) | h) | h
  · exact Or.inl (Or.inl (Or.inl (Or.inl fun x hx => h x (List.mem_filter.mp hx).1)))
  · exact Or.inl (Or.inl (Or.inl (Or.inr (by omega))))
  · exact Or.inl (Or.inl (Or.inr fun x hx => h x (List.mem_filter.mp hx).1))
  · exact Or.inl (Or.inr fun x hx => h x (List.mem_filter.mp hx).1)
  · exact Or.inr fun x hx => h x (List.mem_filter.mp hx).1

theorem filter_entries_keys (p : PyVal → Bool) (es : List MdEntry) :
    (es.filter fun e => p e.key).map (·.key) = (es.map (·.key)).filter p := by
  induction es with
  | nil => rfl
  | cons e es ih =>
    simp only [List.filter_cons, List.map_cons]
    split <;> simp [ih]

theorem objResult_total (h : ObjHdr) (am fb : MdAct) (ham : ActTotal am) (hfb : ActTotal fb) :
    ActTotal (objResult h am fb) := by
  unfold objResult
  split
  · rename_i act hact; exact hdrResult_total h am ham act hact
  · exact hfb

mutual
theorem mdResult_total : ∀ (v : PyVal) (b : Bool), keysOk b v = true → ActTotal (mdResult v)
  | .none, _, _ => by simp only [mdResult]; exact encode_total _
  | .bool _, _, _ => by simp only [mdResult]; exact encode_total _
  | .int _, _, _ => by simp only [mdResult]; exact encode_total _
  | .float _, _, _ => by simp only [mdResult]; exact encode_total _
  | .str _, _, _ => by simp only [mdResult]; exact encode_total _
  | .bytes _, _, _ => by simp only [mdResult]; exact encode_total _
  | .enumParams _ _ none, _, _ => by simp only [mdResult]; exact encode_total _
  | .enumParams _ _ (some v), _, h => by
    simp only [keysOk] at h
    simp only [mdResult]
    exact fun _ lvl σ => mdAsMarkdown_total v false h _ lvl σ
  | .enumPlain _ _ v, _, h => by
    simp only [keysOk] at h
    simp only [mdResult]
    split
    · exact fun _ lvl σ => mdAsMarkdown_total v true h _ lvl σ
    · exact encode_total _
  | .seq true xs, b, h => by
    simp only [keysOk, Bool.not_true, Bool.and_false] at h
    obtain ⟨js, hjs⟩ := jsonList_total xs h
    simp only [mdResult]
    exact runSet_total js _ _ hjs (mdActs_total xs _ h)
  | .seq false xs, b, h => by
    simp only [keysOk] at h
    simp only [mdResult]
    exact runList_total _ (mdActs_total xs _ h)
  | .dict o kvs, b, h => by
    simp only [keysOk, Bool.and_eq_true] at h
    simp only [mdResult]
    exact runDict_total o _ (by rw [mdEntries_keys]; exact h.1.1) (mdEntries_total kvs b h.2)
  | .opaque hd, _, _ => by
    simp only [mdResult]
    exact objResult_total hd _ _ (encode_total _) (encode_total _)
  | .hasDict hd vars, b, h => by
    simp only [keysOk, Bool.and_eq_true] at h
    have hcx : ActTotal (runDict false ((mdEntries vars).filter fun e => !isPrivateKey e.key)) := by
      apply runDict_total
      · rw [filter_entries_keys (fun k => !isPrivateKey k), mdEntries_keys]
        simp only [Bool.false_or]
        exact keysSortable_filter _ _ h.1
      · exact (mdEntries_total vars false h.2).filter _
    simp only [mdResult]
    exact objResult_total hd _ _ hcx hcx
  | .attrs hd metas fs, b, h => by
    simp only [keysOk] at h
    have hcx : ActTotal (runComplex metas ((mdEntries fs).filter fun e => !isPrivateKey e.key && humanFriendlyKey metas e.key)) :=
      runComplex_total _ _ ((mdEntries_total fs false h).filter _)
    simp only [mdResult]
    exact objResult_total hd _ _ hcx hcx
  | .hasAsdict hd metas none inner, b, h => by
    simp only [keysOk, Bool.true_and] at h
    have hcx := mdComplexAsdict_total inner false metas _ h (mdResult_total inner false h)
    simp only [mdResult]
    refine objResult_total hd _ _ (asMarkdownOf_total hd none _ (fun _ h => by cases h) hcx) ?_
    split
    · exact hcx
    · exact mdResult_total inner false h
  | .hasAsdict hd metas (some x) inner, b, h => by
    simp only [keysOk, Bool.and_eq_true] at h
    have hcx := mdComplexAsdict_total inner false metas _ h.2 (mdResult_total inner false h.2)
    have hx := mdResult_total x false h.1
    simp only [mdResult]
    refine objResult_total hd _ _ (asMarkdownOf_total hd _ _ (fun a ha => by cases ha; exact hx) hcx) ?_
    split
    · exact hcx
    · exact mdResult_total inner false h.2

theorem mdAsMarkdown_total : ∀ (v : PyVal) (b : Bool), keysOk b v = true → ActTotal (mdAsMarkdown v)
  | .hasAsdict hd metas none inner, b, h => by
    simp only [keysOk, Bool.true_and] at h
    simp only [mdAsMarkdown]
    exact asMarkdownOf_total hd none _ (fun _ h => by cases h)
      (mdComplexAsdict_total inner false metas _ h (mdResult_total inner false h))
  | .hasAsdict hd metas (some x) inner, b, h => by
    simp only [keysOk, Bool.and_eq_true] at h
    simp only [mdAsMarkdown]
    exact asMarkdownOf_total hd _ _ (fun a ha => by cases ha; exact mdResult_total x false h.1)
      (mdComplexAsdict_total inner false metas _ h.2 (mdResult_total inner false h.2))
  | .none, _, _ => by simp only [mdAsMarkdown]; exact constRes_total _
  | .bool _, _, _ => by simp only [mdAsMarkdown]; exact constRes_total _
  | .int _, _, _ => by simp only [mdAsMarkdown]; exact constRes_total _
  | .float _, _, _ => by simp only [mdAsMarkdown]; exact constRes_total _
  | .str _, _, _ => by simp only [mdAsMarkdown]; exact constRes_total _
  | .bytes _, _, _ => by simp only [mdAsMarkdown]; exact constRes_total _
  | .enumParams .., _, _ => by simp only [mdAsMarkdown]; exact constRes_total _
  | .enumPlain .., _, _ => by simp only [mdAsMarkdown]; exact constRes_total _
  | .seq .., _, _ => by simp only [mdAsMarkdown]; exact constRes_total _
  | .dict .., _, _ => by simp only [mdAsMarkdown]; exact constRes_total _
  | .attrs .., _, _ => by simp only [mdAsMarkdown]; exact constRes_total _
  | .hasDict .., _, _ => by simp only [mdAsMarkdown]; exact constRes_total _
  | .opaque .., _, _ => by simp only [mdAsMarkdown]; exact constRes_total _

theorem mdComplexAsdict_total : ∀ (v : PyVal) (b : Bool) (metas : Option (List FieldMeta)) (self : MdAct),
    keysOk b v = true → ActTotal self → ActTotal (mdComplexAsdict v metas self)
  | .dict _ kvs, b, some ms, _, h, _ => by
    simp only [keysOk, Bool.and_eq_true] at h
    simp only [mdComplexAsdict]
    exact runComplex_total _ _ ((mdEntries_total kvs b h.2).filter _)
  | .dict _ kvs, b, none, _, h, _ => by
    simp only [keysOk, Bool.and_eq_true] at h
    simp only [mdComplexAsdict]
    exact runComplex_total _ _ (mdEntries_total kvs b h.2)
  | .none, _, _, _, _, hs => by simp only [mdComplexAsdict]; exact hs
  | .bool _, _, _, _, _, hs => by simp only [mdComplexAsdict]; exact hs
  | .int _, _, _, _, _, hs => by simp only [mdComplexAsdict]; exact hs
  | .float _, _, _, _, _, hs => by simp only [mdComplexAsdict]; exact hs
  | .str _, _, _, _, _, hs => by simp only [mdComplexAsdict]; exact hs
  | .bytes _, _, _, _, _, hs => by simp only [mdComplexAsdict]; exact hs
  | .enumParams .., _, _, _, _, hs => by simp only [mdComplexAsdict]; exact hs
  | .enumPlain .., _, _, _, _, hs => by simp only [mdComplexAsdict]; exact hs
  | .seq .., _, _, _, _, hs => by simp only [mdComplexAsdict]; exact hs
  | .hasAsdict .., _, _, _, _, hs => by simp only [mdComplexAsdict]; exact hs
  | .attrs .., _, _, _, _, hs => by simp only [mdComplexAsdict]; exact hs
  | .hasDict .., _, _, _, _, hs => by simp only [mdComplexAsdict]; exact hs
  | .opaque .., _, _, _, _, hs => by simp only [mdComplexAsdict]; exact hs

theorem mdActs_total : ∀ (xs : List PyVal) (b : Bool), keysOkL b xs = true → ∀ a ∈ mdActs xs, ActTotal a
  | [], _, _ => by simp [mdActs]
  | x :: xs, b, h => by
    simp only [keysOkL, Bool.and_eq_true] at h
    simp only [mdActs, List.mem_cons]
    intro a ha
    rcases ha with rfl | ha
    · exact mdResult_total x b h.1
    · exact mdActs_total xs b h.2 a ha

theorem mdEntries_total : ∀ (kvs : List (PyVal × PyVal)) (b : Bool), keysOkKV b kvs = true → EntriesTotal (mdEntries kvs)
  | [], _, _ => by simp [mdEntries, EntriesTotal]
  | (k, v) :: rest, b, h => by
    simp only [keysOkKV, Bool.and_eq_true] at h
    simp only [mdEntries, EntriesTotal, List.mem_cons]
    intro e he
    rcases he with rfl | he
    · exact ⟨mdResult_total k false h.1.1, mdResult_total v b h.1.2⟩
    · exact mdEntries_total rest b h.2 e he
end

/-! ## The class-level encoder state after a Markdown call -/

/-- a suspended call that, when it succeeds, leaves the class-level encoder state exactly as it found it:
nothing is added to a class and `Serializable.post_text_encoder` is the encoder it was -/
def Restores (a : MdAct) : Prop := ∀ cls lvl σ r σ', a cls lvl σ = .ok (r, σ') → σ' = σ

def EntriesRestore (es : List MdEntry) : Prop := ∀ e ∈ es, Restores e.keyAct ∧ Restores e.valAct

theorem EntriesRestore.filter {es : List MdEntry} (p : MdEntry → Bool) (h : EntriesRestore es) :
    EntriesRestore (es.filter p) := fun e he => h e (List.mem_filter.mp he).1

theorem encode_restores (t : String) : Restores (encode t) := by
  intro cls lvl σ r σ' h
  simp only [encode] at h
  cases h
  rfl

theorem constRes_restores (r : MdRes) : Restores (constRes r) := by
  intro cls lvl σ r' σ' h
  simp only [constRes] at h
  cases h
  rfl

/-- split a successful `Except` bind -/
theorem bind_eq_ok {α β : Type} {x : Except PErr α} {f : α → Except PErr β} {b : β} (h : (x >>= f) = .ok b) :
    ∃ a, x = .ok a ∧ f a = .ok b := by
  cases x with
  | error e => cases h
  | ok a => exact ⟨a, rfl, h⟩

/-- swap the default encoder in on `Serializable`, render the key, put the saved encoder back -/
theorem nameOf_restores (metas : List FieldMeta) (e : MdEntry) (cls : String) (σ σ' : EncState) (n : String)
    (hk : Restores e.keyAct) (h : nameOf metas e cls σ = .ok (n, σ')) : σ' = σ := by
  unfold nameOf at h
  split at h
  · split at h <;> (cases h; rfl)
  · obtain ⟨⟨r, σ₂⟩, hr, h2⟩ := bind_eq_ok h
    cases h2
    have := hk cls 0 _ r σ₂ hr
    subst this
    rfl

theorem namesOf_restores (metas : List FieldMeta) (cls : String) :
    ∀ (es : List MdEntry) (σ σ' : EncState) (ns : List String), EntriesRestore es →
    namesOf metas cls es σ = .ok (ns, σ') → σ' = σ
  | [], σ, σ', ns, _, h => by
    simp only [namesOf] at h; cases h; rfl
  | e :: es, σ, σ', ns, hp, h => by
    simp only [namesOf] at h
    obtain ⟨⟨n, σ₁⟩, h1, h⟩ := bind_eq_ok h
    obtain ⟨⟨ns', σ₂⟩, h2, h⟩ := bind_eq_ok h
    cases h
    exact (namesOf_restores metas cls es σ₁ σ₂ ns' (fun e' he' => hp e' (List.mem_cons_of_mem _ he')) h2).trans
      (nameOf_restores metas e cls σ σ₁ n (hp e (List.mem_cons_self ..)).1 h1)

theorem complexItems_restores (cls : String) (level : Nat) :
    ∀ (items : List (String × MdEntry)) (acc : String) (σ σ' : EncState) (t : String),
    (∀ p ∈ items, Restores p.2.valAct) → complexItems cls level items acc σ = .ok (t, σ') → σ' = σ
  | [], _, σ, σ', t, _, h => by
    simp only [complexItems] at h; cases h; rfl
  | (name, e) :: rest, acc, σ, σ', t, hp, h => by
    simp only [complexItems] at h
    obtain ⟨⟨r, σ₁⟩, h1, h⟩ := bind_eq_ok h
    exact (complexItems_restores cls level rest _ σ₁ σ' t (fun p hp' => hp p (List.mem_cons_of_mem _ hp')) h).trans
      (hp (name, e) (List.mem_cons_self ..) cls (level + 1) σ r σ₁ h1)

theorem runComplex_restores (metas : List FieldMeta) (es : List MdEntry) (h : EntriesRestore es) :
    Restores (runComplex metas es) := by
  intro cls lvl σ r σ' hrun
  unfold runComplex at hrun
  obtain ⟨⟨names, σ₁⟩, h1, hrun⟩ := bind_eq_ok hrun
  obtain ⟨⟨text, σ₂⟩, h2, hrun⟩ := bind_eq_ok hrun
  have hs : σ' = σ₂ := by
    simp only [] at hrun
    split at hrun <;> (cases hrun; rfl)
  subst hs
  exact (complexItems_restores cls lvl _ "" σ₁ σ' text
      (fun p hp => (h p.2 (List.of_mem_zip (a := p.1) (b := p.2) hp).2).2) h2).trans
    (namesOf_restores metas cls es σ σ₁ names h h1)

theorem listItems_restores (cls : String) (level : Nat) :
    ∀ (items : List MdAct) (index : Nat) (acc : String) (σ σ' : EncState) (t : String),
    (∀ a ∈ items, Restores a) → listItems cls level items index acc σ = .ok (t, σ') → σ' = σ
  | [], _, _, σ, σ', t, _, h => by
    simp only [listItems] at h; cases h; rfl
  | a :: rest, index, acc, σ, σ', t, hp, h => by
    simp only [listItems] at h
    obtain ⟨⟨r, σ₁⟩, h1, h⟩ := bind_eq_ok h
    exact (listItems_restores cls level rest _ _ σ₁ σ' t (fun p hp' => hp p (List.mem_cons_of_mem _ hp')) h).trans
      (hp a (List.mem_cons_self ..) cls (level + 1) σ r σ₁ h1)

theorem runList_restores (items : List MdAct) (h : ∀ a ∈ items, Restores a) : Restores (runList items) := by
  intro cls lvl σ r σ' hrun
  unfold runList at hrun
  split at hrun
  · cases hrun; rfl
  · obtain ⟨⟨t, σ₁⟩, h1, hrun⟩ := bind_eq_ok hrun
    cases hrun
    exact listItems_restores cls lvl items 0 "" σ σ' t h h1

theorem runSet_restores (keys : Except PErr (List Json)) (items : List MdAct) (h : ∀ a ∈ items, Restores a) :
    Restores (runSet keys items) := by
  intro cls lvl σ r σ' hrun
  unfold runSet at hrun
  split at hrun
  · cases hrun
  · exact runList_restores _ (fun a ha => h a (mem_orderSet _ _ a ha)) cls lvl σ r σ' hrun

theorem runDict_restores (o : Bool) (es : List MdEntry) (h : EntriesRestore es) : Restores (runDict o es) := by
  intro cls lvl σ r σ' hrun
  unfold runDict at hrun
  obtain ⟨sorted, hsorted, hrun⟩ := bind_eq_ok hrun
  refine runComplex_restores [] _ ?_ cls lvl σ r σ' hrun
  intro e he
  obtain ⟨p, hp, rfl⟩ := List.mem_map.mp he
  have := mem_orderPairs o _ _ hsorted p hp
  obtain ⟨e', he', rfl⟩ := List.mem_map.mp this
  exact h e' he'

theorem hdrResult_restores (h : ObjHdr) (am : MdAct) (ham : Restores am) (act : MdAct)
    (hact : hdrResult h am = some act) : Restores act := by
  unfold hdrResult at hact
  split at hact
  · cases hact; exact encode_restores _
  · split at hact
    · cases hact; exact fun _ lvl σ r σ' hr => ham h.cls lvl σ r σ' hr
    · split at hact
      · cases hact; exact constRes_restores _
      · split at hact
        · cases hact; exact constRes_restores _
        · split at hact
          · cases hact; exact constRes_restores _
          · cases hact

theorem objResult_restores (h : ObjHdr) (am fb : MdAct) (ham : Restores am) (hfb : Restores fb) :
    Restores (objResult h am fb) := by
  unfold objResult
  split
  · rename_i act hact; exact hdrResult_restores h am ham act hact
  · exact hfb

theorem asMarkdownOf_restores (h : ObjHdr) (arg : Option MdAct) (cx : MdAct)
    (harg : ∀ a, arg = some a → Restores a) (hcx : Restores cx) : Restores (asMarkdownOf h arg cx) := by
  unfold asMarkdownOf
  split
  · exact constRes_restores _
  · split
    · exact harg _ rfl
    · exact hcx

mutual
theorem mdResult_restores : ∀ (v : PyVal), Restores (mdResult v)
  | .none => by simp only [mdResult]; exact encode_restores _
  | .bool _ => by simp only [mdResult]; exact encode_restores _
  | .int _ => by simp only [mdResult]; exact encode_restores _
  | .float _ => by simp only [mdResult]; exact encode_restores _
  | .str _ => by simp only [mdResult]; exact encode_restores _
  | .bytes _ => by simp only [mdResult]; exact encode_restores _
  | .enumParams _ _ none => by simp only [mdResult]; exact encode_restores _
  | .enumParams _ _ (some v) => by
    simp only [mdResult]
    exact fun _ lvl σ r σ' hr => mdAsMarkdown_restores v _ lvl σ r σ' hr
  | .enumPlain _ _ v => by
    simp only [mdResult]
    split
    · exact fun _ lvl σ r σ' hr => mdAsMarkdown_restores v _ lvl σ r σ' hr
    · exact encode_restores _
  | .seq true xs => by
    simp only [mdResult]
    exact runSet_restores _ _ (mdActs_restores xs)
  | .seq false xs => by
    simp only [mdResult]
    exact runList_restores _ (mdActs_restores xs)
  | .dict o kvs => by
    simp only [mdResult]
    exact runDict_restores o _ (mdEntries_restores kvs)
  | .opaque hd => by
    simp only [mdResult]
    exact objResult_restores hd _ _ (encode_restores _) (encode_restores _)
  | .hasDict hd vars => by
    have hcx : Restores (runDict false ((mdEntries vars).filter fun e => !isPrivateKey e.key)) :=
      runDict_restores _ _ ((mdEntries_restores vars).filter _)
    simp only [mdResult]
    exact objResult_restores hd _ _ hcx hcx
  | .attrs hd metas fs => by
    have hcx : Restores (runComplex metas ((mdEntries fs).filter fun e => !isPrivateKey e.key && humanFriendlyKey metas e.key)) :=
      runComplex_restores _ _ ((mdEntries_restores fs).filter _)
    simp only [mdResult]
    exact objResult_restores hd _ _ hcx hcx
  | .hasAsdict hd metas none inner => by
    have hcx := mdComplexAsdict_restores inner metas _ (mdResult_restores inner)
    simp only [mdResult]
    refine objResult_restores hd _ _ (asMarkdownOf_restores hd none _ (fun _ h => by cases h) hcx) ?_
    split
    · exact hcx
    · exact mdResult_restores inner
  | .hasAsdict hd metas (some x) inner => by
    have hcx := mdComplexAsdict_restores inner metas _ (mdResult_restores inner)
    have hx := mdResult_restores x
    simp only [mdResult]
    refine objResult_restores hd _ _ (asMarkdownOf_restores hd _ _ (fun a ha => by cases ha; exact hx) hcx) ?_
    split
    · exact hcx
    · exact mdResult_restores inner

theorem mdAsMarkdown_restores : ∀ (v : PyVal), Restores (mdAsMarkdown v)
  | .hasAsdict hd metas none inner => by
    simp only [mdAsMarkdown]
    exact asMarkdownOf_restores hd none _ (fun _ h => by cases h)
      (mdComplexAsdict_restores inner metas _ (mdResult_restores inner))
  | .hasAsdict hd metas (some x) inner => by
    simp only [mdAsMarkdown]
    exact asMarkdownOf_restores hd _ _ (fun a ha => by cases ha; exact mdResult_restores x)
      (mdComplexAsdict_restores inner metas _ (mdResult_restores inner))
  | .none => by simp only [mdAsMarkdown]; exact constRes_restores _
  | .bool _ => by simp only [mdAsMarkdown]; exact constRes_restores _
  | .int _ => by simp only [mdAsMarkdown]; exact constRes_restores _
  | .float _ => by simp only [mdAsMarkdown]; exact constRes_restores _
  | .str _ => by simp only [mdAsMarkdown]; exact constRes_restores _
  | .bytes _ => by simp only [mdAsMarkdown]; exact constRes_restores _
  | .enumParams .. => by simp only [mdAsMarkdown]; exact constRes_restores _
  | .enumPlain .. => by simp only [mdAsMarkdown]; exact constRes_restores _
  | .seq .. => by simp only [mdAsMarkdown]; exact constRes_restores _
  | .dict .. => by simp only [mdAsMarkdown]; exact constRes_restores _
  | .attrs .. => by simp only [mdAsMarkdown]; exact constRes_restores _
  | .hasDict .. => by simp only [mdAsMarkdown]; exact constRes_restores _
  | .opaque .. => by simp only [mdAsMarkdown]; exact constRes_restores _

theorem mdComplexAsdict_restores : ∀ (v : PyVal) (metas : Option (List FieldMeta)) (self : MdAct),
    Restores self → Restores (mdComplexAsdict v metas self)
  | .dict _ kvs, some ms, _, _ => by
    simp only [mdComplexAsdict]
    exact runComplex_restores _ _ ((mdEntries_restores kvs).filter _)
  | .dict _ kvs, none, _, _ => by
    simp only [mdComplexAsdict]
    exact runComplex_restores _ _ (mdEntries_restores kvs)
  | .none, _, _, hs => by simp only [mdComplexAsdict]; exact hs
  | .bool _, _, _, hs => by simp only [mdComplexAsdict]; exact hs
  | .int _, _, _, hs => by simp only [mdComplexAsdict]; exact hs
  | .float _, _, _, hs => by simp only [mdComplexAsdict]; exact hs
  | .str _, _, _, hs => by simp only [mdComplexAsdict]; exact hs
  | .bytes _, _, _, hs => by simp only [mdComplexAsdict]; exact hs
  | .enumParams .., _, _, hs => by simp only [mdComplexAsdict]; exact hs
  | .enumPlain .., _, _, hs => by simp only [mdComplexAsdict]; exact hs
  | .seq .., _, _, hs => by simp only [mdComplexAsdict]; exact hs
  | .hasAsdict .., _, _, hs => by simp only [mdComplexAsdict]; exact hs
  | .attrs .., _, _, hs => by simp only [mdComplexAsdict]; exact hs
  | .hasDict .., _, _, hs => by simp only [mdComplexAsdict]; exact hs
  | .opaque .., _, _, hs => by simp only [mdComplexAsdict]; exact hs

theorem mdActs_restores : ∀ (xs : List PyVal), ∀ a ∈ mdActs xs, Restores a
  | [] => by simp [mdActs]
  | x :: xs => by
    simp only [mdActs, List.mem_cons]
    intro a ha
    rcases ha with rfl | ha
    · exact mdResult_restores x
    · exact mdActs_restores xs a ha

theorem mdEntries_restores : ∀ (kvs : List (PyVal × PyVal)), EntriesRestore (mdEntries kvs)
  | [] => by simp [mdEntries, EntriesRestore]
  | (k, v) :: rest => by
    simp only [mdEntries, EntriesRestore, List.mem_cons]
    intro e he
    rcases he with rfl | he
    · exact ⟨mdResult_restores k, mdResult_restores v⟩
    · exact mdEntries_restores rest e he
end

/-! ## Determinism up to the order of set elements -/

/-! ### the sort -/

theorem perm_insertBy {α : Type} (le : α → α → Bool) (x : α) : ∀ (l : List α), (insertBy le x l).Perm (x :: l)
  | [] => List.Perm.refl _
  | y :: ys => by
    simp only [insertBy]
    split
    · exact List.Perm.refl _
    · exact ((perm_insertBy le x ys).cons y).trans (List.Perm.swap x y ys)

theorem perm_sortBy {α : Type} (le : α → α → Bool) : ∀ (l : List α), (sortBy le l).Perm l
  | [] => List.Perm.refl _
  | x :: xs => by
    simp only [sortBy, List.foldr_cons]
    exact (perm_insertBy le x _).trans ((perm_sortBy le xs).cons x)

theorem sorted_insertBy {α : Type} (le : α → α → Bool) (total : ∀ a b, le a b = true ∨ le b a = true)
    (trans : ∀ a b c, le a b = true → le b c = true → le a c = true) (x : α) :
    ∀ (l : List α), l.Pairwise (fun a b => le a b = true) → (insertBy le x l).Pairwise (fun a b => le a b = true)
  | [], _ => by simp [insertBy]
  | y :: ys, h => by
    simp only [insertBy]
    have hy := List.pairwise_cons.mp h
    split
    · rename_i hxy
      refine List.Pairwise.cons ?_ h
      intro a ha
      rcases List.mem_cons.mp ha with rfl | ha
      · exact hxy
      · exact trans _ _ _ hxy (hy.1 a ha)
    · rename_i hxy
      have hyx : le y x = true := by
        rcases total x y with h | h
        · exact absurd h hxy
        · exact h
      refine List.Pairwise.cons ?_ (sorted_insertBy le total trans x ys hy.2)
      intro a ha
      rcases mem_insertBy le x a ys ha with rfl | ha
      · exact hyx
      · exact hy.1 a ha

theorem sorted_sortBy {α : Type} (le : α → α → Bool) (total : ∀ a b, le a b = true ∨ le b a = true)
    (trans : ∀ a b c, le a b = true → le b c = true → le a c = true) :
    ∀ (l : List α), (sortBy le l).Pairwise (fun a b => le a b = true)
  | [] => by simp [sortBy]
  | x :: xs => by
    simp only [sortBy, List.foldr_cons]
    exact sorted_insertBy le total trans x _ (sorted_sortBy le total trans xs)

/-- two elements of a list whose keys are pairwise distinct are equal if their keys are -/
theorem eq_of_key_eq {α κ : Type} (key : α → κ) : ∀ (l : List α), (l.map key).Nodup → ∀ a ∈ l, ∀ b ∈ l, key a = key b → a = b
  | [], _, a, ha, _, _, _ => by cases ha
  | x :: xs, hn, a, ha, b, hb, hk => by
    simp only [List.map_cons, List.nodup_cons, List.mem_map, not_exists, not_and] at hn
    rcases List.mem_cons.mp ha with hax | ha <;> rcases List.mem_cons.mp hb with hbx | hb
    · rw [hax, hbx]
    · exact absurd (hax ▸ hk).symm (hn.1 b hb)
    · exact absurd (hbx ▸ hk) (hn.1 a ha)
    · exact eq_of_key_eq key xs hn.2 a ha b hb hk

/-- the order `sorted(…, key=…)` puts keyed items in: by key, `str` comparison -/
def keyedLe {β : Type} (a b : String × β) : Bool := decide (a.1 ≤ b.1)

theorem keyedLe_total {β : Type} (a b : String × β) : keyedLe a b = true ∨ keyedLe b a = true := by
  simp only [keyedLe, decide_eq_true_eq]
  exact String.le_total _ _

theorem keyedLe_trans {β : Type} (a b c : String × β) : keyedLe a b = true → keyedLe b c = true → keyedLe a c = true := by
  simp only [keyedLe, decide_eq_true_eq]
  exact String.le_trans

/-- sorting by pairwise distinct keys forgets the order the items came in -/
theorem sortBy_keyed_perm {β : Type} (l l' : List (String × β)) (hp : l.Perm l') (hn : (l.map (·.1)).Nodup) :
    sortBy keyedLe l = sortBy keyedLe l' := by
  refine List.Perm.eq_of_pairwise (le := fun a b => keyedLe a b = true) ?_
    (sorted_sortBy _ keyedLe_total keyedLe_trans l) (sorted_sortBy _ keyedLe_total keyedLe_trans l')
    ((perm_sortBy _ l).trans (hp.trans (perm_sortBy _ l').symm))
  intro a b ha hb hab hba
  simp only [keyedLe, decide_eq_true_eq] at hab hba
  exact eq_of_key_eq (·.1) l hn a (mem_sortBy _ a l ha) b (hp.mem_iff.mpr (mem_sortBy _ b l' hb)) (String.le_antisymm hab hba)

theorem orderSet_eq {α β : Type} (key : α → String) (f : α → β) (xs : List α) :
    orderSet (xs.map key) (xs.map f) = (sortBy keyedLe (xs.map fun x => (key x, f x))).map (·.2) := by
  unfold orderSet
  rw [List.zip_map']
  rfl

/-- `_get_ordered_set` gives equal sets the same order, whatever order they are iterated in, provided distinct
items have distinct keys -/
theorem orderSet_perm {α β : Type} (key : α → String) (f : α → β) (xs ys : List α) (hp : xs.Perm ys)
    (hn : (xs.map key).Nodup) : orderSet (xs.map key) (xs.map f) = orderSet (ys.map key) (ys.map f) := by
  rw [orderSet_eq, orderSet_eq]
  rw [sortBy_keyed_perm _ _ (hp.map fun x => (key x, f x)) (by simpa [List.map_map, Function.comp_def] using hn)]

/-! ### every failure of the JSON traversal is the same `TypeError` -/

def tyErr : PErr := .crash "TypeError"

def OnlyTy {α : Type} (x : Except PErr α) : Prop := ∀ e, x = .error e → e = tyErr

theorem OnlyTy.ok {α : Type} (a : α) : OnlyTy (.ok a : Except PErr α) := fun _ h => by cases h

theorem OnlyTy.pure {α : Type} (a : α) : OnlyTy (pure a : Except PErr α) := fun _ h => by cases h

theorem OnlyTy.bind {α β : Type} {x : Except PErr α} {f : α → Except PErr β} (hx : OnlyTy x) (hf : ∀ a, OnlyTy (f a)) :
    OnlyTy (x >>= f) := by
  intro e h
  cases x with
  | error e' =>
    have : e' = e := by cases h; rfl
    exact this ▸ hx e' rfl
  | ok a => exact hf a e h

theorem orderPairs_onlyTy {β : Type} (o : Bool) (kvs : List (PyVal × β)) : OnlyTy (orderPairs o kvs) := by
  intro e h
  unfold orderPairs at h
  split at h
  · cases h
  · split at h
    · cases h
    · cases h; rfl

mutual
theorem jsonTraverse_onlyTy : ∀ (v : PyVal), OnlyTy (jsonTraverse v)
  | .none => by simp only [jsonTraverse]; exact OnlyTy.ok _
  | .bool _ => by simp only [jsonTraverse]; exact OnlyTy.ok _
  | .int _ => by simp only [jsonTraverse]; exact OnlyTy.ok _
  | .float _ => by simp only [jsonTraverse]; exact OnlyTy.ok _
  | .str _ => by simp only [jsonTraverse]; exact OnlyTy.ok _
  | .bytes _ => by simp only [jsonTraverse]; exact OnlyTy.ok _
  | .opaque _ => by simp only [jsonTraverse]; exact OnlyTy.ok _
  | .enumParams _ _ _ => by simp only [jsonTraverse]; exact OnlyTy.ok _
  | .enumPlain _ _ v => by
    simp only [jsonTraverse]
    exact OnlyTy.bind (jsonNative_onlyTy v) (fun _ => OnlyTy.pure _)
  | .hasAsdict _ _ _ inner => by simp only [jsonTraverse]; exact jsonTraverse_onlyTy inner
  | .dict o kvs => by
    simp only [jsonTraverse]
    exact OnlyTy.bind (jsonKVs_onlyTy kvs) (fun _ => OnlyTy.bind (orderPairs_onlyTy _ _) (fun _ => OnlyTy.pure _))
  | .attrs _ _ fs => by
    simp only [jsonTraverse]
    exact OnlyTy.bind (jsonKVs_onlyTy fs) (fun _ => OnlyTy.pure _)
  | .hasDict _ vars => by
    simp only [jsonTraverse]
    exact OnlyTy.bind (jsonKVs_onlyTy vars) (fun _ => OnlyTy.bind (orderPairs_onlyTy _ _) (fun _ => OnlyTy.pure _))
  | .seq true xs => by
    simp only [jsonTraverse]
    exact OnlyTy.bind (jsonList_onlyTy xs) (fun _ => OnlyTy.pure _)
  | .seq false xs => by
    simp only [jsonTraverse]
    exact OnlyTy.bind (jsonList_onlyTy xs) (fun _ => OnlyTy.pure _)

theorem jsonList_onlyTy : ∀ (xs : List PyVal), OnlyTy (jsonList xs)
  | [] => by simp only [jsonList]; exact OnlyTy.ok _
  | x :: xs => by
    simp only [jsonList]
    exact OnlyTy.bind (jsonTraverse_onlyTy x) (fun _ => OnlyTy.bind (jsonList_onlyTy xs) (fun _ => OnlyTy.pure _))

theorem jsonKVs_onlyTy : ∀ (kvs : List (PyVal × PyVal)), OnlyTy (jsonKVs kvs)
  | [] => by simp only [jsonKVs]; exact OnlyTy.ok _
  | (k, v) :: rest => by
    simp only [jsonKVs]
    exact OnlyTy.bind (jsonTraverse_onlyTy v) (fun _ => OnlyTy.bind (jsonKVs_onlyTy rest) (fun _ => OnlyTy.pure _))

theorem jsonNative_onlyTy : ∀ (v : PyVal), OnlyTy (jsonNative v)
  | .none => by simp only [jsonNative]; exact OnlyTy.ok _
  | .bool _ => by simp only [jsonNative]; exact OnlyTy.ok _
  | .int _ => by simp only [jsonNative]; exact OnlyTy.ok _
  | .float _ => by simp only [jsonNative]; exact OnlyTy.ok _
  | .str _ => by simp only [jsonNative]; exact OnlyTy.ok _
  | .bytes _ => by simp only [jsonNative]; exact OnlyTy.ok _
  | .opaque _ => by simp only [jsonNative]; exact OnlyTy.ok _
  | .enumParams _ _ _ => by simp only [jsonNative]; exact OnlyTy.ok _
  | .enumPlain _ true v => by simp only [jsonNative]; exact jsonNative_onlyTy v
  | .enumPlain _ false v => by
    simp only [jsonNative]
    exact OnlyTy.bind (jsonNative_onlyTy v) (fun _ => OnlyTy.pure _)
  | .hasAsdict _ _ _ inner => by simp only [jsonNative]; exact jsonTraverse_onlyTy inner
  | .dict _ kvs => by
    simp only [jsonNative]
    exact OnlyTy.bind (jsonNativeKVs_onlyTy kvs) (fun _ => OnlyTy.pure _)
  | .attrs _ _ fs => by
    simp only [jsonNative]
    exact OnlyTy.bind (jsonKVs_onlyTy fs) (fun _ => OnlyTy.pure _)
  | .hasDict _ vars => by
    simp only [jsonNative]
    exact OnlyTy.bind (jsonKVs_onlyTy vars) (fun _ => OnlyTy.bind (orderPairs_onlyTy _ _) (fun _ => OnlyTy.pure _))
  | .seq true xs => by
    simp only [jsonNative]
    exact OnlyTy.bind (jsonList_onlyTy xs) (fun _ => OnlyTy.pure _)
  | .seq false xs => by
    simp only [jsonNative]
    exact OnlyTy.bind (jsonNativeList_onlyTy xs) (fun _ => OnlyTy.pure _)

theorem jsonNativeList_onlyTy : ∀ (xs : List PyVal), OnlyTy (jsonNativeList xs)
  | [] => by simp only [jsonNativeList]; exact OnlyTy.ok _
  | x :: xs => by
    simp only [jsonNativeList]
    exact OnlyTy.bind (jsonNative_onlyTy x) (fun _ => OnlyTy.bind (jsonNativeList_onlyTy xs) (fun _ => OnlyTy.pure _))

theorem jsonNativeKVs_onlyTy : ∀ (kvs : List (PyVal × PyVal)), OnlyTy (jsonNativeKVs kvs)
  | [] => by simp only [jsonNativeKVs]; exact OnlyTy.ok _
  | (k, v) :: rest => by
    simp only [jsonNativeKVs]
    split
    · intro e h
      obtain _ | _ := h
      rfl
    · exact OnlyTy.bind (jsonNative_onlyTy v) (fun _ => OnlyTy.bind (jsonNativeKVs_onlyTy rest) (fun _ => OnlyTy.pure _))
end

/-! ### the key `_get_ordered_set` sorts by -/

/-- `jsonList` either traverses every item or raises the `TypeError` -/
theorem jsonList_char : ∀ (xs : List PyVal), jsonList xs = if xs.all jsonOk then .ok (xs.map jsonOf) else .error tyErr
  | [] => by simp [jsonList]
  | x :: xs => by
    simp only [jsonList, List.all_cons, List.map_cons]
    rw [jsonList_char xs]
    cases hx : jsonTraverse x with
    | error e =>
      have := jsonTraverse_onlyTy x e hx
      subst this
      simp [jsonOk, hx, bind, Except.bind]
    | ok j =>
      by_cases hall : xs.all jsonOk = true
      · simp [jsonOk, jsonOf, hx, hall, bind, Except.bind, pure, Except.pure]
      · simp [jsonOk, hx, hall, bind, Except.bind]

theorem mdActs_eq_map : ∀ (xs : List PyVal), mdActs xs = xs.map mdResult
  | [] => by simp [mdActs]
  | x :: xs => by simp [mdActs, mdActs_eq_map xs]

theorem distinctKeysL_iff : ∀ (xs : List PyVal), distinctKeysL xs = true ↔ ∀ x ∈ xs, distinctKeys x = true
  | [] => by simp [distinctKeysL]
  | x :: xs => by simp [distinctKeysL, distinctKeysL_iff xs]

theorem distinctKeysKV_iff : ∀ (kvs : List (PyVal × PyVal)),
    distinctKeysKV kvs = true ↔ ∀ p ∈ kvs, distinctKeys p.1 = true ∧ distinctKeys p.2 = true
  | [] => by simp [distinctKeysKV]
  | (k, v) :: rest => by simp [distinctKeysKV, distinctKeysKV_iff rest, and_assoc]

/-! ### values that differ in the iteration order of sets -/

/-- `SetStep v v'`: `v'` is `v` with the elements of ONE set somewhere inside listed in another order
(the two Python values are equal: `set`s do not have an order). -/
inductive SetStep : PyVal → PyVal → Prop
  | here (xs ys : List PyVal) : xs.Perm ys → SetStep (.seq true xs) (.seq true ys)
  | inSeq (k : Bool) (pre post : List PyVal) (a b : PyVal) :
      SetStep a b → SetStep (.seq k (pre ++ a :: post)) (.seq k (pre ++ b :: post))
  | inDictKey (o : Bool) (pre post : List (PyVal × PyVal)) (a b v : PyVal) :
      SetStep a b → SetStep (.dict o (pre ++ (a, v) :: post)) (.dict o (pre ++ (b, v) :: post))
  | inDictVal (o : Bool) (pre post : List (PyVal × PyVal)) (k a b : PyVal) :
      SetStep a b → SetStep (.dict o (pre ++ (k, a) :: post)) (.dict o (pre ++ (k, b) :: post))
  | inEnumParams (n vs : String) (a b : PyVal) :
      SetStep a b → SetStep (.enumParams n vs (some a)) (.enumParams n vs (some b))
  | inEnumPlain (n : String) (nat : Bool) (a b : PyVal) :
      SetStep a b → SetStep (.enumPlain n nat a) (.enumPlain n nat b)
  | inAsdictArg (h : ObjHdr) (m : Option (List FieldMeta)) (inner a b : PyVal) :
      SetStep a b → SetStep (.hasAsdict h m (some a) inner) (.hasAsdict h m (some b) inner)
  | inAsdictInner (h : ObjHdr) (m : Option (List FieldMeta)) (arg : Option PyVal) (a b : PyVal) :
      SetStep a b → SetStep (.hasAsdict h m arg a) (.hasAsdict h m arg b)
  | inAttrs (h : ObjHdr) (m : List FieldMeta) (pre post : List (PyVal × PyVal)) (k a b : PyVal) :
      SetStep a b → SetStep (.attrs h m (pre ++ (k, a) :: post)) (.attrs h m (pre ++ (k, b) :: post))
  | inHasDict (h : ObjHdr) (pre post : List (PyVal × PyVal)) (k a b : PyVal) :
      SetStep a b → SetStep (.hasDict h (pre ++ (k, a) :: post)) (.hasDict h (pre ++ (k, b) :: post))

/-- equal up to the order of elements inside sets: any number of such steps -/
inductive SetEquiv : PyVal → PyVal → Prop
  | refl (v : PyVal) : SetEquiv v v
  | step {a b c : PyVal} : SetStep a b → SetEquiv b c → SetEquiv a c

@[inherit_doc] infix:50 " ≈ₛ " => SetEquiv

theorem setStep_hdr {a b : PyVal} (s : SetStep a b) : a.hdr? = b.hdr? := by
  cases s <;> rfl

theorem isSer_congr {a b : PyVal} (h : a.hdr? = b.hdr?) : a.isSer = b.isSer := by
  simp only [PyVal.isSer, h]

theorem clsOf_congr {a b : PyVal} (h : a.hdr? = b.hdr?) : a.clsOf = b.clsOf := by
  simp only [PyVal.clsOf, h]

/-! ### one changed element in the middle of a list -/

theorem jsonList_mid (a b : PyVal) (h : jsonTraverse a = jsonTraverse b) (post : List PyVal) :
    ∀ (pre : List PyVal), jsonList (pre ++ a :: post) = jsonList (pre ++ b :: post)
  | [] => by simp only [List.nil_append, jsonList, h]
  | p :: pre => by simp only [List.cons_append, jsonList, jsonList_mid a b h post pre]

theorem jsonNativeList_mid (a b : PyVal) (h : jsonNative a = jsonNative b) (post : List PyVal) :
    ∀ (pre : List PyVal), jsonNativeList (pre ++ a :: post) = jsonNativeList (pre ++ b :: post)
  | [] => by simp only [List.nil_append, jsonNativeList, h]
  | p :: pre => by simp only [List.cons_append, jsonNativeList, jsonNativeList_mid a b h post pre]

theorem jsonKVs_mid (k a b : PyVal) (h : jsonTraverse a = jsonTraverse b) (post : List (PyVal × PyVal)) :
    ∀ (pre : List (PyVal × PyVal)), jsonKVs (pre ++ (k, a) :: post) = jsonKVs (pre ++ (k, b) :: post)
  | [] => by simp only [List.nil_append, jsonKVs, h]
  | (pk, pv) :: pre => by simp only [List.cons_append, jsonKVs, jsonKVs_mid k a b h post pre]

theorem jsonNativeKVs_mid (k a b : PyVal) (h : jsonNative a = jsonNative b) (post : List (PyVal × PyVal)) :
    ∀ (pre : List (PyVal × PyVal)), jsonNativeKVs (pre ++ (k, a) :: post) = jsonNativeKVs (pre ++ (k, b) :: post)
  | [] => by simp only [List.nil_append, jsonNativeKVs, h]
  | (pk, pv) :: pre => by simp only [List.cons_append, jsonNativeKVs, jsonNativeKVs_mid k a b h post pre]

theorem mdActs_mid (a b : PyVal) (h : mdResult a = mdResult b) (post : List PyVal) :
    ∀ (pre : List PyVal), mdActs (pre ++ a :: post) = mdActs (pre ++ b :: post)
  | [] => by simp only [List.nil_append, mdActs, h]
  | p :: pre => by simp only [List.cons_append, mdActs, mdActs_mid a b h post pre]

theorem mdEntries_mid (k a b : PyVal) (h : mdResult a = mdResult b) (post : List (PyVal × PyVal)) :
    ∀ (pre : List (PyVal × PyVal)), mdEntries (pre ++ (k, a) :: post) = mdEntries (pre ++ (k, b) :: post)
  | [] => by simp only [List.nil_append, mdEntries, h]
  | (pk, pv) :: pre => by simp only [List.cons_append, mdEntries, mdEntries_mid k a b h post pre]

theorem distinctKeysL_mid (pre post : List PyVal) (a : PyVal) (h : distinctKeysL (pre ++ a :: post) = true) :
    distinctKeys a = true ∧ ∀ b, distinctKeys b = true → distinctKeysL (pre ++ b :: post) = true := by
  rw [distinctKeysL_iff] at h
  refine ⟨h a (by simp), fun b hb => ?_⟩
  rw [distinctKeysL_iff]
  intro x hx
  simp only [List.mem_append, List.mem_cons] at hx
  rcases hx with hx | rfl | hx
  · exact h x (by simp [hx])
  · exact hb
  · exact h x (by simp [hx])

theorem distinctKeysKV_mid (pre post : List (PyVal × PyVal)) (k a : PyVal) (h : distinctKeysKV (pre ++ (k, a) :: post) = true) :
    distinctKeys a = true ∧ ∀ b, distinctKeys b = true → distinctKeysKV (pre ++ (k, b) :: post) = true := by
  rw [distinctKeysKV_iff] at h
  refine ⟨(h (k, a) (by simp)).2, fun b hb => ?_⟩
  rw [distinctKeysKV_iff]
  intro x hx
  simp only [List.mem_append, List.mem_cons] at hx
  rcases hx with hx | rfl | hx
  · exact h x (by simp [hx])
  · exact ⟨(h (k, a) (by simp)).1, hb⟩
  · exact h x (by simp [hx])

/-! ### a set inside a dict key -/

/-- two lists related element by element -/
inductive Rel₂ {α : Type} (R : α → α → Prop) : List α → List α → Prop
  | nil : Rel₂ R [] []
  | cons {a b : α} {l l' : List α} : R a b → Rel₂ R l l' → Rel₂ R (a :: l) (b :: l')

theorem Rel₂.refl {α : Type} {R : α → α → Prop} (hr : ∀ x, R x x) : ∀ (l : List α), Rel₂ R l l
  | [] => .nil
  | x :: xs => .cons (hr x) (Rel₂.refl hr xs)

theorem Rel₂.mid {α : Type} {R : α → α → Prop} (hr : ∀ x, R x x) {p q : α} (h : R p q) (post : List α) :
    ∀ (pre : List α), Rel₂ R (pre ++ p :: post) (pre ++ q :: post)
  | [] => .cons h (Rel₂.refl hr post)
  | x :: pre => .cons (hr x) (Rel₂.mid hr h post pre)

theorem Rel₂.map {α β : Type} {R : α → α → Prop} {S : β → β → Prop} (g g' : α → β) (h : ∀ p q, R p q → S (g p) (g' q)) :
    ∀ {l l' : List α}, Rel₂ R l l' → Rel₂ S (l.map g) (l'.map g')
  | _, _, .nil => .nil
  | _, _, .cons hab ht => .cons (h _ _ hab) (Rel₂.map g g' h ht)

theorem Rel₂.map_eq {α γ : Type} {R : α → α → Prop} (f f' : α → γ) (hf : ∀ p q, R p q → f p = f' q) :
    ∀ {l l' : List α}, Rel₂ R l l' → l.map f = l'.map f'
  | _, _, .nil => rfl
  | _, _, .cons hab ht => by simp only [List.map_cons, hf _ _ hab, Rel₂.map_eq f f' hf ht]

theorem Rel₂.all_eq {α : Type} {R : α → α → Prop} (f : α → Bool) (hf : ∀ p q, R p q → f p = f q) :
    ∀ {l l' : List α}, Rel₂ R l l' → l.all f = l'.all f
  | _, _, .nil => rfl
  | _, _, .cons hab ht => by simp only [List.all_cons, hf _ _ hab, Rel₂.all_eq f hf ht]

theorem Rel₂.length_eq {α : Type} {R : α → α → Prop} : ∀ {l l' : List α}, Rel₂ R l l' → l.length = l'.length
  | _, _, .nil => rfl
  | _, _, .cons _ ht => by simp only [List.length_cons, Rel₂.length_eq ht]

theorem Rel₂.filter {α : Type} {R : α → α → Prop} (f : α → Bool) (hf : ∀ p q, R p q → f p = f q) :
    ∀ {l l' : List α}, Rel₂ R l l' → Rel₂ R (l.filter f) (l'.filter f)
  | _, _, .nil => .nil
  | _, _, .cons (a := a) (b := b) hab ht => by
    simp only [List.filter_cons, hf _ _ hab]
    cases f b
    · exact Rel₂.filter f hf ht
    · exact .cons hab (Rel₂.filter f hf ht)

theorem Rel₂.insertBy {α : Type} {R : α → α → Prop} (le : α → α → Bool)
    (hle : ∀ p q p' q', R p q → R p' q' → le p p' = le q q') {x x' : α} (hx : R x x') :
    ∀ {l l' : List α}, Rel₂ R l l' → Rel₂ R (insertBy le x l) (insertBy le x' l')
  | _, _, .nil => .cons hx .nil
  | _, _, .cons (a := y) (b := y') hy ht => by
    simp only [Cp.Serial.insertBy, hle _ _ _ _ hx hy]
    cases le x' y'
    · exact .cons hy (Rel₂.insertBy le hle hx ht)
    · exact .cons hx (.cons hy ht)

theorem Rel₂.sortBy {α : Type} {R : α → α → Prop} (le : α → α → Bool)
    (hle : ∀ p q p' q', R p q → R p' q' → le p p' = le q q') :
    ∀ {l l' : List α}, Rel₂ R l l' → Rel₂ R (sortBy le l) (sortBy le l')
  | _, _, .nil => .nil
  | _, _, .cons hab ht => by
    simp only [Cp.Serial.sortBy, List.foldr_cons]
    exact Rel₂.insertBy le hle hab (Rel₂.sortBy le hle ht)

/-- `some s` for the key `s : str` -/
def PyVal.strKey? : PyVal → Option String
  | .str s => Option.some s
  | _ => Option.none

/-- `a` and `b` are interchangeable as dict keys: everything `_get_ordered_dict`, `json.dumps` and
`_markdown_human_readable_names` ask of a key has the same answer -/
structure KeySim (a b : PyVal) : Prop where
  text : keyString a = keyString b
  leL : ∀ x, keyLe a x = keyLe b x
  leR : ∀ x, keyLe x a = keyLe x b
  enum : a.isEnum = b.isEnum
  cls : keyClass a = keyClass b
  native : nativeKeyOk a = nativeKeyOk b
  str : a.strKey? = b.strKey?

theorem KeySim.refl (a : PyVal) : KeySim a a := ⟨rfl, fun _ => rfl, fun _ => rfl, rfl, rfl, rfl, rfl⟩

theorem KeySim.le {a a' b b' : PyVal} (h : KeySim a b) (h' : KeySim a' b') : keyLe a a' = keyLe b b' :=
  (h.leL a').trans (h'.leR b)

/-- a key keeps its name, class and text when a set inside it is listed in another order -/
theorem setStep_keySim {a b : PyVal} (s : SetStep a b) : KeySim a b := by
  cases s <;> exact ⟨rfl, fun x => by cases x <;> rfl, fun x => by cases x <;> rfl, rfl, rfl, rfl, rfl⟩

/-- pairs whose keys are interchangeable and whose payloads are related -/
def PairSim {β : Type} (R : β → β → Prop) (p q : PyVal × β) : Prop := KeySim p.1 q.1 ∧ R p.2 q.2

theorem keysSortable_sim {l l' : List PyVal} (h : Rel₂ KeySim l l') : keysSortable l = keysSortable l' := by
  unfold keysSortable
  rw [Rel₂.all_eq (·.isEnum) (fun _ _ hk => hk.enum) h, Rel₂.length_eq h,
    Rel₂.all_eq (fun k => keyClass k == .str) (fun _ _ hk => by simp only [hk.cls]) h,
    Rel₂.all_eq (fun k => keyClass k == .num) (fun _ _ hk => by simp only [hk.cls]) h,
    Rel₂.all_eq (fun k => keyClass k == .bytes) (fun _ _ hk => by simp only [hk.cls]) h]

/-- `_get_ordered_dict` on related pair lists: the same failure, or related results -/
theorem orderPairs_sim {β : Type} {R : β → β → Prop} (o : Bool) {l l' : List (PyVal × β)} (h : Rel₂ (PairSim R) l l') :
    (∃ r r', orderPairs o l = .ok r ∧ orderPairs o l' = .ok r' ∧ Rel₂ (PairSim R) r r') ∨
    (∃ e, orderPairs o l = .error e ∧ orderPairs o l' = .error e) := by
  unfold orderPairs
  cases o with
  | true => exact Or.inl ⟨l, l', rfl, rfl, h⟩
  | false =>
    have hk : keysSortable (l.map (·.1)) = keysSortable (l'.map (·.1)) :=
      keysSortable_sim (Rel₂.map (·.1) (·.1) (fun _ _ hp => hp.1) h)
    simp only [Bool.false_eq_true, ↓reduceIte, hk]
    cases keysSortable (l'.map (·.1)) with
    | true =>
      refine Or.inl ⟨_, _, rfl, rfl, Rel₂.sortBy _ ?_ h⟩
      exact fun _ _ _ _ hp hp' => hp.1.le hp'.1
    | false => exact Or.inr ⟨_, rfl, rfl⟩

/-- `jsonKVs` either traverses every value or raises the `TypeError` -/
theorem jsonKVs_char : ∀ (kvs : List (PyVal × PyVal)),
    jsonKVs kvs = if kvs.all (fun kv => jsonOk kv.2) then .ok (kvs.map fun kv => (kv.1, jsonOf kv.2)) else .error tyErr
  | [] => by simp [jsonKVs]
  | (k, v) :: rest => by
    simp only [jsonKVs, List.all_cons, List.map_cons]
    rw [jsonKVs_char rest]
    cases hx : jsonTraverse v with
    | error e =>
      have := jsonTraverse_onlyTy v e hx
      subst this
      simp [jsonOk, hx, bind, Except.bind]
    | ok j =>
      have hv : jsonOk v = true := by simp [jsonOk, hx]
      have hj : jsonOf v = j := by simp [jsonOf, hx]
      by_cases hall : rest.all (fun kv => jsonOk kv.2) = true
      · simp only [hall, hv, hj, Bool.true_and, ↓reduceIte, bind, Except.bind, pure, Except.pure]
      · simp only [hall, hv, Bool.true_and, Bool.false_eq_true, ↓reduceIte, bind, Except.bind]

/-- the JSON object built from related item lists -/
theorem obj_of_sim (o : Bool) {items items' : List (PyVal × Json)} (h : Rel₂ (PairSim Eq) items items') :
    (orderPairs o items >>= fun sorted => (pure (Json.obj (sorted.map fun kv => (keyString kv.1, kv.2))) : Except PErr Json)) =
    (orderPairs o items' >>= fun sorted => (pure (Json.obj (sorted.map fun kv => (keyString kv.1, kv.2))) : Except PErr Json)) := by
  rcases orderPairs_sim o h with ⟨r, r', h1, h2, hr⟩ | ⟨e, h1, h2⟩
  · rw [h1, h2]
    simp only [bind, Except.bind, pure, Except.pure]
    rw [Rel₂.map_eq (fun kv : PyVal × Json => (keyString kv.1, kv.2)) (fun kv => (keyString kv.1, kv.2))
      (fun p q hp => by rw [hp.1.text, hp.2]) hr]
  · rw [h1, h2]

theorem dict_traverse_key_mid (o : Bool) (pre post : List (PyVal × PyVal)) (a b v : PyVal) (hk : KeySim a b) :
    jsonTraverse (.dict o (pre ++ (a, v) :: post)) = jsonTraverse (.dict o (pre ++ (b, v) :: post)) := by
  simp only [jsonTraverse]
  rw [jsonKVs_char, jsonKVs_char]
  have hc : (pre ++ (a, v) :: post).all (fun kv => jsonOk kv.2) = (pre ++ (b, v) :: post).all (fun kv => jsonOk kv.2) := by
    simp only [List.all_append, List.all_cons]
  rw [hc]
  split
  · simp only [bind, Except.bind]
    refine obj_of_sim o ?_
    simp only [List.map_append, List.map_cons]
    exact Rel₂.mid (fun x => ⟨KeySim.refl _, rfl⟩) ⟨hk, rfl⟩ _ _
  · rfl

theorem jsonNativeKVs_key_mid (a b v : PyVal) (hk : KeySim a b) (post : List (PyVal × PyVal)) :
    ∀ (pre : List (PyVal × PyVal)), jsonNativeKVs (pre ++ (a, v) :: post) = jsonNativeKVs (pre ++ (b, v) :: post)
  | [] => by simp only [List.nil_append, jsonNativeKVs, hk.native, hk.text]
  | (pk, pv) :: pre => by simp only [List.cons_append, jsonNativeKVs, jsonNativeKVs_key_mid a b v hk post pre]

/-- entries that render alike: interchangeable keys, the same suspended calls -/
def EntrySim (e e' : MdEntry) : Prop := KeySim e.key e'.key ∧ e.keyAct = e'.keyAct ∧ e.valAct = e'.valAct

theorem EntrySim.refl (e : MdEntry) : EntrySim e e := ⟨KeySim.refl _, rfl, rfl⟩

theorem strKey?_eq_some {k : PyVal} {s : String} (h : k.strKey? = some s) : k = .str s := by
  cases k <;> simp only [PyVal.strKey?] at h <;> first | (cases h; rfl) | cases h

theorem nameOf_of_str (metas : List FieldMeta) (e : MdEntry) (s : String) (h : e.key = .str s) (cls : String) (σ : EncState) :
    nameOf metas e cls σ = nameOf metas ⟨.str s, e.keyAct, e.valAct⟩ cls σ := by
  cases e with | mk k ka va => simp only at h; subst h; rfl

theorem nameOf_of_not_str (metas : List FieldMeta) (e : MdEntry) (h : e.key.strKey? = none) (cls : String) (σ : EncState) :
    nameOf metas e cls σ = nameOf metas ⟨.none, e.keyAct, e.valAct⟩ cls σ := by
  cases e with | mk k ka va =>
  cases k <;> first | rfl | (simp only [PyVal.strKey?] at h; cases h)

theorem nameOf_sim (metas : List FieldMeta) {e e' : MdEntry} (h : EntrySim e e') (cls : String) (σ : EncState) :
    nameOf metas e cls σ = nameOf metas e' cls σ := by
  obtain ⟨hk, hka, hva⟩ := h
  cases hs : e.key.strKey? with
  | some s =>
    have h1 := strKey?_eq_some hs
    have h2 := strKey?_eq_some (hk.str.symm.trans hs)
    rw [nameOf_of_str metas e s h1, nameOf_of_str metas e' s h2, hka, hva]
  | none =>
    rw [nameOf_of_not_str metas e hs, nameOf_of_not_str metas e' (hk.str.symm.trans hs), hka, hva]

theorem namesOf_sim (metas : List FieldMeta) (cls : String) : ∀ {es es' : List MdEntry}, Rel₂ EntrySim es es' →
    ∀ σ, namesOf metas cls es σ = namesOf metas cls es' σ
  | _, _, .nil, _ => rfl
  | _, _, .cons he ht, σ => by
    simp only [namesOf, nameOf_sim metas he cls σ]
    congr 1
    funext r
    rw [namesOf_sim metas cls ht r.2]

theorem complexItems_sim (cls : String) (level : Nat) : ∀ {es es' : List MdEntry}, Rel₂ EntrySim es es' →
    ∀ (names : List String) (acc : String) (σ : EncState),
    complexItems cls level (names.zip es) acc σ = complexItems cls level (names.zip es') acc σ
  | _, _, .nil, _, _, _ => by simp only [List.zip_nil_right]
  | _, _, .cons he ht, [], _, _ => by simp only [List.zip_nil_left]
  | _, _, .cons he ht, n :: names, acc, σ => by
    simp only [List.zip_cons_cons, complexItems, he.2.2]
    congr 1
    funext r
    exact complexItems_sim cls level ht names _ r.2

theorem runComplex_sim (metas : List FieldMeta) {es es' : List MdEntry} (h : Rel₂ EntrySim es es') :
    runComplex metas es = runComplex metas es' := by
  funext cls level σ
  simp only [runComplex, namesOf_sim metas cls h σ]
  congr 1
  funext r
  rw [complexItems_sim cls level h r.1 "" r.2]

theorem runDict_sim (o : Bool) {es es' : List MdEntry} (h : Rel₂ EntrySim es es') : runDict o es = runDict o es' := by
  funext cls level σ
  unfold runDict
  have hp : Rel₂ (PairSim EntrySim) (es.map fun e => (e.key, e)) (es'.map fun e => (e.key, e)) :=
    Rel₂.map _ _ (fun _ _ he => ⟨he.1, he⟩) h
  rcases orderPairs_sim o hp with ⟨r, r', h1, h2, hr⟩ | ⟨e, h1, h2⟩
  · rw [h1, h2]
    simp only [bind, Except.bind]
    rw [runComplex_sim [] (Rel₂.map (·.2) (·.2) (fun _ _ hq => hq.2) hr)]
  · rw [h1, h2]

theorem mdEntries_key_mid (a b v : PyVal) (hk : KeySim a b) (hm : mdResult a = mdResult b) (post : List (PyVal × PyVal)) :
    ∀ (pre : List (PyVal × PyVal)), Rel₂ EntrySim (mdEntries (pre ++ (a, v) :: post)) (mdEntries (pre ++ (b, v) :: post))
  | [] => by
    simp only [List.nil_append, mdEntries]
    exact .cons ⟨hk, hm, rfl⟩ (Rel₂.refl EntrySim.refl _)
  | (pk, pv) :: pre => by
    simp only [List.cons_append, mdEntries]
    exact .cons (EntrySim.refl _) (mdEntries_key_mid a b v hk hm post pre)

theorem humanFriendlyKey_sim (metas : List FieldMeta) {k k' : PyVal} (h : KeySim k k') :
    humanFriendlyKey metas k = humanFriendlyKey metas k' := by
  cases hs : k.strKey? with
  | some s =>
    have h1 := strKey?_eq_some hs
    have h2 := strKey?_eq_some (h.str.symm.trans hs)
    rw [h1, h2]
  | none =>
    have h' : k'.strKey? = none := h.str.symm.trans hs
    have e1 : humanFriendlyKey metas k = true := by
      cases k <;> first | rfl | (simp only [PyVal.strKey?] at hs; cases hs)
    have e2 : humanFriendlyKey metas k' = true := by
      cases k' <;> first | rfl | (simp only [PyVal.strKey?] at h'; cases h')
    rw [e1, e2]

theorem distinctKeysKV_key_mid (pre post : List (PyVal × PyVal)) (a v : PyVal) (h : distinctKeysKV (pre ++ (a, v) :: post) = true) :
    distinctKeys a = true ∧ ∀ b, distinctKeys b = true → distinctKeysKV (pre ++ (b, v) :: post) = true := by
  rw [distinctKeysKV_iff] at h
  refine ⟨(h (a, v) (by simp)).1, fun b hb => ?_⟩
  rw [distinctKeysKV_iff]
  intro x hx
  simp only [List.mem_append, List.mem_cons] at hx
  rcases hx with hx | rfl | hx
  · exact h x (by simp [hx])
  · exact ⟨hb, (h (a, v) (by simp)).2⟩
  · exact h x (by simp [hx])

/-! ### one step leaves every rendering unchanged -/

/-- what a `SetStep a b` preserves -/
structure StepInv (a b : PyVal) : Prop where
  traverse : jsonTraverse a = jsonTraverse b
  native : jsonNative a = jsonNative b
  md : mdResult a = mdResult b
  asMd : mdAsMarkdown a = mdAsMarkdown b
  complex : ∀ m self, mdComplexAsdict a m self = mdComplexAsdict b m self
  distinct : distinctKeys b = true

theorem setKey_congr {a b : PyVal} (h : jsonTraverse a = jsonTraverse b) : setKey a = setKey b := by
  simp only [setKey, jsonOf, h]

/-- the three renderings of a set: a function of the multiset of its elements -/
theorem set_renderings_perm (xs ys : List PyVal) (hp : xs.Perm ys) (hn : (xs.map setKey).Nodup) :
    jsonTraverse (.seq true xs) = jsonTraverse (.seq true ys) ∧ jsonNative (.seq true xs) = jsonNative (.seq true ys) ∧
    mdResult (.seq true xs) = mdResult (.seq true ys) := by
  have hj : ∀ l : List PyVal, (l.map jsonOf).map Json.render = l.map setKey := fun l => by
    simp [List.map_map, Function.comp_def, setKey]
  have hjson : (jsonList xs >>= fun js => (pure (Json.arr (orderSet (js.map Json.render) js)) : Except PErr Json)) =
      (jsonList ys >>= fun js => (pure (Json.arr (orderSet (js.map Json.render) js)) : Except PErr Json)) := by
    rw [jsonList_char xs, jsonList_char ys, hp.all_eq]
    split
    · simp only [bind, Except.bind, hj]
      have := orderSet_perm setKey jsonOf xs ys hp hn
      rw [this]
    · rfl
  refine ⟨by simpa only [jsonTraverse] using hjson, by simpa only [jsonNative] using hjson, ?_⟩
  simp only [mdResult]
  rw [jsonList_char xs, jsonList_char ys, hp.all_eq, mdActs_eq_map, mdActs_eq_map]
  split
  · funext cls lvl σ
    simp only [runSet, hj]
    rw [orderSet_perm setKey mdResult xs ys hp hn]
  · rfl

theorem setStep_inv {a b : PyVal} (s : SetStep a b) : distinctKeys a = true → StepInv a b := by
  induction s with
  | here xs ys hp =>
    intro hd
    simp only [distinctKeys, Bool.not_true, Bool.false_or, Bool.and_eq_true, decide_eq_true_eq] at hd
    obtain ⟨h1, h2, h3⟩ := set_renderings_perm xs ys hp hd.1
    refine ⟨h1, h2, h3, rfl, fun m self => by cases m <;> rfl, ?_⟩
    simp only [distinctKeys, Bool.not_true, Bool.false_or, Bool.and_eq_true, decide_eq_true_eq]
    refine ⟨(hp.map setKey).nodup hd.1, ?_⟩
    rw [distinctKeysL_iff] at hd ⊢
    exact fun x hx => hd.2 x (hp.mem_iff.mpr hx)
  | inSeq k pre post a b _ ih =>
    intro hd
    simp only [distinctKeys, Bool.and_eq_true] at hd
    obtain ⟨ha, hrest⟩ := distinctKeysL_mid pre post a hd.2
    have iv := ih ha
    have hkeys : (pre ++ a :: post).map setKey = (pre ++ b :: post).map setKey := by
      simp only [List.map_append, List.map_cons, setKey_congr iv.traverse]
    refine ⟨?_, ?_, ?_, ?_, fun m self => by cases m <;> rfl, ?_⟩
    · cases k <;> simp only [jsonTraverse, jsonList_mid a b iv.traverse post pre]
    · cases k
      · simp only [jsonNative, jsonNativeList_mid a b iv.native post pre]
      · simp only [jsonNative, jsonList_mid a b iv.traverse post pre]
    · cases k
      · simp only [mdResult, mdActs_mid a b iv.md post pre]
      · simp only [mdResult, mdActs_mid a b iv.md post pre, jsonList_mid a b iv.traverse post pre]
    · cases k <;> rfl
    · simp only [distinctKeys, Bool.and_eq_true]
      exact ⟨hkeys ▸ hd.1, hrest b iv.distinct⟩
  | inDictKey o pre post a b v s ih =>
    intro hd
    simp only [distinctKeys] at hd
    obtain ⟨ha, hrest⟩ := distinctKeysKV_key_mid pre post a v hd
    have iv := ih ha
    have hk := setStep_keySim s
    have hes := mdEntries_key_mid a b v hk iv.md post pre
    refine ⟨dict_traverse_key_mid o pre post a b v hk, ?_, ?_, rfl, ?_, ?_⟩
    · simp only [jsonNative, jsonNativeKVs_key_mid a b v hk post pre]
    · simp only [mdResult]
      exact runDict_sim o hes
    · intro m self
      cases m with
      | none => simp only [mdComplexAsdict]; exact runComplex_sim [] hes
      | some ms =>
        simp only [mdComplexAsdict]
        exact runComplex_sim ms (Rel₂.filter _ (fun _ _ he => humanFriendlyKey_sim ms he.1) hes)
    · simp only [distinctKeys]
      exact hrest b iv.distinct
  | inDictVal o pre post k a b _ ih =>
    intro hd
    simp only [distinctKeys] at hd
    obtain ⟨ha, hrest⟩ := distinctKeysKV_mid pre post k a hd
    have iv := ih ha
    refine ⟨?_, ?_, ?_, rfl, ?_, ?_⟩
    · simp only [jsonTraverse, jsonKVs_mid k a b iv.traverse post pre]
    · simp only [jsonNative, jsonNativeKVs_mid k a b iv.native post pre]
    · simp only [mdResult, mdEntries_mid k a b iv.md post pre]
    · intro m self
      cases m <;> simp only [mdComplexAsdict, mdEntries_mid k a b iv.md post pre]
    · simp only [distinctKeys]
      exact hrest b iv.distinct
  | inEnumParams n vs a b s ih =>
    intro hd
    simp only [distinctKeys] at hd
    have iv := ih hd
    have hh := setStep_hdr s
    refine ⟨rfl, rfl, ?_, rfl, fun m self => by cases m <;> rfl, ?_⟩
    · simp only [mdResult]
      rw [clsOf_congr hh, iv.asMd]
    · simp only [distinctKeys]
      exact iv.distinct
  | inEnumPlain n nat a b s ih =>
    intro hd
    simp only [distinctKeys] at hd
    have iv := ih hd
    have hh := setStep_hdr s
    refine ⟨?_, ?_, ?_, rfl, fun m self => by cases m <;> rfl, ?_⟩
    · simp only [jsonTraverse, iv.native]
    · cases nat <;> simp only [jsonNative, iv.native]
    · simp only [mdResult]
      rw [isSer_congr hh, clsOf_congr hh, iv.asMd]
    · simp only [distinctKeys]
      exact iv.distinct
  | inAsdictArg hd m inner a b _ ih =>
    intro hdk
    simp only [distinctKeys, Bool.and_eq_true] at hdk
    have iv := ih hdk.1
    refine ⟨rfl, rfl, ?_, ?_, fun m self => by cases m <;> rfl, ?_⟩
    · simp only [mdResult, iv.md]
    · simp only [mdAsMarkdown, iv.md]
    · simp only [distinctKeys, Bool.and_eq_true]
      exact ⟨iv.distinct, hdk.2⟩
  | inAsdictInner hd m arg a b _ ih =>
    intro hdk
    have ha : distinctKeys a = true := by
      cases arg <;> simp only [distinctKeys, Bool.and_eq_true] at hdk
      · exact hdk
      · exact hdk.2
    have iv := ih ha
    refine ⟨?_, ?_, ?_, ?_, fun m self => by cases m <;> rfl, ?_⟩
    · simp only [jsonTraverse, iv.traverse]
    · simp only [jsonNative, iv.traverse]
    · cases arg <;> simp only [mdResult, iv.md, iv.complex]
    · cases arg <;> simp only [mdAsMarkdown, iv.md, iv.complex]
    · cases arg <;> simp only [distinctKeys, Bool.and_eq_true] at hdk ⊢
      · exact iv.distinct
      · exact ⟨hdk.1, iv.distinct⟩
  | inAttrs hd m pre post k a b _ ih =>
    intro hdk
    simp only [distinctKeys] at hdk
    obtain ⟨ha, hrest⟩ := distinctKeysKV_mid pre post k a hdk
    have iv := ih ha
    refine ⟨?_, ?_, ?_, rfl, fun m self => by cases m <;> rfl, ?_⟩
    · simp only [jsonTraverse, jsonKVs_mid k a b iv.traverse post pre]
    · simp only [jsonNative, jsonKVs_mid k a b iv.traverse post pre]
    · simp only [mdResult, mdEntries_mid k a b iv.md post pre]
    · simp only [distinctKeys]
      exact hrest b iv.distinct
  | inHasDict hd pre post k a b _ ih =>
    intro hdk
    simp only [distinctKeys] at hdk
    obtain ⟨ha, hrest⟩ := distinctKeysKV_mid pre post k a hdk
    have iv := ih ha
    refine ⟨?_, ?_, ?_, rfl, fun m self => by cases m <;> rfl, ?_⟩
    · simp only [jsonTraverse, jsonKVs_mid k a b iv.traverse post pre]
    · simp only [jsonNative, jsonKVs_mid k a b iv.traverse post pre]
    · simp only [mdResult, mdEntries_mid k a b iv.md post pre]
    · simp only [distinctKeys]
      exact hrest b iv.distinct

/-- what `v ≈ₛ v'` preserves: every rendering, and which class the value is rendered as -/
theorem setEquiv_inv {v v' : PyVal} (e : v ≈ₛ v') : distinctKeys v = true →
    jsonTraverse v = jsonTraverse v' ∧ jsonNative v = jsonNative v' ∧ mdResult v = mdResult v' ∧
    mdAsMarkdown v = mdAsMarkdown v' ∧ v.hdr? = v'.hdr? := by
  induction e with
  | refl => intro _; exact ⟨rfl, rfl, rfl, rfl, rfl⟩
  | step s _ ih =>
    intro hd
    have iv := setStep_inv s hd
    obtain ⟨h1, h2, h3, h4, h5⟩ := ih iv.distinct
    exact ⟨iv.traverse.trans h1, iv.native.trans h2, iv.md.trans h3, iv.asMd.trans h4, (setStep_hdr s).trans h5⟩

/-! ## A reference JSON parser (RFC 8259) and `parse (render j) = j` -/

def hex4 (a b c d : Char) : Option Nat := do
  let w ← hexVal a
  let x ← hexVal b
  let y ← hexVal c
  let z ← hexVal d
  pure (w * 4096 + x * 256 + y * 16 + z)

def simpleEscape (e : Char) : Option Char :=
  if e = '"' then some '"' else if e = '\\' then some '\\' else if e = '/' then some '/'
  else if e = 'b' then some (Char.ofNat 8) else if e = 'f' then some (Char.ofNat 12)
  else if e = 'n' then some '\n' else if e = 'r' then some '\r' else if e = 't' then some '\t' else none

/-- The body of a string literal after the opening quote, as UTF-16 code units (a `\uXXXX` escape is one unit;
a character given literally is one "unit" holding its code point), and what follows the closing quote.
Escapes: `\" \\ \/ \b \f \n \r \t \uXXXX`; raw control characters are rejected. -/
def strUnits : List Char → Option (List Nat × List Char)
  | [] => none
  | c :: rest =>
    if c = '"' then some ([], rest)
    else if c = '\\' then
      match rest with
      | [] => none
      | e :: rest₁ =>
        if e = 'u' then
          match rest₁ with
          | a :: b :: c' :: d :: rest₂ =>
            match hex4 a b c' d with
            | none => none
            | some n => (strUnits rest₂).map fun r => (n :: r.1, r.2)
          | _ => none
        else
          match simpleEscape e with
          | none => none
          | some x => (strUnits rest₁).map fun r => (x.toNat :: r.1, r.2)
    else if c.toNat < 32 then none
    else (strUnits rest).map fun r => (c.toNat :: r.1, r.2)

/-- the code point of a surrogate pair -/
def pairPoint (hi lo : Nat) : Nat := 0x10000 + (hi - 0xd800) * 1024 + (lo - 0xdc00)

/-- code units to characters: a high surrogate must be followed by a low one, a lone low surrogate is rejected -/
def combineUnits : List Nat → Option (List Char)
  | [] => some []
  | n :: rest =>
    if 0xd800 ≤ n ∧ n < 0xdc00 then
      match rest with
      | [] => none
      | m :: rest' =>
        if 0xdc00 ≤ m ∧ m < 0xe000 then (combineUnits rest').map fun r => Char.ofNat (pairPoint n m) :: r
        else none
    else if 0xdc00 ≤ n ∧ n < 0xe000 then none
    else if n < 0x110000 then (combineUnits rest).map fun r => Char.ofNat n :: r
    else none

def parseStrBody (cs : List Char) : Option (List Char × List Char) :=
  match strUnits cs with
  | none => none
  | some (units, rest) =>
    match combineUnits units with
    | none => none
    | some s => some (s, rest)

theorem hexVal_hexLower (d : Nat) (h : d < 16) : hexVal (hexLower d) = some d := by
  have : ∀ d : Fin 16, hexVal (hexLower d.val) = some d.val := by decide
  exact this ⟨d, h⟩

theorem hex4_u4 (n : Nat) (h : n < 65536) :
    hex4 (hexLower (n / 4096 % 16)) (hexLower (n / 256 % 16)) (hexLower (n / 16 % 16)) (hexLower (n % 16)) = some n := by
  simp only [hex4, hexVal_hexLower _ (Nat.mod_lt _ (by decide : 16 > 0)), bind, Option.bind, pure]
  congr 1
  omega

theorem char_valid (c : Char) : c.toNat < 0xd800 ∨ (0xdfff < c.toNat ∧ c.toNat < 0x110000) := by
  have h : c.val.toNat.isValidChar := c.valid
  unfold Nat.isValidChar at h
  exact h

theorem char_of_toNat (c : Char) (n : Nat) (h : c.toNat = n) : c = Char.ofNat n := by
  rw [← h, Char.ofNat_toNat]

/-- the UTF-16 code units `ensure_ascii` writes for a character it escapes numerically -/
def unitsOf (c : Char) : List Nat :=
  if c.toNat < 65536 then [c.toNat] else [0xd800 + (c.toNat - 65536) / 1024, 0xdc00 + (c.toNat - 65536) % 1024]

theorem strUnits_u4 (n : Nat) (tail : List Char) (h : n < 65536) :
    strUnits (u4 n ++ tail) = (strUnits tail).map fun r => (n :: r.1, r.2) := by
  simp only [u4, List.cons_append, List.nil_append]
  conv => lhs; rw [strUnits.eq_def]
  simp [hex4_u4 n h]

theorem strUnits_escapeChar (c : Char) (tail : List Char) :
    strUnits (escapeChar c ++ tail) = (strUnits tail).map fun r => (unitsOf c ++ r.1, r.2) := by
  unfold escapeChar
  split
  · rename_i h; subst h; conv => lhs; rw [strUnits.eq_def]
    simp [simpleEscape, unitsOf]
  split
  · rename_i h; subst h; conv => lhs; rw [strUnits.eq_def]
    simp [simpleEscape, unitsOf]
  split
  · rename_i h; subst h; conv => lhs; rw [strUnits.eq_def]
    simp [simpleEscape, unitsOf]
  split
  · rename_i h; subst h; conv => lhs; rw [strUnits.eq_def]
    simp [simpleEscape, unitsOf]
  split
  · rename_i h; subst h; conv => lhs; rw [strUnits.eq_def]
    simp [simpleEscape, unitsOf]
  split
  · rename_i h; conv => lhs; rw [strUnits.eq_def]
    simp [simpleEscape, unitsOf, h]
  split
  · rename_i h; conv => lhs; rw [strUnits.eq_def]
    simp [simpleEscape, unitsOf, h]
  split
  · rename_i h1 h2 _ _ _ _ _ h
    have h3 : ¬ c.toNat < 32 := by omega
    have h4 : c.toNat < 65536 := by omega
    conv => lhs; rw [strUnits.eq_def]
    simp [h1, h2, h3, h4, unitsOf]
  split
  · rename_i h
    rw [strUnits_u4 _ _ h]
    simp [unitsOf, h]
  · rename_i h
    have hv := char_valid c
    have ha : 0xd800 + (c.toNat - 65536) / 1024 < 65536 := by omega
    have hb : 0xdc00 + (c.toNat - 65536) % 1024 < 65536 := by omega
    rw [List.append_assoc, strUnits_u4 _ _ ha, strUnits_u4 _ _ hb]
    simp [unitsOf, h, Option.map_map, Function.comp_def]

theorem strUnits_escape : ∀ (s rest : List Char), strUnits (escape s ++ '"' :: rest) = some (s.flatMap unitsOf, rest)
  | [], rest => by
    rw [strUnits.eq_def]
    simp [escape]
  | c :: s, rest => by
    have ih := strUnits_escape s rest
    simp only [escape, List.flatMap_cons, List.append_assoc] at ih ⊢
    rw [strUnits_escapeChar, ih]
    rfl

theorem pairPoint_units (n : Nat) (h1 : 65536 ≤ n) :
    pairPoint (0xd800 + (n - 65536) / 1024) (0xdc00 + (n - 65536) % 1024) = n := by
  unfold pairPoint
  rw [Nat.add_sub_cancel_left, Nat.add_sub_cancel_left]
  have hd := Nat.div_add_mod (n - 65536) 1024
  rw [Nat.mul_comm] at hd
  rw [Nat.add_assoc, hd]
  exact Nat.add_sub_cancel' h1

theorem combineUnits_unitsOf (c : Char) (us : List Nat) :
    combineUnits (unitsOf c ++ us) = (combineUnits us).map fun r => c :: r := by
  have hv := char_valid c
  unfold unitsOf
  split
  · rename_i h
    have h1 : ¬ (55296 ≤ c.toNat ∧ c.toNat < 56320) := by omega
    have h2 : ¬ (56320 ≤ c.toNat ∧ c.toNat < 57344) := by omega
    have h3 : c.toNat < 1114112 := by omega
    simp only [List.cons_append, List.nil_append]
    conv => lhs; rw [combineUnits.eq_def]
    simp only [h1, h2, h3, ↓reduceIte, Char.ofNat_toNat]
  · rename_i h
    have hge : 65536 ≤ c.toNat := by omega
    have h1 : 55296 ≤ 0xd800 + (c.toNat - 65536) / 1024 ∧ 0xd800 + (c.toNat - 65536) / 1024 < 56320 := by omega
    have h2 : 56320 ≤ 0xdc00 + (c.toNat - 65536) % 1024 ∧ 0xdc00 + (c.toNat - 65536) % 1024 < 57344 := by omega
    have hp := pairPoint_units c.toNat hge
    generalize 0xd800 + (c.toNat - 65536) / 1024 = a at h1 hp
    generalize 0xdc00 + (c.toNat - 65536) % 1024 = b at h2 hp
    simp only [List.cons_append, List.nil_append]
    conv => lhs; rw [combineUnits.eq_def]
    simp only [h1, h2, and_self, ↓reduceIte, hp, Char.ofNat_toNat]

theorem combineUnits_flatMap : ∀ (s : List Char), combineUnits (s.flatMap unitsOf) = some s
  | [] => by rw [combineUnits.eq_def]; rfl
  | c :: s => by
    rw [List.flatMap_cons, combineUnits_unitsOf, combineUnits_flatMap s]
    rfl

/-- `unescape (escape s) = s`: the parser reads back exactly the string `json.dumps` wrote -/
theorem parseStrBody_escape (s rest : List Char) : parseStrBody (escape s ++ '"' :: rest) = some (s, rest) := by
  unfold parseStrBody
  rw [strUnits_escape]
  simp only [combineUnits_flatMap]

def isWs (c : Char) : Bool := c = ' ' || c = '\n' || c = '\r' || c = '\t'

def skipWs : List Char → List Char
  | [] => []
  | c :: cs => if isWs c then skipWs cs else c :: cs

def isNumChar (c : Char) : Bool := c.isDigit || c = '-' || c = '+' || c = '.' || c = 'e' || c = 'E'

/-- the longest prefix of number characters, and the rest -/
def spanNum : List Char → List Char × List Char
  | [] => ([], [])
  | c :: cs => if isNumChar c then (c :: (spanNum cs).1, (spanNum cs).2) else ([], c :: cs)

/-- `0` or a non-empty digit string without a leading zero -/
def digitsOk (ds : List Char) : Bool :=
  !ds.isEmpty && ds.all Char.isDigit && (ds.length == 1 || ds.head? != some '0')

/-- `-? (0 | [1-9][0-9]*)` -/
def intOfToken : List Char → Option Int
  | [] => none
  | c :: ds =>
    if c = '-' then (if digitsOk ds then some (-(Nat.ofDigitChars 10 ds 0 : Int)) else none)
    else if digitsOk (c :: ds) then some (Nat.ofDigitChars 10 (c :: ds) 0 : Int) else none

/-- `[eE] [+-]? [0-9]+` -/
def expPart : List Char → Bool
  | [] => false
  | e :: r =>
    (e = 'e' || e = 'E') &&
      (match r with
       | [] => false
       | s :: r' => if s = '+' || s = '-' then !r'.isEmpty && r'.all Char.isDigit else (s :: r').all Char.isDigit)

/-- `-? (0 | [1-9][0-9]*) (\. [0-9]+)? ([eE] [+-]? [0-9]+)?` with a fraction or an exponent present -/
def isFloatToken (tok : List Char) : Bool :=
  let t := match tok with
    | [] => []
    | c :: r => if c = '-' then r else c :: r
  let ip := t.takeWhile Char.isDigit
  let r1 := t.dropWhile Char.isDigit
  digitsOk ip &&
    (match r1 with
     | [] => false
     | c :: r2 =>
       if c = '.' then
         let fp := r2.takeWhile Char.isDigit
         let r3 := r2.dropWhile Char.isDigit
         !fp.isEmpty && (r3.isEmpty || expPart r3)
       else expPart (c :: r2))

def parseNumber (cs : List Char) : Option (Json × List Char) :=
  let tok := (spanNum cs).1
  let rest := (spanNum cs).2
  match intOfToken tok with
  | some i => some (.int i, rest)
  | none => if isFloatToken tok then some (.float (String.ofList tok), rest) else none

mutual
/-- one JSON value (leading white space allowed) and the unread rest; `fuel` bounds the nesting -/
def parseValue : Nat → List Char → Option (Json × List Char)
  | 0, _ => none
  | fuel + 1, cs =>
    match skipWs cs with
    | [] => none
    | c :: rest =>
      if c = '"' then
        match parseStrBody rest with
        | some (s, r) => some (.str (String.ofList s), r)
        | none => none
      else if c = '[' then
        match skipWs rest with
        | [] => none
        | d :: r =>
          if d = ']' then some (.arr [], r)
          else
            match parseElems fuel (d :: r) with
            | some (xs, r') => some (.arr xs, r')
            | none => none
      else if c = '{' then
        match skipWs rest with
        | [] => none
        | d :: r =>
          if d = '}' then some (.obj [], r)
          else
            match parseMembers fuel (d :: r) with
            | some (ms, r') => some (.obj ms, r')
            | none => none
      else if c = 't' then (if rest.take 3 = ['r', 'u', 'e'] then some (.bool true, rest.drop 3) else none)
      else if c = 'f' then (if rest.take 4 = ['a', 'l', 's', 'e'] then some (.bool false, rest.drop 4) else none)
      else if c = 'n' then (if rest.take 3 = ['u', 'l', 'l'] then some (.null, rest.drop 3) else none)
      else parseNumber (c :: rest)

/-- `value (, value)* ]` -/
def parseElems : Nat → List Char → Option (List Json × List Char)
  | 0, _ => none
  | fuel + 1, cs =>
    match parseValue fuel cs with
    | none => none
    | some (v, r) =>
      match skipWs r with
      | [] => none
      | d :: r' =>
        if d = ',' then
          match parseElems fuel r' with
          | some (vs, r'') => some (v :: vs, r'')
          | none => none
        else if d = ']' then some ([v], r')
        else none

/-- `string : value (, string : value)* }` -/
def parseMembers : Nat → List Char → Option (List (String × Json) × List Char)
  | 0, _ => none
  | fuel + 1, cs =>
    match skipWs cs with
    | [] => none
    | q :: r0 =>
      if q = '"' then
        match parseStrBody r0 with
        | none => none
        | some (k, r1) =>
          match skipWs r1 with
          | [] => none
          | colon :: r2 =>
            if colon = ':' then
              match parseValue fuel r2 with
              | none => none
              | some (v, r3) =>
                match skipWs r3 with
                | [] => none
                | d :: r4 =>
                  if d = ',' then
                    match parseMembers fuel r4 with
                    | some (ms, r5) => some ((String.ofList k, v) :: ms, r5)
                    | none => none
                  else if d = '}' then some ([(String.ofList k, v)], r4)
                  else none
            else none
      else none
end

/-- A strict JSON parser: one value, optionally surrounded by white space, nothing else.
`NaN`, `Infinity`, leading zeros, raw control characters and lone surrogates are rejected. -/
def Json.parse (s : String) : Option Json :=
  match parseValue (s.toList.length + 1) s.toList with
  | some (j, rest) => if skipWs rest = [] then some j else none
  | none => none

theorem skipWs_cons (c : Char) (cs : List Char) (h : isWs c = false) : skipWs (c :: cs) = c :: cs := by
  simp [skipWs, h]

/-- nothing of a number token follows -/
def delim : List Char → Bool
  | [] => true
  | c :: _ => !isNumChar c

theorem spanNum_append : ∀ (tok rest : List Char), (∀ c ∈ tok, isNumChar c = true) → delim rest = true →
    spanNum (tok ++ rest) = (tok, rest)
  | [], [], _, _ => rfl
  | [], c :: r, _, hd => by
    simp only [delim, Bool.not_eq_true'] at hd
    simp [spanNum, hd]
  | t :: tok, rest, ht, hd => by
    have h1 : isNumChar t = true := ht t (List.mem_cons_self ..)
    have ih := spanNum_append tok rest (fun c hc => ht c (List.mem_cons_of_mem _ hc)) hd
    simp [spanNum, h1, ih]

theorem toDigits_head_ne_zero : ∀ (fuel m : Nat), m ≤ fuel → 1 ≤ m → (Nat.toDigits 10 m).head? ≠ some '0'
  | 0, m, h1, h2 => by omega
  | fuel + 1, m, h1, h2 => by
    rw [Nat.toDigits_eq_if (by decide : 1 < 10)]
    split
    · rename_i hlt
      simp only [List.head?_cons, ne_eq, Option.some.injEq, Nat.digitChar_eq_zero]
      omega
    · rename_i hge
      have ih := toDigits_head_ne_zero fuel (m / 10) (by omega) (by omega)
      rw [List.head?_append]
      match h : Nat.toDigits 10 (m / 10) with
      | [] => exact absurd h Nat.toDigits_ne_nil
      | c :: cs =>
        rw [h] at ih
        simpa using ih

theorem digitsOk_toDigits (m : Nat) : digitsOk (Nat.toDigits 10 m) = true := by
  unfold digitsOk
  have hne : Nat.toDigits 10 m ≠ [] := Nat.toDigits_ne_nil
  have hall : (Nat.toDigits 10 m).all Char.isDigit = true := by
    rw [List.all_eq_true]
    exact fun c hc => Nat.isDigit_of_mem_toDigits (by decide) (by decide) hc
  simp only [hall, Bool.and_true, Bool.and_eq_true, Bool.not_eq_true', List.isEmpty_eq_false_iff, ne_eq, hne,
    not_false_eq_true, true_and, Bool.or_eq_true, beq_iff_eq, bne_iff_ne]
  by_cases hm : m < 10
  · left; rw [Nat.toDigits_of_lt_base hm]; rfl
  · right; exact toDigits_head_ne_zero m m (Nat.le_refl _) (by omega)

theorem toDigits_cons (m : Nat) : ∃ c cs, Nat.toDigits 10 m = c :: cs ∧ c.isDigit = true := by
  match h : Nat.toDigits 10 m with
  | [] => exact absurd h Nat.toDigits_ne_nil
  | c :: cs =>
    exact ⟨c, cs, rfl, Nat.isDigit_of_mem_toDigits (by decide) (by decide) (h ▸ List.mem_cons_self ..)⟩

theorem intOfToken_toString (i : Int) : intOfToken (toString i).toList = some i := by
  cases i with
  | ofNat m =>
    have : (toString (Int.ofNat m)).toList = Nat.toDigits 10 m := by
      show (Int.repr (Int.ofNat m)).toList = _
      simp [Int.repr]
    rw [this]
    obtain ⟨c, cs, hc, hd⟩ := toDigits_cons m
    have hok := digitsOk_toDigits m
    have hv : Nat.ofDigitChars 10 (Nat.toDigits 10 m) 0 = m := Nat.ofDigitChars_ten_toDigits
    rw [hc] at hok hv ⊢
    have hne : c ≠ '-' := by
      intro h; subst h; simp at hd
    simp [intOfToken, hne, hok, hv]
  | negSucc m =>
    have : (toString (Int.negSucc m)).toList = '-' :: Nat.toDigits 10 (m + 1) := by
      show (Int.repr (Int.negSucc m)).toList = _
      simp [Int.repr, String.toList_append]
    rw [this]
    have hok := digitsOk_toDigits (m + 1)
    have hv : Nat.ofDigitChars 10 (Nat.toDigits 10 (m + 1)) 0 = m + 1 := Nat.ofDigitChars_ten_toDigits
    simp only [intOfToken, ↓reduceIte, hok, hv]
    rfl

/-- a float `repr` that is a JSON number token (finite, with a fraction or an exponent) -/
def floatOk (r : String) : Bool :=
  !r.toList.isEmpty && r.toList.all isNumChar && (intOfToken r.toList).isNone && isFloatToken r.toList

mutual
/-- every float in the document is finite (a JSON number token): the hypothesis `json_no_nonfinite` of the design -/
def floatsOk : Json → Bool
  | .null => true
  | .bool _ => true
  | .int _ => true
  | .float r => floatOk r
  | .str _ => true
  | .arr xs => floatsOkL xs
  | .obj kvs => floatsOkKV kvs
def floatsOkL : List Json → Bool
  | [] => true
  | x :: xs => floatsOk x && floatsOkL xs
def floatsOkKV : List (String × Json) → Bool
  | [] => true
  | (_, v) :: rest => floatsOk v && floatsOkKV rest
end

mutual
/-- fuel the parser needs for a document -/
def need : Json → Nat
  | .null => 1
  | .bool _ => 1
  | .int _ => 1
  | .float _ => 1
  | .str _ => 1
  | .arr xs => 1 + needL xs
  | .obj kvs => 1 + needKV kvs
def needL : List Json → Nat
  | [] => 0
  | x :: xs => 1 + need x + needL xs
def needKV : List (String × Json) → Nat
  | [] => 0
  | (_, v) :: rest => 1 + need v + needKV rest
end

theorem numChar_ne (c x : Char) (h : isNumChar c = true) (hx : isNumChar x = false) : c ≠ x := by
  intro e; subst e; rw [h] at hx; cases hx

theorem numChar_not_ws (c : Char) (h : isNumChar c = true) : isWs c = false := by
  unfold isWs
  have h1 := numChar_ne c ' ' h (by decide)
  have h2 := numChar_ne c '\n' h (by decide)
  have h3 := numChar_ne c '\r' h (by decide)
  have h4 := numChar_ne c '\t' h (by decide)
  simp [h1, h2, h3, h4]

theorem jsonFloat_id (r : String) (h : floatOk r = true) : jsonFloat r = r := by
  have hall : r.toList.all isNumChar = true := by
    simp only [floatOk, Bool.and_eq_true] at h; exact h.1.1.2
  have h1 : r ≠ "nan" := by intro e; subst e; revert hall; decide
  have h2 : r ≠ "inf" := by intro e; subst e; revert hall; decide
  have h3 : r ≠ "-inf" := by intro e; subst e; revert hall; decide
  simp [jsonFloat, h1, h2, h3]

theorem float_cons (r : String) (h : floatOk r = true) :
    ∃ c cs, r.toList = c :: cs ∧ isNumChar c = true ∧ ∀ x ∈ r.toList, isNumChar x = true := by
  simp only [floatOk, Bool.and_eq_true, Bool.not_eq_true', List.isEmpty_eq_false_iff, List.all_eq_true] at h
  match hr : r.toList with
  | [] => exact absurd hr h.1.1.1
  | c :: cs => exact ⟨c, cs, rfl, h.1.1.2 c (hr ▸ List.mem_cons_self ..), fun x hx => h.1.1.2 x (hr ▸ hx)⟩

theorem int_cons (i : Int) : ∃ c cs, (toString i).toList = c :: cs ∧ isNumChar c = true ∧
    ∀ x ∈ (toString i).toList, isNumChar x = true := by
  cases i with
  | ofNat m =>
    have : (toString (Int.ofNat m)).toList = Nat.toDigits 10 m := by
      show (Int.repr (Int.ofNat m)).toList = _
      simp [Int.repr]
    rw [this]
    obtain ⟨c, cs, hc, hd⟩ := toDigits_cons m
    refine ⟨c, cs, hc, by simp [isNumChar, hd], fun x hx => ?_⟩
    simp [isNumChar, Nat.isDigit_of_mem_toDigits (by decide) (by decide) hx]
  | negSucc m =>
    have : (toString (Int.negSucc m)).toList = '-' :: Nat.toDigits 10 (m + 1) := by
      show (Int.repr (Int.negSucc m)).toList = _
      simp [Int.repr, String.toList_append]
    rw [this]
    refine ⟨'-', _, rfl, by decide, fun x hx => ?_⟩
    rcases List.mem_cons.mp hx with rfl | hx
    · decide
    · simp [isNumChar, Nat.isDigit_of_mem_toDigits (by decide) (by decide) hx]

/-- the first character of a rendered value: not white space and not a closing bracket -/
def startOk (c : Char) : Prop := isWs c = false ∧ c ≠ ']' ∧ c ≠ '}'

theorem startOk_num (c : Char) (h : isNumChar c = true) : startOk c :=
  ⟨numChar_not_ws c h, numChar_ne c ']' h (by decide), numChar_ne c '}' h (by decide)⟩

theorem renderChars_cons (j : Json) (h : floatsOk j = true) : ∃ c cs, renderChars j = c :: cs ∧ startOk c := by
  cases j with
  | null => exact ⟨'n', ['u', 'l', 'l'], by simp [renderChars], by decide, by decide, by decide⟩
  | bool b =>
    cases b
    · exact ⟨'f', ['a', 'l', 's', 'e'], by simp [renderChars], by decide, by decide, by decide⟩
    · exact ⟨'t', ['r', 'u', 'e'], by simp [renderChars], by decide, by decide, by decide⟩
  | int i =>
    obtain ⟨c, cs, hc, hn, _⟩ := int_cons i
    exact ⟨c, cs, by simp only [renderChars]; exact hc, startOk_num c hn⟩
  | float r =>
    simp only [floatsOk] at h
    obtain ⟨c, cs, hc, hn, _⟩ := float_cons r h
    exact ⟨c, cs, by simp [renderChars, jsonFloat_id r h, hc], startOk_num c hn⟩
  | str s => exact ⟨'"', _, by simp [renderChars, quote]; rfl, by decide, by decide, by decide⟩
  | arr xs =>
    cases xs with
    | nil => exact ⟨'[', [']'], by simp [renderChars], by decide, by decide, by decide⟩
    | cons x xs => exact ⟨'[', _, by simp [renderChars]; rfl, by decide, by decide, by decide⟩
  | obj kvs =>
    cases kvs with
    | nil => exact ⟨'{', ['}'], by simp [renderChars], by decide, by decide, by decide⟩
    | cons kv rest =>
      obtain ⟨k, v⟩ := kv
      exact ⟨'{', _, by simp [renderChars]; rfl, by decide, by decide, by decide⟩

theorem skipWs_append : ∀ (pre : List Char) (c : Char) (cs : List Char), (∀ x ∈ pre, isWs x = true) → isWs c = false →
    skipWs (pre ++ c :: cs) = c :: cs
  | [], c, cs, _, h => skipWs_cons c cs h
  | p :: pre, c, cs, hp, h => by
    have h1 : isWs p = true := hp p (List.mem_cons_self ..)
    simp only [List.cons_append, skipWs, h1, ↓reduceIte]
    exact skipWs_append pre c cs (fun x hx => hp x (List.mem_cons_of_mem _ hx)) h

theorem parseValue_null (f : Nat) (pre rest : List Char) (hp : ∀ x ∈ pre, isWs x = true) :
    parseValue (f + 1) (pre ++ renderChars .null ++ rest) = some (.null, rest) := by
  have : pre ++ renderChars .null ++ rest = pre ++ 'n' :: ('u' :: 'l' :: 'l' :: rest) := by simp [renderChars]
  rw [this, parseValue, skipWs_append pre 'n' _ hp (by decide)]
  simp

theorem parseValue_bool (b : Bool) (f : Nat) (pre rest : List Char) (hp : ∀ x ∈ pre, isWs x = true) :
    parseValue (f + 1) (pre ++ renderChars (.bool b) ++ rest) = some (.bool b, rest) := by
  cases b
  · have : pre ++ renderChars (.bool false) ++ rest = pre ++ 'f' :: ('a' :: 'l' :: 's' :: 'e' :: rest) := by simp [renderChars]
    rw [this, parseValue, skipWs_append pre 'f' _ hp (by decide)]
    simp
  · have : pre ++ renderChars (.bool true) ++ rest = pre ++ 't' :: ('r' :: 'u' :: 'e' :: rest) := by simp [renderChars]
    rw [this, parseValue, skipWs_append pre 't' _ hp (by decide)]
    simp

theorem parseValue_str (s : String) (f : Nat) (pre rest : List Char) (hp : ∀ x ∈ pre, isWs x = true) :
    parseValue (f + 1) (pre ++ renderChars (.str s) ++ rest) = some (.str s, rest) := by
  have : pre ++ renderChars (.str s) ++ rest = pre ++ '"' :: (escape s.toList ++ '"' :: rest) := by
    simp [renderChars, quote]
  rw [this, parseValue, skipWs_append pre '"' _ hp (by decide)]
  simp [parseStrBody_escape, String.ofList_toList]

/-- a number token followed by a delimiter is read back by `parseNumber` -/
theorem parseValue_num (tok : List Char) (c : Char) (cs : List Char) (j : Json) (f : Nat) (pre rest : List Char)
    (hp : ∀ x ∈ pre, isWs x = true) (htok : tok = c :: cs) (hall : ∀ x ∈ tok, isNumChar x = true)
    (hj : parseNumber (tok ++ rest) = some (j, rest)) :
    parseValue (f + 1) (pre ++ tok ++ rest) = some (j, rest) := by
  have hc : isNumChar c = true := hall c (htok ▸ List.mem_cons_self ..)
  have e : pre ++ tok ++ rest = pre ++ c :: (cs ++ rest) := by simp [htok]
  rw [e, parseValue, skipWs_append pre c _ hp (numChar_not_ws c hc)]
  have h1 := numChar_ne c '"' hc (by decide)
  have h2 := numChar_ne c '[' hc (by decide)
  have h3 := numChar_ne c '{' hc (by decide)
  have h4 := numChar_ne c 't' hc (by decide)
  have h5 := numChar_ne c 'f' hc (by decide)
  have h6 := numChar_ne c 'n' hc (by decide)
  simp only [h1, h2, h3, h4, h5, h6, ↓reduceIte]
  rw [htok] at hj
  exact hj

theorem parseValue_int (i : Int) (f : Nat) (pre rest : List Char) (hp : ∀ x ∈ pre, isWs x = true)
    (hd : delim rest = true) :
    parseValue (f + 1) (pre ++ renderChars (.int i) ++ rest) = some (.int i, rest) := by
  obtain ⟨c, cs, hc, _, hall⟩ := int_cons i
  simp only [renderChars]
  refine parseValue_num _ c cs _ f pre rest hp hc hall ?_
  simp only [parseNumber, spanNum_append _ _ hall hd, intOfToken_toString]

theorem parseValue_float (r : String) (f : Nat) (pre rest : List Char) (hp : ∀ x ∈ pre, isWs x = true)
    (hd : delim rest = true) (hr : floatOk r = true) :
    parseValue (f + 1) (pre ++ renderChars (.float r) ++ rest) = some (.float r, rest) := by
  obtain ⟨c, cs, hc, _, hall⟩ := float_cons r hr
  simp only [renderChars, jsonFloat_id r hr]
  refine parseValue_num _ c cs _ f pre rest hp hc hall ?_
  simp only [floatOk, Bool.and_eq_true, Option.isNone_iff_eq_none] at hr
  simp only [parseNumber, spanNum_append _ _ hall hd, hr.1.2, hr.2, ↓reduceIte, String.ofList_toList]

theorem delim_tail (xs : List Json) (rest : List Char) : delim (renderTail xs ++ rest) = true := by
  cases xs <;> simp [renderTail, delim] <;> decide

theorem delim_members (ms : List (String × Json)) (rest : List Char) : delim (renderMembers ms ++ rest) = true := by
  cases ms with
  | nil => simp [renderMembers, delim]; decide
  | cons kv ms => obtain ⟨k, v⟩ := kv; simp [renderMembers, delim]; decide

theorem ws_space : ∀ x ∈ [' '], isWs x = true := by
  intro x hx; rw [List.mem_singleton.mp hx]; decide

mutual
theorem parseValue_render : ∀ (j : Json) (fuel : Nat) (pre rest : List Char), (∀ x ∈ pre, isWs x = true) →
    floatsOk j = true → delim rest = true → need j ≤ fuel →
    parseValue fuel (pre ++ renderChars j ++ rest) = some (j, rest)
  | .null, fuel, pre, rest, hp, _, _, hn => by
    obtain ⟨f, rfl⟩ : ∃ f, fuel = f + 1 := ⟨fuel - 1, by simp only [need] at hn; omega⟩
    exact parseValue_null f pre rest hp
  | .bool b, fuel, pre, rest, hp, _, _, hn => by
    obtain ⟨f, rfl⟩ : ∃ f, fuel = f + 1 := ⟨fuel - 1, by simp only [need] at hn; omega⟩
    exact parseValue_bool b f pre rest hp
  | .int i, fuel, pre, rest, hp, _, hd, hn => by
    obtain ⟨f, rfl⟩ : ∃ f, fuel = f + 1 := ⟨fuel - 1, by simp only [need] at hn; omega⟩
    exact parseValue_int i f pre rest hp hd
  | .float r, fuel, pre, rest, hp, hf, hd, hn => by
    obtain ⟨f, rfl⟩ : ∃ f, fuel = f + 1 := ⟨fuel - 1, by simp only [need] at hn; omega⟩
    simp only [floatsOk] at hf
    exact parseValue_float r f pre rest hp hd hf
  | .str s, fuel, pre, rest, hp, _, _, hn => by
    obtain ⟨f, rfl⟩ : ∃ f, fuel = f + 1 := ⟨fuel - 1, by simp only [need] at hn; omega⟩
    exact parseValue_str s f pre rest hp
  | .arr [], fuel, pre, rest, hp, _, _, hn => by
    obtain ⟨f, rfl⟩ : ∃ f, fuel = f + 1 := ⟨fuel - 1, by simp only [need] at hn; omega⟩
    have : pre ++ renderChars (.arr []) ++ rest = pre ++ '[' :: (']' :: rest) := by simp [renderChars]
    rw [this, parseValue, skipWs_append pre '[' _ hp (by decide)]
    simp [skipWs, isWs]
  | .arr (x :: xs), fuel, pre, rest, hp, hf, _, hn => by
    obtain ⟨f, rfl⟩ : ∃ f, fuel = f + 1 := ⟨fuel - 1, by simp only [need] at hn; omega⟩
    simp only [need] at hn
    simp only [floatsOk] at hf
    have hfx : floatsOk x = true := by simp only [floatsOkL, Bool.and_eq_true] at hf; exact hf.1
    obtain ⟨c, cs, hc, hws, hb, _⟩ := renderChars_cons x hfx
    have ih := parseElems_render (x :: xs) f [] rest (by simp) hf (by omega)
    simp only [List.nil_append] at ih
    have : pre ++ renderChars (.arr (x :: xs)) ++ rest = pre ++ '[' :: (renderChars x ++ (renderTail xs ++ rest)) := by
      simp [renderChars]
    rw [this, parseValue, skipWs_append pre '[' _ hp (by decide)]
    simp only [show ¬ ('[' = '"') by decide, ↓reduceIte]
    rw [hc] at ih ⊢
    simp only [List.cons_append] at ih
    simp only [List.cons_append, skipWs_cons c _ hws, hb, ↓reduceIte]
    rw [ih]
  | .obj [], fuel, pre, rest, hp, _, _, hn => by
    obtain ⟨f, rfl⟩ : ∃ f, fuel = f + 1 := ⟨fuel - 1, by simp only [need] at hn; omega⟩
    have : pre ++ renderChars (.obj []) ++ rest = pre ++ '{' :: ('}' :: rest) := by simp [renderChars]
    rw [this, parseValue, skipWs_append pre '{' _ hp (by decide)]
    simp [skipWs, isWs]
  | .obj ((k, v) :: ms), fuel, pre, rest, hp, hf, _, hn => by
    obtain ⟨f, rfl⟩ : ∃ f, fuel = f + 1 := ⟨fuel - 1, by simp only [need] at hn; omega⟩
    simp only [need] at hn
    simp only [floatsOk] at hf
    have ih := parseMembers_render ((k, v) :: ms) f [] rest (by simp) hf (by omega)
    simp only [List.nil_append, quote, List.cons_append] at ih
    have : pre ++ renderChars (.obj ((k, v) :: ms)) ++ rest =
        pre ++ '{' :: ('"' :: (escape k.toList ++ ['"'] ++ (':' :: ' ' :: (renderChars v ++ (renderMembers ms ++ rest))))) := by
      simp [renderChars, quote]
    rw [this, parseValue, skipWs_append pre '{' _ hp (by decide)]
    simp only [show ¬ ('{' = '"') by decide, show ¬ ('{' = '[') by decide, ↓reduceIte]
    simp only [skipWs_cons '"' _ (by decide : isWs '"' = false), show ¬ ('"' = '}') by decide, ↓reduceIte, ih]

theorem parseElems_render : ∀ (l : List Json) (fuel : Nat) (pre rest : List Char), (∀ x ∈ pre, isWs x = true) →
    floatsOkL l = true → needL l ≤ fuel →
    match l with
    | [] => True
    | x :: xs => parseElems fuel (pre ++ renderChars x ++ (renderTail xs ++ rest)) = some (x :: xs, rest)
  | [], _, _, _, _, _, _ => trivial
  | [x], fuel, pre, rest, hp, hf, hn => by
    simp only [needL] at hn
    obtain ⟨f, rfl⟩ : ∃ f, fuel = f + 1 := ⟨fuel - 1, by omega⟩
    simp only [floatsOkL, Bool.and_eq_true] at hf
    have hv := parseValue_render x f pre (renderTail [] ++ rest) hp hf.1 (delim_tail [] rest) (by omega)
    simp only [parseElems, hv]
    simp [renderTail, skipWs, isWs]
  | x :: y :: ys, fuel, pre, rest, hp, hf, hn => by
    simp only [needL] at hn
    obtain ⟨f, rfl⟩ : ∃ f, fuel = f + 1 := ⟨fuel - 1, by omega⟩
    simp only [floatsOkL, Bool.and_eq_true] at hf
    have hv := parseValue_render x f pre (renderTail (y :: ys) ++ rest) hp hf.1 (delim_tail _ rest) (by omega)
    have ih := parseElems_render (y :: ys) f [' '] rest ws_space (by simp only [floatsOkL, Bool.and_eq_true]; exact hf.2)
      (by simp only [needL]; omega)
    simp only [] at ih
    simp only [parseElems, hv]
    simp only [renderTail, List.cons_append, List.nil_append, List.append_assoc] at ih ⊢
    simp only [skipWs_cons ',' _ (by decide : isWs ',' = false), ↓reduceIte, ih]

theorem parseMembers_render : ∀ (l : List (String × Json)) (fuel : Nat) (pre rest : List Char), (∀ x ∈ pre, isWs x = true) →
    floatsOkKV l = true → needKV l ≤ fuel →
    match l with
    | [] => True
    | (k, v) :: ms =>
      parseMembers fuel (pre ++ quote k ++ (':' :: ' ' :: (renderChars v ++ (renderMembers ms ++ rest)))) = some ((k, v) :: ms, rest)
  | [], _, _, _, _, _, _ => trivial
  | [(k, v)], fuel, pre, rest, hp, hf, hn => by
    simp only [needKV] at hn
    obtain ⟨f, rfl⟩ : ∃ f, fuel = f + 1 := ⟨fuel - 1, by omega⟩
    simp only [floatsOkKV, Bool.and_eq_true] at hf
    have hv := parseValue_render v f [' '] (renderMembers [] ++ rest) ws_space hf.1 (delim_members [] rest) (by omega)
    simp only [List.cons_append, List.nil_append] at hv
    have : pre ++ quote k ++ (':' :: ' ' :: (renderChars v ++ (renderMembers [] ++ rest))) =
        pre ++ '"' :: (escape k.toList ++ '"' :: (':' :: ' ' :: (renderChars v ++ (renderMembers [] ++ rest)))) := by
      simp [quote]
    show parseMembers (f + 1) (pre ++ quote k ++ (':' :: ' ' :: (renderChars v ++ (renderMembers [] ++ rest)))) = _
    rw [this, parseMembers, skipWs_append pre '"' _ hp (by decide)]
    simp only [↓reduceIte, parseStrBody_escape, skipWs_cons ':' _ (by decide : isWs ':' = false), hv]
    simp [renderMembers, skipWs, isWs, String.ofList_toList]
  | (k, v) :: (k', v') :: ms, fuel, pre, rest, hp, hf, hn => by
    simp only [needKV] at hn
    obtain ⟨f, rfl⟩ : ∃ f, fuel = f + 1 := ⟨fuel - 1, by omega⟩
    simp only [floatsOkKV, Bool.and_eq_true] at hf
    have hv := parseValue_render v f [' '] (renderMembers ((k', v') :: ms) ++ rest) ws_space hf.1 (delim_members _ rest) (by omega)
    simp only [List.cons_append, List.nil_append] at hv
    have ih := parseMembers_render ((k', v') :: ms) f [' '] rest ws_space
      (by simp only [floatsOkKV, Bool.and_eq_true]; exact hf.2) (by simp only [needKV]; omega)
    simp only [] at ih
    have : pre ++ quote k ++ (':' :: ' ' :: (renderChars v ++ (renderMembers ((k', v') :: ms) ++ rest))) =
        pre ++ '"' :: (escape k.toList ++ '"' :: (':' :: ' ' :: (renderChars v ++ (renderMembers ((k', v') :: ms) ++ rest)))) := by
      simp [quote]
    show parseMembers (f + 1) (pre ++ quote k ++ (':' :: ' ' :: (renderChars v ++ (renderMembers ((k', v') :: ms) ++ rest)))) = _
    rw [this, parseMembers, skipWs_append pre '"' _ hp (by decide)]
    simp only [↓reduceIte, parseStrBody_escape, skipWs_cons ':' _ (by decide : isWs ':' = false), hv]
    simp only [renderMembers, List.cons_append, List.nil_append, List.append_assoc] at ih ⊢
    simp only [skipWs_cons ',' _ (by decide : isWs ',' = false), ↓reduceIte, ih, String.ofList_toList]
end

mutual
theorem need_le : ∀ (j : Json), need j ≤ (renderChars j).length + 1
  | .null => by simp [need]
  | .bool _ => by simp [need]
  | .int _ => by simp [need]
  | .float _ => by simp [need]
  | .str _ => by simp [need]
  | .arr [] => by simp [need, needL]
  | .arr (x :: xs) => by
    have h1 := need_le x
    have h2 := needL_le xs
    simp only [need, needL, renderChars, List.length_cons, List.length_append]
    omega
  | .obj [] => by simp [need, needKV]
  | .obj ((k, v) :: ms) => by
    have h1 := need_le v
    have h2 := needKV_le ms
    simp only [need, needKV, renderChars, List.length_cons, List.length_append]
    omega
theorem needL_le : ∀ (xs : List Json), needL xs + 1 ≤ (renderTail xs).length
  | [] => by simp [needL, renderTail]
  | x :: xs => by
    have h1 := need_le x
    have h2 := needL_le xs
    simp only [needL, renderTail, List.length_cons, List.length_append, List.length_nil]
    omega
theorem needKV_le : ∀ (ms : List (String × Json)), needKV ms + 1 ≤ (renderMembers ms).length
  | [] => by simp [needKV, renderMembers]
  | (k, v) :: ms => by
    have h1 := need_le v
    have h2 := needKV_le ms
    simp only [needKV, renderMembers, List.length_cons, List.length_append, List.length_nil]
    omega
end

/-- `json.loads(json.dumps(x)) == x` for the reference parser: the text `json.dumps` writes for a document
without non-finite floats is accepted by a strict JSON parser, which reads back the same document. -/
theorem parse_render (j : Json) (h : floatsOk j = true) : Json.parse (Json.render j) = some j := by
  have hp := parseValue_render j ((renderChars j).length + 1) [] [] (by simp) h rfl (need_le j)
  simp only [List.nil_append, List.append_nil] at hp
  simp only [Json.parse, Json.render, String.toList_ofList, hp, skipWs, ↓reduceIte]

/-- rendering is injective on such documents: different documents never share a text -/
theorem render_injective (j j' : Json) (h : floatsOk j = true) (h' : floatsOk j' = true)
    (e : Json.render j = Json.render j') : j = j' := by
  have := parse_render j h
  rw [e, parse_render j' h'] at this
  exact (Option.some.inj this).symm

/-! ## no NaN / Infinity unless a float field holds one -/

mutual
/-- every `float` inside the value is finite (its `repr` is a JSON number token) -/
def floatsFinite : PyVal → Bool
  | .none => true
  | .bool _ => true
  | .int _ => true
  | .float r => floatOk r
  | .str _ => true
  | .bytes _ => true
  | .enumParams _ _ (some v) => floatsFinite v
  | .enumParams _ _ none => true
  | .enumPlain _ _ v => floatsFinite v
  | .seq _ xs => floatsFiniteL xs
  | .dict _ kvs => floatsFiniteKV kvs
  | .hasAsdict _ _ (some x) inner => floatsFinite x && floatsFinite inner
  | .hasAsdict _ _ none inner => floatsFinite inner
  | .attrs _ _ fs => floatsFiniteKV fs
  | .hasDict _ vars => floatsFiniteKV vars
  | .opaque _ => true
def floatsFiniteL : List PyVal → Bool
  | [] => true
  | x :: xs => floatsFinite x && floatsFiniteL xs
def floatsFiniteKV : List (PyVal × PyVal) → Bool
  | [] => true
  | (k, v) :: rest => floatsFinite k && floatsFinite v && floatsFiniteKV rest
end

theorem floatsOkKV_iff : ∀ (l : List (String × Json)), floatsOkKV l = true ↔ ∀ p ∈ l, floatsOk p.2 = true
  | [] => by simp [floatsOkKV]
  | (k, v) :: rest => by
    simp only [floatsOkKV, Bool.and_eq_true, List.mem_cons, forall_eq_or_imp, floatsOkKV_iff rest]

theorem floatsOkL_iff : ∀ (l : List Json), floatsOkL l = true ↔ ∀ j ∈ l, floatsOk j = true
  | [] => by simp [floatsOkL]
  | x :: xs => by
    simp only [floatsOkL, Bool.and_eq_true, List.mem_cons, forall_eq_or_imp, floatsOkL_iff xs]

/-- ordering the items of a set keeps them finite -/
theorem floatsOkL_orderSet (keys : List String) (js : List Json) (h : floatsOkL js = true) :
    floatsOkL (orderSet keys js) = true := by
  rw [floatsOkL_iff] at h ⊢
  exact fun j hj => h j (mem_orderSet keys js j hj)

/-- the object `_json_traverse` builds from traversed items is finite if the items are -/
theorem floatsOk_obj_of_items {o : Bool} {items sorted : List (PyVal × Json)} (hs : orderPairs o items = .ok sorted)
    (hi : ∀ p ∈ items, floatsOk p.2 = true) :
    floatsOk (.obj (sorted.map fun kv => (keyString kv.1, kv.2))) = true := by
  simp only [floatsOk, floatsOkKV_iff]
  intro p hp
  obtain ⟨q, hq, rfl⟩ := List.mem_map.mp hp
  exact hi q (mem_orderPairs o _ _ hs q hq)

theorem floatsOk_obj_of_filter (f : PyVal × Json → Bool) (items : List (PyVal × Json)) (hi : ∀ p ∈ items, floatsOk p.2 = true) :
    floatsOk (.obj ((items.filter f).map fun kv => (keyString kv.1, kv.2))) = true := by
  simp only [floatsOk, floatsOkKV_iff]
  intro p hp
  obtain ⟨q, hq, rfl⟩ := List.mem_map.mp hp
  exact hi q (List.mem_filter.mp hq).1

theorem obj_items_finite {o : Bool} {kvs : List (PyVal × PyVal)} {j : Json}
    (ih : ∀ items, jsonKVs kvs = .ok items → ∀ p ∈ items, floatsOk p.2 = true)
    (h : (do
      let items ← jsonKVs kvs
      let sorted ← orderPairs o items
      pure (Json.obj (sorted.map fun kv => (keyString kv.1, kv.2))) : Except PErr Json) = .ok j) : floatsOk j = true := by
  obtain ⟨items, hi, h⟩ := bind_eq_ok h
  obtain ⟨sorted, hs, h⟩ := bind_eq_ok h
  cases h
  exact floatsOk_obj_of_items hs (ih items hi)

mutual
theorem jsonTraverse_finite : ∀ (v : PyVal) (j : Json), floatsFinite v = true → jsonTraverse v = .ok j → floatsOk j = true
  | .none, j, _, h => by simp only [jsonTraverse] at h; cases h; rfl
  | .bool _, j, _, h => by simp only [jsonTraverse] at h; cases h; rfl
  | .int _, j, _, h => by simp only [jsonTraverse] at h; cases h; rfl
  | .str _, j, _, h => by simp only [jsonTraverse] at h; cases h; rfl
  | .bytes _, j, _, h => by simp only [jsonTraverse] at h; cases h; rfl
  | .opaque _, j, _, h => by simp only [jsonTraverse] at h; cases h; rfl
  | .enumParams _ _ _, j, _, h => by simp only [jsonTraverse] at h; cases h; rfl
  | .float r, j, hf, h => by
    simp only [jsonTraverse] at h; cases h
    simpa only [floatsFinite, floatsOk] using hf
  | .enumPlain n _ v, j, hf, h => by
    simp only [floatsFinite] at hf
    simp only [jsonTraverse] at h
    obtain ⟨j', hj', h⟩ := bind_eq_ok h
    cases h
    simp only [floatsOk, floatsOkKV, Bool.and_true]
    exact jsonNative_finite v j' hf hj'
  | .hasAsdict _ _ (some x) inner, j, hf, h => by
    simp only [floatsFinite, Bool.and_eq_true] at hf
    simp only [jsonTraverse] at h
    exact jsonTraverse_finite inner j hf.2 h
  | .hasAsdict _ _ none inner, j, hf, h => by
    simp only [floatsFinite] at hf
    simp only [jsonTraverse] at h
    exact jsonTraverse_finite inner j hf h
  | .dict o kvs, j, hf, h => by
    simp only [floatsFinite] at hf
    simp only [jsonTraverse] at h
    exact obj_items_finite (fun items hi => jsonKVs_finite kvs items hf hi) h
  | .attrs _ _ fs, j, hf, h => by
    simp only [floatsFinite] at hf
    simp only [jsonTraverse] at h
    obtain ⟨items, hi, h⟩ := bind_eq_ok h
    cases h
    exact floatsOk_obj_of_filter _ items (jsonKVs_finite fs items hf hi)
  | .hasDict _ vars, j, hf, h => by
    simp only [floatsFinite] at hf
    simp only [jsonTraverse] at h
    exact obj_items_finite (fun items hi => jsonKVs_finite vars items hf hi) h
  | .seq true xs, j, hf, h => by
    simp only [floatsFinite] at hf
    simp only [jsonTraverse] at h
    obtain ⟨js, hjs, h⟩ := bind_eq_ok h
    cases h
    simp only [floatsOk]
    exact floatsOkL_orderSet _ js (jsonList_finite xs js hf hjs)
  | .seq false xs, j, hf, h => by
    simp only [floatsFinite] at hf
    simp only [jsonTraverse] at h
    obtain ⟨js, hjs, h⟩ := bind_eq_ok h
    cases h
    simp only [floatsOk]
    exact jsonList_finite xs js hf hjs

theorem jsonList_finite : ∀ (xs : List PyVal) (js : List Json), floatsFiniteL xs = true → jsonList xs = .ok js → floatsOkL js = true
  | [], js, _, h => by simp only [jsonList] at h; cases h; rfl
  | x :: xs, js, hf, h => by
    simp only [floatsFiniteL, Bool.and_eq_true] at hf
    simp only [jsonList] at h
    obtain ⟨j, hj, h⟩ := bind_eq_ok h
    obtain ⟨js', hjs', h⟩ := bind_eq_ok h
    cases h
    simp only [floatsOkL, Bool.and_eq_true]
    exact ⟨jsonTraverse_finite x j hf.1 hj, jsonList_finite xs js' hf.2 hjs'⟩

theorem jsonKVs_finite : ∀ (kvs : List (PyVal × PyVal)) (items : List (PyVal × Json)), floatsFiniteKV kvs = true →
    jsonKVs kvs = .ok items → ∀ p ∈ items, floatsOk p.2 = true
  | [], items, _, h => by simp only [jsonKVs] at h; cases h; simp
  | (k, v) :: rest, items, hf, h => by
    simp only [floatsFiniteKV, Bool.and_eq_true] at hf
    simp only [jsonKVs] at h
    obtain ⟨j, hj, h⟩ := bind_eq_ok h
    obtain ⟨js', hjs', h⟩ := bind_eq_ok h
    cases h
    intro p hp
    rcases List.mem_cons.mp hp with rfl | hp
    · exact jsonTraverse_finite v j hf.1.2 hj
    · exact jsonKVs_finite rest js' hf.2 hjs' p hp

theorem jsonNative_finite : ∀ (v : PyVal) (j : Json), floatsFinite v = true → jsonNative v = .ok j → floatsOk j = true
  | .none, j, _, h => by simp only [jsonNative] at h; cases h; rfl
  | .bool _, j, _, h => by simp only [jsonNative] at h; cases h; rfl
  | .int _, j, _, h => by simp only [jsonNative] at h; cases h; rfl
  | .str _, j, _, h => by simp only [jsonNative] at h; cases h; rfl
  | .bytes _, j, _, h => by simp only [jsonNative] at h; cases h; rfl
  | .opaque _, j, _, h => by simp only [jsonNative] at h; cases h; rfl
  | .enumParams _ _ _, j, _, h => by simp only [jsonNative] at h; cases h; rfl
  | .float r, j, hf, h => by
    simp only [jsonNative] at h; cases h
    simpa only [floatsFinite, floatsOk] using hf
  | .enumPlain n true v, j, hf, h => by
    simp only [floatsFinite] at hf
    simp only [jsonNative] at h
    exact jsonNative_finite v j hf h
  | .enumPlain n false v, j, hf, h => by
    simp only [floatsFinite] at hf
    simp only [jsonNative] at h
    obtain ⟨j', hj', h⟩ := bind_eq_ok h
    cases h
    simp only [floatsOk, floatsOkKV, Bool.and_true]
    exact jsonNative_finite v j' hf hj'
  | .hasAsdict _ _ (some x) inner, j, hf, h => by
    simp only [floatsFinite, Bool.and_eq_true] at hf
    simp only [jsonNative] at h
    exact jsonTraverse_finite inner j hf.2 h
  | .hasAsdict _ _ none inner, j, hf, h => by
    simp only [floatsFinite] at hf
    simp only [jsonNative] at h
    exact jsonTraverse_finite inner j hf h
  | .dict o kvs, j, hf, h => by
    simp only [floatsFinite] at hf
    simp only [jsonNative] at h
    obtain ⟨items, hi, h⟩ := bind_eq_ok h
    cases h
    simp only [floatsOk]
    exact jsonNativeKVs_finite kvs items hf hi
  | .attrs _ _ fs, j, hf, h => by
    simp only [floatsFinite] at hf
    simp only [jsonNative] at h
    obtain ⟨items, hi, h⟩ := bind_eq_ok h
    cases h
    exact floatsOk_obj_of_filter _ items (jsonKVs_finite fs items hf hi)
  | .hasDict _ vars, j, hf, h => by
    simp only [floatsFinite] at hf
    simp only [jsonNative] at h
    exact obj_items_finite (fun items hi => jsonKVs_finite vars items hf hi) h
  | .seq true xs, j, hf, h => by
    simp only [floatsFinite] at hf
    simp only [jsonNative] at h
    obtain ⟨js, hjs, h⟩ := bind_eq_ok h
    cases h
    simp only [floatsOk]
    exact floatsOkL_orderSet _ js (jsonList_finite xs js hf hjs)
  | .seq false xs, j, hf, h => by
    simp only [floatsFinite] at hf
    simp only [jsonNative] at h
    obtain ⟨js, hjs, h⟩ := bind_eq_ok h
    cases h
    simp only [floatsOk]
    exact jsonNativeList_finite xs js hf hjs

theorem jsonNativeList_finite : ∀ (xs : List PyVal) (js : List Json), floatsFiniteL xs = true → jsonNativeList xs = .ok js →
    floatsOkL js = true
  | [], js, _, h => by simp only [jsonNativeList] at h; cases h; rfl
  | x :: xs, js, hf, h => by
    simp only [floatsFiniteL, Bool.and_eq_true] at hf
    simp only [jsonNativeList] at h
    obtain ⟨j, hj, h⟩ := bind_eq_ok h
    obtain ⟨js', hjs', h⟩ := bind_eq_ok h
    cases h
    simp only [floatsOkL, Bool.and_eq_true]
    exact ⟨jsonNative_finite x j hf.1 hj, jsonNativeList_finite xs js' hf.2 hjs'⟩

theorem jsonNativeKVs_finite : ∀ (kvs : List (PyVal × PyVal)) (items : List (String × Json)), floatsFiniteKV kvs = true →
    jsonNativeKVs kvs = .ok items → floatsOkKV items = true
  | [], items, _, h => by simp only [jsonNativeKVs] at h; cases h; rfl
  | (k, v) :: rest, items, hf, h => by
    simp only [floatsFiniteKV, Bool.and_eq_true] at hf
    simp only [jsonNativeKVs] at h
    split at h
    · obtain ⟨_, hc, _⟩ := bind_eq_ok h
      cases hc
    · obtain ⟨j, hj, h⟩ := bind_eq_ok h
      obtain ⟨js', hjs', h⟩ := bind_eq_ok h
      cases h
      simp only [floatsOkKV, Bool.and_eq_true]
      exact ⟨jsonNative_finite v j hf.1.2 hj, jsonNativeKVs_finite rest js' hf.2 hjs'⟩
end

end Cp.Serial
