import CpModel.Text.Scan
/-
  Lemmas about the text scanner model: each primitive of `CpModel/Text/Scan.lean` evaluated on a buffer that
  is given in decomposed form (`pre ++ run ++ rest`), the elementary facts about the functional
  specification `splitTrimDrop`, and the loop invariant tying the two together.
-/
namespace Cp.Text
open Cp

/-! ### runs -/

/-- every list splits into a maximal `p`-run and a rest that does not start with a `p` element -/
theorem exists_run (p : UInt8 → Bool) (l : Bytes) :
    ∃ a r, l = a ++ r ∧ (∀ x ∈ a, p x = true) ∧ (∀ y r', r = y :: r' → p y = false) := by
  induction l with
  | nil => exact ⟨[], [], rfl, by simp, by simp⟩
  | cons x xs ih =>
    obtain ⟨a, r, hl, ha, hr⟩ := ih
    cases hp : p x with
    | true =>
      refine ⟨x :: a, r, by simp [hl], ?_, hr⟩
      intro y hy
      cases hy with
      | head => exact hp
      | tail _ h => exact ha y h
    | false =>
      refine ⟨[], x :: xs, rfl, by simp, ?_⟩
      intro y r' h
      cases h
      exact hp

theorem slice_mid (pre mid post : Bytes) :
    slice (pre ++ (mid ++ post)) pre.length (pre.length + mid.length) = mid := by
  simp [slice, List.take_append]

theorem slice_mid' {b : Bytes} {i j : Nat} (pre mid post : Bytes) (hb : b = pre ++ (mid ++ post))
    (hi : i = pre.length) (hj : j = pre.length + mid.length) : slice b i j = mid := by
  subst hb hi hj; exact slice_mid pre mid post

/-! ### `_check_separators` -/

theorem sepRun_none_run (seps : Bytes) (a r : Bytes) (c : Nat) (ha : ∀ x ∈ a, x ∈ seps)
    (hr : ∀ y r', r = y :: r' → y ∉ seps) :
    sepRun seps none (a ++ r) c = .ok (c + a.length) := by
  induction a generalizing c with
  | nil =>
    cases r with
    | nil => simp [sepRun]
    | cons y r' => simp [sepRun, hr y r' rfl]
  | cons x xs ih =>
    have hx : x ∈ seps := ha x (by simp)
    simp only [List.cons_append, sepRun, List.contains_iff_mem.mpr hx, exceeds, if_true]
    rw [ih (c + 1) (fun y hy => ha y (by simp [hy]))]
    simp; omega

theorem checkSeparators_none_run {b : Bytes} {off : Nat} (seps pre a r : Bytes) (hb : b = pre ++ (a ++ r))
    (ho : off = pre.length) (ha : ∀ x ∈ a, x ∈ seps)
    (hr : ∀ y r', r = y :: r' → y ∉ seps) :
    checkSeparators b off seps none none = .ok a.length := by
  subst hb ho
  simp [checkSeparators, sepRun_none_run seps a r 0 ha hr, below]

theorem skipWs_run {b : Bytes} {off : Nat} (ws pre a r : Bytes) (hb : b = pre ++ (a ++ r))
    (ho : off = pre.length) (ha : ∀ x ∈ a, x ∈ ws)
    (hr : ∀ y r', r = y :: r' → y ∉ ws) :
    skipWs b ws off = .ok (off + a.length) := by
  unfold skipWs
  cases ws with
  | nil =>
    cases a with
    | nil => simp
    | cons x xs => have := ha x (by simp); simp at this
  | cons w ws' =>
    simp [checkSeparators_none_run (w :: ws') pre a r hb ho ha hr]

/-! ### the separator search of `_parse_string_until_separator`, one single-byte separator -/

theorem suffix_single_false (sep : UInt8) (l : Bytes) (h : sep ∉ l) : [sep].isSuffixOf l = false := by
  cases hs : [sep].isSuffixOf l with
  | false => rfl
  | true =>
    obtain ⟨t, ht⟩ := List.isSuffixOf_iff_suffix.mp hs
    exact absurd (by rw [← ht]; simp) h

theorem suffix_single_true (sep : UInt8) (l : Bytes) : [sep].isSuffixOf (l ++ [sep]) = true :=
  List.isSuffixOf_iff_suffix.mpr ⟨l, rfl⟩

theorem sepSearch_step_false {b : Bytes} {off n e : Nat} {sep : UInt8}
    (h : [sep].isSuffixOf (slice b off e) = false) :
    sepSearch b off [[sep]] (n + 1) e = sepSearch b off [[sep]] n (e + 1) := by
  simp [sepSearch, h]

theorem sepSearch_step_true {b : Bytes} {off n e : Nat} {sep : UInt8}
    (h : [sep].isSuffixOf (slice b off e) = true) :
    sepSearch b off [[sep]] (n + 1) e = some (e - 1) := by
  simp [sepSearch, h]

theorem sepSearch_found (sep : UInt8) (pre : Bytes) : ∀ (e done r b : Bytes) (n E : Nat),
    sep ∉ done → sep ∉ e → b = pre ++ (done ++ (e ++ sep :: r)) → n = e.length + r.length + 2 →
    E = pre.length + done.length → sepSearch b pre.length [[sep]] n E = some (E + e.length) := by
  intro e
  induction e with
  | nil =>
    intro done r b n E hd _ hb hn hE
    subst hn
    have h1 : slice b pre.length E = done := slice_mid' pre done (sep :: r) (by simpa using hb) rfl hE
    have h2 : slice b pre.length (E + 1) = done ++ [sep] :=
      slice_mid' pre (done ++ [sep]) r (by simp [hb]) rfl (by simp [hE]; omega)
    rw [show [].length + r.length + 2 = (r.length + 1) + 1 by simp,
      sepSearch_step_false (by rw [h1]; exact suffix_single_false sep done hd),
      sepSearch_step_true (by rw [h2]; exact suffix_single_true sep done)]
    simp
  | cons x e' ih =>
    intro done r b n E hd he hb hn hE
    subst hn
    have h1 : slice b pre.length E = done := slice_mid' pre done (x :: e' ++ sep :: r) (by simpa using hb) rfl hE
    have hx : x ≠ sep := fun h => he (by simp [h])
    have he' : sep ∉ e' := fun h => he (by simp [h])
    have := ih (done ++ [x]) r b (e'.length + r.length + 2) (E + 1)
      (by simp [hd]; exact fun h => hx h.symm) he' (by simp [hb]) rfl (by simp [hE]; omega)
    rw [show (x :: e').length + r.length + 2 = (e'.length + r.length + 2) + 1 by simp; omega,
      sepSearch_step_false (by rw [h1]; exact suffix_single_false sep done hd), this]
    congr 1; simp; omega

theorem sepSearch_absent (sep : UInt8) (pre : Bytes) : ∀ (todo done b : Bytes) (n E : Nat),
    sep ∉ done → sep ∉ todo → b = pre ++ (done ++ todo) → n = todo.length + 1 →
    E = pre.length + done.length → sepSearch b pre.length [[sep]] n E = none := by
  intro todo
  induction todo with
  | nil =>
    intro done b n E hd _ hb hn hE
    subst hn
    have h1 : slice b pre.length E = done := slice_mid' pre done [] (by simpa using hb) rfl hE
    rw [show ([] : Bytes).length + 1 = 0 + 1 by simp,
      sepSearch_step_false (by rw [h1]; exact suffix_single_false sep done hd)]
    rfl
  | cons x t ih =>
    intro done b n E hd ht hb hn hE
    subst hn
    have h1 : slice b pre.length E = done := slice_mid' pre done (x :: t) (by simpa using hb) rfl hE
    have hx : x ≠ sep := fun h => ht (by simp [h])
    have ht' : sep ∉ t := fun h => ht (by simp [h])
    have := ih (done ++ [x]) b (t.length + 1) (E + 1)
      (by simp [hd]; exact fun h => hx h.symm) ht' (by simp [hb]) rfl (by simp [hE]; omega)
    rw [show (x :: t).length + 1 = (t.length + 1) + 1 by simp,
      sepSearch_step_false (by rw [h1]; exact suffix_single_false sep done hd), this]

/-! ### the backward whitespace scan -/

theorem trimRun_run (ws : Bytes) (g : Bytes) (x : UInt8) (m : Bytes) (c : Nat) (hg : ∀ y ∈ g, y ∈ ws) (hx : x ∉ ws) :
    trimRun ws (g ++ x :: m) c = .ok (c + g.length) := by
  induction g generalizing c with
  | nil => simp [trimRun, hx]
  | cons y ys ih =>
    have hy : y ∈ ws := hg y (by simp)
    simp only [List.cons_append, trimRun, List.contains_iff_mem.mpr hy, if_true]
    rw [ih (c + 1) (fun z hz => hg z (by simp [hz]))]
    simp; omega

/-! ### `_parse_string_until_separator` on a decomposed buffer

`pre` is what lies before `item_offset`; the item is `t` followed by a run `g` of whitespace; `tail` is empty or
starts with the separator. -/

theorem until_itemEnd (sep : UInt8) (pre e tail b : Bytes) (off : Nat)
    (hb : b = pre ++ (e ++ tail)) (ho : off = pre.length) (he : sep ∉ e)
    (htail : tail = [] ∨ ∃ r, tail = sep :: r) :
    findItemEnd b off [[sep]] true = some (off + e.length) := by
  unfold findItemEnd
  subst ho
  rcases htail with h | ⟨r, h⟩
  · subst h
    rw [sepSearch_absent sep pre e [] b (b.length + 1 - pre.length) pre.length (by simp) he (by simpa using hb)
      (by simp [hb]; omega) (by simp)]
    simp [hb]
  · subst h
    rw [sepSearch_found sep pre e [] r b (b.length + 1 - pre.length) pre.length (by simp) he (by simpa using hb)
      (by simp [hb]; omega) (by simp)]

theorem until_decomposed (sep : UInt8) (ws pre t g tail b : Bytes) (off : Nat)
    (hb : b = pre ++ (t ++ (g ++ tail))) (ho : off = pre.length)
    (hst : sep ∉ t) (hsg : sep ∉ g) (hg : ∀ y ∈ g, y ∈ ws)
    (ht : (t = [] ∧ g = []) ∨ ∃ t' x, t = t' ++ [x] ∧ x ∉ ws)
    (htail : tail = [] ∨ ∃ r, tail = sep :: r) :
    parseStringUntilSeparator b off [[sep]] true ws =
      match asciiText t with
      | .error e => .error e
      | .ok item => .ok (item, t.length) := by
  have hend := until_itemEnd sep pre (t ++ g) tail b off (by simpa using hb) ho (by simp [hst, hsg]) htail
  unfold parseStringUntilSeparator
  simp only [hend]
  have hlt : ¬ (off + (t ++ g).length < off) := by omega
  simp only [hlt, if_false]
  have hcount : trimCount b ws off (off + (t ++ g).length) = .ok g.length := by
    unfold trimCount
    rcases ht with ⟨h1, h2⟩ | ⟨t', x, h1, hx⟩
    · subst h1 h2; simp
    · have htake : b.take (off + (t ++ g).length) = pre ++ (t ++ g) := by
        rw [hb, ho, show pre ++ (t ++ (g ++ tail)) = (pre ++ (t ++ g)) ++ tail by simp,
          show pre.length + (t ++ g).length = (pre ++ (t ++ g)).length by simp]
        exact List.take_left
      have hpos : off < off + (t ++ g).length := by subst h1; simp; omega
      simp only [hpos, if_true, htake]
      subst h1
      have : (pre ++ (t' ++ [x] ++ g)).reverse = g.reverse ++ x :: (t'.reverse ++ pre.reverse) := by simp
      rw [this, trimRun_run ws g.reverse x _ 0 (fun y hy => hg y (by simpa using hy)) hx]
      simp
  simp only [hcount]
  have hnot : ¬ (off + (t ++ g).length - off < g.length) := by simp
  simp only [hnot, if_false]
  have hsl : slice b off (off + (t ++ g).length - g.length) = t :=
    slice_mid' pre t (g ++ tail) hb ho (by simp [ho]; omega)
  rw [hsl]
  cases asciiText t with
  | error e => rfl
  | ok item => simp

/-! ### the separator check between two items -/

theorem checkSeparators_skip {b : Bytes} {off : Nat} (sep : UInt8) (pre a r : Bytes) (hb : b = pre ++ (a ++ r))
    (ho : off = pre.length) (ha : ∀ x ∈ a, x = sep) (hne : a ≠ []) (hr : ∀ y r', r = y :: r' → y ≠ sep) :
    checkSeparators b off [sep] (some 1) none = .ok a.length := by
  subst hb ho
  have h := sepRun_none_run [sep] a r 0 (fun x hx => by simp [ha x hx]) (fun y r' h => by simpa using hr y r' h)
  have hpos : ¬ (a.length < 1) := by
    cases a with
    | nil => exact absurd rfl hne
    | cons x xs => simp
  simp [checkSeparators, h, below, hpos]

theorem checkSeparators_strict_one {b : Bytes} {off : Nat} (sep : UInt8) (pre r : Bytes) (hb : b = pre ++ (sep :: r))
    (ho : off = pre.length) (hr : ∀ y r', r = y :: r' → y ≠ sep) :
    checkSeparators b off [sep] (some 1) (some 1) = .ok 1 := by
  subst hb ho
  cases r with
  | nil => simp [checkSeparators, sepRun, exceeds, below]
  | cons y r' =>
    have : y ≠ sep := hr y r' rfl
    simp [checkSeparators, sepRun, exceeds, below, this]

theorem checkSeparators_strict_two {b : Bytes} {off : Nat} (sep : UInt8) (pre r : Bytes)
    (hb : b = pre ++ (sep :: sep :: r)) (ho : off = pre.length) :
    checkSeparators b off [sep] (some 1) (some 1) = .error .invalidValue := by
  subst hb ho
  simp [checkSeparators, sepRun, exceeds]

/-! ### one pass through the loop body on a decomposed buffer -/

theorem stepItem_decomposed (sep : UInt8) (ws pre t g tail b : Bytes) (off : Nat) (acc : List Bytes) (skip : Bool)
    (hb : b = pre ++ (t ++ (g ++ tail))) (ho : off = pre.length) (hsw : sep ∉ ws)
    (hst : sep ∉ t) (hg : ∀ y ∈ g, y ∈ ws)
    (ht : (t = [] ∧ g = []) ∨ ∃ t' x, t = t' ++ [x] ∧ x ∉ ws)
    (htail : tail = [] ∨ ∃ r, tail = sep :: r) :
    stepItem b [sep] ws skip off acc =
      if t = [] then (if skip then .ok (acc, off) else .error .invalidValue)
      else if isAscii t then .ok (acc ++ [t], off + t.length + g.length) else .error .invalidValue := by
  have hsg : sep ∉ g := fun h => hsw (hg sep h)
  have htl : ∀ y r', tail = y :: r' → y ∉ ws := by
    intro y r' h
    rcases htail with h0 | ⟨r, h0⟩
    · rw [h0] at h; cases h
    · rw [h0] at h; cases h; exact hsw
  unfold stepItem
  rw [show ([sep].map fun x => [x]) = [[sep]] from rfl,
    until_decomposed sep ws pre t g tail b off hb ho hst hsg hg ht htail]
  by_cases hte : t = []
  · have hge : g = [] := by
      rcases ht with ⟨_, h⟩ | ⟨t', x, h, _⟩
      · exact h
      · rw [hte] at h; simp at h
    subst hte hge
    have hskip : skipWs b ws off = .ok (off + ([] : Bytes).length) :=
      skipWs_run ws pre [] tail (by simpa using hb) ho (by simp) htl
    cases skip <;> simp [asciiText, isAscii, hskip]
  · simp only [hte, if_false]
    have hlen : t.length ≠ 0 := by
      cases t with
      | nil => exact absurd rfl hte
      | cons x xs => simp
    by_cases hasc : isAscii t = true
    · have hsl : slice b off (off + t.length) = t := slice_mid' pre t (g ++ tail) hb ho (by rw [ho])
      have hskip : skipWs b ws (off + t.length) = .ok (off + t.length + g.length) :=
        skipWs_run ws (pre ++ t) g tail (by simp [hb]) (by simp [ho]) hg htl
      simp [asciiText, hasc, hlen, hsl, hskip]
    · simp [asciiText, hasc]

theorem stepSep_end (sepSet ws b : Bytes) (skip : Bool) (mx : Option Nat) (off : Nat) (acc : List Bytes)
    (ho : off = b.length) : stepSep b sepSet ws skip mx off acc = .ok (.done acc b.length) := by
  subst ho; simp [stepSep]

theorem stepSep_decomposed (sep : UInt8) (ws pre s w r3 b : Bytes) (off : Nat) (acc : List Bytes) (skip : Bool)
    (hb : b = pre ++ (sep :: (s ++ (w ++ r3)))) (ho : off = pre.length)
    (hs : ∀ x ∈ s, x = sep) (hws : ∀ y r', w ++ r3 = y :: r' → y ≠ sep)
    (hw : ∀ x ∈ w, x ∈ ws) (hr3 : ∀ y r', r3 = y :: r' → y ∉ ws) :
    stepSep b [sep] ws skip none off acc =
      if skip = false ∧ s ≠ [] then .error .invalidValue
      else if r3 = [] then .ok (.done acc b.length)
      else .ok (.more acc (off + 1 + s.length + w.length)) := by
  have hlen : b.length = off + 1 + s.length + w.length + r3.length := by simp [hb, ho]; omega
  have hne : (off == b.length) = false := by simp; omega
  unfold stepSep
  simp only [hne]
  have hskipws : ∀ k, k = 1 + s.length → skipWs b ws (off + k) = .ok (off + k + w.length) := by
    intro k hk
    exact skipWs_run ws (pre ++ sep :: s) w r3 (by simp [hb]) (by simp [ho, hk]; omega) hw hr3
  have hfin : ∀ k, k = 1 + s.length → ((off + k + w.length == b.length) = true ↔ r3 = []) := by
    intro k hk
    constructor
    · intro h
      have : r3.length = 0 := by simp at h; omega
      exact List.eq_nil_of_length_eq_zero this
    · intro h; subst h; simp at hlen ⊢; omega
  cases skip with
  | true =>
    have hc : checkSeparators b off [sep] (some 1) none = .ok (sep :: s).length :=
      checkSeparators_skip sep pre (sep :: s) (w ++ r3) (by simp [hb]) ho
        (by intro x hx; cases hx with
          | head => rfl
          | tail _ h => exact hs x h) (by simp) hws
    simp only [if_true, hc, hskipws (sep :: s).length (by simp; omega)]
    by_cases h3 : r3 = []
    · have := (hfin (sep :: s).length (by simp; omega)).mpr h3
      simp only [this, if_true]
      simp [h3]; simp [h3] at hlen; omega
    · have : ((off + (sep :: s).length + w.length == b.length)) = false := by
        cases hh : (off + (sep :: s).length + w.length == b.length) with
        | false => rfl
        | true => exact absurd ((hfin _ (by simp; omega)).mp hh) h3
      simp only [this]
      simp [h3]; omega
  | false =>
    simp only [Bool.false_eq_true, if_false]
    cases s with
    | nil =>
      have hc : checkSeparators b off [sep] (some 1) (some 1) = .ok 1 :=
        checkSeparators_strict_one sep pre (w ++ r3) (by simpa using hb) ho hws
      simp only [hc, hskipws 1 (by simp)]
      by_cases h3 : r3 = []
      · have := (hfin 1 (by simp)).mpr h3
        simp only [this, if_true]
        simp [h3]; simp [h3] at hlen; omega
      · have : ((off + 1 + w.length == b.length)) = false := by
          cases hh : (off + 1 + w.length == b.length) with
          | false => rfl
          | true => exact absurd ((hfin _ (by simp)).mp hh) h3
        simp only [this]
        simp [h3]
    | cons x xs =>
      have hx : x = sep := hs x (by simp)
      subst hx
      have hc : checkSeparators b off [x] (some 1) (some 1) = .error .invalidValue :=
        checkSeparators_strict_two x pre (xs ++ (w ++ r3)) (by simpa using hb) ho
      simp [hc]

/-! ### elementary facts about the specification -/

theorem splitSep_ne_nil (sep : UInt8) (l : Bytes) : splitSep sep l ≠ [] := by
  cases l with
  | nil => simp [splitSep]
  | cons x xs =>
    simp only [splitSep]
    split
    · simp
    · split <;> simp

theorem splitSep_cons_ne (sep x : UInt8) (xs : Bytes) (hx : x ≠ sep) :
    ∃ h tl, splitSep sep xs = h :: tl ∧ splitSep sep (x :: xs) = (x :: h) :: tl := by
  cases hs : splitSep sep xs with
  | nil => exact absurd hs (splitSep_ne_nil sep xs)
  | cons h tl => exact ⟨h, tl, rfl, by simp [splitSep, hx, hs]⟩

/-- an element in front of the first separator is glued to the first element of the rest -/
theorem splitSep_append_nosep (sep : UInt8) (e r : Bytes) (he : sep ∉ e) :
    ∃ h tl, splitSep sep r = h :: tl ∧ splitSep sep (e ++ r) = (e ++ h) :: tl := by
  induction e with
  | nil =>
    cases hs : splitSep sep r with
    | nil => exact absurd hs (splitSep_ne_nil sep r)
    | cons h tl => exact ⟨h, tl, rfl, by simp [hs]⟩
  | cons x xs ih =>
    have hx : x ≠ sep := fun h => he (by simp [h])
    obtain ⟨h, tl, h1, h2⟩ := ih (fun h => he (by simp [h]))
    obtain ⟨h', tl', h3, h4⟩ := splitSep_cons_ne sep x (xs ++ r) hx
    rw [h2] at h3
    cases h3
    exact ⟨h, tl, h1, by simpa using h4⟩

theorem splitSep_nosep (sep : UInt8) (e : Bytes) (he : sep ∉ e) : splitSep sep e = [e] := by
  obtain ⟨h, tl, h1, h2⟩ := splitSep_append_nosep sep e [] he
  simp [splitSep] at h1
  obtain ⟨rfl, rfl⟩ := h1
  simpa using h2

theorem splitSep_append_sep (sep : UInt8) (e r : Bytes) (he : sep ∉ e) :
    splitSep sep (e ++ sep :: r) = e :: splitSep sep r := by
  obtain ⟨h, tl, h1, h2⟩ := splitSep_append_nosep sep e (sep :: r) he
  simp [splitSep] at h1
  obtain ⟨rfl, rfl⟩ := h1
  simpa using h2

theorem splitSep_run (sep : UInt8) (s r : Bytes) (hs : ∀ x ∈ s, x = sep) :
    splitSep sep (s ++ r) = List.replicate s.length [] ++ splitSep sep r := by
  induction s with
  | nil => simp
  | cons x xs ih =>
    have hx : x = sep := hs x (by simp)
    subst hx
    simp [splitSep, List.replicate_succ, ih (fun y hy => hs y (by simp [hy]))]

theorem dropWhile_of_head (p : UInt8 → Bool) (l : Bytes) (h : ∀ y r', l = y :: r' → p y = false) :
    l.dropWhile p = l := by
  cases l with
  | nil => rfl
  | cons y r' => simp [List.dropWhile, h y r' rfl]

theorem dropWhile_run (p : UInt8 → Bool) (a r : Bytes) (ha : ∀ x ∈ a, p x = true) :
    (a ++ r).dropWhile p = r.dropWhile p := by
  induction a with
  | nil => rfl
  | cons x xs ih =>
    simp [ha x (by simp), ih (fun y hy => ha y (by simp [hy]))]

theorem dropWhile_ne_nil (p : UInt8 → Bool) (l : Bytes) (x : UInt8) (hx : x ∈ l) (hp : p x = false) :
    l.dropWhile p ≠ [] := by
  induction l with
  | nil => cases hx
  | cons y ys ih =>
    cases hy : p y with
    | false => simp [List.dropWhile, hy]
    | true =>
      simp only [List.dropWhile, hy]
      cases hx with
      | head => rw [hp] at hy; cases hy
      | tail _ h => exact ih h

theorem trimStart_run (ws w l : Bytes) (hw : ∀ x ∈ w, x ∈ ws) : trimStart ws (w ++ l) = trimStart ws l :=
  dropWhile_run _ w l (fun x hx => List.contains_iff_mem.mpr (hw x hx))

theorem trimStart_head (ws l : Bytes) (h : ∀ y r', l = y :: r' → y ∉ ws) : trimStart ws l = l :=
  dropWhile_of_head _ l (fun y r' e => by simpa using h y r' e)

theorem trimEnd_run (ws t g : Bytes) (hg : ∀ x ∈ g, x ∈ ws) : trimEnd ws (t ++ g) = trimEnd ws t := by
  unfold trimEnd
  rw [List.reverse_append, dropWhile_run _ g.reverse t.reverse
    (fun x hx => List.contains_iff_mem.mpr (hg x (by simpa using hx)))]

theorem trimEnd_last (ws t' : Bytes) (x : UInt8) (hx : x ∉ ws) : trimEnd ws (t' ++ [x]) = t' ++ [x] := by
  unfold trimEnd
  rw [dropWhile_of_head _ _ (by
    intro y r' e
    simp at e
    obtain ⟨rfl, _⟩ := e
    simpa using hx)]
  simp

/-- the item `t` followed by whitespace `g` trims to `t` -/
theorem trim_item (ws t g : Bytes) (hhead : ∀ y r', t = y :: r' → y ∉ ws) (hg : ∀ y ∈ g, y ∈ ws)
    (ht : (t = [] ∧ g = []) ∨ ∃ t' x, t = t' ++ [x] ∧ x ∉ ws) : trim ws (t ++ g) = t := by
  unfold trim
  rcases ht with ⟨rfl, rfl⟩ | ⟨t', x, rfl, hx⟩
  · simp [trimStart, trimEnd]
  · rw [trimStart_head ws _ (by
      intro y r' e
      cases t' with
      | nil => simp at e; exact hhead y [] (by simp [e.1])
      | cons z zs => simp at e; exact hhead y (zs ++ [x]) (by simp [e.1])),
      trimEnd_run ws _ g hg, trimEnd_last ws t' x hx]

theorem trim_nil (ws : Bytes) : trim ws [] = [] := by simp [trim, trimStart, trimEnd]

theorem trim_run (ws w l : Bytes) (hw : ∀ x ∈ w, x ∈ ws) : trim ws (w ++ l) = trim ws l := by
  unfold trim; rw [trimStart_run ws w l hw]

/-- whitespace in front of the first element is insignificant -/
theorem elems_leading_ws (sep : UInt8) (ws w r : Bytes) (hsw : sep ∉ ws) (hw : ∀ x ∈ w, x ∈ ws) :
    (splitSep sep (w ++ r)).map (trim ws) = (splitSep sep r).map (trim ws) := by
  obtain ⟨h, tl, h1, h2⟩ := splitSep_append_nosep sep w r (fun hm => hsw (hw sep hm))
  rw [h1, h2]
  simp [trim_run ws w h hw]

/-- a non-empty rest that does not start with whitespace never splits into a single empty element -/
theorem elems_ne_single_nil (sep : UInt8) (ws : Bytes) (y : UInt8) (r' : Bytes) (hy : y ∉ ws) :
    (splitSep sep (y :: r')).map (trim ws) ≠ [[]] := by
  by_cases hys : y = sep
  · subst hys
    cases hs : splitSep y r' with
    | nil => exact absurd hs (splitSep_ne_nil y r')
    | cons h tl => simp [splitSep, hs]
  · obtain ⟨h, tl, _, h2⟩ := splitSep_cons_ne sep y r' hys
    rw [h2]
    intro hcon
    simp at hcon
    have h3 : trim ws (y :: h) = [] := hcon.1
    unfold trim at h3
    rw [trimStart_head ws (y :: h) (by intro z r e; cases e; exact hy)] at h3
    unfold trimEnd at h3
    have : (y :: h).reverse.dropWhile ws.contains ≠ [] :=
      dropWhile_ne_nil _ _ y (by simp) (by simpa using hy)
    exact this (by simpa using h3)

/-! ### the element rules of the specification, one element at a time -/

def consOk (t : Bytes) : Except PErr (List Bytes) → Except PErr (List Bytes)
  | .ok r => .ok (t :: r)
  | .error e => .error e

theorem keepAscii_cons (t : Bytes) (l : List Bytes) :
    keepAscii (t :: l) = if isAscii t then consOk t (keepAscii l) else .error .invalidValue := by
  unfold keepAscii
  by_cases h1 : isAscii t = true <;> by_cases h2 : l.all isAscii = true <;> simp [h1, h2, consOk]

/-- the strict rule applied to a list of (trimmed) elements -/
def checkItems (items : List Bytes) : Except PErr (List Bytes) :=
  if items.any (·.isEmpty) then .error .invalidValue else keepAscii items

theorem checkItems_cons (t : Bytes) (l : List Bytes) :
    checkItems (t :: l) =
      if t = [] then .error .invalidValue
      else if isAscii t then consOk t (checkItems l) else .error .invalidValue := by
  unfold checkItems
  by_cases ht : t = []
  · simp [ht]
  · have : t.isEmpty = false := by cases t <;> simp_all
    by_cases hl : l.any (·.isEmpty) = true
    · by_cases ha : isAscii t = true <;> simp [ht, this, hl, ha, consOk]
    · simp [ht, this, hl, keepAscii_cons]

/-- the `skip_empty` rule applied to a list of (trimmed) elements -/
def dropItems (elems : List Bytes) : Except PErr (List Bytes) :=
  keepAscii (elems.filter fun e => !e.isEmpty)

theorem dropItems_cons (t : Bytes) (l : List Bytes) :
    dropItems (t :: l) =
      if t = [] then dropItems l
      else if isAscii t then consOk t (dropItems l) else .error .invalidValue := by
  unfold dropItems
  by_cases ht : t = []
  · simp [ht]
  · have : t.isEmpty = false := by cases t <;> simp_all
    simp [ht, this, keepAscii_cons]

theorem dropItems_replicate (n : Nat) (l : List Bytes) : dropItems (List.replicate n [] ++ l) = dropItems l := by
  induction n with
  | zero => simp
  | succ n ih => simp [List.replicate_succ, dropItems_cons, ih]

def tailBody (elems : List Bytes) : List Bytes :=
  if elems.getLast?.any (·.isEmpty) then elems.dropLast else elems

theorem strictBody_cons (t : Bytes) (m : List Bytes) (hm : m ≠ []) : strictBody (t :: m) = t :: tailBody m := by
  cases m with
  | nil => exact absurd rfl hm
  | cons x xs =>
    unfold strictBody tailBody
    have h2 : (2 ≤ (t :: x :: xs).length) = True := by simp
    have hl : (t :: x :: xs).getLast? = (x :: xs).getLast? := by simp [List.getLast?_cons]
    simp only [h2, decide_true, Bool.true_and, hl]
    split <;> simp [List.dropLast]

theorem tailBody_cons (x : Bytes) (m : List Bytes) (hm : m ≠ []) : tailBody (x :: m) = x :: tailBody m := by
  cases m with
  | nil => exact absurd rfl hm
  | cons y ys =>
    unfold tailBody
    have hl : (x :: y :: ys).getLast? = (y :: ys).getLast? := by simp [List.getLast?_cons]
    rw [hl]
    split <;> simp [List.dropLast]

theorem tailBody_single_nil : tailBody [[]] = [] := by simp [tailBody]

theorem tailBody_eq_strictBody (e : List Bytes) (h0 : e ≠ []) (h1 : e ≠ [[]]) : tailBody e = strictBody e := by
  cases e with
  | nil => exact absurd rfl h0
  | cons x xs =>
    cases xs with
    | nil =>
      have : x ≠ [] := fun h => h1 (by simp [h])
      have hx : x.isEmpty = false := by cases x <;> simp_all
      simp [tailBody, strictBody, hx]
    | cons y ys => simp [tailBody, strictBody]

theorem splitTrimDrop_skip (sep : UInt8) (ws b : Bytes) :
    splitTrimDrop sep ws true b = dropItems ((splitSep sep b).map (trim ws)) := by
  simp [splitTrimDrop, dropItems]

theorem splitTrimDrop_strict (sep : UInt8) (ws b : Bytes) :
    splitTrimDrop sep ws false b = checkItems (strictBody ((splitSep sep b).map (trim ws))) := by
  simp [splitTrimDrop, checkItems]

/-! ### the specification unfolded over one loop iteration -/

def elems (sep : UInt8) (ws l : Bytes) : List Bytes := (splitSep sep l).map (trim ws)

theorem elems_ne_nil (sep : UInt8) (ws l : Bytes) : elems sep ws l ≠ [] := by
  simp [elems, splitSep_ne_nil]

theorem elems_nil (sep : UInt8) (ws : Bytes) : elems sep ws [] = [[]] := by
  simp [elems, splitSep, trim_nil]

theorem spec_end (sep : UInt8) (ws t g : Bytes) (skip : Bool) (hsw : sep ∉ ws) (hst : sep ∉ t)
    (hhead : ∀ y r', t = y :: r' → y ∉ ws) (hg : ∀ y ∈ g, y ∈ ws)
    (ht : (t = [] ∧ g = []) ∨ ∃ t' x, t = t' ++ [x] ∧ x ∉ ws) :
    splitTrimDrop sep ws skip (t ++ g) =
      if t = [] then (if skip then .ok [] else .error .invalidValue)
      else if isAscii t then .ok [t] else .error .invalidValue := by
  have hsg : sep ∉ g := fun h => hsw (hg sep h)
  have hel : (splitSep sep (t ++ g)).map (trim ws) = [t] := by
    rw [splitSep_nosep sep (t ++ g) (by simp [hst, hsg])]
    simp [trim_item ws t g hhead hg ht]
  cases skip with
  | true =>
    rw [splitTrimDrop_skip, hel, dropItems_cons]
    by_cases h : t = [] <;> by_cases ha : isAscii t = true <;> simp [h, ha, dropItems, keepAscii, consOk]
  | false =>
    rw [splitTrimDrop_strict, hel]
    have : strictBody [t] = [t] := by simp [strictBody]
    rw [this, checkItems_cons]
    by_cases h : t = [] <;> by_cases ha : isAscii t = true <;> simp [h, ha, checkItems, keepAscii, consOk]

theorem elems_sep (sep : UInt8) (ws t g s w r3 : Bytes) (hsw : sep ∉ ws) (hst : sep ∉ t)
    (hhead : ∀ y r', t = y :: r' → y ∉ ws) (hg : ∀ y ∈ g, y ∈ ws)
    (ht : (t = [] ∧ g = []) ∨ ∃ t' x, t = t' ++ [x] ∧ x ∉ ws)
    (hs : ∀ x ∈ s, x = sep) (hw : ∀ x ∈ w, x ∈ ws) :
    elems sep ws (t ++ (g ++ sep :: (s ++ (w ++ r3)))) = t :: (List.replicate s.length [] ++ elems sep ws r3) := by
  have hsg : sep ∉ g := fun h => hsw (hg sep h)
  unfold elems
  rw [show t ++ (g ++ sep :: (s ++ (w ++ r3))) = (t ++ g) ++ sep :: (s ++ (w ++ r3)) by simp,
    splitSep_append_sep sep (t ++ g) _ (by simp [hst, hsg]), splitSep_run sep s _ hs]
  simp only [List.map_cons, List.map_append, List.map_replicate, trim_nil, trim_item ws t g hhead hg ht]
  rw [elems_leading_ws sep ws w r3 hsw hw]

theorem spec_sep (sep : UInt8) (ws t g s w r3 : Bytes) (skip : Bool) (hsw : sep ∉ ws) (hst : sep ∉ t)
    (hhead : ∀ y r', t = y :: r' → y ∉ ws) (hg : ∀ y ∈ g, y ∈ ws)
    (ht : (t = [] ∧ g = []) ∨ ∃ t' x, t = t' ++ [x] ∧ x ∉ ws)
    (hs : ∀ x ∈ s, x = sep) (hw : ∀ x ∈ w, x ∈ ws) (hr3 : ∀ y r', r3 = y :: r' → y ∉ ws) :
    splitTrimDrop sep ws skip (t ++ (g ++ sep :: (s ++ (w ++ r3)))) =
      if t = [] then
        (if skip then (if r3 = [] then .ok [] else splitTrimDrop sep ws skip r3) else .error .invalidValue)
      else if isAscii t then
        (if skip = false ∧ s ≠ [] then .error .invalidValue
         else if r3 = [] then .ok [t] else consOk t (splitTrimDrop sep ws skip r3))
      else .error .invalidValue := by
  have hel := elems_sep sep ws t g s w r3 hsw hst hhead hg ht hs hw
  unfold elems at hel
  cases skip with
  | true =>
    simp only [splitTrimDrop_skip, hel, dropItems_cons, dropItems_replicate]
    have h3 : dropItems ((splitSep sep []).map (trim ws)) = .ok [] := by
      simp [splitSep, trim_nil, dropItems, keepAscii]
    by_cases h : t = []
    · by_cases hr : r3 = []
      · subst hr; simp [h, h3]
      · simp [h, hr]
    · by_cases ha : isAscii t = true
      · by_cases hr : r3 = []
        · subst hr; simp [h, ha, h3, consOk]
        · simp [h, ha, hr]
      · simp [h, ha]
  | false =>
    have hm : List.replicate s.length ([] : Bytes) ++ (splitSep sep r3).map (trim ws) ≠ [] := by
      simp [splitSep_ne_nil]
    simp only [splitTrimDrop_strict, hel, strictBody_cons _ _ hm, checkItems_cons]
    by_cases h : t = []
    · simp [h]
    · by_cases ha : isAscii t = true
      · simp only [h, ha, if_false, if_true, true_and]
        cases s with
        | nil =>
          simp only [List.length_nil, List.replicate_zero, List.nil_append, ne_eq, not_true, if_false]
          by_cases hr : r3 = []
          · subst hr
            simp [splitSep, trim_nil, tailBody_single_nil, checkItems, keepAscii, consOk]
          · simp only [hr, if_false]
            cases r3 with
            | nil => exact absurd rfl hr
            | cons y r' =>
              have hne := elems_ne_single_nil sep ws y r' (hr3 y r' rfl)
              rw [tailBody_eq_strictBody _ (by simp [splitSep_ne_nil]) hne]
        | cons x xs =>
          have hne : List.replicate xs.length ([] : Bytes) ++ (splitSep sep r3).map (trim ws) ≠ [] := by
            simp [splitSep_ne_nil]
          simp [List.replicate_succ, tailBody_cons _ _ hne, checkItems_cons, consOk]
      · simp [h, ha]

/-! ### the loop invariant -/

/-- What the loop sees at `item_offset`: the item `t`, whitespace `g`, and then either the end of the input or a
separator, further separators `s`, whitespace `w`, and the rest `r3` (where the next iteration starts). -/
theorem decompose (sep : UInt8) (ws rest : Bytes) (hhead : ∀ y r', rest = y :: r' → y ∉ ws) :
    ∃ t g tail, rest = t ++ (g ++ tail) ∧ sep ∉ t ∧ (∀ y r', t = y :: r' → y ∉ ws) ∧ (∀ y ∈ g, y ∈ ws) ∧
      ((t = [] ∧ g = []) ∨ ∃ t' x, t = t' ++ [x] ∧ x ∉ ws) ∧
      (tail = [] ∨ ∃ s w r3, tail = sep :: (s ++ (w ++ r3)) ∧ (∀ x ∈ s, x = sep) ∧
        (∀ y r', w ++ r3 = y :: r' → y ≠ sep) ∧ (∀ x ∈ w, x ∈ ws) ∧ (∀ y r', r3 = y :: r' → y ∉ ws)) := by
  obtain ⟨e, tail, hrest, he, htail⟩ := exists_run (fun x => x != sep) rest
  obtain ⟨g', m, hrev, hg', hm⟩ := exists_run ws.contains e.reverse
  have he' : e = m.reverse ++ g'.reverse := by
    have := congrArg List.reverse hrev
    simpa using this
  have hgws : ∀ y ∈ g'.reverse, y ∈ ws := fun y hy => by simpa using hg' y (by simpa using hy)
  refine ⟨m.reverse, g'.reverse, tail, by rw [hrest, he']; simp, ?_, ?_, hgws, ?_, ?_⟩
  · intro h
    have := he sep (by rw [he']; simp [h])
    simp at this
  · intro y r' h
    exact hhead y (r' ++ (g'.reverse ++ tail)) (by rw [hrest, he', h]; simp)
  · cases m with
    | nil =>
      left
      refine ⟨rfl, ?_⟩
      cases hgr : g'.reverse with
      | nil => rfl
      | cons y ys =>
        exfalso
        have hy : y ∈ ws := hgws y (by rw [hgr]; simp)
        exact hhead y (ys ++ tail) (by rw [hrest, he', hgr]; simp) hy
    | cons x m' =>
      right
      exact ⟨m'.reverse, x, by simp, by simpa using hm x m' rfl⟩
  · cases tail with
    | nil => left; rfl
    | cons y r =>
      right
      have hy : y = sep := by simpa using htail y r rfl
      subst hy
      obtain ⟨s, r2, hr, hs, hr2⟩ := exists_run (fun x => x == y) r
      obtain ⟨w, r3, hr2', hw, hr3⟩ := exists_run ws.contains r2
      refine ⟨s, w, r3, by rw [hr, hr2'], fun x hx => by simpa using hs x hx, ?_, fun x hx => by simpa using hw x hx,
        fun z r' h => by simpa using hr3 z r' h⟩
      intro z r' h
      have := hr2 z r' (by rw [hr2', h])
      simpa using this

theorem arrayLoop_succ (b sepSet ws : Bytes) (skip : Bool) (mx : Option Nat) (fuel off : Nat) (acc : List Bytes) :
    arrayLoop b sepSet ws skip mx (fuel + 1) off acc =
      match arrayStep b sepSet ws skip mx off acc with
      | .error e => .error e
      | .ok (.done items off) => .ok (items, off)
      | .ok (.more items off) => arrayLoop b sepSet ws skip mx fuel off items := rfl

/-- The loop invariant: started at the beginning of an element (`rest` does not begin with whitespace) with enough
fuel, the loop appends to `acc` exactly what the specification makes of `rest`, and ends at the end of the buffer. -/
theorem loop_refines (sep : UInt8) (ws : Bytes) (skip : Bool) (hsw : sep ∉ ws) :
    ∀ (n : Nat) (rest pre b : Bytes) (acc : List Bytes) (fuel : Nat), rest.length ≤ n → b = pre ++ rest →
      (∀ y r', rest = y :: r' → y ∉ ws) → rest.length + 1 ≤ fuel →
      arrayLoop b [sep] ws skip none fuel pre.length acc =
        match splitTrimDrop sep ws skip rest with
        | .ok items => .ok (acc ++ items, b.length)
        | .error e => .error e := by
  intro n
  induction n with
  | zero =>
    intro rest pre b acc fuel hn hb hhead hfuel
    have hr : rest = [] := List.eq_nil_of_length_eq_zero (by omega)
    subst hr
    cases fuel with
    | zero => omega
    | succ f =>
      have hstep := stepItem_decomposed sep ws pre [] [] [] b pre.length acc skip (by simpa using hb) rfl hsw
        (by simp) (by simp) (Or.inl ⟨rfl, rfl⟩) (Or.inl rfl)
      have hspec := spec_end sep ws [] [] skip hsw (by simp) (by simp) (by simp) (Or.inl ⟨rfl, rfl⟩)
      simp only [List.append_nil, if_true] at hspec hstep
      rw [arrayLoop_succ, arrayStep, hstep, hspec]
      cases skip with
      | false => simp
      | true =>
        simp only [if_true]
        rw [stepSep_end _ _ _ _ _ _ _ (by simp [hb])]
        simp
  | succ n ih =>
    intro rest pre b acc fuel hn hb hhead hfuel
    obtain ⟨t, g, tail, hrest, hst, hth, hg, ht, htail⟩ := decompose sep ws rest hhead
    cases fuel with
    | zero => omega
    | succ f =>
    have hb' : b = pre ++ (t ++ (g ++ tail)) := by rw [hb, hrest]
    have htail' : tail = [] ∨ ∃ r, tail = sep :: r := by
      rcases htail with h | ⟨s, w, r3, h, _⟩
      · exact Or.inl h
      · exact Or.inr ⟨_, h⟩
    have hstep := stepItem_decomposed sep ws pre t g tail b pre.length acc skip hb' rfl hsw hst hg ht htail'
    rw [arrayLoop_succ, arrayStep, hstep]
    rcases htail with htl | ⟨s, w, r3, htl, hs, hws, hw, hr3⟩
    · -- the item runs to the end of the input
      subst htl
      have hspec := spec_end sep ws t g skip hsw hst hth hg ht
      simp only [List.append_nil] at hrest
      rw [hrest, hspec]
      have hge : t = [] → g = [] := by
        intro h
        rcases ht with ⟨_, h2⟩ | ⟨t', x, h2, _⟩
        · exact h2
        · rw [h] at h2; simp at h2
      by_cases hte : t = []
      · have := hge hte
        subst hte this
        cases skip with
        | false => simp
        | true =>
          simp only [if_true]
          rw [stepSep_end _ _ _ _ _ _ _ (by simp [hb'])]
          simp
      · by_cases ha : isAscii t = true
        · simp only [hte, ha, if_false, if_true]
          rw [stepSep_end _ _ _ _ _ _ _ (by simp [hb']; omega)]
        · simp [hte, ha]
    · -- a separator follows
      subst htl
      have hspec := spec_sep sep ws t g s w r3 skip hsw hst hth hg ht hs hw hr3
      rw [hrest, hspec]
      have hge : t = [] → g = [] := by
        intro h
        rcases ht with ⟨_, h2⟩ | ⟨t', x, h2, _⟩
        · exact h2
        · rw [h] at h2; simp at h2
      have hlen3 : r3.length ≤ n := by
        have : rest.length = t.length + g.length + 1 + s.length + w.length + r3.length := by
          rw [hrest]; simp; omega
        omega
      have hfuel3 : r3.length + 1 ≤ f := by
        have : rest.length = t.length + g.length + 1 + s.length + w.length + r3.length := by
          rw [hrest]; simp; omega
        omega
      -- the second half of the body, for whatever `value` the first half produced
      have hsepstep : ∀ acc', stepSep b [sep] ws skip none (pre.length + t.length + g.length) acc' =
          if skip = false ∧ s ≠ [] then .error .invalidValue
          else if r3 = [] then .ok (.done acc' b.length)
          else .ok (.more acc' (pre.length + t.length + g.length + 1 + s.length + w.length)) :=
        fun acc' => stepSep_decomposed sep ws (pre ++ (t ++ g)) s w r3 b _ acc' skip (by rw [hb']; simp)
          (by simp; omega) hs hws hw hr3
      have hnext : ∀ acc', r3 ≠ [] →
          arrayLoop b [sep] ws skip none f (pre.length + t.length + g.length + 1 + s.length + w.length) acc' =
            match splitTrimDrop sep ws skip r3 with
            | .ok items => .ok (acc' ++ items, b.length)
            | .error e => .error e := by
        intro acc' _
        have := ih r3 (pre ++ (t ++ (g ++ sep :: (s ++ w)))) b acc' f hlen3 (by rw [hb']; simp) hr3 hfuel3
        rw [← this]
        congr 1
        simp; omega
      by_cases hte : t = []
      · have := hge hte
        subst hte this
        cases skip with
        | false => simp
        | true =>
          simp only [if_true, List.length_nil, Nat.add_zero] at hsepstep hnext ⊢
          rw [hsepstep acc]
          by_cases h3 : r3 = []
          · simp [h3]
          · simp only [h3, if_false, Bool.true_eq_false, false_and]
            rw [hnext acc h3]
      · by_cases ha : isAscii t = true
        · simp only [hte, ha, if_false, if_true]
          rw [hsepstep (acc ++ [t])]
          by_cases hbad : skip = false ∧ s ≠ []
          · simp [hbad]
          · simp only [hbad, if_false]
            by_cases h3 : r3 = []
            · simp [h3]
            · simp only [h3, if_false]
              rw [hnext (acc ++ [t]) h3]
              cases splitTrimDrop sep ws skip r3 with
              | error e => simp [consOk]
              | ok items => simp [consOk]
        · simp [hte, ha]

/-! ### the refinement theorem -/

/-- the specification as a function of the list of trimmed elements -/
def specOfElems (skip : Bool) (es : List Bytes) : Except PErr (List Bytes) :=
  if skip then dropItems es else checkItems (strictBody es)

theorem splitTrimDrop_eq (sep : UInt8) (ws : Bytes) (skip : Bool) (b : Bytes) :
    splitTrimDrop sep ws skip b = specOfElems skip (elems sep ws b) := by
  cases skip
  · simp [specOfElems, splitTrimDrop_strict, elems]
  · simp [specOfElems, splitTrimDrop_skip, elems]

/-- whitespace in front of the input is insignificant (specification) -/
theorem spec_leading_ws (sep : UInt8) (ws w b : Bytes) (skip : Bool) (hsw : sep ∉ ws) (hw : ∀ x ∈ w, x ∈ ws) :
    splitTrimDrop sep ws skip (w ++ b) = splitTrimDrop sep ws skip b := by
  rw [splitTrimDrop_eq, splitTrimDrop_eq, elems, elems, elems_leading_ws sep ws w b hsw hw]

/-- `_parse_string_array` started at `_parsed_length = pre.length` on the buffer `pre ++ b`, one single-byte separator
that is not a whitespace byte, no `max_item_num`: the items are exactly `splitTrimDrop sep ws skip b`, and the whole
buffer is consumed.  No other side condition: `b` is arbitrary (non-ASCII bytes included). -/
theorem array_refines_at (sep : UInt8) (ws : Bytes) (skip : Bool) (hsw : sep ∉ ws) (pre b : Bytes) :
    parseStringArray (pre ++ b) pre.length [sep] ws skip none =
      match splitTrimDrop sep ws skip b with
      | .ok items => .ok (items, (pre ++ b).length)
      | .error e => .error e := by
  obtain ⟨w, rest, hb, hw, hrest⟩ := exists_run ws.contains b
  have hw' : ∀ x ∈ w, x ∈ ws := fun x hx => by simpa using hw x hx
  have hrest' : ∀ y r', rest = y :: r' → y ∉ ws := fun y r' h => by simpa using hrest y r' h
  unfold parseStringArray
  rw [skipWs_run ws pre w rest (by rw [hb]) rfl hw' hrest']
  have := loop_refines sep ws skip hsw rest.length rest (pre ++ w) (pre ++ b) [] ((pre ++ b).length + 1)
    (Nat.le_refl _) (by rw [hb]; simp) hrest' (by rw [hb]; simp; omega)
  simp only [List.length_append] at this ⊢
  rw [this, hb, spec_leading_ws sep ws w rest skip hsw hw']
  cases splitTrimDrop sep ws skip rest <;> simp

/-! ### invariance of the specification under insignificant spelling -/

/-- what a prefix `a` contributes: complete elements `init` and a partial element `last`, glued to the first element
of whatever follows -/
theorem splitSep_prefix (sep : UInt8) (a : Bytes) :
    ∃ init last, ∀ r h tl, splitSep sep r = h :: tl → splitSep sep (a ++ r) = init ++ (last ++ h) :: tl := by
  induction a with
  | nil => exact ⟨[], [], fun r h tl hr => by simpa using hr⟩
  | cons x a' ih =>
    obtain ⟨init', last', h'⟩ := ih
    by_cases hx : x = sep
    · subst hx
      refine ⟨[] :: init', last', fun r h tl hr => ?_⟩
      simp [splitSep, h' r h tl hr]
    · cases init' with
      | nil =>
        refine ⟨[], x :: last', fun r h tl hr => ?_⟩
        have := h' r h tl hr
        simp only [List.cons_append, splitSep, hx, if_false, this]
        simp
      | cons i0 is =>
        refine ⟨(x :: i0) :: is, last', fun r h tl hr => ?_⟩
        have := h' r h tl hr
        simp only [List.cons_append, splitSep, hx, if_false, this]

theorem trimStart_append_ws (ws l w : Bytes) (hw : ∀ x ∈ w, x ∈ ws) :
    trimStart ws (l ++ w) = if trimStart ws l = [] then [] else trimStart ws l ++ w := by
  unfold trimStart
  rw [List.dropWhile_append]
  by_cases h : List.dropWhile ws.contains l = []
  · have : List.dropWhile ws.contains w = [] := by
      have := dropWhile_run ws.contains w [] (fun x hx => List.contains_iff_mem.mpr (hw x hx))
      simpa using this
    simp [h, this]
  · have : (List.dropWhile ws.contains l).isEmpty = false := by
      cases hd : List.dropWhile ws.contains l with
      | nil => exact absurd hd h
      | cons _ _ => rfl
    simp [h, this]

/-- whitespace at the end of an element is insignificant -/
theorem trim_append_ws (ws l w : Bytes) (hw : ∀ x ∈ w, x ∈ ws) : trim ws (l ++ w) = trim ws l := by
  unfold trim
  rw [trimStart_append_ws ws l w hw]
  by_cases h : trimStart ws l = []
  · simp [h]
  · simp only [h, if_false]
    exact trimEnd_run ws _ w hw

theorem elems_trailing_ws (sep : UInt8) (ws b w : Bytes) (hsw : sep ∉ ws) (hw : ∀ x ∈ w, x ∈ ws) :
    elems sep ws (b ++ w) = elems sep ws b := by
  obtain ⟨init, last, h⟩ := splitSep_prefix sep b
  have hs : sep ∉ w := fun hm => hsw (hw sep hm)
  have h1 := h w w [] (splitSep_nosep sep w hs)
  have h2 := h [] [] [] (by simp [splitSep])
  simp only [List.append_nil] at h2
  unfold elems
  rw [h1, h2]
  simp [trim_append_ws ws last w hw]

theorem elems_ws_before_sep (sep : UInt8) (ws a w r : Bytes) (hsw : sep ∉ ws) (hw : ∀ x ∈ w, x ∈ ws) :
    elems sep ws (a ++ (w ++ sep :: r)) = elems sep ws (a ++ sep :: r) := by
  obtain ⟨init, last, h⟩ := splitSep_prefix sep a
  have hs : sep ∉ w := fun hm => hsw (hw sep hm)
  have h1 := h (w ++ sep :: r) w (splitSep sep r) (splitSep_append_sep sep w r hs)
  have h2 := h (sep :: r) [] (splitSep sep r) (by simp [splitSep])
  unfold elems
  rw [h1, h2]
  simp [trim_append_ws ws last w hw]

theorem elems_ws_after_sep (sep : UInt8) (ws a w r : Bytes) (hsw : sep ∉ ws) (hw : ∀ x ∈ w, x ∈ ws) :
    elems sep ws (a ++ sep :: (w ++ r)) = elems sep ws (a ++ sep :: r) := by
  obtain ⟨init, last, h⟩ := splitSep_prefix sep a
  have h1 := h (sep :: (w ++ r)) [] (splitSep sep (w ++ r)) (by simp [splitSep])
  have h2 := h (sep :: r) [] (splitSep sep r) (by simp [splitSep])
  unfold elems
  rw [h1, h2]
  have := elems_leading_ws sep ws w r hsw hw
  simp [this]

theorem dropItems_eq_of_filter (e1 e2 : List Bytes)
    (h : e1.filter (fun e => !e.isEmpty) = e2.filter (fun e => !e.isEmpty)) : dropItems e1 = dropItems e2 := by
  unfold dropItems; rw [h]

/-- an extra separator (an empty element) is insignificant when empty elements are dropped -/
theorem dropItems_extra_sep (sep : UInt8) (ws a r : Bytes) :
    dropItems (elems sep ws (a ++ sep :: sep :: r)) = dropItems (elems sep ws (a ++ sep :: r)) := by
  obtain ⟨init, last, h⟩ := splitSep_prefix sep a
  have h1 := h (sep :: sep :: r) [] ([] :: splitSep sep r) (by simp [splitSep])
  have h2 := h (sep :: r) [] (splitSep sep r) (by simp [splitSep])
  apply dropItems_eq_of_filter
  unfold elems
  rw [h1, h2]
  simp [trim_nil, List.filter_cons]

theorem dropItems_leading_sep (sep : UInt8) (ws r : Bytes) :
    dropItems (elems sep ws (sep :: r)) = dropItems (elems sep ws r) := by
  apply dropItems_eq_of_filter
  simp [elems, splitSep, trim_nil]

theorem dropItems_trailing_sep (sep : UInt8) (ws a : Bytes) :
    dropItems (elems sep ws (a ++ [sep])) = dropItems (elems sep ws a) := by
  obtain ⟨init, last, h⟩ := splitSep_prefix sep a
  have h1 := h [sep] [] [[]] (by simp [splitSep])
  have h2 := h [] [] [] (by simp [splitSep])
  simp only [List.append_nil] at h2
  apply dropItems_eq_of_filter
  unfold elems
  rw [h1, h2]
  simp [trim_nil, List.filter_cons]

/-! ### the canonical spelling parses back -/

/-- `joiner.join(items)` -/
def joinWith (j : Bytes) : List Bytes → Bytes
  | [] => []
  | [i] => i
  | i :: is => i ++ j ++ joinWith j is

theorem elems_join (sep : UInt8) (ws w : Bytes) (hsw : sep ∉ ws) (hw : ∀ x ∈ w, x ∈ ws) (items : List Bytes)
    (hne : items ≠ []) (hi : ∀ i ∈ items, sep ∉ i ∧ trim ws i = i) :
    elems sep ws (joinWith (sep :: w) items) = items := by
  induction items with
  | nil => exact absurd rfl hne
  | cons i is ih =>
    cases is with
    | nil =>
      have := hi i (by simp)
      simp [joinWith, elems, splitSep_nosep sep i this.1, this.2]
    | cons i2 is2 =>
      have h1 := hi i (by simp)
      have ih' := ih (by simp) (fun j hj => hi j (by simp [hj]))
      have : joinWith (sep :: w) (i :: i2 :: is2) = i ++ sep :: (w ++ joinWith (sep :: w) (i2 :: is2)) := by
        simp [joinWith]
      rw [this]
      unfold elems at ih' ⊢
      rw [splitSep_append_sep sep i _ h1.1]
      simp only [List.map_cons, h1.2]
      rw [elems_leading_ws sep ws w _ hsw hw, ih']

theorem specOfElems_items (skip : Bool) (items : List Bytes) (hne : skip = false → items ≠ [])
    (hi : ∀ i ∈ items, i ≠ [] ∧ isAscii i = true) : specOfElems skip items = .ok items := by
  have hfil : items.filter (fun e => !e.isEmpty) = items := by
    apply List.filter_eq_self.mpr
    intro i hi'
    have := (hi i hi').1
    cases i <;> simp_all
  have hall : items.all isAscii = true := List.all_eq_true.mpr (fun i h => (hi i h).2)
  have hany : items.any (·.isEmpty) = false := by
    apply Bool.eq_false_iff.mpr
    intro h
    obtain ⟨i, hi1, hi2⟩ := List.any_eq_true.mp h
    have := (hi i hi1).1
    cases i <;> simp_all
  cases skip with
  | true => simp [specOfElems, dropItems, hfil, keepAscii, hall]
  | false =>
    have hne' := hne rfl
    have hbody : strictBody items = items := by
      unfold strictBody
      have hl : items.getLast?.any (·.isEmpty) = false := by
        cases hgl : items.getLast? with
        | none => rfl
        | some x =>
          have hx : x ∈ items := List.mem_of_getLast? hgl
          have := (hi x hx).1
          cases x <;> simp_all
      simp [hl]
    simp [specOfElems, hbody, checkItems, hany, keepAscii, hall]

/-! ### no crash, enough fuel — for every separator set, whitespace set, `skip_empty`, `max_item_num` -/

/-- `l` does not begin with a whitespace byte (the state in which every loop iteration starts) -/
def NoWsHead (ws l : Bytes) : Prop := ∀ y r', l = y :: r' → y ∉ ws

theorem sepRun_ok (seps : Bytes) (max : Option Nat) : ∀ (l : Bytes) (c n : Nat),
    sepRun seps max l c = .ok n → c ≤ n ∧ n ≤ c + l.length := by
  intro l
  induction l with
  | nil => intro c n h; simp [sepRun] at h; subst h; simp
  | cons x xs ih =>
    intro c n h
    simp only [sepRun] at h
    split at h
    · split at h
      · cases h
      · have := ih (c + 1) n h
        simp; omega
    · simp at h; subst h; simp

theorem sepRun_err (seps : Bytes) (max : Option Nat) : ∀ (l : Bytes) (c : Nat) (e : PErr),
    sepRun seps max l c = .error e → e = .invalidValue := by
  intro l
  induction l with
  | nil => intro c e h; simp [sepRun] at h
  | cons x xs ih =>
    intro c e h
    simp only [sepRun] at h
    split at h
    · split at h
      · cases h; rfl
      · exact ih (c + 1) e h
    · cases h

theorem checkSeparators_ok {b : Bytes} {off : Nat} {seps : Bytes} {mn mx : Option Nat} {n : Nat}
    (h : checkSeparators b off seps mn mx = .ok n) (ho : off ≤ b.length) :
    off + n ≤ b.length ∧ (mn = some 1 → 1 ≤ n) := by
  unfold checkSeparators at h
  cases hs : sepRun seps mx (b.drop off) 0 with
  | error e => simp [hs] at h
  | ok c =>
    simp only [hs] at h
    split at h
    · cases h
    · next hb =>
      cases h
      have := sepRun_ok seps mx _ _ _ hs
      simp at this
      refine ⟨by omega, ?_⟩
      intro hm
      subst hm
      simp [below] at hb
      omega

theorem checkSeparators_err {b : Bytes} {off : Nat} {seps : Bytes} {mn mx : Option Nat} {e : PErr}
    (h : checkSeparators b off seps mn mx = .error e) : e = .invalidValue := by
  unfold checkSeparators at h
  cases hs : sepRun seps mx (b.drop off) 0 with
  | error e' =>
    simp [hs] at h; subst h
    exact sepRun_err _ _ _ _ _ hs
  | ok c =>
    simp only [hs] at h
    split at h
    · cases h; rfl
    · cases h

theorem skipWs_total (b ws : Bytes) (off : Nat) (ho : off ≤ b.length) :
    ∃ off', skipWs b ws off = .ok off' ∧ off ≤ off' ∧ off' ≤ b.length ∧ NoWsHead ws (b.drop off') := by
  obtain ⟨a, r, hdrop, ha, hr⟩ := exists_run ws.contains (b.drop off)
  have hb : b = b.take off ++ (a ++ r) := by rw [← hdrop]; simp
  have hlen : (b.take off).length = off := by simp; omega
  have hal : a.length + r.length = b.length - off := by
    have := congrArg List.length hdrop
    simp at this; omega
  refine ⟨off + a.length, skipWs_run ws (b.take off) a r hb hlen.symm (fun x hx => by simpa using ha x hx)
    (fun y r' h => by simpa using hr y r' h), by omega, by omega, ?_⟩
  have : b.drop (off + a.length) = r := by
    rw [← List.drop_drop, hdrop]; simp
  rw [this]
  intro y r' h
  simpa using hr y r' h

theorem sepSearch_some (b : Bytes) (off : Nat) (seps : List Bytes) : ∀ (n e r : Nat),
    sepSearch b off seps n e = some r → off ≤ e → e + n ≤ b.length + 1 → off ≤ r ∧ r ≤ b.length := by
  intro n
  induction n with
  | zero => intro e r h; simp [sepSearch] at h
  | succ n ih =>
    intro e r h he hn
    simp only [sepSearch] at h
    cases hf : seps.find? (fun s => s.isSuffixOf (slice b off e)) with
    | some s =>
      simp only [hf] at h
      cases h
      have hsuf := List.find?_some hf
      have hle := (List.isSuffixOf_iff_suffix.mp hsuf).length_le
      simp [slice] at hle
      omega
    | none =>
      simp only [hf] at h
      exact ih (e + 1) r h (by omega) (by omega)

theorem findItemEnd_mayEnd (b : Bytes) (off : Nat) (seps : List Bytes) (ho : off ≤ b.length) :
    ∃ itemEnd, findItemEnd b off seps true = some itemEnd ∧ off ≤ itemEnd ∧ itemEnd ≤ b.length := by
  unfold findItemEnd
  cases hs : sepSearch b off seps (b.length + 1 - off) off with
  | some e => exact ⟨e, rfl, sepSearch_some b off seps _ _ _ hs (Nat.le_refl _) (by omega)⟩
  | none => exact ⟨b.length, rfl, ho, Nat.le_refl _⟩

theorem trimRun_stops (ws : Bytes) (y : UInt8) (m : Bytes) (hy : y ∉ ws) : ∀ (l : Bytes) (c0 : Nat),
    ∃ c, trimRun ws (l ++ y :: m) c0 = .ok c ∧ c ≤ c0 + l.length := by
  intro l
  induction l with
  | nil => intro c0; exact ⟨c0, by simp [trimRun, hy], by simp⟩
  | cons x xs ih =>
    intro c0
    by_cases hx : x ∈ ws
    · obtain ⟨c, h1, h2⟩ := ih (c0 + 1)
      exact ⟨c, by simp [trimRun, hx, h1], by simp; omega⟩
    · exact ⟨c0, by simp [trimRun, hx], by omega⟩

/-- the backward scan stays inside the item when the item does not begin with whitespace -/
theorem trimCount_inside (b ws : Bytes) (off itemEnd : Nat) (hle : itemEnd ≤ b.length)
    (hhead : NoWsHead ws (b.drop off)) :
    ∃ c, trimCount b ws off itemEnd = .ok c ∧ c ≤ itemEnd - off := by
  unfold trimCount
  by_cases hlt : off < itemEnd
  · simp only [hlt, if_true]
    cases hd : b.drop off with
    | nil =>
      have := congrArg List.length hd
      simp at this; omega
    | cons y r' =>
      have hy : y ∉ ws := hhead y r' hd
      have hb : b = b.take off ++ y :: r' := by rw [← hd]; simp
      have hlen : (b.take off).length = off := by simp; omega
      have htake : b.take itemEnd = b.take off ++ y :: r'.take (itemEnd - off - 1) := by
        conv => lhs; rw [hb]
        rw [List.take_append, hlen]
        have h1 : (b.take off).take itemEnd = b.take off := by
          rw [List.take_take]; congr 1; omega
        rw [h1]
        obtain ⟨k, hk⟩ : ∃ k, itemEnd - off = k + 1 := ⟨itemEnd - off - 1, by omega⟩
        rw [hk, List.take_succ_cons]
        simp
      rw [htake]
      have hrev : (b.take off ++ y :: r'.take (itemEnd - off - 1)).reverse =
          (r'.take (itemEnd - off - 1)).reverse ++ y :: (b.take off).reverse := by simp
      rw [hrev]
      obtain ⟨c, h1, h2⟩ := trimRun_stops ws y (b.take off).reverse hy (r'.take (itemEnd - off - 1)).reverse 0
      refine ⟨c, h1, ?_⟩
      simp at h2
      omega
  · simp only [hlt, if_false]
    exact ⟨0, rfl, by omega⟩

theorem asciiText_cases (bs : Bytes) : asciiText bs = .ok bs ∨ asciiText bs = .error .invalidValue := by
  unfold asciiText; split <;> simp

theorem until_total (b : Bytes) (off : Nat) (seps : List Bytes) (ws : Bytes) (ho : off ≤ b.length)
    (hhead : NoWsHead ws (b.drop off)) :
    (∃ item n, parseStringUntilSeparator b off seps true ws = .ok (item, n) ∧ off + n ≤ b.length) ∨
      parseStringUntilSeparator b off seps true ws = .error .invalidValue := by
  obtain ⟨itemEnd, h1, h2, h3⟩ := findItemEnd_mayEnd b off seps ho
  obtain ⟨c, h4, h5⟩ := trimCount_inside b ws off itemEnd h3 hhead
  unfold parseStringUntilSeparator
  have hn1 : ¬ itemEnd < off := by omega
  have hn2 : ¬ itemEnd - off < c := by omega
  simp only [h1, hn1, if_false, h4, hn2]
  rcases asciiText_cases (slice b off (itemEnd - c)) with h | h
  · left; exact ⟨_, _, by rw [h], by omega⟩
  · right; rw [h]

/-- what can come out of the first half of the loop body -/
theorem stepItem_total (b sepSet ws : Bytes) (skip : Bool) (off : Nat) (acc : List Bytes) (ho : off ≤ b.length)
    (hhead : NoWsHead ws (b.drop off)) :
    (∃ acc' off', stepItem b sepSet ws skip off acc = .ok (acc', off') ∧ off ≤ off' ∧ off' ≤ b.length ∧
        NoWsHead ws (b.drop off')) ∨
      stepItem b sepSet ws skip off acc = .error .invalidValue := by
  unfold stepItem
  rcases until_total b off (sepSet.map fun x => [x]) ws ho hhead with ⟨item, n, h, hn⟩ | h
  · simp only [h]
    by_cases hz : n = 0
    · subst hz
      cases skip with
      | false => right; simp
      | true =>
        obtain ⟨off', hs1, hs2, hs3, hs4⟩ := skipWs_total b ws off ho
        left; exact ⟨acc, off', by simp [hs1], hs2, hs3, hs4⟩
    · simp only [ne_eq, hz, not_false_eq_true, if_true]
      rcases asciiText_cases (slice b off (off + n)) with ha | ha
      · obtain ⟨off', hs1, hs2, hs3, hs4⟩ := skipWs_total b ws (off + n) hn
        left; exact ⟨acc ++ [slice b off (off + n)], off', by simp [ha, hs1], by omega, hs3, hs4⟩
      · right; simp [ha]
  · right; simp [h]

/-- what can come out of the second half of the loop body: it stops, or goes on strictly further to the right -/
theorem stepSep_total (b sepSet ws : Bytes) (skip : Bool) (mx : Option Nat) (off : Nat) (acc : List Bytes)
    (ho : off ≤ b.length) :
    (∃ off', stepSep b sepSet ws skip mx off acc = .ok (.done acc off') ∧ off' ≤ b.length) ∨
    (∃ off', stepSep b sepSet ws skip mx off acc = .ok (.more acc off') ∧ off < off' ∧ off' ≤ b.length ∧
        NoWsHead ws (b.drop off')) ∨
      stepSep b sepSet ws skip mx off acc = .error .invalidValue := by
  unfold stepSep
  by_cases hend : (off == b.length) = true
  · left; exact ⟨off, by simp [hend], ho⟩
  · simp only [hend]
    cases hc : checkSeparators b off sepSet (some 1) (if skip = true then none else some 1) with
    | error e =>
      right; right
      simp [checkSeparators_err hc]
    | ok k =>
      obtain ⟨hk1, hk2⟩ := checkSeparators_ok hc ho
      have hk3 := hk2 rfl
      obtain ⟨off', hs1, hs2, hs3, hs4⟩ := skipWs_total b ws (off + k) hk1
      simp only [hs1]
      by_cases h2 : (off' == b.length) = true
      · left; exact ⟨off', by simp [h2], hs3⟩
      · by_cases h3 : (mx == some acc.length) = true
        · left; exact ⟨off', by simp [h2, h3], hs3⟩
        · right; left
          exact ⟨off', by simp [h2, h3], by omega, hs3, hs4⟩

def IsCrash : PErr → Prop
  | .crash _ => True
  | _ => False

theorem loop_total (b sepSet ws : Bytes) (skip : Bool) (mx : Option Nat) : ∀ (fuel off : Nat) (acc : List Bytes),
    off ≤ b.length → b.length + 1 ≤ off + fuel → NoWsHead ws (b.drop off) →
    (∃ items off', arrayLoop b sepSet ws skip mx fuel off acc = .ok (items, off') ∧ off' ≤ b.length) ∨
      arrayLoop b sepSet ws skip mx fuel off acc = .error .invalidValue := by
  intro fuel
  induction fuel with
  | zero => intro off acc ho hf; omega
  | succ f ih =>
    intro off acc ho hf hhead
    rw [arrayLoop_succ, arrayStep]
    rcases stepItem_total b sepSet ws skip off acc ho hhead with ⟨acc', off1, h1, h2, h3, _⟩ | h1
    · simp only [h1]
      rcases stepSep_total b sepSet ws skip mx off1 acc' h3 with ⟨off2, h4, h5⟩ | ⟨off2, h4, h5, h6, h7⟩ | h4
      · left; exact ⟨acc', off2, by simp [h4], h5⟩
      · simp only [h4]
        exact ih off2 acc' h6 (by omega) h7
      · right; simp [h4]
    · right; simp [h1]

/-- `_parse_string_array` from any `_parsed_length` inside the buffer: it returns items and a position inside the
buffer, or raises `InvalidValue` — nothing else: no other exception, no out-of-contract scan, and the fuel given to
the `while True` loop (`len + 1` iterations) is never used up. -/
theorem array_total (b sepSet ws : Bytes) (skip : Bool) (mx : Option Nat) (off : Nat) (ho : off ≤ b.length) :
    (∃ items off', parseStringArray b off sepSet ws skip mx = .ok (items, off') ∧ off' ≤ b.length) ∨
      parseStringArray b off sepSet ws skip mx = .error .invalidValue := by
  unfold parseStringArray
  obtain ⟨off', hs1, hs2, hs3, hs4⟩ := skipWs_total b ws off ho
  simp only [hs1]
  exact loop_total b sepSet ws skip mx (b.length + 1) off' [] hs3 (by omega) hs4

/-! ### cost: interpreter steps are linear in the input -/

theorem sepRunTicks_none_run (seps : Bytes) (a r : Bytes) (c : Nat) (ha : ∀ x ∈ a, x ∈ seps)
    (hr : ∀ y r', r = y :: r' → y ∉ seps) :
    sepRunTicks seps none (a ++ r) c = a.length + 1 := by
  induction a generalizing c with
  | nil =>
    cases r with
    | nil => simp [sepRunTicks]
    | cons y r' => simp [sepRunTicks, hr y r' rfl]
  | cons x xs ih =>
    have hx : x ∈ seps := ha x (by simp)
    simp only [List.cons_append, sepRunTicks, List.contains_iff_mem.mpr hx, exceeds, if_true]
    rw [ih (c + 1) (fun y hy => ha y (by simp [hy]))]
    simp; omega

theorem sepRunTicks_strict (seps l : Bytes) : sepRunTicks seps (some 1) l 0 ≤ 2 := by
  cases l with
  | nil => simp [sepRunTicks]
  | cons x xs =>
    cases xs with
    | nil => simp only [sepRunTicks, exceeds]; split <;> simp
    | cons y ys => simp only [sepRunTicks, exceeds]; split <;> (try split) <;> simp

theorem skipWsTicks_run {b : Bytes} {off : Nat} (ws pre a r : Bytes) (hb : b = pre ++ (a ++ r))
    (ho : off = pre.length) (ha : ∀ x ∈ a, x ∈ ws) (hr : ∀ y r', r = y :: r' → y ∉ ws) :
    skipWsTicks b ws off ≤ a.length + 2 := by
  subst hb ho
  unfold skipWsTicks checkTicks
  split
  · omega
  · simp [sepRunTicks_none_run ws a r 0 ha hr]; omega

theorem triedCount_single (sep : UInt8) (sl : Bytes) : triedCount [[sep]] sl = 1 := by
  unfold triedCount
  cases h : [sep].isSuffixOf sl <;> simp [List.findIdx?_cons, h]

theorem sepSearchTicks_single (b : Bytes) (off : Nat) (sep : UInt8) : ∀ (n e : Nat),
    (∀ r, sepSearch b off [[sep]] n e = some r → e ≤ r + 1 ∧ sepSearchTicks b off [[sep]] n e ≤ 2 * (r + 2 - e)) ∧
    (sepSearch b off [[sep]] n e = none → sepSearchTicks b off [[sep]] n e ≤ 2 * n) := by
  intro n
  induction n with
  | zero => intro e; simp [sepSearch, sepSearchTicks]
  | succ n ih =>
    intro e
    obtain ⟨ih1, ih2⟩ := ih (e + 1)
    cases hf : [[sep]].find? (fun s => s.isSuffixOf (slice b off e)) with
    | some s =>
      have hs : s = [sep] := by
        have := List.mem_of_find?_eq_some hf
        simpa using this
      subst hs
      simp only [sepSearch, sepSearchTicks, hf, triedCount_single]
      constructor
      · intro r hr
        cases hr
        simp; omega
      · intro h; cases h
    | none =>
      simp only [sepSearch, sepSearchTicks, hf, triedCount_single]
      constructor
      · intro r hr
        obtain ⟨h1, h2⟩ := ih1 r hr
        omega
      · intro h
        have := ih2 h
        omega

theorem trimRunTicks_run (ws : Bytes) (g : Bytes) (x : UInt8) (m : Bytes) (hg : ∀ y ∈ g, y ∈ ws) (hx : x ∉ ws) :
    trimRunTicks ws (g ++ x :: m) = g.length + 1 := by
  induction g with
  | nil => simp [trimRunTicks, hx]
  | cons y ys ih =>
    have hy : y ∈ ws := hg y (by simp)
    simp only [List.cons_append, trimRunTicks, List.contains_iff_mem.mpr hy, if_true]
    rw [ih (fun z hz => hg z (by simp [hz]))]
    simp; omega

theorem untilTicks_decomposed (sep : UInt8) (ws pre t g tail b : Bytes) (off : Nat)
    (hb : b = pre ++ (t ++ (g ++ tail))) (ho : off = pre.length)
    (hst : sep ∉ t) (hsg : sep ∉ g) (hg : ∀ y ∈ g, y ∈ ws)
    (ht : (t = [] ∧ g = []) ∨ ∃ t' x, t = t' ++ [x] ∧ x ∉ ws)
    (htail : tail = [] ∨ ∃ r, tail = sep :: r) :
    untilTicks b off [[sep]] true ws ≤ 2 * t.length + 3 * g.length + 6 := by
  have hend := until_itemEnd sep pre (t ++ g) tail b off (by simpa using hb) ho (by simp [hst, hsg]) htail
  have hsearch : sepSearchTicks b off [[sep]] (b.length + 1 - off) off ≤ 2 * ((t ++ g).length + 2) := by
    obtain ⟨h1, h2⟩ := sepSearchTicks_single b off sep (b.length + 1 - off) off
    cases hs : sepSearch b off [[sep]] (b.length + 1 - off) off with
    | none =>
      have := h2 hs
      have hl : b.length + 1 - off = (t ++ g).length + tail.length + 1 := by simp [hb, ho]; omega
      rcases htail with h | ⟨r, h⟩
      · subst h; simp at hl ⊢; omega
      · -- a separator is present: the search cannot fail
        subst h
        have := sepSearch_found sep pre (t ++ g) [] r b (b.length + 1 - off) off (by simp)
          (by simp [hst, hsg]) (by simpa using hb) (by simp [hb, ho]; omega) (by simp [ho])
        rw [ho] at hs; rw [ho] at this; rw [hs] at this; cases this
    | some r =>
      have hfe : findItemEnd b off [[sep]] true = some r := by simp [findItemEnd, hs]
      rw [hend] at hfe
      cases hfe
      have := (h1 _ hs).2
      omega
  have htrim : trimTicks b ws off (off + (t ++ g).length) ≤ g.length + 1 := by
    unfold trimTicks
    rcases ht with ⟨h1, h2⟩ | ⟨t', x, h1, hx⟩
    · subst h1 h2; simp
    · have htake : b.take (off + (t ++ g).length) = pre ++ (t ++ g) := by
        rw [hb, ho, show pre ++ (t ++ (g ++ tail)) = (pre ++ (t ++ g)) ++ tail by simp,
          show pre.length + (t ++ g).length = (pre ++ (t ++ g)).length by simp]
        exact List.take_left
      have hpos : off < off + (t ++ g).length := by subst h1; simp; omega
      simp only [hpos, if_true, htake]
      subst h1
      have : (pre ++ (t' ++ [x] ++ g)).reverse = g.reverse ++ x :: (t'.reverse ++ pre.reverse) := by simp
      rw [this, trimRunTicks_run ws g.reverse x _ (fun y hy => hg y (by simpa using hy)) hx]
      simp
  unfold untilTicks
  have hlt : ¬ (off + (t ++ g).length < off) := by omega
  simp only [hend, hlt, if_false]
  rw [List.length_append] at hsearch htrim hlt ⊢
  generalize trimTicks b ws off (off + (t.length + g.length)) = T at htrim ⊢
  generalize sepSearchTicks b off [[sep]] (b.length + 1 - off) off = S at hsearch ⊢
  show S + (T + 1) ≤ _
  omega

theorem stepItem_off (sep : UInt8) (ws pre t g tail b : Bytes) (off : Nat) (acc : List Bytes) (skip : Bool)
    (hb : b = pre ++ (t ++ (g ++ tail))) (ho : off = pre.length) (hsw : sep ∉ ws)
    (hst : sep ∉ t) (hg : ∀ y ∈ g, y ∈ ws)
    (ht : (t = [] ∧ g = []) ∨ ∃ t' x, t = t' ++ [x] ∧ x ∉ ws)
    (htail : tail = [] ∨ ∃ r, tail = sep :: r) (acc' : List Bytes) (off1 : Nat)
    (h : stepItem b [sep] ws skip off acc = .ok (acc', off1)) : off1 = off + t.length + g.length := by
  rw [stepItem_decomposed sep ws pre t g tail b off acc skip hb ho hsw hst hg ht htail] at h
  by_cases hte : t = []
  · have hge : g = [] := by
      rcases ht with ⟨_, h2⟩ | ⟨t', x, h2, _⟩
      · exact h2
      · rw [hte] at h2; simp at h2
    subst hte hge
    cases skip <;> simp at h
    simp [h.2]
  · by_cases ha : isAscii t = true
    · simp [hte, ha] at h; omega
    · simp [hte, ha] at h

theorem stepItemTicks_decomposed (sep : UInt8) (ws pre t g tail b : Bytes) (off : Nat) (skip : Bool)
    (hb : b = pre ++ (t ++ (g ++ tail))) (ho : off = pre.length) (hsw : sep ∉ ws)
    (hst : sep ∉ t) (hg : ∀ y ∈ g, y ∈ ws)
    (ht : (t = [] ∧ g = []) ∨ ∃ t' x, t = t' ++ [x] ∧ x ∉ ws)
    (htail : tail = [] ∨ ∃ r, tail = sep :: r) :
    stepItemTicks b [sep] ws skip off ≤ 2 * t.length + 4 * g.length + 10 := by
  have hsg : sep ∉ g := fun h => hsw (hg sep h)
  have htl : ∀ y r', tail = y :: r' → y ∉ ws := by
    intro y r' h
    rcases htail with h0 | ⟨r, h0⟩
    · rw [h0] at h; cases h
    · rw [h0] at h; cases h; exact hsw
  have hu := untilTicks_decomposed sep ws pre t g tail b off hb ho hst hsg hg ht htail
  unfold stepItemTicks
  rw [show ([sep].map fun x => [x]) = [[sep]] from rfl,
    until_decomposed sep ws pre t g tail b off hb ho hst hsg hg ht htail]
  generalize untilTicks b off [[sep]] true ws = U at hu ⊢
  by_cases hte : t = []
  · have hge : g = [] := by
      rcases ht with ⟨_, h⟩ | ⟨t', x, h, _⟩
      · exact h
      · rw [hte] at h; simp at h
    subst hte hge
    have hsk : skipWsTicks b ws off ≤ ([] : Bytes).length + 2 :=
      skipWsTicks_run ws pre [] tail (by simpa using hb) ho (by simp) htl
    generalize skipWsTicks b ws off = K at hsk ⊢
    cases skip <;> simp [asciiText, isAscii] at hu hsk ⊢
    · omega
    · show U + (2 + K) ≤ 10
      omega
  · have hlen : t.length ≠ 0 := by
      cases t with
      | nil => exact absurd rfl hte
      | cons x xs => simp
    by_cases hasc : isAscii t = true
    · have hsl : slice b off (off + t.length) = t := slice_mid' pre t (g ++ tail) hb ho (by rw [ho])
      have hsk : skipWsTicks b ws (off + t.length) ≤ g.length + 2 :=
        skipWsTicks_run ws (pre ++ t) g tail (by simp [hb]) (by simp [ho]) hg htl
      simp [asciiText, hasc, hlen, hsl]
      generalize skipWsTicks b ws (off + t.length) = K at hsk ⊢
      show U + (2 + K) ≤ _
      omega
    · simp [asciiText, hasc]; omega

theorem stepSepTicks_decomposed (sep : UInt8) (ws pre s w r3 b : Bytes) (off : Nat) (skip : Bool)
    (hb : b = pre ++ (sep :: (s ++ (w ++ r3)))) (ho : off = pre.length)
    (hs : ∀ x ∈ s, x = sep) (hws : ∀ y r', w ++ r3 = y :: r' → y ≠ sep)
    (hw : ∀ x ∈ w, x ∈ ws) (hr3 : ∀ y r', r3 = y :: r' → y ∉ ws) :
    stepSepTicks b [sep] ws skip off ≤ s.length + w.length + 9 := by
  have hlen : b.length = off + 1 + s.length + w.length + r3.length := by simp [hb, ho]; omega
  have hne : (off == b.length) = false := by simp; omega
  have hsk : ∀ k, k = 1 + s.length → skipWsTicks b ws (off + k) ≤ w.length + 2 := by
    intro k hk
    exact skipWsTicks_run ws (pre ++ sep :: s) w r3 (by simp [hb]) (by simp [ho, hk]; omega) hw hr3
  unfold stepSepTicks
  simp only [hne]
  cases skip with
  | true =>
    have hc : checkSeparators b off [sep] (some 1) none = .ok (sep :: s).length :=
      checkSeparators_skip sep pre (sep :: s) (w ++ r3) (by simp [hb]) ho
        (by intro x hx; cases hx with
          | head => rfl
          | tail _ h => exact hs x h) (by simp) hws
    have hct : checkTicks b off [sep] none = (sep :: s).length + 1 := by
      subst hb ho
      unfold checkTicks
      rw [List.drop_left, show sep :: (s ++ (w ++ r3)) = (sep :: s) ++ (w ++ r3) by simp,
        sepRunTicks_none_run [sep] (sep :: s) (w ++ r3) 0
          (by intro x hx; cases hx with
            | head => simp
            | tail _ h => simp [hs x h])
          (fun y r' h => by simpa using hws y r' h)]
    have := hsk (sep :: s).length (by simp; omega)
    simp only [if_true, hc, hct, Bool.false_eq_true, if_false]
    generalize skipWsTicks b ws (off + (sep :: s).length) = K at this ⊢
    simp only [List.length_cons]
    show 1 + (s.length + 1 + 1) + (K + 2) ≤ _
    omega
  | false =>
    simp only [Bool.false_eq_true, if_false]
    have hct : checkTicks b off [sep] (some 1) ≤ 2 := sepRunTicks_strict _ _
    generalize checkTicks b off [sep] (some 1) = C at hct ⊢
    cases hc : checkSeparators b off [sep] (some 1) (some 1) with
    | error e => simp; omega
    | ok k =>
      cases s with
      | nil =>
        have h1 : checkSeparators b off [sep] (some 1) (some 1) = .ok 1 :=
          checkSeparators_strict_one sep pre (w ++ r3) (by simpa using hb) ho hws
        rw [h1] at hc; cases hc
        have := hsk 1 (by simp)
        simp only []
        generalize skipWsTicks b ws (off + 1) = K at this ⊢
        simp only [List.length_nil] at this ⊢
        omega
      | cons x xs =>
        have hx : x = sep := hs x (by simp)
        subst hx
        have h2 : checkSeparators b off [x] (some 1) (some 1) = .error .invalidValue :=
          checkSeparators_strict_two x pre (xs ++ (w ++ r3)) (by simpa using hb) ho
        rw [h2] at hc; cases hc

/-- one iteration costs at most four steps per byte it passes, plus a constant -/
theorem loop_ticks (sep : UInt8) (ws : Bytes) (skip : Bool) (hsw : sep ∉ ws) :
    ∀ (n : Nat) (rest pre b : Bytes) (acc : List Bytes) (fuel : Nat), rest.length ≤ n → b = pre ++ rest →
      (∀ y r', rest = y :: r' → y ∉ ws) →
      arrayLoopTicks b [sep] ws skip none fuel pre.length acc ≤ 19 * rest.length + 11 := by
  intro n
  induction n with
  | zero =>
    intro rest pre b acc fuel hn hb hhead
    have hr : rest = [] := List.eq_nil_of_length_eq_zero (by omega)
    subst hr
    cases fuel with
    | zero => simp [arrayLoopTicks]
    | succ f =>
      have hit := stepItemTicks_decomposed sep ws pre [] [] [] b pre.length skip (by simpa using hb) rfl hsw
        (by simp) (by simp) (Or.inl ⟨rfl, rfl⟩) (Or.inl rfl)
      have hstep := stepItem_decomposed sep ws pre [] [] [] b pre.length acc skip (by simpa using hb) rfl hsw
        (by simp) (by simp) (Or.inl ⟨rfl, rfl⟩) (Or.inl rfl)
      simp only [if_true] at hstep
      simp only [arrayLoopTicks, arrayStepTicks, arrayStep, hstep]
      generalize stepItemTicks b [sep] ws skip pre.length = I at hit ⊢
      cases skip with
      | false => simp at hit ⊢; omega
      | true =>
        simp only [if_true]
        rw [stepSep_end _ _ _ _ _ _ _ (by simp [hb])]
        have : stepSepTicks b [sep] ws true pre.length = 1 := by simp [stepSepTicks, hb]
        rw [this]
        simp at hit ⊢; omega
  | succ n ih =>
    intro rest pre b acc fuel hn hb hhead
    obtain ⟨t, g, tail, hrest, hst, hth, hg, ht, htail⟩ := decompose sep ws rest hhead
    cases fuel with
    | zero => simp [arrayLoopTicks]
    | succ f =>
    have hb' : b = pre ++ (t ++ (g ++ tail)) := by rw [hb, hrest]
    have htail' : tail = [] ∨ ∃ r, tail = sep :: r := by
      rcases htail with h | ⟨s, w, r3, h, _⟩
      · exact Or.inl h
      · exact Or.inr ⟨_, h⟩
    have hit := stepItemTicks_decomposed sep ws pre t g tail b pre.length skip hb' rfl hsw hst hg ht htail'
    have hoff := stepItem_off sep ws pre t g tail b pre.length acc skip hb' rfl hsw hst hg ht htail'
    have hrl : rest.length = t.length + g.length + tail.length := by rw [hrest]; simp; omega
    simp only [arrayLoopTicks, arrayStepTicks, arrayStep]
    generalize stepItemTicks b [sep] ws skip pre.length = I at hit ⊢
    cases hsi : stepItem b [sep] ws skip pre.length acc with
    | error e => simp; omega
    | ok r =>
      obtain ⟨acc', off1⟩ := r
      have ho1 := hoff acc' off1 hsi
      subst ho1
      simp only []
      rcases htail with htl | ⟨s, w, r3, htl, hs, hws, hw, hr3⟩
      · subst htl
        rw [stepSep_end _ _ _ _ _ _ _ (by simp [hb']; omega)]
        have : stepSepTicks b [sep] ws skip (pre.length + t.length + g.length) = 1 := by
          simp [stepSepTicks, hb']; omega
        rw [this]
        simp at hrl ⊢; omega
      · subst htl
        have hst2 := stepSepTicks_decomposed sep ws (pre ++ (t ++ g)) s w r3 b
          (pre.length + t.length + g.length) skip (by rw [hb']; simp) (by simp; omega) hs hws hw hr3
        have hss := stepSep_decomposed sep ws (pre ++ (t ++ g)) s w r3 b
          (pre.length + t.length + g.length) acc' skip (by rw [hb']; simp) (by simp; omega) hs hws hw hr3
        generalize stepSepTicks b [sep] ws skip (pre.length + t.length + g.length) = P at hst2 ⊢
        rw [hss]
        have hrl' : rest.length = t.length + g.length + 1 + s.length + w.length + r3.length := by
          rw [hrest]; simp; omega
        by_cases hbad : skip = false ∧ s ≠ []
        · simp [hbad]; omega
        · simp only [hbad, if_false]
          by_cases h3 : r3 = []
          · simp [h3]; omega
          · simp only [h3, if_false]
            have := ih r3 (pre ++ (t ++ (g ++ sep :: (s ++ w)))) b acc' f (by omega) (by rw [hb']; simp) hr3
            have hoffeq : (pre ++ (t ++ (g ++ sep :: (s ++ w)))).length =
                pre.length + t.length + g.length + 1 + s.length + w.length := by simp; omega
            rw [hoffeq] at this
            generalize arrayLoopTicks b [sep] ws skip none f
              (pre.length + t.length + g.length + 1 + s.length + w.length) acc' = L at this ⊢
            omega

/-- interpreter steps of `_parse_string_array` are linear in the length of the buffer -/
theorem array_ticks_linear (sep : UInt8) (ws : Bytes) (skip : Bool) (hsw : sep ∉ ws) (b : Bytes) :
    arrayTicks b 0 [sep] ws skip none ≤ 19 * b.length + 13 := by
  obtain ⟨w, rest, hb, hw, hrest⟩ := exists_run ws.contains b
  have hw' : ∀ x ∈ w, x ∈ ws := fun x hx => by simpa using hw x hx
  have hrest' : ∀ y r', rest = y :: r' → y ∉ ws := fun y r' h => by simpa using hrest y r' h
  unfold arrayTicks
  have hsk := skipWsTicks_run (b := b) (off := 0) ws [] w rest (by simpa using hb) rfl hw' hrest'
  rw [skipWs_run (b := b) (off := 0) ws [] w rest (by simpa using hb) rfl hw' hrest']
  have := loop_ticks sep ws skip hsw rest.length rest w b [] (b.length + 1) (Nat.le_refl _) hb hrest'
  simp only [Nat.zero_add]
  generalize skipWsTicks b ws 0 = K at hsk ⊢
  generalize arrayLoopTicks b [sep] ws skip none (b.length + 1) w.length [] = L at this ⊢
  have : b.length = w.length + rest.length := by rw [hb]; simp
  omega

/-! ### cost: the bytes copied by the slices of the separator search are NOT linear -/

/-- `e + (e+1) + … + (e+n-1)` -/
def tri : Nat → Nat → Nat
  | 0, _ => 0
  | n + 1, e => e + tri n (e + 1)

theorem tri_closed : ∀ (n e : Nat), 2 * tri n e + n = n * (2 * e + n) := by
  intro n
  induction n with
  | zero => intro e; simp [tri]
  | succ n ih =>
    intro e
    have h1 := ih (e + 1)
    have h2 : (n + 1) * (2 * e + (n + 1)) = n * (2 * e + n + 1) + (2 * e + n + 1) := by
      rw [Nat.succ_mul]; rfl
    have h3 : n * (2 * (e + 1) + n) = n * (2 * e + n + 1) + n := by
      rw [show 2 * (e + 1) + n = (2 * e + n + 1) + 1 by omega, Nat.mul_succ]
    simp only [tri]
    rw [h2]
    rw [h3] at h1
    omega

theorem sepSearchBytes_step_none {b : Bytes} {off n e : Nat} {sep : UInt8}
    (h : [sep].isSuffixOf (slice b off e) = false) :
    sepSearchBytes b off [[sep]] (n + 1) e = (slice b off e).length + sepSearchBytes b off [[sep]] n (e + 1) := by
  simp [sepSearchBytes, h, triedCount_single]

theorem sepSearchBytes_absent (sep : UInt8) : ∀ (todo done b : Bytes) (n E : Nat),
    sep ∉ done → sep ∉ todo → b = done ++ todo → n = todo.length + 1 → E = done.length →
    sepSearchBytes b 0 [[sep]] n E = tri n E := by
  intro todo
  induction todo with
  | nil =>
    intro done b n E hd _ hb hn hE
    subst hn
    have h1 : slice b 0 E = done := slice_mid' [] done [] (by simpa using hb) rfl (by simpa using hE)
    rw [show ([] : Bytes).length + 1 = 0 + 1 by simp,
      sepSearchBytes_step_none (by rw [h1]; exact suffix_single_false sep done hd), h1]
    simp [sepSearchBytes, tri, hE]
  | cons x t ih =>
    intro done b n E hd ht hb hn hE
    subst hn
    have h1 : slice b 0 E = done := slice_mid' [] done (x :: t) (by simpa using hb) rfl (by simpa using hE)
    have hx : x ≠ sep := fun h => ht (by simp [h])
    have ht' : sep ∉ t := fun h => ht (by simp [h])
    have := ih (done ++ [x]) b (t.length + 1) (E + 1)
      (by simp [hd]; exact fun h => hx h.symm) ht' (by simp [hb]) rfl (by simp [hE])
    rw [show (x :: t).length + 1 = (t.length + 1) + 1 by simp,
      sepSearchBytes_step_none (by rw [h1]; exact suffix_single_false sep done hd), h1, this]
    simp [tri, hE]

/-- On a buffer without any separator — one long item — the search copies `len·(len+1)/2` bytes:
`0 + 1 + … + len`, one slice per end position. -/
theorem search_bytes_quadratic (sep : UInt8) (b : Bytes) (hb : sep ∉ b) :
    2 * sepSearchBytes b 0 [[sep]] (b.length + 1) 0 = b.length * (b.length + 1) := by
  rw [sepSearchBytes_absent sep b [] b (b.length + 1) 0 (by simp) hb (by simp) rfl rfl]
  have := tri_closed (b.length + 1) 0
  have h2 : (b.length + 1) * (2 * 0 + (b.length + 1)) = b.length * (b.length + 1) + (b.length + 1) := by
    rw [Nat.succ_mul]; simp
  rw [h2] at this
  omega

/-! ### the items the imperative scanner returns -/

theorem joinWith_eq_intercalate (j : Bytes) (l : List Bytes) : joinWith j l = List.intercalate j l := by
  induction l with
  | nil => simp [joinWith, List.intercalate]
  | cons i is ih =>
    cases is with
    | nil => simp [joinWith, List.intercalate]
    | cons i2 is2 =>
      simp only [joinWith] at ih ⊢
      rw [ih]
      simp [List.intercalate, List.intersperse]

/-- items of `_parse_string_array` from the start of the buffer, one separator, no `max_item_num` -/
def scanItems (sep : UInt8) (ws : Bytes) (skip : Bool) (b : Bytes) : Except PErr (List Bytes) :=
  match parseStringArray b 0 [sep] ws skip none with
  | .ok (items, _) => .ok items
  | .error e => .error e

theorem scanItems_eq (sep : UInt8) (ws : Bytes) (skip : Bool) (hsw : sep ∉ ws) (b : Bytes) :
    scanItems sep ws skip b = splitTrimDrop sep ws skip b := by
  unfold scanItems
  have := array_refines_at sep ws skip hsw [] b
  simp only [List.nil_append, List.length_nil] at this
  rw [this]
  cases splitTrimDrop sep ws skip b <;> rfl

/-! ## the quote-aware scanner (`quote_aware=True`)

The same development as above for `parseStringArrayQ`: the search on a decomposed buffer, the specification `splitQ`,
the loop invariant, the refinement theorem, invariance under insignificant spelling, the canonical spelling, totality.
`freeQ sep q e` says that no byte of `e`, read from quoted-string state `q`, is an ACTIVE separator (a separator byte
after which the state is `out`). -/

/-- no active separator in `e` when reading starts in state `q` -/
def freeQ (sep : UInt8) : QState → Bytes → Bool
  | _, [] => true
  | q, x :: xs => !(decide (qNext q x = .out) && decide (x = sep)) && freeQ sep (qNext q x) xs

theorem qAfter_nil (q : QState) : qAfter q [] = q := rfl

theorem qAfter_cons (q : QState) (x : UInt8) (xs : Bytes) : qAfter q (x :: xs) = qAfter (qNext q x) xs := rfl

theorem qAfter_append (q : QState) (a c : Bytes) : qAfter q (a ++ c) = qAfter (qAfter q a) c := by
  simp [qAfter, List.foldl_append]

theorem freeQ_cons (sep : UInt8) (q : QState) (x : UInt8) (xs : Bytes) :
    freeQ sep q (x :: xs) = true ↔ ¬ (qNext q x = .out ∧ x = sep) ∧ freeQ sep (qNext q x) xs = true := by
  by_cases h1 : qNext q x = .out <;> by_cases h2 : x = sep <;> simp [freeQ, h1, h2]

theorem freeQ_append (sep : UInt8) (q : QState) (a c : Bytes) :
    freeQ sep q (a ++ c) = true ↔ freeQ sep q a = true ∧ freeQ sep (qAfter q a) c = true := by
  induction a generalizing q with
  | nil => simp [freeQ, qAfter]
  | cons x xs ih =>
    simp only [List.cons_append, freeQ_cons, ih, qAfter_cons]
    constructor
    · rintro ⟨h1, h2, h3⟩; exact ⟨⟨h1, h2⟩, h3⟩
    · rintro ⟨⟨h1, h2⟩, h3⟩; exact ⟨h1, h2, h3⟩

/-- a run without the separator byte is free in every state -/
theorem freeQ_of_not_mem (sep : UInt8) (q : QState) (e : Bytes) (h : sep ∉ e) : freeQ sep q e = true := by
  induction e generalizing q with
  | nil => rfl
  | cons x xs ih =>
    rw [freeQ_cons]
    exact ⟨fun hc => h (by simp [hc.2]), ih _ (fun hm => h (by simp [hm]))⟩

/-- a run without a double quote leaves the state `out` -/
theorem qAfter_out_of_no_quote (e : Bytes) (h : (0x22 : UInt8) ∉ e) : qAfter .out e = .out := by
  induction e with
  | nil => rfl
  | cons x xs ih =>
    have hx : x ≠ 0x22 := fun hc => h (by simp [hc])
    rw [qAfter_cons]
    simp only [qNext, hx, if_false]
    exact ih (fun hm => h (by simp [hm]))

theorem qNext_out_sep (sep : UInt8) (hq : sep ≠ 0x22) : qNext .out sep = .out := by
  simp [qNext, hq]

/-! ### the quote-aware separator search, one single-byte separator -/

theorem sepSearchQ_step_in {b : Bytes} {off n e : Nat} {seps : List Bytes} {q : QState} (hq : q ≠ .out) :
    sepSearchQ b off seps (n + 1) e q =
      sepSearchQ b off seps n (e + 1) (qStepAt b e q) := by
  simp [sepSearchQ, hq]

theorem sepSearchQ_step_false {b : Bytes} {off n e : Nat} {sep : UInt8} {q : QState}
    (h : q ≠ .out ∨ [sep].isSuffixOf (slice b off e) = false) :
    sepSearchQ b off [[sep]] (n + 1) e q =
      sepSearchQ b off [[sep]] n (e + 1) (qStepAt b e q) := by
  by_cases hq : q = .out
  · rcases h with h | h
    · exact absurd hq h
    · simp [sepSearchQ, hq, h]
  · exact sepSearchQ_step_in hq

theorem sepSearchQ_step_true {b : Bytes} {off n e : Nat} {sep : UInt8}
    (h : [sep].isSuffixOf (slice b off e) = true) :
    sepSearchQ b off [[sep]] (n + 1) e .out = some (e - 1) := by
  simp [sepSearchQ, h]

theorem getElem?_mid (pre done : Bytes) (x : UInt8) (r : Bytes) :
    (pre ++ (done ++ x :: r))[pre.length + done.length]? = some x := by
  rw [← List.append_assoc, show pre.length + done.length = (pre ++ done).length by simp]
  simp

theorem getElem?_end (pre done : Bytes) : (pre ++ done)[pre.length + done.length]? = none := by
  simp

theorem suffix_snoc (sep x : UInt8) (l : Bytes) : [sep].isSuffixOf (l ++ [x]) = decide (x = sep) := by
  by_cases h : x = sep
  · subst h; simp [suffix_single_true]
  · simp only [h, decide_false]
    cases hs : [sep].isSuffixOf (l ++ [x]) with
    | false => rfl
    | true =>
      obtain ⟨t, ht⟩ := List.isSuffixOf_iff_suffix.mp hs
      have := congrArg List.getLast? ht
      simp at this
      exact absurd this.symm h

theorem sepSearchQ_found (sep : UInt8) (pre : Bytes) : ∀ (e done r b : Bytes) (n E : Nat) (q : QState),
    (q ≠ .out ∨ [sep].isSuffixOf done = false) → freeQ sep q e = true → qNext (qAfter q e) sep = .out →
    b = pre ++ (done ++ (e ++ sep :: r)) → n = e.length + r.length + 2 →
    E = pre.length + done.length → sepSearchQ b pre.length [[sep]] n E q = some (E + e.length) := by
  intro e
  induction e with
  | nil =>
    intro done r b n E q hd _ hq hb hn hE
    subst hn
    have h1 : slice b pre.length E = done := slice_mid' pre done (sep :: r) (by simpa using hb) rfl hE
    have h2 : slice b pre.length (E + 1) = done ++ [sep] :=
      slice_mid' pre (done ++ [sep]) r (by simp [hb]) rfl (by simp [hE]; omega)
    have hg : qStepAt b E q = qNext q sep := by
      unfold qStepAt; rw [hb, hE, List.nil_append, getElem?_mid pre done sep r]
    rw [show ([] : Bytes).length + r.length + 2 = (r.length + 1) + 1 by simp,
      sepSearchQ_step_false (by rw [h1]; exact hd), hg]
    simp only [qAfter_nil] at hq
    simp only [hq]
    rw [sepSearchQ_step_true (by rw [h2]; exact suffix_single_true sep done)]
    simp
  | cons x e' ih =>
    intro done r b n E q hd he hq hb hn hE
    subst hn
    have h1 : slice b pre.length E = done := slice_mid' pre done (x :: e' ++ sep :: r) (by simpa using hb) rfl hE
    have hg : qStepAt b E q = qNext q x := by
      unfold qStepAt; rw [hb, hE, show x :: e' ++ sep :: r = x :: (e' ++ sep :: r) from rfl,
        getElem?_mid pre done x (e' ++ sep :: r)]
    rw [freeQ_cons] at he
    have := ih (done ++ [x]) r b (e'.length + r.length + 2) (E + 1) (qNext q x)
      (by
        rw [suffix_snoc]
        by_cases h : qNext q x = .out
        · right
          have : x ≠ sep := fun hx => he.1 ⟨h, hx⟩
          simp [this]
        · left; exact h)
      he.2 (by simpa [qAfter_cons] using hq) (by simp [hb]) rfl (by simp [hE]; omega)
    rw [show (x :: e').length + r.length + 2 = (e'.length + r.length + 2) + 1 by simp; omega,
      sepSearchQ_step_false (by rw [h1]; exact hd), hg]
    simp only [this]
    congr 1; simp; omega

theorem sepSearchQ_absent (sep : UInt8) (pre : Bytes) : ∀ (todo done b : Bytes) (n E : Nat) (q : QState),
    (q ≠ .out ∨ [sep].isSuffixOf done = false) → freeQ sep q todo = true → b = pre ++ (done ++ todo) →
    n = todo.length + 1 → E = pre.length + done.length → sepSearchQ b pre.length [[sep]] n E q = none := by
  intro todo
  induction todo with
  | nil =>
    intro done b n E q hd _ hb hn hE
    subst hn
    have h1 : slice b pre.length E = done := slice_mid' pre done [] (by simpa using hb) rfl hE
    rw [show ([] : Bytes).length + 1 = 0 + 1 by simp, sepSearchQ_step_false (by rw [h1]; exact hd)]
    rfl
  | cons x t ih =>
    intro done b n E q hd ht hb hn hE
    subst hn
    have h1 : slice b pre.length E = done := slice_mid' pre done (x :: t) (by simpa using hb) rfl hE
    have hg : qStepAt b E q = qNext q x := by
      unfold qStepAt; rw [hb, hE, getElem?_mid pre done x t]
    rw [freeQ_cons] at ht
    have := ih (done ++ [x]) b (t.length + 1) (E + 1) (qNext q x)
      (by
        rw [suffix_snoc]
        by_cases h : qNext q x = .out
        · right
          have : x ≠ sep := fun hx => ht.1 ⟨h, hx⟩
          simp [this]
        · left; exact h)
      ht.2 (by simp [hb]) rfl (by simp [hE]; omega)
    rw [show (x :: t).length + 1 = (t.length + 1) + 1 by simp,
      sepSearchQ_step_false (by rw [h1]; exact hd), hg]
    simp only [this]

/-- `tail` is the end of the input, or an ACTIVE separator follows the item `e` -/
def TailQ (sep : UInt8) (e tail : Bytes) : Prop :=
  tail = [] ∨ (qNext (qAfter .out e) sep = .out ∧ ∃ r, tail = sep :: r)

theorem until_itemEndQ (sep : UInt8) (pre e tail b : Bytes) (off : Nat)
    (hb : b = pre ++ (e ++ tail)) (ho : off = pre.length) (he : freeQ sep .out e = true)
    (htail : TailQ sep e tail) :
    findItemEndQ b off [[sep]] true = some (off + e.length) := by
  unfold findItemEndQ
  subst ho
  have h0 : (QState.out ≠ QState.out ∨ [sep].isSuffixOf ([] : Bytes) = false) := Or.inr (by simp)
  rcases htail with h | ⟨hq, r, h⟩
  · subst h
    rw [sepSearchQ_absent sep pre e [] b (b.length + 1 - pre.length) pre.length .out h0 he (by simpa using hb)
      (by simp [hb]; omega) (by simp)]
    simp [hb]
  · subst h
    rw [sepSearchQ_found sep pre e [] r b (b.length + 1 - pre.length) pre.length .out h0 he hq (by simpa using hb)
      (by simp [hb]; omega) (by simp)]

theorem until_decomposedQ (sep : UInt8) (ws pre t g tail b : Bytes) (off : Nat)
    (hb : b = pre ++ (t ++ (g ++ tail))) (ho : off = pre.length)
    (hfree : freeQ sep .out (t ++ g) = true) (hg : ∀ y ∈ g, y ∈ ws)
    (ht : (t = [] ∧ g = []) ∨ ∃ t' x, t = t' ++ [x] ∧ x ∉ ws)
    (htail : TailQ sep (t ++ g) tail) :
    parseStringUntilSeparatorQ b off [[sep]] true ws =
      match asciiText t with
      | .error e => .error e
      | .ok item => .ok (item, t.length) := by
  have hend := until_itemEndQ sep pre (t ++ g) tail b off (by simpa using hb) ho hfree htail
  unfold parseStringUntilSeparatorQ
  simp only [hend]
  have hlt : ¬ (off + (t ++ g).length < off) := by omega
  simp only [hlt, if_false]
  have hcount : trimCount b ws off (off + (t ++ g).length) = .ok g.length := by
    unfold trimCount
    rcases ht with ⟨h1, h2⟩ | ⟨t', x, h1, hx⟩
    · subst h1 h2; simp
    · have htake : b.take (off + (t ++ g).length) = pre ++ (t ++ g) := by
        rw [hb, ho, show pre ++ (t ++ (g ++ tail)) = (pre ++ (t ++ g)) ++ tail by simp,
          show pre.length + (t ++ g).length = (pre ++ (t ++ g)).length by simp]
        exact List.take_left
      have hpos : off < off + (t ++ g).length := by subst h1; simp; omega
      simp only [hpos, if_true, htake]
      subst h1
      have : (pre ++ (t' ++ [x] ++ g)).reverse = g.reverse ++ x :: (t'.reverse ++ pre.reverse) := by simp
      rw [this, trimRun_run ws g.reverse x _ 0 (fun y hy => hg y (by simpa using hy)) hx]
      simp
  simp only [hcount]
  have hnot : ¬ (off + (t ++ g).length - off < g.length) := by simp
  simp only [hnot, if_false]
  have hsl : slice b off (off + (t ++ g).length - g.length) = t :=
    slice_mid' pre t (g ++ tail) hb ho (by simp [ho]; omega)
  rw [hsl]
  cases asciiText t with
  | error e => rfl
  | ok item => simp

theorem stepItem_decomposedQ (sep : UInt8) (ws pre t g tail b : Bytes) (off : Nat) (acc : List Bytes) (skip : Bool)
    (hb : b = pre ++ (t ++ (g ++ tail))) (ho : off = pre.length) (hsw : sep ∉ ws)
    (hfree : freeQ sep .out (t ++ g) = true) (hg : ∀ y ∈ g, y ∈ ws)
    (ht : (t = [] ∧ g = []) ∨ ∃ t' x, t = t' ++ [x] ∧ x ∉ ws)
    (htail : TailQ sep (t ++ g) tail) :
    stepItemQ b [sep] ws skip off acc =
      if t = [] then (if skip then .ok (acc, off) else .error .invalidValue)
      else if isAscii t then .ok (acc ++ [t], off + t.length + g.length) else .error .invalidValue := by
  have htl : ∀ y r', tail = y :: r' → y ∉ ws := by
    intro y r' h
    rcases htail with h0 | ⟨_, r, h0⟩
    · rw [h0] at h; cases h
    · rw [h0] at h; cases h; exact hsw
  unfold stepItemQ
  rw [show ([sep].map fun x => [x]) = [[sep]] from rfl,
    until_decomposedQ sep ws pre t g tail b off hb ho hfree hg ht htail]
  by_cases hte : t = []
  · have hge : g = [] := by
      rcases ht with ⟨_, h⟩ | ⟨t', x, h, _⟩
      · exact h
      · rw [hte] at h; simp at h
    subst hte hge
    have hskip : skipWs b ws off = .ok (off + ([] : Bytes).length) :=
      skipWs_run ws pre [] tail (by simpa using hb) ho (by simp) htl
    cases skip <;> simp [asciiText, isAscii, hskip]
  · simp only [hte, if_false]
    have hlen : t.length ≠ 0 := by
      cases t with
      | nil => exact absurd rfl hte
      | cons x xs => simp
    by_cases hasc : isAscii t = true
    · have hsl : slice b off (off + t.length) = t := slice_mid' pre t (g ++ tail) hb ho (by rw [ho])
      have hskip : skipWs b ws (off + t.length) = .ok (off + t.length + g.length) :=
        skipWs_run ws (pre ++ t) g tail (by simp [hb]) (by simp [ho]) hg htl
      simp [asciiText, hasc, hlen, hsl, hskip]
    · simp [asciiText, hasc]


/-! ### elementary facts about the quote-aware specification -/

theorem splitQ_ne_nil (sep : UInt8) (q : QState) (l : Bytes) : splitQ sep q l ≠ [] := by
  cases l with
  | nil => simp [splitQ]
  | cons x xs =>
    simp only [splitQ]
    split
    · simp
    · split <;> simp

theorem splitQ_cons_active (sep : UInt8) (q : QState) (x : UInt8) (xs : Bytes) (h : qNext q x = .out ∧ x = sep) :
    splitQ sep q (x :: xs) = [] :: splitQ sep .out xs := by
  obtain ⟨h1, h2⟩ := h
  subst h2
  simp [splitQ, h1]

theorem splitQ_cons_inactive (sep : UInt8) (q : QState) (x : UInt8) (xs : Bytes) (hx : ¬ (qNext q x = .out ∧ x = sep)) :
    ∃ h tl, splitQ sep (qNext q x) xs = h :: tl ∧ splitQ sep q (x :: xs) = (x :: h) :: tl := by
  cases hs : splitQ sep (qNext q x) xs with
  | nil => exact absurd hs (splitQ_ne_nil sep _ xs)
  | cons h tl => exact ⟨h, tl, rfl, by simp only [splitQ, hx, if_false, hs]⟩

/-- a run without active separator in front is glued to the first element of the rest -/
theorem splitQ_append_free (sep : UInt8) (q : QState) (e r : Bytes) (he : freeQ sep q e = true) :
    ∃ h tl, splitQ sep (qAfter q e) r = h :: tl ∧ splitQ sep q (e ++ r) = (e ++ h) :: tl := by
  induction e generalizing q with
  | nil =>
    cases hs : splitQ sep q r with
    | nil => exact absurd hs (splitQ_ne_nil sep q r)
    | cons h tl => exact ⟨h, tl, by simpa [qAfter] using hs, by simp [hs]⟩
  | cons x xs ih =>
    rw [freeQ_cons] at he
    obtain ⟨h, tl, h1, h2⟩ := ih (qNext q x) he.2
    obtain ⟨h', tl', h3, h4⟩ := splitQ_cons_inactive sep q x (xs ++ r) he.1
    rw [h2] at h3
    cases h3
    exact ⟨h, tl, by simpa [qAfter_cons] using h1, by simpa using h4⟩

theorem splitQ_free (sep : UInt8) (q : QState) (e : Bytes) (he : freeQ sep q e = true) : splitQ sep q e = [e] := by
  obtain ⟨h, tl, h1, h2⟩ := splitQ_append_free sep q e [] he
  simp [splitQ] at h1
  obtain ⟨rfl, rfl⟩ := h1
  simpa using h2

theorem splitQ_append_sep (sep : UInt8) (q : QState) (e r : Bytes) (he : freeQ sep q e = true)
    (hact : qNext (qAfter q e) sep = .out) :
    splitQ sep q (e ++ sep :: r) = e :: splitQ sep .out r := by
  obtain ⟨h, tl, h1, h2⟩ := splitQ_append_free sep q e (sep :: r) he
  rw [splitQ_cons_active sep _ sep r ⟨hact, rfl⟩] at h1
  simp at h1
  obtain ⟨rfl, rfl⟩ := h1
  simpa using h2

theorem splitQ_run (sep : UInt8) (hq : sep ≠ 0x22) (s r : Bytes) (hs : ∀ x ∈ s, x = sep) :
    splitQ sep .out (s ++ r) = List.replicate s.length [] ++ splitQ sep .out r := by
  induction s with
  | nil => simp
  | cons x xs ih =>
    have hx : x = sep := hs x (by simp)
    subst hx
    rw [List.cons_append, splitQ_cons_active x .out x (xs ++ r) ⟨qNext_out_sep x hq, rfl⟩,
      ih (fun y hy => hs y (by simp [hy]))]
    simp [List.replicate_succ]

/-- the trimmed elements of the quote-aware split -/
def elemsQ (sep : UInt8) (ws l : Bytes) : List Bytes := (splitQ sep .out l).map (trim ws)

theorem elemsQ_ne_nil (sep : UInt8) (ws l : Bytes) : elemsQ sep ws l ≠ [] := by
  simp [elemsQ, splitQ_ne_nil]

theorem elemsQ_nil (sep : UInt8) (ws : Bytes) : elemsQ sep ws [] = [[]] := by
  simp [elemsQ, splitQ, trim_nil]

/-- a whitespace run (no separator, no double quote) is free and leaves the state `out` -/
theorem ws_run_free (sep : UInt8) (ws w : Bytes) (hsw : sep ∉ ws) (hqw : (0x22 : UInt8) ∉ ws) (hw : ∀ x ∈ w, x ∈ ws) :
    freeQ sep .out w = true ∧ qAfter .out w = .out :=
  ⟨freeQ_of_not_mem sep .out w (fun hm => hsw (hw sep hm)), qAfter_out_of_no_quote w (fun hm => hqw (hw _ hm))⟩

/-- whitespace in front of the first element is insignificant -/
theorem elemsQ_leading_ws (sep : UInt8) (ws w r : Bytes) (hsw : sep ∉ ws) (hqw : (0x22 : UInt8) ∉ ws)
    (hw : ∀ x ∈ w, x ∈ ws) : elemsQ sep ws (w ++ r) = elemsQ sep ws r := by
  obtain ⟨hf, hq⟩ := ws_run_free sep ws w hsw hqw hw
  obtain ⟨h, tl, h1, h2⟩ := splitQ_append_free sep .out w r hf
  rw [hq] at h1
  unfold elemsQ
  rw [h1, h2]
  simp [trim_run ws w h hw]

theorem elemsQ_ne_single_nil (sep : UInt8) (ws : Bytes) (y : UInt8) (r' : Bytes) (hy : y ∉ ws) :
    elemsQ sep ws (y :: r') ≠ [[]] := by
  unfold elemsQ
  by_cases hys : qNext .out y = .out ∧ y = sep
  · rw [splitQ_cons_active sep .out y r' hys]
    cases hs : splitQ sep .out r' with
    | nil => exact absurd hs (splitQ_ne_nil sep .out r')
    | cons h tl => simp
  · obtain ⟨h, tl, _, h2⟩ := splitQ_cons_inactive sep .out y r' hys
    rw [h2]
    intro hcon
    simp at hcon
    have h3 : trim ws (y :: h) = [] := hcon.1
    unfold trim at h3
    rw [trimStart_head ws (y :: h) (by intro z r e; cases e; exact hy)] at h3
    unfold trimEnd at h3
    have : (y :: h).reverse.dropWhile ws.contains ≠ [] :=
      dropWhile_ne_nil _ _ y (by simp) (by simpa using hy)
    exact this (by simpa using h3)

theorem splitTrimDropQ_skip (sep : UInt8) (ws b : Bytes) :
    splitTrimDropQ sep ws true b = dropItems (elemsQ sep ws b) := by
  simp [splitTrimDropQ, dropItems, elemsQ]

theorem splitTrimDropQ_strict (sep : UInt8) (ws b : Bytes) :
    splitTrimDropQ sep ws false b = checkItems (strictBody (elemsQ sep ws b)) := by
  simp [splitTrimDropQ, checkItems, elemsQ]

theorem splitTrimDropQ_eq (sep : UInt8) (ws : Bytes) (skip : Bool) (b : Bytes) :
    splitTrimDropQ sep ws skip b = specOfElems skip (elemsQ sep ws b) := by
  cases skip
  · simp [specOfElems, splitTrimDropQ_strict]
  · simp [specOfElems, splitTrimDropQ_skip]

/-! ### the quote-aware specification unfolded over one loop iteration -/

theorem spec_endQ (sep : UInt8) (ws t g : Bytes) (skip : Bool) (hfree : freeQ sep .out (t ++ g) = true)
    (hhead : ∀ y r', t = y :: r' → y ∉ ws) (hg : ∀ y ∈ g, y ∈ ws)
    (ht : (t = [] ∧ g = []) ∨ ∃ t' x, t = t' ++ [x] ∧ x ∉ ws) :
    splitTrimDropQ sep ws skip (t ++ g) =
      if t = [] then (if skip then .ok [] else .error .invalidValue)
      else if isAscii t then .ok [t] else .error .invalidValue := by
  have hel : elemsQ sep ws (t ++ g) = [t] := by
    unfold elemsQ
    rw [splitQ_free sep .out (t ++ g) hfree]
    simp [trim_item ws t g hhead hg ht]
  cases skip with
  | true =>
    rw [splitTrimDropQ_skip, hel, dropItems_cons]
    by_cases h : t = [] <;> by_cases ha : isAscii t = true <;> simp [h, ha, dropItems, keepAscii, consOk]
  | false =>
    rw [splitTrimDropQ_strict, hel]
    have : strictBody [t] = [t] := by simp [strictBody]
    rw [this, checkItems_cons]
    by_cases h : t = [] <;> by_cases ha : isAscii t = true <;> simp [h, ha, checkItems, keepAscii, consOk]

theorem elemsQ_sep (sep : UInt8) (ws t g s w r3 : Bytes) (hsw : sep ∉ ws) (hq : sep ≠ 0x22) (hqw : (0x22 : UInt8) ∉ ws)
    (hfree : freeQ sep .out (t ++ g) = true) (hact : qNext (qAfter .out (t ++ g)) sep = .out)
    (hhead : ∀ y r', t = y :: r' → y ∉ ws) (hg : ∀ y ∈ g, y ∈ ws)
    (ht : (t = [] ∧ g = []) ∨ ∃ t' x, t = t' ++ [x] ∧ x ∉ ws)
    (hs : ∀ x ∈ s, x = sep) (hw : ∀ x ∈ w, x ∈ ws) :
    elemsQ sep ws (t ++ (g ++ sep :: (s ++ (w ++ r3)))) = t :: (List.replicate s.length [] ++ elemsQ sep ws r3) := by
  have hlead := elemsQ_leading_ws sep ws w r3 hsw hqw hw
  unfold elemsQ at hlead ⊢
  rw [show t ++ (g ++ sep :: (s ++ (w ++ r3))) = (t ++ g) ++ sep :: (s ++ (w ++ r3)) by simp,
    splitQ_append_sep sep .out (t ++ g) _ hfree hact, splitQ_run sep hq s _ hs]
  simp only [List.map_cons, List.map_append, List.map_replicate, trim_nil, trim_item ws t g hhead hg ht]
  rw [hlead]

theorem spec_sepQ (sep : UInt8) (ws t g s w r3 : Bytes) (skip : Bool) (hsw : sep ∉ ws) (hq : sep ≠ 0x22)
    (hqw : (0x22 : UInt8) ∉ ws)
    (hfree : freeQ sep .out (t ++ g) = true) (hact : qNext (qAfter .out (t ++ g)) sep = .out)
    (hhead : ∀ y r', t = y :: r' → y ∉ ws) (hg : ∀ y ∈ g, y ∈ ws)
    (ht : (t = [] ∧ g = []) ∨ ∃ t' x, t = t' ++ [x] ∧ x ∉ ws)
    (hs : ∀ x ∈ s, x = sep) (hw : ∀ x ∈ w, x ∈ ws) (hr3 : ∀ y r', r3 = y :: r' → y ∉ ws) :
    splitTrimDropQ sep ws skip (t ++ (g ++ sep :: (s ++ (w ++ r3)))) =
      if t = [] then
        (if skip then (if r3 = [] then .ok [] else splitTrimDropQ sep ws skip r3) else .error .invalidValue)
      else if isAscii t then
        (if skip = false ∧ s ≠ [] then .error .invalidValue
         else if r3 = [] then .ok [t] else consOk t (splitTrimDropQ sep ws skip r3))
      else .error .invalidValue := by
  have hel := elemsQ_sep sep ws t g s w r3 hsw hq hqw hfree hact hhead hg ht hs hw
  cases skip with
  | true =>
    simp only [splitTrimDropQ_skip, hel, dropItems_cons, dropItems_replicate]
    have h3 : dropItems (elemsQ sep ws []) = .ok [] := by
      simp [elemsQ_nil, dropItems, keepAscii]
    by_cases h : t = []
    · by_cases hr : r3 = []
      · subst hr; simp [h, h3]
      · simp [h, hr]
    · by_cases ha : isAscii t = true
      · by_cases hr : r3 = []
        · subst hr; simp [h, ha, h3, consOk]
        · simp [h, ha, hr]
      · simp [h, ha]
  | false =>
    have hm : List.replicate s.length ([] : Bytes) ++ elemsQ sep ws r3 ≠ [] := by
      simp [elemsQ_ne_nil]
    simp only [splitTrimDropQ_strict, hel, strictBody_cons _ _ hm, checkItems_cons]
    by_cases h : t = []
    · simp [h]
    · by_cases ha : isAscii t = true
      · simp only [h, ha, if_false, if_true, true_and]
        cases s with
        | nil =>
          simp only [List.length_nil, List.replicate_zero, List.nil_append, ne_eq, not_true, if_false]
          by_cases hr : r3 = []
          · subst hr
            simp [elemsQ_nil, tailBody_single_nil, checkItems, keepAscii, consOk]
          · simp only [hr, if_false]
            cases r3 with
            | nil => exact absurd rfl hr
            | cons y r' =>
              have hne := elemsQ_ne_single_nil sep ws y r' (hr3 y r' rfl)
              rw [tailBody_eq_strictBody _ (elemsQ_ne_nil sep ws _) hne]
        | cons x xs =>
          have hne : List.replicate xs.length ([] : Bytes) ++ elemsQ sep ws r3 ≠ [] := by
            simp [elemsQ_ne_nil]
          simp [List.replicate_succ, tailBody_cons _ _ hne, checkItems_cons, consOk]
      · simp [h, ha]

/-! ### the loop invariant of the quote-aware scanner -/

/-- the longest prefix without active separator: the rest is empty or starts with an active separator -/
theorem exists_freeQ (sep : UInt8) (q : QState) (l : Bytes) :
    ∃ e tail, l = e ++ tail ∧ freeQ sep q e = true ∧
      (tail = [] ∨ (qNext (qAfter q e) sep = .out ∧ ∃ r, tail = sep :: r)) := by
  induction l generalizing q with
  | nil => exact ⟨[], [], rfl, rfl, Or.inl rfl⟩
  | cons x xs ih =>
    by_cases hx : qNext q x = .out ∧ x = sep
    · refine ⟨[], x :: xs, rfl, rfl, Or.inr ⟨?_, xs, by rw [hx.2]⟩⟩
      rw [qAfter_nil, ← hx.2]; exact hx.1
    · obtain ⟨e, tail, hl, he, htail⟩ := ih (qNext q x)
      refine ⟨x :: e, tail, by rw [hl]; rfl, (freeQ_cons sep q x e).mpr ⟨hx, he⟩, ?_⟩
      simpa [qAfter_cons] using htail

theorem decomposeQ (sep : UInt8) (ws rest : Bytes) (hhead : ∀ y r', rest = y :: r' → y ∉ ws) :
    ∃ t g tail, rest = t ++ (g ++ tail) ∧ freeQ sep .out (t ++ g) = true ∧ (∀ y r', t = y :: r' → y ∉ ws) ∧
      (∀ y ∈ g, y ∈ ws) ∧ ((t = [] ∧ g = []) ∨ ∃ t' x, t = t' ++ [x] ∧ x ∉ ws) ∧
      (tail = [] ∨ (qNext (qAfter .out (t ++ g)) sep = .out ∧ ∃ s w r3, tail = sep :: (s ++ (w ++ r3)) ∧
        (∀ x ∈ s, x = sep) ∧
        (∀ y r', w ++ r3 = y :: r' → y ≠ sep) ∧ (∀ x ∈ w, x ∈ ws) ∧ (∀ y r', r3 = y :: r' → y ∉ ws))) := by
  obtain ⟨e, tail, hrest, he, htail⟩ := exists_freeQ sep .out rest
  obtain ⟨g', m, hrev, hg', hm⟩ := exists_run ws.contains e.reverse
  have he' : e = m.reverse ++ g'.reverse := by
    have := congrArg List.reverse hrev
    simpa using this
  have hgws : ∀ y ∈ g'.reverse, y ∈ ws := fun y hy => by simpa using hg' y (by simpa using hy)
  refine ⟨m.reverse, g'.reverse, tail, by rw [hrest, he']; simp, by rw [← he']; exact he, ?_, hgws, ?_, ?_⟩
  · intro y r' h
    exact hhead y (r' ++ (g'.reverse ++ tail)) (by rw [hrest, he', h]; simp)
  · cases m with
    | nil =>
      left
      refine ⟨rfl, ?_⟩
      cases hgr : g'.reverse with
      | nil => rfl
      | cons y ys =>
        exfalso
        have hy : y ∈ ws := hgws y (by rw [hgr]; simp)
        exact hhead y (ys ++ tail) (by rw [hrest, he', hgr]; simp) hy
    | cons x m' =>
      right
      exact ⟨m'.reverse, x, by simp, by simpa using hm x m' rfl⟩
  · rcases htail with h | ⟨hact, r, h⟩
    · left; exact h
    · right
      refine ⟨by rw [← he']; exact hact, ?_⟩
      obtain ⟨s, r2, hr, hs, hr2⟩ := exists_run (fun x => x == sep) r
      obtain ⟨w, r3, hr2', hw, hr3⟩ := exists_run ws.contains r2
      refine ⟨s, w, r3, by rw [h, hr, hr2'], fun x hx => by simpa using hs x hx, ?_, fun x hx => by simpa using hw x hx,
        fun z r' h => by simpa using hr3 z r' h⟩
      intro z r' h
      have := hr2 z r' (by rw [hr2', h])
      simpa using this

theorem arrayLoopQ_succ (b sepSet ws : Bytes) (skip : Bool) (mx : Option Nat) (fuel off : Nat) (acc : List Bytes) :
    arrayLoopQ b sepSet ws skip mx (fuel + 1) off acc =
      match arrayStepQ b sepSet ws skip mx off acc with
      | .error e => .error e
      | .ok (.done items off) => .ok (items, off)
      | .ok (.more items off) => arrayLoopQ b sepSet ws skip mx fuel off items := rfl

theorem loop_refinesQ (sep : UInt8) (ws : Bytes) (skip : Bool) (hsw : sep ∉ ws) (hq : sep ≠ 0x22)
    (hqw : (0x22 : UInt8) ∉ ws) :
    ∀ (n : Nat) (rest pre b : Bytes) (acc : List Bytes) (fuel : Nat), rest.length ≤ n → b = pre ++ rest →
      (∀ y r', rest = y :: r' → y ∉ ws) → rest.length + 1 ≤ fuel →
      arrayLoopQ b [sep] ws skip none fuel pre.length acc =
        match splitTrimDropQ sep ws skip rest with
        | .ok items => .ok (acc ++ items, b.length)
        | .error e => .error e := by
  intro n
  induction n with
  | zero =>
    intro rest pre b acc fuel hn hb hhead hfuel
    have hr : rest = [] := List.eq_nil_of_length_eq_zero (by omega)
    subst hr
    cases fuel with
    | zero => omega
    | succ f =>
      have hstep := stepItem_decomposedQ sep ws pre [] [] [] b pre.length acc skip (by simpa using hb) rfl hsw
        (by rfl) (by simp) (Or.inl ⟨rfl, rfl⟩) (Or.inl rfl)
      have hspec := spec_endQ sep ws [] [] skip (by rfl) (by simp) (by simp) (Or.inl ⟨rfl, rfl⟩)
      simp only [List.append_nil, if_true] at hspec hstep
      rw [arrayLoopQ_succ, arrayStepQ, hstep, hspec]
      cases skip with
      | false => simp
      | true =>
        simp only [if_true]
        rw [stepSep_end _ _ _ _ _ _ _ (by simp [hb])]
        simp
  | succ n ih =>
    intro rest pre b acc fuel hn hb hhead hfuel
    obtain ⟨t, g, tail, hrest, hfree, hth, hg, ht, htail⟩ := decomposeQ sep ws rest hhead
    cases fuel with
    | zero => omega
    | succ f =>
    have hb' : b = pre ++ (t ++ (g ++ tail)) := by rw [hb, hrest]
    have htail' : TailQ sep (t ++ g) tail := by
      rcases htail with h | ⟨hact, s, w, r3, h, _⟩
      · exact Or.inl h
      · exact Or.inr ⟨hact, _, h⟩
    have hstep := stepItem_decomposedQ sep ws pre t g tail b pre.length acc skip hb' rfl hsw hfree hg ht htail'
    rw [arrayLoopQ_succ, arrayStepQ, hstep]
    rcases htail with htl | ⟨hact, s, w, r3, htl, hs, hws, hw, hr3⟩
    · -- the item runs to the end of the input
      subst htl
      have hspec := spec_endQ sep ws t g skip hfree hth hg ht
      simp only [List.append_nil] at hrest
      rw [hrest, hspec]
      have hge : t = [] → g = [] := by
        intro h
        rcases ht with ⟨_, h2⟩ | ⟨t', x, h2, _⟩
        · exact h2
        · rw [h] at h2; simp at h2
      by_cases hte : t = []
      · have := hge hte
        subst hte this
        cases skip with
        | false => simp
        | true =>
          simp only [if_true]
          rw [stepSep_end _ _ _ _ _ _ _ (by simp [hb'])]
          simp
      · by_cases ha : isAscii t = true
        · simp only [hte, ha, if_false, if_true]
          rw [stepSep_end _ _ _ _ _ _ _ (by simp [hb']; omega)]
        · simp [hte, ha]
    · -- an active separator follows
      subst htl
      have hspec := spec_sepQ sep ws t g s w r3 skip hsw hq hqw hfree hact hth hg ht hs hw hr3
      rw [hrest, hspec]
      have hge : t = [] → g = [] := by
        intro h
        rcases ht with ⟨_, h2⟩ | ⟨t', x, h2, _⟩
        · exact h2
        · rw [h] at h2; simp at h2
      have hlen3 : r3.length ≤ n := by
        have : rest.length = t.length + g.length + 1 + s.length + w.length + r3.length := by
          rw [hrest]; simp; omega
        omega
      have hfuel3 : r3.length + 1 ≤ f := by
        have : rest.length = t.length + g.length + 1 + s.length + w.length + r3.length := by
          rw [hrest]; simp; omega
        omega
      have hsepstep : ∀ acc', stepSep b [sep] ws skip none (pre.length + t.length + g.length) acc' =
          if skip = false ∧ s ≠ [] then .error .invalidValue
          else if r3 = [] then .ok (.done acc' b.length)
          else .ok (.more acc' (pre.length + t.length + g.length + 1 + s.length + w.length)) :=
        fun acc' => stepSep_decomposed sep ws (pre ++ (t ++ g)) s w r3 b _ acc' skip (by rw [hb']; simp)
          (by simp; omega) hs hws hw hr3
      have hnext : ∀ acc', r3 ≠ [] →
          arrayLoopQ b [sep] ws skip none f (pre.length + t.length + g.length + 1 + s.length + w.length) acc' =
            match splitTrimDropQ sep ws skip r3 with
            | .ok items => .ok (acc' ++ items, b.length)
            | .error e => .error e := by
        intro acc' _
        have := ih r3 (pre ++ (t ++ (g ++ sep :: (s ++ w)))) b acc' f hlen3 (by rw [hb']; simp) hr3 hfuel3
        rw [← this]
        congr 1
        simp; omega
      by_cases hte : t = []
      · have := hge hte
        subst hte this
        cases skip with
        | false => simp
        | true =>
          simp only [if_true, List.length_nil, Nat.add_zero] at hsepstep hnext ⊢
          rw [hsepstep acc]
          by_cases h3 : r3 = []
          · simp [h3]
          · simp only [h3, if_false, Bool.true_eq_false, false_and]
            rw [hnext acc h3]
      · by_cases ha : isAscii t = true
        · simp only [hte, ha, if_false, if_true]
          rw [hsepstep (acc ++ [t])]
          by_cases hbad : skip = false ∧ s ≠ []
          · simp [hbad]
          · simp only [hbad, if_false]
            by_cases h3 : r3 = []
            · simp [h3]
            · simp only [h3, if_false]
              rw [hnext (acc ++ [t]) h3]
              cases splitTrimDropQ sep ws skip r3 with
              | error e => simp [consOk]
              | ok items => simp [consOk]
        · simp [hte, ha]

/-! ### the refinement theorem of the quote-aware scanner -/

theorem specQ_leading_ws (sep : UInt8) (ws w b : Bytes) (skip : Bool) (hsw : sep ∉ ws) (hqw : (0x22 : UInt8) ∉ ws)
    (hw : ∀ x ∈ w, x ∈ ws) : splitTrimDropQ sep ws skip (w ++ b) = splitTrimDropQ sep ws skip b := by
  rw [splitTrimDropQ_eq, splitTrimDropQ_eq, elemsQ_leading_ws sep ws w b hsw hqw hw]

/-- `_parse_string_array(…, quote_aware=True)` started at `_parsed_length = pre.length` on the buffer `pre ++ b`, one
single-byte separator that is neither a whitespace byte nor the double quote, whitespace without the double quote, no
`max_item_num`: the items are exactly `splitTrimDropQ sep ws skip b`, and the whole buffer is consumed.  `b` is
arbitrary (unbalanced quotes, backslashes, non-ASCII bytes included). -/
theorem array_refines_atQ (sep : UInt8) (ws : Bytes) (skip : Bool) (hsw : sep ∉ ws) (hq : sep ≠ 0x22)
    (hqw : (0x22 : UInt8) ∉ ws) (pre b : Bytes) :
    parseStringArrayQ (pre ++ b) pre.length [sep] ws skip none =
      match splitTrimDropQ sep ws skip b with
      | .ok items => .ok (items, (pre ++ b).length)
      | .error e => .error e := by
  obtain ⟨w, rest, hb, hw, hrest⟩ := exists_run ws.contains b
  have hw' : ∀ x ∈ w, x ∈ ws := fun x hx => by simpa using hw x hx
  have hrest' : ∀ y r', rest = y :: r' → y ∉ ws := fun y r' h => by simpa using hrest y r' h
  unfold parseStringArrayQ
  rw [skipWs_run ws pre w rest (by rw [hb]) rfl hw' hrest']
  have := loop_refinesQ sep ws skip hsw hq hqw rest.length rest (pre ++ w) (pre ++ b) [] ((pre ++ b).length + 1)
    (Nat.le_refl _) (by rw [hb]; simp) hrest' (by rw [hb]; simp; omega)
  simp only [List.length_append] at this ⊢
  rw [this, hb, specQ_leading_ws sep ws w rest skip hsw hqw hw']
  cases splitTrimDropQ sep ws skip rest <;> simp


/-! ### invariance of the quote-aware specification under insignificant spelling

The edits are made OUTSIDE quoted-strings: the prefix `a` in front of the edited place ends in state `out`. -/

/-- what a prefix `a` contributes: complete elements `init` and a partial element `last`, glued to the first element
of whatever follows (which is split from the state in which `a` ends) -/
theorem splitQ_prefix (sep : UInt8) (q : QState) (a : Bytes) :
    ∃ init last, ∀ r h tl, splitQ sep (qAfter q a) r = h :: tl → splitQ sep q (a ++ r) = init ++ (last ++ h) :: tl := by
  induction a generalizing q with
  | nil => exact ⟨[], [], fun r h tl hr => by simpa [qAfter] using hr⟩
  | cons x a' ih =>
    obtain ⟨init', last', h'⟩ := ih (qNext q x)
    by_cases hx : qNext q x = .out ∧ x = sep
    · refine ⟨[] :: init', last', fun r h tl hr => ?_⟩
      rw [List.cons_append, splitQ_cons_active sep q x _ hx]
      rw [qAfter_cons, hx.1] at hr
      have := h' r h tl (by rw [hx.1]; exact hr)
      rw [hx.1] at this
      simp [this]
    · cases init' with
      | nil =>
        refine ⟨[], x :: last', fun r h tl hr => ?_⟩
        have := h' r h tl (by simpa [qAfter_cons] using hr)
        obtain ⟨h2, tl2, h3, h4⟩ := splitQ_cons_inactive sep q x (a' ++ r) hx
        rw [this] at h3
        simp at h3
        rw [List.cons_append, h4, ← h3.1, ← h3.2]
        simp
      | cons i0 is =>
        refine ⟨(x :: i0) :: is, last', fun r h tl hr => ?_⟩
        have := h' r h tl (by simpa [qAfter_cons] using hr)
        obtain ⟨h2, tl2, h3, h4⟩ := splitQ_cons_inactive sep q x (a' ++ r) hx
        rw [this] at h3
        simp at h3
        rw [List.cons_append, h4, ← h3.1, ← h3.2]
        simp

theorem splitQ_sep_cons (sep : UInt8) (hq : sep ≠ 0x22) (r : Bytes) :
    splitQ sep .out (sep :: r) = [] :: splitQ sep .out r :=
  splitQ_cons_active sep .out sep r ⟨qNext_out_sep sep hq, rfl⟩

theorem elemsQ_trailing_ws (sep : UInt8) (ws b w : Bytes) (hsw : sep ∉ ws) (hw : ∀ x ∈ w, x ∈ ws) :
    elemsQ sep ws (b ++ w) = elemsQ sep ws b := by
  obtain ⟨init, last, h⟩ := splitQ_prefix sep .out b
  have hs : sep ∉ w := fun hm => hsw (hw sep hm)
  have h1 := h w w [] (splitQ_free sep _ w (freeQ_of_not_mem sep _ w hs))
  have h2 := h [] [] [] (by simp [splitQ])
  simp only [List.append_nil] at h2
  unfold elemsQ
  rw [h1, h2]
  simp [trim_append_ws ws last w hw]

theorem elemsQ_ws_before_sep (sep : UInt8) (ws a w r : Bytes) (hsw : sep ∉ ws) (hq : sep ≠ 0x22)
    (hqw : (0x22 : UInt8) ∉ ws) (ha : qAfter .out a = .out) (hw : ∀ x ∈ w, x ∈ ws) :
    elemsQ sep ws (a ++ (w ++ sep :: r)) = elemsQ sep ws (a ++ sep :: r) := by
  obtain ⟨init, last, h⟩ := splitQ_prefix sep .out a
  rw [ha] at h
  obtain ⟨hf, hqa⟩ := ws_run_free sep ws w hsw hqw hw
  have h1 := h (w ++ sep :: r) w (splitQ sep .out r)
    (splitQ_append_sep sep .out w r hf (by rw [hqa]; exact qNext_out_sep sep hq))
  have h2 := h (sep :: r) [] (splitQ sep .out r) (splitQ_sep_cons sep hq r)
  unfold elemsQ
  rw [h1, h2]
  simp [trim_append_ws ws last w hw]

theorem elemsQ_ws_after_sep (sep : UInt8) (ws a w r : Bytes) (hsw : sep ∉ ws) (hq : sep ≠ 0x22)
    (hqw : (0x22 : UInt8) ∉ ws) (ha : qAfter .out a = .out) (hw : ∀ x ∈ w, x ∈ ws) :
    elemsQ sep ws (a ++ sep :: (w ++ r)) = elemsQ sep ws (a ++ sep :: r) := by
  obtain ⟨init, last, h⟩ := splitQ_prefix sep .out a
  rw [ha] at h
  have h1 := h (sep :: (w ++ r)) [] (splitQ sep .out (w ++ r)) (splitQ_sep_cons sep hq _)
  have h2 := h (sep :: r) [] (splitQ sep .out r) (splitQ_sep_cons sep hq r)
  have := elemsQ_leading_ws sep ws w r hsw hqw hw
  unfold elemsQ at this ⊢
  rw [h1, h2]
  simp [this]

theorem dropItemsQ_extra_sep (sep : UInt8) (ws a r : Bytes) (hq : sep ≠ 0x22) (ha : qAfter .out a = .out) :
    dropItems (elemsQ sep ws (a ++ sep :: sep :: r)) = dropItems (elemsQ sep ws (a ++ sep :: r)) := by
  obtain ⟨init, last, h⟩ := splitQ_prefix sep .out a
  rw [ha] at h
  have h1 := h (sep :: sep :: r) [] ([] :: splitQ sep .out r)
    (by rw [splitQ_sep_cons sep hq, splitQ_sep_cons sep hq])
  have h2 := h (sep :: r) [] (splitQ sep .out r) (splitQ_sep_cons sep hq r)
  apply dropItems_eq_of_filter
  unfold elemsQ
  rw [h1, h2]
  simp [trim_nil, List.filter_cons]

theorem dropItemsQ_leading_sep (sep : UInt8) (ws r : Bytes) (hq : sep ≠ 0x22) :
    dropItems (elemsQ sep ws (sep :: r)) = dropItems (elemsQ sep ws r) := by
  apply dropItems_eq_of_filter
  simp [elemsQ, splitQ_sep_cons sep hq, trim_nil]

theorem dropItemsQ_trailing_sep (sep : UInt8) (ws a : Bytes) (hq : sep ≠ 0x22) (ha : qAfter .out a = .out) :
    dropItems (elemsQ sep ws (a ++ [sep])) = dropItems (elemsQ sep ws a) := by
  obtain ⟨init, last, h⟩ := splitQ_prefix sep .out a
  rw [ha] at h
  have h1 := h [sep] [] [[]] (by rw [splitQ_sep_cons sep hq]; simp [splitQ])
  have h2 := h [] [] [] (by simp [splitQ])
  simp only [List.append_nil] at h2
  apply dropItems_eq_of_filter
  unfold elemsQ
  rw [h1, h2]
  simp [trim_nil, List.filter_cons]

/-! ### the canonical spelling parses back (quote-aware) -/

theorem elemsQ_join (sep : UInt8) (ws w : Bytes) (hsw : sep ∉ ws) (hq : sep ≠ 0x22) (hqw : (0x22 : UInt8) ∉ ws)
    (hw : ∀ x ∈ w, x ∈ ws) (items : List Bytes) (hne : items ≠ [])
    (hi : ∀ i ∈ items, freeQ sep .out i = true ∧ qAfter .out i = .out ∧ trim ws i = i) :
    elemsQ sep ws (joinWith (sep :: w) items) = items := by
  induction items with
  | nil => exact absurd rfl hne
  | cons i is ih =>
    cases is with
    | nil =>
      have := hi i (by simp)
      simp [joinWith, elemsQ, splitQ_free sep .out i this.1, this.2.2]
    | cons i2 is2 =>
      have h1 := hi i (by simp)
      have ih' := ih (by simp) (fun j hj => hi j (by simp [hj]))
      have : joinWith (sep :: w) (i :: i2 :: is2) = i ++ sep :: (w ++ joinWith (sep :: w) (i2 :: is2)) := by
        simp [joinWith]
      rw [this]
      have hlead := elemsQ_leading_ws sep ws w (joinWith (sep :: w) (i2 :: is2)) hsw hqw hw
      unfold elemsQ at ih' hlead ⊢
      rw [splitQ_append_sep sep .out i _ h1.1 (by rw [h1.2.1]; exact qNext_out_sep sep hq)]
      simp only [List.map_cons, h1.2.2]
      rw [hlead, ih']

theorem quotedBody_free (sep : UInt8) (q : QState) (body tl : Bytes) (h : quotedBody q body = true) :
    freeQ sep q (body ++ tl) = freeQ sep .inq tl ∧ qAfter q (body ++ tl) = qAfter .inq tl := by
  induction body generalizing q with
  | nil =>
    simp [quotedBody] at h
    subst h; simp
  | cons x xs ih =>
    simp only [quotedBody, Bool.and_eq_true, Bool.not_eq_true', decide_eq_false_iff_not] at h
    obtain ⟨h1, h2⟩ := ih (qNext q x) h.2
    refine ⟨?_, by rw [List.cons_append, qAfter_cons]; exact h2⟩
    simp only [List.cons_append, freeQ, h.1, decide_false, Bool.false_and, Bool.not_false, Bool.true_and]
    exact h1

/-- A QUOTED-STRING IS ONE PIECE: `"` body `"` (whatever separators the body contains) has no active separator and
ends outside. -/
theorem quotedString_free (sep : UInt8) (hq : sep ≠ 0x22) (body : Bytes) (h : quotedBody .inq body = true) :
    freeQ sep .out (0x22 :: (body ++ [0x22])) = true ∧ qAfter .out (0x22 :: (body ++ [0x22])) = .out := by
  obtain ⟨h1, h2⟩ := quotedBody_free sep .inq body [0x22] h
  have hn : qNext .out (0x22 : UInt8) = .inq := by simp [qNext]
  refine ⟨?_, ?_⟩
  · rw [freeQ_cons, hn, h1]
    refine ⟨by simp, ?_⟩
    simp [freeQ, qNext, Ne.symm hq]
  · rw [qAfter_cons, hn, h2]
    simp [qAfter, qNext]

/-- a name (no separator, no double quote) followed by a quoted-string -/
theorem name_quoted_free (sep : UInt8) (hq : sep ≠ 0x22) (name body : Bytes) (hn1 : sep ∉ name)
    (hn2 : (0x22 : UInt8) ∉ name) (h : quotedBody .inq body = true) :
    freeQ sep .out (name ++ 0x22 :: (body ++ [0x22])) = true ∧
      qAfter .out (name ++ 0x22 :: (body ++ [0x22])) = .out := by
  obtain ⟨h1, h2⟩ := quotedString_free sep hq body h
  have hqa := qAfter_out_of_no_quote name hn2
  refine ⟨?_, by rw [qAfter_append, hqa]; exact h2⟩
  rw [freeQ_append, hqa]
  exact ⟨freeQ_of_not_mem sep .out name hn1, h1⟩

/-! ### no crash, enough fuel — the quote-aware scanner, every parameter combination -/

theorem sepSearchQ_some (b : Bytes) (off : Nat) (seps : List Bytes) : ∀ (n e r : Nat) (q : QState),
    sepSearchQ b off seps n e q = some r → off ≤ e → e + n ≤ b.length + 1 → off ≤ r ∧ r ≤ b.length := by
  intro n
  induction n with
  | zero => intro e r q h; simp [sepSearchQ] at h
  | succ n ih =>
    intro e r q h he hn
    simp only [sepSearchQ] at h
    split at h
    · exact ih (e + 1) r _ h (by omega) (by omega)
    · cases hf : seps.find? (fun s => s.isSuffixOf (slice b off e)) with
      | some s =>
        simp only [hf] at h
        cases h
        have hsuf := List.find?_some hf
        have hle := (List.isSuffixOf_iff_suffix.mp hsuf).length_le
        simp [slice] at hle
        omega
      | none =>
        simp only [hf] at h
        exact ih (e + 1) r _ h (by omega) (by omega)

theorem findItemEndQ_mayEnd (b : Bytes) (off : Nat) (seps : List Bytes) (ho : off ≤ b.length) :
    ∃ itemEnd, findItemEndQ b off seps true = some itemEnd ∧ off ≤ itemEnd ∧ itemEnd ≤ b.length := by
  unfold findItemEndQ
  cases hs : sepSearchQ b off seps (b.length + 1 - off) off .out with
  | some e => exact ⟨e, rfl, sepSearchQ_some b off seps _ _ _ _ hs (Nat.le_refl _) (by omega)⟩
  | none => exact ⟨b.length, rfl, ho, Nat.le_refl _⟩

theorem until_totalQ (b : Bytes) (off : Nat) (seps : List Bytes) (ws : Bytes) (ho : off ≤ b.length)
    (hhead : NoWsHead ws (b.drop off)) :
    (∃ item n, parseStringUntilSeparatorQ b off seps true ws = .ok (item, n) ∧ off + n ≤ b.length) ∨
      parseStringUntilSeparatorQ b off seps true ws = .error .invalidValue := by
  obtain ⟨itemEnd, h1, h2, h3⟩ := findItemEndQ_mayEnd b off seps ho
  obtain ⟨c, h4, h5⟩ := trimCount_inside b ws off itemEnd h3 hhead
  unfold parseStringUntilSeparatorQ
  have hn1 : ¬ itemEnd < off := by omega
  have hn2 : ¬ itemEnd - off < c := by omega
  simp only [h1, hn1, if_false, h4, hn2]
  rcases asciiText_cases (slice b off (itemEnd - c)) with h | h
  · left; exact ⟨_, _, by rw [h], by omega⟩
  · right; rw [h]

theorem stepItem_totalQ (b sepSet ws : Bytes) (skip : Bool) (off : Nat) (acc : List Bytes) (ho : off ≤ b.length)
    (hhead : NoWsHead ws (b.drop off)) :
    (∃ acc' off', stepItemQ b sepSet ws skip off acc = .ok (acc', off') ∧ off ≤ off' ∧ off' ≤ b.length ∧
        NoWsHead ws (b.drop off')) ∨
      stepItemQ b sepSet ws skip off acc = .error .invalidValue := by
  unfold stepItemQ
  rcases until_totalQ b off (sepSet.map fun x => [x]) ws ho hhead with ⟨item, n, h, hn⟩ | h
  · simp only [h]
    by_cases hz : n = 0
    · subst hz
      cases skip with
      | false => right; simp
      | true =>
        obtain ⟨off', hs1, hs2, hs3, hs4⟩ := skipWs_total b ws off ho
        left; exact ⟨acc, off', by simp [hs1], hs2, hs3, hs4⟩
    · simp only [ne_eq, hz, not_false_eq_true, if_true]
      rcases asciiText_cases (slice b off (off + n)) with ha | ha
      · obtain ⟨off', hs1, hs2, hs3, hs4⟩ := skipWs_total b ws (off + n) hn
        left; exact ⟨acc ++ [slice b off (off + n)], off', by simp [ha, hs1], by omega, hs3, hs4⟩
      · right; simp [ha]
  · right; simp [h]

theorem loop_totalQ (b sepSet ws : Bytes) (skip : Bool) (mx : Option Nat) : ∀ (fuel off : Nat) (acc : List Bytes),
    off ≤ b.length → b.length + 1 ≤ off + fuel → NoWsHead ws (b.drop off) →
    (∃ items off', arrayLoopQ b sepSet ws skip mx fuel off acc = .ok (items, off') ∧ off' ≤ b.length) ∨
      arrayLoopQ b sepSet ws skip mx fuel off acc = .error .invalidValue := by
  intro fuel
  induction fuel with
  | zero => intro off acc ho hf; omega
  | succ f ih =>
    intro off acc ho hf hhead
    rw [arrayLoopQ_succ, arrayStepQ]
    rcases stepItem_totalQ b sepSet ws skip off acc ho hhead with ⟨acc', off1, h1, h2, h3, _⟩ | h1
    · simp only [h1]
      rcases stepSep_total b sepSet ws skip mx off1 acc' h3 with ⟨off2, h4, h5⟩ | ⟨off2, h4, h5, h6, h7⟩ | h4
      · left; exact ⟨acc', off2, by simp [h4], h5⟩
      · simp only [h4]
        exact ih off2 acc' h6 (by omega) h7
      · right; simp [h4]
    · right; simp [h1]

/-- `_parse_string_array(…, quote_aware=True)` from any `_parsed_length` inside the buffer: items and a position
inside the buffer, or `InvalidValue` — nothing else, for every separator set, whitespace set, `skip_empty`,
`max_item_num`, balanced or unbalanced quotes. -/
theorem array_totalQ (b sepSet ws : Bytes) (skip : Bool) (mx : Option Nat) (off : Nat) (ho : off ≤ b.length) :
    (∃ items off', parseStringArrayQ b off sepSet ws skip mx = .ok (items, off') ∧ off' ≤ b.length) ∨
      parseStringArrayQ b off sepSet ws skip mx = .error .invalidValue := by
  unfold parseStringArrayQ
  obtain ⟨off', hs1, hs2, hs3, hs4⟩ := skipWs_total b ws off ho
  simp only [hs1]
  exact loop_totalQ b sepSet ws skip mx (b.length + 1) off' [] hs3 (by omega) hs4

/-! ### the items the quote-aware scanner returns -/

/-- items of `_parse_string_array(…, quote_aware=True)` from the start of the buffer, one separator, no `max_item_num` -/
def scanItemsQ (sep : UInt8) (ws : Bytes) (skip : Bool) (b : Bytes) : Except PErr (List Bytes) :=
  match parseStringArrayQ b 0 [sep] ws skip none with
  | .ok (items, _) => .ok items
  | .error e => .error e

theorem scanItemsQ_eq (sep : UInt8) (ws : Bytes) (skip : Bool) (hsw : sep ∉ ws) (hq : sep ≠ 0x22)
    (hqw : (0x22 : UInt8) ∉ ws) (b : Bytes) :
    scanItemsQ sep ws skip b = splitTrimDropQ sep ws skip b := by
  unfold scanItemsQ
  have := array_refines_atQ sep ws skip hsw hq hqw [] b
  simp only [List.nil_append, List.length_nil] at this
  rw [this]
  cases splitTrimDropQ sep ws skip b <;> rfl


/-! ### without a double quote the quote-aware scanner is the plain one -/

theorem splitQ_eq_splitSep (sep : UInt8) (b : Bytes) (h : (0x22 : UInt8) ∉ b) : splitQ sep .out b = splitSep sep b := by
  induction b with
  | nil => rfl
  | cons x xs ih =>
    have hx : x ≠ 0x22 := fun hc => h (by simp [hc])
    have hn : qNext .out x = .out := by simp [qNext, hx]
    have ih' := ih (fun hm => h (by simp [hm]))
    by_cases hs : x = sep
    · subst hs
      simp [splitQ, splitSep, hn, ih']
    · simp [splitQ, splitSep, hn, hs, ih']

theorem splitTrimDropQ_eq_plain (sep : UInt8) (ws : Bytes) (skip : Bool) (b : Bytes) (h : (0x22 : UInt8) ∉ b) :
    splitTrimDropQ sep ws skip b = splitTrimDrop sep ws skip b := by
  unfold splitTrimDropQ splitTrimDrop
  rw [splitQ_eq_splitSep sep b h]

/-! ### cost of the quote-aware scanner: interpreter steps are linear in the input -/

theorem sepSearchTicksQ_single (b : Bytes) (off : Nat) (sep : UInt8) : ∀ (n e : Nat) (q : QState),
    (∀ r, sepSearchQ b off [[sep]] n e q = some r →
      e ≤ r + 1 ∧ sepSearchTicksQ b off [[sep]] n e q ≤ 3 * (r + 2 - e)) ∧
    (sepSearchQ b off [[sep]] n e q = none → sepSearchTicksQ b off [[sep]] n e q ≤ 3 * n) := by
  intro n
  induction n with
  | zero => intro e q; simp [sepSearchQ, sepSearchTicksQ]
  | succ n ih =>
    intro e q
    obtain ⟨ih1, ih2⟩ := ih (e + 1) (qStepAt b e q)
    by_cases hq : q = .out
    · cases hf : [[sep]].find? (fun s => s.isSuffixOf (slice b off e)) with
      | some s =>
        have hs : s = [sep] := by
          have := List.mem_of_find?_eq_some hf
          simpa using this
        subst hs
        simp only [sepSearchQ, sepSearchTicksQ, hq, ne_eq, not_true, if_false, hf, triedCount_single]
        constructor
        · intro r hr
          cases hr
          simp; omega
        · intro h; cases h
      | none =>
        simp only [sepSearchQ, sepSearchTicksQ, hq, ne_eq, not_true, if_false, hf, triedCount_single]
        rw [hq] at ih1 ih2
        constructor
        · intro r hr
          obtain ⟨h1, h2⟩ := ih1 r hr
          omega
        · intro h
          have := ih2 h
          omega
    · simp only [sepSearchQ, sepSearchTicksQ, ne_eq, hq, not_false_eq_true, if_true]
      constructor
      · intro r hr
        obtain ⟨h1, h2⟩ := ih1 r hr
        omega
      · intro h
        have := ih2 h
        omega

theorem untilTicksQ_decomposed (sep : UInt8) (ws pre t g tail b : Bytes) (off : Nat)
    (hb : b = pre ++ (t ++ (g ++ tail))) (ho : off = pre.length)
    (hfree : freeQ sep .out (t ++ g) = true) (hg : ∀ y ∈ g, y ∈ ws)
    (ht : (t = [] ∧ g = []) ∨ ∃ t' x, t = t' ++ [x] ∧ x ∉ ws)
    (htail : TailQ sep (t ++ g) tail) :
    untilTicksQ b off [[sep]] true ws ≤ 3 * t.length + 4 * g.length + 8 := by
  have hend := until_itemEndQ sep pre (t ++ g) tail b off (by simpa using hb) ho hfree htail
  have hsearch : sepSearchTicksQ b off [[sep]] (b.length + 1 - off) off .out ≤ 3 * ((t ++ g).length + 2) := by
    obtain ⟨h1, h2⟩ := sepSearchTicksQ_single b off sep (b.length + 1 - off) off .out
    cases hs : sepSearchQ b off [[sep]] (b.length + 1 - off) off .out with
    | none =>
      have := h2 hs
      have hl : b.length + 1 - off = (t ++ g).length + tail.length + 1 := by simp [hb, ho]; omega
      rcases htail with h | ⟨_, r, h⟩
      · subst h; simp at hl ⊢; omega
      · -- an active separator is present: the search cannot fail
        exfalso
        have hfe : findItemEndQ b off [[sep]] true = some b.length := by simp [findItemEndQ, hs]
        rw [hend] at hfe
        have hlen : b.length = off + (t ++ g).length + tail.length := by simp [hb, ho]; omega
        rw [h] at hlen
        simp at hfe hlen
        omega
    | some r =>
      have hfe : findItemEndQ b off [[sep]] true = some r := by simp [findItemEndQ, hs]
      rw [hend] at hfe
      cases hfe
      have := (h1 _ hs).2
      omega
  have htrim : trimTicks b ws off (off + (t ++ g).length) ≤ g.length + 1 := by
    unfold trimTicks
    rcases ht with ⟨h1, h2⟩ | ⟨t', x, h1, hx⟩
    · subst h1 h2; simp
    · have htake : b.take (off + (t ++ g).length) = pre ++ (t ++ g) := by
        rw [hb, ho, show pre ++ (t ++ (g ++ tail)) = (pre ++ (t ++ g)) ++ tail by simp,
          show pre.length + (t ++ g).length = (pre ++ (t ++ g)).length by simp]
        exact List.take_left
      have hpos : off < off + (t ++ g).length := by subst h1; simp; omega
      simp only [hpos, if_true, htake]
      subst h1
      have : (pre ++ (t' ++ [x] ++ g)).reverse = g.reverse ++ x :: (t'.reverse ++ pre.reverse) := by simp
      rw [this, trimRunTicks_run ws g.reverse x _ (fun y hy => hg y (by simpa using hy)) hx]
      simp
  unfold untilTicksQ
  have hlt : ¬ (off + (t ++ g).length < off) := by omega
  simp only [hend, hlt, if_false]
  rw [List.length_append] at hsearch htrim hlt ⊢
  generalize trimTicks b ws off (off + (t.length + g.length)) = T at htrim ⊢
  generalize sepSearchTicksQ b off [[sep]] (b.length + 1 - off) off .out = S at hsearch ⊢
  show S + (T + 1) ≤ _
  omega

theorem stepItemQ_off (sep : UInt8) (ws pre t g tail b : Bytes) (off : Nat) (acc : List Bytes) (skip : Bool)
    (hb : b = pre ++ (t ++ (g ++ tail))) (ho : off = pre.length) (hsw : sep ∉ ws)
    (hfree : freeQ sep .out (t ++ g) = true) (hg : ∀ y ∈ g, y ∈ ws)
    (ht : (t = [] ∧ g = []) ∨ ∃ t' x, t = t' ++ [x] ∧ x ∉ ws)
    (htail : TailQ sep (t ++ g) tail) (acc' : List Bytes) (off1 : Nat)
    (h : stepItemQ b [sep] ws skip off acc = .ok (acc', off1)) : off1 = off + t.length + g.length := by
  rw [stepItem_decomposedQ sep ws pre t g tail b off acc skip hb ho hsw hfree hg ht htail] at h
  by_cases hte : t = []
  · have hge : g = [] := by
      rcases ht with ⟨_, h2⟩ | ⟨t', x, h2, _⟩
      · exact h2
      · rw [hte] at h2; simp at h2
    subst hte hge
    cases skip <;> simp at h
    simp [h.2]
  · by_cases ha : isAscii t = true
    · simp [hte, ha] at h; omega
    · simp [hte, ha] at h

theorem stepItemTicksQ_decomposed (sep : UInt8) (ws pre t g tail b : Bytes) (off : Nat) (skip : Bool)
    (hb : b = pre ++ (t ++ (g ++ tail))) (ho : off = pre.length) (hsw : sep ∉ ws)
    (hfree : freeQ sep .out (t ++ g) = true) (hg : ∀ y ∈ g, y ∈ ws)
    (ht : (t = [] ∧ g = []) ∨ ∃ t' x, t = t' ++ [x] ∧ x ∉ ws)
    (htail : TailQ sep (t ++ g) tail) :
    stepItemTicksQ b [sep] ws skip off ≤ 3 * t.length + 5 * g.length + 12 := by
  have htl : ∀ y r', tail = y :: r' → y ∉ ws := by
    intro y r' h
    rcases htail with h0 | ⟨_, r, h0⟩
    · rw [h0] at h; cases h
    · rw [h0] at h; cases h; exact hsw
  have hu := untilTicksQ_decomposed sep ws pre t g tail b off hb ho hfree hg ht htail
  unfold stepItemTicksQ
  rw [show ([sep].map fun x => [x]) = [[sep]] from rfl,
    until_decomposedQ sep ws pre t g tail b off hb ho hfree hg ht htail]
  generalize untilTicksQ b off [[sep]] true ws = U at hu ⊢
  by_cases hte : t = []
  · have hge : g = [] := by
      rcases ht with ⟨_, h⟩ | ⟨t', x, h, _⟩
      · exact h
      · rw [hte] at h; simp at h
    subst hte hge
    have hsk : skipWsTicks b ws off ≤ ([] : Bytes).length + 2 :=
      skipWsTicks_run ws pre [] tail (by simpa using hb) ho (by simp) htl
    generalize skipWsTicks b ws off = K at hsk ⊢
    cases skip <;> simp [asciiText, isAscii] at hu hsk ⊢
    · omega
    · show U + (2 + K) ≤ 12
      omega
  · have hlen : t.length ≠ 0 := by
      cases t with
      | nil => exact absurd rfl hte
      | cons x xs => simp
    by_cases hasc : isAscii t = true
    · have hsl : slice b off (off + t.length) = t := slice_mid' pre t (g ++ tail) hb ho (by rw [ho])
      have hsk : skipWsTicks b ws (off + t.length) ≤ g.length + 2 :=
        skipWsTicks_run ws (pre ++ t) g tail (by simp [hb]) (by simp [ho]) hg htl
      simp [asciiText, hasc, hlen, hsl]
      generalize skipWsTicks b ws (off + t.length) = K at hsk ⊢
      show U + (2 + K) ≤ _
      omega
    · simp [asciiText, hasc]; omega

theorem loop_ticksQ (sep : UInt8) (ws : Bytes) (skip : Bool) (hsw : sep ∉ ws) :
    ∀ (n : Nat) (rest pre b : Bytes) (acc : List Bytes) (fuel : Nat), rest.length ≤ n → b = pre ++ rest →
      (∀ y r', rest = y :: r' → y ∉ ws) →
      arrayLoopTicksQ b [sep] ws skip none fuel pre.length acc ≤ 21 * rest.length + 13 := by
  intro n
  induction n with
  | zero =>
    intro rest pre b acc fuel hn hb hhead
    have hr : rest = [] := List.eq_nil_of_length_eq_zero (by omega)
    subst hr
    cases fuel with
    | zero => simp [arrayLoopTicksQ]
    | succ f =>
      have hit := stepItemTicksQ_decomposed sep ws pre [] [] [] b pre.length skip (by simpa using hb) rfl hsw
        (by rfl) (by simp) (Or.inl ⟨rfl, rfl⟩) (Or.inl rfl)
      have hstep := stepItem_decomposedQ sep ws pre [] [] [] b pre.length acc skip (by simpa using hb) rfl hsw
        (by rfl) (by simp) (Or.inl ⟨rfl, rfl⟩) (Or.inl rfl)
      simp only [if_true] at hstep
      simp only [arrayLoopTicksQ, arrayStepTicksQ, arrayStepQ, hstep]
      generalize stepItemTicksQ b [sep] ws skip pre.length = I at hit ⊢
      cases skip with
      | false => simp at hit ⊢; omega
      | true =>
        simp only [if_true]
        rw [stepSep_end _ _ _ _ _ _ _ (by simp [hb])]
        have : stepSepTicks b [sep] ws true pre.length = 1 := by simp [stepSepTicks, hb]
        rw [this]
        simp at hit ⊢; omega
  | succ n ih =>
    intro rest pre b acc fuel hn hb hhead
    obtain ⟨t, g, tail, hrest, hfree, hth, hg, ht, htail⟩ := decomposeQ sep ws rest hhead
    cases fuel with
    | zero => simp [arrayLoopTicksQ]
    | succ f =>
    have hb' : b = pre ++ (t ++ (g ++ tail)) := by rw [hb, hrest]
    have htail' : TailQ sep (t ++ g) tail := by
      rcases htail with h | ⟨hact, s, w, r3, h, _⟩
      · exact Or.inl h
      · exact Or.inr ⟨hact, _, h⟩
    have hit := stepItemTicksQ_decomposed sep ws pre t g tail b pre.length skip hb' rfl hsw hfree hg ht htail'
    have hoff := stepItemQ_off sep ws pre t g tail b pre.length acc skip hb' rfl hsw hfree hg ht htail'
    have hrl : rest.length = t.length + g.length + tail.length := by rw [hrest]; simp; omega
    simp only [arrayLoopTicksQ, arrayStepTicksQ, arrayStepQ]
    generalize stepItemTicksQ b [sep] ws skip pre.length = I at hit ⊢
    cases hsi : stepItemQ b [sep] ws skip pre.length acc with
    | error e => simp; omega
    | ok r =>
      obtain ⟨acc', off1⟩ := r
      have ho1 := hoff acc' off1 hsi
      subst ho1
      simp only []
      rcases htail with htl | ⟨_, s, w, r3, htl, hs, hws, hw, hr3⟩
      · subst htl
        rw [stepSep_end _ _ _ _ _ _ _ (by simp [hb']; omega)]
        have : stepSepTicks b [sep] ws skip (pre.length + t.length + g.length) = 1 := by
          simp [stepSepTicks, hb']; omega
        rw [this]
        simp at hrl ⊢; omega
      · subst htl
        have hst2 := stepSepTicks_decomposed sep ws (pre ++ (t ++ g)) s w r3 b
          (pre.length + t.length + g.length) skip (by rw [hb']; simp) (by simp; omega) hs hws hw hr3
        have hss := stepSep_decomposed sep ws (pre ++ (t ++ g)) s w r3 b
          (pre.length + t.length + g.length) acc' skip (by rw [hb']; simp) (by simp; omega) hs hws hw hr3
        generalize stepSepTicks b [sep] ws skip (pre.length + t.length + g.length) = P at hst2 ⊢
        rw [hss]
        have hrl' : rest.length = t.length + g.length + 1 + s.length + w.length + r3.length := by
          rw [hrest]; simp; omega
        by_cases hbad : skip = false ∧ s ≠ []
        · simp [hbad]; omega
        · simp only [hbad, if_false]
          by_cases h3 : r3 = []
          · simp [h3]; omega
          · simp only [h3, if_false]
            have := ih r3 (pre ++ (t ++ (g ++ sep :: (s ++ w)))) b acc' f (by omega) (by rw [hb']; simp) hr3
            have hoffeq : (pre ++ (t ++ (g ++ sep :: (s ++ w)))).length =
                pre.length + t.length + g.length + 1 + s.length + w.length := by simp; omega
            rw [hoffeq] at this
            generalize arrayLoopTicksQ b [sep] ws skip none f
              (pre.length + t.length + g.length + 1 + s.length + w.length) acc' = L at this ⊢
            omega

/-- interpreter steps of the quote-aware `_parse_string_array` are linear in the length of the buffer (one more step
per byte than the plain scanner: the state update) -/
theorem array_ticks_linearQ (sep : UInt8) (ws : Bytes) (skip : Bool) (hsw : sep ∉ ws) (b : Bytes) :
    arrayTicksQ b 0 [sep] ws skip none ≤ 21 * b.length + 15 := by
  obtain ⟨w, rest, hb, hw, hrest⟩ := exists_run ws.contains b
  have hw' : ∀ x ∈ w, x ∈ ws := fun x hx => by simpa using hw x hx
  have hrest' : ∀ y r', rest = y :: r' → y ∉ ws := fun y r' h => by simpa using hrest y r' h
  unfold arrayTicksQ
  have hsk := skipWsTicks_run (b := b) (off := 0) ws [] w rest (by simpa using hb) rfl hw' hrest'
  rw [skipWs_run (b := b) (off := 0) ws [] w rest (by simpa using hb) rfl hw' hrest']
  have := loop_ticksQ sep ws skip hsw rest.length rest w b [] (b.length + 1) (Nat.le_refl _) hb hrest'
  simp only [Nat.zero_add]
  generalize skipWsTicks b ws 0 = K at hsk ⊢
  generalize arrayLoopTicksQ b [sep] ws skip none (b.length + 1) w.length [] = L at this ⊢
  have : b.length = w.length + rest.length := by rw [hb]; simp
  omega

end Cp.Text
