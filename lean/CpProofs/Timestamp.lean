import CpModel.Prim
import CpProofs.Num
import CpProofs.Enum
/-
  Laws of `parseTimestamp` / `composeTimestamp` (CpModel/Prim.lean) after the repair that removed the
  32-bit mask: the field value is the instant; all-ones of the field's width is "no instant"; an
  instant later than 9999-12-31T23:59:59(.999)Z is an invalid value.

  Stated once for every byte order, both units and every width the primitive supports, so that the
  users (C11, the SCT of the TLS extension model, the SSH certificate) share them.
-/
namespace Cp

/-- whole seconds of a field value in the unit of the field -/
def tsSeconds (ms : Bool) (v : Nat) : Nat := if ms then v / 1000 else v

/-- closed form of `parseTimestamp` -/
theorem parseTimestamp_eq (bo : ByteOrder) (ms : Bool) (k : Nat) (rest : Bytes) :
    parseTimestamp bo ms k rest =
      match parseNum bo k rest with
      | .error e => .error e
      | .ok (v, n) =>
        if v = 256 ^ k - 1 then .ok (none, n)
        else if maxEpochSeconds < tsSeconds ms v then .error .invalidValue
        else .ok (some v, n) := by
  unfold parseTimestamp tsSeconds
  cases h : parseNum bo k rest with
  | error e => rfl
  | ok r =>
    obtain ⟨v, n⟩ := r
    simp only [bind, Except.bind, pure, Except.pure, beq_iff_eq, gt_iff_lt, throw, throwThe,
      MonadExceptOf.throw]

/-- a field that holds a non-sentinel value inside `datetime`'s range parses to that value -/
theorem parseTimestamp_of_num {bo : ByteOrder} {ms : Bool} {k : Nat} {rest : Bytes} {v n : Nat}
    (h : parseNum bo k rest = .ok (v, n)) (hne : v ≠ 256 ^ k - 1) (hle : tsSeconds ms v ≤ maxEpochSeconds) :
    parseTimestamp bo ms k rest = .ok (some v, n) := by
  rw [parseTimestamp_eq, h]
  simp only [hne, if_false, Nat.not_lt.mpr hle]

/-- the all-ones field parses to "no instant" -/
theorem parseTimestamp_of_num_sentinel {bo : ByteOrder} {ms : Bool} {k : Nat} {rest : Bytes} {n : Nat}
    (h : parseNum bo k rest = .ok (256 ^ k - 1, n)) :
    parseTimestamp bo ms k rest = .ok (none, n) := by
  rw [parseTimestamp_eq, h]
  simp only [if_true]

/-- a field that holds a non-sentinel value beyond `datetime`'s range is an invalid value -/
theorem parseTimestamp_of_num_beyond {bo : ByteOrder} {ms : Bool} {k : Nat} {rest : Bytes} {v n : Nat}
    (h : parseNum bo k rest = .ok (v, n)) (hne : v ≠ 256 ^ k - 1) (hgt : maxEpochSeconds < tsSeconds ms v) :
    parseTimestamp bo ms k rest = .error .invalidValue := by
  rw [parseTimestamp_eq, h]
  simp only [hne, if_false, hgt, if_true]

theorem parseTimestamp_enc {bo : ByteOrder} {ms : Bool} {k v : Nat} (hk : validSize k = true)
    (hv : v < 256 ^ k - 1) (hle : tsSeconds ms v ≤ maxEpochSeconds) (s : Bytes) :
    parseTimestamp bo ms k (encNat bo k v ++ s) = .ok (some v, k) :=
  parseTimestamp_of_num (parseNum_enc hk (by omega) s) (by omega) hle

theorem parseTimestamp_enc_sentinel {bo : ByteOrder} {ms : Bool} {k : Nat} (hk : validSize k = true) (s : Bytes) :
    parseTimestamp bo ms k (encNat bo k (256 ^ k - 1) ++ s) = .ok (none, k) := by
  have hpos : 0 < 256 ^ k := Nat.pow_pos (by decide)
  exact parseTimestamp_of_num_sentinel (parseNum_enc hk (by omega) s)

theorem parseTimestamp_enc_beyond {bo : ByteOrder} {ms : Bool} {k v : Nat} (hk : validSize k = true)
    (hv : v < 256 ^ k - 1) (hgt : maxEpochSeconds < tsSeconds ms v) (s : Bytes) :
    parseTimestamp bo ms k (encNat bo k v ++ s) = .error .invalidValue :=
  parseTimestamp_of_num_beyond (parseNum_enc hk (by omega) s) (by omega) hgt

/-- what a successful parse says: the width was consumed, and the instant — if there is one — is the
field value itself, not the sentinel, inside `datetime`'s range -/
theorem parseTimestamp_ok_inv {bo : ByteOrder} {ms : Bool} {k : Nat} {rest : Bytes} {t : Option Nat} {n : Nat}
    (h : parseTimestamp bo ms k rest = .ok (t, n)) :
    n = k ∧ k ≤ rest.length ∧ validSize k = true ∧
      ∃ v, parseNum bo k rest = .ok (v, k) ∧ t = (if v = 256 ^ k - 1 then none else some v) ∧
        (v ≠ 256 ^ k - 1 → tsSeconds ms v ≤ maxEpochSeconds) := by
  rw [parseTimestamp_eq] at h
  cases hp : parseNum bo k rest with
  | error e => rw [hp] at h; cases h
  | ok r =>
    obtain ⟨v, n'⟩ := r
    rw [hp] at h
    obtain ⟨hn, hlen, _, _, hk⟩ := parseNum_ok_inv hp
    subst hn
    simp only at h
    split at h
    · next hs =>
      cases h
      exact ⟨rfl, hlen, hk, v, rfl, by simp [hs], fun hne => absurd hs hne⟩
    · next hs =>
      split at h
      · cases h
      · next hb =>
        cases h
        exact ⟨rfl, hlen, hk, v, rfl, by simp [hs], fun _ => Nat.not_lt.mp hb⟩

/-- a failed parse is the width check of the number, or the range check of the instant -/
theorem parseTimestamp_err_inv {bo : ByteOrder} {ms : Bool} {k : Nat} {rest : Bytes} {e : PErr}
    (h : parseTimestamp bo ms k rest = .error e) :
    parseNum bo k rest = .error e ∨
      (e = .invalidValue ∧ ∃ v, parseNum bo k rest = .ok (v, k) ∧ v ≠ 256 ^ k - 1 ∧
        maxEpochSeconds < tsSeconds ms v) := by
  rw [parseTimestamp_eq] at h
  cases hp : parseNum bo k rest with
  | error e' => rw [hp] at h; cases h; exact .inl rfl
  | ok r =>
    obtain ⟨v, n'⟩ := r
    rw [hp] at h
    obtain ⟨hn, _⟩ := parseNum_ok_inv hp
    subst hn
    simp only at h
    split at h
    · cases h
    · next hs =>
      split at h
      · next hb => cases h; exact .inr ⟨rfl, v, rfl, hs, hb⟩
      · cases h

/-- an instant of `datetime`'s range fits eight bytes and is not their all-ones value, in either unit -/
theorem tsSeconds_le_fits8 {ms : Bool} {v : Nat} (h : tsSeconds ms v ≤ maxEpochSeconds) : v < 256 ^ 8 - 1 := by
  unfold tsSeconds maxEpochSeconds at h
  cases ms <;> simp only [if_true, if_false, Bool.false_eq_true] at h <;> omega

end Cp
