import CpModel.Reader
import CpProofs.Enum
/-
  CpProofs.Reader — property C04, generic part.
-/
namespace Cp.Reader
open Cp Cp.Codec

variable {α : Type}

/-! ### unfolding the loop -/

theorem loop_succ_failed (c : Codec α) (fuel : Nat) (st : RState α) (e : PErr)
    (hf : st.failed = some e) : loop c (fuel + 1) st = st := by
  simp only [loop, hf]

theorem loop_succ_stop (c : Codec α) (fuel : Nat) (st : RState α)
    (h : st.buf = [] ∨ st.buf.length < st.want) : loop c (fuel + 1) st = st := by
  unfold loop
  split
  · rfl
  · have : (st.buf.isEmpty || decide (st.buf.length < st.want)) = true := by
      rcases h with h | h
      · simp [h]
      · simp [h]
    simp only [this, if_true]

theorem loop_succ_go (c : Codec α) (fuel : Nat) (st : RState α) (hf : st.failed = none)
    (hne : st.buf ≠ []) (hw : st.want ≤ st.buf.length) :
    loop c (fuel + 1) st =
      match c.parse st.buf with
      | .ok (v, n) =>
        if n = 0 then { st with failed := some (.crash "NonTermination") }
        else loop c fuel { buf := st.buf.drop n, want := wantInit, out := st.out ++ [v], failed := none }
      | .error (.notEnough m) => { st with want := st.buf.length + m.toNat }
      | .error e => { st with failed := some e } := by
  have hc : (st.buf.isEmpty || decide (st.buf.length < st.want)) = false := by
    have : ¬ st.buf.length < st.want := by omega
    simp [hne, this]
  conv => lhs; unfold loop
  simp only [hf, hc]
  rfl


/-- The successful iteration is `parse_mutable`: value out, consumed bytes deleted from the buffer;
a failed call leaves the buffer as it was. -/
theorem parseMutable_ok {c : Codec α} {b : Bytes} {v : α} {n : Nat} (h : c.parse b = .ok (v, n)) :
    parseMutable c b = (.ok v, b.drop n) := by
  simp only [parseMutable, h]

theorem parseMutable_error {c : Codec α} {b : Bytes} {e : PErr} (h : c.parse b = .error e) :
    parseMutable c b = (.error e, b) := by
  simp only [parseMutable, h]

/-! ### the fuel is enough -/

/-- Beyond `buf.length + 1` iterations the fuel plays no role: the loop has stopped by itself. -/
theorem loop_fuel (c : Codec α) : ∀ (f g : Nat) (st : RState α),
    st.buf.length < f → st.buf.length < g → loop c f st = loop c g st := by
  intro f
  induction f with
  | zero => intro g st h; omega
  | succ f ih =>
    intro g st hf hg
    cases g with
    | zero => omega
    | succ g =>
      cases hfail : st.failed with
      | some e => rw [loop_succ_failed c f st e hfail, loop_succ_failed c g st e hfail]
      | none =>
        by_cases hstop : st.buf = [] ∨ st.buf.length < st.want
        · rw [loop_succ_stop c f st hstop, loop_succ_stop c g st hstop]
        · have hne : st.buf ≠ [] := fun h => hstop (Or.inl h)
          have hw : st.want ≤ st.buf.length := by omega
          rw [loop_succ_go c f st hfail hne hw, loop_succ_go c g st hfail hne hw]
          have hlen : 0 < st.buf.length := List.length_pos_iff.mpr hne
          split
          · next v n _ =>
            by_cases hn : n = 0
            · simp only [hn, if_true]
            · simp only [hn, if_false]
              apply ih
              · simp only [List.length_drop]; omega
              · simp only [List.length_drop]; omega
          · rfl
          · rfl

/-- `feed` could have been given any larger fuel. -/
theorem feed_fuel (c : Codec α) (st : RState α) (chunk : Bytes) (g : Nat)
    (hg : st.buf.length + chunk.length < g) :
    feed c st chunk = loop c g { st with buf := st.buf ++ chunk } := by
  unfold feed
  apply loop_fuel
  · simp only [List.length_append]; omega
  · simp only [List.length_append]; omega

/-! ### encodings -/

theorem encOf_of_compose {c : Codec α} {v : α} {b : Bytes} (h : c.compose v = .ok b) :
    encOf c v = b := by
  simp only [encOf, h]

@[simp] theorem enc_nil (c : Codec α) : enc c [] = [] := rfl

@[simp] theorem enc_cons (c : Codec α) (r : α) (t : List α) :
    enc c (r :: t) = encOf c r ++ enc c t := by
  simp only [enc, List.map_cons, List.flatten_cons]

theorem enc_append (c : Codec α) (a b : List α) : enc c (a ++ b) = enc c a ++ enc c b := by
  simp only [enc, List.map_append, List.flatten_append]

/-- What the three hypotheses say about one well-formed record, in terms of `encOf`. -/
theorem rec_facts {c : Codec α} {wf : α → Prop} (h₁ : c.RoundTrip wf) (h₂ : c.PrefixReject wf)
    (hpos : ∀ v b, wf v → c.compose v = .ok b → 0 < b.length) {r : α} (hr : wf r) :
    c.compose r = .ok (encOf c r) ∧ 0 < (encOf c r).length ∧
    (∀ s, c.parse (encOf c r ++ s) = .ok (r, (encOf c r).length)) ∧
    (∀ k, k < (encOf c r).length → ∃ m : Nat,
      c.parse ((encOf c r).take k) = .error (.notEnough m) ∧ 1 ≤ m ∧ m ≤ (encOf c r).length - k) := by
  obtain ⟨b, hb, hp⟩ := h₁ r hr
  have he : encOf c r = b := encOf_of_compose hb
  rw [he]
  exact ⟨hb, hpos r b hr hb, hp, h₂ r b hr hb⟩


/-! ### never accepts a proper prefix -/

/-- A proper prefix of a composed record is never taken for a complete record. -/
theorem never_accepts_proper_prefix {c : Codec α} {wf : α → Prop} (h₂ : c.PrefixReject wf)
    (v : α) (b : Bytes) (hv : wf v) (hb : c.compose v = .ok b) (k : Nat) (hk : k < b.length) :
    ∀ v' n, c.parse (b.take k) ≠ .ok (v', n) := by
  intro v' n h
  obtain ⟨m, hm, _⟩ := h₂ v b hv hb k hk
  rw [hm] at h
  cases h

/-! ### the exact-pull reader -/

/-- Holding `got ≤ |b|` bytes of `b ++ rest` and pulling exactly the reported missing count each
time, the reader arrives at exactly `|b|` bytes, never holds more than `|b|` on the way, holds
strictly more after every pull, and at `|b|` the parse succeeds with `(v, |b|)`.
`|b| - got + 1` parser calls are enough. -/
theorem exact_pull_reaches_record {c : Codec α} {wf : α → Prop}
    (h₁ : c.RoundTrip wf) (h₂ : c.PrefixReject wf)
    (v : α) (b : Bytes) (hv : wf v) (hb : c.compose v = .ok b) (rest : Bytes) :
    ∀ (fuel got : Nat), got ≤ b.length → b.length - got < fuel →
      (pull c (b ++ rest) fuel got).result = some (.ok (v, b.length))
      ∧ (∀ x ∈ (pull c (b ++ rest) fuel got).trace, got ≤ x ∧ x ≤ b.length)
      ∧ (pull c (b ++ rest) fuel got).trace.getLast? = some b.length
      ∧ (pull c (b ++ rest) fuel got).trace.Pairwise (· < ·) := by
  obtain ⟨b', hb', hp⟩ := h₁ v hv
  have hbb : b' = b := by rw [hb] at hb'; cases hb'; rfl
  subst hbb
  intro fuel
  induction fuel with
  | zero => intro got _ h; omega
  | succ fuel ih =>
    intro got hle hfuel
    have htake : (b' ++ rest).take got = b'.take got := List.take_append_of_le_length hle
    by_cases hlt : got < b'.length
    · obtain ⟨m, hm, hm1, hm2⟩ := h₂ v b' hv hb got hlt
      have hstep : pull c (b' ++ rest) (fuel + 1) got =
          { trace := got :: (pull c (b' ++ rest) fuel (got + m)).trace,
            result := (pull c (b' ++ rest) fuel (got + m)).result } := by
        conv => lhs; unfold pull
        rw [htake, hm]
        simp only [Int.toNat_natCast]
      obtain ⟨i1, i2, i3, i4⟩ := ih (got + m) (by omega) (by omega)
      rw [hstep]
      refine ⟨i1, ?_, ?_, ?_⟩
      · intro x hx
        rcases List.mem_cons.mp hx with hx | hx
        · subst hx; omega
        · have := i2 x hx; omega
      · cases htr : (pull c (b' ++ rest) fuel (got + m)).trace with
        | nil => rw [htr] at i3; simp at i3
        | cons y ys => rw [htr] at i3; simpa [List.getLast?_cons_cons] using i3
      · refine List.pairwise_cons.mpr ⟨?_, i4⟩
        intro x hx
        have := i2 x hx; omega
    · have hge : got = b'.length := by omega
      have hparse : c.parse ((b' ++ rest).take got) = .ok (v, b'.length) := by
        rw [htake, hge, List.take_length]
        simpa using hp []
      have hstep : pull c (b' ++ rest) (fuel + 1) got =
          { trace := [got], result := some (.ok (v, b'.length)) } := by
        conv => lhs; unfold pull
        rw [hparse]
      rw [hstep]
      refine ⟨rfl, ?_, ?_, ?_⟩
      · intro x hx
        have : x = got := by simpa using hx
        omega
      · simp [hge]
      · simp


/-! ### the chunk-driven reader: invariant -/

/-- The reader's `want` is at least one byte and at most the length of the record in progress
(the first record not yet delivered), counted from the start of that record. -/
def WantOk (c : Codec α) (st : RState α) (todo : List α) : Prop :=
  1 ≤ st.want ∧ ∀ r t, todo = r :: t → st.want ≤ (encOf c r).length

/-- two byte strings with a common continuation: the shorter is a prefix of the longer -/
theorem split_lt {x y p q : Bytes} (h : x ++ p = y ++ q) (hl : x.length < y.length) :
    x = y.take x.length := by
  have := congrArg (List.take x.length) h
  rw [List.take_left, List.take_append_of_le_length (by omega)] at this
  exact this

theorem split_ge {x y p q : Bytes} (h : x ++ p = y ++ q) (hl : y.length ≤ x.length) :
    x = y ++ x.drop y.length ∧ x.drop y.length ++ p = q := by
  have h1 := congrArg (List.take y.length) h
  rw [List.take_left, List.take_append_of_le_length hl] at h1
  have h2 := congrArg (List.drop y.length) h
  rw [List.drop_left, List.drop_append_of_le_length hl] at h2
  refine ⟨?_, h2⟩
  conv => lhs; rw [← List.take_append_drop y.length x, h1]

/-- The loop, started on a buffer that is a prefix of the encoding of the records still to come,
delivers some more of them (`d`), in order, and stops in a waiting state whose `want` does not
exceed the record then in progress. -/
theorem loop_spec {c : Codec α} {wf : α → Prop} (h₁ : c.RoundTrip wf) (h₂ : c.PrefixReject wf)
    (hpos : ∀ v b, wf v → c.compose v = .ok b → 0 < b.length) :
    ∀ (fuel : Nat) (st : RState α) (todo : List α) (rem : Bytes),
      (∀ r ∈ todo, wf r) → st.failed = none → st.buf ++ rem = enc c todo → WantOk c st todo →
      st.buf.length < fuel →
      ∃ d t, todo = d ++ t ∧ (loop c fuel st).out = st.out ++ d ∧ (loop c fuel st).failed = none
        ∧ (loop c fuel st).buf ++ rem = enc c t ∧ WantOk c (loop c fuel st) t
        ∧ (loop c fuel st).buf.length < (loop c fuel st).want := by
  intro fuel
  induction fuel with
  | zero => intro st todo rem _ _ _ _ h; omega
  | succ fuel ih =>
    intro st todo rem hwf hfail hbuf hwant hfuel
    by_cases hstop : st.buf = [] ∨ st.buf.length < st.want
    · rw [loop_succ_stop c fuel st hstop]
      refine ⟨[], todo, rfl, by simp, hfail, hbuf, hwant, ?_⟩
      rcases hstop with h | h
      · rw [h]; exact hwant.1
      · exact h
    · have hne : st.buf ≠ [] := fun h => hstop (Or.inl h)
      have hw : st.want ≤ st.buf.length := by omega
      have hlen : 0 < st.buf.length := List.length_pos_iff.mpr hne
      rw [loop_succ_go c fuel st hfail hne hw]
      cases todo with
      | nil =>
        exfalso
        rw [enc_nil] at hbuf
        exact hne (List.append_eq_nil_iff.mp hbuf).1
      | cons r t =>
        have hr : wf r := hwf r (List.mem_cons_self)
        obtain ⟨_, hb0, hok, hrej⟩ := rec_facts h₁ h₂ hpos hr
        rw [enc_cons] at hbuf
        by_cases hlt : st.buf.length < (encOf c r).length
        · -- the buffer is a proper prefix of the record in progress
          have hpre := split_lt hbuf hlt
          obtain ⟨m, hm, hm1, hm2⟩ := hrej st.buf.length hlt
          rw [← hpre] at hm
          rw [hm]
          simp only [Int.toNat_natCast]
          refine ⟨[], r :: t, rfl, by simp, hfail, by rw [enc_cons]; exact hbuf, ⟨?_, ?_⟩, ?_⟩
          · show 1 ≤ st.buf.length + m
            omega
          · intro r' t' he
            cases he
            show st.buf.length + m ≤ _
            omega
          · show st.buf.length < st.buf.length + m
            omega
        · -- the buffer holds the whole record in progress
          obtain ⟨hsplit, hrest⟩ := split_ge hbuf (by omega)
          have hparse : c.parse st.buf = .ok (r, (encOf c r).length) := by
            rw [hsplit]; exact hok _
          rw [hparse]
          have hn0 : ¬ (encOf c r).length = 0 := by omega
          simp only [hn0, if_false]
          have hwant' : WantOk c
              { buf := st.buf.drop (encOf c r).length, want := wantInit, out := st.out ++ [r],
                failed := none } t := by
            refine ⟨Nat.le_refl 1, ?_⟩
            intro r' t' he
            have hr' : wf r' := hwf r' (by rw [he]; simp)
            exact (rec_facts h₁ h₂ hpos hr').2.1
          obtain ⟨d, t', e1, e2, e3, e4, e5, e6⟩ :=
            ih { buf := st.buf.drop (encOf c r).length, want := wantInit, out := st.out ++ [r],
                 failed := none } t rem
              (fun x hx => hwf x (List.mem_cons_of_mem _ hx)) rfl hrest hwant'
              (by simp only [List.length_drop]; omega)
          refine ⟨r :: d, t', by rw [e1]; rfl, ?_, e3, e4, e5, e6⟩
          rw [e2]; simp


/-- The state of the reader between two fragments, relative to the records already delivered
(`done`), the records still to come (`todo`, its head is the record in progress) and the bytes of
the stream that have not arrived yet (`rem`). -/
structure Inv (c : Codec α) (st : RState α) (done todo : List α) (rem : Bytes) : Prop where
  failed : st.failed = none
  out : st.out = done
  /-- the buffer is exactly the part already received of the records still to come -/
  buf : st.buf ++ rem = enc c todo
  wantOk : WantOk c st todo
  /-- the reader is waiting: it asked for more than it holds -/
  waiting : st.buf.length < st.want

theorem init_inv {c : Codec α} {wf : α → Prop} (h₁ : c.RoundTrip wf) (h₂ : c.PrefixReject wf)
    (hpos : ∀ v b, wf v → c.compose v = .ok b → 0 < b.length)
    (rs : List α) (hwf : ∀ r ∈ rs, wf r) : Inv c (init : RState α) [] rs (enc c rs) where
  failed := rfl
  out := rfl
  buf := rfl
  wantOk := by
    refine ⟨Nat.le_refl 1, ?_⟩
    intro r t he
    exact (rec_facts h₁ h₂ hpos (hwf r (by rw [he]; simp))).2.1
  waiting := Nat.zero_lt_one

theorem feed_inv {c : Codec α} {wf : α → Prop} (h₁ : c.RoundTrip wf) (h₂ : c.PrefixReject wf)
    (hpos : ∀ v b, wf v → c.compose v = .ok b → 0 < b.length)
    (st : RState α) (done todo : List α) (chunk rem : Bytes) (hwf : ∀ r ∈ todo, wf r)
    (hinv : Inv c st done todo (chunk ++ rem)) :
    ∃ d t, todo = d ++ t ∧ Inv c (feed c st chunk) (done ++ d) t rem := by
  obtain ⟨d, t, e1, e2, e3, e4, e5, e6⟩ :=
    loop_spec h₁ h₂ hpos (st.buf.length + chunk.length + 1) { st with buf := st.buf ++ chunk }
      todo rem hwf hinv.failed (by rw [← hinv.buf]; simp) hinv.wantOk
      (by simp only [List.length_append]; omega)
  refine ⟨d, t, e1, ?_⟩
  exact { failed := e3, out := by rw [← hinv.out]; exact e2, buf := e4, wantOk := e5, waiting := e6 }

theorem foldl_feed_inv {c : Codec α} {wf : α → Prop} (h₁ : c.RoundTrip wf) (h₂ : c.PrefixReject wf)
    (hpos : ∀ v b, wf v → c.compose v = .ok b → 0 < b.length) (rem : Bytes) :
    ∀ (pre : List Bytes) (st : RState α) (done todo : List α), (∀ r ∈ todo, wf r) →
      Inv c st done todo (pre.flatten ++ rem) →
      ∃ d t, todo = d ++ t ∧ Inv c (pre.foldl (feed c) st) (done ++ d) t rem := by
  intro pre
  induction pre with
  | nil =>
    intro st done todo _ hinv
    exact ⟨[], todo, rfl, by simpa using hinv⟩
  | cons ch pre ih =>
    intro st done todo hwf hinv
    rw [List.flatten_cons, List.append_assoc] at hinv
    obtain ⟨d1, t1, e1, i1⟩ := feed_inv h₁ h₂ hpos st done todo ch (pre.flatten ++ rem) hwf hinv
    have hwf1 : ∀ r ∈ t1, wf r := fun r hr => hwf r (by rw [e1]; exact List.mem_append_right _ hr)
    obtain ⟨d2, t2, e2, i2⟩ := ih (feed c st ch) (done ++ d1) t1 hwf1 i1
    refine ⟨d1 ++ d2, t2, by rw [e1, e2, List.append_assoc], ?_⟩
    rw [List.foldl_cons, ← List.append_assoc]
    exact i2

/-! ### the theorems of C04 -/

section main
variable {c : Codec α} {wf : α → Prop} (h₁ : c.RoundTrip wf) (h₂ : c.PrefixReject wf)
  (hpos : ∀ v b, wf v → c.compose v = .ok b → 0 < b.length)
include h₁ h₂ hpos

/-- **The reader never over-asks.**  Cut the chunk sequence anywhere: `pre` has been fed, `post`
is still to come.  Then the records split into those delivered (`done`, exactly `out`) and those
still to come (`todo`); nothing failed; the buffer holds exactly the bytes received after the end
of the last delivered record; the reader is waiting (`buf.length < want`); and the total it waits
for, counted from the start of the record in progress, does not exceed the length of that
record — so it never waits for a byte the sender is not going to write for this record. -/
theorem reader_never_overasks (rs : List α) (hwf : ∀ r ∈ rs, wf r) (pre post : List Bytes)
    (hchunks : (pre ++ post).flatten = enc c rs) :
    ∃ done todo, rs = done ++ todo
      ∧ (pre.foldl (feed c) init).out = done
      ∧ (pre.foldl (feed c) init).failed = none
      ∧ enc c done ++ (pre.foldl (feed c) init).buf = pre.flatten
      ∧ (pre.foldl (feed c) init).buf ++ post.flatten = enc c todo
      ∧ (pre.foldl (feed c) init).buf.length < (pre.foldl (feed c) init).want
      ∧ (∀ r t, todo = r :: t → (pre.foldl (feed c) init).want ≤ (encOf c r).length) := by
  have h0 := init_inv h₁ h₂ hpos rs hwf
  rw [← hchunks, List.flatten_append] at h0
  obtain ⟨d, t, e, i⟩ := foldl_feed_inv h₁ h₂ hpos post.flatten pre init [] rs hwf h0
  refine ⟨d, t, e, by simpa using i.out, i.failed, ?_, i.buf, i.waiting, i.wantOk.2⟩
  have h := hchunks
  rw [e, enc_append, List.flatten_append, ← i.buf, ← List.append_assoc] at h
  exact (List.append_cancel_right h).symm

/-- The same, with the cut given by an index into the chunk sequence. -/
theorem reader_never_overasks_at (rs : List α) (hwf : ∀ r ∈ rs, wf r) (chunks : List Bytes)
    (hchunks : chunks.flatten = enc c rs) (i : Nat) :
    ∃ done todo, rs = done ++ todo
      ∧ ((chunks.take i).foldl (feed c) init).out = done
      ∧ ((chunks.take i).foldl (feed c) init).failed = none
      ∧ enc c done ++ ((chunks.take i).foldl (feed c) init).buf = (chunks.take i).flatten
      ∧ ((chunks.take i).foldl (feed c) init).buf ++ (chunks.drop i).flatten = enc c todo
      ∧ ((chunks.take i).foldl (feed c) init).buf.length < ((chunks.take i).foldl (feed c) init).want
      ∧ (∀ r t, todo = r :: t →
          ((chunks.take i).foldl (feed c) init).want ≤ (encOf c r).length) :=
  reader_never_overasks h₁ h₂ hpos rs hwf (chunks.take i) (chunks.drop i)
    (by rw [List.take_append_drop]; exact hchunks)

/-- **The reader cannot block forever.**  As long as the stream has not been delivered entirely,
the number of further bytes the reader waits for (`want - buf.length`) is at least one and at most
the number of bytes still to arrive: delivering the rest of the stream always wakes it up. -/
theorem reader_wait_is_satisfiable (rs : List α) (hwf : ∀ r ∈ rs, wf r) (pre post : List Bytes)
    (hchunks : (pre ++ post).flatten = enc c rs) (hmore : post.flatten ≠ []) :
    (pre.foldl (feed c) init).buf.length < (pre.foldl (feed c) init).want
    ∧ (pre.foldl (feed c) init).want ≤ (pre.foldl (feed c) init).buf.length + post.flatten.length := by
  obtain ⟨d, t, _, _, _, _, hbuf, hwait, hwant⟩ :=
    reader_never_overasks h₁ h₂ hpos rs hwf pre post hchunks
  refine ⟨hwait, ?_⟩
  cases t with
  | nil =>
    exfalso
    rw [enc_nil] at hbuf
    exact hmore (List.append_eq_nil_iff.mp hbuf).2
  | cons r t =>
    have h1 := hwant r t rfl
    have h2 := congrArg List.length hbuf
    rw [enc_cons] at h2
    simp only [List.length_append] at h2
    omega

/-- **The reader reassembles the stream.**  Whatever the fragmentation, after the last fragment
exactly the original records have been delivered, in order, the buffer is empty and nothing
failed. -/
theorem reader_reassembles (rs : List α) (hwf : ∀ r ∈ rs, wf r) (chunks : List Bytes)
    (hchunks : chunks.flatten = enc c rs) :
    (chunks.foldl (feed c) init).out = rs
    ∧ (chunks.foldl (feed c) init).buf = []
    ∧ (chunks.foldl (feed c) init).failed = none := by
  obtain ⟨d, t, e, hout, hfail, _, hbuf, hwait, hwant⟩ :=
    reader_never_overasks h₁ h₂ hpos rs hwf chunks [] (by simpa using hchunks)
  simp only [List.flatten_nil, List.append_nil] at hbuf
  cases t with
  | nil =>
    rw [enc_nil] at hbuf
    exact ⟨by rw [hout, e, List.append_nil], hbuf, hfail⟩
  | cons r t =>
    exfalso
    have h1 := hwant r t rfl
    have h2 := congrArg List.length hbuf
    rw [enc_cons] at h2
    simp only [List.length_append] at h2
    omega

/-- **Fragmentation independence.**  Two ways of cutting the same stream of records deliver the
same records. -/
theorem reader_fragmentation_independent (rs : List α) (hwf : ∀ r ∈ rs, wf r)
    (chunks₁ chunks₂ : List Bytes) (hc₁ : chunks₁.flatten = enc c rs)
    (hc₂ : chunks₂.flatten = chunks₁.flatten) :
    (chunks₁.foldl (feed c) init).out = (chunks₂.foldl (feed c) init).out := by
  rw [(reader_reassembles h₁ h₂ hpos rs hwf chunks₁ hc₁).1,
    (reader_reassembles h₁ h₂ hpos rs hwf chunks₂ (hc₂.trans hc₁)).1]

end main

/-! ### non-vacuity: the 2-byte length-prefixed opaque string -/

/-- `parse_bytes(name, 2)` / `compose_bytes(value, 2)` in network byte order -/
def opaque16 : Codec Bytes := Codec.bytesPrefixed .network 2

def opaque16Wf (v : Bytes) : Prop := v.length < 65536

theorem opaque16_compose (v : Bytes) (hv : opaque16Wf v) :
    opaque16.compose v = .ok (encNat .network 2 v.length ++ v) := by
  have hc : composeNum .network 2 (v.length : Int) = .ok (encNat .network 2 v.length) :=
    composeNum_ok (by decide) (by unfold opaque16Wf at hv; omega)
  show composeBytes .network 2 v = _
  unfold composeBytes
  rw [hc]
  rfl

theorem opaque16_roundTrip : opaque16.RoundTrip opaque16Wf := by
  intro v hv
  refine ⟨_, opaque16_compose v hv, ?_⟩
  intro s
  have hlt : v.length < 256 ^ 2 := by unfold opaque16Wf at hv; omega
  show parseBytes .network 2 ((encNat .network 2 v.length ++ v) ++ s) = _
  unfold parseBytes
  rw [List.append_assoc, parseNum_enc (by decide) hlt]
  have hraw : parseRaw (v.length : Int) (v ++ s) = .ok (v, v.length) := by
    unfold parseRaw
    have h1 : ¬ ((v.length : Int) < 0) := by omega
    simp [h1]
  have hdrop : (encNat .network 2 v.length ++ (v ++ s)).drop 2 = v ++ s := by
    have := List.drop_left (l₁ := encNat .network 2 v.length) (l₂ := v ++ s)
    rwa [encNat_length] at this
  show (do
    let (body, m) ← parseRaw ((v.length : Nat) : Int) ((encNat .network 2 v.length ++ (v ++ s)).drop 2)
    pure (body, 2 + m)) = _
  rw [hdrop, hraw]
  simp only [List.length_append, encNat_length]
  rfl

theorem opaque16_prefixReject : opaque16.PrefixReject opaque16Wf := by
  intro v b hv hb k hk
  rw [opaque16_compose v hv] at hb
  cases hb
  have hlt : v.length < 256 ^ 2 := by unfold opaque16Wf at hv; omega
  simp only [List.length_append, encNat_length] at hk
  show ∃ m : Nat, parseBytes .network 2 _ = _ ∧ _
  by_cases hk2 : k < 2
  · -- cut inside the length prefix
    refine ⟨2 - k, ?_, by omega, by simp only [List.length_append, encNat_length]; omega⟩
    have hlen : ((encNat ByteOrder.network 2 v.length ++ v).take k).length = k := by
      simp only [List.length_take, List.length_append, encNat_length]; omega
    unfold parseBytes parseNum
    simp only [hlen, hk2, if_true]
    rfl
  · -- cut inside the body
    refine ⟨v.length - (k - 2), ?_, by omega, by simp only [List.length_append, encNat_length]; omega⟩
    have htake : (encNat ByteOrder.network 2 v.length ++ v).take k
        = encNat ByteOrder.network 2 v.length ++ v.take (k - 2) := by
      rw [List.take_append, encNat_length, List.take_of_length_le (by simp; omega)]
    unfold parseBytes
    rw [htake, parseNum_enc (by decide) hlt]
    have hdrop : (encNat .network 2 v.length ++ v.take (k - 2)).drop 2 = v.take (k - 2) := by
      have := List.drop_left (l₁ := encNat .network 2 v.length) (l₂ := v.take (k - 2))
      rwa [encNat_length] at this
    show (do
      let (body, m) ← parseRaw ((v.length : Nat) : Int) ((encNat .network 2 v.length ++ v.take (k - 2)).drop 2)
      pure (body, 2 + m)) = _
    rw [hdrop]
    unfold parseRaw
    have h1 : ¬ ((v.length : Int) < 0) := by omega
    have h2 : (v.take (k - 2)).length = k - 2 := by simp only [List.length_take]; omega
    have h3 : k - 2 < v.length := by omega
    simp only [h1, if_false, h2, Int.toNat_natCast, h3, if_true]
    have : ((v.length : Int) - ((k - 2 : Nat) : Int)) = ((v.length - (k - 2) : Nat) : Int) := by omega
    rw [this]
    rfl

theorem opaque16_pos : ∀ v b, opaque16Wf v → opaque16.compose v = .ok b → 0 < b.length := by
  intro v b hv hb
  rw [opaque16_compose v hv] at hb
  cases hb
  simp only [List.length_append, encNat_length]
  omega

/-- `reader_reassembles` for a concrete codec: the hypotheses of the generic theorems are
satisfiable. -/
theorem opaque16_reader_reassembles (rs : List Bytes) (hwf : ∀ r ∈ rs, r.length < 65536)
    (chunks : List Bytes) (hchunks : chunks.flatten = enc opaque16 rs) :
    (chunks.foldl (feed opaque16) init).out = rs
    ∧ (chunks.foldl (feed opaque16) init).buf = []
    ∧ (chunks.foldl (feed opaque16) init).failed = none :=
  reader_reassembles opaque16_roundTrip opaque16_prefixReject opaque16_pos rs hwf chunks hchunks

/-- Two records, `01 02 03` and the empty string, on the wire `00 03 01 02 03 00 00`, delivered one
byte at a time. -/
example :
    let st := run opaque16 [[0], [3], [1], [2], [3], [0], [0]]
    st.out = [[1, 2, 3], []] ∧ st.buf = [] ∧ st.want = 1 ∧ st.failed = none := by
  decide

/-- The values of `want` along the way: 2 (one byte of the prefix held), then 5 (prefix read: three
more), then back to 1 after delivery. -/
example :
    ([[0], [3], [1], [2], [3], [0], [0]].scanl (feed opaque16) init).map (·.want)
      = [1, 2, 5, 5, 5, 1, 2, 1] := by
  decide

/-- The same stream cut differently, and the exact-pull reader on it. -/
example :
    (run opaque16 [[0, 3, 1, 2], [], [3, 0], [0]]).out = [[1, 2, 3], []]
    ∧ (pull opaque16 [0, 3, 1, 2, 3, 0, 0] 6 0).trace = [0, 2, 5]
    ∧ (pull opaque16 [0, 3, 1, 2, 3, 0, 0] 6 0).result = some (.ok ([1, 2, 3], 5)) := by
  decide

end Cp.Reader
