import CpProofs.Ssh.Banner
import CpProofs.Ssh.NameList
/- Round trip of the identification string (protocol versions 2.0 and 1.99, opaque software version). -/
namespace Cp.Ssh
open Cp Cp.Codec

theorem takeWhile_append_all {α : Type} (p : α → Bool) (a b : List α) (h : ∀ x ∈ a, p x = true) :
    (a ++ b).takeWhile p = a ++ b.takeWhile p := by
  induction a with
  | nil => rfl
  | cons x xs ih =>
    have hx := h x (by simp)
    simp only [List.cons_append, List.takeWhile_cons, hx, if_true]
    rw [ih (fun y hy => h y (by simp [hy]))]

/-! ### `split(' ')` and `' '.join` -/

theorem splitOnSpace_ne_nil (l : Bytes) : splitOnSpace l ≠ [] := by
  cases l with
  | nil => simp [splitOnSpace]
  | cons x xs =>
    simp only [splitOnSpace]
    split
    · simp
    · split <;> simp

theorem join_splitOnSpace (l : Bytes) : joinItems 0x20 (splitOnSpace l) = l := by
  induction l with
  | nil => rfl
  | cons x xs ih =>
    simp only [splitOnSpace]
    cases hs : splitOnSpace xs with
    | nil => exact absurd hs (splitOnSpace_ne_nil xs)
    | cons p ps =>
      rw [hs] at ih
      simp only []
      by_cases hx : x = 0x20
      · subst hx
        simp only [beq_self_eq_true, if_true, joinItems, List.nil_append]
        rw [ih]
      · have hb : (x == 0x20) = false := by simpa using hx
        simp only [hb, Bool.false_eq_true, if_false]
        cases ps with
        | nil => simp only [joinItems] at ih ⊢; rw [ih]
        | cons q qs => simp only [joinItems, List.cons_append] at ih ⊢; rw [ih]

theorem splitOnSpace_noSpace_append (raw : Bytes) (h : ∀ x ∈ raw, x ≠ 0x20) (y : Bytes) :
    splitOnSpace (raw ++ 0x20 :: y) = raw :: splitOnSpace y := by
  induction raw with
  | nil =>
    simp only [List.nil_append, splitOnSpace]
    cases hs : splitOnSpace y with
    | nil => exact absurd hs (splitOnSpace_ne_nil y)
    | cons p ps => simp
  | cons x xs ih =>
    have hx : (x == 0x20) = false := by simpa using h x (by simp)
    simp only [List.cons_append, splitOnSpace, ih (fun z hz => h z (by simp [hz])), hx, Bool.false_eq_true, if_false]

/-- a text that ends in CR: stripping the CR from the last piece gives the pieces of the text without it -/
theorem splitOnSpace_cr (t : Bytes) :
    ((splitOnSpace (t ++ [0x0d])).getLastD []).getLast? = some 0x0d ∧
    (splitOnSpace (t ++ [0x0d])).dropLast ++ [((splitOnSpace (t ++ [0x0d])).getLastD []).dropLast] = splitOnSpace t := by
  induction t with
  | nil => decide
  | cons x xs ih =>
    obtain ⟨ih1, ih2⟩ := ih
    simp only [List.cons_append, splitOnSpace]
    cases hs : splitOnSpace (xs ++ [0x0d]) with
    | nil => exact absurd hs (splitOnSpace_ne_nil _)
    | cons p ps =>
      rw [hs] at ih1 ih2
      cases ht : splitOnSpace xs with
      | nil => exact absurd ht (splitOnSpace_ne_nil _)
      | cons q qs =>
        rw [ht] at ih2
        simp only []
        by_cases hx : x = 0x20
        · subst hx
          simp only [beq_self_eq_true, if_true]
          refine ⟨by simpa [List.getLastD_cons] using ih1, ?_⟩
          have : ([] :: p :: ps).dropLast = [] :: (p :: ps).dropLast := by simp [List.dropLast]
          rw [this]
          simp only [List.getLastD_cons, List.cons_append]
          simp only [List.getLastD_cons] at ih2
          rw [ih2]
        · have hb : (x == 0x20) = false := by simpa using hx
          simp only [hb, Bool.false_eq_true, if_false]
          cases ps with
          | nil =>
            simp only [List.getLastD_cons, List.getLastD_nil, List.dropLast_singleton, List.nil_append] at ih1 ih2 ⊢
            have hp : p ≠ [] := by intro hp; subst hp; simp at ih1
            simp only [List.cons.injEq] at ih2
            obtain ⟨ih2a, ih2b⟩ := ih2
            subst ih2b
            refine ⟨?_, ?_⟩
            · rw [List.getLast?_cons_of_ne_nil hp] <;> exact ih1
            · simp [List.dropLast_cons_of_ne_nil hp, ih2a]
          | cons r rs =>
            simp only [List.getLastD_cons, List.dropLast_cons_cons, List.cons_append] at ih1 ih2 ⊢
            simp only [List.cons.injEq] at ih2
            exact ⟨ih1, by rw [← ih2.1, ← ih2.2]⟩

/-! ### the two protocol versions in use -/

theorem bannerVersion_2_0 (rest : Bytes) :
    bannerVersion (digitsOfNat 2 ++ [0x2e] ++ digitsOfNat 0 ++ 0x2d :: rest) = .ok ((2, 0), 3) := by
  have h2 : digitsOfNat 2 = [0x32] := by decide
  have h0 : digitsOfNat 0 = [0x30] := by decide
  rw [h2, h0]
  simp [bannerVersion, parseProtocolVersion, parseTextNumeric, parseSeparators, List.takeWhile, isDigit, natOfDigits,
    bind, Except.bind, pure, Except.pure]
  decide

theorem bannerVersion_1_99 (rest : Bytes) :
    bannerVersion (digitsOfNat 1 ++ [0x2e] ++ digitsOfNat 99 ++ 0x2d :: rest) = .ok ((1, 99), 4) := by
  have h1 : digitsOfNat 1 = [0x31] := by decide
  have h99 : digitsOfNat 99 = [0x39, 0x39] := by decide
  rw [h1, h99]
  simp [bannerVersion, parseProtocolVersion, parseTextNumeric, parseSeparators, List.takeWhile, isDigit, natOfDigits,
    bind, Except.bind, pure, Except.pure]
  decide

/-! ### the round trip -/

/-- the text fields of a constructible banner: software version and comment ASCII, no line feed, no
blank inside the software version, no CR inside the comment -/
def bannerTextOk (raw : Bytes) (comment : Option Bytes) : Bool :=
  isAscii raw && raw.all (fun c => c != 0x0a && c != 0x20) &&
  (match comment with
   | none => true
   | some t => isAscii t && t.all (fun c => c != 0x0d && c != 0x0a))

theorem splitOnSpace_noSpace (raw : Bytes) (h : ∀ x ∈ raw, x ≠ 0x20) : splitOnSpace raw = [raw] := by
  induction raw with
  | nil => rfl
  | cons x xs ih =>
    have hx : (x == 0x20) = false := by simpa using h x (by simp)
    simp only [splitOnSpace, ih (fun y hy => h y (by simp [hy])), hx, Bool.false_eq_true, if_false]

/-- `bannerLine` on the line the composer writes -/
theorem bannerLine_composed (raw : Bytes) (comment : Option Bytes) (ht : bannerTextOk raw comment = true)
    (hsw : parseSoftwareVersion raw = .ok ⟨"SshSoftwareVersionUnparsed", some raw⟩) :
    bannerLine (raw ++ (match comment with | none => [] | some t => 0x20 :: t) ++ [0x0d]) =
      .ok (⟨"SshSoftwareVersionUnparsed", some raw⟩, comment) := by
  simp only [bannerTextOk, Bool.and_eq_true, List.all_eq_true, bne_iff_ne, ne_eq] at ht
  obtain ⟨⟨_, hraw⟩, _⟩ := ht
  have hnsp : ∀ x ∈ raw, x ≠ 0x20 := fun x hx => (hraw x hx).2
  cases comment with
  | none =>
    have hns : ∀ x ∈ raw ++ [0x0d], x ≠ 0x20 := by
      intro x hx
      simp only [List.mem_append, List.mem_singleton] at hx
      rcases hx with hx | hx
      · exact hnsp x hx
      · subst hx; decide
    simp only [List.append_nil]
    unfold bannerLine
    simp only [splitOnSpace_noSpace _ hns, List.getLastD_cons, List.getLastD_nil, List.getLast?_append, List.getLast?_singleton,
      Option.or_some, beq_self_eq_true, if_true, List.dropLast_concat, List.dropLast_singleton, List.nil_append,
      List.headD_cons, hsw, List.length_singleton]
    simp [hsw]
  | some t =>
    have hline : raw ++ (0x20 :: t) ++ [0x0d] = raw ++ 0x20 :: (t ++ [0x0d]) := by simp
    obtain ⟨c1, c2⟩ := splitOnSpace_cr t
    rw [hline]
    unfold bannerLine
    rw [splitOnSpace_noSpace_append raw hnsp]
    cases hP : splitOnSpace (t ++ [0x0d]) with
    | nil => exact absurd hP (splitOnSpace_ne_nil _)
    | cons p ps =>
      rw [hP] at c1 c2
      have hlast : (raw :: p :: ps).getLastD [] = (p :: ps).getLastD [] := by simp [List.getLastD_cons]
      simp only [hlast, c1, beq_self_eq_true, if_true, List.dropLast_cons_cons, List.cons_append, c2, List.headD_cons, hsw,
        List.length_cons, List.drop_succ_cons, List.drop_zero, join_splitOnSpace]
      have : (splitOnSpace t).length + 1 > 1 := by
        have := splitOnSpace_ne_nil t
        cases h : splitOnSpace t with
        | nil => exact absurd h this
        | cons a b => simp
      simp [this]

theorem isAscii_iff (b : Bytes) : isAscii b = true ↔ ∀ x ∈ b, x.toNat < 128 := by
  simp [isAscii, List.all_eq_true]

/-- the identification string the composer writes for a constructible banner parses back to the
banner, consuming exactly it — whatever follows, as long as that does not start with a line feed
(`parse_separator('\n')` would swallow it: the banner is not self-delimiting) -/
theorem banner_roundTrip_of_version (major minor nv : Nat)
    (hver : ∀ rest, bannerVersion (digitsOfNat major ++ [0x2e] ++ digitsOfNat minor ++ 0x2d :: rest) =
      .ok ((major, minor), nv))
    (hnv : (digitsOfNat major ++ [0x2e] ++ digitsOfNat minor).length = nv)
    (raw : Bytes) (comment : Option Bytes) (ht : bannerTextOk raw comment = true)
    (hsw : parseSoftwareVersion raw = .ok ⟨"SshSoftwareVersionUnparsed", some raw⟩)
    (b : Bytes) (hc : composeBanner ⟨major, minor, ⟨"SshSoftwareVersionUnparsed", some raw⟩, comment⟩ = .ok b)
    (s : Bytes) :
    b = Spec.Ssh.identification major minor raw comment ∧ b.length ≤ 255 ∧
    parseBanner (b ++ s) = .ok (⟨major, minor, ⟨"SshSoftwareVersionUnparsed", some raw⟩, comment⟩, b.length) := by
  rw [banner_compose_spec] at hc
  split at hc
  · next hlen =>
    simp only [Except.ok.injEq] at hc
    subst hc
    refine ⟨rfl, hlen, ?_⟩
    -- the composed bytes
    generalize hcm : (match comment with | none => ([] : Bytes) | some t => 0x20 :: t) = cm at *
    have hB : Spec.Ssh.identification major minor raw comment =
        0x53 :: 0x53 :: 0x48 :: 0x2d :: (digitsOfNat major ++ [0x2e] ++ digitsOfNat minor ++
          0x2d :: (raw ++ cm ++ [0x0d] ++ 0x0a :: [])) := by
      subst hcm
      cases comment <;> simp [Spec.Ssh.identification, Spec.Ssh.digits, digitsOfNat]
    have hline := bannerLine_composed raw comment ht hsw
    rw [hcm] at hline
    simp only [bannerTextOk, Bool.and_eq_true, List.all_eq_true, bne_iff_ne, ne_eq] at ht
    obtain ⟨⟨hra, hraw⟩, hcom⟩ := ht
    -- properties of the comment part
    have hcmA : isAscii cm = true ∧ (∀ x ∈ cm, x ≠ 0x0a) ∧
        ((comment.getD []).any (fun c => c == 0x0d || c == 0x0a)) = false := by
      subst hcm
      cases comment with
      | none => simp [isAscii]
      | some t =>
        simp only [Bool.and_eq_true, List.all_eq_true, bne_iff_ne, ne_eq] at hcom
        obtain ⟨h1, h2⟩ := hcom
        refine ⟨?_, ?_, ?_⟩
        · simp only [isAscii, List.all_cons, Bool.and_eq_true] at h1 ⊢
          exact ⟨by decide, h1⟩
        · intro x hx
          simp only [List.mem_cons] at hx
          rcases hx with hx | hx
          · subst hx; decide
          · exact (h2 x hx).2
        · simp only [Option.getD_some, List.any_eq_false, Bool.or_eq_true, beq_iff_eq, not_or]
          exact fun x hx => h2 x hx
    obtain ⟨hcm1, hcm2, hcm3⟩ := hcmA
    generalize hL : raw ++ cm ++ [0x0d] = L at *
    have hLnl : ∀ x ∈ L, (x != 0x0a) = true := by
      intro x hx
      subst hL
      simp only [List.mem_append, List.mem_singleton] at hx
      rcases hx with (hx | hx) | hx
      · simpa using (hraw x hx).1
      · simpa using hcm2 x hx
      · subst hx; decide
    have hLasc : isAscii L = true := by
      subst hL
      rw [isAscii_append, isAscii_append, hra, hcm1]
      decide
    rw [hB]
    have hlenB : (0x53 :: 0x53 :: 0x48 :: 0x2d :: (digitsOfNat major ++ [0x2e] ++ digitsOfNat minor ++
          0x2d :: (L ++ 0x0a :: [])) : Bytes).length = 5 + nv + L.length + 1 := by
      simp only [List.length_cons, List.length_append, List.length_nil] at hnv ⊢
      omega
    rw [hB, hlenB] at hlen
    rw [hlenB]
    -- run the parser
    have hW : (0x53 :: 0x53 :: 0x48 :: 0x2d :: (digitsOfNat major ++ [0x2e] ++ digitsOfNat minor ++
          0x2d :: (L ++ 0x0a :: [])) : Bytes) ++ s =
        0x53 :: 0x53 :: 0x48 :: 0x2d :: (digitsOfNat major ++ [0x2e] ++ digitsOfNat minor ++
          0x2d :: (L ++ 0x0a :: s)) := by simp
    rw [hW]
    have f5 : (0x53 :: 0x53 :: 0x48 :: 0x2d :: (digitsOfNat major ++ [0x2e] ++ digitsOfNat minor ++
          0x2d :: (L ++ 0x0a :: s)) : Bytes).drop (5 + nv) = L ++ 0x0a :: s := by
      have : 5 + nv = nv + 1 + 4 := by omega
      rw [this]
      simp only [List.drop_succ_cons]
      have h2 : (digitsOfNat major ++ [0x2e] ++ digitsOfNat minor ++ 0x2d :: (L ++ 0x0a :: s)) =
          (digitsOfNat major ++ [0x2e] ++ digitsOfNat minor ++ [0x2d]) ++ (L ++ 0x0a :: s) := by simp
      rw [h2]
      exact List.drop_left' (by simp only [List.length_append, List.length_singleton] at hnv ⊢; omega)
    have f4 : (0x53 :: 0x53 :: 0x48 :: 0x2d :: (digitsOfNat major ++ [0x2e] ++ digitsOfNat minor ++
          0x2d :: (L ++ 0x0a :: s)) : Bytes).drop (4 + nv) = 0x2d :: (L ++ 0x0a :: s) := by
      have : 4 + nv = nv + 4 := by omega
      rw [this]
      simp only [List.drop_succ_cons]
      exact List.drop_left' hnv
    have f6 : (L ++ 0x0a :: s).takeWhile (fun x => x != 0x0a) = L := by
      rw [takeWhile_append_all _ _ _ hLnl]
      simp [List.takeWhile]
    have hcr : crMissing L = false := by
      subst hL
      have := (splitOnSpace_cr (raw ++ cm)).1
      unfold crMissing
      rw [this]
      decide
    refine parseBanner_of_parts (major := major) (minor := minor) (nv := nv) (by simp only [List.length_cons]; omega)
      rfl (by simp [expectByte]) (by simpa using hver _) (by rw [f4]; simp [expectByte]) ?_ ?_ ?_
    · rw [f5, f6]; simp only [List.length_append, List.length_cons]; omega
    · rw [f5, f6]; exact hLasc
    · rw [f5, f6]
      have g11 : ¬ (5 + nv + L.length + 1 > 255) := by omega
      simp only [bannerFinish, hline, bind, Except.bind, composedLength, hcr, Bool.false_eq_true, if_false, g11, hcm3,
        pure, Except.pure]
  · simp at hc

end Cp.Ssh
