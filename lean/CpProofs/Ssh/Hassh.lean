import CpProofs.Ssh.KexInit
/-
  HASSH: the preimage the model hashes equals the four name-list strings of the KEXINIT as they
  stand on the wire, ';'-joined.
-/
namespace Cp.Ssh
open Cp Cp.Codec

/-- an accepted name-list is a complete RFC 4251 `string` on the wire and its names, joined by
commas, are exactly that string (true since the repair: no truncation, no trailing comma) -/
theorem nameList_takeString {codes : List Bytes} {r : Bytes} {ns : List Name} {m : Nat}
    (h : parseNameList codes r = .ok (ns, m)) :
    ∃ body items, Spec.Ssh.takeString r = some (body, r.drop m) ∧ nameTexts codes ns = .ok items ∧
      joinItems comma items = body := by
  obtain ⟨body, items, hb, ht, _, hj⟩ := parseNameList_ok_inv h
  exact ⟨body, items, nameListBody_complete hb, ht, hj⟩

theorem languageList_takeString {r : Bytes} {v : List (List Bytes)} {m : Nat}
    (h : parseLanguageList r = .ok (v, m)) : ∃ body, Spec.Ssh.takeString r = some (body, r.drop m) := by
  obtain ⟨body, hb⟩ := languageList_parse_ok_inv h
  exact ⟨body, nameListBody_complete hb⟩

/-- the names parsed from a name-list are the wire string `body` -/
def Matches (codes : List Bytes) (ns : List Name) (body : Bytes) : Prop :=
  ∃ items, nameTexts codes ns = .ok items ∧ joinItems comma items = body

/-- every accepted KEXINIT has ten complete name-list strings on the wire and the eight algorithm
lists of the parsed object are those strings -/
theorem kexInit_wire_strings {b : Bytes} {k : KexInit} {n : Nat} (h : kexInitCodec.parse b = .ok (k, n)) :
    ∃ s1 s2 s3 s4 s5 s6 s7 s8 s9 s10 rest,
      Spec.Ssh.kexInitStrings b = some ([s1, s2, s3, s4, s5, s6, s7, s8, s9, s10], rest) ∧
      Matches Gen.Ssh.SshKexAlgorithm k.kex s1 ∧ Matches Gen.Ssh.SshHostKeyAlgorithm k.hostKey s2 ∧
      Matches Gen.Ssh.SshEncryptionAlgorithm k.encC2S s3 ∧ Matches Gen.Ssh.SshEncryptionAlgorithm k.encS2C s4 ∧
      Matches Gen.Ssh.SshMacAlgorithm k.macC2S s5 ∧ Matches Gen.Ssh.SshMacAlgorithm k.macS2C s6 ∧
      Matches Gen.Ssh.SshCompressionAlgorithm k.compC2S s7 ∧ Matches Gen.Ssh.SshCompressionAlgorithm k.compS2C s8 := by
  obtain ⟨x, hx, hof⟩ := mapE_parse_ok_inv h
  obtain ⟨u, ck, a1, a2, a3, a4, a5, a6, a7, a8, l1, l2, fk, rs⟩ := x
  simp only [Except.ok.injEq, KexInit.ofTuple] at hof
  subst hof
  simp only [kexInitTupleCodec] at hx
  obtain ⟨n0, _, p0, q0, _⟩ := seq_parse_ok_inv hx
  obtain ⟨n1, _, p1, q1, _⟩ := seq_parse_ok_inv q0
  obtain ⟨n2, _, p2, q2, _⟩ := seq_parse_ok_inv q1
  obtain ⟨n3, _, p3, q3, _⟩ := seq_parse_ok_inv q2
  obtain ⟨n4, _, p4, q4, _⟩ := seq_parse_ok_inv q3
  obtain ⟨n5, _, p5, q5, _⟩ := seq_parse_ok_inv q4
  obtain ⟨n6, _, p6, q6, _⟩ := seq_parse_ok_inv q5
  obtain ⟨n7, _, p7, q7, _⟩ := seq_parse_ok_inv q6
  obtain ⟨n8, _, p8, q8, _⟩ := seq_parse_ok_inv q7
  obtain ⟨n9, _, p9, q9, _⟩ := seq_parse_ok_inv q8
  obtain ⟨n10, _, p10, q10, _⟩ := seq_parse_ok_inv q9
  obtain ⟨n11, _, p11, q11, _⟩ := seq_parse_ok_inv q10
  obtain ⟨n12, _, p12, _, _⟩ := seq_parse_ok_inv q11
  simp only [kexCodec, hostKeyAlgCodec, encCodec, macCodec, compCodec, nameListCodec, languageListCodec]
    at p2 p3 p4 p5 p6 p7 p8 p9 p10 p11
  -- the header and the cookie
  obtain ⟨hn0, hnum⟩ := msgCode_parse_ok_inv p0
  subst hn0
  obtain ⟨hn1, hck, _⟩ := rawN_parse_ok_inv p1
  subst hn1
  have henc := (parseNum_ok_inv hnum).2.2.2.1
  obtain ⟨s1, i1, t1, m1⟩ := nameList_takeString p2
  obtain ⟨s2, i2, t2, m2⟩ := nameList_takeString p3
  obtain ⟨s3, i3, t3, m3⟩ := nameList_takeString p4
  obtain ⟨s4, i4, t4, m4⟩ := nameList_takeString p5
  obtain ⟨s5, i5, t5, m5⟩ := nameList_takeString p6
  obtain ⟨s6, i6, t6, m6⟩ := nameList_takeString p7
  obtain ⟨s7, i7, t7, m7⟩ := nameList_takeString p8
  obtain ⟨s8, i8, t8, m8⟩ := nameList_takeString p9
  obtain ⟨s9, t9⟩ := languageList_takeString p10
  obtain ⟨s10, t10⟩ := languageList_takeString p11
  refine ⟨s1, s2, s3, s4, s5, s6, s7, s8, s9, s10,
    List.drop n11 (List.drop n10 (List.drop n9 (List.drop n8 (List.drop n7 (List.drop n6 (List.drop n5
      (List.drop n4 (List.drop n3 (List.drop n2 (List.drop 16 (List.drop 1 b))))))))))), ?_, ⟨i1, m1⟩, ⟨i2, m2⟩, ⟨i3, m3⟩, ⟨i4, m4⟩, ⟨i5, m5⟩,
    ⟨i6, m6⟩, ⟨i7, m7⟩, ⟨i8, m8⟩⟩
  cases b with
  | nil => exact absurd henc (by decide)
  | cons t tl =>
    have ht : t = 20 := by
      have : (encNat ByteOrder.network 1 20 : Bytes) = [20] := by decide
      rw [this] at henc
      simp at henc
      exact henc.symm
    subst ht
    simp only [List.drop_succ_cons, List.drop_zero, List.length_cons] at hck t1 t2 t3 t4 t5 t6 t7 t8 t9 t10
    have h16 : ¬ tl.length < 16 := by omega
    simp only [Spec.Ssh.kexInitStrings, Spec.Ssh.SSH_MSG_KEXINIT, ne_eq, not_true_eq_false, h16, or_self, if_false,
      Spec.Ssh.kexInitStrings.go, t1, t2, t3, t4, t5, t6, t7, t8, t9, t10, List.drop_succ_cons, List.drop_zero]

/-- HASSH and HASSH-server preimages of EVERY accepted KEXINIT are exactly the name-list strings on
the wire, ';'-joined (the full statement; it was false while a trailing comma was tolerated) -/
theorem hassh_conforms {b : Bytes} {k : KexInit} {n : Nat} (h : kexInitCodec.parse b = .ok (k, n)) :
    (∃ p, hasshPreimage k = .ok p ∧ Spec.Ssh.hasshPreimageOfWire b = some p) ∧
    (∃ p, hasshServerPreimage k = .ok p ∧ Spec.Ssh.hasshServerPreimageOfWire b = some p) := by
  obtain ⟨s1, s2, s3, s4, s5, s6, s7, s8, s9, s10, rest, hw, ⟨i1, t1, j1⟩, _, ⟨i3, t3, j3⟩, ⟨i4, t4, j4⟩,
    ⟨i5, t5, j5⟩, ⟨i6, t6, j6⟩, ⟨i7, t7, j7⟩, ⟨i8, t8, j8⟩⟩ := kexInit_wire_strings h
  constructor
  · refine ⟨joinItems 0x3b [s1, s3, s5, s7], ?_, ?_⟩
    · simp [hasshPreimage, hasshText, hasshParts, t1, t3, t5, t7, j1, j3, j5, j7, bind, Except.bind, pure,
        Except.pure, Except.map]
    · simp [Spec.Ssh.hasshPreimageOfWire, hw, Spec.Ssh.joinWith, joinItems, Spec.Ssh.semicolon]
  · refine ⟨joinItems 0x3b [s1, s4, s6, s8], ?_, ?_⟩
    · simp [hasshServerPreimage, hasshText, hasshParts, t1, t4, t6, t8, j1, j4, j6, j8, bind, Except.bind, pure,
        Except.pure, Except.map]
    · simp [Spec.Ssh.hasshServerPreimageOfWire, hw, Spec.Ssh.joinWith, joinItems, Spec.Ssh.semicolon]

end Cp.Ssh
