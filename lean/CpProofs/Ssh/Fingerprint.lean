import CpModel.Ssh.Fingerprint
import CpSpec.Ssh
/-
  The fingerprint texts: the model's `b64encode` / hexlify-wrap-join equal the RFC 4648 base 64 and
  the colon-separated hex of the specification, for every byte string.
-/
namespace Cp.Ssh
open Cp

theorem b64At_eq : ∀ i, i < 64 → b64At i = Spec.Ssh.b64Char i := by decide

theorem b64encode_eq_spec (b : Bytes) : b64encode b = Spec.Ssh.base64 b := by
  fun_induction b64encode b with
  | case1 => rfl
  | case2 a =>
    have ha := a.toNat_lt
    have e1 : a.toNat * 65536 / 262144 = a.toNat / 4 := by omega
    have e2 : a.toNat * 65536 / 4096 % 64 = a.toNat % 4 * 16 := by omega
    simp only [Spec.Ssh.base64, Spec.Ssh.pad, e1, e2]
    rw [b64At_eq _ (by omega), b64At_eq _ (by omega)]
  | case3 a b =>
    have ha := a.toNat_lt
    have hb := b.toNat_lt
    have e1 : (a.toNat * 65536 + b.toNat * 256) / 262144 = a.toNat / 4 := by omega
    have e2 : (a.toNat * 65536 + b.toNat * 256) / 4096 % 64 = a.toNat % 4 * 16 + b.toNat / 16 := by omega
    have e3 : (a.toNat * 65536 + b.toNat * 256) / 64 % 64 = b.toNat % 16 * 4 := by omega
    simp only [Spec.Ssh.base64, Spec.Ssh.pad, e1, e2, e3]
    rw [b64At_eq _ (by omega), b64At_eq _ (by omega), b64At_eq _ (by omega)]
  | case4 a b c rest ih =>
    have ha := a.toNat_lt
    have hb := b.toNat_lt
    have hc := c.toNat_lt
    have e1 : (a.toNat * 65536 + b.toNat * 256 + c.toNat) / 262144 = a.toNat / 4 := by omega
    have e2 : (a.toNat * 65536 + b.toNat * 256 + c.toNat) / 4096 % 64 = a.toNat % 4 * 16 + b.toNat / 16 := by omega
    have e3 : (a.toNat * 65536 + b.toNat * 256 + c.toNat) / 64 % 64 = b.toNat % 16 * 4 + c.toNat / 64 := by omega
    have e4 : (a.toNat * 65536 + b.toNat * 256 + c.toNat) % 64 = c.toNat % 64 := by omega
    simp only [Spec.Ssh.base64, e1, e2, e3, e4]
    rw [b64At_eq _ (by omega), b64At_eq _ (by omega), b64At_eq _ (by omega), b64At_eq _ (by omega), ih]

theorem hexDigit_eq : ∀ n, n < 16 → hexDigitLower n = Spec.Ssh.hexChar n := by decide

theorem hexlify_cons (a : UInt8) (rest : Bytes) :
    hexlify (a :: rest) = hexDigitLower (a.toNat / 16) :: hexDigitLower (a.toNat % 16) :: hexlify rest := by
  simp [hexlify]

theorem colonHex_eq_spec (d : Bytes) : joinItems 0x3a (wrap2 (hexlify d)) = Spec.Ssh.colonHex d := by
  induction d with
  | nil => rfl
  | cons a rest ih =>
    have ha := a.toNat_lt
    have h1 := hexDigit_eq (a.toNat / 16) (by omega)
    have h2 := hexDigit_eq (a.toNat % 16) (by omega)
    cases rest with
    | nil =>
      rw [hexlify_cons]
      simp only [hexlify, List.flatMap_nil, wrap2, joinItems, Spec.Ssh.colonHex, h1, h2]
    | cons b r =>
      rw [hexlify_cons, hexlify_cons] at *
      simp only [wrap2, joinItems, Spec.Ssh.colonHex, h1, h2] at ih ⊢
      simp only [List.cons_append, List.nil_append, List.cons.injEq, true_and]
      exact ih

theorem label_sha256 : FpKind.sha256.label ++ [0x3a] = Spec.Ssh.prefixSha256 := by decide
theorem label_sha1 : FpKind.sha1.label ++ [0x3a] = Spec.Ssh.prefixSha1 := by decide
theorem label_md5 : FpKind.md5.label ++ [0x3a] = Spec.Ssh.prefixMd5 := by decide

theorem renderFingerprint_spec (d : Bytes) :
    renderFingerprint .sha256 d = Spec.Ssh.prefixSha256 ++ Spec.Ssh.base64 d ∧
    renderFingerprint .sha1 d = Spec.Ssh.prefixSha1 ++ Spec.Ssh.base64 d ∧
    renderFingerprint .md5 d = Spec.Ssh.prefixMd5 ++ Spec.Ssh.colonHex d := by
  refine ⟨?_, ?_, ?_⟩
  · simp [renderFingerprint, b64encode_eq_spec, ← label_sha256]
  · simp [renderFingerprint, b64encode_eq_spec, ← label_sha1]
  · simp [renderFingerprint, colonHex_eq_spec, ← label_md5]

end Cp.Ssh
