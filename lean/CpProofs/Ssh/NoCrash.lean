import CpProofs.Ssh.Variant
import CpProofs.Ssh.Hassh
/-
  C02 for the SSH family: which parsers can only fail with the four documented parse errors.
-/
namespace Cp.Ssh
open Cp Cp.Codec

theorem parseLanguageTag_noCrash (item : Bytes) (k : String) : parseLanguageTag item ≠ .error (.crash k) := by
  unfold parseLanguageTag
  cases hs : splitItems hyphen item with
  | error e =>
    simp only [bind, Except.bind]
    intro h; cases h
    exact splitItems_no_crash _ _ _ hs
  | ok tags =>
    simp only [bind, Except.bind]
    cases tags with
    | nil => exact absurd rfl (splitItems_ok_inv hs).1
    | cons p rest =>
      simp only []
      split
      · simp
      · split <;> simp [pure, Except.pure]

theorem parseLanguageTags_noCrash (items : List Bytes) (k : String) :
    parseLanguageTags items ≠ .error (.crash k) := by
  induction items with
  | nil => simp [parseLanguageTags]
  | cons x xs ih =>
    simp only [parseLanguageTags]
    cases h1 : parseLanguageTag x with
    | error e =>
      simp only [bind, Except.bind]
      intro h; cases h
      exact parseLanguageTag_noCrash _ _ h1
    | ok t =>
      simp only [bind, Except.bind]
      cases h2 : parseLanguageTags xs with
      | error e =>
        intro h; cases h
        exact ih h2
      | ok r => simp [pure, Except.pure]

theorem languageList_noCrash : NoCrash languageListCodec := by
  intro bs k
  simp only [languageListCodec]
  unfold parseLanguageList
  cases hb : nameListBody bs with
  | error e =>
    simp only [bind, Except.bind]
    intro h; cases h
    exact nameListBody_noCrash _ _ hb
  | ok r =>
    obtain ⟨body, m⟩ := r
    simp only [bind, Except.bind]
    split
    · simp [pure, Except.pure]
    · cases hs : splitItems comma body with
      | error e =>
        intro h; cases h
        exact splitItems_no_crash _ _ _ hs
      | ok items =>
        simp only []
        cases ht : parseLanguageTags items with
        | error e =>
          intro h; cases h
          exact parseLanguageTags_noCrash _ _ ht
        | ok tags => simp [pure, Except.pure]

theorem kexInit_noCrash : NoCrash kexInitCodec :=
  mapE_noCrash (
    seq_noCrash (msgCode_noCrash 20) <| seq_noCrash (rawN_noCrash 16) <|
    seq_noCrash (nameList_noCrash _) <| seq_noCrash (nameList_noCrash _) <|
    seq_noCrash (nameList_noCrash _) <| seq_noCrash (nameList_noCrash _) <|
    seq_noCrash (nameList_noCrash _) <| seq_noCrash (nameList_noCrash _) <|
    seq_noCrash (nameList_noCrash _) <| seq_noCrash (nameList_noCrash _) <|
    seq_noCrash languageList_noCrash <| seq_noCrash languageList_noCrash <|
    seq_noCrash bool_noCrash (num_noCrash .network vs4)) (fun _ _ => by simp)

theorem parseIntEnum_noCrash (mc : List Nat) {k : Nat} (hk : validSize k = true) :
    NoCrash (⟨parseIntEnum mc k, fun v => composeNum .network k (v : Int)⟩ : Codec Nat) := by
  intro bs c h
  rcases parseIntEnum_err_inv h with h | h
  · exact parseNum_no_crash hk _ _ h
  · cases h

theorem utf8String_noCrash : NoCrash utf8String := by
  intro bs k
  simp only [utf8String]
  cases hp : parseBytes .network 4 bs with
  | error e =>
    simp only [bind, Except.bind]
    intro h; cases h
    exact bytesPrefixed_noCrash .network vs4 bs k hp
  | ok r =>
    simp only [bind, Except.bind]
    split <;> simp [pure, Except.pure]

theorem asciiString_noCrash : NoCrash asciiString := by
  intro bs k
  simp only [asciiString, parseAsciiString]
  cases hp : parseBytes .network 4 bs with
  | error e =>
    simp only [bind, Except.bind]
    intro h; cases h
    exact bytesPrefixed_noCrash .network vs4 bs k hp
  | ok r =>
    simp only [bind, Except.bind]
    split <;> simp [pure, Except.pure]

theorem map_noCrash {α β : Type} {x : Except PErr α} {f : α → β} {k : String}
    (h : x ≠ .error (.crash k)) : x.map f ≠ .error (.crash k) := by
  cases x with
  | error e =>
    simp only [Except.map]
    intro h'; cases h'; exact h rfl
  | ok v => simp [Except.map]

theorem firstNotInvalidType_noCrash {α : Type} (ps : List (Bytes → Except PErr (α × Nat)))
    (hps : ∀ p ∈ ps, ∀ bs k, p bs ≠ .error (.crash k)) (bs : Bytes) (k : String) :
    firstNotInvalidType ps bs ≠ .error (.crash k) := by
  induction ps with
  | nil => simp [firstNotInvalidType]
  | cons p more ih =>
    simp only [firstNotInvalidType]
    split
    · exact ih (fun q hq => hps q (by simp [hq]))
    · exact hps p (by simp) bs k

/-- the messages of the first exchange (disconnect, unimplemented, KEXINIT) never crash -/
theorem variantInit_noCrash : NoCrash (msgVariantCodec Gen.Ssh.SshMessageVariantInit) := by
  intro bs k
  simp only [msgVariantCodec, parseMsgVariant]
  refine firstNotInvalidType_noCrash _ ?_ bs k
  intro p hp
  simp only [Gen.Ssh.SshMessageVariantInit, List.map_cons, List.map_nil, List.mem_cons, List.not_mem_nil,
    or_false] at hp
  rcases hp with hp | hp | hp <;> subst hp <;> intro bs k <;> simp only [parseMsgClass]
  · exact map_noCrash (seq_noCrash (msgCode_noCrash 1) (seq_noCrash (parseIntEnum_noCrash _ vs4)
      (seq_noCrash utf8String_noCrash asciiString_noCrash)) bs k)
  · exact map_noCrash (seq_noCrash (msgCode_noCrash 3) (num_noCrash .network vs4) bs k)
  · exact map_noCrash (kexInit_noCrash bs k)

theorem recordInit_noCrash : NoCrash recordInit := record_noCrash variantInit_noCrash

end Cp.Ssh
