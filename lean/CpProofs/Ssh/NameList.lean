import CpModel.Ssh.NameList
import CpProofs.Codec2
import CpProofs.Mpint
import CpSpec.Ssh
/-
  Laws of the SSH name-list codec (`VectorString` with the `str` fallback).
-/
namespace Cp.Ssh
open Cp Cp.Codec

/-! ### the item splitter -/

theorem splitAux_some_append (sep : UInt8) (n : Bytes) (hn : sep ∉ n) (cur rest : Bytes) :
    splitAux sep (some cur) (n ++ rest) = splitAux sep (some (n.reverse ++ cur)) rest := by
  induction n generalizing cur with
  | nil => simp
  | cons x xs ih =>
    have hx : x ≠ sep := fun h => hn (by simp [h])
    have hxs : sep ∉ xs := fun h => hn (by simp [h])
    simp only [List.cons_append, splitAux, hx, if_false]
    rw [ih hxs]
    simp

theorem splitAux_none_append (sep : UInt8) (n : Bytes) (hn : sep ∉ n) (hne : n ≠ []) (rest : Bytes) :
    splitAux sep none (n ++ rest) = splitAux sep (some n.reverse) rest := by
  cases n with
  | nil => exact absurd rfl hne
  | cons x xs =>
    have hx : x ≠ sep := fun h => hn (by simp [h])
    have hxs : sep ∉ xs := fun h => hn (by simp [h])
    simp only [List.cons_append, splitAux, hx, if_false]
    rw [splitAux_some_append sep xs hxs]
    simp

theorem splitAux_sep (sep : UInt8) (cur rest : Bytes) (h : rest ≠ []) :
    splitAux sep (some cur) (sep :: rest) = (splitAux sep none rest).map (cur.reverse :: ·) := by
  cases rest with
  | nil => exact absurd rfl h
  | cons y ys => simp [splitAux]

/-- names that are non-empty and free of the separator -/
def GoodItems (sep : UInt8) (ns : List Bytes) : Prop := ∀ n ∈ ns, n ≠ [] ∧ sep ∉ n

theorem joinItems_ne_nil (sep : UInt8) (ns : List Bytes) (h : GoodItems sep ns) (hne : ns ≠ []) :
    joinItems sep ns ≠ [] := by
  cases ns with
  | nil => exact absurd rfl hne
  | cons a rest =>
    have ha := (h a (by simp)).1
    cases rest with
    | nil => simpa [joinItems] using ha
    | cons b r => simp [joinItems, ha]

theorem splitAux_join (sep : UInt8) (ns : List Bytes) (h : GoodItems sep ns) (hne : ns ≠ []) :
    splitAux sep none (joinItems sep ns) = .ok ns := by
  induction ns with
  | nil => exact absurd rfl hne
  | cons a rest ih =>
    obtain ⟨ha, hsa⟩ := h a (by simp)
    cases rest with
    | nil =>
      simp only [joinItems]
      have := splitAux_none_append sep a hsa ha []
      rw [List.append_nil] at this
      rw [this]
      simp [splitAux]
    | cons b r =>
      have hrest : GoodItems sep (b :: r) := fun n hn => h n (by simp [hn])
      have hj := joinItems_ne_nil sep (b :: r) hrest (by simp)
      simp only [joinItems]
      rw [splitAux_none_append sep a hsa ha, splitAux_sep sep _ _ hj, ih hrest (by simp)]
      simp [Except.map]

theorem splitAux_no_crash (sep : UInt8) (cur : Option Bytes) (body : Bytes) (k : String) :
    splitAux sep cur body ≠ .error (.crash k) := by
  induction body generalizing cur with
  | nil => cases cur <;> simp [splitAux]
  | cons x xs ih =>
    cases cur with
    | none =>
      simp only [splitAux]
      split
      · simp
      · exact ih _
    | some c =>
      simp only [splitAux]
      split
      · split
        · simp
        · cases hr : splitAux sep none xs with
          | error e =>
            simp only [Except.map]
            intro h; cases h
            exact ih _ hr
          | ok v => simp [Except.map]
      · exact ih _

theorem splitAux_err (sep : UInt8) (cur : Option Bytes) (body : Bytes) (e : PErr)
    (h : splitAux sep cur body = .error e) : e = .invalidValue := by
  induction body generalizing cur with
  | nil =>
    cases cur <;> simp [splitAux] at h
    exact h.symm
  | cons x xs ih =>
    cases cur with
    | none =>
      simp only [splitAux] at h
      split at h
      · simp at h; exact h.symm
      · exact ih _ h
    | some c =>
      simp only [splitAux] at h
      split at h
      · split at h
        · simp at h
        · cases hr : splitAux sep none xs with
          | error e' =>
            simp only [hr, Except.map] at h
            cases h
            exact ih _ hr
          | ok v => simp [hr, Except.map] at h
      · exact ih _ h

/-- what an accepted body looks like: the items joined by the separator, possibly followed by one
more separator (the trailing separator the parser tolerates); `cur` generalises over the item
being collected -/
theorem splitAux_ok_shape (sep : UInt8) (cur : Option Bytes) (body : Bytes) (items : List Bytes)
    (h : splitAux sep cur body = .ok items) :
    items ≠ [] ∧ (∀ n ∈ items, n ≠ [] ∨ cur = some []) ∧
    ((cur.getD []).reverse ++ body = joinItems sep items ∨
     (cur.getD []).reverse ++ body = joinItems sep items ++ [sep]) := by
  induction body generalizing cur items with
  | nil =>
    cases cur with
    | none => simp [splitAux] at h
    | some c =>
      simp [splitAux] at h
      subst h
      refine ⟨by simp, ?_, ?_⟩
      · intro n hn
        simp at hn
        subst hn
        by_cases hc : c = []
        · right; simp [hc]
        · left; simpa using hc
      · left; simp [joinItems]
  | cons x xs ih =>
    cases cur with
    | none =>
      simp only [splitAux] at h
      split at h
      · simp at h
      · next hx =>
        obtain ⟨h1, h2, h3⟩ := ih _ _ h
        refine ⟨h1, ?_, ?_⟩
        · intro n hn
          rcases h2 n hn with h | h
          · exact .inl h
          · simp at h
        · simpa using h3
    | some c =>
      simp only [splitAux] at h
      split at h
      · next hx =>
        subst hx
        split at h
        · next hxs =>
          simp at h hxs
          subst h; subst hxs
          refine ⟨by simp, ?_, ?_⟩
          · intro n hn
            simp at hn
            subst hn
            by_cases hc : c = []
            · right; simp [hc]
            · left; simpa using hc
          · right; simp [joinItems]
        · cases hr : splitAux x none xs with
          | error e => simp [hr, Except.map] at h
          | ok v =>
            simp [hr, Except.map] at h
            subst h
            obtain ⟨h1, h2, h3⟩ := ih _ _ hr
            refine ⟨by simp, ?_, ?_⟩
            · intro n hn
              simp at hn
              rcases hn with hn | hn
              · subst hn
                by_cases hc : c = []
                · right; simp [hc]
                · left; simpa using hc
              · rcases h2 n hn with h | h
                · exact .inl h
                · simp at h
            · cases v with
              | nil => exact absurd rfl h1
              | cons w ws =>
                simp only [Option.getD_none, List.reverse_nil, List.nil_append] at h3
                simp only [Option.getD_some, joinItems]
                rcases h3 with h3 | h3
                · left; rw [h3]
                · right; rw [h3]; simp
      · next hx =>
        obtain ⟨h1, h2, h3⟩ := ih _ _ h
        refine ⟨h1, ?_, ?_⟩
        · intro n hn
          rcases h2 n hn with h | h
          · exact .inl h
          · simp at h
        · simpa using h3

/-! ### table lookup -/

theorem findName_sound {b : Bytes} {codes : List Bytes} {i : Nat} (h : findName b codes = some i) :
    codes[i]? = some b := by
  induction codes generalizing i with
  | nil => simp [findName] at h
  | cons x xs ih =>
    simp only [findName] at h
    split at h
    · next hx => simp at h; subst h; simp [hx]
    · cases hf : findName b xs with
      | none => simp [hf] at h
      | some j =>
        simp [hf] at h; subst h
        simpa using ih hf

theorem findName_none {b : Bytes} {codes : List Bytes} (h : findName b codes = none) : b ∉ codes := by
  induction codes with
  | nil => simp
  | cons x xs ih =>
    simp only [findName] at h
    split at h
    · simp at h
    · next hx =>
      cases hf : findName b xs with
      | none =>
        have := ih hf
        simp only [List.mem_cons, not_or]
        exact ⟨fun e => hx e.symm, this⟩
      | some k => simp [hf] at h

theorem findName_not_mem {b : Bytes} {codes : List Bytes} (h : b ∉ codes) : findName b codes = none := by
  cases hf : findName b codes with
  | none => rfl
  | some i => exact absurd (List.mem_of_getElem? (findName_sound hf)) h

theorem findName_of_nodup {codes : List Bytes} (hn : codes.Nodup) {i : Nat} {c : Bytes}
    (hi : codes[i]? = some c) : findName c codes = some i := by
  induction codes generalizing i with
  | nil => simp at hi
  | cons x xs ih =>
    have hx : x ∉ xs := (List.nodup_cons.mp hn).1
    have hxs : xs.Nodup := (List.nodup_cons.mp hn).2
    cases i with
    | zero => simp at hi; simp [findName, hi]
    | succ i =>
      simp at hi
      have hmem : c ∈ xs := List.mem_of_getElem? hi
      have hne : x ≠ c := fun e => hx (e ▸ hmem)
      simp [findName, hne, ih hxs hi]

/-- the text of a classified item is the item -/
theorem classify_text (codes : List Bytes) (b : Bytes) : (classify codes b).text codes = some b := by
  unfold classify
  cases hf : findName b codes with
  | none => rfl
  | some i => simpa [Name.text] using findName_sound hf

theorem nameTexts_map_classify (codes : List Bytes) (items : List Bytes) :
    nameTexts codes (items.map (classify codes)) = .ok items := by
  induction items with
  | nil => rfl
  | cons x xs ih => simp [nameTexts, classify_text, ih, Except.map]

/-! ### well-formed names and tables -/

/-- a table the round trip can rely on: codes pairwise distinct, each a non-empty ASCII text
without a comma (decided on the regenerated tables) -/
def tableOk (codes : List Bytes) : Bool :=
  decide codes.Nodup && codes.all fun c => !c.isEmpty && !c.contains comma && isAscii c

/-- the constructible, round-tripping names: a member of the table, or a non-empty ASCII text
without a comma that is NOT the code of a member (a `str` equal to a code parses back as the member) -/
def nameOk (codes : List Bytes) : Name → Bool
  | .known i => decide (i < codes.length)
  | .other b => !b.isEmpty && !b.contains comma && isAscii b && !codes.contains b

/-- the body a list of names is composed to -/
def bodyOf (codes : List Bytes) (ns : List Name) : Bytes :=
  match nameTexts codes ns with
  | .ok t => joinItems comma t
  | .error _ => []

def nameListOk (codes : List Bytes) (ns : List Name) : Bool :=
  ns.all (nameOk codes) && decide ((bodyOf codes ns).length < 2 ^ 32)

theorem tableOk_mem {codes : List Bytes} (h : tableOk codes = true) {c : Bytes} (hc : c ∈ codes) :
    c ≠ [] ∧ comma ∉ c ∧ isAscii c = true := by
  simp only [tableOk, Bool.and_eq_true, List.all_eq_true] at h
  have := h.2 c hc
  simp only [Bool.and_eq_true, Bool.not_eq_true', List.isEmpty_eq_false_iff] at this
  refine ⟨this.1.1, ?_, this.2⟩
  have h2 := this.1.2
  intro hm
  have : c.contains comma = true := List.contains_iff_mem.mpr hm
  rw [this] at h2; cases h2

theorem tableOk_nodup {codes : List Bytes} (h : tableOk codes = true) : codes.Nodup := by
  simp only [tableOk, Bool.and_eq_true, decide_eq_true_eq] at h
  exact h.1

/-- texts of well-formed names exist, are good items, ASCII, and classify back to the names -/
theorem nameTexts_of_ok {codes : List Bytes} (ht : tableOk codes = true) (ns : List Name)
    (h : ns.all (nameOk codes) = true) :
    ∃ texts, nameTexts codes ns = .ok texts ∧ GoodItems comma texts ∧ (∀ t ∈ texts, isAscii t = true) ∧
      texts.map (classify codes) = ns ∧ texts.length = ns.length := by
  induction ns with
  | nil => exact ⟨[], rfl, by intro n hn; simp at hn, by intro t ht; simp at ht, rfl, rfl⟩
  | cons x xs ih =>
    simp only [List.all_cons, Bool.and_eq_true] at h
    obtain ⟨texts, h1, h2, h3, h4, h5⟩ := ih h.2
    cases x with
    | known i =>
      have hi : i < codes.length := by simpa [nameOk] using h.1
      have hget : codes[i]? = some codes[i] := List.getElem?_eq_getElem hi
      obtain ⟨c1, c2, c3⟩ := tableOk_mem ht (List.getElem_mem hi)
      refine ⟨codes[i] :: texts, by simp [nameTexts, Name.text, hget, h1, Except.map], ?_, ?_, ?_, by simp [h5]⟩
      · intro n hn
        simp at hn
        rcases hn with hn | hn
        · subst hn; exact ⟨c1, c2⟩
        · exact h2 n hn
      · intro t htm
        simp at htm
        rcases htm with htm | htm
        · subst htm; exact c3
        · exact h3 t htm
      · simp [classify, findName_of_nodup (tableOk_nodup ht) hget, h4]
    | other b =>
      simp only [nameOk, Bool.and_eq_true, Bool.not_eq_true', List.isEmpty_eq_false_iff] at h
      obtain ⟨⟨⟨⟨b1, b2⟩, b3⟩, b4⟩, _⟩ := h
      have hb2 : comma ∉ b := by
        intro hm
        have : b.contains comma = true := List.contains_iff_mem.mpr hm
        rw [this] at b2; cases b2
      have hb4 : b ∉ codes := by
        intro hm
        have : codes.contains b = true := List.contains_iff_mem.mpr hm
        rw [this] at b4; cases b4
      refine ⟨b :: texts, by simp [nameTexts, Name.text, h1, Except.map], ?_, ?_, ?_, by simp [h5]⟩
      · intro n hn
        simp at hn
        rcases hn with hn | hn
        · subst hn; exact ⟨b1, hb2⟩
        · exact h2 n hn
      · intro t htm
        simp at htm
        rcases htm with htm | htm
        · subst htm; exact b3
        · exact h3 t htm
      · simp [classify, findName_not_mem hb4, h4]

theorem isAscii_append (a b : Bytes) : isAscii (a ++ b) = (isAscii a && isAscii b) := by
  simp [isAscii, List.all_append]

theorem isAscii_join (texts : List Bytes) (h : ∀ t ∈ texts, isAscii t = true) :
    isAscii (joinItems comma texts) = true := by
  induction texts with
  | nil => rfl
  | cons a rest ih =>
    cases rest with
    | nil => simpa [joinItems] using h a (by simp)
    | cons b r =>
      simp only [joinItems]
      rw [isAscii_append]
      have ha := h a (by simp)
      have hr := ih (fun t ht => h t (by simp [ht]))
      have hc : isAscii (comma :: joinItems comma (b :: r)) = true := by
        simp only [isAscii, List.all_cons, Bool.and_eq_true] at hr ⊢
        exact ⟨by decide, hr⟩
      simp [ha, hc]

theorem joinItems_eq_spec (texts : List Bytes) : joinItems comma texts = Spec.Ssh.joinNames texts := by
  induction texts with
  | nil => rfl
  | cons a rest ih =>
    cases rest with
    | nil => rfl
    | cons b r => simp only [joinItems, Spec.Ssh.joinNames, ih]; rfl

/-! ### the codec laws -/

theorem vs4 : validSize 4 = true := rfl

/-- composing well-formed names gives the RFC 4251 `name-list` of their texts -/
theorem composeNameList_eq_spec {codes : List Bytes} (ns : List Name) (texts : List Bytes)
    (h1 : nameTexts codes ns = .ok texts) (h2 : (joinItems comma texts).length < 2 ^ 32) :
    composeNameList codes ns = .ok (Spec.Ssh.nameList texts) := by
  have hlt : (joinItems comma texts).length < 256 ^ 4 := by
    have : (256 : Nat) ^ 4 = 2 ^ 32 := by decide
    omega
  unfold composeNameList
  simp only [h1, bind, Except.bind]
  rw [composeNum_ok vs4 hlt]
  simp only [pure, Except.pure, Spec.Ssh.nameList, Spec.Ssh.string, Spec.sshString, joinItems_eq_spec]
  rw [← joinItems_eq_spec, encNat_network, beBytes_eq_spec]

/-! #### the length-prefixed body -/

theorem getLast?_append_cons {α : Type} (a : List α) (x : α) (rest : List α) (h : rest ≠ []) :
    (a ++ x :: rest).getLast? = rest.getLast? := by
  cases rest with
  | nil => exact absurd rfl h
  | cons y ys =>
    induction a with
    | nil => simp [List.getLast?_cons_cons]
    | cons z zs ih =>
      cases zs with
      | nil => simp [List.getLast?_cons_cons]
      | cons w ws =>
        rw [List.cons_append, List.cons_append, List.getLast?_cons_cons]
        simpa using ih

/-- conformant names joined by the separator never end in the separator -/
theorem joinItems_getLast_ne (sep : UInt8) (ns : List Bytes) (h : GoodItems sep ns) :
    (joinItems sep ns).getLast? ≠ some sep := by
  induction ns with
  | nil => simp [joinItems]
  | cons a rest ih =>
    cases rest with
    | nil =>
      simp only [joinItems]
      intro hl
      exact (h a (by simp)).2 (List.mem_of_getLast? hl)
    | cons b r =>
      have hrest : GoodItems sep (b :: r) := fun n hn => h n (by simp [hn])
      simp only [joinItems]
      rw [getLast?_append_cons _ _ _ (joinItems_ne_nil sep (b :: r) hrest (by simp))]
      exact ih hrest

theorem parseNum4_take {bs : Bytes} {len m : Nat} (hp : parseNum .network 4 (bs.take 4) = .ok (len, m)) :
    m = 4 ∧ 4 ≤ bs.length ∧ len = beVal (bs.take 4) ∧ len < 256 ^ 4 := by
  obtain ⟨hm, hlen, hlt, henc, _⟩ := parseNum_ok_inv hp
  have h4 : 4 ≤ bs.length := by
    have h' : (bs.take 4).length = min 4 bs.length := List.length_take
    omega
  refine ⟨hm, h4, ?_, hlt⟩
  have h1 : (bs.take 4).take 4 = bs.take 4 := by rw [List.take_take]; simp
  rw [h1] at henc
  have := congrArg (decNat .network) henc
  rw [decNat_encNat_of_lt _ _ _ hlt] at this
  rw [this]; rfl

/-- inversion: an accepted body is complete, is exactly the declared slice, does not end in a
comma, and the consumed length is the header plus the declared length -/
theorem nameListBody_ok_inv {bs body : Bytes} {n : Nat} (h : nameListBody bs = .ok (body, n)) :
    4 ≤ bs.length ∧ 4 + beVal (bs.take 4) ≤ bs.length ∧ body = (bs.drop 4).take (beVal (bs.take 4)) ∧
      body.length = beVal (bs.take 4) ∧ n = 4 + beVal (bs.take 4) ∧ body.getLast? ≠ some comma := by
  unfold nameListBody at h
  cases hp : parseNum .network 4 (bs.take 4) with
  | error e => simp [hp, bind, Except.bind] at h
  | ok r =>
    obtain ⟨len, m⟩ := r
    obtain ⟨hm, h4, hdec, _⟩ := parseNum4_take hp
    subst hm
    simp only [hp, bind, Except.bind] at h
    split at h
    · simp at h
    · next hlen =>
      split at h
      · simp at h
      · next hc =>
        simp only [pure, Except.pure, Except.ok.injEq, Prod.mk.injEq] at h
        obtain ⟨hb, hn⟩ := h
        have hbl : ((bs.drop 4).take len).length = len := by
          simp only [List.length_take, List.length_drop]; omega
        subst hdec
        refine ⟨h4, by omega, hb.symm, by rw [← hb]; exact hbl, by rw [← hn, hbl], ?_⟩
        rw [← hb]
        simpa using hc

theorem nameListBody_err_inv {bs : Bytes} {e : PErr} (h : nameListBody bs = .error e) :
    (∃ k : Nat, e = .notEnough k) ∨ e = .invalidValue := by
  unfold nameListBody at h
  cases hp : parseNum .network 4 (bs.take 4) with
  | error e' =>
    simp [hp, bind, Except.bind] at h
    obtain ⟨_, he⟩ := parseNum_err_inv vs4 hp
    subst h
    exact .inl ⟨_, he⟩
  | ok r =>
    obtain ⟨len, m⟩ := r
    simp only [hp, bind, Except.bind] at h
    split at h
    · simp at h; exact .inl ⟨_, h.symm⟩
    · split at h
      · simp at h; exact .inr h.symm
      · simp [pure, Except.pure] at h

/-- the RFC 4251 `string` of a body that does not end in a comma is accepted, whatever follows -/
theorem nameListBody_string (body : Bytes) (hl : body.length < 2 ^ 32) (hc : body.getLast? ≠ some comma) (s : Bytes) :
    nameListBody (Spec.Ssh.string body ++ s) = .ok (body, 4 + body.length) := by
  have hlt : body.length < 256 ^ 4 := by
    have : (256 : Nat) ^ 4 = 2 ^ 32 := by decide
    omega
  have hspec : Spec.Ssh.string body = encNat .network 4 body.length ++ body := by
    simp only [Spec.Ssh.string, Spec.sshString, encNat_network, beBytes_eq_spec]
  rw [hspec]
  unfold nameListBody
  have htake : (encNat ByteOrder.network 4 body.length ++ body ++ s).take 4 = encNat .network 4 body.length := by
    rw [List.append_assoc]
    exact List.take_left' (encNat_length _ _ _)
  have hdrop : (encNat ByteOrder.network 4 body.length ++ body ++ s).drop 4 = body ++ s := by
    rw [List.append_assoc]
    exact List.drop_left' (encNat_length _ _ _)
  rw [htake]
  have := parseNum_enc (bo := .network) vs4 hlt []
  rw [List.append_nil] at this
  rw [this]
  simp only [bind, Except.bind, hdrop]
  have hlen : ¬ ((encNat ByteOrder.network 4 body.length ++ body ++ s).length < 4 + body.length) := by
    simp only [List.length_append, encNat_length]; omega
  have htk : (body ++ s).take body.length = body := by simp
  simp only [hlen, if_false, htk]
  have hc' : (body.getLast? == some comma) = false := by simpa using hc
  simp [hc', pure, Except.pure]

/-- FULL (was false before the repair): an accepted body is never shorter than declared -/
theorem nameListBody_complete {bs body : Bytes} {n : Nat} (h : nameListBody bs = .ok (body, n)) :
    Spec.Ssh.takeString bs = some (body, bs.drop n) := by
  obtain ⟨h4, hfull, hb, hbl, hn, _⟩ := nameListBody_ok_inv h
  unfold Spec.Ssh.takeString
  have h1 : ¬ bs.length < 4 := by omega
  have hsp : Spec.fromBytesBE (bs.take 4) = beVal (bs.take 4) := by
    rw [← natOfBE_eq_beVal]; rfl
  have h2 : ¬ (bs.drop 4).length < beVal (bs.take 4) := by
    simp only [List.length_drop]; omega
  simp only [h1, if_false, hsp, h2]
  rw [hb, hn, ← List.drop_drop]

theorem parseNameList_join {codes : List Bytes} (texts : List Bytes) (hg : GoodItems comma texts)
    (ha : ∀ t ∈ texts, isAscii t = true) (hl : (joinItems comma texts).length < 2 ^ 32) (s : Bytes) :
    parseNameList codes (Spec.Ssh.nameList texts ++ s) =
      .ok (texts.map (classify codes), 4 + (joinItems comma texts).length) := by
  have hspec : Spec.Ssh.nameList texts = Spec.Ssh.string (joinItems comma texts) := by
    simp [Spec.Ssh.nameList, joinItems_eq_spec]
  rw [hspec]
  unfold parseNameList
  rw [nameListBody_string _ hl (joinItems_getLast_ne comma texts hg) s]
  simp only [bind, Except.bind]
  cases texts with
  | nil => simp [joinItems, pure, Except.pure]
  | cons a r =>
    have hne := joinItems_ne_nil comma (a :: r) hg (by simp)
    have hemp : (joinItems comma (a :: r)).isEmpty = false := by
      simpa [List.isEmpty_iff] using hne
    simp only [hemp, Bool.false_eq_true, if_false]
    unfold splitItems
    have hasc : isAscii (joinItems comma (a :: r)) = true := isAscii_join _ ha
    simp only [hasc, Bool.not_true, Bool.false_eq_true, if_false]
    rw [splitAux_join comma _ hg (by simp)]
    simp [pure, Except.pure]

/-- RoundTrip: order and unknown names are preserved, whatever follows -/
theorem nameList_roundTrip {codes : List Bytes} (ht : tableOk codes = true) :
    RoundTrip (nameListCodec codes) (fun ns => nameListOk codes ns = true) := by
  intro ns hns
  simp only [nameListOk, Bool.and_eq_true, decide_eq_true_eq] at hns
  obtain ⟨texts, h1, h2, h3, h4, _⟩ := nameTexts_of_ok ht ns hns.1
  have hl : (joinItems comma texts).length < 2 ^ 32 := by
    have := hns.2
    simpa [bodyOf, h1] using this
  refine ⟨Spec.Ssh.nameList texts, composeNameList_eq_spec ns texts h1 hl, ?_⟩
  intro s
  simp only [nameListCodec]
  rw [parseNameList_join texts h2 h3 hl s, h4]
  simp [Spec.Ssh.nameList, Spec.Ssh.string, Spec.sshString, Spec.toBytesBE, joinItems_eq_spec]

theorem splitItems_ok_inv {sep : UInt8} {body : Bytes} {items : List Bytes}
    (h : splitItems sep body = .ok items) :
    items ≠ [] ∧ (body = joinItems sep items ∨ body = joinItems sep items ++ [sep]) := by
  unfold splitItems at h
  split at h
  · simp at h
  · obtain ⟨h1, _, h3⟩ := splitAux_ok_shape sep none body items h
    simp only [Option.getD_none, List.reverse_nil, List.nil_append] at h3
    exact ⟨h1, h3⟩

/-- inversion of a successful parse: the body is complete and is EXACTLY the names joined by commas -/
theorem parseNameList_ok_inv {codes : List Bytes} {bs : Bytes} {ns : List Name} {n : Nat}
    (h : parseNameList codes bs = .ok (ns, n)) :
    ∃ body items, nameListBody bs = .ok (body, n) ∧ nameTexts codes ns = .ok items ∧
      ns = items.map (classify codes) ∧ joinItems comma items = body := by
  unfold parseNameList at h
  cases hb : nameListBody bs with
  | error e => simp [hb, bind, Except.bind] at h
  | ok r =>
    obtain ⟨body, m⟩ := r
    simp only [hb, bind, Except.bind] at h
    split at h
    · next he =>
      simp only [pure, Except.pure, Except.ok.injEq, Prod.mk.injEq] at h
      obtain ⟨h1, h2⟩ := h
      subst h1; subst h2
      have : body = [] := by simpa [List.isEmpty_iff] using he
      exact ⟨body, [], rfl, rfl, rfl, by simp [joinItems, this]⟩
    · cases hs : splitItems comma body with
      | error e => simp [hs] at h
      | ok items =>
        simp only [hs, pure, Except.pure, Except.ok.injEq, Prod.mk.injEq] at h
        obtain ⟨h1, h2⟩ := h
        subst h1; subst h2
        refine ⟨body, items, rfl, nameTexts_map_classify codes items, rfl, ?_⟩
        obtain ⟨_, hshape | hshape⟩ := splitItems_ok_inv hs
        · exact hshape.symm
        · exfalso
          have hc := (nameListBody_ok_inv hb).2.2.2.2.2
          apply hc
          rw [hshape]; simp

theorem nameList_lenBound (codes : List Bytes) : LenBound (nameListCodec codes) := by
  intro bs ns n h
  obtain ⟨body, items, hb, _⟩ := parseNameList_ok_inv h
  have := nameListBody_ok_inv hb
  omega

theorem nameList_positive (codes : List Bytes) : Positive (nameListCodec codes) := by
  intro bs ns n h
  obtain ⟨body, items, hb, _⟩ := parseNameList_ok_inv h
  have := nameListBody_ok_inv hb
  omega

theorem splitItems_no_crash (sep : UInt8) (body : Bytes) (k : String) :
    splitItems sep body ≠ .error (.crash k) := by
  unfold splitItems
  split
  · simp
  · exact splitAux_no_crash _ _ _ _

theorem nameListBody_noCrash (bs : Bytes) (k : String) : nameListBody bs ≠ .error (.crash k) := by
  intro h
  rcases nameListBody_err_inv h with ⟨_, h⟩ | h <;> cases h

theorem nameList_noCrash (codes : List Bytes) : NoCrash (nameListCodec codes) := by
  intro bs k
  simp only [nameListCodec]
  unfold parseNameList
  cases hb : nameListBody bs with
  | error e =>
    simp only [bind, Except.bind]
    intro h; cases h
    exact nameListBody_noCrash _ _ hb
  | ok r =>
    obtain ⟨body, m⟩ := r
    simp only [bind, Except.bind]
    split
    · simp [pure, Except.pure]
    · cases hs : splitItems comma body with
      | error e =>
        intro h; cases h
        exact splitItems_no_crash _ _ _ hs
      | ok items => simp [pure, Except.pure]

/-- every proper prefix of a composed name-list is `NotEnoughData` with `1 ≤ m ≤` really missing
(true since the repair) -/
theorem nameListBody_prefix (body : Bytes) (hl : body.length < 2 ^ 32) (j : Nat) (hj : j < 4 + body.length) :
    ∃ m : Nat, nameListBody ((Spec.Ssh.string body).take j) = .error (.notEnough m) ∧ 1 ≤ m ∧
      m ≤ 4 + body.length - j := by
  have hlt : body.length < 256 ^ 4 := by
    have : (256 : Nat) ^ 4 = 2 ^ 32 := by decide
    omega
  have hspec : Spec.Ssh.string body = encNat .network 4 body.length ++ body := by
    simp only [Spec.Ssh.string, Spec.sshString, encNat_network, beBytes_eq_spec]
  rw [hspec]
  unfold nameListBody
  by_cases hj4 : j < 4
  · refine ⟨4 - j, ?_, by omega, by omega⟩
    have hl1 : (((encNat ByteOrder.network 4 body.length ++ body).take j).take 4).length = j := by
      simp only [List.length_take, List.length_append, encNat_length]; omega
    rw [parseNum_short (by omega), hl1]
    rfl
  · refine ⟨4 + body.length - j, ?_, by omega, by omega⟩
    have htake : (encNat .network 4 body.length ++ body).take j = encNat .network 4 body.length ++ body.take (j - 4) := by
      rw [List.take_append]
      simp [List.take_of_length_le, show 4 ≤ j by omega]
    rw [htake, List.take_left' (encNat_length _ _ _)]
    have := parseNum_enc (bo := .network) vs4 hlt []
    rw [List.append_nil] at this
    rw [this]
    simp only [bind, Except.bind]
    have hlen : (encNat ByteOrder.network 4 body.length ++ body.take (j - 4)).length < 4 + body.length := by
      simp only [List.length_append, encNat_length, List.length_take]; omega
    simp only [hlen, if_true]
    congr 2
    simp only [List.length_append, encNat_length, List.length_take]
    omega

end Cp.Ssh
