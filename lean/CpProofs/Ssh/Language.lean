import CpProofs.Ssh.Fields
/- Round trip of language-tag lists (`SshLanguageVector`). -/
namespace Cp.Ssh
open Cp Cp.Codec

theorem isAlnum_facts (x : UInt8) (h : isAlnum x = true) : x.toNat < 128 ∧ x ≠ comma ∧ x ≠ hyphen := by
  have hx := x.toNat_lt
  simp only [isAlnum, isAlpha, Bool.or_eq_true, Bool.and_eq_true, decide_eq_true_eq] at h
  refine ⟨by omega, ?_, ?_⟩ <;> intro he <;> subst he <;> simp [comma, hyphen] at h

theorem isAlpha_alnum (x : UInt8) (h : isAlpha x = true) : isAlnum x = true := by simp [isAlnum, h]

/-- a well-formed subtag: 1–8 letters or digits -/
def subtagOk (t : Bytes) : Bool := !t.isEmpty && decide (t.length ≤ 8) && t.all isAlnum

/-- a well-formed tag: a primary subtag of 1–8 letters, then well-formed subtags -/
def tagOk : List Bytes → Bool
  | [] => false
  | p :: rest => !p.isEmpty && decide (p.length ≤ 8) && p.all isAlpha && rest.all subtagOk

theorem subtagOk_good {t : Bytes} (h : subtagOk t = true) :
    t ≠ [] ∧ hyphen ∉ t ∧ comma ∉ t ∧ isAscii t = true ∧ t.length ≤ 8 ∧ t.all isAlnum = true := by
  simp only [subtagOk, Bool.and_eq_true, Bool.not_eq_true', List.isEmpty_eq_false_iff, decide_eq_true_eq] at h
  obtain ⟨⟨h1, h2⟩, h3⟩ := h
  have hall := List.all_eq_true.mp h3
  refine ⟨h1, fun hm => (isAlnum_facts _ (hall _ hm)).2.2 rfl, fun hm => (isAlnum_facts _ (hall _ hm)).2.1 rfl, ?_, h2, h3⟩
  simp only [isAscii, List.all_eq_true, decide_eq_true_eq]
  exact fun x hx => (isAlnum_facts _ (hall _ hx)).1

theorem tagOk_subtags {p : Bytes} {rest : List Bytes} (h : tagOk (p :: rest) = true) :
    subtagOk p = true ∧ (∀ t ∈ rest, subtagOk t = true) ∧ p.length ≤ 8 ∧ p.all isAlpha = true := by
  simp only [tagOk, Bool.and_eq_true, Bool.not_eq_true', List.isEmpty_eq_false_iff, decide_eq_true_eq] at h
  obtain ⟨⟨⟨h1, h2⟩, h3⟩, h4⟩ := h
  refine ⟨?_, List.all_eq_true.mp h4, h2, h3⟩
  simp only [subtagOk, Bool.and_eq_true, Bool.not_eq_true', List.isEmpty_eq_false_iff, decide_eq_true_eq]
  refine ⟨⟨h1, h2⟩, ?_⟩
  exact List.all_eq_true.mpr fun x hx => isAlpha_alnum x (List.all_eq_true.mp h3 x hx)

theorem isAscii_joinItems (sep : UInt8) (hs : sep.toNat < 128) (items : List Bytes)
    (h : ∀ t ∈ items, isAscii t = true) : isAscii (joinItems sep items) = true := by
  induction items with
  | nil => rfl
  | cons a rest ih =>
    cases rest with
    | nil => simpa [joinItems] using h a (by simp)
    | cons b r =>
      simp only [joinItems]
      rw [isAscii_append]
      have ha := h a (by simp)
      have hr := ih (fun t ht => h t (by simp [ht]))
      have hc : isAscii (sep :: joinItems sep (b :: r)) = true := by
        simp only [isAscii, List.all_cons, Bool.and_eq_true, decide_eq_true_eq] at hr ⊢
        exact ⟨hs, hr⟩
      simp [ha, hc]

theorem not_mem_joinItems (c sep : UInt8) (hne : c ≠ sep) (items : List Bytes) (h : ∀ t ∈ items, c ∉ t) :
    c ∉ joinItems sep items := by
  induction items with
  | nil => simp [joinItems]
  | cons a rest ih =>
    cases rest with
    | nil => simpa [joinItems] using h a (by simp)
    | cons b r =>
      simp only [joinItems, List.mem_append, List.mem_cons, not_or]
      exact ⟨h a (by simp), hne, ih (fun t ht => h t (by simp [ht]))⟩

/-- one tag through compose and `parseLanguageTag` -/
theorem languageTag_roundTrip (tag : List Bytes) (h : tagOk tag = true) :
    ∃ item, composeLanguageTag tag = .ok item ∧ item = joinItems hyphen tag ∧ parseLanguageTag item = .ok tag ∧
      item ≠ [] ∧ comma ∉ item ∧ isAscii item = true := by
  cases tag with
  | nil => simp [tagOk] at h
  | cons p rest =>
    obtain ⟨hp, hrest, hp8, hpa⟩ := tagOk_subtags h
    have hall : ∀ t ∈ p :: rest, subtagOk t = true := by
      intro t ht
      simp only [List.mem_cons] at ht
      rcases ht with ht | ht
      · subst ht; exact hp
      · exact hrest t ht
    have hgood : GoodItems hyphen (p :: rest) := fun t ht => ⟨(subtagOk_good (hall t ht)).1, (subtagOk_good (hall t ht)).2.1⟩
    have hasc : isAscii (joinItems hyphen (p :: rest)) = true :=
      isAscii_joinItems hyphen (by decide) _ (fun t ht => (subtagOk_good (hall t ht)).2.2.2.1)
    refine ⟨joinItems hyphen (p :: rest), rfl, rfl, ?_, joinItems_ne_nil hyphen _ hgood (by simp), ?_, hasc⟩
    · unfold parseLanguageTag splitItems
      simp only [hasc, Bool.not_true, Bool.false_eq_true, if_false, splitAux_join hyphen _ hgood (by simp), bind,
        Except.bind]
      have c1 : ¬ (p.length > 8) := by omega
      have c3 : rest.any (fun t => decide (t.length > 8) || !t.all isAlnum) = false := by
        simp only [List.any_eq_false, Bool.or_eq_true, decide_eq_true_eq, Bool.not_eq_true', not_or]
        intro t ht
        have := subtagOk_good (hrest t ht)
        exact ⟨by omega, by simp [this.2.2.2.2.2]⟩
      simp [c1, hpa, c3, pure, Except.pure]
    · exact not_mem_joinItems comma hyphen (by decide) _ (fun t ht => (subtagOk_good (hall t ht)).2.2.1)

theorem languageTags_roundTrip (tags : List (List Bytes)) (h : tags.all tagOk = true) :
    ∃ items, composeLanguageTags tags = .ok items ∧ parseLanguageTags items = .ok tags ∧
      GoodItems comma items ∧ (∀ t ∈ items, isAscii t = true) ∧ items.length = tags.length := by
  induction tags with
  | nil => exact ⟨[], rfl, rfl, by intro n hn; simp at hn, by intro t ht; simp at ht, rfl⟩
  | cons t ts ih =>
    simp only [List.all_cons, Bool.and_eq_true] at h
    obtain ⟨items, h1, h2, h3, h4, h5⟩ := ih h.2
    obtain ⟨item, c1, _, c2, c3, c4, c5⟩ := languageTag_roundTrip t h.1
    refine ⟨item :: items, by simp [composeLanguageTags, c1, h1, bind, Except.bind, pure, Except.pure],
      by simp [parseLanguageTags, c2, h2, bind, Except.bind, pure, Except.pure], ?_, ?_, by simp [h5]⟩
    · intro n hn
      simp only [List.mem_cons] at hn
      rcases hn with hn | hn
      · subst hn; exact ⟨c3, c4⟩
      · exact h3 n hn
    · intro n hn
      simp only [List.mem_cons] at hn
      rcases hn with hn | hn
      · subst hn; exact c5
      · exact h4 n hn

/-- the body a list of tags is composed to -/
def languageBody (tags : List (List Bytes)) : Bytes :=
  match composeLanguageTags tags with
  | .ok items => joinItems comma items
  | .error _ => []

def languageListOk (tags : List (List Bytes)) : Bool :=
  tags.all tagOk && decide ((languageBody tags).length < 2 ^ 32)

theorem languageList_roundTrip : RoundTrip languageListCodec (fun tags => languageListOk tags = true) := by
  intro tags htags
  simp only [languageListOk, Bool.and_eq_true, decide_eq_true_eq] at htags
  obtain ⟨items, h1, h2, h3, h4, h5⟩ := languageTags_roundTrip tags htags.1
  have hl : (joinItems comma items).length < 2 ^ 32 := by simpa [languageBody, h1] using htags.2
  have hlt : (joinItems comma items).length < 256 ^ 4 := by
    have : (256 : Nat) ^ 4 = 2 ^ 32 := by decide
    omega
  refine ⟨Spec.Ssh.string (joinItems comma items), ?_, ?_⟩
  · simp only [languageListCodec, composeLanguageList, h1, bind, Except.bind, composeNum_ok vs4 hlt, pure, Except.pure,
      Spec.Ssh.string, Spec.sshString, encNat_network, beBytes_eq_spec]
  · intro s
    simp only [languageListCodec]
    unfold parseLanguageList
    rw [nameListBody_string _ hl (joinItems_getLast_ne comma items h3) s]
    simp only [bind, Except.bind]
    have hlen : (Spec.Ssh.string (joinItems comma items)).length = 4 + (joinItems comma items).length := by
      simp [Spec.Ssh.string, Spec.sshString, Spec.toBytesBE]
    cases items with
    | nil =>
      have htags' : tags = [] := by
        cases tags with
        | nil => rfl
        | cons a r => simp at h5
      subst htags'
      simp [joinItems, pure, Except.pure, Spec.Ssh.string, Spec.sshString, Spec.toBytesBE]
    | cons a r =>
      have hne := joinItems_ne_nil comma (a :: r) h3 (by simp)
      have hemp : (joinItems comma (a :: r)).isEmpty = false := by
        simpa [List.isEmpty_iff] using hne
      simp only [hemp, Bool.false_eq_true, if_false]
      unfold splitItems
      have hasc : isAscii (joinItems comma (a :: r)) = true := isAscii_join _ h4
      simp only [hasc, Bool.not_true, Bool.false_eq_true, if_false]
      rw [splitAux_join comma _ h3 (by simp)]
      simp [h2, pure, Except.pure, hlen]

theorem composeLanguageTags_eq_map (tags : List (List Bytes)) (h : tags.all tagOk = true) :
    composeLanguageTags tags = .ok (tags.map (joinItems hyphen)) := by
  induction tags with
  | nil => rfl
  | cons t ts ih =>
    simp only [List.all_cons, Bool.and_eq_true] at h
    cases t with
    | nil => simp [tagOk] at h
    | cons p rest => simp [composeLanguageTags, composeLanguageTag, ih h.2, bind, Except.bind, pure, Except.pure]

/-- a composed language list is the RFC 4251 `name-list` of the tags (sub-tags joined by `-`) -/
theorem composeLanguageList_of_ok (tags : List (List Bytes)) (h : languageListOk tags = true) :
    composeLanguageList tags = .ok (Spec.Ssh.nameList (tags.map (joinItems hyphen))) := by
  simp only [languageListOk, Bool.and_eq_true, decide_eq_true_eq] at h
  have h1 := composeLanguageTags_eq_map tags h.1
  have hl : (joinItems comma (tags.map (joinItems hyphen))).length < 256 ^ 4 := by
    have : (256 : Nat) ^ 4 = 2 ^ 32 := by decide
    have := h.2
    simp only [languageBody, h1] at this
    omega
  simp only [composeLanguageList, h1, bind, Except.bind, composeNum_ok vs4 hl, pure, Except.pure, Spec.Ssh.nameList,
    Spec.Ssh.string, Spec.sshString, ← joinItems_eq_spec, encNat_network, beBytes_eq_spec]

end Cp.Ssh
