import CpProofs.Ssh.Fields
import CpProofs.Mpint
import CpSpec.Ssh
/-
  DH / DH-group-exchange / disconnect / unimplemented / newkeys messages: round trip and equality
  with the RFC 4253 §8, §11 and RFC 4419 §3 encodings.
-/
namespace Cp.Ssh
open Cp Cp.Codec

theorem p256_4 : (256 : Nat) ^ 4 = 2 ^ 32 := by decide

theorem composeBytes_eq_string (v : Bytes) (h : v.length < 2 ^ 32) :
    composeBytes .network 4 v = .ok (Spec.Ssh.string v) := by
  rw [composeBytes_ok vs4 v (by rw [p256_4]; exact h), encNat_network, beBytes_eq_spec]
  rfl

theorem composeU32_eq (v : Nat) (h : v < 2 ^ 32) : composeNum .network 4 (v : Int) = .ok (Spec.Ssh.uint32 v) := by
  rw [composeNum_ok vs4 (by rw [p256_4]; exact h), encNat_network, beBytes_eq_spec]
  rfl

theorem composeCode_eq (c : Nat) (h : c < 256) : composeNum .network 1 (c : Int) = .ok [UInt8.ofNat c] := by
  rw [composeNum_ok vs1' (by omega)]
  simp [encNat, ByteOrder.isBig, beBytes, leBytes, Nat.mod_eq_of_lt h]

theorem code_member (c : Nat) (h : c ∈ [1, 3, 20, 21, 30, 31, 32, 33, 34]) :
    Gen.SshMessageCode.memberCodes.contains c = true := by
  simp only [List.mem_cons, List.not_mem_nil, or_false] at h
  rcases h with h | h | h | h | h | h | h | h | h <;> subst h <;> decide

/-! ### SSH_MSG_KEXDH_INIT / SSH_MSG_KEX_DH_GEX_INIT: `byte code ‖ mpint e` -/

theorem dhInit_roundTrip (code : Nat) (hc : code < 256) (hm : Gen.SshMessageCode.memberCodes.contains code = true) :
    RoundTrip (dhInitCodec code) (fun p => True ∧ p.2.length < 256 ^ 4) :=
  seq_roundTrip (msgCode_roundTrip hc hm) (bytesPrefixed_roundTrip .network vs4)

/-- with the data bytes of the `mpint` of `e` as the ephemeral key the message is the RFC one -/
theorem dhInit_compose_spec (e : Nat) (h : (Spec.sshMpintBodyNonneg e).length < 2 ^ 32) :
    (dhInitCodec 30).compose ((), Spec.sshMpintBodyNonneg e) = .ok (Spec.Ssh.encodeKexdhInit e) ∧
    (dhInitCodec 32).compose ((), Spec.sshMpintBodyNonneg e) = .ok (Spec.Ssh.encodeGexInit e) := by
  have h30 := composeCode_eq 30 (by decide)
  have h32 := composeCode_eq 32 (by decide)
  constructor
  · simp only [dhInitCodec, seq, msgCodeCodec, sshBytes, bytesPrefixed, bind, Except.bind, h30,
      composeBytes_eq_string _ h, pure, Except.pure]
    rfl
  · simp only [dhInitCodec, seq, msgCodeCodec, sshBytes, bytesPrefixed, bind, Except.bind, h32,
      composeBytes_eq_string _ h, pure, Except.pure]
    rfl

/-! ### SSH_MSG_KEX_DH_GEX_REQUEST: `byte 34 ‖ uint32 min ‖ uint32 n ‖ uint32 max` -/

theorem gexRequest_roundTrip :
    RoundTrip gexRequestCodec (fun p => True ∧ p.2.1 < 256 ^ 4 ∧ p.2.2.1 < 256 ^ 4 ∧ p.2.2.2 < 256 ^ 4) :=
  seq_roundTrip (msgCode_roundTrip (by decide) (by decide)) <|
  seq_roundTrip (num_roundTrip .network vs4) <|
  seq_roundTrip (num_roundTrip .network vs4) (num_roundTrip .network vs4)

theorem gexRequest_compose_spec (a b c : Nat) (ha : a < 2 ^ 32) (hb : b < 2 ^ 32) (hc : c < 2 ^ 32) :
    gexRequestCodec.compose ((), a, b, c) = .ok (Spec.Ssh.encodeGexRequest a b c) := by
  have h34 := composeCode_eq 34 (by decide)
  simp only [gexRequestCodec, seq, msgCodeCodec, u32, num, bind, Except.bind, h34, composeU32_eq _ ha,
    composeU32_eq _ hb, composeU32_eq _ hc, pure, Except.pure, Spec.Ssh.encodeGexRequest]
  simp [Spec.Ssh.SSH_MSG_KEX_DH_GEX_REQUEST]

/-! ### SSH_MSG_KEX_DH_GEX_GROUP: `byte 31 ‖ mpint p ‖ mpint g` -/

theorem gexGroup_roundTrip :
    RoundTrip gexGroupCodec (fun p => True ∧ p.2.1.length < 256 ^ 4 ∧ p.2.2.length < 256 ^ 4) :=
  seq_roundTrip (msgCode_roundTrip (by decide) (by decide)) <|
  seq_roundTrip (bytesPrefixed_roundTrip .network vs4) (bytesPrefixed_roundTrip .network vs4)

theorem gexGroup_compose_spec (p g : Nat) (hp : (Spec.sshMpintBodyNonneg p).length < 2 ^ 32)
    (hg : (Spec.sshMpintBodyNonneg g).length < 2 ^ 32) :
    gexGroupCodec.compose ((), Spec.sshMpintBodyNonneg p, Spec.sshMpintBodyNonneg g) =
      .ok (Spec.Ssh.encodeGexGroup p g) := by
  have h31 := composeCode_eq 31 (by decide)
  simp only [gexGroupCodec, seq, msgCodeCodec, sshBytes, bytesPrefixed, bind, Except.bind, h31,
    composeBytes_eq_string _ hp, composeBytes_eq_string _ hg, pure, Except.pure]
  simp [Spec.Ssh.encodeGexGroup, Spec.Ssh.SSH_MSG_KEX_DH_GEX_GROUP, Spec.Ssh.mpint, Spec.sshMpintNonneg,
    Spec.Ssh.string]

/-! ### SSH_MSG_UNIMPLEMENTED, SSH_MSG_NEWKEYS -/

theorem unimplemented_roundTrip : RoundTrip unimplementedCodec (fun p => True ∧ p.2 < 256 ^ 4) :=
  seq_roundTrip (msgCode_roundTrip (by decide) (by decide)) (num_roundTrip .network vs4)

theorem unimplemented_compose_spec (s : Nat) (h : s < 2 ^ 32) :
    unimplementedCodec.compose ((), s) = .ok (Spec.Ssh.encodeUnimplemented s) := by
  have h3 := composeCode_eq 3 (by decide)
  simp only [unimplementedCodec, seq, msgCodeCodec, u32, num, bind, Except.bind, h3, composeU32_eq _ h, pure,
    Except.pure, Spec.Ssh.encodeUnimplemented]
  simp [Spec.Ssh.SSH_MSG_UNIMPLEMENTED]

theorem newKeys_roundTrip : RoundTrip newKeysCodec (fun _ => True) :=
  msgCode_roundTrip (by decide) (by decide)

theorem newKeys_compose_spec : newKeysCodec.compose () = .ok Spec.Ssh.encodeNewKeys := by decide

/-! ### SSH_MSG_DISCONNECT: `byte 1 ‖ uint32 reason ‖ string description (UTF-8) ‖ string language tag` -/

def reasonCodec : Codec Nat :=
  ⟨parseIntEnum Gen.SshReasonCode.memberCodes 4, fun v => composeNum .network 4 (v : Int)⟩

theorem reason_roundTrip :
    RoundTrip reasonCodec (fun v => Gen.SshReasonCode.memberCodes.contains v = true) := by
  intro v hv
  have hlt : v < 256 ^ 4 := by
    have : ∀ c ∈ Gen.SshReasonCode.memberCodes, c < 256 ^ 4 := by decide
    exact this v (List.contains_iff_mem.mp hv)
  refine ⟨encNat .network 4 v, composeNum_ok vs4 hlt, ?_⟩
  intro s
  simp only [reasonCodec]
  rw [parseIntEnum_enc vs4 hlt hv]
  simp

theorem utf8String_roundTrip :
    RoundTrip utf8String (fun v => validUtf8 v = true ∧ v.length < 256 ^ 4) := by
  intro v ⟨hu, hl⟩
  refine ⟨encNat .network 4 v.length ++ v, composeBytes_ok vs4 v hl, ?_⟩
  intro s
  simp only [utf8String]
  rw [parseBytes_append vs4 v s hl]
  simp [bind, Except.bind, hu, pure, Except.pure]

theorem asciiString_roundTrip :
    RoundTrip asciiString (fun v => isAscii v = true ∧ v.length < 256 ^ 4) := by
  intro v ⟨hu, hl⟩
  refine ⟨encNat .network 4 v.length ++ v, composeBytes_ok vs4 v hl, ?_⟩
  intro s
  simp only [asciiString, parseAsciiString]
  rw [parseBytes_append vs4 v s hl]
  simp [bind, Except.bind, hu, pure, Except.pure]

theorem disconnect_roundTrip :
    RoundTrip disconnectCodec (fun p => True ∧ Gen.SshReasonCode.memberCodes.contains p.2.1 = true ∧
      (validUtf8 p.2.2.1 = true ∧ p.2.2.1.length < 256 ^ 4) ∧ (isAscii p.2.2.2 = true ∧ p.2.2.2.length < 256 ^ 4)) :=
  seq_roundTrip (msgCode_roundTrip (by decide) (by decide)) <|
  seq_roundTrip reason_roundTrip <| seq_roundTrip utf8String_roundTrip asciiString_roundTrip

theorem disconnect_compose_spec (r : Nat) (d l : Bytes) (hr : r < 2 ^ 32) (hd : d.length < 2 ^ 32)
    (hl : l.length < 2 ^ 32) :
    disconnectCodec.compose ((), r, d, l) = .ok (Spec.Ssh.encodeDisconnect r d l) := by
  have h1 := composeCode_eq 1 (by decide)
  simp only [disconnectCodec, seq, msgCodeCodec, utf8String, asciiString, composeAsciiString, bind, Except.bind, h1,
    composeU32_eq _ hr, composeBytes_eq_string _ hd, composeBytes_eq_string _ hl, pure, Except.pure,
    Spec.Ssh.encodeDisconnect]
  simp [Spec.Ssh.SSH_MSG_DISCONNECT]

end Cp.Ssh
