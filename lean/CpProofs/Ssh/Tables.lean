import CpProofs.Ssh.NameList
/- Per-table obligations of the SSH name tables, decided on the regenerated data. -/
namespace Cp.Ssh
open Cp

theorem kex_tableOk : tableOk Gen.Ssh.SshKexAlgorithm = true := by decide +kernel
theorem hostKey_tableOk : tableOk Gen.Ssh.SshHostKeyAlgorithm = true := by decide +kernel
theorem enc_tableOk : tableOk Gen.Ssh.SshEncryptionAlgorithm = true := by decide +kernel
theorem mac_tableOk : tableOk Gen.Ssh.SshMacAlgorithm = true := by decide +kernel
theorem comp_tableOk : tableOk Gen.Ssh.SshCompressionAlgorithm = true := by decide +kernel
theorem curve_tableOk : tableOk Gen.Ssh.SshEllipticCurveIdentifier = true := by decide +kernel

end Cp.Ssh
