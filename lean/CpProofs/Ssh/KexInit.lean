import CpProofs.Ssh.Fields
import CpProofs.Ssh.Tables
import CpProofs.Ssh.Language
/-
  SSH_MSG_KEXINIT: round trip, equality with the RFC 4253 §7.1 encoding, and the HASSH preimage.
-/
namespace Cp.Ssh
open Cp Cp.Codec

/-- the constructible, round-tripping KEXINIT values -/
def kexInitOk (k : KexInit) : Bool :=
  k.cookie.length == 16 &&
  nameListOk Gen.Ssh.SshKexAlgorithm k.kex && nameListOk Gen.Ssh.SshHostKeyAlgorithm k.hostKey &&
  nameListOk Gen.Ssh.SshEncryptionAlgorithm k.encC2S && nameListOk Gen.Ssh.SshEncryptionAlgorithm k.encS2C &&
  nameListOk Gen.Ssh.SshMacAlgorithm k.macC2S && nameListOk Gen.Ssh.SshMacAlgorithm k.macS2C &&
  nameListOk Gen.Ssh.SshCompressionAlgorithm k.compC2S && nameListOk Gen.Ssh.SshCompressionAlgorithm k.compS2C &&
  languageListOk k.langC2S && languageListOk k.langS2C && decide (k.reserved < 2 ^ 32)

theorem kexinit_code_member : Gen.SshMessageCode.memberCodes.contains 20 = true := by decide

theorem kexInitTuple_roundTrip :
    RoundTrip kexInitTupleCodec (fun p =>
      True ∧ p.2.1.length = 16 ∧
      nameListOk Gen.Ssh.SshKexAlgorithm p.2.2.1 = true ∧
      nameListOk Gen.Ssh.SshHostKeyAlgorithm p.2.2.2.1 = true ∧
      nameListOk Gen.Ssh.SshEncryptionAlgorithm p.2.2.2.2.1 = true ∧
      nameListOk Gen.Ssh.SshEncryptionAlgorithm p.2.2.2.2.2.1 = true ∧
      nameListOk Gen.Ssh.SshMacAlgorithm p.2.2.2.2.2.2.1 = true ∧
      nameListOk Gen.Ssh.SshMacAlgorithm p.2.2.2.2.2.2.2.1 = true ∧
      nameListOk Gen.Ssh.SshCompressionAlgorithm p.2.2.2.2.2.2.2.2.1 = true ∧
      nameListOk Gen.Ssh.SshCompressionAlgorithm p.2.2.2.2.2.2.2.2.2.1 = true ∧
      languageListOk p.2.2.2.2.2.2.2.2.2.2.1 = true ∧ languageListOk p.2.2.2.2.2.2.2.2.2.2.2.1 = true ∧
      True ∧ p.2.2.2.2.2.2.2.2.2.2.2.2.2 < 256 ^ 4) :=
  seq_roundTrip (msgCode_roundTrip (by decide) kexinit_code_member) <|
  seq_roundTrip (rawN_roundTrip 16) <|
  seq_roundTrip (nameList_roundTrip kex_tableOk) <|
  seq_roundTrip (nameList_roundTrip hostKey_tableOk) <|
  seq_roundTrip (nameList_roundTrip enc_tableOk) <|
  seq_roundTrip (nameList_roundTrip enc_tableOk) <|
  seq_roundTrip (nameList_roundTrip mac_tableOk) <|
  seq_roundTrip (nameList_roundTrip mac_tableOk) <|
  seq_roundTrip (nameList_roundTrip comp_tableOk) <|
  seq_roundTrip (nameList_roundTrip comp_tableOk) <|
  seq_roundTrip languageList_roundTrip <|
  seq_roundTrip languageList_roundTrip <|
  seq_roundTrip bool_roundTrip (num_roundTrip .network vs4)

/-- compose ∘ parse on every well-formed KEXINIT, with anything after it -/
theorem kexInit_roundTrip : RoundTrip kexInitCodec (fun k => kexInitOk k = true) := by
  apply mapE_roundTrip kexInitTuple_roundTrip
  intro k hk
  simp only [kexInitOk, Bool.and_eq_true, beq_iff_eq, List.isEmpty_iff, decide_eq_true_eq] at hk
  obtain ⟨⟨⟨⟨⟨⟨⟨⟨⟨⟨⟨h1, h2⟩, h3⟩, h4⟩, h5⟩, h6⟩, h7⟩, h8⟩, h9⟩, h10⟩, h11⟩, h12⟩ := hk
  refine ⟨⟨trivial, h1, h2, h3, h4, h5, h6, h7, h8, h9, h10, h11, trivial, ?_⟩, rfl⟩
  have : (256 : Nat) ^ 4 = 2 ^ 32 := by decide
  simp only [KexInit.toTuple]
  omega

theorem kexInit_lenBound : LenBound kexInitCodec :=
  mapE_lenBound <|
  seq_lenBound (msgCode_lenBound 20) <| seq_lenBound (rawN_lenBound 16) <|
  seq_lenBound (nameList_lenBound _) <| seq_lenBound (nameList_lenBound _) <|
  seq_lenBound (nameList_lenBound _) <| seq_lenBound (nameList_lenBound _) <|
  seq_lenBound (nameList_lenBound _) <| seq_lenBound (nameList_lenBound _) <|
  seq_lenBound (nameList_lenBound _) <| seq_lenBound (nameList_lenBound _) <|
  seq_lenBound languageList_lenBound <| seq_lenBound languageList_lenBound <|
  seq_lenBound bool_lenBound (num_lenBound .network 4)

theorem kexInit_positive : Positive kexInitCodec :=
  mapE_positive (seq_positive_left (msgCode_positive 20))

/-! ### equality with the RFC 4253 §7.1 encoding -/

/-- the texts a list of names is composed to -/
def textsOf (codes : List Bytes) (ns : List Name) : List Bytes :=
  match nameTexts codes ns with
  | .ok t => t
  | .error _ => []

/-- the RFC-level value a model KEXINIT stands for -/
def specOf (k : KexInit) : Spec.Ssh.KexInit :=
  ⟨k.cookie, textsOf Gen.Ssh.SshKexAlgorithm k.kex, textsOf Gen.Ssh.SshHostKeyAlgorithm k.hostKey,
    textsOf Gen.Ssh.SshEncryptionAlgorithm k.encC2S, textsOf Gen.Ssh.SshEncryptionAlgorithm k.encS2C,
    textsOf Gen.Ssh.SshMacAlgorithm k.macC2S, textsOf Gen.Ssh.SshMacAlgorithm k.macS2C,
    textsOf Gen.Ssh.SshCompressionAlgorithm k.compC2S, textsOf Gen.Ssh.SshCompressionAlgorithm k.compS2C,
    k.langC2S.map (joinItems hyphen), k.langS2C.map (joinItems hyphen), k.firstKexPacketFollows, k.reserved⟩

theorem composeNameList_of_ok {codes : List Bytes} (ht : tableOk codes = true) {ns : List Name}
    (h : nameListOk codes ns = true) :
    composeNameList codes ns = .ok (Spec.Ssh.nameList (textsOf codes ns)) := by
  simp only [nameListOk, Bool.and_eq_true, decide_eq_true_eq] at h
  obtain ⟨texts, h1, _, _, _, _⟩ := nameTexts_of_ok ht ns h.1
  have hl : (joinItems comma texts).length < 2 ^ 32 := by simpa [bodyOf, h1] using h.2
  rw [composeNameList_eq_spec ns texts h1 hl]
  simp [textsOf, h1]

/-- the composed KEXINIT is byte for byte `byte 20 ‖ cookie ‖ ten name-lists ‖ boolean ‖ uint32` -/
theorem kexInit_compose_spec (k : KexInit) (hk : kexInitOk k = true) :
    kexInitCodec.compose k = .ok (Spec.Ssh.encodeKexInit (specOf k)) := by
  simp only [kexInitOk, Bool.and_eq_true, beq_iff_eq, List.isEmpty_iff, decide_eq_true_eq] at hk
  obtain ⟨⟨⟨⟨⟨⟨⟨⟨⟨⟨⟨h1, h2⟩, h3⟩, h4⟩, h5⟩, h6⟩, h7⟩, h8⟩, h9⟩, h10⟩, h11⟩, h12⟩ := hk
  have hr : k.reserved < 256 ^ 4 := by
    have : (256 : Nat) ^ 4 = 2 ^ 32 := by decide
    omega
  have hb : composeNum .network 1 (if k.firstKexPacketFollows = true then 1 else 0) =
      .ok (Spec.Ssh.boolean k.firstKexPacketFollows) := by
    cases k.firstKexPacketFollows <;> decide
  simp only [kexInitCodec, mapE, kexInitTupleCodec, seq, KexInit.toTuple, msgCodeCodec, rawN, kexCodec, hostKeyAlgCodec,
    encCodec, macCodec, compCodec, nameListCodec, languageListCodec, boolCodec, u32, num, bind, Except.bind,
    pure, Except.pure]
  rw [composeNameList_of_ok kex_tableOk h2, composeNameList_of_ok hostKey_tableOk h3,
    composeNameList_of_ok enc_tableOk h4, composeNameList_of_ok enc_tableOk h5,
    composeNameList_of_ok mac_tableOk h6, composeNameList_of_ok mac_tableOk h7,
    composeNameList_of_ok comp_tableOk h8, composeNameList_of_ok comp_tableOk h9,
    composeLanguageList_of_ok _ h10, composeLanguageList_of_ok _ h11, hb,
    composeNum_ok vs4 hr]
  have h20 : composeNum .network 1 ((20 : Nat) : Int) = .ok [20] := by decide
  simp only [h20]
  simp only [Spec.Ssh.encodeKexInit, specOf, Spec.Ssh.SSH_MSG_KEXINIT, Spec.Ssh.uint32, encNat_network, beBytes_eq_spec,
    List.append_assoc]

/-- parsing the RFC encoding of a well-formed value gives the value back and consumes exactly the
encoding, whatever follows -/
theorem kexInit_parse_spec (k : KexInit) (hk : kexInitOk k = true) (s : Bytes) :
    kexInitCodec.parse (Spec.Ssh.encodeKexInit (specOf k) ++ s) =
      .ok (k, (Spec.Ssh.encodeKexInit (specOf k)).length) := by
  obtain ⟨b, hb, hp⟩ := kexInit_roundTrip k hk
  rw [kexInit_compose_spec k hk] at hb
  cases hb
  exact hp s

end Cp.Ssh
