import CpModel.Ssh.Msg
import CpProofs.Ssh.NameList
/- Laws of the small field codecs of the SSH messages. -/
namespace Cp.Ssh
open Cp Cp.Codec

theorem vs1' : validSize 1 = true := rfl

/-! ### message code -/

theorem parseIntEnum_ok_inv {mc : List Nat} {k : Nat} {bs : Bytes} {c n : Nat}
    (h : parseIntEnum mc k bs = .ok (c, n)) : parseNum .network k bs = .ok (c, n) ∧ mc.contains c = true := by
  unfold parseIntEnum at h
  cases hp : parseNum .network k bs with
  | error e => simp [hp, bind, Except.bind] at h
  | ok r =>
    obtain ⟨c', m⟩ := r
    simp only [hp, bind, Except.bind] at h
    split at h
    · next hc =>
      simp [pure, Except.pure] at h
      obtain ⟨h1, h2⟩ := h
      subst h1; subst h2
      exact ⟨rfl, hc⟩
    · simp at h

theorem parseIntEnum_err_inv {mc : List Nat} {k : Nat} {bs : Bytes} {e : PErr}
    (h : parseIntEnum mc k bs = .error e) : parseNum .network k bs = .error e ∨ e = .invalidValue := by
  unfold parseIntEnum at h
  cases hp : parseNum .network k bs with
  | error e' =>
    simp [hp, bind, Except.bind] at h
    exact .inl (by rw [h])
  | ok r =>
    obtain ⟨c', m⟩ := r
    simp only [hp, bind, Except.bind] at h
    split at h
    · simp [pure, Except.pure] at h
    · simp at h; exact .inr h.symm

theorem parseIntEnum_enc {mc : List Nat} {k c : Nat} (hk : validSize k = true) (hc : c < 256 ^ k)
    (hm : mc.contains c = true) (s : Bytes) :
    parseIntEnum mc k (encNat .network k c ++ s) = .ok (c, k) := by
  unfold parseIntEnum
  rw [parseNum_enc hk hc]
  simp only [bind, Except.bind, hm, if_true, pure, Except.pure]

theorem msgCode_parse_ok_inv {code : Nat} {bs : Bytes} {u : Unit} {n : Nat}
    (h : (msgCodeCodec code).parse bs = .ok (u, n)) :
    n = 1 ∧ parseNum .network 1 bs = .ok (code, 1) := by
  simp only [msgCodeCodec] at h
  cases hp : parseIntEnum Gen.SshMessageCode.memberCodes 1 bs with
  | error e => simp [hp, bind, Except.bind] at h
  | ok r =>
    obtain ⟨c, m⟩ := r
    obtain ⟨h1, _⟩ := parseIntEnum_ok_inv hp
    have hm := (parseNum_ok_inv h1).1
    subst hm
    simp only [hp, bind, Except.bind] at h
    split at h
    · simp at h
    · next hc =>
      simp [pure, Except.pure] at h hc
      subst hc
      exact ⟨h.symm, h1⟩

theorem msgCode_roundTrip {code : Nat} (hc : code < 256)
    (hm : Gen.SshMessageCode.memberCodes.contains code = true) :
    RoundTrip (msgCodeCodec code) (fun _ => True) := by
  intro v _
  have h1 : code < 256 ^ 1 := by omega
  refine ⟨encNat .network 1 code, composeNum_ok vs1' h1, ?_⟩
  intro s
  simp only [msgCodeCodec]
  rw [parseIntEnum_enc vs1' h1 hm]
  simp [bind, Except.bind, pure, Except.pure]

theorem msgCode_lenBound (code : Nat) : LenBound (msgCodeCodec code) := by
  intro bs u n h
  obtain ⟨hn, hp⟩ := msgCode_parse_ok_inv h
  have := (parseNum_ok_inv hp).2.1
  omega

theorem msgCode_positive (code : Nat) : Positive (msgCodeCodec code) := by
  intro bs u n h
  have := (msgCode_parse_ok_inv h).1
  omega

theorem msgCode_noCrash (code : Nat) : NoCrash (msgCodeCodec code) := by
  intro bs k
  simp only [msgCodeCodec]
  cases hp : parseIntEnum Gen.SshMessageCode.memberCodes 1 bs with
  | error e =>
    simp only [bind, Except.bind]
    intro h; cases h
    rcases parseIntEnum_err_inv hp with h | h
    · exact parseNum_no_crash vs1' _ _ h
    · cases h
  | ok r =>
    obtain ⟨c, m⟩ := r
    simp only [bind, Except.bind]
    split <;> simp [pure, Except.pure]

theorem msgCode_selfDelim (code : Nat) : SelfDelim (msgCodeCodec code) := by
  intro bs u n h s
  obtain ⟨hn, hp⟩ := msgCode_parse_ok_inv h
  subst hn
  have hsd := num_selfDelim .network 1 bs code 1 hp s
  simp only [num] at hsd
  simp only [msgCodeCodec, parseIntEnum] at h ⊢
  rw [hp] at h
  rw [hsd]
  exact h

/-! ### raw bytes of a fixed length -/

theorem rawN_roundTrip (n : Nat) : RoundTrip (rawN n) (fun v => v.length = n) := by
  intro v hv
  refine ⟨v, rfl, ?_⟩
  intro s
  simp only [rawN]
  rw [← hv]
  exact parseRaw_nat_append v s

theorem rawN_lenBound (n : Nat) : LenBound (rawN n) := by
  intro bs v k h
  simp only [rawN] at h
  exact (parseRaw_ok_inv h).2.2.1

theorem rawN_noCrash (n : Nat) : NoCrash (rawN n) := by
  intro bs k
  simp only [rawN]
  exact parseRaw_no_crash _ _ k

theorem rawN_parse_ok_inv {n : Nat} {bs v : Bytes} {k : Nat} (h : (rawN n).parse bs = .ok (v, k)) :
    k = n ∧ n ≤ bs.length ∧ v = bs.take n := by
  simp only [rawN] at h
  obtain ⟨_, h1, h2, h3⟩ := parseRaw_ok_inv h
  simp at h1
  subst h1
  exact ⟨rfl, h2, h3⟩

/-! ### boolean -/

theorem bool_roundTrip : RoundTrip boolCodec (fun _ => True) := by
  intro b _
  cases b with
  | false =>
    refine ⟨[0], by decide, ?_⟩
    intro s
    simp only [boolCodec]
    rw [parseNum_append vs1' [0] s rfl]
    simp [bind, Except.bind, pure, Except.pure, decNat, ByteOrder.isBig, beVal, leVal]
  | true =>
    refine ⟨[1], by decide, ?_⟩
    intro s
    simp only [boolCodec]
    rw [parseNum_append vs1' [1] s rfl]
    simp [bind, Except.bind, pure, Except.pure, decNat, ByteOrder.isBig, beVal, leVal]

theorem bool_parse_ok_inv {bs : Bytes} {b : Bool} {n : Nat} (h : boolCodec.parse bs = .ok (b, n)) :
    n = 1 ∧ 1 ≤ bs.length := by
  simp only [boolCodec] at h
  cases hp : parseNum .network 1 bs with
  | error e => simp [hp, bind, Except.bind] at h
  | ok r =>
    obtain ⟨c, m⟩ := r
    obtain ⟨hm, hl, _⟩ := parseNum_ok_inv hp
    simp [hp, bind, Except.bind, pure, Except.pure] at h
    omega

theorem bool_lenBound : LenBound boolCodec := by
  intro bs b n h
  have := bool_parse_ok_inv h
  omega

theorem bool_noCrash : NoCrash boolCodec := by
  intro bs k
  simp only [boolCodec]
  cases hp : parseNum .network 1 bs with
  | error e =>
    simp only [bind, Except.bind]
    intro h; cases h
    exact parseNum_no_crash vs1' _ _ hp
  | ok r => simp [bind, Except.bind, pure, Except.pure]

/-! ### language lists -/

theorem languageList_parse_ok_inv {bs : Bytes} {v : List (List Bytes)} {n : Nat}
    (h : parseLanguageList bs = .ok (v, n)) : ∃ body, nameListBody bs = .ok (body, n) := by
  unfold parseLanguageList at h
  cases hb : nameListBody bs with
  | error e => simp [hb, bind, Except.bind] at h
  | ok r =>
    obtain ⟨body, m⟩ := r
    simp only [hb, bind, Except.bind] at h
    split at h
    · simp only [pure, Except.pure, Except.ok.injEq, Prod.mk.injEq] at h
      exact ⟨body, by rw [h.2]⟩
    · cases hs : splitItems comma body with
      | error e => simp [hs] at h
      | ok items =>
        simp only [hs] at h
        cases ht : parseLanguageTags items with
        | error e => simp [ht] at h
        | ok tags =>
          simp only [ht, pure, Except.pure, Except.ok.injEq, Prod.mk.injEq] at h
          exact ⟨body, by rw [h.2]⟩

theorem languageList_lenBound : LenBound languageListCodec := by
  intro bs v n h
  obtain ⟨body, hb⟩ := languageList_parse_ok_inv h
  have := nameListBody_ok_inv hb
  omega

end Cp.Ssh
