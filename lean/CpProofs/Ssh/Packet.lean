import CpModel.Ssh.Msg
import CpProofs.Ssh.NameList
/-
  The SSH binary packet (`SshRecordBase`): padding arithmetic, conformance of the composed form,
  and the codec laws around an arbitrary message codec.
-/
namespace Cp.Ssh
open Cp Cp.Codec

/-- the padding rule, for every payload length -/
theorem padLen_spec (payload : Nat) :
    4 ≤ padLen payload ∧ padLen payload ≤ 11 ∧ (4 + 1 + payload + padLen payload) % 8 = 0 ∧
      padLen payload = Spec.Ssh.paddingLength payload := by
  unfold padLen Spec.Ssh.paddingLength
  simp only []
  split <;> split <;> omega

theorem vs1 : validSize 1 = true := rfl

theorem encNat1 (p : Nat) (hp : p < 256) : encNat .network 1 p = [UInt8.ofNat p] := by
  simp [encNat, ByteOrder.isBig, beBytes, leBytes, Nat.mod_eq_of_lt hp]

/-- what `compose` produces around a composed payload -/
theorem record_compose_eq {α : Type} {m : Codec α} {v : α} {payload : Bytes} (h : m.compose v = .ok payload)
    (hl : payload.length + 12 < 2 ^ 32) :
    (recordCodec m).compose v = .ok (encNat .network 4 (payload.length + padLen payload.length + 1) ++
      encNat .network 1 (padLen payload.length) ++ payload ++ List.replicate (padLen payload.length) 0) := by
  obtain ⟨h4, h11, _, _⟩ := padLen_spec payload.length
  have h1 : payload.length + padLen payload.length + 1 < 256 ^ 4 := by
    have : (256 : Nat) ^ 4 = 2 ^ 32 := by decide
    omega
  have h2 : padLen payload.length < 256 ^ 1 := by omega
  simp only [recordCodec, h, bind, Except.bind]
  rw [composeNum_ok vs4 h1, composeNum_ok vs1 h2]
  rfl

/-- the composed packet is the RFC 4253 §6 packet with the least admissible padding -/
theorem record_compose_spec {α : Type} {m : Codec α} {v : α} {payload : Bytes} (h : m.compose v = .ok payload)
    (hl : payload.length + 12 < 2 ^ 32) :
    (recordCodec m).compose v = .ok (Spec.Ssh.binaryPacket payload) := by
  obtain ⟨h4, h11, _, hs⟩ := padLen_spec payload.length
  rw [record_compose_eq h hl, encNat1 _ (by omega), encNat_network, beBytes_eq_spec]
  simp only [Spec.Ssh.binaryPacket, Spec.Ssh.uint32, ← hs]
  have : payload.length + padLen payload.length + 1 = 1 + payload.length + padLen payload.length := by omega
  rw [this]

theorem binaryPacket_conformant (payload : Bytes) :
    Spec.Ssh.IsBinaryPacket (Spec.Ssh.binaryPacket payload) payload := by
  obtain ⟨h4, h11, h8, hs⟩ := padLen_spec payload.length
  refine ⟨List.replicate (Spec.Ssh.paddingLength payload.length) 0, ?_, ?_, ?_, ?_⟩
  · simp only [List.length_replicate]; omega
  · simp only [List.length_replicate]; omega
  · simp only [List.length_replicate]; omega
  · simp [Spec.Ssh.binaryPacket]

theorem binaryPacket_length (payload : Bytes) :
    (Spec.Ssh.binaryPacket payload).length = 4 + (1 + payload.length + Spec.Ssh.paddingLength payload.length) := by
  simp [Spec.Ssh.binaryPacket, Spec.Ssh.uint32, Spec.toBytesBE]
  omega

/-! ### inversion of a successful parse -/

theorem parseRaw_nat_ok (k : Nat) (rest : Bytes) (h : k ≤ rest.length) :
    parseRaw (k : Int) rest = .ok (rest.take k, k) := by
  unfold parseRaw
  have h1 : ¬ ((k : Int) < 0) := by omega
  have h2 : ¬ (rest.length < k) := by omega
  simp [h1, h2]

theorem parseNum_val {bo : ByteOrder} {k : Nat} {b : Bytes} {v n : Nat} (h : parseNum bo k b = .ok (v, n)) :
    v = decNat bo (b.take k) := by
  unfold parseNum at h
  split at h
  · simp at h
  · split at h
    · simp at h
    · simp at h; exact h.1.symm

/-- the declared `packet_length` of a buffer -/
def declaredLength (b : Bytes) : Nat := beVal (b.take 4)

theorem parsePayload_ok_inv {α : Type} {m : Codec α} {payload : Bytes} {v : α}
    (h : parsePayload m payload = .ok v) : ∃ k, m.parse payload = .ok (v, k) ∧ payload.length ≤ k := by
  unfold parsePayload at h
  split at h
  · next v' k hk =>
    split at h
    · simp at h
    · next hlen =>
      simp at h; subst h
      exact ⟨k, hk, by omega⟩
  · simp at h
  · simp at h
  · next e _ _ hk => simp at h

theorem parsePayload_noCrash {α : Type} {m : Codec α} (hm : NoCrash m) (payload : Bytes) (c : String) :
    parsePayload m payload ≠ .error (.crash c) := by
  unfold parsePayload
  split
  · split <;> simp
  · simp
  · simp
  · next e h1 h2 hk =>
    intro h; cases h
    exact hm _ _ hk

/-- a successful parse: header fields, the payload slice the header declares handed to the message
parser, and `n = 4 + packet_length` -/
theorem record_parse_ok_inv {α : Type} {m : Codec α} {bs : Bytes} {v : α} {n : Nat}
    (h : (recordCodec m).parse bs = .ok (v, n)) :
    ∃ plen pad, parseNum .network 4 bs = .ok (plen, 4) ∧ plen ≤ (bs.drop 4).length ∧
      parseNum .network 1 (bs.drop 4) = .ok (pad, 1) ∧ pad + 1 ≤ plen ∧
      parsePayload m ((bs.drop 5).take (plen - pad - 1)) = .ok v ∧ n = 4 + plen := by
  simp only [recordCodec] at h
  cases h1 : parseNum .network 4 bs with
  | error e => simp [h1, bind, Except.bind] at h
  | ok r1 =>
    obtain ⟨plen, n1⟩ := r1
    have hn1 := (parseNum_ok_inv h1).1
    subst hn1
    simp only [h1, bind, Except.bind] at h
    split at h
    · simp at h
    · next hlen =>
      cases h2 : parseNum .network 1 (bs.drop 4) with
      | error e => simp [h2] at h
      | ok r2 =>
        obtain ⟨pad, n2⟩ := r2
        have hn2 := (parseNum_ok_inv h2).1
        subst hn2
        simp only [h2, List.drop_drop] at h
        split at h
        · simp at h
        · next hpad =>
          have hle : plen - pad - 1 ≤ (bs.drop (4 + 1)).length := by
            simp only [List.length_drop] at hlen ⊢; omega
          rw [parseRaw_nat_ok _ _ hle] at h
          simp only [] at h
          cases h3 : parsePayload m ((bs.drop (4 + 1)).take (plen - pad - 1)) with
          | error e => simp [h3] at h
          | ok v' =>
            simp only [h3] at h
            have hle2 : pad ≤ (bs.drop (4 + 1 + (plen - pad - 1))).length := by
              simp only [List.length_drop] at hlen ⊢; omega
            rw [parseRaw_nat_ok _ _ hle2] at h
            simp only [pure, Except.pure, Except.ok.injEq, Prod.mk.injEq] at h
            obtain ⟨hv, hn⟩ := h
            subst hv
            exact ⟨plen, pad, rfl, by omega, rfl, by omega, h3, by omega⟩

/-- the consumed length is `4 + packet_length`, for every message codec (true since the repair) -/
theorem record_consumes_declared {α : Type} (m : Codec α) (bs : Bytes) (v : α) (n : Nat)
    (h : (recordCodec m).parse bs = .ok (v, n)) : n = 4 + declaredLength bs ∧ n ≤ bs.length ∧ 5 ≤ n := by
  obtain ⟨plen, pad, h1, hle, _, hpad, _, hn⟩ := record_parse_ok_inv h
  have hv : plen = declaredLength bs := parseNum_val h1
  have h4 := (parseNum_ok_inv h1).2.1
  simp only [List.length_drop] at hle
  subst hv
  exact ⟨hn, by omega, by omega⟩

theorem record_lenBound {α : Type} (m : Codec α) : LenBound (recordCodec m) :=
  fun bs v n h => (record_consumes_declared m bs v n h).2.1

theorem record_positive {α : Type} (m : Codec α) : Positive (recordCodec m) := by
  intro bs v n h
  have := (record_consumes_declared m bs v n h).2.2
  omega

theorem record_noCrash {α : Type} {m : Codec α} (hm : NoCrash m) : NoCrash (recordCodec m) := by
  intro bs c
  simp only [recordCodec]
  cases h1 : parseNum .network 4 bs with
  | error e =>
    simp only [bind, Except.bind]
    intro h; cases h
    exact parseNum_no_crash vs4 _ _ h1
  | ok r1 =>
    obtain ⟨plen, n1⟩ := r1
    simp only [bind, Except.bind]
    split
    · simp
    · cases h2 : parseNum .network 1 (bs.drop 4) with
      | error e =>
        intro h; cases h
        exact parseNum_no_crash vs1 _ _ h2
      | ok r2 =>
        obtain ⟨pad, n2⟩ := r2
        simp only []
        split
        · simp
        · cases h3 : parseRaw ((plen - pad - 1 : Nat) : Int) ((bs.drop 4).drop 1) with
          | error e =>
            intro h; cases h
            exact parseRaw_no_crash _ _ _ h3
          | ok r3 =>
            obtain ⟨payload, k⟩ := r3
            simp only []
            cases h4 : parsePayload m payload with
            | error e =>
              intro h; cases h
              exact parsePayload_noCrash hm _ _ h4
            | ok v =>
              simp only []
              cases h5 : parseRaw (pad : Int) (((bs.drop 4).drop 1).drop k) with
              | error e =>
                intro h; cases h
                exact parseRaw_no_crash _ _ _ h5
              | ok r5 => simp [pure, Except.pure]

/-! ### round trip, prefix rejection, self-delimitation -/

/-- how the parser runs on a buffer whose header fields and payload slice are known -/
theorem record_parse_of_parts {α : Type} {m : Codec α} (bs : Bytes) (plen pad : Nat) (v : α)
    (h1 : parseNum .network 4 bs = .ok (plen, 4)) (hle : plen ≤ (bs.drop 4).length)
    (h2 : parseNum .network 1 (bs.drop 4) = .ok (pad, 1)) (hpad : pad + 1 ≤ plen)
    (h3 : parsePayload m ((bs.drop 5).take (plen - pad - 1)) = .ok v) :
    (recordCodec m).parse bs = .ok (v, 4 + plen) := by
  simp only [recordCodec, h1, bind, Except.bind]
  have hX : ¬ (plen > (bs.drop 4).length) := by omega
  simp only [hX, if_false, h2, List.drop_drop]
  have hY : ¬ (plen < pad + 1) := by omega
  simp only [hY, if_false]
  have hle1 : plen - pad - 1 ≤ (bs.drop (4 + 1)).length := by
    simp only [List.length_drop] at hle ⊢; omega
  rw [parseRaw_nat_ok _ _ hle1]
  simp only [h3]
  have hle2 : pad ≤ (bs.drop (4 + 1 + (plen - pad - 1))).length := by
    simp only [List.length_drop] at hle ⊢; omega
  rw [parseRaw_nat_ok _ _ hle2]
  simp only [pure, Except.pure, Except.ok.injEq, Prod.mk.injEq, true_and]
  omega

theorem record_roundTrip {α : Type} {m : Codec α} {wf : α → Prop} (hm : RoundTrip m wf) :
    RoundTrip (recordCodec m) (fun v => wf v ∧ ∀ b, m.compose v = .ok b → b.length + 12 < 2 ^ 32) := by
  intro v ⟨hv, hsz⟩
  obtain ⟨payload, hc, hp⟩ := hm v hv
  have hl := hsz payload hc
  refine ⟨_, record_compose_eq hc hl, ?_⟩
  obtain ⟨h4, h11, _, _⟩ := padLen_spec payload.length
  generalize padLen payload.length = p at *
  have h1 : payload.length + p + 1 < 256 ^ 4 := by
    have : (256 : Nat) ^ 4 = 2 ^ 32 := by decide
    omega
  have h2 : p < 256 ^ 1 := by omega
  intro s
  have e : encNat .network 4 (payload.length + p + 1) ++ encNat .network 1 p ++ payload ++ List.replicate p 0 ++ s =
      encNat .network 4 (payload.length + p + 1) ++ (encNat .network 1 p ++ (payload ++ (List.replicate p 0 ++ s))) := by
    simp only [List.append_assoc]
  rw [e]
  have hd4 : (encNat ByteOrder.network 4 (payload.length + p + 1) ++
      (encNat ByteOrder.network 1 p ++ (payload ++ (List.replicate p 0 ++ s)))).drop 4 =
      encNat ByteOrder.network 1 p ++ (payload ++ (List.replicate p 0 ++ s)) := List.drop_left' (encNat_length _ _ _)
  have hd5 : (encNat ByteOrder.network 4 (payload.length + p + 1) ++
      (encNat ByteOrder.network 1 p ++ (payload ++ (List.replicate p 0 ++ s)))).drop 5 =
      payload ++ (List.replicate p 0 ++ s) := by
    have : (5 : Nat) = 4 + 1 := rfl
    rw [this, ← List.drop_drop, hd4]
    exact List.drop_left' (encNat_length _ _ _)
  have hres := record_parse_of_parts (m := m) _ (payload.length + p + 1) p v (parseNum_enc vs4 h1 _)
    (by rw [hd4]; simp only [List.length_append, encNat_length, List.length_replicate]; omega)
    (by rw [hd4]; exact parseNum_enc vs1 h2 _) (by omega)
    (by
      rw [hd5]
      have : payload.length + p + 1 - p - 1 = payload.length := by omega
      rw [this, List.take_left' rfl]
      unfold parsePayload
      have := hp []
      rw [List.append_nil] at this
      rw [this]
      simp)
  rw [hres]
  simp only [List.length_append, encNat_length, List.length_replicate]
  congr 2
  omega

/-- every proper prefix of a composed packet is rejected as not enough data, with a missing count
between 1 and what is really missing — whatever the message codec is (only its composed length
matters) -/
theorem record_prefixReject {α : Type} (m : Codec α) :
    PrefixReject (recordCodec m) (fun v => ∀ b, m.compose v = .ok b → b.length + 12 < 2 ^ 32) := by
  intro v b hsz hcomp j hj
  cases hc : m.compose v with
  | error e => simp [recordCodec, hc, bind, Except.bind] at hcomp
  | ok payload =>
    have hl := hsz payload hc
    rw [record_compose_eq hc hl] at hcomp
    cases hcomp
    obtain ⟨h4, h11, _, _⟩ := padLen_spec payload.length
    generalize padLen payload.length = p at *
    have h1 : payload.length + p + 1 < 256 ^ 4 := by
      have : (256 : Nat) ^ 4 = 2 ^ 32 := by decide
      omega
    simp only [List.length_append, encNat_length, List.length_replicate] at hj ⊢
    by_cases hj4 : j < 4
    · refine ⟨4 - j, ?_, by omega, by omega⟩
      have hlen : ((encNat ByteOrder.network 4 (payload.length + p + 1) ++ encNat ByteOrder.network 1 p ++ payload ++
          List.replicate p 0).take j).length = j := by
        simp only [List.length_take, List.length_append, encNat_length, List.length_replicate]; omega
      simp only [recordCodec]
      rw [parseNum_short (by omega), hlen]
      rfl
    · refine ⟨4 + 1 + payload.length + p - j, ?_, by omega, by omega⟩
      have e : encNat .network 4 (payload.length + p + 1) ++ encNat .network 1 p ++ payload ++ List.replicate p 0 =
          encNat .network 4 (payload.length + p + 1) ++ (encNat .network 1 p ++ (payload ++ List.replicate p 0)) := by
        simp only [List.append_assoc]
      have htake : (encNat .network 4 (payload.length + p + 1) ++
            (encNat .network 1 p ++ (payload ++ List.replicate p 0))).take j =
          encNat .network 4 (payload.length + p + 1) ++
            (encNat .network 1 p ++ (payload ++ List.replicate p 0)).take (j - 4) := by
        rw [List.take_append]
        simp [List.take_of_length_le, show 4 ≤ j by omega]
      simp only [recordCodec]
      rw [e, htake, parseNum_enc vs4 h1]
      simp only [bind, Except.bind]
      rw [List.drop_left' (encNat_length _ _ _)]
      have hlen : ((encNat ByteOrder.network 1 p ++ (payload ++ List.replicate p 0)).take (j - 4)).length = j - 4 := by
        simp only [List.length_take, List.length_append, encNat_length, List.length_replicate]; omega
      have hX : payload.length + p + 1 > j - 4 := by omega
      simp only [hlen, hX, if_true]
      congr 2
      omega

/-- the packet is self-delimiting, for EVERY message codec: the result depends only on the
`4 + packet_length` consumed bytes (true since the repair: the message parser is confined to the
payload slice) -/
theorem record_selfDelim {α : Type} (m : Codec α) : SelfDelim (recordCodec m) := by
  intro b v n h s
  obtain ⟨plen, pad, h1, hle, h2, hpad, h3, hn⟩ := record_parse_ok_inv h
  obtain ⟨_, hb4, hplen, henc4, _⟩ := parseNum_ok_inv h1
  obtain ⟨_, hb1, hpadlt, henc1, _⟩ := parseNum_ok_inv h2
  simp only [List.length_drop] at hle hb1
  subst hn
  have hsplit : b.take (4 + plen) = b.take 4 ++ ((b.drop 4).take 1 ++ (b.drop 5).take (plen - 1)) := by
    have e1 : 4 + plen = 4 + (1 + (plen - 1)) := by omega
    rw [e1, List.take_add, List.take_add, List.drop_drop]
  rw [hsplit, ← henc4, ← henc1]
  simp only [List.append_assoc]
  have hlenP : ((b.drop 5).take (plen - 1)).length = plen - 1 := by
    simp only [List.length_take, List.length_drop]; omega
  have hd4 : (encNat ByteOrder.network 4 plen ++ (encNat ByteOrder.network 1 pad ++ ((b.drop 5).take (plen - 1) ++ s))).drop 4 =
      encNat ByteOrder.network 1 pad ++ ((b.drop 5).take (plen - 1) ++ s) := List.drop_left' (encNat_length _ _ _)
  have hd5 : (encNat ByteOrder.network 4 plen ++ (encNat ByteOrder.network 1 pad ++ ((b.drop 5).take (plen - 1) ++ s))).drop 5 =
      (b.drop 5).take (plen - 1) ++ s := by
    have : (5 : Nat) = 4 + 1 := rfl
    rw [this, ← List.drop_drop, hd4]
    exact List.drop_left' (encNat_length _ _ _)
  refine record_parse_of_parts (m := m) _ plen pad v (parseNum_enc vs4 hplen _)
    (by rw [hd4]; simp only [List.length_append, encNat_length, hlenP]; omega)
    (by rw [hd4]; exact parseNum_enc vs1 hpadlt _) hpad ?_
  rw [hd5]
  have : ((b.drop 5).take (plen - 1) ++ s).take (plen - pad - 1) = (b.drop 5).take (plen - pad - 1) := by
    rw [List.take_append_of_le_length (by rw [hlenP]; omega), List.take_take]
    congr 1
    omega
  rw [this]
  exact h3

end Cp.Ssh
