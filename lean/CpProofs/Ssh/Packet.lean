import CpModel.Ssh.Msg
import CpProofs.Ssh.NameList
/-
  The SSH binary packet (`SshRecordBase`): padding arithmetic, conformance of the composed form,
  and the codec laws around an arbitrary message codec.
-/
namespace Cp.Ssh
open Cp Cp.Codec

/-- the padding rule, for every payload length -/
theorem padLen_spec (payload : Nat) :
    4 ≤ padLen payload ∧ padLen payload ≤ 11 ∧ (4 + 1 + payload + padLen payload) % 8 = 0 ∧
      padLen payload = Spec.Ssh.paddingLength payload := by
  unfold padLen Spec.Ssh.paddingLength
  simp only []
  split <;> split <;> omega

theorem vs1 : validSize 1 = true := rfl

theorem encNat1 (p : Nat) (hp : p < 256) : encNat .network 1 p = [UInt8.ofNat p] := by
  simp [encNat, ByteOrder.isBig, beBytes, leBytes, Nat.mod_eq_of_lt hp]

/-- what `compose` produces around a composed payload -/
theorem record_compose_eq {α : Type} {m : Codec α} {v : α} {payload : Bytes} (h : m.compose v = .ok payload)
    (hl : payload.length + 12 < 2 ^ 32) :
    (recordCodec m).compose v = .ok (encNat .network 4 (payload.length + padLen payload.length + 1) ++
      encNat .network 1 (padLen payload.length) ++ payload ++ List.replicate (padLen payload.length) 0) := by
  obtain ⟨h4, h11, _, _⟩ := padLen_spec payload.length
  have h1 : payload.length + padLen payload.length + 1 < 256 ^ 4 := by
    have : (256 : Nat) ^ 4 = 2 ^ 32 := by decide
    omega
  have h2 : padLen payload.length < 256 ^ 1 := by omega
  simp only [recordCodec, h, bind, Except.bind]
  rw [composeNum_ok vs4 h1, composeNum_ok vs1 h2]
  rfl

/-- the composed packet is the RFC 4253 §6 packet with the least admissible padding -/
theorem record_compose_spec {α : Type} {m : Codec α} {v : α} {payload : Bytes} (h : m.compose v = .ok payload)
    (hl : payload.length + 12 < 2 ^ 32) :
    (recordCodec m).compose v = .ok (Spec.Ssh.binaryPacket payload) := by
  obtain ⟨h4, h11, _, hs⟩ := padLen_spec payload.length
  rw [record_compose_eq h hl, encNat1 _ (by omega), encNat_network, beBytes_eq_spec]
  simp only [Spec.Ssh.binaryPacket, Spec.Ssh.uint32, ← hs]
  have : payload.length + padLen payload.length + 1 = 1 + payload.length + padLen payload.length := by omega
  rw [this]

theorem binaryPacket_conformant (payload : Bytes) :
    Spec.Ssh.IsBinaryPacket (Spec.Ssh.binaryPacket payload) payload := by
  obtain ⟨h4, h11, h8, hs⟩ := padLen_spec payload.length
  refine ⟨List.replicate (Spec.Ssh.paddingLength payload.length) 0, ?_, ?_, ?_, ?_⟩
  · simp only [List.length_replicate]; omega
  · simp only [List.length_replicate]; omega
  · simp only [List.length_replicate]; omega
  · simp [Spec.Ssh.binaryPacket]

theorem binaryPacket_length (payload : Bytes) :
    (Spec.Ssh.binaryPacket payload).length = 4 + (1 + payload.length + Spec.Ssh.paddingLength payload.length) := by
  simp [Spec.Ssh.binaryPacket, Spec.Ssh.uint32, Spec.toBytesBE]
  omega

/-! ### inversion of a successful parse -/

theorem record_parse_ok_inv {α : Type} {m : Codec α} {bs : Bytes} {v : α} {n : Nat}
    (h : (recordCodec m).parse bs = .ok (v, n)) :
    ∃ plen pad k, parseNum .network 4 bs = .ok (plen, 4) ∧ plen ≤ (bs.drop 4).length ∧
      parseNum .network 1 (bs.drop 4) = .ok (pad, 1) ∧ m.parse (bs.drop 5) = .ok (v, k) ∧
      pad ≤ (bs.drop (5 + k)).length ∧ n = 4 + 1 + k + pad := by
  simp only [recordCodec] at h
  cases h1 : parseNum .network 4 bs with
  | error e => simp [h1, bind, Except.bind] at h
  | ok r1 =>
    obtain ⟨plen, n1⟩ := r1
    have hn1 := (parseNum_ok_inv h1).1
    subst hn1
    simp only [h1, bind, Except.bind] at h
    split at h
    · simp at h
    · next hlen =>
      cases h2 : parseNum .network 1 (bs.drop 4) with
      | error e => simp [h2] at h
      | ok r2 =>
        obtain ⟨pad, n2⟩ := r2
        have hn2 := (parseNum_ok_inv h2).1
        subst hn2
        simp only [h2, List.drop_drop] at h
        cases h3 : m.parse (bs.drop (4 + 1)) with
        | error e => simp [h3] at h
        | ok r3 =>
          obtain ⟨v', k⟩ := r3
          simp only [h3] at h
          cases h4 : parseRaw (pad : Int) (bs.drop (4 + 1 + k)) with
          | error e => simp [h4] at h
          | ok r4 =>
            obtain ⟨pv, pn⟩ := r4
            simp [h4, pure, Except.pure] at h
            obtain ⟨hv, hn⟩ := h
            subst hv
            obtain ⟨_, hm, hm2, _⟩ := parseRaw_ok_inv h4
            simp at hm hm2
            refine ⟨plen, pad, k, rfl, by omega, rfl, rfl, ?_, hn.symm⟩
            simp only [List.length_drop] at hm2 ⊢
            omega

theorem record_lenBound {α : Type} {m : Codec α} (hm : LenBound m) : LenBound (recordCodec m) := by
  intro bs v n h
  obtain ⟨plen, pad, k, h1, _, h2, h3, h4, hn⟩ := record_parse_ok_inv h
  have := (parseNum_ok_inv h1).2.1
  have h5 := (parseNum_ok_inv h2).2.1
  have h6 := hm _ _ _ h3
  simp only [List.length_drop] at h4 h5 h6
  omega

theorem record_positive {α : Type} (m : Codec α) : Positive (recordCodec m) := by
  intro bs v n h
  obtain ⟨plen, pad, k, _, _, _, _, _, hn⟩ := record_parse_ok_inv h
  omega

theorem record_noCrash {α : Type} {m : Codec α} (hm : NoCrash m) : NoCrash (recordCodec m) := by
  intro bs c
  simp only [recordCodec]
  cases h1 : parseNum .network 4 bs with
  | error e =>
    simp only [bind, Except.bind]
    intro h; cases h
    exact parseNum_no_crash vs4 _ _ h1
  | ok r1 =>
    obtain ⟨plen, n1⟩ := r1
    simp only [bind, Except.bind]
    split
    · simp
    · cases h2 : parseNum .network 1 (bs.drop 4) with
      | error e =>
        intro h; cases h
        exact parseNum_no_crash vs1 _ _ h2
      | ok r2 =>
        obtain ⟨pad, n2⟩ := r2
        simp only []
        cases h3 : m.parse ((bs.drop 4).drop 1) with
        | error e =>
          intro h; cases h
          exact hm _ _ h3
        | ok r3 =>
          obtain ⟨v', k⟩ := r3
          simp only []
          cases h4 : parseRaw (pad : Int) (((bs.drop 4).drop 1).drop k) with
          | error e =>
            intro h; cases h
            exact parseRaw_no_crash _ _ _ h4
          | ok r4 => simp [pure, Except.pure]

/-! ### round trip, prefix rejection, self-delimitation -/

theorem record_roundTrip {α : Type} {m : Codec α} {wf : α → Prop} (hm : RoundTrip m wf) :
    RoundTrip (recordCodec m) (fun v => wf v ∧ ∀ b, m.compose v = .ok b → b.length + 12 < 2 ^ 32) := by
  intro v ⟨hv, hsz⟩
  obtain ⟨payload, hc, hp⟩ := hm v hv
  have hl := hsz payload hc
  refine ⟨_, record_compose_eq hc hl, ?_⟩
  obtain ⟨h4, h11, _, _⟩ := padLen_spec payload.length
  generalize padLen payload.length = p at *
  have h1 : payload.length + p + 1 < 256 ^ 4 := by
    have : (256 : Nat) ^ 4 = 2 ^ 32 := by decide
    omega
  have h2 : p < 256 ^ 1 := by omega
  intro s
  have e : encNat .network 4 (payload.length + p + 1) ++ encNat .network 1 p ++ payload ++ List.replicate p 0 ++ s =
      encNat .network 4 (payload.length + p + 1) ++ (encNat .network 1 p ++ (payload ++ (List.replicate p 0 ++ s))) := by
    simp only [List.append_assoc]
  simp only [recordCodec]
  rw [e, parseNum_enc vs4 h1]
  simp only [bind, Except.bind]
  rw [List.drop_left' (encNat_length _ _ _)]
  have hX : ¬ (payload.length + p + 1 >
      (encNat ByteOrder.network 1 p ++ (payload ++ (List.replicate p 0 ++ s))).length) := by
    simp only [List.length_append, encNat_length, List.length_replicate]; omega
  simp only [hX, if_false]
  rw [parseNum_enc vs1 h2]
  simp only []
  rw [List.drop_left' (encNat_length _ _ _), hp]
  simp only []
  rw [List.drop_left]
  have hr := parseRaw_nat_append (List.replicate p (0 : UInt8)) s
  simp only [List.length_replicate] at hr
  rw [hr]
  simp only [pure, Except.pure, List.length_append, encNat_length, List.length_replicate]

/-- every proper prefix of a composed packet is rejected as not enough data, with a missing count
between 1 and what is really missing — whatever the message codec is (only its composed length
matters) -/
theorem record_prefixReject {α : Type} (m : Codec α) :
    PrefixReject (recordCodec m) (fun v => ∀ b, m.compose v = .ok b → b.length + 12 < 2 ^ 32) := by
  intro v b hsz hcomp j hj
  cases hc : m.compose v with
  | error e => simp [recordCodec, hc, bind, Except.bind] at hcomp
  | ok payload =>
    have hl := hsz payload hc
    rw [record_compose_eq hc hl] at hcomp
    cases hcomp
    obtain ⟨h4, h11, _, _⟩ := padLen_spec payload.length
    generalize padLen payload.length = p at *
    have h1 : payload.length + p + 1 < 256 ^ 4 := by
      have : (256 : Nat) ^ 4 = 2 ^ 32 := by decide
      omega
    simp only [List.length_append, encNat_length, List.length_replicate] at hj ⊢
    by_cases hj4 : j < 4
    · refine ⟨4 - j, ?_, by omega, by omega⟩
      have hlen : ((encNat ByteOrder.network 4 (payload.length + p + 1) ++ encNat ByteOrder.network 1 p ++ payload ++
          List.replicate p 0).take j).length = j := by
        simp only [List.length_take, List.length_append, encNat_length, List.length_replicate]; omega
      simp only [recordCodec]
      rw [parseNum_short (by omega), hlen]
      rfl
    · refine ⟨4 + 1 + payload.length + p - j, ?_, by omega, by omega⟩
      have e : encNat .network 4 (payload.length + p + 1) ++ encNat .network 1 p ++ payload ++ List.replicate p 0 =
          encNat .network 4 (payload.length + p + 1) ++ (encNat .network 1 p ++ (payload ++ List.replicate p 0)) := by
        simp only [List.append_assoc]
      have htake : (encNat .network 4 (payload.length + p + 1) ++
            (encNat .network 1 p ++ (payload ++ List.replicate p 0))).take j =
          encNat .network 4 (payload.length + p + 1) ++
            (encNat .network 1 p ++ (payload ++ List.replicate p 0)).take (j - 4) := by
        rw [List.take_append]
        simp [List.take_of_length_le, show 4 ≤ j by omega]
      simp only [recordCodec]
      rw [e, htake, parseNum_enc vs4 h1]
      simp only [bind, Except.bind]
      rw [List.drop_left' (encNat_length _ _ _)]
      have hlen : ((encNat ByteOrder.network 1 p ++ (payload ++ List.replicate p 0)).take (j - 4)).length = j - 4 := by
        simp only [List.length_take, List.length_append, encNat_length, List.length_replicate]; omega
      have hX : payload.length + p + 1 > j - 4 := by omega
      simp only [hlen, hX, if_true]
      congr 2
      omega

theorem parseNum_val {bo : ByteOrder} {k : Nat} {b : Bytes} {v n : Nat} (h : parseNum bo k b = .ok (v, n)) :
    v = decNat bo (b.take k) := by
  unfold parseNum at h
  split at h
  · simp at h
  · split at h
    · simp at h
    · simp at h; exact h.1.symm

/-- the declared `packet_length` of a buffer -/
def declaredLength (b : Bytes) : Nat := beVal (b.take 4)

/-- What self-delimitation of the packet needs: a self-delimiting message codec AND a packet whose
consumed length reaches the declared one (`n ≥ 4 + packet_length`).  Both can fail in the code: the
message parser is not confined to the packet. -/
theorem record_selfDelim_partial {α : Type} {m : Codec α} (hs : SelfDelim m) (hl : LenBound m)
    (b : Bytes) (v : α) (n : Nat) (h : (recordCodec m).parse b = .ok (v, n))
    (hdecl : 4 + declaredLength b ≤ n) (s : Bytes) :
    (recordCodec m).parse (b.take n ++ s) = .ok (v, n) := by
  obtain ⟨plen, pad, k, h1, hle, h2, h3, h4, hn⟩ := record_parse_ok_inv h
  have hnb := record_lenBound hl _ _ _ h
  obtain ⟨_, hb4, hplen, henc4, _⟩ := parseNum_ok_inv h1
  obtain ⟨_, hb1, hpad, henc1, _⟩ := parseNum_ok_inv h2
  have hk := hl _ _ _ h3
  have hpv : plen = declaredLength b := parseNum_val h1
  simp only [List.length_drop] at hb1 hk h4 hle
  have hsplit : b.take n = b.take 4 ++ ((b.drop 4).take 1 ++ ((b.drop 5).take k ++ (b.drop (5 + k)).take pad)) := by
    have e1 : n = 4 + (1 + (k + pad)) := by omega
    rw [e1, List.take_add, List.take_add, List.take_add, List.drop_drop, List.drop_drop]
  simp only [recordCodec]
  rw [hsplit, ← henc4, ← henc1]
  simp only [List.append_assoc]
  rw [parseNum_enc vs4 hplen]
  simp only [bind, Except.bind]
  rw [List.drop_left' (encNat_length _ _ _)]
  have hlenX : ((b.drop (5 + k)).take pad).length = pad := by
    simp only [List.length_take, List.length_drop]; omega
  have hlenK : ((b.drop 5).take k).length = k := by
    simp only [List.length_take, List.length_drop]; omega
  have hX : ¬ (plen > (encNat ByteOrder.network 1 pad ++ (List.take k (List.drop 5 b) ++
      (List.take pad (List.drop (5 + k) b) ++ s))).length) := by
    simp only [List.length_append, encNat_length, hlenX, hlenK]; omega
  simp only [hX, if_false]
  rw [parseNum_enc vs1 hpad]
  simp only []
  rw [List.drop_left' (encNat_length _ _ _), hs _ _ _ h3]
  simp only []
  rw [List.drop_left' hlenK]
  have hr := parseRaw_nat_append ((b.drop (5 + k)).take pad) s
  rw [hlenX] at hr
  rw [hr]
  simp [pure, Except.pure, hn]

end Cp.Ssh
