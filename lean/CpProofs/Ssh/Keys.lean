import CpModel.Ssh.Fingerprint
import CpProofs.Ssh.Messages
import CpProofs.Ssh.Tables
import CpProps.C11b
/-
  Host public keys: the composed blob is the RFC 4253 §6.6 / RFC 5656 §3.1 / RFC 8709 §4 encoding,
  and parsing that encoding through `SshHostPublicKeyVariant` gives the key back.
-/
namespace Cp.Ssh
open Cp Cp.Codec

/-- a non-negative integer whose `mpint` fits the 32-bit length field -/
def MpintOk (v : Nat) : Prop := ∃ n, n < 2 ^ 32 ∧ 2 * v < 256 ^ n

theorem mpint_compose {v : Nat} (h : MpintOk v) : composeSshMpint (v : Int) = .ok (Spec.Ssh.mpint v) := by
  obtain ⟨n, hn, hv⟩ := h
  exact C11.ssh_mpint_minimal_nonneg v n hn hv

theorem mpint_parse {v : Nat} (h : MpintOk v) (s : Bytes) :
    parseSshMpint (Spec.Ssh.mpint v ++ s) = .ok ((v : Int), (Spec.Ssh.mpint v).length) := by
  obtain ⟨n, hn, hv⟩ := h
  obtain ⟨b, hb, hp⟩ := C11.ssh_mpint_roundtrip_nonneg v n s hn hv
  rw [C11.ssh_mpint_minimal_nonneg v n hn hv] at hb
  cases hb
  exact hp

theorem string_length (v : Bytes) : (Spec.Ssh.string v).length = 4 + v.length := by
  simp [Spec.Ssh.string, Spec.sshString, Spec.toBytesBE]

theorem string_eq_enc (v : Bytes) : Spec.Ssh.string v = encNat .network 4 v.length ++ v := by
  simp [Spec.Ssh.string, Spec.sshString, encNat_network, beBytes_eq_spec]

/-- reading the algorithm name of a blob that starts with `string name` -/
theorem parseKeyAlgorithm_string (name : Bytes) (i : Nat) (hl : name.length < 2 ^ 32) (ha : isAscii name = true)
    (hf : findName name Gen.Ssh.SshHostKeyAlgorithm = some i) (s : Bytes) :
    parseKeyAlgorithm (Spec.Ssh.string name ++ s) = .ok (i, 4 + name.length) := by
  unfold parseKeyAlgorithm
  have h4 : ¬ (Spec.Ssh.string name ++ s).length < 4 := by
    simp only [List.length_append, string_length]; omega
  simp only [h4, if_false, parseAsciiString]
  rw [string_eq_enc, parseBytes_append vs4 name s (by rw [p256_4]; exact hl)]
  simp [bind, Except.bind, ha, hf, pure, Except.pure]

theorem parseHostKeyClass_ok {cls : String} {accepted : List Nat} {bs : Bytes} {i n : Nat} {kind : KeyKind}
    {p : KeyParams} {m : Nat}
    (h : parseKeyAlgorithm bs = .ok (i, n)) (hc : accepted.contains i = true) (hk : keyKindOf cls = some kind)
    (hp : parseKeyParams kind (bs.drop n) = .ok (p, m)) :
    parseHostKeyClass cls accepted bs = .ok (⟨cls, i, p⟩, n + m) := by
  unfold parseHostKeyClass
  have hm : i ∈ accepted := List.contains_iff_mem.mp hc
  simp [h, bind, Except.bind, hm, hk, hp, pure, Except.pure]

/-- the variant walk: every class before the first one that lists the algorithm answers `InvalidType` -/
theorem hostKeyVariant_walk {bs : Bytes} {i n : Nat} (h : parseKeyAlgorithm bs = .ok (i, n))
    (variants : List (String × List Nat)) {cls : String} {acc : List Nat} {r : HostKey × Nat}
    (hf : variants.find? (fun v => v.2.contains i) = some (cls, acc))
    (hp : parseHostKeyClass cls acc bs = .ok r) :
    parseHostKeyVariantAux bs variants = .ok r := by
  induction variants with
  | nil => simp at hf
  | cons v more ih =>
    obtain ⟨c, a⟩ := v
    simp only [List.find?_cons] at hf
    by_cases hca : a.contains i = true
    · simp only [hca] at hf
      simp only [Option.some.injEq, Prod.mk.injEq] at hf
      obtain ⟨h1, h2⟩ := hf
      subst h1; subst h2
      simp [parseHostKeyVariantAux, hp]
    · have hca' : a.contains i = false := by simpa using hca
      simp only [hca'] at hf
      have : parseHostKeyClass c a bs = .error .invalidType := by
        unfold parseHostKeyClass
        have hnm : i ∉ a := fun hm => by
          have := List.contains_iff_mem.mpr hm
          rw [hca'] at this; cases this
        simp [h, bind, Except.bind, hnm]
      simp only [parseHostKeyVariantAux, this]
      exact ih hf

/-! ### ssh-rsa -/

theorem rsa_blob (i : Nat) (hi : Gen.Ssh.SshHostKeyAlgorithm[i]? = some Spec.Ssh.sshRsa) (e n : Nat)
    (he : MpintOk e) (hn : MpintOk n) :
    keyBytes ⟨"SshHostKeyRSA", i, .rsa e n⟩ = .ok (Spec.Ssh.rsaBlob e n) := by
  simp only [keyBytes, composeHostKey, hi, composeKeyParams, composeAsciiString, bind, Except.bind,
    composeBytes_eq_string Spec.Ssh.sshRsa (by decide), mpint_compose he, mpint_compose hn, pure, Except.pure,
    Spec.Ssh.rsaBlob, List.append_assoc]

theorem rsa_index : findName Spec.Ssh.sshRsa Gen.Ssh.SshHostKeyAlgorithm = some 4 := by decide +kernel

theorem rsa_parse (e n : Nat) (he : MpintOk e) (hn : MpintOk n) (s : Bytes) :
    parseHostKeyVariant (Spec.Ssh.rsaBlob e n ++ s) =
      .ok (⟨"SshHostKeyRSA", 4, .rsa e n⟩, (Spec.Ssh.rsaBlob e n).length) := by
  have halg := parseKeyAlgorithm_string Spec.Ssh.sshRsa 4 (by decide) (by decide) rsa_index
    (Spec.Ssh.mpint e ++ (Spec.Ssh.mpint n ++ s))
  have hb : Spec.Ssh.rsaBlob e n ++ s =
      Spec.Ssh.string Spec.Ssh.sshRsa ++ (Spec.Ssh.mpint e ++ (Spec.Ssh.mpint n ++ s)) := by
    simp [Spec.Ssh.rsaBlob, List.append_assoc]
  have hdrop : (Spec.Ssh.string Spec.Ssh.sshRsa ++ (Spec.Ssh.mpint e ++ (Spec.Ssh.mpint n ++ s))).drop
      (4 + Spec.Ssh.sshRsa.length) = Spec.Ssh.mpint e ++ (Spec.Ssh.mpint n ++ s) :=
    List.drop_left' (string_length _)
  rw [hb]
  have hfind : Gen.Ssh.hostKeyVariants.find? (fun v => v.2.contains 4) =
      some ("SshHostKeyRSA", acceptedOf "SshHostKeyRSA") := by decide +kernel
  have hacc : (acceptedOf "SshHostKeyRSA").contains 4 = true := by decide +kernel
  have hparams : parseKeyParams .rsa (Spec.Ssh.mpint e ++ (Spec.Ssh.mpint n ++ s)) =
      .ok (.rsa e n, (Spec.Ssh.mpint e).length + (Spec.Ssh.mpint n).length) := by
    simp only [parseKeyParams, bind, Except.bind, mpint_parse he, List.drop_left, mpint_parse hn, pure, Except.pure]
  rw [← hdrop] at hparams
  have := hostKeyVariant_walk halg Gen.Ssh.hostKeyVariants hfind
    (parseHostKeyClass_ok halg hacc rfl hparams)
  simp only [parseHostKeyVariant, this]
  simp [Spec.Ssh.rsaBlob, string_length, Nat.add_assoc]

/-! ### ssh-dss -/

theorem dss_blob (i : Nat) (hi : Gen.Ssh.SshHostKeyAlgorithm[i]? = some Spec.Ssh.sshDss) (p q g y : Nat)
    (hp : MpintOk p) (hq : MpintOk q) (hg : MpintOk g) (hy : MpintOk y) :
    keyBytes ⟨"SshHostKeyDSS", i, .dss p q g y⟩ = .ok (Spec.Ssh.dssBlob p q g y) := by
  simp only [keyBytes, composeHostKey, hi, composeKeyParams, composeAsciiString, bind, Except.bind,
    composeBytes_eq_string Spec.Ssh.sshDss (by decide), mpint_compose hp, mpint_compose hq, mpint_compose hg,
    mpint_compose hy, pure, Except.pure, Spec.Ssh.dssBlob, List.append_assoc]

theorem dss_index : findName Spec.Ssh.sshDss Gen.Ssh.SshHostKeyAlgorithm = some 13 := by decide +kernel

theorem dss_parse (p q g y : Nat) (hp : MpintOk p) (hq : MpintOk q) (hg : MpintOk g) (hy : MpintOk y)
    (s : Bytes) :
    parseHostKeyVariant (Spec.Ssh.dssBlob p q g y ++ s) =
      .ok (⟨"SshHostKeyDSS", 13, .dss p q g y⟩, (Spec.Ssh.dssBlob p q g y).length) := by
  have halg := parseKeyAlgorithm_string Spec.Ssh.sshDss 13 (by decide) (by decide) dss_index
    (Spec.Ssh.mpint p ++ (Spec.Ssh.mpint q ++ (Spec.Ssh.mpint g ++ (Spec.Ssh.mpint y ++ s))))
  have hb : Spec.Ssh.dssBlob p q g y ++ s = Spec.Ssh.string Spec.Ssh.sshDss ++
      (Spec.Ssh.mpint p ++ (Spec.Ssh.mpint q ++ (Spec.Ssh.mpint g ++ (Spec.Ssh.mpint y ++ s)))) := by
    simp [Spec.Ssh.dssBlob, List.append_assoc]
  have hdrop : (Spec.Ssh.string Spec.Ssh.sshDss ++
      (Spec.Ssh.mpint p ++ (Spec.Ssh.mpint q ++ (Spec.Ssh.mpint g ++ (Spec.Ssh.mpint y ++ s))))).drop
      (4 + Spec.Ssh.sshDss.length) =
      Spec.Ssh.mpint p ++ (Spec.Ssh.mpint q ++ (Spec.Ssh.mpint g ++ (Spec.Ssh.mpint y ++ s))) :=
    List.drop_left' (string_length _)
  rw [hb]
  have hfind : Gen.Ssh.hostKeyVariants.find? (fun v => v.2.contains 13) =
      some ("SshHostKeyDSS", acceptedOf "SshHostKeyDSS") := by decide +kernel
  have hacc : (acceptedOf "SshHostKeyDSS").contains 13 = true := by decide +kernel
  have hparams : parseKeyParams .dss
      (Spec.Ssh.mpint p ++ (Spec.Ssh.mpint q ++ (Spec.Ssh.mpint g ++ (Spec.Ssh.mpint y ++ s)))) =
      .ok (.dss p q g y, (Spec.Ssh.mpint p).length + (Spec.Ssh.mpint q).length + (Spec.Ssh.mpint g).length +
        (Spec.Ssh.mpint y).length) := by
    have d2 : ∀ (a b : Bytes) (t : Bytes), (a ++ (b ++ t)).drop (a.length + b.length) = t := by
      intro a b t; rw [← List.append_assoc]; exact List.drop_left' (by simp)
    have d3 : ∀ (a b c : Bytes) (t : Bytes), (a ++ (b ++ (c ++ t))).drop (a.length + b.length + c.length) = t := by
      intro a b c t
      have : a ++ (b ++ (c ++ t)) = (a ++ b ++ c) ++ t := by simp [List.append_assoc]
      rw [this]; exact List.drop_left' (by simp [Nat.add_assoc])
    simp only [parseKeyParams, bind, Except.bind, mpint_parse hp, List.drop_left, mpint_parse hq, d2, mpint_parse hg,
      d3, mpint_parse hy, pure, Except.pure]
  rw [← hdrop] at hparams
  have := hostKeyVariant_walk halg Gen.Ssh.hostKeyVariants hfind
    (parseHostKeyClass_ok halg hacc rfl hparams)
  simp only [parseHostKeyVariant, this]
  simp [Spec.Ssh.dssBlob, string_length, Nat.add_assoc]

/-! ### ssh-ed25519 -/

theorem ed25519_blob (i : Nat) (hi : Gen.Ssh.SshHostKeyAlgorithm[i]? = some Spec.Ssh.sshEd25519) (key : Bytes)
    (hk : key.length < 2 ^ 32) :
    keyBytes ⟨"SshHostKeyEDDSA", i, .eddsa key⟩ = .ok (Spec.Ssh.ed25519Blob key) := by
  simp only [keyBytes, composeHostKey, hi, composeKeyParams, composeAsciiString, bind, Except.bind,
    composeBytes_eq_string Spec.Ssh.sshEd25519 (by decide), composeBytes_eq_string key hk, pure, Except.pure,
    Spec.Ssh.ed25519Blob]

theorem ed25519_index : findName Spec.Ssh.sshEd25519 Gen.Ssh.SshHostKeyAlgorithm = some 0 := by decide +kernel

theorem ed25519_parse (key : Bytes) (hk : key.length < 2 ^ 32) (s : Bytes) :
    parseHostKeyVariant (Spec.Ssh.ed25519Blob key ++ s) =
      .ok (⟨"SshHostKeyEDDSA", 0, .eddsa key⟩, (Spec.Ssh.ed25519Blob key).length) := by
  have halg := parseKeyAlgorithm_string Spec.Ssh.sshEd25519 0 (by decide) (by decide) ed25519_index
    (Spec.Ssh.string key ++ s)
  have hb : Spec.Ssh.ed25519Blob key ++ s = Spec.Ssh.string Spec.Ssh.sshEd25519 ++ (Spec.Ssh.string key ++ s) := by
    simp [Spec.Ssh.ed25519Blob, List.append_assoc]
  have hdrop : (Spec.Ssh.string Spec.Ssh.sshEd25519 ++ (Spec.Ssh.string key ++ s)).drop
      (4 + Spec.Ssh.sshEd25519.length) = Spec.Ssh.string key ++ s :=
    List.drop_left' (string_length _)
  rw [hb]
  have hfind : Gen.Ssh.hostKeyVariants.find? (fun v => v.2.contains 0) =
      some ("SshHostKeyEDDSA", acceptedOf "SshHostKeyEDDSA") := by decide +kernel
  have hacc : (acceptedOf "SshHostKeyEDDSA").contains 0 = true := by decide +kernel
  have hparams : parseKeyParams .eddsa (Spec.Ssh.string key ++ s) = .ok (.eddsa key, 4 + key.length) := by
    simp only [parseKeyParams, bind, Except.bind]
    rw [string_eq_enc, parseBytes_append vs4 key s (by rw [p256_4]; exact hk)]
    rfl
  rw [← hdrop] at hparams
  have := hostKeyVariant_walk halg Gen.Ssh.hostKeyVariants hfind
    (parseHostKeyClass_ok halg hacc rfl hparams)
  simp only [parseHostKeyVariant, this]
  simp [Spec.Ssh.ed25519Blob, string_length, Nat.add_assoc]

/-! ### ecdsa-sha2-* -/

/-- the framing of an ECDSA key blob: algorithm name, curve identifier, the point `Q` verbatim
(the point conversion itself goes through asn1crypto and is outside the model) -/
theorem ecdsa_blob (i c : Nat) (ident q : Bytes)
    (hi : Gen.Ssh.SshHostKeyAlgorithm[i]? = some (Spec.Ssh.ecdsaSha2 ++ ident))
    (hc : Gen.Ssh.SshEllipticCurveIdentifier[c]? = some ident) (hcc : Gen.Ssh.curveCanonical[c]? = some c)
    (hil : ident.length < 2 ^ 31) (hq : q.length < 2 ^ 32) :
    keyBytes ⟨"SshHostKeyECDSA", i, .ecdsa c q⟩ = .ok (Spec.Ssh.ecdsaBlob ident q) := by
  have h1 : (Spec.Ssh.ecdsaSha2 ++ ident).length < 2 ^ 32 := by
    simp only [List.length_append, Spec.Ssh.ecdsaSha2, List.length_cons, List.length_nil]; omega
  simp only [keyBytes, composeHostKey, hi, composeKeyParams, hcc, hc, composeAsciiString, bind, Except.bind,
    Option.bind, composeBytes_eq_string _ h1, composeBytes_eq_string ident (by omega), composeBytes_eq_string q hq,
    pure, Except.pure, Spec.Ssh.ecdsaBlob, List.append_assoc]

end Cp.Ssh
