import CpProofs.Ssh.Banner
/- The identification string is self-delimiting (since it ends at its FIRST line feed); what holds of its prefixes. -/
namespace Cp.Ssh
open Cp Cp.Codec

/-- a `takeWhile` run that ends inside the first `k` elements does not see what comes after them -/
theorem takeWhile_take_append {α : Type} (p : α → Bool) (l : List α) (k : Nat) (s : List α)
    (h1 : (l.takeWhile p).length < k) (h2 : (l.takeWhile p).length < l.length) :
    (l.take k ++ s).takeWhile p = l.takeWhile p := by
  induction l generalizing k with
  | nil => simp at h2
  | cons x xs ih =>
    cases k with
    | zero => omega
    | succ k =>
      simp only [List.take_succ_cons, List.cons_append, List.takeWhile_cons] at h1 h2 ⊢
      split
      · next hp =>
        simp only [hp, if_true, List.length_cons] at h1 h2
        rw [ih k (by omega) (by omega)]
      · rfl

theorem drop_take_append {α : Type} (l : List α) (k m : Nat) (s : List α) (h1 : m ≤ k) (h2 : m ≤ l.length) :
    (l.take k ++ s).drop m = (l.drop m).take (k - m) ++ s := by
  rw [List.drop_append_of_le_length (by simp only [List.length_take]; omega), List.drop_take]

theorem parseTextNumeric_prefix {X : Bytes} {v n : Nat} (h : parseTextNumeric X = .ok (v, n)) (k : Nat) (s : Bytes)
    (h1 : n < k) (h2 : n < X.length) : parseTextNumeric (X.take k ++ s) = .ok (v, n) := by
  unfold parseTextNumeric at h ⊢
  have hn : n = (X.takeWhile isDigit).length := by
    simp only [] at h
    split at h
    · simp at h
    · split at h
      · simp at h
      · simp at h; exact h.2.symm
  rw [takeWhile_take_append isDigit X k s (by omega) (by omega)]
  exact h

theorem parseSeparators_prefix {c : UInt8} {X : Bytes} {n : Nat} (h : parseSeparators c X = .ok n) (k : Nat) (s : Bytes)
    (h1 : n < k) (h2 : n < X.length) : parseSeparators c (X.take k ++ s) = .ok n := by
  unfold parseSeparators at h ⊢
  have hn : n = (X.takeWhile (· == c)).length := by
    simp only [] at h
    split at h
    · simp at h
    · simp at h; exact h.symm
  rw [takeWhile_take_append (· == c) X k s (by omega) (by omega)]
  exact h

theorem parseProtocolVersion_prefix {X : Bytes} {v : Nat × Nat} {nv : Nat} (h : parseProtocolVersion X = .ok (v, nv))
    (k : Nat) (s : Bytes) (h1 : nv < k) (h2 : nv < X.length) :
    parseProtocolVersion (X.take k ++ s) = .ok (v, nv) := by
  unfold parseProtocolVersion at h ⊢
  cases p1 : parseTextNumeric X with
  | error e => simp [p1, bind, Except.bind] at h
  | ok r1 =>
    obtain ⟨major, n1⟩ := r1
    simp only [p1, bind, Except.bind] at h
    cases p2 : parseSeparators 0x2e (X.drop n1) with
    | error e => simp [p2] at h
    | ok n2 =>
      simp only [p2] at h
      cases p3 : parseTextNumeric (X.drop (n1 + n2)) with
      | error e => simp [p3] at h
      | ok r3 =>
        obtain ⟨minor, n3⟩ := r3
        simp only [p3] at h
        split at h
        · simp at h
        · next hm =>
          simp only [pure, Except.pure, Except.ok.injEq, Prod.mk.injEq] at h
          obtain ⟨hv, hnv⟩ := h
          have hn3 : 0 < n3 := by
            unfold parseTextNumeric at p3
            simp only [] at p3
            split at p3
            · simp at p3
            · next hne =>
              split at p3
              · simp at p3
              · simp at p3
                rw [← p3.2]
                cases hd : List.takeWhile isDigit (List.drop (n1 + n2) X) with
                | nil => simp [hd] at hne
                | cons a b => simp
          rw [parseTextNumeric_prefix p1 k s (by omega) (by omega)]
          simp only [bind, Except.bind]
          rw [drop_take_append X k n1 s (by omega) (by omega),
            parseSeparators_prefix p2 (k - n1) s (by omega) (by simp only [List.length_drop]; omega)]
          simp only []
          rw [drop_take_append X k (n1 + n2) s (by omega) (by omega),
            parseTextNumeric_prefix p3 (k - (n1 + n2)) s (by omega) (by simp only [List.length_drop]; omega)]
          simp only [hm, if_false, pure, Except.pure, Bool.false_eq_true]
          rw [← hv, ← hnv]

theorem bannerVersion_prefix {X : Bytes} {v : Nat × Nat} {nv : Nat} (h : bannerVersion X = .ok (v, nv))
    (k : Nat) (s : Bytes) (h1 : nv < k) (h2 : nv < X.length) : bannerVersion (X.take k ++ s) = .ok (v, nv) := by
  have hp : parseProtocolVersion X = .ok (v, nv) := by
    unfold bannerVersion at h
    split at h
    · simp at h
    · exact h
  unfold bannerVersion
  rw [parseProtocolVersion_prefix hp k s h1 h2]

theorem expectByte_prefix {c : UInt8} {X : Bytes} (h : expectByte c X = .ok ()) (k : Nat) (s : Bytes) (hk : 0 < k) :
    expectByte c (X.take k ++ s) = .ok () := by
  cases X with
  | nil => simp [expectByte] at h
  | cons x xs =>
    cases k with
    | zero => omega
    | succ k => simpa [expectByte] using h

theorem expectByte_ok_length {c : UInt8} {X : Bytes} (h : expectByte c X = .ok ()) : 0 < X.length := by
  cases X with
  | nil => simp [expectByte] at h
  | cons x xs => simp

/-- FULL statement (C03; false before the repair of `SshProtocolMessage._parse`, which swallowed every
line feed after the string): the identification string is self-delimiting -/
theorem banner_selfDelim : SelfDelim bannerCodec := by
  intro bs b n h s
  simp only [bannerCodec] at h ⊢
  obtain ⟨h0, hssh, h1, major, minor, nv, h2, h3, hline, hasc, hf⟩ := parseBanner_ok_inv h
  obtain ⟨hn, _, _, _⟩ := bannerFinish_ok_inv hf
  generalize hL : (bs.drop (5 + nv)).takeWhile (· != 0x0a) = line at *
  simp only [List.length_drop] at hline
  have hnle : n ≤ bs.length := by omega
  have e3 : (bs.take n ++ s).drop 3 = (bs.drop 3).take (n - 3) ++ s := drop_take_append bs n 3 s (by omega) (by omega)
  have e4 : (bs.take n ++ s).drop 4 = (bs.drop 4).take (n - 4) ++ s := drop_take_append bs n 4 s (by omega) (by omega)
  have e4n : (bs.take n ++ s).drop (4 + nv) = (bs.drop (4 + nv)).take (n - (4 + nv)) ++ s :=
    drop_take_append bs n (4 + nv) s (by omega) (by omega)
  have e5n : (bs.take n ++ s).drop (5 + nv) = (bs.drop (5 + nv)).take (n - (5 + nv)) ++ s :=
    drop_take_append bs n (5 + nv) s (by omega) (by omega)
  have htw : ((bs.drop (5 + nv)).take (n - (5 + nv)) ++ s).takeWhile (· != 0x0a) = line := by
    rw [takeWhile_take_append _ _ _ _ (by rw [hL]; omega) (by rw [hL]; simp only [List.length_drop]; omega), hL]
  refine parseBanner_of_parts (major := major) (minor := minor) (nv := nv) ?_ ?_ ?_ ?_ ?_ ?_ ?_ ?_
  · simp only [List.length_append, List.length_take]; omega
  · rw [List.take_append_of_le_length (by simp only [List.length_take]; omega), List.take_take]
    have : min 3 n = 3 := by omega
    rw [this, hssh]
  · rw [e3]; exact expectByte_prefix h1 _ s (by omega)
  · rw [e4]; exact bannerVersion_prefix h2 _ s (by omega) (by simp only [List.length_drop]; omega)
  · rw [e4n]; exact expectByte_prefix h3 _ s (by omega)
  · rw [e5n, htw]
    simp only [List.length_append, List.length_take, List.length_drop]
    omega
  · rw [e5n, htw]; exact hasc
  · rw [e5n, htw]; exact hf

/-! ### prefixes (C04): what holds, and what the pinned test-suite forbids -/

/-- a prefix shorter than three bytes is `NotEnoughData(3 - k)` -/
theorem banner_short_prefix (bs : Bytes) (h : bs.length < 3) :
    parseBanner bs = .error (.notEnough ((3 - bs.length : Nat) : Int)) := by
  unfold parseBanner
  simp [h]

theorem composeBanner_length {b : Banner} {bytes : Bytes} (h : composeBanner b = .ok bytes) : 8 ≤ bytes.length := by
  obtain ⟨major, minor, sw, comment⟩ := b
  unfold composeBanner at h
  simp only [composeProtocolVersion, bind, Except.bind] at h
  cases hs : composeSoftwareVersion sw with
  | error e => simp [hs] at h
  | ok sv =>
    simp only [hs] at h
    cases comment with
    | none =>
      simp only [] at h
      split at h
      · simp at h
      · simp only [pure, Except.pure, Except.ok.injEq] at h
        subst h
        simp only [List.length_append, ssh, List.length_cons, List.length_nil]
        omega
    | some t =>
      simp only [] at h
      split at h
      · simp at h
      · simp only [pure, Except.pure, Except.ok.injEq] at h
        subst h
        simp only [List.length_append, ssh, List.length_cons, List.length_nil]
        omega

/-- what does hold of the prefixes of a composed identification string: the first three are rejected
as not enough data, with `1 ≤ m ≤` really missing -/
theorem banner_prefix_partial (b : Banner) (bytes : Bytes) (h : composeBanner b = .ok bytes) (k : Nat) (hk : k < 3) :
    ∃ m : Nat, parseBanner (bytes.take k) = .error (.notEnough m) ∧ 1 ≤ m ∧ m ≤ bytes.length - k := by
  have hl := composeBanner_length h
  have hlen : (bytes.take k).length = k := by simp only [List.length_take]; omega
  refine ⟨3 - k, ?_, by omega, by omega⟩
  rw [banner_short_prefix _ (by omega), hlen]

end Cp.Ssh
