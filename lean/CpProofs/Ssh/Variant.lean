import CpProofs.Ssh.KexInit
import CpProofs.Ssh.Packet
import CpProofs.Ssh.Messages
/-
  The message variants (`SshMessageVariant*`) and the three record classes around them:
  KEXINIT end to end, and the laws that hold for every message.
-/
namespace Cp.Ssh
open Cp Cp.Codec

/-- a class whose message code differs from the first byte answers `InvalidType` -/
theorem msgCode_wrong {code c : Nat} {bs : Bytes} (hn : parseNum .network 1 bs = .ok (c, 1))
    (hm : Gen.SshMessageCode.memberCodes.contains c = true) (hne : c ≠ code) :
    (msgCodeCodec code).parse bs = .error .invalidType := by
  simp only [msgCodeCodec, parseIntEnum, hn, bind, Except.bind, hm, if_true, pure, Except.pure]
  simp [hne]

theorem seq_parse_err {α β : Type} {a : Codec α} {b : Codec β} {bs : Bytes} {e : PErr}
    (h : a.parse bs = .error e) : (seq a b).parse bs = .error e := by
  simp [seq, h, bind, Except.bind]

theorem disconnect_wrong {c : Nat} {bs : Bytes} (hn : parseNum .network 1 bs = .ok (c, 1))
    (hm : Gen.SshMessageCode.memberCodes.contains c = true) (hne : c ≠ 1) :
    parseMsgClass "SshDisconnectMessage" bs = .error .invalidType := by
  simp only [parseMsgClass, disconnectCodec, seq_parse_err (msgCode_wrong hn hm hne), Except.map]

theorem unimplemented_wrong {c : Nat} {bs : Bytes} (hn : parseNum .network 1 bs = .ok (c, 1))
    (hm : Gen.SshMessageCode.memberCodes.contains c = true) (hne : c ≠ 3) :
    parseMsgClass "SshUnimplementedMessage" bs = .error .invalidType := by
  simp only [parseMsgClass, unimplementedCodec, seq_parse_err (msgCode_wrong hn hm hne), Except.map]

/-- a buffer that parses as KEXINIT starts with the byte 20 -/
theorem kexInit_first_byte {bs : Bytes} {k : KexInit} {n : Nat} (h : kexInitCodec.parse bs = .ok (k, n)) :
    parseNum .network 1 bs = .ok (20, 1) := by
  obtain ⟨x, hx, _⟩ := mapE_parse_ok_inv h
  obtain ⟨u, rest⟩ := x
  simp only [kexInitTupleCodec] at hx
  obtain ⟨n0, _, p0, _, _⟩ := seq_parse_ok_inv hx
  exact (msgCode_parse_ok_inv p0).2

/-- in each of the three variants KEXINIT is reached: only classes of other codes stand before it -/
theorem variant_kexInit (variants : List (String × Nat))
    (hv : variants = Gen.Ssh.SshMessageVariantInit ∨ variants = Gen.Ssh.SshMessageVariantKexDH ∨
      variants = Gen.Ssh.SshMessageVariantKexDHGroup)
    {bs : Bytes} {k : KexInit} {n : Nat} (h : kexInitCodec.parse bs = .ok (k, n)) :
    parseMsgVariant variants bs = .ok (.kexInit k, n) := by
  have hn := kexInit_first_byte h
  have hm : Gen.SshMessageCode.memberCodes.contains 20 = true := by decide
  have hd := disconnect_wrong hn hm (by decide)
  have hu := unimplemented_wrong hn hm (by decide)
  have hk : parseMsgClass "SshKeyExchangeInit" bs = .ok (.kexInit k, n) := by
    simp [parseMsgClass, h, Except.map]
  rcases hv with hv | hv | hv <;> subst hv <;>
    simp [parseMsgVariant, Gen.Ssh.SshMessageVariantInit, Gen.Ssh.SshMessageVariantKexDH,
      Gen.Ssh.SshMessageVariantKexDHGroup, firstNotInvalidType, hd, hu, hk]

/-- KEXINIT inside a binary packet, for the three record classes: the composed packet is the RFC 4253
§6 packet around the §7.1 payload, and parsing it (with anything after it) gives the value back and
consumes exactly the packet -/
theorem record_kexInit (variants : List (String × Nat))
    (hv : variants = Gen.Ssh.SshMessageVariantInit ∨ variants = Gen.Ssh.SshMessageVariantKexDH ∨
      variants = Gen.Ssh.SshMessageVariantKexDHGroup)
    (k : KexInit) (hk : kexInitOk k = true) (hl : (Spec.Ssh.encodeKexInit (specOf k)).length + 12 < 2 ^ 32) :
    (recordCodec (msgVariantCodec variants)).compose (.kexInit k) =
      .ok (Spec.Ssh.binaryPacket (Spec.Ssh.encodeKexInit (specOf k))) ∧
    ∀ s, (recordCodec (msgVariantCodec variants)).parse
        (Spec.Ssh.binaryPacket (Spec.Ssh.encodeKexInit (specOf k)) ++ s) =
      .ok (.kexInit k, (Spec.Ssh.binaryPacket (Spec.Ssh.encodeKexInit (specOf k))).length) := by
  have hc : (msgVariantCodec variants).compose (.kexInit k) = .ok (Spec.Ssh.encodeKexInit (specOf k)) := by
    simp only [msgVariantCodec, composeMsg]
    exact kexInit_compose_spec k hk
  have hrt : RoundTrip (msgVariantCodec variants) (fun m => m = .kexInit k) := by
    intro m hm
    subst hm
    refine ⟨_, hc, ?_⟩
    intro s
    simp only [msgVariantCodec]
    exact variant_kexInit variants hv (kexInit_parse_spec k hk s)
  have hcomp := record_compose_spec hc hl
  refine ⟨hcomp, ?_⟩
  obtain ⟨b, hb, hp⟩ := record_roundTrip hrt (.kexInit k) ⟨rfl, fun b hb' => by
    rw [hc] at hb'; cases hb'; exact hl⟩
  rw [hcomp] at hb
  cases hb
  exact hp

/-! ### consumed length never exceeds the buffer, for every message class, variant and record -/

theorem parseIntEnum_lenBound (mc : List Nat) (k : Nat) :
    LenBound (⟨parseIntEnum mc k, fun v => composeNum .network k (v : Int)⟩ : Codec Nat) := by
  intro bs v n h
  have := (parseNum_ok_inv (parseIntEnum_ok_inv h).1)
  omega

theorem utf8String_lenBound : LenBound utf8String := by
  intro bs v n h
  simp only [utf8String] at h
  cases hp : parseBytes .network 4 bs with
  | error e => simp [hp, bind, Except.bind] at h
  | ok r =>
    obtain ⟨v', m⟩ := r
    simp only [hp, bind, Except.bind] at h
    split at h
    · simp [pure, Except.pure] at h
      have := (parseBytes_ok_inv hp).2.2.2.1
      omega
    · simp at h

theorem asciiString_lenBound : LenBound asciiString := by
  intro bs v n h
  simp only [asciiString, parseAsciiString] at h
  cases hp : parseBytes .network 4 bs with
  | error e => simp [hp, bind, Except.bind] at h
  | ok r =>
    obtain ⟨v', m⟩ := r
    simp only [hp, bind, Except.bind] at h
    split at h
    · simp [pure, Except.pure] at h
      have := (parseBytes_ok_inv hp).2.2.2.1
      omega
    · simp at h

theorem hostKeyPrefixed_lenBound : LenBound hostKeyPrefixedCodec := by
  intro bs v n h
  simp only [hostKeyPrefixedCodec, parseHostKeyPrefixed] at h
  cases hp : parseNum .network 4 bs with
  | error e => simp [hp, bind, Except.bind] at h
  | ok r =>
    obtain ⟨len, m⟩ := r
    simp only [hp, bind, Except.bind] at h
    split at h
    · simp at h
    · next hlen =>
      cases hk : parseHostKeyVariant ((bs.drop 4).take len) with
      | error e => simp [hk] at h
      | ok r2 =>
        obtain ⟨k, mm⟩ := r2
        simp only [hk] at h
        split at h
        · simp at h
        · simp [pure, Except.pure] at h
          omega

theorem sshBytes_lenBound : LenBound sshBytes := bytesPrefixed_lenBound .network 4

theorem map_ok_inv {α β : Type} {x : Except PErr α} {f : α → β} {r : β} (h : x.map f = .ok r) :
    ∃ y, x = .ok y ∧ f y = r := by
  cases x with
  | error e => simp [Except.map] at h
  | ok y => exact ⟨y, rfl, by simpa [Except.map] using h⟩

theorem parseMsgClass_lenBound (cls : String) (bs : Bytes) (m : Msg) (n : Nat)
    (h : parseMsgClass cls bs = .ok (m, n)) : n ≤ bs.length := by
  unfold parseMsgClass at h
  split at h
  · obtain ⟨⟨y, k⟩, hy, hr⟩ := map_ok_inv h
    simp only [Prod.mk.injEq] at hr
    rw [← hr.2]
    exact seq_lenBound (msgCode_lenBound 1) (seq_lenBound (parseIntEnum_lenBound _ 4)
      (seq_lenBound utf8String_lenBound asciiString_lenBound)) _ _ _ hy
  · obtain ⟨⟨y, k⟩, hy, hr⟩ := map_ok_inv h
    simp only [Prod.mk.injEq] at hr
    rw [← hr.2]
    exact seq_lenBound (msgCode_lenBound 3) (num_lenBound .network 4) _ _ _ hy
  · obtain ⟨⟨y, k⟩, hy, hr⟩ := map_ok_inv h
    simp only [Prod.mk.injEq] at hr
    rw [← hr.2]
    exact kexInit_lenBound _ _ _ hy
  · obtain ⟨⟨y, k⟩, hy, hr⟩ := map_ok_inv h
    simp only [Prod.mk.injEq] at hr
    rw [← hr.2]
    exact seq_lenBound (msgCode_lenBound 30) sshBytes_lenBound _ _ _ hy
  · obtain ⟨⟨y, k⟩, hy, hr⟩ := map_ok_inv h
    simp only [Prod.mk.injEq] at hr
    rw [← hr.2]
    exact seq_lenBound (msgCode_lenBound 32) sshBytes_lenBound _ _ _ hy
  · obtain ⟨⟨y, k⟩, hy, hr⟩ := map_ok_inv h
    simp only [Prod.mk.injEq] at hr
    rw [← hr.2]
    exact seq_lenBound (msgCode_lenBound 31) (seq_lenBound hostKeyPrefixed_lenBound
      (seq_lenBound sshBytes_lenBound sshBytes_lenBound)) _ _ _ hy
  · obtain ⟨⟨y, k⟩, hy, hr⟩ := map_ok_inv h
    simp only [Prod.mk.injEq] at hr
    rw [← hr.2]
    exact seq_lenBound (msgCode_lenBound 33) (seq_lenBound hostKeyPrefixed_lenBound
      (seq_lenBound sshBytes_lenBound sshBytes_lenBound)) _ _ _ hy
  · obtain ⟨⟨y, k⟩, hy, hr⟩ := map_ok_inv h
    simp only [Prod.mk.injEq] at hr
    rw [← hr.2]
    exact seq_lenBound (msgCode_lenBound 34) (seq_lenBound (num_lenBound .network 4)
      (seq_lenBound (num_lenBound .network 4) (num_lenBound .network 4))) _ _ _ hy
  · obtain ⟨⟨y, k⟩, hy, hr⟩ := map_ok_inv h
    simp only [Prod.mk.injEq] at hr
    rw [← hr.2]
    exact seq_lenBound (msgCode_lenBound 31) (seq_lenBound sshBytes_lenBound sshBytes_lenBound) _ _ _ hy
  · obtain ⟨⟨y, k⟩, hy, hr⟩ := map_ok_inv h
    simp only [Prod.mk.injEq] at hr
    rw [← hr.2]
    exact msgCode_lenBound 21 _ _ _ hy
  · simp at h

theorem firstNotInvalidType_lenBound {α : Type} (ps : List (Bytes → Except PErr (α × Nat)))
    (hps : ∀ p ∈ ps, ∀ bs v n, p bs = .ok (v, n) → n ≤ bs.length) (bs : Bytes) (v : α) (n : Nat)
    (h : firstNotInvalidType ps bs = .ok (v, n)) : n ≤ bs.length := by
  induction ps with
  | nil => simp [firstNotInvalidType] at h
  | cons p more ih =>
    simp only [firstNotInvalidType] at h
    split at h
    · exact ih (fun q hq => hps q (by simp [hq])) h
    · exact hps p (by simp) _ _ _ h

theorem msgVariant_lenBound (variants : List (String × Nat)) : LenBound (msgVariantCodec variants) := by
  intro bs v n h
  simp only [msgVariantCodec, parseMsgVariant] at h
  refine firstNotInvalidType_lenBound _ ?_ bs v n h
  intro p hp
  simp only [List.mem_map] at hp
  obtain ⟨⟨cls, c⟩, _, rfl⟩ := hp
  exact parseMsgClass_lenBound cls

/-- the three record classes never report more bytes than they were given, always consume at least
five, and reject every proper prefix of a composed packet as not enough data -/
theorem records_lenBound : LenBound recordInit ∧ LenBound recordKexDH ∧ LenBound recordKexDHGroup :=
  ⟨record_lenBound _, record_lenBound _, record_lenBound _⟩

end Cp.Ssh
