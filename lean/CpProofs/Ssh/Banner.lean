import CpModel.Ssh.Banner
import CpProofs.Codec2
/- The identification string: consumed length within the buffer, positive, at most 255. -/
namespace Cp.Ssh
open Cp Cp.Codec

theorem takeWhile_length_le {α : Type} (p : α → Bool) (l : List α) : (l.takeWhile p).length ≤ l.length := by
  induction l with
  | nil => simp
  | cons x xs ih =>
    simp only [List.takeWhile]
    split
    · simp only [List.length_cons]; omega
    · simp

/-- C03 for the banner: an accepted identification string consumed between 1 and 255 bytes, all of
them inside the buffer -/
theorem banner_len_bound (bs : Bytes) (b : Banner) (n : Nat) (h : parseBanner bs = .ok (b, n)) :
    0 < n ∧ n ≤ bs.length ∧ n ≤ 255 := by
  unfold parseBanner at h
  split at h
  · simp at h
  · split at h
    · simp at h
    · cases h1 : expectByte 0x2d (bs.drop 3) with
      | error e => simp [h1, bind, Except.bind] at h
      | ok u1 =>
        simp only [h1, bind, Except.bind] at h
        cases h2 : parseProtocolVersion (bs.drop 4) with
        | error e => simp [h2] at h
        | ok r2 =>
          obtain ⟨⟨major, minor⟩, nv⟩ := r2
          simp only [h2] at h
          cases h3 : expectByte 0x2d (bs.drop (4 + nv)) with
          | error e => simp [h3] at h
          | ok u3 =>
            simp only [h3] at h
            split at h
            · simp at h
            · next hline =>
              split at h
              · simp at h
              · cases h4 : bannerLine (List.takeWhile (fun x => x != 10) (List.drop (5 + nv) bs)) with
                | error e => simp [h4] at h
                | ok r4 =>
                  obtain ⟨sw, comment⟩ := r4
                  simp only [h4] at h
                  split at h
                  · simp at h
                  · next hn =>
                    split at h
                    · simp at h
                    · simp only [pure, Except.pure, Except.ok.injEq, Prod.mk.injEq] at h
                      obtain ⟨_, hn2⟩ := h
                      have hl := takeWhile_length_le (fun x => x != 10) (List.drop (5 + nv) bs)
                      have hl2 := takeWhile_length_le (fun x => x == 10)
                        (List.drop (List.takeWhile (fun x => x != 10) (List.drop (5 + nv) bs)).length
                          (List.drop (5 + nv) bs))
                      simp only [List.length_drop] at hl hl2 hline
                      simp only [beq_iff_eq] at hline
                      omega
