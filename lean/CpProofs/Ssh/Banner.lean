import CpModel.Ssh.Banner
import CpProofs.Codec2
import CpSpec.Ssh
/- The identification string: consumed length within the buffer, positive, at most 255. -/
namespace Cp.Ssh
open Cp Cp.Codec

theorem takeWhile_length_le {α : Type} (p : α → Bool) (l : List α) : (l.takeWhile p).length ≤ l.length := by
  induction l with
  | nil => simp
  | cons x xs ih =>
    simp only [List.takeWhile]
    split
    · simp only [List.length_cons]; omega
    · simp

/-! ### the end of the parse -/

theorem bannerFinish_ok_inv {major minor nv : Nat} {line : Bytes} {b : Banner} {n : Nat}
    (h : bannerFinish major minor nv line = .ok (b, n)) :
    n = 5 + nv + line.length + 1 ∧ n ≤ 255 ∧ b.major = major ∧ b.minor = minor := by
  unfold bannerFinish at h
  cases h4 : bannerLine line with
  | error e => simp [h4, bind, Except.bind] at h
  | ok r4 =>
    obtain ⟨sw, comment⟩ := r4
    simp only [h4, bind, Except.bind] at h
    split at h
    · simp at h
    · next hn =>
      split at h
      · simp at h
      · simp only [pure, Except.pure, Except.ok.injEq, Prod.mk.injEq] at h
        obtain ⟨hb, hn2⟩ := h
        subst hb
        refine ⟨hn2.symm, ?_, rfl, rfl⟩
        have : 5 + nv + line.length + 1 ≤ composedLength (5 + nv + line.length + 1) line := by
          unfold composedLength; split <;> omega
        omega

/-! ### inversion and reconstruction of a parse -/

/-- what a successful parse went through -/
theorem parseBanner_ok_inv {bs : Bytes} {b : Banner} {n : Nat} (h : parseBanner bs = .ok (b, n)) :
    3 ≤ bs.length ∧ bs.take 3 = ssh ∧ expectByte 0x2d (bs.drop 3) = .ok () ∧
    ∃ major minor nv, bannerVersion (bs.drop 4) = .ok ((major, minor), nv) ∧
      expectByte 0x2d (bs.drop (4 + nv)) = .ok () ∧
      ((bs.drop (5 + nv)).takeWhile (· != 0x0a)).length < (bs.drop (5 + nv)).length ∧
      isAscii ((bs.drop (5 + nv)).takeWhile (· != 0x0a)) = true ∧
      bannerFinish major minor nv ((bs.drop (5 + nv)).takeWhile (· != 0x0a)) = .ok (b, n) := by
  unfold parseBanner at h
  split at h
  · simp at h
  · next h0 =>
    split at h
    · simp at h
    · next hssh =>
      cases h1 : expectByte 0x2d (bs.drop 3) with
      | error e => simp [h1, bind, Except.bind] at h
      | ok u1 =>
        simp only [h1, bind, Except.bind] at h
        cases h2 : bannerVersion (bs.drop 4) with
        | error e => simp [h2] at h
        | ok r2 =>
          obtain ⟨⟨major, minor⟩, nv⟩ := r2
          simp only [h2] at h
          cases h3 : expectByte 0x2d (bs.drop (4 + nv)) with
          | error e => simp [h3] at h
          | ok u3 =>
            simp only [h3] at h
            split at h
            · simp at h
            · next hline =>
              split at h
              · simp at h
              · next hasc =>
                have hl := takeWhile_length_le (fun x => x != 10) (List.drop (5 + nv) bs)
                simp only [beq_iff_eq] at hline
                refine ⟨by omega, by simpa using hssh, rfl, major, minor, nv, rfl, h3, by omega, by simpa using hasc, h⟩

/-- the parser on a buffer whose parts are known -/
theorem parseBanner_of_parts {bs : Bytes} {major minor nv : Nat} {r : Banner × Nat}
    (h0 : 3 ≤ bs.length) (hssh : bs.take 3 = ssh) (h1 : expectByte 0x2d (bs.drop 3) = .ok ())
    (h2 : bannerVersion (bs.drop 4) = .ok ((major, minor), nv)) (h3 : expectByte 0x2d (bs.drop (4 + nv)) = .ok ())
    (hline : ((bs.drop (5 + nv)).takeWhile (· != 0x0a)).length < (bs.drop (5 + nv)).length)
    (hasc : isAscii ((bs.drop (5 + nv)).takeWhile (· != 0x0a)) = true)
    (hf : bannerFinish major minor nv ((bs.drop (5 + nv)).takeWhile (· != 0x0a)) = .ok r) :
    parseBanner bs = .ok r := by
  unfold parseBanner
  have g0 : ¬ bs.length < 3 := by omega
  have g7 : (((bs.drop (5 + nv)).takeWhile (· != 0x0a)).length == (bs.drop (5 + nv)).length) = false := by
    apply beq_false_of_ne; omega
  simp only [g0, if_false, hssh, bne_self_eq_false, Bool.false_eq_true, h1, bind, Except.bind, h2, h3, g7, hasc,
    Bool.not_true, hf]

/-- C03 for the banner: an accepted identification string consumed between 1 and 255 bytes, all of
them inside the buffer; it ends with its first line feed -/
theorem banner_len_bound (bs : Bytes) (b : Banner) (n : Nat) (h : parseBanner bs = .ok (b, n)) :
    0 < n ∧ n ≤ bs.length ∧ n ≤ 255 := by
  obtain ⟨_, _, _, major, minor, nv, _, _, hline, _, hf⟩ := parseBanner_ok_inv h
  obtain ⟨hn, h255, _, _⟩ := bannerFinish_ok_inv hf
  simp only [List.length_drop] at hline
  omega

/-! ### C02 for the identification string (true since the repair) -/

theorem parseVendor_noCrash (cls : String) (vendor sep sv : Bytes) (k : String) :
    parseVendor cls vendor sep sv ≠ .error (.crash k) := by
  unfold parseVendor
  split
  · split
    · simp
    · split <;> simp
  · simp only []
    split
    · simp
    · split
      · simp
      · split <;> simp

theorem parseVendorVariants_noCrash (sv : Bytes) (vs : List (String × Bytes × Bytes)) (k : String) :
    parseVendorVariants sv vs ≠ .error (.crash k) := by
  induction vs with
  | nil => simp [parseVendorVariants]
  | cons v more ih =>
    obtain ⟨cls, vendor, sep⟩ := v
    simp only [parseVendorVariants]
    split
    · exact ih
    · exact parseVendor_noCrash _ _ _ _ _

theorem parseSoftwareVersion_noCrash (sv : Bytes) (k : String) : parseSoftwareVersion sv ≠ .error (.crash k) := by
  unfold parseSoftwareVersion
  split
  · split <;> simp
  · exact parseVendorVariants_noCrash _ _ _

theorem bannerLine_noCrash (line : Bytes) (k : String) : bannerLine line ≠ .error (.crash k) := by
  unfold bannerLine
  simp only []
  split
  · next e he =>
    intro h; cases h
    exact parseSoftwareVersion_noCrash _ _ he
  · simp

theorem bannerVersion_noCrash (bs : Bytes) (k : String) : bannerVersion bs ≠ .error (.crash k) := by
  unfold bannerVersion
  split
  · simp
  · next r hr =>
    intro h
    exact hr k h

theorem expectByte_noCrash (c : UInt8) (bs : Bytes) (k : String) : expectByte c bs ≠ .error (.crash k) := by
  unfold expectByte
  split
  · split <;> simp
  · simp

theorem bannerFinish_noCrash (major minor nv : Nat) (line : Bytes) (k : String) :
    bannerFinish major minor nv line ≠ .error (.crash k) := by
  unfold bannerFinish
  cases h4 : bannerLine line with
  | error e =>
    simp only [bind, Except.bind]
    intro h; cases h
    exact bannerLine_noCrash _ _ h4
  | ok r4 =>
    simp only [bind, Except.bind]
    split
    · simp
    · split <;> simp [pure, Except.pure]

/-- the identification string fails only with the four documented parse errors -/
theorem banner_noCrash : NoCrash bannerCodec := by
  intro bs k
  simp only [bannerCodec]
  unfold parseBanner
  split
  · simp
  · split
    · simp
    · cases h1 : expectByte 0x2d (bs.drop 3) with
      | error e =>
        simp only [bind, Except.bind]
        intro h; cases h
        exact expectByte_noCrash _ _ _ h1
      | ok u1 =>
        simp only [bind, Except.bind]
        cases h2 : bannerVersion (bs.drop 4) with
        | error e =>
          intro h; cases h
          exact bannerVersion_noCrash _ _ h2
        | ok r2 =>
          obtain ⟨⟨major, minor⟩, nv⟩ := r2
          simp only []
          cases h3 : expectByte 0x2d (bs.drop (4 + nv)) with
          | error e =>
            intro h; cases h
            exact expectByte_noCrash _ _ _ h3
          | ok u3 =>
            simp only []
            split
            · simp
            · split
              · simp
              · exact bannerFinish_noCrash _ _ _ _ _

/-- the banner composer writes the RFC 4253 §4.2 identification string, and nothing when that would
be longer than the 255 bytes the RFC allows -/
theorem banner_compose_spec (major minor : Nat) (raw : Bytes) (comment : Option Bytes) :
    composeBanner ⟨major, minor, ⟨"SshSoftwareVersionUnparsed", some raw⟩, comment⟩ =
      if (Spec.Ssh.identification major minor raw comment).length ≤ 255
      then .ok (Spec.Ssh.identification major minor raw comment)
      else .error (.tooMuch (((Spec.Ssh.identification major minor raw comment).length - 255 : Nat) : Int)) := by
  have hite : ∀ out : Bytes, (if out.length > 255 then Except.error (PErr.tooMuch ((out.length - 255 : Nat) : Int))
      else (Except.ok out : Except PErr Bytes)) =
      if out.length ≤ 255 then .ok out else .error (.tooMuch ((out.length - 255 : Nat) : Int)) := by
    intro out
    by_cases hl : out.length ≤ 255
    · have : ¬ out.length > 255 := by omega
      simp [hl, this]
    · have : out.length > 255 := by omega
      simp [hl, this]
  cases comment with
  | none =>
    have hout : ssh ++ [0x2d] ++ (digitsOfNat major ++ [0x2e] ++ digitsOfNat minor) ++ [0x2d] ++ raw ++ [] ++ [0x0d, 0x0a] =
        Spec.Ssh.identification major minor raw none := by
      simp [Spec.Ssh.identification, ssh, digitsOfNat, Spec.Ssh.digits]
    simp only [composeBanner, composeProtocolVersion, composeSoftwareVersion, bind, Except.bind, pure, Except.pure,
      beq_self_eq_true, if_true, hout, hite]
  | some c =>
    have hout : ssh ++ [0x2d] ++ (digitsOfNat major ++ [0x2e] ++ digitsOfNat minor) ++ [0x2d] ++ raw ++ (0x20 :: c) ++
        [0x0d, 0x0a] = Spec.Ssh.identification major minor raw (some c) := by
      simp [Spec.Ssh.identification, ssh, digitsOfNat, Spec.Ssh.digits]
    simp only [composeBanner, composeProtocolVersion, composeSoftwareVersion, bind, Except.bind, pure, Except.pure,
      beq_self_eq_true, if_true, hout, hite]

end Cp.Ssh
