import CpProofs.Tls2
/-
  `TlsHandshakeMessageVariant`: the first class that does not raise `InvalidType`.
-/
namespace Cp.Tls
open Cp Cp.Codec

/-- a generic fact about `VariantParsable._parse`: if every alternative either raises `InvalidType`
or yields a result with property `Q`, and some alternative does not raise `InvalidType`, the variant
yields a result with property `Q` -/
theorem firstNotInvalidType_all {α : Type} (Q : Except PErr (α × Nat) → Prop)
    (ps : List (Bytes → Except PErr (α × Nat))) (bs : Bytes)
    (hall : ∀ p ∈ ps, p bs = .error .invalidType ∨ Q (p bs))
    (hex : ∃ p ∈ ps, p bs ≠ .error .invalidType) : Q (firstNotInvalidType ps bs) := by
  induction ps with
  | nil => obtain ⟨p, hp, _⟩ := hex; cases hp
  | cons p ps ih =>
    simp only [firstNotInvalidType]
    rcases hall p (List.mem_cons_self ..) with h | h
    · rw [h]
      apply ih (fun q hq => hall q (List.mem_cons_of_mem _ hq))
      obtain ⟨q, hq, hne⟩ := hex
      rcases List.mem_cons.mp hq with e | e
      · subst e; exact absurd h hne
      · exact ⟨q, e, hne⟩
    · -- p does not raise InvalidType (if it did, Q would have to hold of that too: split)
      by_cases hp : p bs = .error .invalidType
      · rw [hp]
        apply ih (fun q hq => hall q (List.mem_cons_of_mem _ hq))
        obtain ⟨q, hq, hne⟩ := hex
        rcases List.mem_cons.mp hq with e | e
        · subst e; exact absurd hp hne
        · exact ⟨q, e, hne⟩
      · cases hr : p bs with
        | ok r => rw [hr] at h; exact h
        | error e =>
          rw [hr] at h
          cases e <;> first | exact h | (exfalso; exact hp hr)

/-- the regenerated variant table pairs every modelled class with the type its codec is built with -/
theorem variant_types_match : ∀ x ∈ Gen.handshakeVariants, ∀ c, hsClassOfName x.1 = some c → x.2 = c.typ := by
  decide +kernel

theorem hsFramed_header_error {α : Type} (t : Nat) (inner : Codec α) (bs : Bytes) (err : PErr)
    (hh : parseHsHeader t bs = .error err) : (hsFramed t inner).parse bs = .error err := by
  simp only [hsFramed, framed]
  have : (hsHeaderCodec t).parse bs = .error err := hh
  simp [this, bind, Except.bind]

theorem parseHsClass_eq_framed (c : HsClass) (bs : Bytes) (err : PErr)
    (hh : parseHsHeader c.typ bs = .error err) : parseHsClass c bs = .error err := by
  cases c
  · show Except.map _ ((hsFramed 1 _).parse bs) = _; rw [hsFramed_header_error 1 _ bs err hh]; rfl
  · show Except.map _ ((hsFramed 2 _).parse bs) = _; rw [hsFramed_header_error 2 _ bs err hh]; rfl
  · show Except.map _ ((hsFramed 6 _).parse bs) = _; rw [hsFramed_header_error 6 _ bs err hh]; rfl
  · show Except.map _ ((hsFramed 11 _).parse bs) = _; rw [hsFramed_header_error 11 _ bs err hh]; rfl
  · show Except.map _ ((hsFramed 12 _).parse bs) = _; rw [hsFramed_header_error 12 _ bs err hh]; rfl
  · show Except.map _ ((hsFramed 22 _).parse bs) = _; rw [hsFramed_header_error 22 _ bs err hh]; rfl
  · show Except.map _ ((hsFramed 14 _).parse bs) = _; rw [hsFramed_header_error 14 _ bs err hh]; rfl
  · show Except.map _ ((hsFramed 13 _).parse bs) = _; rw [hsFramed_header_error 13 _ bs err hh]; rfl

/-- every alternative starts by parsing the common header with ITS type: when that fails, the
alternative fails the same way -/
theorem hsAlt_header_error (e : String × Nat) (bs : Bytes) (err : PErr)
    (hcls : e ∈ Gen.handshakeVariants) (hh : parseHsHeader e.2 bs = .error err) :
    hsAlt e bs = .error err := by
  unfold hsAlt
  cases hc : hsClassOfName e.1 with
  | none => simp only [hh]
  | some c =>
    have ht := variant_types_match e hcls c hc
    rw [ht] at hh
    exact parseHsClass_eq_framed c bs err hh

/-- shape of a composed handshake message -/
theorem hs_compose_inv {α : Type} {typ : Nat} {inner : Codec α} {v : α} {b : Bytes}
    (hc : (hsFramed typ inner).compose v = .ok b) :
    ∃ p, inner.compose v = .ok p ∧ p.length < 256 ^ 3 ∧ typ < 256 ^ 1 ∧
      b = encNat .network 1 typ ++ (encNat .network 3 p.length ++ p) := by
  simp only [hsFramed, framed] at hc
  cases h1 : inner.compose v with
  | error e => simp [h1, bind, Except.bind] at hc
  | ok p =>
    simp only [h1, bind, Except.bind] at hc
    simp only [hsHeaderCodec, minSize, mapE, seq, guardE, intEnum, bytesPrefixed] at hc
    cases h2 : composeNum .network 1 (typ : Int) with
    | error e => simp [h2, bind, Except.bind] at hc
    | ok a =>
      simp only [h2, bind, Except.bind] at hc
      cases h3 : composeBytes .network 3 p with
      | error e => simp [h3] at hc
      | ok q =>
        simp [h3, pure, Except.pure] at hc
        subst hc
        have hl := composeBytes_ok_inv (by rfl) h3
        rw [composeBytes_ok (by rfl) p hl] at h3
        cases h3
        have ht : typ < 256 ^ 1 := by
          by_cases ht : typ < 256 ^ 1
          · exact ht
          · exfalso
            unfold composeNum at h2
            have : 256 ^ 1 ≤ typ := by omega
            simp [validSize, this] at h2
        rw [composeNum_ok (by rfl) ht] at h2
        cases h2
        exact ⟨p, rfl, hl, ht, rfl⟩

/-- the common header check of a class of type `typ` on a buffer that starts with the type byte `t` -/
theorem parseHsHeader_other_type {typ t : Nat} (ht : t ∈ Gen.TlsHandshakeType.memberCodes) (hne : typ ≠ t)
    (rest : Bytes) (hlen : 3 ≤ rest.length) :
    parseHsHeader typ (encNat .network 1 t ++ rest) = .error .invalidType := by
  have hfit := hsType_fits t ht
  simp only [parseHsHeader, hsHeaderCodec, minSize]
  have hl : ¬ ((encNat .network 1 t ++ rest).length < Gen.TlsHandshakeMessage_HEADER_SIZE) := by
    simp [Gen.TlsHandshakeMessage_HEADER_SIZE]; omega
  simp only [hl, if_false, mapE, seq, guardE, intEnum]
  rw [parseIntEnum_of_num (parseNum_enc (by rfl) hfit rest) ht]
  have : (t == typ) = false := by simp; exact fun e => hne e.symm
  simp [bind, Except.bind, this]

theorem parseHsHeader_short (typ : Nat) (bs : Bytes) (h : bs.length < 4) :
    parseHsHeader typ bs = .error (.notEnough ((4 - bs.length : Nat) : Int)) := by
  simp [parseHsHeader, hsHeaderCodec, minSize, Gen.TlsHandshakeMessage_HEADER_SIZE, h]

/-- `TlsHandshakeMessageVariant`: every proper prefix of a composed handshake message of any class in
the variant list is rejected with not-enough-data, 1 ≤ missing count ≤ bytes really missing -/
theorem variant_prefixReject {α : Type} {t : Nat} (inner : Codec α) (v : α) (b : Bytes)
    (ht : t ∈ Gen.TlsHandshakeType.memberCodes) (hin : ∃ e ∈ Gen.handshakeVariants, e.2 = t)
    (hc : (hsFramed t inner).compose v = .ok b) (j : Nat) (hj : j < b.length) :
    ∃ m : Nat, parseHandshakeVariant (b.take j) = .error (.notEnough m) ∧ 1 ≤ m ∧ m ≤ b.length - j := by
  obtain ⟨p, hp, hpl, htl, hb⟩ := hs_compose_inv hc
  have hblen : b.length = 4 + p.length := by rw [hb]; simp; omega
  -- what the header check of a class of type `typ` says on this prefix
  have hdr : ∀ typ, (parseHsHeader typ (b.take j) = .error .invalidType ∧ typ ≠ t) ∨
      ∃ m : Nat, parseHsHeader typ (b.take j) = .error (.notEnough m) ∧ 1 ≤ m ∧ m ≤ b.length - j := by
    intro typ
    by_cases hj4 : j < 4
    · right
      refine ⟨4 - j, ?_, by omega, by omega⟩
      have hl : (b.take j).length = j := by simp; omega
      rw [parseHsHeader_short typ _ (by omega), hl]
    · by_cases hty : typ = t
      · right
        subst hty
        obtain ⟨m, hm, h1, h2⟩ := hs_prefixReject ht inner v b trivial hc j hj
        refine ⟨m, ?_, h1, h2⟩
        -- the framed parser fails exactly as its header does on a proper prefix
        simp only [hsFramed, framed] at hm
        cases hh : (hsHeaderCodec typ).parse (b.take j) with
        | error e =>
          simp [hh, bind, Except.bind] at hm
          subst hm
          exact hh
        | ok r =>
          exfalso
          obtain ⟨pl, tot⟩ := r
          -- a header parse that succeeded would have consumed 4 + |pl| ≤ j bytes that re-encode the prefix
          have hsd := hsHeader_selfDelim typ _ _ _ hh
          have hlb := hsHeader_lenBound typ _ _ _ hh
          have hfull := hsd (b.drop tot)
          have hl : (b.take j).length = j := by simp; omega
          rw [hl] at hlb
          have htk : (b.take j).take tot = b.take tot := by rw [List.take_take]; congr 1; omega
          rw [htk, List.take_append_drop] at hfull
          -- but on the whole of b the header consumes everything
          obtain ⟨b', hb', hbb⟩ := hsHeader_roundTrip ht p hpl
          have hcomp : (hsHeaderCodec typ).compose p = .ok b := by
            simp only [hsFramed, framed, hp, bind, Except.bind] at hc
            exact hc
          rw [hcomp] at hb'; cases hb'
          have := hbb []
          rw [List.append_nil] at this
          rw [this] at hfull
          cases hfull
          omega
      · left
        refine ⟨?_, hty⟩
        have htake : b.take j = encNat .network 1 t ++ (encNat .network 3 p.length ++ p).take (j - 1) := by
          rw [hb, List.take_append]
          simp
          apply List.take_of_length_le
          simp; omega
        rw [htake]
        exact parseHsHeader_other_type ht hty _ (by simp; omega)
  unfold parseHandshakeVariant
  apply firstNotInvalidType_all
    (fun r => ∃ m : Nat, r = .error (.notEnough m) ∧ 1 ≤ m ∧ m ≤ b.length - j)
  · intro q hq
    obtain ⟨e, he, rfl⟩ := List.mem_map.mp hq
    rcases hdr e.2 with ⟨h1, _⟩ | ⟨m, hm, h1, h2⟩
    · left; exact hsAlt_header_error e _ _ he h1
    · right; exact ⟨m, hsAlt_header_error e _ _ he hm, h1, h2⟩
  · obtain ⟨e, he, het⟩ := hin
    refine ⟨hsAlt e, List.mem_map.mpr ⟨e, he, rfl⟩, ?_⟩
    rcases hdr e.2 with ⟨_, hne⟩ | ⟨m, hm, _, _⟩
    · exact absurd het hne
    · rw [hsAlt_header_error e _ _ he hm]
      simp

/-- in the regenerated variant table a modelled class is the only entry with its handshake type -/
theorem variant_type_determines_class :
    ∀ x ∈ Gen.handshakeVariants, ∀ c : HsClass, x.2 = c.typ → hsClassOfName x.1 = some c := by
  intro x hx c
  revert x
  cases c <;> decide +kernel

theorem variant_has_class : ∀ c : HsClass, ∃ e ∈ Gen.handshakeVariants, e.2 = c.typ := by
  intro c
  cases c <;> decide +kernel

theorem hsClass_typ_member : ∀ c : HsClass, c.typ ∈ Gen.TlsHandshakeType.memberCodes := by
  intro c
  cases c <;> decide +kernel

/-- On a buffer that starts with the type byte of a modelled class `c` the variant IS that class's
parser: every other alternative raises `InvalidType`. -/
theorem variant_eq_class (c : HsClass) (rest : Bytes) (hlen : 3 ≤ rest.length)
    (hok : parseHsClass c (encNat .network 1 c.typ ++ rest) ≠ .error .invalidType) :
    parseHandshakeVariant (encNat .network 1 c.typ ++ rest) = parseHsClass c (encNat .network 1 c.typ ++ rest) := by
  unfold parseHandshakeVariant
  apply firstNotInvalidType_all (fun r => r = parseHsClass c (encNat .network 1 c.typ ++ rest))
  · intro q hq
    obtain ⟨e, he, rfl⟩ := List.mem_map.mp hq
    by_cases hty : e.2 = c.typ
    · right
      unfold hsAlt
      rw [variant_type_determines_class e he c hty]
    · left
      exact hsAlt_header_error e _ _ he (parseHsHeader_other_type (hsClass_typ_member c) hty rest hlen)
  · obtain ⟨e, he, het⟩ := variant_has_class c
    refine ⟨hsAlt e, List.mem_map.mpr ⟨e, he, rfl⟩, ?_⟩
    unfold hsAlt
    rw [variant_type_determines_class e he c het]
    exact hok

end Cp.Tls
