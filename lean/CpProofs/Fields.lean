import CpModel.Text.Fields
import CpProofs.Text
/-
  CpProofs.Fields — lemmas about the generic model of `FieldValueMultiple._parse_basic_params`
  (CpModel/Text/Fields.lean): the name-keyed matching does not depend on the order of the pairs, ignores pairs no
  component accepts, and — for case-insensitive components — on the spelling of the names.
-/
namespace Cp.Text
open Cp Cp.Gen

/-- `_check_name` of component `c` accepts the name of the pair -/
def matchesComp (c : FieldComp) (p : Pair) : Bool := nameMatches c.mode (nameBytes c.name) p.1

theorem stepComp_def (c : FieldComp) (d : List Pair) :
    stepComp c d =
      match d.find? (matchesComp c) with
      | some (k, v) => .ok (slotOf c.mode k v, odErase (odErase d k) (nameBytes c.name))
      | none => if c.optional then .ok (.absent, d) else .error .invalidValue := rfl

/-- every match mode accepts the canonical name itself (so, in `_parse_basic_params`, `canonical in components`
cannot hold in the branch where no key was accepted) -/
theorem nameMatches_self (mode : MatchMode) (canonical : Bytes) : nameMatches mode canonical canonical = true := by
  cases mode <;> simp [nameMatches]

theorem matchesComp_key (c : FieldComp) (p q : Pair) (h : p.1 = q.1) : matchesComp c p = matchesComp c q := by
  simp [matchesComp, h]

/-! ### the ordered dictionary of pairs with pairwise different names is the list of pairs -/

theorem odInsert_fresh (d : List Pair) (k : Bytes) (v : Option Bytes) (h : k ∉ d.map (·.1)) :
    odInsert d k v = d ++ [(k, v)] := by
  unfold odInsert
  have : d.any (fun p => p.1 == k) = false := by
    rw [List.any_eq_false]
    intro p hp hpk
    exact h (List.mem_map.mpr ⟨p, hp, by simpa using hpk⟩)
  simp [this]

theorem foldl_odInsert_nodup (ps acc : List Pair) (h : ((acc ++ ps).map (·.1)).Nodup) :
    ps.foldl (fun d p => odInsert d p.1 p.2) acc = acc ++ ps := by
  induction ps generalizing acc with
  | nil => simp
  | cons p ps ih =>
    simp only [List.foldl_cons]
    have hfresh : p.1 ∉ acc.map (·.1) := by
      intro hmem
      rw [List.map_append, List.nodup_append] at h
      exact h.2.2 _ hmem _ (by simp) rfl
    rw [odInsert_fresh acc p.1 p.2 hfresh, ih]
    · simp
    · simpa using h

/-- `OrderedDict(pairs)` is `pairs` when no name occurs twice -/
theorem odOfList_nodup (ps : List Pair) (h : (ps.map (·.1)).Nodup) : odOfList ps = ps := by
  unfold odOfList
  rw [foldl_odInsert_nodup ps [] (by simpa using h)]
  simp

/-! ### `find?` on a permutation, when at most one element qualifies -/

theorem find?_perm_unique {α : Type} (p : α → Bool) {l l' : List α} (h : l.Perm l')
    (hu : (l.filter p).length ≤ 1) : l.find? p = l'.find? p := by
  rw [← List.head?_filter, ← List.head?_filter]
  have hp := h.filter p
  match hl : l.filter p with
  | [] =>
    rw [hl] at hp
    rw [← hp.nil_eq]
  | [a] =>
    rw [hl] at hp
    rw [List.perm_singleton.mp hp.symm]
  | a :: b :: t =>
    rw [hl] at hu
    simp at hu

theorem odErase_append (d e : List Pair) (k : Bytes) : odErase (d ++ e) k = odErase d k ++ odErase e k := by
  simp [odErase]

theorem odErase_of_forall_ne (e : List Pair) (k : Bytes) (h : ∀ p ∈ e, p.1 ≠ k) : odErase e k = e := by
  unfold odErase
  rw [List.filter_eq_self]
  intro p hp
  simpa using h p hp

theorem odErase_perm {d d' : List Pair} (h : d.Perm d') (k : Bytes) : (odErase d k).Perm (odErase d' k) :=
  h.filter _

theorem filter_odErase_length_le (q : Pair → Bool) (d : List Pair) (k : Bytes) :
    ((odErase d k).filter q).length ≤ (d.filter q).length :=
  (List.filter_sublist.filter q).length_le

/-! ### order of the pairs, pairs nothing accepts -/

/-- outcome relation: the same slots, and the left-over pairs of the second run are those of the first plus `e`, in
some order; the same error otherwise -/
def SameUpTo (e : List Pair) : Except PErr (List Slot × List Pair) → Except PErr (List Slot × List Pair) → Prop
  | .ok (s, r), .ok (s', r') => s' = s ∧ r'.Perm (r ++ e)
  | .error x, .error x' => x' = x
  | _, _ => False

/-- ORDER-FREE, UNKNOWN-IGNORING.  If the dictionary `d'` holds the pairs of `d` in any order plus pairs `e` whose
names no component of `cs` accepts, and no component accepts two names of `d`, then the run over `d'` hands every
component the same text as the run over `d`, and leaves `e` behind in addition. -/
theorem runComps_perm_extra (cs : List FieldComp) (d d' e : List Pair) (h : d'.Perm (d ++ e))
    (he : ∀ p ∈ e, ∀ c ∈ cs, matchesComp c p = false)
    (hu : ∀ c ∈ cs, (d.filter (matchesComp c)).length ≤ 1) :
    SameUpTo e (runComps cs d) (runComps cs d') := by
  induction cs generalizing d d' with
  | nil => simpa [runComps, SameUpTo] using h
  | cons c cs ih =>
    have hec : ∀ p ∈ e, matchesComp c p = false := fun p hp => he p hp c (by simp)
    have hfe : e.filter (matchesComp c) = [] := by
      rw [List.filter_eq_nil_iff]
      intro p hp
      simp [hec p hp]
    have hfind : d'.find? (matchesComp c) = d.find? (matchesComp c) := by
      rw [find?_perm_unique (matchesComp c) h (by
        have := h.filter (matchesComp c)
        rw [this.length_eq, List.filter_append, hfe]
        simpa using hu c (by simp))]
      rw [List.find?_append]
      have : e.find? (matchesComp c) = none := by
        rw [List.find?_eq_none]
        intro p hp
        simp [hec p hp]
      simp [this]
    simp only [runComps, stepComp_def, hfind]
    match hf : d.find? (matchesComp c) with
    | none =>
      simp only []
      by_cases hopt : c.optional = true
      · simp only [hopt, if_true]
        have := ih d d' h (fun p hp c' hc' => he p hp c' (by simp [hc'])) (fun c' hc' => hu c' (by simp [hc']))
        revert this
        cases runComps cs d <;> cases runComps cs d' <;> simp [SameUpTo]
        all_goals (intro h1 h2; exact ⟨by rw [h1], h2⟩)
      · simp [hopt, SameUpTo]
    | some (k, v) =>
      simp only []
      have hk : matchesComp c (k, v) = true := List.find?_some hf
      have hek : ∀ p ∈ e, p.1 ≠ k := by
        intro p hp hpk
        have := hec p hp
        rw [matchesComp_key c p (k, v) hpk, hk] at this
        cases this
      have hec' : ∀ p ∈ e, p.1 ≠ nameBytes c.name := by
        intro p hp hpk
        have := hec p hp
        simp [matchesComp, hpk, nameMatches_self] at this
      have hperm : (odErase (odErase d' k) (nameBytes c.name)).Perm (odErase (odErase d k) (nameBytes c.name) ++ e) := by
        have h1 := odErase_perm (odErase_perm h k) (nameBytes c.name)
        rw [odErase_append, odErase_append, odErase_of_forall_ne e k hek, odErase_of_forall_ne e _ hec'] at h1
        exact h1
      have := ih _ _ hperm (fun p hp c' hc' => he p hp c' (by simp [hc']))
        (fun c' hc' => Nat.le_trans (filter_odErase_length_le _ _ _)
          (Nat.le_trans (filter_odErase_length_le _ _ _) (hu c' (by simp [hc']))))
      revert this
      cases runComps cs (odErase (odErase d k) (nameBytes c.name)) <;>
        cases runComps cs (odErase (odErase d' k) (nameBytes c.name)) <;> simp [SameUpTo]
      all_goals (intro h1 h2; exact ⟨by rw [h1], h2⟩)

/-! ### the spelling of names matched case-insensitively -/

/-- the same pair under another spelling of its name -/
def respell (f : Bytes → Bytes) (p : Pair) : Pair := (f p.1, p.2)

theorem eq_of_nodup_map {α β : Type} (g : α → β) : ∀ (l : List α), (l.map g).Nodup → ∀ a ∈ l, ∀ b ∈ l, g a = g b → a = b
  | [], _, _, ha, _, _, _ => by cases ha
  | x :: xs, h, a, ha, b, hb, hab => by
    rw [List.map_cons, List.nodup_cons] at h
    rcases List.mem_cons.mp ha with rfl | ha' <;> rcases List.mem_cons.mp hb with rfl | hb'
    · rfl
    · exact absurd (List.mem_map.mpr ⟨b, hb', hab.symm⟩) h.1
    · exact absurd (List.mem_map.mpr ⟨a, ha', hab⟩) h.1
    · exact eq_of_nodup_map g xs h.2 a ha' b hb' hab

theorem nodup_of_nodup_map {α β : Type} (g : α → β) : ∀ (l : List α), (l.map g).Nodup → l.Nodup
  | [], _ => List.nodup_nil
  | x :: xs, h => by
    rw [List.map_cons, List.nodup_cons] at h
    rw [List.nodup_cons]
    exact ⟨fun hx => h.1 (List.mem_map.mpr ⟨x, hx, rfl⟩), nodup_of_nodup_map g xs h.2⟩

/-- with pairwise different lower-cased names, popping the matched key and the canonical key removes exactly the
pairs whose lower-cased name is the lower-cased canonical name -/
theorem odErase_twice_lower (d : List Pair) (hnd : (d.map (fun p => asciiLower p.1)).Nodup) (k can : Bytes) (v : Option Bytes)
    (hmem : (k, v) ∈ d) (hk : asciiLower k = asciiLower can) :
    odErase (odErase d k) can = d.filter (fun p => asciiLower p.1 != asciiLower can) := by
  unfold odErase
  rw [List.filter_filter]
  apply List.filter_congr
  intro p hp
  by_cases hl : asciiLower p.1 = asciiLower can
  · have : p = (k, v) := eq_of_nodup_map (fun p => asciiLower p.1) d hnd p hp (k, v) hmem (by simp [hl, hk])
    subst this
    simp [hk]
  · have h1 : p.1 ≠ k := fun h => hl (by rw [h, hk])
    have h2 : p.1 ≠ can := fun h => hl (by rw [h])
    have e1 : (p.1 != k) = true := by simpa using h1
    have e2 : (p.1 != can) = true := by simpa using h2
    have e3 : (asciiLower p.1 != asciiLower can) = true := by simpa using hl
    rw [e1, e2, e3]; rfl

theorem matchesComp_respell (c : FieldComp) (hc : c.mode = .caseInsensitive) (f : Bytes → Bytes)
    (hf : ∀ k, asciiLower (f k) = asciiLower k) (p : Pair) : matchesComp c (respell f p) = matchesComp c p := by
  simp [matchesComp, respell, nameMatches, hc, hf]

/-- outcome relation: the same slots, the left-over pairs respelled -/
def SameRespelled (f : Bytes → Bytes) : Except PErr (List Slot × List Pair) → Except PErr (List Slot × List Pair) → Prop
  | .ok (s, r), .ok (s', r') => s' = s ∧ r' = r.map (respell f)
  | .error x, .error x' => x' = x
  | _, _ => False

/-- CASE-FREE.  If every component of `cs` compares names case-insensitively, respelling the names of the pairs with
any `f` that preserves the lower-cased name (`Max-Age`, `MAX-AGE`, `mAx-aGe` …) hands every component the same text. -/
theorem runComps_respell (cs : List FieldComp) (hci : ∀ c ∈ cs, c.mode = .caseInsensitive) (f : Bytes → Bytes)
    (hf : ∀ k, asciiLower (f k) = asciiLower k) (d : List Pair) (hnd : (d.map (fun p => asciiLower p.1)).Nodup) :
    SameRespelled f (runComps cs d) (runComps cs (d.map (respell f))) := by
  induction cs generalizing d with
  | nil => simp [runComps, SameRespelled]
  | cons c cs ih =>
    have hc : c.mode = .caseInsensitive := hci c (by simp)
    have hcomp : matchesComp c ∘ respell f = matchesComp c := funext (matchesComp_respell c hc f hf)
    have hnd' : ((d.map (respell f)).map (fun p => asciiLower p.1)).Nodup := by
      rw [List.map_map]
      have : (fun p => asciiLower p.1) ∘ respell f = fun p => asciiLower p.1 := funext fun p => by simp [respell, hf]
      rw [this]; exact hnd
    simp only [runComps, stepComp_def, List.find?_map, hcomp]
    match hfd : d.find? (matchesComp c) with
    | none =>
      simp only [Option.map_none]
      by_cases hopt : c.optional = true
      · simp only [hopt, if_true]
        have := ih (fun c' hc' => hci c' (by simp [hc'])) d hnd
        revert this
        cases runComps cs d <;> cases runComps cs (d.map (respell f)) <;> simp [SameRespelled]
        all_goals (intro h1 h2; exact ⟨by rw [h1], h2⟩)
      · simp [hopt, SameRespelled]
    | some (k, v) =>
      simp only [Option.map_some, respell]
      have hmem : (k, v) ∈ d := List.mem_of_find?_eq_some hfd
      have hk : asciiLower k = asciiLower (nameBytes c.name) := by
        have := List.find?_some hfd
        simpa [matchesComp, nameMatches, hc] using this
      have hmem' : (f k, v) ∈ d.map (respell f) := List.mem_map.mpr ⟨(k, v), hmem, rfl⟩
      rw [odErase_twice_lower d hnd k _ v hmem hk,
        odErase_twice_lower (d.map (respell f)) hnd' (f k) _ v hmem' (by rw [hf, hk]), List.filter_map]
      have hq : (fun p : Pair => asciiLower p.1 != asciiLower (nameBytes c.name)) ∘ respell f =
          fun p => asciiLower p.1 != asciiLower (nameBytes c.name) := funext fun p => by simp [respell, hf]
      rw [hq]
      have hslot : slotOf c.mode (f k) v = slotOf c.mode k v := by rw [hc]; cases v <;> rfl
      rw [hslot]
      have hsub : ((d.filter fun p => asciiLower p.1 != asciiLower (nameBytes c.name)).map fun p => asciiLower p.1).Nodup :=
        List.Nodup.sublist (List.filter_sublist.map _) hnd
      have := ih (fun c' hc' => hci c' (by simp [hc'])) _ hsub
      revert this
      cases runComps cs (d.filter fun p => asciiLower p.1 != asciiLower (nameBytes c.name)) <;>
        cases runComps cs ((d.filter fun p => asciiLower p.1 != asciiLower (nameBytes c.name)).map (respell f)) <;>
        simp [SameRespelled]
      all_goals (intro h1 h2; exact ⟨by rw [h1], h2⟩)

/-! ### all of it at once: another order, unknown pairs, other case patterns -/

/-- no component accepts any of these pairs -/
def Unmatched (cs : List FieldComp) (e : List Pair) : Prop := ∀ p ∈ e, ∀ c ∈ cs, matchesComp c p = false

theorem respell_id (p : Pair) : respell id p = p := rfl

theorem map_respell_id (l : List Pair) : l.map (respell id) = l := by
  induction l with
  | nil => rfl
  | cons p ps ih => rw [List.map_cons, ih, respell_id]

theorem map_lower_respell (f : Bytes → Bytes) (hf : ∀ k, asciiLower (f k) = asciiLower k) (d : List Pair) :
    (d.map (respell f)).map (fun p => asciiLower p.1) = d.map (fun p => asciiLower p.1) := by
  rw [List.map_map]
  apply List.map_congr_left
  intro p _
  simp [respell, hf]

/-- with pairwise different lower-cased names, a component that is not positional accepts at most one pair -/
theorem unamb_of_lower_nodup (cs : List FieldComp) (hno : ∀ c ∈ cs, c.mode ≠ .anyName) (d : List Pair)
    (hnd : (d.map fun p => asciiLower p.1).Nodup) : ∀ c ∈ cs, (d.filter (matchesComp c)).length ≤ 1 := by
  intro c hc
  match hfl : d.filter (matchesComp c) with
  | [] => simp
  | [_] => simp
  | a :: b :: t =>
    exfalso
    have hsub : ((a :: b :: t).map fun p => asciiLower p.1).Nodup := by
      rw [← hfl]; exact List.Nodup.sublist (List.filter_sublist.map _) hnd
    have hne : asciiLower a.1 ≠ asciiLower b.1 := by
      simp only [List.map_cons, List.nodup_cons, List.mem_cons] at hsub
      exact fun h => hsub.1 (Or.inl h)
    have ha : matchesComp c a = true := (List.mem_filter.mp (by rw [hfl]; simp : a ∈ d.filter (matchesComp c))).2
    have hb : matchesComp c b = true := (List.mem_filter.mp (by rw [hfl]; simp : b ∈ d.filter (matchesComp c))).2
    have hm := hno c hc
    cases hmode : c.mode with
    | anyName => exact hm hmode
    | exact =>
      simp [matchesComp, nameMatches, hmode] at ha hb
      exact hne (by rw [ha, hb])
    | caseInsensitive =>
      simp [matchesComp, nameMatches, hmode] at ha hb
      exact hne (by rw [ha, hb])

/-- the slots of a run (or its error) -/
def slotsOf (r : Except PErr (List Slot × List Pair)) : Except PErr (List Slot) := r.map Prod.fst

/-- ORDER, UNKNOWN PAIRS AND CASE TOGETHER.  `d'` holds the pairs of `d`, their names respelled by a
lower-case-preserving `f` (the identity unless every component compares case-insensitively), in any order, plus pairs no
component accepts; no two names of `d'` are equal up to case; no component is positional.  Then every component is
handed the same text. -/
theorem runComps_variant (cs : List FieldComp) (hno : ∀ c ∈ cs, c.mode ≠ .anyName) (d d' e : List Pair)
    (f : Bytes → Bytes) (hf : ∀ k, asciiLower (f k) = asciiLower k)
    (hmode : (∀ c ∈ cs, c.mode = .caseInsensitive) ∨ f = id)
    (hperm : d'.Perm (d.map (respell f) ++ e)) (he : Unmatched cs e)
    (hnd' : (d'.map fun p => asciiLower p.1).Nodup) :
    slotsOf (runComps cs d') = slotsOf (runComps cs d) := by
  have hnd1 : (((d.map (respell f)) ++ e).map fun p => asciiLower p.1).Nodup := (hperm.map _).nodup_iff.mp hnd'
  have hnd2 : ((d.map (respell f)).map fun p => asciiLower p.1).Nodup := by
    rw [List.map_append, List.nodup_append] at hnd1
    exact hnd1.1
  have hnd : (d.map fun p => asciiLower p.1).Nodup := by rwa [map_lower_respell f hf] at hnd2
  have h2 := runComps_perm_extra cs (d.map (respell f)) d' e hperm he (unamb_of_lower_nodup cs hno _ hnd2)
  rcases hmode with hci | hid
  · have h1 := runComps_respell cs hci f hf d hnd
    revert h1 h2
    cases runComps cs d <;> cases runComps cs (d.map (respell f)) <;> cases runComps cs d' <;>
      simp [SameRespelled, SameUpTo, slotsOf, Except.map]
    · intro h1 h2; exact h1.trans h2
    · intro h1 _ h2 _; exact h1.trans h2
  · subst hid
    rw [map_respell_id] at h2
    revert h2
    cases runComps cs d <;> cases runComps cs d' <;> simp [SameUpTo, slotsOf, Except.map]
    all_goals (intros; simp_all)

/-- the same for `parsePairs` (the dictionary of pairs whose names differ is the list of pairs) -/
theorem parsePairs_variant (T : FieldTable) (hno : ∀ c ∈ T.comps, c.mode ≠ .anyName) (ps ps' e : List Pair)
    (f : Bytes → Bytes) (hf : ∀ k, asciiLower (f k) = asciiLower k)
    (hmode : (∀ c ∈ T.comps, c.mode = .caseInsensitive) ∨ f = id)
    (hperm : ps'.Perm (ps.map (respell f) ++ e)) (he : Unmatched T.comps e)
    (hnd' : (ps'.map fun p => asciiLower p.1).Nodup) :
    (parsePairs T ps').map (·.slots) = (parsePairs T ps).map (·.slots) := by
  have lowerToNames (l : List Pair) (h : (l.map fun p => asciiLower p.1).Nodup) : (l.map (·.1)).Nodup := by
    have : (l.map fun p => asciiLower p.1) = (l.map (·.1)).map asciiLower := by simp
    rw [this] at h
    exact nodup_of_nodup_map asciiLower _ h
  have hnd1 : (((ps.map (respell f)) ++ e).map fun p => asciiLower p.1).Nodup := (hperm.map _).nodup_iff.mp hnd'
  have hnd : (ps.map fun p => asciiLower p.1).Nodup := by
    rw [List.map_append, List.nodup_append] at hnd1
    have := hnd1.1
    rwa [map_lower_respell f hf] at this
  have := runComps_variant T.comps hno ps ps' e f hf hmode hperm he hnd'
  unfold parsePairs
  rw [odOfList_nodup ps (lowerToNames ps hnd), odOfList_nodup ps' (lowerToNames ps' hnd')]
  revert this
  cases runComps T.comps ps <;> cases runComps T.comps ps' <;> simp [slotsOf, Except.map]

/-! ### the well-formedness check of an item (`pairOk`) -/

theorem splitFirstEq_eq : ∀ {i n v : Bytes}, splitFirstEq i = some (n, v) → i = n ++ 0x3d :: v := by
  intro i
  induction i with
  | nil => intro n v h; simp [splitFirstEq] at h
  | cons x xs ih =>
    intro n v h
    simp only [splitFirstEq] at h
    split at h
    · next hx => cases h; simp [hx]
    · cases hs : splitFirstEq xs with
      | none => simp [hs] at h
      | some p =>
        obtain ⟨n', v'⟩ := p
        simp [hs] at h
        obtain ⟨rfl, rfl⟩ := h
        simp [ih hs]

theorem mem_of_mem_trimStart {ws l : Bytes} {x : UInt8} (h : x ∈ trimStart ws l) : x ∈ l :=
  (List.dropWhile_sublist _).subset h

theorem mem_of_mem_trimEnd {ws l : Bytes} {x : UInt8} (h : x ∈ trimEnd ws l) : x ∈ l := by
  unfold trimEnd at h
  have h1 : x ∈ l.reverse.dropWhile ws.contains := by simpa using h
  have := (List.dropWhile_sublist _).subset h1
  simpa using this

theorem valueOk_of_no_quote (v : Bytes) (h : (0x22 : UInt8) ∉ v) : valueOk (some v) = true := by
  unfold valueOk
  have hh : v.head? ≠ some 0x22 := by
    intro hc
    cases v with
    | nil => simp at hc
    | cons y ys => simp at hc; exact h (by simp [hc])
  simp [hh, h]

/-- an item without a double quote passes the check -/
theorem pairOk_of_no_quote (i : Bytes) (h : (0x22 : UInt8) ∉ i) : pairOk i = true := by
  unfold pairOk rawValue nameValue
  cases hs : splitFirstEq i with
  | none =>
    have : (0x22 : UInt8) ∉ trimEnd fieldWs i := fun hm => h (mem_of_mem_trimEnd hm)
    simp [this, valueOk]
  | some p =>
    obtain ⟨n, v⟩ := p
    have hi := splitFirstEq_eq hs
    have hn : (0x22 : UInt8) ∉ trimEnd fieldWs n := fun hm => h (by rw [hi]; simp [mem_of_mem_trimEnd hm])
    have hv : (0x22 : UInt8) ∉ trimStart fieldWs (v.dropWhile (· = 0x3d)) := by
      intro hm
      have h1 := mem_of_mem_trimStart hm
      have h2 : (0x22 : UInt8) ∈ v := (List.dropWhile_sublist _).subset h1
      exact h (by rw [hi]; simp [h2])
    simp [hn, valueOk_of_no_quote _ hv]

end Cp.Text
