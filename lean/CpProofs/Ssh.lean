import CpProofs.Ssh.NameList
import CpProofs.Ssh.Tables
import CpProofs.Ssh.Fields
import CpProofs.Ssh.Language
import CpProofs.Ssh.Packet
import CpProofs.Ssh.KexInit
import CpProofs.Ssh.Hassh
import CpProofs.Ssh.Messages
import CpProofs.Ssh.Keys
import CpProofs.Ssh.Fingerprint
import CpProofs.Ssh.Variant
import CpProofs.Ssh.NoCrash
import CpProofs.Ssh.Banner
import CpProofs.Ssh.BannerRT
import CpProofs.Ssh.BannerSD
import CpModel.Ssh.Banner
import CpModel.Ssh.Cert
/-
  CpProofs.Ssh — helper lemmas for the SSH family (C07, C16), one file per layer:

    Ssh/NameList     the item splitter, table lookup, laws of the name-list codec
    Ssh/Tables       per-table obligations decided on the regenerated name tables
    Ssh/Fields       message code, raw, boolean, language-list field codecs
    Ssh/Language     language-tag lists
    Ssh/Packet       padding arithmetic and the laws of the binary packet around any message codec
    Ssh/KexInit      KEXINIT round trip and equality with the RFC 4253 §7.1 encoding
    Ssh/Hassh        the HASSH preimage equals the wire strings
    Ssh/Messages     DH / GEX / disconnect / unimplemented / newkeys
    Ssh/Keys         ssh-rsa, ssh-dss, ssh-ed25519, ecdsa-sha2-* blobs through SshHostPublicKeyVariant
    Ssh/Fingerprint  base 64 and colon-hex renderings
    Ssh/Variant      the message variants and the three record classes
    Ssh/NoCrash      which SSH parsers can only fail with the four documented parse errors
    Ssh/Banner       the identification string: consumed length, no crash, composed form
    Ssh/BannerRT     the identification string: round trip
    Ssh/BannerSD     the identification string: self-delimitation, prefixes
-/
namespace Cp.Ssh
open Cp

/-- flag extensions and unparsed options are `string name ‖ string data` -/
theorem certOpt_compose_spec :
    (∀ i name, Gen.Ssh.certExtensionNames[i]? = some name → name.length < 2 ^ 32 →
      composeOpt (.noData i) = .ok (Spec.Ssh.certFlag name)) ∧
    (∀ name data : Bytes, name.length < 2 ^ 32 → data.length < 2 ^ 32 →
      composeOpt (.unparsed name data) = .ok (Spec.Ssh.certOption name data)) := by
  constructor
  · intro i name hi hl
    have h0 : composeNum .network 4 0 = .ok (Spec.Ssh.string []) := by decide
    simp [composeOpt, hi, composeAsciiString, composeBytes_eq_string name hl, bind, Except.bind, h0, pure, Except.pure,
      Spec.Ssh.certFlag, Spec.Ssh.certOption]
  · intro name data hn hd
    simp [composeOpt, composeAsciiString, composeBytes_eq_string name hn, composeBytes_eq_string data hd, bind,
      Except.bind, pure, Except.pure, Spec.Ssh.certOption]

end Cp.Ssh
