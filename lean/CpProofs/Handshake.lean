import CpProofs.Tls
/-
  Laws of `framed` (frame codec + payload parser) and of the TLS handshake-message framing.
  They hold for EVERY handshake message class, whatever its payload parser does, because the
  consumed length and the prefix behaviour are decided by the four-byte header alone.
-/
namespace Cp.Codec
open Cp

variable {α : Type}

theorem framed_parse_ok_inv {F : Codec Bytes} {inner : Codec α} {bs : Bytes} {v : α} {t : Nat}
    (h : (framed F inner).parse bs = .ok (v, t)) :
    ∃ p m, F.parse bs = .ok (p, t) ∧ inner.parse p = .ok (v, m) := by
  simp only [framed] at h
  cases h1 : F.parse bs with
  | error e => simp [h1, bind, Except.bind] at h
  | ok r =>
    obtain ⟨p, t'⟩ := r
    simp only [h1, bind, Except.bind] at h
    cases h2 : inner.parse p with
    | error e => simp [h2] at h
    | ok r2 =>
      obtain ⟨v', m⟩ := r2
      simp [h2, pure, Except.pure] at h
      obtain ⟨hv, ht⟩ := h
      subst hv; subst ht
      exact ⟨p, m, rfl, h2⟩

theorem framed_lenBound {F : Codec Bytes} (inner : Codec α) (hF : LenBound F) : LenBound (framed F inner) := by
  intro bs v t h
  obtain ⟨p, m, h1, _⟩ := framed_parse_ok_inv h
  exact hF _ _ _ h1

theorem framed_positive {F : Codec Bytes} (inner : Codec α) (hF : Positive F) : Positive (framed F inner) := by
  intro bs v t h
  obtain ⟨p, m, h1, _⟩ := framed_parse_ok_inv h
  exact hF _ _ _ h1

theorem framed_selfDelim {F : Codec Bytes} (inner : Codec α) (hF : SelfDelim F) :
    SelfDelim (framed F inner) := by
  intro bs v t h s
  obtain ⟨p, m, h1, h2⟩ := framed_parse_ok_inv h
  simp [framed, hF _ _ _ h1 s, bind, Except.bind, h2, pure, Except.pure]

theorem framed_noCrash {F : Codec Bytes} {inner : Codec α} (hF : NoCrash F) (hi : NoCrash inner) :
    NoCrash (framed F inner) := by
  intro bs k
  simp only [framed]
  cases h1 : F.parse bs with
  | error e =>
    simp only [bind, Except.bind]
    intro h; cases h
    exact hF bs k h1
  | ok r =>
    obtain ⟨p, t⟩ := r
    simp only [bind, Except.bind]
    cases h2 : inner.parse p with
    | error e =>
      intro h; cases h
      exact hi p k h2
    | ok r2 => simp [pure, Except.pure]

/-- the frame's compose only succeeds on payloads of its domain -/
def ComposeWf (F : Codec Bytes) (wf : Bytes → Prop) : Prop := ∀ p b, F.compose p = .ok b → wf p

/-- prefix rejection of a framed message is decided by the frame alone — for ANY payload parser -/
theorem framed_prefixReject {F : Codec Bytes} {wfF : Bytes → Prop} (inner : Codec α)
    (hF : PrefixReject F wfF) (hcw : ComposeWf F wfF) : PrefixReject (framed F inner) (fun _ => True) := by
  intro v b _ hc j hj
  simp only [framed] at hc
  cases h1 : inner.compose v with
  | error e => simp [h1, bind, Except.bind] at hc
  | ok p =>
    simp only [h1, bind, Except.bind] at hc
    obtain ⟨m, hm, hm1, hm2⟩ := hF p b (hcw p b hc) hc j hj
    exact ⟨m, by simp [framed, hm, bind, Except.bind], hm1, hm2⟩

/-- round trip of a framed message from a "loose" round trip of its payload parser -/
theorem framed_roundTrip {F : Codec Bytes} {wfF : Bytes → Prop} {inner : Codec α} {wf : α → Prop}
    (hF : RoundTrip F wfF)
    (hi : ∀ v, wf v → ∃ p, inner.compose v = .ok p ∧ wfF p ∧ ∃ m, inner.parse p = .ok (v, m)) :
    RoundTrip (framed F inner) wf := by
  intro v hv
  obtain ⟨p, hp, hwp, m, hpp⟩ := hi v hv
  obtain ⟨b, hb, hbb⟩ := hF p hwp
  refine ⟨b, by simp [framed, hp, bind, Except.bind, hb], ?_⟩
  intro s
  simp [framed, hbb s, bind, Except.bind, hpp, pure, Except.pure]

theorem composeBytes_ok_inv {bo : ByteOrder} {k : Nat} {v b : Bytes} (hk : validSize k = true)
    (h : composeBytes bo k v = .ok b) : v.length < 256 ^ k := by
  by_cases hv : v.length < 256 ^ k
  · exact hv
  · exfalso
    unfold composeBytes at h
    have : composeNum bo k (v.length : Int) = .error .invalidValue := by
      unfold composeNum
      have h2 : 256 ^ k ≤ v.length := by omega
      simp [hk, h2]
    simp [this, bind, Except.bind] at h

end Cp.Codec

namespace Cp.Tls
open Cp Cp.Codec

variable {α : Type}

theorem hsType_fits : ∀ v ∈ Gen.TlsHandshakeType.memberCodes, v < 256 ^ 1 := by decide +kernel

def hsHeaderInner (typ : Nat) : Codec (Nat × Bytes) :=
  seq (guardE (intEnum Gen.TlsHandshakeType.memberCodes 1) (fun t => t == typ) .invalidType)
    (bytesPrefixed .network 3)

def hsHeaderInnerWf (typ : Nat) (x : Nat × Bytes) : Prop :=
  (x.1 ∈ Gen.TlsHandshakeType.memberCodes ∧ (x.1 == typ) = true) ∧ x.2.length < 256 ^ 3

theorem hsHeaderCodec_eq (typ : Nat) :
    hsHeaderCodec typ = minSize 4 (mapE (hsHeaderInner typ) (fun x => .ok x.2) (fun p => (typ, p))) := rfl

theorem hsHeaderInner_roundTrip (typ : Nat) : RoundTrip (hsHeaderInner typ) (hsHeaderInnerWf typ) :=
  seq_roundTrip (guardE_roundTrip (intEnum_roundTrip rfl hsType_fits)) (bytesPrefixed_roundTrip .network rfl)

theorem hsHeaderInner_prefixReject (typ : Nat) : PrefixReject (hsHeaderInner typ) (hsHeaderInnerWf typ) :=
  seq_prefixReject (guardE_roundTrip (intEnum_roundTrip rfl hsType_fits))
    (guardE_prefixReject (intEnum_prefixReject rfl hsType_fits)) (bytesPrefixed_prefixReject .network rfl)

theorem hsHeaderInner_lenBound (typ : Nat) : LenBound (hsHeaderInner typ) :=
  seq_lenBound (guardE_lenBound (intEnum_lenBound _ _)) (bytesPrefixed_lenBound _ _)

theorem hsHeaderInner_selfDelim (typ : Nat) : SelfDelim (hsHeaderInner typ) :=
  seq_selfDelim (guardE_selfDelim (intEnum_selfDelim _ _)) (guardE_lenBound (intEnum_lenBound _ _))
    (bytesPrefixed_selfDelim _ _) (bytesPrefixed_lenBound _ _)

theorem hsHeaderInner_noCrash (typ : Nat) : NoCrash (hsHeaderInner typ) :=
  seq_noCrash (guardE_noCrash (intEnum_noCrash _ rfl) rfl) (bytesPrefixed_noCrash .network rfl)

/-- a parsed header consumed 4 + payload bytes -/
theorem hsHeaderInner_consumed (typ : Nat) (bs : Bytes) (x : Nat × Bytes) (t : Nat)
    (h : (hsHeaderInner typ).parse bs = .ok (x, t)) :
    t = 4 + x.2.length ∧ x.2.length = decNat .network ((bs.drop 1).take 3) ∧ x.1 = typ ∧
      typ ∈ Gen.TlsHandshakeType.memberCodes := by
  obtain ⟨ty, p⟩ := x
  obtain ⟨n, m, h1, h2, ht⟩ := seq_parse_ok_inv h
  obtain ⟨h3, hok⟩ := guardE_parse_ok_inv h1
  obtain ⟨hp, hmem⟩ := parseIntEnum_ok_inv h3
  have e1 := (parseNum_ok_inv hp).1
  obtain ⟨_, _, e3, _, _, e4, _⟩ := parseBytes_ok_inv h2
  subst e1
  have hty : ty = typ := by simpa using hok
  subst hty
  exact ⟨by simp only; omega, e4, rfl, hmem⟩

def hsPayloadWf (p : Bytes) : Prop := p.length < 256 ^ 3

theorem hsHeader_roundTrip {typ : Nat} (hm : typ ∈ Gen.TlsHandshakeType.memberCodes) :
    RoundTrip (hsHeaderCodec typ) hsPayloadWf := by
  rw [hsHeaderCodec_eq]
  have hmap : RoundTrip (mapE (hsHeaderInner typ) (fun x => .ok x.2) (fun p => (typ, p))) hsPayloadWf :=
    mapE_roundTrip (hsHeaderInner_roundTrip typ) (fun p hp => ⟨⟨⟨hm, by simp⟩, hp⟩, rfl⟩)
  apply minSize_roundTrip hmap
  intro p b hp hc
  obtain ⟨b', hb', hbb⟩ := hmap p hp
  rw [hc] at hb'; cases hb'
  obtain ⟨x, hx, _⟩ := mapE_parse_ok_inv (hbb [])
  have := (hsHeaderInner_consumed typ _ _ _ hx).1
  omega

theorem hsHeader_composeWf (typ : Nat) : ComposeWf (hsHeaderCodec typ) hsPayloadWf := by
  intro p b hc
  simp only [hsHeaderCodec, minSize, mapE, seq, guardE, intEnum, bytesPrefixed] at hc
  cases h1 : composeNum .network 1 (typ : Int) with
  | error e => simp [h1, bind, Except.bind] at hc
  | ok a =>
    simp only [h1, bind, Except.bind] at hc
    cases h2 : composeBytes .network 3 p with
    | error e => simp [h2] at hc
    | ok q => exact composeBytes_ok_inv (by rfl) h2

theorem hsHeader_prefixReject {typ : Nat} (hm : typ ∈ Gen.TlsHandshakeType.memberCodes) :
    PrefixReject (hsHeaderCodec typ) hsPayloadWf := by
  rw [hsHeaderCodec_eq]
  have hmapRT : RoundTrip (mapE (hsHeaderInner typ) (fun x => .ok x.2) (fun p => (typ, p))) hsPayloadWf :=
    mapE_roundTrip (hsHeaderInner_roundTrip typ) (fun p hp => ⟨⟨⟨hm, by simp⟩, hp⟩, rfl⟩)
  apply minSize_prefixReject
  · exact mapE_prefixReject (hsHeaderInner_prefixReject typ) (fun p hp => ⟨⟨hm, by simp⟩, hp⟩)
  · intro p b hp hc
    obtain ⟨b', hb', hbb⟩ := hmapRT p hp
    rw [hc] at hb'; cases hb'
    obtain ⟨x, hx, _⟩ := mapE_parse_ok_inv (hbb [])
    have := (hsHeaderInner_consumed typ _ _ _ hx).1
    omega

theorem hsHeader_lenBound (typ : Nat) : LenBound (hsHeaderCodec typ) := by
  rw [hsHeaderCodec_eq]; exact minSize_lenBound (mapE_lenBound (hsHeaderInner_lenBound typ))

theorem hsHeader_positive (typ : Nat) : Positive (hsHeaderCodec typ) := by
  rw [hsHeaderCodec_eq]
  intro bs p t h
  obtain ⟨h1, _⟩ := minSize_parse_ok_inv h
  obtain ⟨x, hx, _⟩ := mapE_parse_ok_inv h1
  have := (hsHeaderInner_consumed typ _ _ _ hx).1
  omega

theorem hsHeader_selfDelim (typ : Nat) : SelfDelim (hsHeaderCodec typ) := by
  rw [hsHeaderCodec_eq]
  apply minSize_selfDelim (mapE_selfDelim (hsHeaderInner_selfDelim typ))
  · intro bs p t h
    obtain ⟨x, hx, _⟩ := mapE_parse_ok_inv h
    have := (hsHeaderInner_consumed typ _ _ _ hx).1
    omega
  · exact mapE_lenBound (hsHeaderInner_lenBound typ)

theorem hsHeader_noCrash (typ : Nat) : NoCrash (hsHeaderCodec typ) := by
  rw [hsHeaderCodec_eq]
  exact minSize_noCrash (mapE_noCrash (hsHeaderInner_noCrash typ) (fun x k => by simp))

/-! ### every handshake message class -/

theorem hs_lenBound (typ : Nat) (inner : Codec α) : LenBound (hsFramed typ inner) :=
  framed_lenBound inner (hsHeader_lenBound typ)

theorem hs_positive (typ : Nat) (inner : Codec α) : Positive (hsFramed typ inner) :=
  framed_positive inner (hsHeader_positive typ)

theorem hs_selfDelim (typ : Nat) (inner : Codec α) : SelfDelim (hsFramed typ inner) :=
  framed_selfDelim inner (hsHeader_selfDelim typ)

theorem hs_noCrash (typ : Nat) {inner : Codec α} (hi : NoCrash inner) : NoCrash (hsFramed typ inner) :=
  framed_noCrash (hsHeader_noCrash typ) hi

theorem hs_prefixReject {typ : Nat} (hm : typ ∈ Gen.TlsHandshakeType.memberCodes) (inner : Codec α) :
    PrefixReject (hsFramed typ inner) (fun _ => True) :=
  framed_prefixReject inner (hsHeader_prefixReject hm) (hsHeader_composeWf typ)

theorem hs_roundTrip {typ : Nat} (hm : typ ∈ Gen.TlsHandshakeType.memberCodes) {inner : Codec α}
    {wf : α → Prop}
    (hi : ∀ v, wf v → ∃ p, inner.compose v = .ok p ∧ p.length < 256 ^ 3 ∧ ∃ m, inner.parse p = .ok (v, m)) :
    RoundTrip (hsFramed typ inner) wf :=
  framed_roundTrip (hsHeader_roundTrip hm) hi

/-- the consumed length is what the header declares: 4 + the 24-bit length field -/
theorem hs_declared_length (typ : Nat) (inner : Codec α) (bs : Bytes) (v : α) (t : Nat)
    (h : (hsFramed typ inner).parse bs = .ok (v, t)) :
    t = 4 + decNat .network ((bs.drop 1).take 3) := by
  obtain ⟨p, m, h1, _⟩ := framed_parse_ok_inv h
  rw [hsHeaderCodec_eq] at h1
  obtain ⟨h2, _⟩ := minSize_parse_ok_inv h1
  obtain ⟨x, hx, hf⟩ := mapE_parse_ok_inv h2
  obtain ⟨e1, e2, _, _⟩ := hsHeaderInner_consumed typ _ _ _ hx
  omega

end Cp.Tls
