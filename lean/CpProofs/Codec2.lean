import CpProofs.Codec
/-
  Laws of the structural combinators: `seq`, `mapE`, `guardE`, `minSize`.
-/
namespace Cp.Codec
open Cp

variable {α β : Type}

theorem seq_parse_ok_inv {a : Codec α} {b : Codec β} {bs : Bytes} {x : α} {y : β} {t : Nat}
    (h : (seq a b).parse bs = .ok ((x, y), t)) :
    ∃ n m, a.parse bs = .ok (x, n) ∧ b.parse (bs.drop n) = .ok (y, m) ∧ t = n + m := by
  simp only [seq] at h
  cases ha : a.parse bs with
  | error e => simp [ha, bind, Except.bind] at h
  | ok r =>
    obtain ⟨x', n⟩ := r
    simp only [ha, bind, Except.bind] at h
    cases hb : b.parse (bs.drop n) with
    | error e => simp [hb] at h
    | ok r2 =>
      obtain ⟨y', m⟩ := r2
      simp [hb, pure, Except.pure] at h
      obtain ⟨⟨h1, h2⟩, h3⟩ := h
      subst h1; subst h2
      exact ⟨n, m, rfl, hb, h3.symm⟩

theorem seq_roundTrip {a : Codec α} {b : Codec β} {wa : α → Prop} {wb : β → Prop}
    (ha : RoundTrip a wa) (hb : RoundTrip b wb) :
    RoundTrip (seq a b) (fun p => wa p.1 ∧ wb p.2) := by
  intro ⟨x, y⟩ ⟨hx, hy⟩
  obtain ⟨p, hp, hpp⟩ := ha x hx
  obtain ⟨q, hq, hqq⟩ := hb y hy
  refine ⟨p ++ q, ?_, ?_⟩
  · simp [seq, hp, hq, bind, Except.bind, pure, Except.pure]
  · intro s
    simp only [seq]
    rw [List.append_assoc, hpp (q ++ s)]
    simp only [bind, Except.bind]
    rw [List.drop_left, hqq s]
    simp [pure, Except.pure]

theorem seq_parseWf {a : Codec α} {b : Codec β} {wa : α → Prop} {wb : β → Prop}
    (ha : ParseWf a wa) (hb : ParseWf b wb) : ParseWf (seq a b) (fun p => wa p.1 ∧ wb p.2) := by
  intro bs ⟨x, y⟩ t h
  obtain ⟨n, m, h1, h2, _⟩ := seq_parse_ok_inv h
  exact ⟨ha _ _ _ h1, hb _ _ _ h2⟩

theorem seq_lenBound {a : Codec α} {b : Codec β} (ha : LenBound a) (hb : LenBound b) :
    LenBound (seq a b) := by
  intro bs ⟨x, y⟩ t h
  obtain ⟨n, m, h1, h2, ht⟩ := seq_parse_ok_inv h
  have := ha _ _ _ h1
  have := hb _ _ _ h2
  simp at this
  omega

theorem seq_positive_left {a : Codec α} {b : Codec β} (ha : Positive a) : Positive (seq a b) := by
  intro bs ⟨x, y⟩ t h
  obtain ⟨n, m, h1, h2, ht⟩ := seq_parse_ok_inv h
  have := ha _ _ _ h1
  omega

theorem seq_noCrash {a : Codec α} {b : Codec β} (ha : NoCrash a) (hb : NoCrash b) :
    NoCrash (seq a b) := by
  intro bs k
  simp only [seq]
  cases h1 : a.parse bs with
  | error e =>
    simp only [bind, Except.bind]
    intro h; cases h
    exact ha bs k h1
  | ok r =>
    obtain ⟨x, n⟩ := r
    simp only [bind, Except.bind]
    cases h2 : b.parse (bs.drop n) with
    | error e =>
      intro h; cases h
      exact hb _ k h2
    | ok r2 => simp [pure, Except.pure]

theorem seq_selfDelim {a : Codec α} {b : Codec β} (ha : SelfDelim a) (hla : LenBound a)
    (hb : SelfDelim b) (hlb : LenBound b) : SelfDelim (seq a b) := by
  intro bs ⟨x, y⟩ t h s
  obtain ⟨n, m, h1, h2, ht⟩ := seq_parse_ok_inv h
  have hn := hla _ _ _ h1
  have hm := hlb _ _ _ h2
  simp at hm
  subst ht
  have hsplit : bs.take (n + m) ++ s = bs.take n ++ ((bs.drop n).take m ++ s) := by
    rw [List.take_add, List.append_assoc]
  simp only [seq]
  rw [hsplit, ha _ _ _ h1 _]
  simp only [bind, Except.bind]
  have hdrop : (bs.take n ++ ((bs.drop n).take m ++ s)).drop n = (bs.drop n).take m ++ s := by
    rw [List.drop_append_of_le_length (by simp; omega)]
    simp [List.drop_take, hn]
  rw [hdrop, hb _ _ _ h2 _]
  simp [pure, Except.pure]

theorem seq_prefixReject {a : Codec α} {b : Codec β} {wa : α → Prop} {wb : β → Prop}
    (ha : RoundTrip a wa) (hpa : PrefixReject a wa) (hpb : PrefixReject b wb) :
    PrefixReject (seq a b) (fun p => wa p.1 ∧ wb p.2) := by
  intro ⟨x, y⟩ bs ⟨hx, hy⟩ hc j hj
  obtain ⟨p, hp, hpp⟩ := ha x hx
  simp only [seq, hp, bind, Except.bind] at hc
  cases hq : b.compose y with
  | error e => simp [hq] at hc
  | ok q =>
    simp [hq, pure, Except.pure] at hc
    subst hc
    simp only [List.length_append] at hj ⊢
    by_cases hjp : j < p.length
    · obtain ⟨m, hm, hm1, hm2⟩ := hpa x p hx hp j hjp
      refine ⟨m, ?_, hm1, by omega⟩
      have : (p ++ q).take j = p.take j := by
        rw [List.take_append_of_le_length (by omega)]
      simp only [seq]
      rw [this, hm]
      rfl
    · have hjp' : p.length ≤ j := by omega
      obtain ⟨m, hm, hm1, hm2⟩ := hpb y q hy hq (j - p.length) (by omega)
      refine ⟨m, ?_, hm1, by omega⟩
      have : (p ++ q).take j = p ++ q.take (j - p.length) := by
        rw [List.take_append]
        simp [List.take_of_length_le, hjp']
      simp only [seq]
      rw [this, hpp]
      simp only [bind, Except.bind]
      rw [List.drop_left, hm]

/-! ### `mapE` -/

theorem mapE_roundTrip {c : Codec α} {w : α → Prop} {f : α → Except PErr β} {g : β → α} {w' : β → Prop}
    (hc : RoundTrip c w) (hw : ∀ y, w' y → w (g y) ∧ f (g y) = .ok y) : RoundTrip (mapE c f g) w' := by
  intro y hy
  obtain ⟨hwy, hf⟩ := hw y hy
  obtain ⟨b, hb, hbb⟩ := hc (g y) hwy
  refine ⟨b, hb, ?_⟩
  intro s
  simp [mapE, hbb s, bind, Except.bind, hf, pure, Except.pure]

theorem mapE_parse_ok_inv {c : Codec α} {f : α → Except PErr β} {g : β → α} {bs : Bytes} {y : β} {n : Nat}
    (h : (mapE c f g).parse bs = .ok (y, n)) : ∃ x, c.parse bs = .ok (x, n) ∧ f x = .ok y := by
  simp only [mapE] at h
  cases hc : c.parse bs with
  | error e => simp [hc, bind, Except.bind] at h
  | ok r =>
    obtain ⟨x, m⟩ := r
    simp only [hc, bind, Except.bind] at h
    cases hf : f x with
    | error e => simp [hf] at h
    | ok y' =>
      simp [hf, pure, Except.pure] at h
      obtain ⟨h1, h2⟩ := h
      subst h1; subst h2
      exact ⟨x, rfl, hf⟩

theorem mapE_lenBound {c : Codec α} {f : α → Except PErr β} {g : β → α} (hc : LenBound c) :
    LenBound (mapE c f g) := by
  intro bs y n h
  obtain ⟨x, h1, _⟩ := mapE_parse_ok_inv h
  exact hc _ _ _ h1

theorem mapE_positive {c : Codec α} {f : α → Except PErr β} {g : β → α} (hc : Positive c) :
    Positive (mapE c f g) := by
  intro bs y n h
  obtain ⟨x, h1, _⟩ := mapE_parse_ok_inv h
  exact hc _ _ _ h1

theorem mapE_selfDelim {c : Codec α} {f : α → Except PErr β} {g : β → α} (hc : SelfDelim c) :
    SelfDelim (mapE c f g) := by
  intro bs y n h s
  obtain ⟨x, h1, hf⟩ := mapE_parse_ok_inv h
  simp [mapE, hc _ _ _ h1 s, bind, Except.bind, hf, pure, Except.pure]

theorem mapE_noCrash {c : Codec α} {f : α → Except PErr β} {g : β → α} (hc : NoCrash c)
    (hf : ∀ x k, f x ≠ .error (.crash k)) : NoCrash (mapE c f g) := by
  intro bs k
  simp only [mapE]
  cases h1 : c.parse bs with
  | error e =>
    simp only [bind, Except.bind]
    intro h; cases h
    exact hc bs k h1
  | ok r =>
    obtain ⟨x, n⟩ := r
    simp only [bind, Except.bind]
    cases h2 : f x with
    | error e =>
      intro h; cases h
      exact hf x k h2
    | ok y => simp [pure, Except.pure]

theorem mapE_parseWf {c : Codec α} {f : α → Except PErr β} {g : β → α} {w' : β → Prop}
    (hf : ∀ x y, f x = .ok y → w' y) : ParseWf (mapE c f g) w' := by
  intro bs y n h
  obtain ⟨x, _, hfx⟩ := mapE_parse_ok_inv h
  exact hf x y hfx

theorem mapE_prefixReject {c : Codec α} {w : α → Prop} {f : α → Except PErr β} {g : β → α} {w' : β → Prop}
    (hc : PrefixReject c w) (hw : ∀ y, w' y → w (g y)) : PrefixReject (mapE c f g) w' := by
  intro y b hy hcomp j hj
  obtain ⟨m, hm, h1, h2⟩ := hc (g y) b (hw y hy) hcomp j hj
  exact ⟨m, by simp [mapE, hm, bind, Except.bind], h1, h2⟩

/-! ### `minSize` -/

theorem minSize_roundTrip {c : Codec α} {w : α → Prop} {n : Nat} (hc : RoundTrip c w)
    (hmin : ∀ v b, w v → c.compose v = .ok b → n ≤ b.length) : RoundTrip (minSize n c) w := by
  intro v hv
  obtain ⟨b, hb, hbb⟩ := hc v hv
  refine ⟨b, hb, ?_⟩
  intro s
  have := hmin v b hv hb
  have hlen : ¬ ((b ++ s).length < n) := by simp only [List.length_append]; omega
  simp only [minSize, hlen, if_false, hbb s]

theorem minSize_parse_ok_inv {c : Codec α} {n : Nat} {bs : Bytes} {v : α} {t : Nat}
    (h : (minSize n c).parse bs = .ok (v, t)) : c.parse bs = .ok (v, t) ∧ n ≤ bs.length := by
  simp only [minSize] at h
  split at h
  · simp at h
  · exact ⟨h, by omega⟩

theorem minSize_lenBound {c : Codec α} {n : Nat} (hc : LenBound c) : LenBound (minSize n c) :=
  fun bs v t h => hc _ _ _ (minSize_parse_ok_inv h).1

theorem minSize_positive {c : Codec α} {n : Nat} (hc : Positive c) : Positive (minSize n c) :=
  fun bs v t h => hc _ _ _ (minSize_parse_ok_inv h).1

theorem minSize_parseWf {c : Codec α} {w : α → Prop} {n : Nat} (hc : ParseWf c w) : ParseWf (minSize n c) w :=
  fun bs v t h => hc _ _ _ (minSize_parse_ok_inv h).1

theorem minSize_noCrash {c : Codec α} {n : Nat} (hc : NoCrash c) : NoCrash (minSize n c) := by
  intro bs k
  simp only [minSize]
  split
  · simp
  · exact hc bs k

/-- needs: a successful parse consumed at least `n` bytes (the header is part of what is consumed) -/
theorem minSize_selfDelim {c : Codec α} {n : Nat} (hc : SelfDelim c)
    (hcons : ∀ bs v t, c.parse bs = .ok (v, t) → n ≤ t) (hl : LenBound c) : SelfDelim (minSize n c) := by
  intro bs v t h s
  obtain ⟨h1, h2⟩ := minSize_parse_ok_inv h
  have := hcons _ _ _ h1
  have := hl _ _ _ h1
  have hlen : ¬ ((bs.take t ++ s).length < n) := by
    simp only [List.length_append, List.length_take]; omega
  simp only [minSize, hlen, if_false, hc _ _ _ h1 s]

theorem minSize_prefixReject {c : Codec α} {w : α → Prop} {n : Nat} (hc : PrefixReject c w)
    (hmin : ∀ v b, w v → c.compose v = .ok b → n ≤ b.length) : PrefixReject (minSize n c) w := by
  intro v b hv hcomp j hj
  have hn := hmin v b hv hcomp
  simp only [minSize]
  by_cases hjn : j < n
  · refine ⟨n - j, ?_, by omega, by omega⟩
    have hl : (b.take j).length = j := by simp; omega
    simp [hl, hjn]
  · obtain ⟨m, hm, h1, h2⟩ := hc v b hv hcomp j hj
    have hl : (b.take j).length = j := by simp; omega
    refine ⟨m, ?_, h1, h2⟩
    simp [hl, hjn, hm]

/-! ### `guardE` -/

theorem guardE_parse_ok_inv {c : Codec α} {ok : α → Bool} {err : PErr} {bs : Bytes} {v : α} {n : Nat}
    (h : (guardE c ok err).parse bs = .ok (v, n)) : c.parse bs = .ok (v, n) ∧ ok v = true := by
  simp only [guardE] at h
  cases hc : c.parse bs with
  | error e => simp [hc, bind, Except.bind] at h
  | ok r =>
    obtain ⟨x, m⟩ := r
    simp only [hc, bind, Except.bind] at h
    split at h
    · next hok =>
      simp [pure, Except.pure] at h
      obtain ⟨h1, h2⟩ := h
      subst h1; subst h2
      exact ⟨rfl, hok⟩
    · simp at h

theorem guardE_roundTrip {c : Codec α} {w : α → Prop} {ok : α → Bool} {err : PErr}
    (hc : RoundTrip c w) : RoundTrip (guardE c ok err) (fun v => w v ∧ ok v = true) := by
  intro v ⟨hv, hok⟩
  obtain ⟨b, hb, hbb⟩ := hc v hv
  exact ⟨b, hb, fun s => by simp [guardE, hbb s, bind, Except.bind, hok, pure, Except.pure]⟩

theorem guardE_lenBound {c : Codec α} {ok : α → Bool} {err : PErr} (hc : LenBound c) :
    LenBound (guardE c ok err) := fun bs v n h => hc _ _ _ (guardE_parse_ok_inv h).1

theorem guardE_positive {c : Codec α} {ok : α → Bool} {err : PErr} (hc : Positive c) :
    Positive (guardE c ok err) := fun bs v n h => hc _ _ _ (guardE_parse_ok_inv h).1

theorem guardE_selfDelim {c : Codec α} {ok : α → Bool} {err : PErr} (hc : SelfDelim c) :
    SelfDelim (guardE c ok err) := by
  intro bs v n h s
  obtain ⟨h1, h2⟩ := guardE_parse_ok_inv h
  simp [guardE, hc _ _ _ h1 s, bind, Except.bind, h2, pure, Except.pure]

theorem guardE_noCrash {c : Codec α} {ok : α → Bool} {err : PErr} (hc : NoCrash c)
    (herr : err.isCrash = false) : NoCrash (guardE c ok err) := by
  intro bs k
  simp only [guardE]
  cases h1 : c.parse bs with
  | error e =>
    simp only [bind, Except.bind]
    intro h; cases h
    exact hc bs k h1
  | ok r =>
    obtain ⟨x, n⟩ := r
    simp only [bind, Except.bind]
    split
    · simp [pure, Except.pure]
    · intro h
      cases h
      simp [PErr.isCrash] at herr

theorem guardE_prefixReject {c : Codec α} {w : α → Prop} {ok : α → Bool} {err : PErr}
    (hc : PrefixReject c w) : PrefixReject (guardE c ok err) (fun v => w v ∧ ok v = true) := by
  intro v b ⟨hv, _⟩ hcomp j hj
  obtain ⟨m, hm, h1, h2⟩ := hc v b hv hcomp j hj
  exact ⟨m, by simp [guardE, hm, bind, Except.bind], h1, h2⟩

end Cp.Codec
