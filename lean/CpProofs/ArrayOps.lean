import CpModel.ArrayOps
import CpProofs.Num
/-
  Helper lemmas for C12: the size bookkeeping of every list primitive used by the vector model,
  and the single-step specification `step_spec` from which the property theorems follow.
-/
namespace Cp.ArrayOps

/-! ### `sizes` -/

@[simp] theorem sizes_nil : sizes [] = 0 := rfl
@[simp] theorem sizes_cons (x : Item) (l : List Item) : sizes (x :: l) = x.size + sizes l := rfl
@[simp] theorem sizes_append (a b : List Item) : sizes (a ++ b) = sizes a + sizes b := by
  simp [sizes]
@[simp] theorem sizes_reverse (a : List Item) : sizes a.reverse = sizes a := by
  simp [sizes]

theorem sizes_take_drop (k : Nat) (l : List Item) : sizes (l.take k) + sizes (l.drop k) = sizes l := by
  rw [← sizes_append, List.take_append_drop]

theorem sizes_eraseIdx {l : List Item} {k : Nat} {x : Item} (h : l[k]? = some x) :
    sizes (l.eraseIdx k) + x.size = sizes l := by
  induction l generalizing k with
  | nil => simp at h
  | cons y ys ih =>
    cases k with
    | zero => simp at h; subst h; simp; omega
    | succ k =>
      simp at h
      have := ih h
      simp [List.eraseIdx_cons_succ]; omega

theorem sizes_set {l : List Item} {k : Nat} {old : Item} (x : Item) (h : l[k]? = some old) :
    sizes (l.set k x) + old.size = sizes l + x.size := by
  induction l generalizing k with
  | nil => simp at h
  | cons y ys ih =>
    cases k with
    | zero => simp at h; subst h; simp; omega
    | succ k =>
      simp at h
      have := ih h
      simp; omega

theorem sizes_pyInsert (l : List Item) (i : Int) (x : Item) :
    sizes (pyInsert l i x) = sizes l + x.size := by
  have := sizes_take_drop (clampIns l.length i) l
  simp [pyInsert]; omega

theorem pyInsert_length (l : List Item) (x : Item) : pyInsert l l.length x = l ++ [x] := by
  have : clampIns l.length (l.length : Int) = l.length := by
    unfold clampIns
    have : ¬ ((l.length : Int) < 0) := by omega
    simp [this]
  simp [pyInsert, this]

/-! ### positional primitives -/

theorem sizes_pickPos_split (P : Nat → Bool) (p : Nat) (l : List Item) :
    sizes (pickPos P p l) + sizes (pickPos (fun q => !P q) p l) = sizes l := by
  induction l generalizing p with
  | nil => simp [pickPos]
  | cons x xs ih =>
    have := ih (p + 1)
    cases hp : P p <;> simp [pickPos, hp] <;> omega

theorem sizes_setPos (P : Nat → Bool) (p : Nat) (l vals : List Item)
    (h : vals.length = (pickPos P p l).length) :
    sizes (setPos P p l vals) + sizes (pickPos P p l) = sizes l + sizes vals := by
  induction l generalizing p vals with
  | nil =>
    simp [pickPos] at h
    simp [setPos, pickPos, h]
  | cons x xs ih =>
    cases hp : P p with
    | false =>
      simp [pickPos, hp] at h
      have := ih (p + 1) vals h
      simp [setPos, pickPos, hp]; omega
    | true =>
      simp [pickPos, hp] at h
      cases vals with
      | nil => simp at h
      | cons v vs =>
        simp at h
        have := ih (p + 1) vs h
        simp [setPos, pickPos, hp]; omega

/-- a splice (`l[a:b] = vals`, step 1) replaces exactly the items the slice selects -/
theorem sizes_splice_aux (start stop : Int) (h0 : 0 ≤ start) (k : Nat) (l : List Item) :
    sizes (l.take (start.toNat - k)) + sizes (pickPos (inRange start stop 1) k l)
      + sizes (l.drop ((Max.max start stop).toNat - k)) = sizes l := by
  induction l generalizing k with
  | nil => simp [pickPos]
  | cons x xs ih =>
    have ih' := ih (k + 1)
    have e1 : start.toNat - (k + 1) = start.toNat - k - 1 := by omega
    have e2 : (Max.max start stop).toNat - (k + 1) = (Max.max start stop).toNat - k - 1 := by omega
    rw [e1, e2] at ih'
    by_cases hk : inRange start stop 1 k = true
    · have hk' := hk
      simp [inRange] at hk'
      have a1 : start.toNat - k = 0 := by omega
      have a2 : (Max.max start stop).toNat - k = ((Max.max start stop).toNat - k - 1) + 1 := by omega
      rw [a1] at ih' ⊢
      rw [a2]
      simp [pickPos, hk] at ih' ⊢
      omega
    · have hk' := hk
      simp [inRange] at hk'
      simp only [Bool.not_eq_true] at hk
      by_cases hlt : (k : Int) < start
      · have a1 : start.toNat - k = (start.toNat - k - 1) + 1 := by omega
        have a2 : (Max.max start stop).toNat - k = ((Max.max start stop).toNat - k - 1) + 1 := by omega
        rw [a1, a2]
        simp [pickPos, hk] at ih' ⊢
        omega
      · have a1 : start.toNat - k = 0 := by omega
        have a2 : (Max.max start stop).toNat - k = 0 := by omega
        have a3 : (Max.max start stop).toNat - k - 1 = 0 := by omega
        rw [a1] at ih' ⊢
        rw [a3] at ih'
        rw [a2]
        simp [pickPos, hk] at ih' ⊢
        omega

theorem sizes_splice (l vals : List Item) (start stop : Int) (h0 : 0 ≤ start) :
    sizes (l.take start.toNat ++ vals ++ l.drop (Max.max start stop).toNat)
      + sizes (sliceHit l start stop 1) = sizes l + sizes vals := by
  have := sizes_splice_aux start stop h0 0 l
  simp [sliceHit] at this ⊢
  omega

/-! ### indices -/

theorem normIdx_lt {n : Nat} {i : Int} {k : Nat} (h : normIdx n i = some k) : k < n := by
  unfold normIdx at h
  split at h
  · split at h
    · simp at h; omega
    · simp at h
  · split at h
    · simp at h; omega
    · simp at h

theorem normIdx_ofNat {n k : Nat} (h : k < n) : normIdx n (k : Int) = some k := by
  unfold normIdx
  have h1 : (0 : Int) ≤ (k : Int) := by omega
  have h2 : (k : Int) < (n : Int) := by omega
  simp [h1, h2]

theorem getItem_none {l : List Item} {i : Int} (h : normIdx l.length i = none) : getItem l i = none := by
  simp [getItem, h]

theorem getItem_some {l : List Item} {i : Int} {k : Nat} (h : normIdx l.length i = some k) :
    ∃ x, l[k]? = some x ∧ getItem l i = some (k, x) := by
  have hk := normIdx_lt h
  refine ⟨l[k], by simp [hk], ?_⟩
  simp [getItem, h, hk]

/-- a positive step never yields a negative start -/
theorem sliceAdjust_start_nonneg {n : Nat} {a b st : Option Int} {start stop step : Int}
    (h : sliceAdjust n a b st = some (start, stop, step)) (hs : 0 < step) : 0 ≤ start := by
  unfold sliceAdjust at h
  simp only at h
  split at h
  · simp at h
  · simp only [Option.some.injEq, Prod.mk.injEq] at h
    obtain ⟨h1, _, h3⟩ := h
    rw [h3] at h1
    have hn : ¬ step < 0 := by omega
    simp only [hn, if_false] at h1
    cases a with
    | none => simp at h1; omega
    | some v =>
      simp only at h1
      split at h1 <;> omega

/-! ### the size check -/

/-- `_update_items_size` on a state whose counter is exact: the outcome depends only on the size
of the list the edit would produce. -/
theorem commit_spec (s : VState) (del ins l' : List Item) (out : Out)
    (hsz : s.itemsSize = sizes s.items)
    (heq : sizes l' + sizes del = sizes s.items + sizes ins) :
    commit s del ins l' out =
      if s.min ≤ sizes l' ∧ sizes l' ≤ s.max then
        ({ s with items := l', itemsSize := sizes l' }, out)
      else (s, if sizes l' < s.min then .notEnough s.min else .tooMuch s.max) := by
  have hn : (s.itemsSize : Int) + (0 - (sizes del : Int) + (sizes ins : Int)) = (sizes l' : Int) := by omega
  unfold commit updSize
  simp only [hn]
  by_cases h1 : sizes l' < s.min
  · have : ((sizes l' : Int) < (s.min : Int)) := by omega
    have h2 : ¬ (s.min ≤ sizes l' ∧ sizes l' ≤ s.max) := by omega
    simp [this, h1, h2]
  · have h1' : ¬ ((sizes l' : Int) < (s.min : Int)) := by omega
    by_cases h3 : sizes l' > s.max
    · have : ((sizes l' : Int) > (s.max : Int)) := by omega
      have h2 : ¬ (s.min ≤ sizes l' ∧ sizes l' ≤ s.max) := by omega
      simp [h1', this, h1, h2]
    · have : ¬ ((sizes l' : Int) > (s.max : Int)) := by omega
      have h2 : (s.min ≤ sizes l' ∧ sizes l' ≤ s.max) := by omega
      simp [h1', this, h2]

theorem updSize_error {s : VState} {del ins : List Item} {e : Out} (h : updSize s del ins = .error e) :
    e = .notEnough s.min ∨ e = .tooMuch s.max := by
  unfold updSize at h
  simp only at h
  split at h
  · simp only [Except.error.injEq] at h; exact Or.inl h.symm
  · split at h
    · simp only [Except.error.injEq] at h; exact Or.inr h.symm
    · cases h

/-- the constructor's check: `_update_items_size()` with nothing deleted and nothing inserted -/
theorem updSize_nil (s : VState) :
    updSize s [] [] =
      if s.itemsSize < s.min then .error (.notEnough s.min)
      else if s.max < s.itemsSize then .error (.tooMuch s.max)
      else .ok s.itemsSize := by
  unfold updSize
  simp only [sizes_nil]
  by_cases h1 : s.itemsSize < s.min
  · simp [h1]
  · have n1 : ¬ ((s.itemsSize : Int) + (0 - ((0 : Nat) : Int) + ((0 : Nat) : Int)) < (s.min : Int)) := by omega
    by_cases h2 : s.max < s.itemsSize
    · have : ((s.itemsSize : Int) + (0 - ((0 : Nat) : Int) + ((0 : Nat) : Int)) > (s.max : Int)) := by omega
      simp only [n1, this, h1, h2, if_true, if_false]
    · have n2 : ¬ ((s.itemsSize : Int) + (0 - ((0 : Nat) : Int) + ((0 : Nat) : Int)) > (s.max : Int)) := by omega
      simp only [n1, n2, h1, h2, if_false]
      congr 1

/-! ### the single-step specification -/

/-- What one operation does, in terms of what a plain list does: an operation on which the list
raises leaves the vector alone and raises the same class of error; otherwise the edit is applied
exactly when the edited list is within the bounds, and refused without any change when not. -/
def StepSpec (s : VState) (op : Op) : Prop :=
  match listSpec s.items op with
  | none => (step s op).1 = s ∧ ((step s op).2 = .indexError ∨ (step s op).2 = .valueError)
  | some l' =>
    if s.min ≤ sizes l' ∧ sizes l' ≤ s.max then
      (step s op).1 = { s with items := l', itemsSize := sizes l' } ∧ (step s op).2.accepted = true
    else
      (step s op).1 = s ∧
        (step s op).2 = (if sizes l' < s.min then .notEnough s.min else .tooMuch s.max)

theorem spec_of_commit {s : VState} {op : Op} {del ins l' : List Item} {out : Out}
    (hsz : s.itemsSize = sizes s.items)
    (hl : listSpec s.items op = some l')
    (hstep : step s op = commit s del ins l' out)
    (heq : sizes l' + sizes del = sizes s.items + sizes ins)
    (hacc : out.accepted = true) : StepSpec s op := by
  unfold StepSpec
  rw [hl, hstep, commit_spec s del ins l' out hsz heq]
  simp only
  split <;> simp [hacc]

theorem spec_of_error {s : VState} {op : Op} {out : Out}
    (hl : listSpec s.items op = none)
    (hstep : step s op = (s, out)) (hout : out = .indexError ∨ out = .valueError) : StepSpec s op := by
  unfold StepSpec
  rw [hl, hstep]
  exact ⟨rfl, hout⟩

theorem delItem_spec {s : VState} {op : Op} {i : Int} {out : Item → Out}
    (hsz : s.itemsSize = sizes s.items)
    (hl : listSpec s.items op = (normIdx s.items.length i).map s.items.eraseIdx)
    (hstep : step s op = delItem s i out) (hacc : ∀ x, (out x).accepted = true) : StepSpec s op := by
  cases hn : normIdx s.items.length i with
  | none =>
    refine spec_of_error (out := .indexError) (by rw [hl, hn]; rfl) ?_ (Or.inl rfl)
    rw [hstep]; simp [delItem, getItem_none hn]
  | some k =>
    obtain ⟨x, hx, hg⟩ := getItem_some hn
    refine spec_of_commit (del := [x]) (ins := []) (out := out x) hsz (by rw [hl, hn]; rfl) ?_ ?_ (hacc x)
    · rw [hstep]; simp [delItem, hg]
    · have := sizes_eraseIdx hx
      simp; omega

theorem step_spec (s : VState) (op : Op)
    (hsz : s.itemsSize = sizes s.items) (hmin : s.min ≤ s.itemsSize) (hmax : s.itemsSize ≤ s.max) :
    StepSpec s op := by
  cases op with
  | append x =>
    refine spec_of_commit (del := []) (ins := [x]) (out := .ok) hsz rfl ?_ ?_ rfl
    · simp [step, pyInsert_length]
    · simp
  | insert i x =>
    refine spec_of_commit (del := []) (ins := [x]) (out := .ok) hsz rfl rfl ?_ rfl
    simp [sizes_pyInsert]
  | extend xs =>
    exact spec_of_commit (del := []) (ins := xs) (out := .ok) hsz rfl rfl (by simp) rfl
  | iadd xs =>
    exact spec_of_commit (del := []) (ins := xs) (out := .ok) hsz rfl rfl (by simp) rfl
  | pop i =>
    exact delItem_spec (i := i.getD (-1)) (out := .popped) hsz rfl rfl (fun _ => rfl)
  | delItem i =>
    exact delItem_spec (i := i) (out := fun _ => .ok) hsz rfl rfl (fun _ => rfl)
  | remove x =>
    cases hi : pyIndex s.items x with
    | none =>
      have hx : x ∉ s.items := by
        simpa [pyIndex] using hi
      refine spec_of_error (out := .valueError) (by simp [listSpec, hx]) ?_ (Or.inr rfl)
      simp [step, hi]
    | some k =>
      have hk := (List.idxOf?_eq_some_iff.mp hi)
      obtain ⟨hk1, hk2, _⟩ := hk
      have hx : x ∈ s.items := by rw [← hk2]; exact List.getElem_mem hk1
      have he : s.items.erase x = s.items.eraseIdx k := by
        rw [List.erase_eq_eraseIdx]
        simp only [pyIndex] at hi
        rw [hi]
      refine delItem_spec (i := (k : Int)) (out := fun _ => .ok) hsz ?_ ?_ (fun _ => rfl)
      · simp [listSpec, hx, he, normIdx_ofNat hk1]
      · simp [step, hi]
  | setItem i x =>
    cases hn : normIdx s.items.length i with
    | none =>
      refine spec_of_error (out := .indexError) (by simp [listSpec, hn]) ?_ (Or.inl rfl)
      simp [step, getItem_none hn]
    | some k =>
      obtain ⟨old, hold, hg⟩ := getItem_some hn
      refine spec_of_commit (l' := s.items.set k x) (del := [old]) (ins := [x]) (out := .ok) hsz
        (by simp [listSpec, hn]) ?_ ?_ rfl
      · simp [step, hg]
      · have := sizes_set x hold
        simp; omega
  | delSlice a b st =>
    cases ha : sliceAdjust s.items.length a b st with
    | none =>
      refine spec_of_error (out := .valueError) (by simp [listSpec, pyDelSlice, ha]) ?_ (Or.inr rfl)
      simp [step, pyGetSlice, pyDelSlice, ha]
    | some t =>
      obtain ⟨start, stop, stp⟩ := t
      refine spec_of_commit (del := if stp > 0 then sliceHit s.items start stop stp else (sliceHit s.items start stop stp).reverse)
        (ins := []) (out := .ok) hsz (by simp [listSpec, pyDelSlice, ha]; rfl) ?_ ?_ rfl
      · simp [step, pyGetSlice, pyDelSlice, ha]
      · have := sizes_pickPos_split (inRange start stop stp) 0 s.items
        have e : sizes (if stp > 0 then sliceHit s.items start stop stp else (sliceHit s.items start stop stp).reverse)
            = sizes (sliceHit s.items start stop stp) := by split <;> simp
        rw [e]
        simp [sliceHit]; omega
  | setSlice a b st xs =>
    cases ha : sliceAdjust s.items.length a b st with
    | none =>
      refine spec_of_error (out := .valueError) (by simp [listSpec, pySetSlice, ha]) ?_ (Or.inr rfl)
      simp [step, pyGetSlice, ha]
    | some t =>
      obtain ⟨start, stop, stp⟩ := t
      have e : sizes (if stp > 0 then sliceHit s.items start stop stp else (sliceHit s.items start stop stp).reverse)
            = sizes (sliceHit s.items start stop stp) := by split <;> simp
      by_cases h1 : stp = 1
      · subst h1
        have h0 := sliceAdjust_start_nonneg ha (by omega)
        refine spec_of_commit
          (del := if (1 : Int) > 0 then sliceHit s.items start stop 1 else (sliceHit s.items start stop 1).reverse)
          (ins := xs) (out := .ok) hsz (by simp [listSpec, pySetSlice, ha]; rfl) ?_ ?_ rfl
        · simp [step, pyGetSlice, pySetSlice, ha]
        · rw [e]
          have := sizes_splice s.items xs start stop h0
          simp only [List.append_assoc] at this ⊢
          omega
      · by_cases h2 : xs.length = (sliceHit s.items start stop stp).length
        · refine spec_of_commit
            (del := if stp > 0 then sliceHit s.items start stop stp else (sliceHit s.items start stop stp).reverse)
            (ins := xs) (out := .ok) hsz (by simp [listSpec, pySetSlice, ha, h1, h2]; rfl) ?_ ?_ rfl
          · simp [step, pyGetSlice, pySetSlice, ha, h1, h2]
          · rw [e]
            have hlen : (if stp > 0 then xs else xs.reverse).length = (pickPos (inRange start stop stp) 0 s.items).length := by
              split <;> simpa [sliceHit] using h2
            have := sizes_setPos (inRange start stop stp) 0 s.items _ hlen
            have e2 : sizes (if stp > 0 then xs else xs.reverse) = sizes xs := by split <;> simp
            rw [e2] at this
            simp [sliceHit] at this ⊢
            omega
        · refine spec_of_error (out := .valueError) (by simp [listSpec, pySetSlice, ha, h1, h2]) ?_ (Or.inr rfl)
          simp [step, pyGetSlice, pySetSlice, ha, h1, h2]
  | reverse =>
    unfold StepSpec
    have hb : s.min ≤ sizes s.items.reverse ∧ sizes s.items.reverse ≤ s.max := by
      rw [sizes_reverse, ← hsz]; exact ⟨hmin, hmax⟩
    simp only [listSpec, hb, and_self, if_true]
    refine ⟨?_, rfl⟩
    simp [step, hsz]
  | clear =>
    exact spec_of_commit (del := s.items) (ins := []) (out := .ok) hsz rfl rfl (by simp) rfl

/-! ### histories -/

theorem run_cons (s : VState) (op : Op) (ops : List Op) :
    run s (op :: ops) = run (step s op).1 ops := rfl

theorem stepSpec_inv {s : VState} {op : Op}
    (hsz : s.itemsSize = sizes s.items) (hmin : s.min ≤ s.itemsSize) (hmax : s.itemsSize ≤ s.max)
    (h : StepSpec s op) :
    (step s op).1.itemsSize = sizes (step s op).1.items ∧ (step s op).1.min ≤ (step s op).1.itemsSize ∧
      (step s op).1.itemsSize ≤ (step s op).1.max ∧ (step s op).1.min = s.min ∧ (step s op).1.max = s.max := by
  unfold StepSpec at h
  split at h
  · rw [h.1]; exact ⟨hsz, hmin, hmax, rfl, rfl⟩
  · split at h
    · next hb => rw [h.1]; exact ⟨rfl, hb.1, hb.2, rfl, rfl⟩
    · rw [h.1]; exact ⟨hsz, hmin, hmax, rfl, rfl⟩

theorem plainFold_accepted (ops : List Op) : ∀ (s : VState),
    s.itemsSize = sizes s.items → s.min ≤ s.itemsSize → s.itemsSize ≤ s.max →
    plainFold s.items (acceptedOps s ops) = some (run s ops).items := by
  induction ops with
  | nil => intro s _ _ _; rfl
  | cons op ops ih =>
    intro s hsz hmin hmax
    have hs := step_spec s op hsz hmin hmax
    obtain ⟨i1, i2, i3, _, _⟩ := stepSpec_inv hsz hmin hmax hs
    have ih' := ih (step s op).1 i1 i2 i3
    rw [run_cons]
    unfold StepSpec at hs
    split at hs
    · -- the plain list raises: not accepted, nothing changed
      have hna : (step s op).2.accepted = false := by
        rcases hs.2 with h | h <;> rw [h] <;> rfl
      simp only [acceptedOps, hna]
      rw [hs.1] at ih' ⊢
      exact ih'
    · next l' hl =>
      split at hs
      · have hacc := hs.2
        simp only [acceptedOps, hacc, if_true, plainFold, hl]
        rw [hs.1] at ih'
        rw [hs.1]
        exact ih'
      · have hna : (step s op).2.accepted = false := by
          rw [hs.2]; split <;> rfl
        simp only [acceptedOps, hna]
        rw [hs.1] at ih' ⊢
        exact ih'

/-! ### the composed body -/

theorem joinSep_nil_eq_flatten (xs : List Bytes) : joinSep [] xs = xs.flatten := by
  induction xs with
  | nil => rfl
  | cons x r ih =>
    cases r with
    | nil => simp [joinSep]
    | cons y r => simp [joinSep, ih]

theorem body_plain_length (enc : Item → Bytes) (henc : ∀ x, (enc x).length = x.size) (l : List Item) :
    (body Framing.plain enc l).length = sizes l := by
  unfold body
  rw [show Framing.plain.sep = [] from rfl, joinSep_nil_eq_flatten]
  induction l with
  | nil => simp
  | cons x xs ih =>
    simp only [List.map_cons, List.flatten_cons, List.length_append, ih, sizes_cons]
    simp [Framing.plain, henc, beBytes, leBytes]

theorem joinSep_length (sep : Bytes) (xs : List Bytes) :
    (joinSep sep xs).length = (xs.map List.length).sum + sep.length * (xs.length - 1) := by
  induction xs with
  | nil => simp [joinSep]
  | cons x r ih =>
    cases r with
    | nil => simp [joinSep]
    | cons y r =>
      simp only [joinSep, List.length_append, ih]
      simp [Nat.mul_add]
      omega

/-- the body of any kind: the counted sizes plus the framing -/
theorem body_length (f : Framing) (enc : Item → Bytes) (henc : ∀ x, (enc x).length = x.size) (l : List Item) :
    (body f enc l).length = sizes l + f.itemPrefix * l.length + f.sep.length * (l.length - 1) := by
  unfold body
  rw [joinSep_length]
  have : ((l.map fun x => beBytes f.itemPrefix (enc x).length ++ enc x).map List.length).sum
      = sizes l + f.itemPrefix * l.length := by
    induction l with
    | nil => simp
    | cons x xs ih =>
      simp only [henc] at ih ⊢
      simp only [List.map_cons, List.sum_cons, ih, sizes_cons, List.length_cons, List.length_append,
        beBytes_length, henc, Nat.mul_add]
      omega
  rw [this]
  simp

end Cp.ArrayOps
