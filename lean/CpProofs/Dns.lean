import CpModel.Dns.Msg
import CpSpec.Dns
import CpProofs.Codec2
import CpProofs.EnumCodec
import CpProofs.Mpint
import CpProofs.Flags
/-
  Helper lemmas for C08: the DNS record-data model against the RFC-level definitions of
  `CpSpec/Dns.lean`.
-/
namespace Cp.Dns
open Cp Cp.Codec

/-! ### key tag -/

theorem decNat_big_two (a b : UInt8) : decNat .big [a, b] = a.toNat * 256 + b.toNat := by
  simp [decNat, ByteOrder.isBig, beVal, leVal]
  omega

theorem decNat_big_one (a : UInt8) : decNat .big [a] = a.toNat := by
  simp [decNat, ByteOrder.isBig, beVal, leVal]

/-- On an even number of octets the two-octets-at-a-time loop of `key_tag` is the accumulation of
RFC 4034 Appendix B (started at an even index). -/
theorem keyTagSum_even (b : Bytes) (acc : Nat) :
    ∀ i, i % 2 = 0 → b.length % 2 = 0 → keyTagSum b acc = Spec.Dns.keyTagAcc i b acc := by
  fun_induction keyTagSum b acc with
  | case1 a b rest acc ih =>
    intro i hi hl
    have h0 : i &&& 1 = 0 := by rw [Nat.and_one_is_mod]; exact hi
    have h1 : (i + 1) &&& 1 = 1 := by rw [Nat.and_one_is_mod]; omega
    simp only [Spec.Dns.keyTagAcc, h0, h1, if_true]
    have hz : (0 : Nat) = 1 ↔ False := by decide
    simp only [hz, if_false]
    have hl' : rest.length % 2 = 0 := by
      have : (a :: b :: rest).length = rest.length + 2 := rfl
      omega
    rw [ih (i + 1 + 1) (by omega) hl', decNat_big_two, Nat.shiftLeft_eq]
    congr 1
    omega
  | case2 a acc => intro i _ hl; simp at hl
  | case3 acc => intro i _ _; rfl

theorem keyTagSum_append (p q : Bytes) (acc : Nat) :
    p.length % 2 = 0 → keyTagSum (p ++ q) acc = keyTagSum q (keyTagSum p acc) := by
  fun_induction keyTagSum p acc with
  | case1 a b rest acc ih =>
    intro hl
    have hl' : rest.length % 2 = 0 := by
      have : (a :: b :: rest).length = rest.length + 2 := rfl
      omega
    simp only [List.cons_append, keyTagSum]
    exact ih hl'
  | case2 a acc => intro hl; simp at hl
  | case3 acc => intro _; rfl

theorem keyTagAcc_append (p q : Bytes) (i acc : Nat) :
    Spec.Dns.keyTagAcc i (p ++ q) acc = Spec.Dns.keyTagAcc (i + p.length) q (Spec.Dns.keyTagAcc i p acc) := by
  induction p generalizing i acc with
  | nil => rfl
  | cons a t ih =>
    simp only [List.cons_append, Spec.Dns.keyTagAcc, List.length_cons]
    rw [ih]
    congr 1
    omega

/-- On an odd number of octets the loop adds the LAST octet as it is, where RFC 4034 Appendix B adds
it shifted left by eight (it sits at an even index). -/
theorem keyTagSum_odd (b : Bytes) (x : UInt8) (acc : Nat) (hl : b.length % 2 = 0) :
    keyTagSum (b ++ [x]) acc = Spec.Dns.keyTagAcc 0 b acc + x.toNat ∧
    Spec.Dns.keyTagAcc 0 (b ++ [x]) acc = Spec.Dns.keyTagAcc 0 b acc + x.toNat <<< 8 := by
  constructor
  · rw [keyTagSum_append b [x] acc hl, keyTagSum_even b acc 0 rfl hl]
    simp [keyTagSum, decNat_big_one]
  · rw [keyTagAcc_append]
    have h0 : (0 + b.length) &&& 1 = 0 := by rw [Nat.and_one_is_mod]; omega
    have hz : (0 : Nat) = 1 ↔ False := by decide
    simp only [Spec.Dns.keyTagAcc, h0, hz, if_false]

/-! ### bridges between the model's digits and the specification's -/

theorem encNat_network_spec (k v : Nat) : encNat .network k v = Spec.toBytesBE k v := by
  rw [encNat_network, beBytes_eq_spec]

theorem toBytesBE_length (k v : Nat) : (Spec.toBytesBE k v).length = k := by
  simp [Spec.toBytesBE]

theorem toBytesBE_one (n : Nat) (h : n < 256) : Spec.toBytesBE 1 n = [UInt8.ofNat n] := by
  simp [Spec.toBytesBE, Nat.mod_eq_of_lt h]

theorem ofNat_toNat (n : Nat) (h : n < 256) : (UInt8.ofNat n).toNat = n := by
  simp [UInt8.toNat_ofNat', Nat.mod_eq_of_lt h]

/-! ### domain names -/

/-- A label inside the model's domain that parser and composer accept: 1..63 octets, ASCII, no ACE
prefix, no dot. -/
def LabelOk (l : Bytes) : Prop :=
  1 ≤ l.length ∧ l.length ≤ 63 ∧ labelModelled l = true ∧ ∀ x ∈ l, x.toNat ≠ 0x2e

/-- labels the library reproduces, in a name of at most 255 octets (RFC 1035 §2.3.4) -/
def NameOk (labels : List Bytes) : Prop :=
  (∀ l ∈ labels, LabelOk l) ∧ (Spec.Dns.encodeName labels).length ≤ 255

theorem hasDot_eq_false_iff (l : Bytes) : hasDot l = false ↔ ∀ x ∈ l, x.toNat ≠ 0x2e := by
  simp [hasDot, List.any_eq_false]

theorem labelRefused_eq_false_iff (l : Bytes) :
    labelRefused l = false ↔ (∀ x ∈ l, x.toNat ≠ 0x2e) ∧ l.length ≤ 63 := by
  simp only [labelRefused, Bool.or_eq_false_iff, hasDot_eq_false_iff, maxLabelSize]
  constructor
  · intro h; exact ⟨h.1, Nat.le_of_not_lt (of_decide_eq_false h.2)⟩
  · intro h; exact ⟨h.1, decide_eq_false (Nat.not_lt.mpr h.2)⟩

theorem labelRefused_of_ok {l : Bytes} (h : LabelOk l) : labelRefused l = false :=
  (labelRefused_eq_false_iff l).mpr ⟨h.2.2.2, h.2.1⟩

theorem labelOk_of_accepted {l : Bytes} (hne : l.isEmpty = false) (hm : labelModelled l = true)
    (hr : labelRefused l = false) : LabelOk l := by
  obtain ⟨h1, h2⟩ := (labelRefused_eq_false_iff l).mp hr
  refine ⟨?_, h2, hm, h1⟩
  cases l with
  | nil => simp at hne
  | cons x xs => simp

theorem composeLabel_ok {l : Bytes} (h : LabelOk l) : composeLabel l = .ok (Spec.Dns.encodeLabel l) := by
  have hr := labelRefused_of_ok h
  obtain ⟨h1, h2, h3, h4⟩ := h
  have hne : l.isEmpty = false := by cases l <;> simp_all
  unfold composeLabel
  simp only [hne, h3, hr, Bool.not_true, Bool.false_eq_true, if_false]
  rw [composeBytes_ok (by rfl) l (by omega), encNat_network_spec]
  rfl

theorem composeItems_labels {labels : List Bytes} (h : ∀ l ∈ labels, LabelOk l) :
    composeItems composeLabel labels = .ok (labels.flatMap Spec.Dns.encodeLabel) := by
  induction labels with
  | nil => rfl
  | cons l ls ih =>
    simp only [composeItems, composeLabel_ok (h l (by simp)), ih (fun x hx => h x (List.mem_cons_of_mem _ hx)),
      bind, Except.bind, pure, Except.pure, List.flatMap_cons]

theorem composeName_ok {labels : List Bytes} (h : NameOk labels) :
    composeName labels = .ok (Spec.Dns.encodeName labels) := by
  unfold composeName
  rw [composeItems_labels h.1]
  have hz : composeNum .network 1 0 = .ok [0] := rfl
  simp only [hz, bind, Except.bind]
  have hlen : ¬ (maxNameSize < (labels.flatMap Spec.Dns.encodeLabel ++ [0]).length) := by
    have := h.2
    simp only [Spec.Dns.encodeName, maxNameSize] at this ⊢
    omega
  rw [if_neg hlen]
  rfl

/-- what `composeName` accepts: nothing above the limits (the converse of `composeName_ok` inside the
model's domain) -/
theorem composeLabel_ok_inv {l b : Bytes} (h : composeLabel l = .ok b) :
    b = Spec.Dns.encodeLabel l ∧ l.length ≤ 63 := by
  unfold composeLabel at h
  split at h
  · next he =>
    have : l = [] := by cases l <;> simp_all
    subst this
    have : composeBytes .network 1 [] = .ok [0] := rfl
    rw [this] at h
    cases h
    exact ⟨by decide, by simp⟩
  · split at h
    · simp [unmodelled] at h
    · split at h
      · simp at h
      · next hr =>
        have h63 := ((labelRefused_eq_false_iff l).mp (by simpa using hr)).2
        rw [composeBytes_ok (by rfl) l (by omega), encNat_network_spec] at h
        cases h
        exact ⟨rfl, h63⟩

theorem composeItems_labels_inv : ∀ {labels : List Bytes} {b : Bytes}, composeItems composeLabel labels = .ok b →
    b = labels.flatMap Spec.Dns.encodeLabel ∧ ∀ l ∈ labels, l.length ≤ 63 := by
  intro labels
  induction labels with
  | nil => intro b h; cases h; exact ⟨rfl, by simp⟩
  | cons l ls ih =>
    intro b h
    simp only [composeItems, bind, Except.bind] at h
    cases h1 : composeLabel l with
    | error e => simp [h1] at h
    | ok a =>
      obtain ⟨ha, hl⟩ := composeLabel_ok_inv h1
      simp only [h1] at h
      cases h2 : composeItems composeLabel ls with
      | error e => simp [h2] at h
      | ok r =>
        obtain ⟨hr, hls⟩ := ih h2
        simp only [h2, pure, Except.pure, Except.ok.injEq] at h
        subst h; subst ha; subst hr
        refine ⟨by simp, ?_⟩
        intro x hx
        simp only [List.mem_cons] at hx
        rcases hx with rfl | hx
        · exact hl
        · exact hls x hx

theorem composeName_ok_inv {labels : List Bytes} {b : Bytes} (h : composeName labels = .ok b) :
    b = Spec.Dns.encodeName labels ∧ b.length ≤ 255 ∧ ∀ l ∈ labels, l.length ≤ 63 := by
  unfold composeName at h
  cases h1 : composeItems composeLabel labels with
  | error e => simp [h1, bind, Except.bind] at h
  | ok body =>
    obtain ⟨hb, hl⟩ := composeItems_labels_inv h1
    have hz : composeNum .network 1 0 = .ok [0] := rfl
    simp only [h1, hz, bind, Except.bind] at h
    split at h
    · simp at h
    · next hlen =>
      simp only [pure, Except.pure, Except.ok.injEq] at h
      subst h; subst hb
      simp only [maxNameSize] at hlen
      exact ⟨rfl, by omega, hl⟩

theorem parseLabel_encode {l : Bytes} (hm : labelModelled l = true) (hr : labelRefused l = false)
    (hl : l.length < 256) (s : Bytes) :
    parseLabel (Spec.Dns.encodeLabel l ++ s) = .ok (l, 1 + l.length) := by
  unfold parseLabel Spec.Dns.encodeLabel
  rw [← encNat_network_spec, parseBytes_append (by rfl) l s (by omega)]
  simp [bind, Except.bind, hm, hr, pure, Except.pure]

theorem parseLabels_encode (labels : List Bytes) (h : ∀ l ∈ labels, LabelOk l) (s : Bytes) :
    ∀ fuel, labels.length < fuel →
      parseLabels fuel (Spec.Dns.encodeName labels ++ s) = .ok (labels, (Spec.Dns.encodeName labels).length) := by
  induction labels with
  | nil =>
    intro fuel hf
    cases fuel with
    | zero => omega
    | succ f =>
      have := parseLabel_encode (l := []) (by rfl) (by rfl) (by simp) s
      simp only [Spec.Dns.encodeLabel, List.length_nil, List.append_nil] at this
      have h0 : Spec.toBytesBE 1 0 = [0] := by decide
      rw [h0] at this
      simp only [parseLabels, Spec.Dns.encodeName, List.flatMap_nil, List.nil_append, this, bind, Except.bind,
        List.isEmpty_nil, if_true, pure, Except.pure]
      rfl
  | cons l ls ih =>
    intro fuel hf
    cases fuel with
    | zero => omega
    | succ f =>
      have hr := labelRefused_of_ok (h l (by simp))
      obtain ⟨h1, h2, h3, h4⟩ := h l (by simp)
      have hne : l.isEmpty = false := by cases l <;> simp_all
      have hsplit : Spec.Dns.encodeName (l :: ls) ++ s = Spec.Dns.encodeLabel l ++ (Spec.Dns.encodeName ls ++ s) := by
        simp [Spec.Dns.encodeName, List.append_assoc]
      have hlen : (Spec.Dns.encodeLabel l).length = 1 + l.length := by
        simp [Spec.Dns.encodeLabel, toBytesBE_length]
      have hdrop : (Spec.Dns.encodeLabel l ++ (Spec.Dns.encodeName ls ++ s)).drop (1 + l.length)
          = Spec.Dns.encodeName ls ++ s := by
        rw [← hlen, List.drop_left]
      simp only [parseLabels]
      rw [hsplit, parseLabel_encode h3 hr (by omega)]
      simp only [bind, Except.bind, hne, Bool.false_eq_true, if_false]
      rw [hdrop, ih (fun x hx => h x (List.mem_cons_of_mem _ hx)) f (by simp only [List.length_cons] at hf; omega)]
      simp only [pure, Except.pure, Spec.Dns.encodeName, List.flatMap_cons, List.length_append, hlen]
      rw [Nat.add_assoc (1 + l.length)]

theorem parseName_encode {labels : List Bytes} (h : NameOk labels) (s : Bytes) :
    parseName (Spec.Dns.encodeName labels ++ s) = .ok (labels, (Spec.Dns.encodeName labels).length) := by
  unfold parseName
  have hfuel : labels.length < (Spec.Dns.encodeName labels ++ s).length + 1 := by
    have : labels.length + 1 ≤ (Spec.Dns.encodeName labels).length := by
      unfold Spec.Dns.encodeName
      rw [List.length_append]
      have : labels.length ≤ (labels.flatMap Spec.Dns.encodeLabel).length := by
        clear h
        induction labels with
        | nil => simp
        | cons l ls ih =>
          simp only [List.flatMap_cons, List.length_append, List.length_cons, Spec.Dns.encodeLabel, toBytesBE_length]
          omega
      simp only [List.length_cons, List.length_nil]
      omega
    simp only [List.length_append]
    omega
  rw [parseLabels_encode labels h.1 s _ hfuel]
  have hlen : ¬ (maxNameSize < (Spec.Dns.encodeName labels).length) := by
    have := h.2
    simp only [maxNameSize]
    omega
  simp only [bind, Except.bind, hlen, if_false, pure, Except.pure]

theorem name_roundTrip : RoundTrip nameCodec NameOk := by
  intro labels h
  exact ⟨_, composeName_ok h, fun s => parseName_encode h s⟩

/-! ### what the name parser accepts -/

/-- `parse_bytes` re-encodes: the octets consumed are the length prefix of the value, then the value -/
theorem parseBytes_ok_take {k : Nat} {rest v : Bytes} {n : Nat} (h : parseBytes .network k rest = .ok (v, n)) :
    n = k + v.length ∧ n ≤ rest.length ∧ rest.take n = encNat .network k v.length ++ v ∧ v.length < 256 ^ k := by
  unfold parseBytes at h
  cases hp : parseNum .network k rest with
  | error e => simp [hp, bind, Except.bind] at h
  | ok r =>
    obtain ⟨len, n1⟩ := r
    obtain ⟨hn1, hk, hlen, henc, _⟩ := parseNum_ok_inv hp
    simp only [hp, bind, Except.bind] at h
    cases hr : parseRaw (len : Int) (rest.drop n1) with
    | error e => simp [hr] at h
    | ok r2 =>
      obtain ⟨body, m⟩ := r2
      obtain ⟨_, hm, hml, hbody⟩ := parseRaw_ok_inv hr
      simp only [hr, pure, Except.pure, Except.ok.injEq, Prod.mk.injEq] at h
      obtain ⟨hv, hn⟩ := h
      subst hv
      simp only [Int.toNat_natCast] at hm
      subst hm; subst hn1
      simp only [List.length_drop] at hml
      have hbl : body.length = m := by rw [hbody, List.length_take, List.length_drop]; omega
      refine ⟨by omega, by omega, ?_, by omega⟩
      rw [← hn, List.take_add, ← henc, hbl, ← hbody]

theorem parseLabel_ok_inv {bs l : Bytes} {n : Nat} (h : parseLabel bs = .ok (l, n)) :
    n = 1 + l.length ∧ n ≤ bs.length ∧ bs.take n = Spec.Dns.encodeLabel l ∧ labelModelled l = true ∧
      labelRefused l = false := by
  unfold parseLabel at h
  cases h1 : parseBytes .network 1 bs with
  | error e => simp [h1, bind, Except.bind] at h
  | ok r =>
    obtain ⟨l', n'⟩ := r
    simp only [h1, bind, Except.bind] at h
    split at h
    · simp at h
    · next hm =>
      split at h
      · simp at h
      · next hr =>
        simp only [pure, Except.pure, Except.ok.injEq, Prod.mk.injEq] at h
        obtain ⟨hl, hn⟩ := h
        subst hl; subst hn
        obtain ⟨a, b, c, _⟩ := parseBytes_ok_take h1
        refine ⟨a, b, ?_, by simpa using hm, by simpa using hr⟩
        rw [c, encNat_network_spec]
        rfl

theorem encodeName_cons' (l : Bytes) (ls : List Bytes) :
    Spec.Dns.encodeName (l :: ls) = Spec.Dns.encodeLabel l ++ Spec.Dns.encodeName ls := by
  simp [Spec.Dns.encodeName, List.append_assoc]

/-- whatever the label loop accepts is the RFC 1035 encoding of labels the library reproduces -/
theorem parseLabels_ok_inv : ∀ (fuel : Nat) (bs : Bytes) (ls : List Bytes) (n : Nat),
    parseLabels fuel bs = .ok (ls, n) →
      n ≤ bs.length ∧ bs.take n = Spec.Dns.encodeName ls ∧ ∀ l ∈ ls, LabelOk l := by
  intro fuel
  induction fuel with
  | zero => intro bs ls n h; simp [parseLabels] at h
  | succ f ih =>
    intro bs ls n h
    simp only [parseLabels] at h
    cases h1 : parseLabel bs with
    | error e => simp [h1, bind, Except.bind] at h
    | ok r =>
      obtain ⟨l, n1⟩ := r
      obtain ⟨hn1, hle, htake, hm, hr⟩ := parseLabel_ok_inv h1
      simp only [h1, bind, Except.bind] at h
      split at h
      · next he =>
        simp only [pure, Except.pure, Except.ok.injEq, Prod.mk.injEq] at h
        obtain ⟨hls, hn⟩ := h
        subst hls; subst hn
        have : l = [] := by cases l <;> simp_all
        subst this
        exact ⟨hle, by rw [htake]; decide, by simp⟩
      · next he =>
        cases h2 : parseLabels f (bs.drop n1) with
        | error e => simp [h2] at h
        | ok r2 =>
          obtain ⟨ls', m⟩ := r2
          obtain ⟨hm1, hm2, hm3⟩ := ih _ _ _ h2
          simp only [h2, pure, Except.pure, Except.ok.injEq, Prod.mk.injEq] at h
          obtain ⟨hls, hn⟩ := h
          subst hls; subst hn
          simp only [List.length_drop] at hm1
          refine ⟨by omega, ?_, ?_⟩
          · rw [List.take_add, htake, hm2, encodeName_cons']
          · intro x hx
            simp only [List.mem_cons] at hx
            rcases hx with rfl | hx
            · exact labelOk_of_accepted (by simpa using he) hm hr
            · exact hm3 x hx

/-- RFC 1035 §2.3.4 is enforced: whatever `DnsNameUncompressed._parse` accepts is the encoding —
255 octets or less — of labels of 1..63 octets each (inside the model's domain: ASCII, no ACE
prefix), none of which holds a dot -/
theorem parseName_ok_inv {bs : Bytes} {ls : List Bytes} {n : Nat} (h : parseName bs = .ok (ls, n)) :
    n ≤ bs.length ∧ n ≤ 255 ∧ bs.take n = Spec.Dns.encodeName ls ∧ NameOk ls := by
  unfold parseName at h
  cases h1 : parseLabels (bs.length + 1) bs with
  | error e => simp [h1, bind, Except.bind] at h
  | ok r =>
    obtain ⟨ls', n'⟩ := r
    simp only [h1, bind, Except.bind] at h
    split at h
    · simp at h
    · next hlen =>
      simp only [pure, Except.pure, Except.ok.injEq, Prod.mk.injEq] at h
      obtain ⟨hls, hn⟩ := h
      subst hls; subst hn
      obtain ⟨a, b, c⟩ := parseLabels_ok_inv _ _ _ _ h1
      simp only [maxNameSize] at hlen
      refine ⟨a, by omega, b, c, ?_⟩
      rw [← b, List.length_take]
      omega

/-! ### round trip of codecs that read everything that is left (`parse_raw(unparsed_length)`) -/

/-- compose then parse gives the value back and consumes all of the composed bytes (no suffix:
the class reads to the end of its input, RDATA being delimited by RDLENGTH) -/
def RoundTripExact (c : Codec α) (wf : α → Prop) : Prop :=
  ∀ v, wf v → ∃ b, c.compose v = .ok b ∧ c.parse b = .ok (v, b.length)

theorem RoundTrip.toExact {c : Codec α} {wf : α → Prop} (h : RoundTrip c wf) : RoundTripExact c wf := by
  intro v hv
  obtain ⟨b, hb, hp⟩ := h v hv
  exact ⟨b, hb, by simpa using hp []⟩

theorem rawRest_roundTripExact : RoundTripExact rawRest (fun _ => True) :=
  fun v _ => ⟨v, rfl, rfl⟩

theorem seq_roundTripExact {a : Codec α} {b : Codec β} {wa : α → Prop} {wb : β → Prop}
    (ha : RoundTrip a wa) (hb : RoundTripExact b wb) :
    RoundTripExact (seq a b) (fun p => wa p.1 ∧ wb p.2) := by
  intro ⟨x, y⟩ ⟨hx, hy⟩
  obtain ⟨p, hp, hpp⟩ := ha x hx
  obtain ⟨q, hq, hqq⟩ := hb y hy
  refine ⟨p ++ q, ?_, ?_⟩
  · simp [seq, hp, hq, bind, Except.bind, pure, Except.pure]
  · simp only [seq]
    rw [hpp q]
    simp only [bind, Except.bind]
    rw [List.drop_left, hqq]
    simp [pure, Except.pure]

theorem mapE_roundTripExact {c : Codec α} {w : α → Prop} {f : α → Except PErr β} {g : β → α} {w' : β → Prop}
    (hc : RoundTripExact c w) (hw : ∀ y, w' y → w (g y) ∧ f (g y) = .ok y) : RoundTripExact (mapE c f g) w' := by
  intro y hy
  obtain ⟨hwy, hf⟩ := hw y hy
  obtain ⟨b, hb, hbb⟩ := hc (g y) hwy
  exact ⟨b, hb, by simp [mapE, hbb, bind, Except.bind, hf, pure, Except.pure]⟩

theorem minSize_roundTripExact {c : Codec α} {w : α → Prop} {n : Nat} (hc : RoundTripExact c w)
    (hmin : ∀ v b, w v → c.compose v = .ok b → n ≤ b.length) : RoundTripExact (minSize n c) w := by
  intro v hv
  obtain ⟨b, hb, hbb⟩ := hc v hv
  have := hmin v b hv hb
  have hlen : ¬ (b.length < n) := by omega
  exact ⟨b, hb, by simp only [minSize, hlen, if_false, hbb]⟩

/-! ### tables -/

theorem alg_tableOk : TableOk Gen.DnsSecAlgorithm.codes 1 := ⟨rfl, by decide, by decide⟩
theorem digestType_tableOk : TableOk Gen.DnsSecDigestType.codes 1 := ⟨rfl, by decide, by decide⟩
theorem rrType_tableOk : TableOk Gen.DnsRrType.codes 2 := ⟨rfl, by decide +kernel, by decide +kernel⟩

theorem composeCoded_eq {codes : List Nat} {k : Nat} (ht : TableOk codes k) {i : Nat} (hi : i < codes.length) :
    composeCoded codes k i = .ok (Spec.toBytesBE k (codes.getD i 0)) := by
  have hget : codes[i]? = some codes[i] := List.getElem?_eq_getElem hi
  have hc : codes[i] < 256 ^ k := ht.fits _ (List.getElem_mem hi)
  simp [composeCoded, hget, composeNum_ok ht.size hc, encNat_network_spec, List.getD]

theorem composeNum_spec {k v : Nat} (hk : validSize k = true) (hv : v < 256 ^ k) :
    composeNum .network k (v : Int) = .ok (Spec.toBytesBE k v) := by
  rw [composeNum_ok hk hv, encNat_network_spec]

/-! ### MX -/

def MxOk (m : Mx) : Prop := m.priority < 256 ^ 2 ∧ NameOk m.exchange

def Mx.toSpec (m : Mx) : Spec.Dns.Mx := ⟨m.priority, m.exchange⟩

theorem composeMx_eq_spec {m : Mx} (h : MxOk m) : composeMx m = .ok (Spec.Dns.encodeMx m.toSpec) := by
  simp [composeMx, mxCodec, minSize, mapE, mxInner, seq, num, nameCodec, composeNum_spec (k := 2) rfl h.1,
    composeName_ok h.2, bind, Except.bind, pure, Except.pure, Spec.Dns.encodeMx, Mx.toSpec]

theorem mx_roundTrip : RoundTrip mxCodec MxOk := by
  apply minSize_roundTrip
  · apply mapE_roundTrip (seq_roundTrip (num_roundTrip .network (k := 2) rfl) name_roundTrip)
    intro m hm
    exact ⟨hm, rfl⟩
  · intro m b hm hb
    have := composeMx_eq_spec hm
    simp only [composeMx, mxCodec, minSize] at this
    rw [this] at hb
    cases hb
    simp [Spec.Dns.encodeMx, toBytesBE_length, mxHeaderSize]

/-! ### DS -/

def DsOk (d : Ds) : Prop :=
  d.keyTag < 256 ^ 2 ∧ d.algorithm < Gen.DnsSecAlgorithm.codes.length ∧
    d.digestType < Gen.DnsSecDigestType.codes.length

def Ds.toSpec (d : Ds) : Spec.Dns.Ds :=
  ⟨d.keyTag, Gen.DnsSecAlgorithm.codes.getD d.algorithm 0, Gen.DnsSecDigestType.codes.getD d.digestType 0, d.digest⟩

theorem composeDs_eq_spec {d : Ds} (h : DsOk d) : composeDs d = .ok (Spec.Dns.encodeDs d.toSpec) := by
  simp [composeDs, dsCodec, minSize, mapE, dsInner, seq, num, algCodec, digestTypeCodec, codedStrict, rawRest,
    composeNum_spec (k := 2) rfl h.1, composeCoded_eq alg_tableOk h.2.1, composeCoded_eq digestType_tableOk h.2.2,
    bind, Except.bind, pure, Except.pure, Spec.Dns.encodeDs, Ds.toSpec]

theorem ds_roundTripExact : RoundTripExact dsCodec DsOk := by
  apply minSize_roundTripExact
  · apply mapE_roundTripExact (w := fun x => x.1 < 256 ^ 2 ∧ x.2.1 < Gen.DnsSecAlgorithm.codes.length ∧
        x.2.2.1 < Gen.DnsSecDigestType.codes.length ∧ True)
      (seq_roundTripExact (num_roundTrip .network (k := 2) rfl)
        (seq_roundTripExact (codedStrict_roundTrip alg_tableOk)
          (seq_roundTripExact (codedStrict_roundTrip digestType_tableOk) rawRest_roundTripExact)))
    intro d hd
    exact ⟨⟨hd.1, hd.2.1, hd.2.2, trivial⟩, rfl⟩
  · intro d b hd hb
    have := composeDs_eq_spec hd
    simp only [composeDs, dsCodec, minSize] at this
    rw [this] at hb
    cases hb
    simp only [Spec.Dns.encodeDs, toBytesBE_length, dsHeaderSize, List.length_append]
    omega

/-! ### RRSIG -/

theorem instantCodec_eq : instantCodec = num .network 4 := rfl

theorem instant_roundTrip : RoundTrip instantCodec (fun t => t < 256 ^ 4) := by
  rw [instantCodec_eq]; exact num_roundTrip .network rfl

theorem rrType_below_private : ∀ c ∈ Gen.DnsRrType.codes, c < privateTypeMin := by decide +kernel

theorem findCode_none_of_not_mem {c : Nat} {codes : List Nat} (h : c ∉ codes) : findCode c codes = none := by
  cases hf : findCode c codes with
  | none => rfl
  | some i => exact absurd (List.mem_of_getElem? (findCode_sound hf)) h

def TypeCoveredOk : Coded → Prop
  | .known i => i < Gen.DnsRrType.codes.length
  | .unknown v => privateTypeMin ≤ v ∧ v ≤ privateTypeMax

def typeCoveredCode : Coded → Nat
  | .known i => Gen.DnsRrType.codes.getD i 0
  | .unknown v => v

theorem composeTypeCovered_eq {t : Coded} (h : TypeCoveredOk t) :
    composeTypeCovered t = .ok (Spec.toBytesBE 2 (typeCoveredCode t)) := by
  cases t with
  | known i => exact composeCoded_eq rrType_tableOk h
  | unknown v =>
    have hv : v < 256 ^ 2 := by
      have := h.2
      simp only [privateTypeMax] at this
      omega
    exact composeNum_spec rfl hv

theorem typeCovered_roundTrip : RoundTrip typeCoveredCodec TypeCoveredOk := by
  intro t ht
  cases t with
  | known i =>
    obtain ⟨b, hb, hp⟩ := codedStrict_roundTrip rrType_tableOk i ht
    refine ⟨b, hb, ?_⟩
    intro s
    have := hp s
    simp only [codedStrict] at this
    simp [typeCoveredCodec, parseTypeCovered, orElseInvalid, this, Except.map]
  | unknown v =>
    have h1 := ht.1
    have h2 := ht.2
    simp only [privateTypeMin, privateTypeMax] at h1 h2
    have hv : v < 256 ^ 2 := by omega
    refine ⟨encNat .network 2 v, composeNum_ok rfl hv, ?_⟩
    intro s
    have hno : v ∉ Gen.DnsRrType.codes := fun hm => by
      have := rrType_below_private v hm
      simp only [privateTypeMin] at this
      omega
    have hlo : ¬ (v < privateTypeMin) := by simp only [privateTypeMin]; omega
    have hhi : ¬ (v > privateTypeMax) := by simp only [privateTypeMax]; omega
    simp [typeCoveredCodec, parseTypeCovered, orElseInvalid, parseCoded, parsePrivateType, parseNum_enc rfl hv,
      bind, Except.bind, findCode_none_of_not_mem hno, Except.map, hlo, hhi, pure, Except.pure]

/-- every field fits its width — the instants over the full 32-bit range -/
def RrsigComposable (r : Rrsig) : Prop :=
  TypeCoveredOk r.typeCovered ∧ r.algorithm < Gen.DnsSecAlgorithm.codes.length ∧ r.labels < 256 ^ 1 ∧
  r.originalTtl < 256 ^ 4 ∧ r.expiration < 256 ^ 4 ∧ r.inception < 256 ^ 4 ∧ r.keyTag < 256 ^ 2 ∧
  NameOk r.signersName

/-- (the RDATA of a composable value is never shorter than the class's `HEADER_SIZE`, the 18 octets of
the fixed part: no further condition) -/
def RrsigOk (r : Rrsig) : Prop := RrsigComposable r

def Rrsig.toSpec (r : Rrsig) : Spec.Dns.Rrsig :=
  ⟨typeCoveredCode r.typeCovered, Gen.DnsSecAlgorithm.codes.getD r.algorithm 0, r.labels, r.originalTtl, r.expiration,
    r.inception, r.keyTag, r.signersName, r.signature⟩

theorem RrsigOk.composable {r : Rrsig} (h : RrsigOk r) : RrsigComposable r := h

theorem composeRrsig_eq_spec {r : Rrsig} (h : RrsigComposable r) :
    composeRrsig r = .ok (Spec.Dns.encodeRrsig r.toSpec) := by
  obtain ⟨h1, h2, h3, h4, h5, h6, h7, h8⟩ := h
  simp [composeRrsig, rrsigCodec, minSize, mapE, rrsigInner, rrsigToTuple, seq, num, typeCoveredCodec, algCodec,
    codedStrict, instantCodec, composeTimestamp, nameCodec, rawRest, composeTypeCovered_eq h1,
    composeCoded_eq alg_tableOk h2, composeNum_spec (k := 1) rfl h3, composeNum_spec (k := 4) rfl h4,
    composeNum_spec (k := 4) rfl h5, composeNum_spec (k := 4) rfl h6, composeNum_spec (k := 2) rfl h7,
    composeName_ok h8, bind, Except.bind, pure, Except.pure, Spec.Dns.encodeRrsig, Rrsig.toSpec]

theorem rrsig_roundTripExact : RoundTripExact rrsigCodec RrsigOk := by
  apply minSize_roundTripExact
  · apply mapE_roundTripExact (w := fun x => TypeCoveredOk x.1 ∧ x.2.1 < Gen.DnsSecAlgorithm.codes.length ∧
        x.2.2.1 < 256 ^ 1 ∧ x.2.2.2.1 < 256 ^ 4 ∧ x.2.2.2.2.1 < 256 ^ 4 ∧ x.2.2.2.2.2.1 < 256 ^ 4 ∧
        x.2.2.2.2.2.2.1 < 256 ^ 2 ∧ NameOk x.2.2.2.2.2.2.2.1 ∧ True)
      (seq_roundTripExact typeCovered_roundTrip
        (seq_roundTripExact (codedStrict_roundTrip alg_tableOk)
          (seq_roundTripExact (num_roundTrip .network (k := 1) rfl)
            (seq_roundTripExact (num_roundTrip .network (k := 4) rfl)
              (seq_roundTripExact instant_roundTrip
                (seq_roundTripExact instant_roundTrip
                  (seq_roundTripExact (num_roundTrip .network (k := 2) rfl)
                    (seq_roundTripExact name_roundTrip rawRest_roundTripExact))))))))
    intro r hr
    obtain ⟨h1, h2, h3, h4, h5, h6, h7, h8⟩ := hr
    exact ⟨⟨h1, h2, h3, h4, h5, h6, h7, h8, trivial⟩, rfl⟩
  · intro r b hr hb
    have := composeRrsig_eq_spec hr.composable
    simp only [composeRrsig, rrsigCodec, minSize] at this
    rw [this] at hb
    cases hb
    simp only [Spec.Dns.encodeRrsig, toBytesBE_length, List.length_append, Rrsig.toSpec, rrsigHeaderSize]
    omega

/-! ### no exception outside the documented ones (up to the model's own boundary) -/

/-- every crash the parser can report satisfies `P` (for `P k := k = "UNMODELLED"`: inside the model
no exception but the four documented parse errors escapes) -/
def CrashOnly (P : String → Prop) (c : Codec α) : Prop := ∀ b k, c.parse b = .error (.crash k) → P k

theorem crashOnly_of_noCrash {c : Codec α} {P : String → Prop} (h : NoCrash c) : CrashOnly P c :=
  fun b k hk => absurd hk (h b k)

theorem seq_crashOnly {a : Codec α} {b : Codec β} {P : String → Prop} (ha : CrashOnly P a) (hb : CrashOnly P b) :
    CrashOnly P (seq a b) := by
  intro bs k
  simp only [seq]
  cases h1 : a.parse bs with
  | error e =>
    simp only [bind, Except.bind]
    intro h; cases h
    exact ha bs k h1
  | ok r =>
    obtain ⟨x, n⟩ := r
    simp only [bind, Except.bind]
    cases h2 : b.parse (bs.drop n) with
    | error e =>
      intro h; cases h
      exact hb _ k h2
    | ok r2 => simp [pure, Except.pure]

theorem mapE_crashOnly {c : Codec α} {f : α → Except PErr β} {g : β → α} {P : String → Prop} (hc : CrashOnly P c)
    (hf : ∀ x k, f x ≠ .error (.crash k)) : CrashOnly P (mapE c f g) := by
  intro bs k
  simp only [mapE]
  cases h1 : c.parse bs with
  | error e =>
    simp only [bind, Except.bind]
    intro h; cases h
    exact hc bs k h1
  | ok r =>
    obtain ⟨x, n⟩ := r
    simp only [bind, Except.bind]
    cases h2 : f x with
    | error e =>
      intro h; cases h
      exact absurd h2 (hf x k)
    | ok y => simp [pure, Except.pure]

theorem minSize_crashOnly {c : Codec α} {n : Nat} {P : String → Prop} (hc : CrashOnly P c) :
    CrashOnly P (minSize n c) := by
  intro bs k
  simp only [minSize]
  split
  · simp
  · exact hc bs k

theorem rawRest_noCrash : NoCrash rawRest := fun b k => by simp [rawRest]

theorem typeCovered_noCrash : NoCrash typeCoveredCodec := by
  intro bs k
  simp only [typeCoveredCodec, parseTypeCovered, orElseInvalid]
  cases h1 : parseCoded Gen.DnsRrType.codes 2 bs with
  | ok r => simp [Except.map]
  | error e =>
    have hnc := codedStrict_noCrash Gen.DnsRrType.codes (k := 2) rfl bs
    simp only [codedStrict] at hnc
    cases e with
    | invalidValue =>
      simp only [Except.map, parsePrivateType]
      cases h2 : parseNum .network 2 bs with
      | error e2 =>
        simp only [bind, Except.bind]
        intro h
        cases h
        exact parseNum_no_crash (k := 2) rfl bs k h2
      | ok r2 =>
        simp only [bind, Except.bind]
        by_cases hlo : r2.fst < privateTypeMin
        · simp [hlo]
        · by_cases hhi : r2.fst > privateTypeMax
          · simp [hlo, hhi]
          · simp [hlo, hhi, pure, Except.pure]
    | crash c => exact absurd h1 (hnc c)
    | notEnough n => simp [Except.map]
    | tooMuch n => simp [Except.map]
    | invalidType => simp [Except.map]

theorem parseLabel_crash {bs : Bytes} {k : String} (h : parseLabel bs = .error (.crash k)) : k = "UNMODELLED" := by
  unfold parseLabel at h
  cases h1 : parseBytes .network 1 bs with
  | error e =>
    simp only [h1, bind, Except.bind] at h
    cases h
    exact absurd h1 (bytesPrefixed_noCrash .network (k := 1) rfl bs k)
  | ok r =>
    obtain ⟨l, n⟩ := r
    simp only [h1, bind, Except.bind] at h
    split at h
    · simp only [unmodelled, Except.error.injEq, PErr.crash.injEq] at h
      exact h.symm
    · split at h
      · simp at h
      · simp [pure, Except.pure] at h

theorem parseLabels_crash : ∀ (fuel : Nat) (bs : Bytes) (k : String), bs.length < fuel →
    parseLabels fuel bs = .error (.crash k) → k = "UNMODELLED" := by
  intro fuel
  induction fuel with
  | zero => intro bs k h; omega
  | succ f ih =>
    intro bs k hf h
    simp only [parseLabels] at h
    cases h1 : parseLabel bs with
    | error e =>
      simp only [h1, bind, Except.bind] at h
      cases h
      exact parseLabel_crash h1
    | ok r =>
      obtain ⟨l, n⟩ := r
      obtain ⟨hn1, hn2, _⟩ := parseLabel_ok_inv h1
      simp only [h1, bind, Except.bind] at h
      split at h
      · simp [pure, Except.pure] at h
      · cases h2 : parseLabels f (bs.drop n) with
        | error e =>
          simp only [h2] at h
          cases h
          exact ih (bs.drop n) k (by simp only [List.length_drop]; omega) h2
        | ok r2 => simp [h2, pure, Except.pure] at h

theorem name_crashOnly : CrashOnly (· = "UNMODELLED") nameCodec := by
  intro bs k h
  simp only [nameCodec, parseName] at h
  cases h1 : parseLabels (bs.length + 1) bs with
  | error e =>
    simp only [h1, bind, Except.bind] at h
    cases h
    exact parseLabels_crash (bs.length + 1) bs k (Nat.lt_succ_self _) h1
  | ok r =>
    obtain ⟨ls, n⟩ := r
    simp only [h1, bind, Except.bind] at h
    split at h
    · simp at h
    · simp [pure, Except.pure] at h

/-- `DnsRecordRrsig._parse` raises nothing but the four documented parse errors -/
theorem rrsig_crashOnly : CrashOnly (· = "UNMODELLED") rrsigCodec := by
  apply minSize_crashOnly
  apply mapE_crashOnly
  · exact seq_crashOnly (crashOnly_of_noCrash typeCovered_noCrash)
      (seq_crashOnly (crashOnly_of_noCrash (codedStrict_noCrash _ rfl))
        (seq_crashOnly (crashOnly_of_noCrash (num_noCrash .network rfl))
          (seq_crashOnly (crashOnly_of_noCrash (num_noCrash .network rfl))
            (seq_crashOnly (crashOnly_of_noCrash (num_noCrash .network (k := 4) rfl))
              (seq_crashOnly (crashOnly_of_noCrash (num_noCrash .network (k := 4) rfl))
                (seq_crashOnly (crashOnly_of_noCrash (num_noCrash .network rfl))
                  (seq_crashOnly name_crashOnly (crashOnly_of_noCrash rawRest_noCrash))))))))
  · intro x k
    simp [rrsigOfTuple]

/-! ### TXT -/

def isAscii (b : Bytes) : Bool := b.all (fun x => x.toNat < 0x80)

theorem isAscii_iff (c : Bytes) : isAscii c = true ↔ ∀ x ∈ c, x.toNat < 0x80 := by
  simp [isAscii, List.all_eq_true]

theorem isAscii_replicate (n : Nat) (x : UInt8) (hx : x.toNat < 0x80) : isAscii (List.replicate n x) = true := by
  induction n with
  | zero => rfl
  | succ n ih =>
    simp only [isAscii, List.replicate_succ, List.all_cons, Bool.and_eq_true, decide_eq_true_eq] at ih ⊢
    exact ⟨hx, ih⟩

theorem composeCharString_ok {c : Bytes} (ha : isAscii c = true) (hl : c.length ≤ 255) :
    composeCharString c = .ok (Spec.Dns.encodeCharString c) := by
  unfold composeCharString
  simp only [isAscii] at ha
  rw [if_pos ha, composeBytes_ok rfl c (by omega), encNat_network_spec]
  rfl

theorem composeItems_charStrings {cs : List Bytes} (h : ∀ c ∈ cs, isAscii c = true ∧ c.length ≤ 255) :
    composeItems composeCharString cs = .ok (Spec.Dns.encodeTxt cs) := by
  induction cs with
  | nil => rfl
  | cons c t ih =>
    obtain ⟨ha, hl⟩ := h c (by simp)
    simp only [composeItems, composeCharString_ok ha hl, ih (fun x hx => h x (List.mem_cons_of_mem _ hx)),
      bind, Except.bind, pure, Except.pure, Spec.Dns.encodeTxt, List.flatMap_cons]

/-- the slices of `range(0, len, n)`: they concatenate to the value, each has 1..n octets taken from it -/
theorem chunks_spec {n : Nat} (hn : 0 < n) : ∀ (fuel : Nat) (v : Bytes), v.length ≤ fuel →
    (chunks n fuel v).flatten = v ∧ (∀ c ∈ chunks n fuel v, 1 ≤ c.length ∧ c.length ≤ n ∧ ∀ x ∈ c, x ∈ v) ∧
    (v ≠ [] → chunks n fuel v ≠ []) := by
  intro fuel
  induction fuel with
  | zero =>
    intro v hv
    have : v = [] := List.length_eq_zero_iff.mp (by omega)
    subst this
    simp [chunks]
  | succ f ih =>
    intro v hv
    cases v with
    | nil => simp [chunks]
    | cons a t =>
      have hne : (a :: t).isEmpty = false := rfl
      simp only [chunks, hne, Bool.false_eq_true, if_false]
      have hdl : ((a :: t).drop n).length ≤ f := by
        simp only [List.length_drop, List.length_cons] at hv ⊢
        omega
      obtain ⟨h1, h2, _⟩ := ih ((a :: t).drop n) hdl
      refine ⟨?_, ?_, by simp⟩
      · simp only [List.flatten_cons, h1, List.take_append_drop]
      · intro c hc
        simp only [List.mem_cons] at hc
        cases hc with
        | inl h =>
          subst h
          refine ⟨?_, List.length_take_le _ _, fun x hx => List.mem_of_mem_take hx⟩
          simp only [List.length_take, List.length_cons]
          omega
        | inr h =>
          obtain ⟨c1, c2, c3⟩ := h2 c h
          exact ⟨c1, c2, fun x hx => List.mem_of_mem_drop (c3 x hx)⟩

/-- what `DnsRecordTxt.compose` writes for an ASCII value: character-strings of 1..255 octets (one empty
string for the empty value) that concatenate to the value -/
theorem txtChunks_spec (v : Bytes) (ha : isAscii v = true) :
    (txtChunks v).flatten = v ∧ txtChunks v ≠ [] ∧ ∀ c ∈ txtChunks v, isAscii c = true ∧ c.length ≤ 255 := by
  unfold txtChunks
  cases v with
  | nil => simp [isAscii]
  | cons a t =>
    have hne : (a :: t).isEmpty = false := rfl
    simp only [hne, Bool.false_eq_true, if_false]
    obtain ⟨h1, h2, h3⟩ := chunks_spec (n := 255) (by decide) (a :: t).length (a :: t) (Nat.le_refl _)
    refine ⟨h1, h3 (by simp), fun c hc => ?_⟩
    obtain ⟨_, c2, c3⟩ := h2 c hc
    refine ⟨?_, c2⟩
    rw [isAscii_iff] at ha ⊢
    exact fun x hx => ha x (c3 x hx)

theorem composeTxt_eq_spec {v : Bytes} (ha : isAscii v = true) :
    composeTxt v = .ok (Spec.Dns.encodeTxt (txtChunks v)) :=
  composeItems_charStrings (txtChunks_spec v ha).2.2

/-- a value of at most 255 octets is one character-string -/
theorem txtChunks_short {v : Bytes} (hl : v.length ≤ 255) : txtChunks v = [v] := by
  unfold txtChunks
  cases v with
  | nil => rfl
  | cons a t =>
    have hne : (a :: t).isEmpty = false := rfl
    simp only [hne, Bool.false_eq_true, if_false, List.length_cons, chunks]
    have h1 : (a :: t).take 255 = a :: t := List.take_of_length_le (by simpa using hl)
    have h2 : (a :: t).drop 255 = [] := List.drop_of_length_le (by simpa using hl)
    rw [h1, h2]
    cases t.length <;> simp [chunks]

theorem parseCharString_encode {v : Bytes} (ha : isAscii v = true) (hl : v.length ≤ 255) (s : Bytes) :
    parseCharString (Spec.Dns.encodeCharString v ++ s) = .ok (v, 1 + v.length) := by
  unfold parseCharString Spec.Dns.encodeCharString
  simp only [isAscii] at ha
  rw [← encNat_network_spec, parseBytes_append rfl v s (by omega)]
  simp [bind, Except.bind, ha, pure, Except.pure]

theorem parseTxtLoop_encode (strs : List Bytes) (h : ∀ v ∈ strs, isAscii v = true ∧ v.length ≤ 255) :
    ∀ fuel, (Spec.Dns.encodeTxt strs).length ≤ fuel →
      parseTxtLoop fuel (Spec.Dns.encodeTxt strs) = .ok strs.flatten := by
  induction strs with
  | nil => intro fuel _; cases fuel <;> rfl
  | cons v vs ih =>
    intro fuel hf
    have hsplit : Spec.Dns.encodeTxt (v :: vs) = Spec.Dns.encodeCharString v ++ Spec.Dns.encodeTxt vs := by
      simp [Spec.Dns.encodeTxt]
    have hlen : (Spec.Dns.encodeCharString v).length = 1 + v.length := by
      simp [Spec.Dns.encodeCharString, toBytesBE_length]
    rw [hsplit] at hf ⊢
    rw [List.length_append, hlen] at hf
    cases fuel with
    | zero => omega
    | succ f =>
      have hne : (Spec.Dns.encodeCharString v ++ Spec.Dns.encodeTxt vs).isEmpty = false := by
        cases hc : Spec.Dns.encodeCharString v with
        | nil => rw [hc] at hlen; simp at hlen; omega
        | cons x xs => rfl
      obtain ⟨ha, hl⟩ := h v (by simp)
      simp only [parseTxtLoop, hne, Bool.false_eq_true, if_false]
      rw [parseCharString_encode ha hl]
      simp only [bind, Except.bind]
      rw [← hlen, List.drop_left, ih (fun x hx => h x (List.mem_cons_of_mem _ hx)) f (by omega)]
      simp [pure, Except.pure]

theorem parseTxt_encode {strs : List Bytes} (hne : strs ≠ [])
    (h : ∀ v ∈ strs, isAscii v = true ∧ v.length ≤ 255) :
    parseTxt (Spec.Dns.encodeTxt strs) = .ok (strs.flatten, (Spec.Dns.encodeTxt strs).length) := by
  unfold parseTxt
  have hpos : ¬ ((Spec.Dns.encodeTxt strs).length < txtHeaderSize) := by
    cases strs with
    | nil => exact absurd rfl hne
    | cons v vs =>
      simp only [Spec.Dns.encodeTxt, List.flatMap_cons, List.length_append, Spec.Dns.encodeCharString,
        toBytesBE_length, txtHeaderSize]
      omega
  rw [if_neg hpos, parseTxtLoop_encode strs h _ (Nat.le_refl _)]
  rfl

/-! ### integer widths -/

theorem composeMpint_nat {v len : Nat} (hv : v < 256 ^ len) :
    composeMpint (v : Int) len = .ok (Spec.toBytesBE len v) := by
  have hle : 256 ^ len ≤ 256 ^ (4 * len) := Nat.pow_le_pow_right (by decide) (by omega)
  have hcore := composeMpintCore_nonneg (v := v) (words := len) (by omega)
  have hlen := (minBytesBE_length_le_iff v len).mpr hv
  unfold composeMpint
  have hg : ¬ (bitLength (v : Int) > 8 * len) := by rw [bitLength_gt_iff]; omega
  have h0 : ¬ ((v : Int) < 0) := by omega
  have h1 : ¬ (len < (Spec.minBytesBE v).length) := by omega
  simp only [hg, hcore, h1, h0, if_false]
  rw [pad_minBytesBE hv, beBytes_eq_spec]

theorem byteLen_le_iff (v n : Nat) : byteLen v ≤ n ↔ v < 256 ^ n := by
  unfold byteLen
  have := bitLength_natCast_le_iff v (8 * n)
  rw [pow_256_eq]
  omega

theorem byteLen_eq_minLen (v : Nat) : byteLen v = (Spec.minBytesBE v).length :=
  Nat.le_antisymm
    ((byteLen_le_iff v _).mpr ((minBytesBE_length_le_iff v _).mp (Nat.le_refl _)))
    ((minBytesBE_length_le_iff v _).mpr ((byteLen_le_iff v _).mp (Nat.le_refl _)))

theorem toBytesBE_byteLen (v : Nat) : Spec.toBytesBE (byteLen v) v = Spec.minBytesBE v := by
  rw [← beBytes_eq_spec, minBytesBE_eq_beBytes (byteLen_eq_minLen v).symm]

theorem lt_pow_byteLen (v : Nat) : v < 256 ^ byteLen v := (byteLen_le_iff v _).mp (Nat.le_refl _)

theorem clog256_le_iff {m : Nat} (hm : 1 ≤ m) (n : Nat) : clog256 m ≤ n ↔ m ≤ 256 ^ n := by
  unfold clog256
  rw [byteLen_le_iff]
  omega

theorem clog256_eq_byteLen {m : Nat} (hm : 1 ≤ m) (hp : ∀ k, m ≠ 256 ^ k) : clog256 m = byteLen m := by
  apply Nat.le_antisymm
  · rw [clog256_le_iff hm]
    exact Nat.le_of_lt (lt_pow_byteLen m)
  · rw [byteLen_le_iff]
    have := (clog256_le_iff hm (clog256 m)).mp (Nat.le_refl _)
    have := hp (clog256 m)
    omega

theorem natOfBE_toBytesBE {k v : Nat} (hv : v < 256 ^ k) : natOfBE (Spec.toBytesBE k v) = v := by
  rw [← beBytes_eq_spec, natOfBE_beBytes, Nat.mod_eq_of_lt hv]

theorem parseMpint_ok_inv {len : Nat} {rest : Bytes} {v : Int} {n : Nat}
    (h : parseMpint len rest = .ok (v, n)) : n = len ∧ len ≤ rest.length ∧ 0 ≤ v := by
  unfold parseMpint parseMpintCore at h
  split at h
  · simp [bind, Except.bind] at h
  · next hl =>
    simp [bind, Except.bind, pure, Except.pure] at h
    refine ⟨h.2.symm, by omega, ?_⟩
    rw [← h.1]
    omega

theorem parseMpint_spec {k v : Nat} (hv : v < 256 ^ k) (s : Bytes) :
    parseMpint k (Spec.toBytesBE k v ++ s) = .ok ((v : Int), k) := by
  have := parseMpint_append (Spec.toBytesBE k v) s
  rwa [toBytesBE_length, natOfBE_toBytesBE hv] at this

theorem parseMpint_min (v : Nat) (s : Bytes) :
    parseMpint (Spec.minBytesBE v).length (Spec.minBytesBE v ++ s) = .ok ((v : Int), (Spec.minBytesBE v).length) := by
  have := parseMpint_append (Spec.minBytesBE v) s
  rwa [natOfBE_minBytesBE] at this

theorem parseNum_spec {k v : Nat} (hk : validSize k = true) (hv : v < 256 ^ k) (s : Bytes) :
    parseNum .network k (Spec.toBytesBE k v ++ s) = .ok (v, k) := by
  rw [← encNat_network_spec]
  exact parseNum_enc hk hv s

/-! ### errors that are not exceptions foreign to the parser interface -/

/-- an error is benign when, if it is a crash at all, it is the model's own boundary marker -/
def Benign (e : PErr) : Prop := ∀ k, e = .crash k → k = "UNMODELLED"

theorem benign_notEnough (n : Int) : Benign (.notEnough n) := fun _ h => by cases h
theorem benign_tooMuch (n : Int) : Benign (.tooMuch n) := fun _ h => by cases h
theorem benign_invalidValue : Benign .invalidValue := fun _ h => by cases h
theorem benign_unmodelled : Benign unmodelled := fun k h => by
  simp only [unmodelled, PErr.crash.injEq] at h
  exact h.symm

theorem parseNum_err_benign {k : Nat} (hk : validSize k = true) {rest : Bytes} {e : PErr}
    (h : parseNum .network k rest = .error e) : Benign e :=
  fun c hc => absurd (hc ▸ h) (parseNum_no_crash hk rest c)

theorem parseMpint_err {len : Nat} {rest : Bytes} {e : PErr} (h : parseMpint len rest = .error e) : Benign e := by
  unfold parseMpint parseMpintCore at h
  split at h
  · simp only [bind, Except.bind, Except.error.injEq] at h
    subst h
    exact benign_notEnough _
  · simp [bind, Except.bind, pure, Except.pure] at h

theorem parseRaw_err {size : Int} {rest : Bytes} {e : PErr} (h : parseRaw size rest = .error e) : Benign e := by
  unfold parseRaw at h
  split at h
  · cases h; exact benign_invalidValue
  · split at h
    · cases h; exact benign_notEnough _
    · simp at h

theorem parseMpint_ok_val {len : Nat} {rest : Bytes} {v : Int} {n : Nat} (h : parseMpint len rest = .ok (v, n)) :
    v = (natOfBE (rest.take len) : Int) ∧ n = len ∧ len ≤ rest.length := by
  obtain ⟨hn, hle, _⟩ := parseMpint_ok_inv h
  have hl : (rest.take len).length = len := by rw [List.length_take]; omega
  have := parseMpint_append (rest.take len) (rest.drop len)
  rw [List.take_append_drop, hl, h] at this
  simp only [Except.ok.injEq, Prod.mk.injEq] at this
  exact ⟨this.1, hn, hle⟩

theorem parseMpint_ok_lt {len : Nat} {rest : Bytes} {v : Int} {n : Nat} (h : parseMpint len rest = .ok (v, n)) :
    v.toNat < 256 ^ len := by
  obtain ⟨hv, _, hle⟩ := parseMpint_ok_val h
  rw [hv, Int.toNat_natCast]
  have := natOfBE_lt (rest.take len)
  rwa [List.length_take, Nat.min_eq_left hle] at this

/-! ### RSA keys (RFC 3110) -/

/-- an RSA key the library reproduces: exponent and modulus are not zero, the exponent length fits its
two-octet field -/
def RsaOk (e m : Nat) : Prop := 1 ≤ e ∧ e < 256 ^ 65535 ∧ 1 ≤ m

theorem toBytesBE_one_zero : Spec.toBytesBE 1 0 = [0] := by decide

theorem composeKeyRsa_eq_spec {e m : Nat} (h : RsaOk e m) :
    composeKeyRsa e m = .ok (Spec.Dns.encodeRsa e m) := by
  obtain ⟨he1, he2, hm1⟩ := h
  have hel1 : 1 ≤ byteLen e := by
    have : ¬ (byteLen e ≤ 0) := fun h0 => by
      have := (byteLen_le_iff e 0).mp h0
      simp at this
      omega
    omega
  have hel2 : byteLen e ≤ 65535 := (byteLen_le_iff e 65535).mpr he2
  have hhead : composeRsaExpLen (byteLen e) = .ok (Spec.Dns.rsaExponentLength (byteLen e)) := by
    unfold composeRsaExpLen Spec.Dns.rsaExponentLength
    by_cases hbig : byteLen e > 255
    · have hno : ¬ (1 ≤ byteLen e ∧ byteLen e ≤ 255) := by omega
      have h2 : byteLen e < 256 ^ 2 := by omega
      have h0 : composeNum .network 1 ((0 : Nat) : Int) = .ok (Spec.toBytesBE 1 0) := composeNum_spec rfl (by decide)
      simp only [Int.natCast_zero] at h0
      simp only [hbig, if_true, hno, if_false, composeNum_spec (k := 2) rfl h2, h0, toBytesBE_one_zero, bind,
        Except.bind, pure, Except.pure]
    · have hyes : 1 ≤ byteLen e ∧ byteLen e ≤ 255 := by omega
      have h1 : byteLen e < 256 ^ 1 := by omega
      simp only [hbig, if_false, hyes, and_self, if_true, composeNum_spec (k := 1) rfl h1]
  unfold composeKeyRsa
  simp only [hhead, composeMpint_nat (lt_pow_byteLen e), composeMpint_nat (lt_pow_byteLen m), bind, Except.bind,
    pure, Except.pure, toBytesBE_byteLen, Spec.Dns.encodeRsa, Spec.Dns.encodeRsaOctets, ← byteLen_eq_minLen]

/-- the one-octet length form, with any exponent and modulus octets that are not all zero -/
theorem parseKeyRsa_short {n : Nat} (h1 : 1 ≤ n) (h2 : n ≤ 255) (eb mb : Bytes) (hn : eb.length = n)
    (he : natOfBE eb ≠ 0) (hm : natOfBE mb ≠ 0) :
    parseKeyRsa (Spec.toBytesBE 1 n ++ (eb ++ mb)) = .ok (.rsa (natOfBE eb) (natOfBE mb), 1 + n + mb.length) := by
  have hz : (n == 0) = false := by simp; omega
  have hlenf : parseRsaExpLen (Spec.toBytesBE 1 n ++ (eb ++ mb)) = .ok (n, 1) := by
    unfold parseRsaExpLen
    rw [parseNum_spec rfl (by omega)]
    simp only [bind, Except.bind, hz, Bool.false_eq_true, if_false, pure, Except.pure]
  unfold parseKeyRsa
  rw [hlenf]
  simp only [bind, Except.bind, pure, Except.pure]
  have hd1 : (Spec.toBytesBE 1 n ++ (eb ++ mb)).drop 1 = eb ++ mb := by
    have := List.drop_left (l₁ := Spec.toBytesBE 1 n) (l₂ := eb ++ mb)
    rwa [toBytesBE_length] at this
  have hd2 : (Spec.toBytesBE 1 n ++ (eb ++ mb)).drop (1 + n) = mb := by
    rw [← List.drop_drop, hd1, ← hn, List.drop_left]
  have hp1 := parseMpint_append eb mb
  rw [hn] at hp1
  have hp2 := parseMpint_append mb []
  rw [List.append_nil] at hp2
  rw [hd1, hp1]
  simp only [hd2, hp2, Int.toNat_natCast, he, hm, if_false]

/-- the three-octet length form (a zero octet, then a two-octet length), for ANY length -/
theorem parseKeyRsa_long {n : Nat} (h : n < 256 ^ 2) (eb mb : Bytes) (hn : eb.length = n)
    (he : natOfBE eb ≠ 0) (hm : natOfBE mb ≠ 0) :
    parseKeyRsa ([0] ++ (Spec.toBytesBE 2 n ++ (eb ++ mb))) = .ok (.rsa (natOfBE eb) (natOfBE mb), 3 + n + mb.length) := by
  rw [← toBytesBE_one_zero]
  have hz : ((0 : Nat) == 0) = true := rfl
  have hd1 : (Spec.toBytesBE 1 0 ++ (Spec.toBytesBE 2 n ++ (eb ++ mb))).drop 1 = Spec.toBytesBE 2 n ++ (eb ++ mb) := by
    have := List.drop_left (l₁ := Spec.toBytesBE 1 0) (l₂ := Spec.toBytesBE 2 n ++ (eb ++ mb))
    rwa [toBytesBE_length] at this
  have hlenf : parseRsaExpLen (Spec.toBytesBE 1 0 ++ (Spec.toBytesBE 2 n ++ (eb ++ mb))) = .ok (n, 1 + 2) := by
    unfold parseRsaExpLen
    rw [parseNum_spec rfl (by decide)]
    simp only [bind, Except.bind, hz, if_true, hd1, parseNum_spec (k := 2) rfl h, pure, Except.pure]
  unfold parseKeyRsa
  rw [hlenf]
  simp only [bind, Except.bind]
  have hd3 : (Spec.toBytesBE 1 0 ++ (Spec.toBytesBE 2 n ++ (eb ++ mb))).drop (1 + 2) = eb ++ mb := by
    rw [← List.drop_drop, hd1]
    have := List.drop_left (l₁ := Spec.toBytesBE 2 n) (l₂ := eb ++ mb)
    rwa [toBytesBE_length] at this
  have hd4 : (Spec.toBytesBE 1 0 ++ (Spec.toBytesBE 2 n ++ (eb ++ mb))).drop (1 + 2 + n) = mb := by
    rw [← List.drop_drop, hd3, ← hn, List.drop_left]
  have hp1 := parseMpint_append eb mb
  rw [hn] at hp1
  have hp2 := parseMpint_append mb []
  rw [List.append_nil] at hp2
  rw [hd3, hp1]
  simp only [hd4, hp2, Int.toNat_natCast, he, hm, if_false, pure, Except.pure]

theorem parseKeyRsa_spec {e m : Nat} (h : RsaOk e m) :
    parseKeyRsa (Spec.Dns.encodeRsa e m) = .ok (.rsa e m, (Spec.Dns.encodeRsa e m).length) := by
  obtain ⟨he1, he, hm1⟩ := h
  have hlen : (Spec.minBytesBE e).length ≤ 65535 := (minBytesBE_length_le_iff e 65535).mpr he
  have he' : natOfBE (Spec.minBytesBE e) ≠ 0 := by rw [natOfBE_minBytesBE]; omega
  have hm' : natOfBE (Spec.minBytesBE m) ≠ 0 := by rw [natOfBE_minBytesBE]; omega
  simp only [Spec.Dns.encodeRsa, Spec.Dns.encodeRsaOctets, Spec.Dns.rsaExponentLength]
  split
  · next hs =>
    rw [List.append_assoc, parseKeyRsa_short hs.1 hs.2 _ _ rfl he' hm', natOfBE_minBytesBE, natOfBE_minBytesBE]
    simp only [List.length_append, toBytesBE_length]
    congr 2
    omega
  · rw [List.append_assoc, List.append_assoc, parseKeyRsa_long (by omega) _ _ rfl he' hm', natOfBE_minBytesBE,
      natOfBE_minBytesBE]
    simp only [List.length_append, toBytesBE_length, List.length_cons, List.length_nil]
    congr 2
    omega

theorem parseRsaExpLen_ok_inv {kb : Bytes} {el n : Nat} (h : parseRsaExpLen kb = .ok (el, n)) :
    n ≤ kb.length ∧ el ≤ 65535 := by
  unfold parseRsaExpLen at h
  cases h1 : parseNum .network 1 kb with
  | error e => simp [h1, bind, Except.bind] at h
  | ok r1 =>
    obtain ⟨l1, n1⟩ := r1
    obtain ⟨hn1, hk1, hl1, _⟩ := parseNum_ok_inv h1
    simp only [h1, bind, Except.bind] at h
    split at h
    · cases h2 : parseNum .network 2 (kb.drop n1) with
      | error e => simp [h2] at h
      | ok r =>
        obtain ⟨v, m⟩ := r
        obtain ⟨hm, hk, hv, _⟩ := parseNum_ok_inv h2
        simp [h2, pure, Except.pure] at h
        simp at hk
        omega
    · simp [pure, Except.pure] at h
      omega

theorem parseRsaExpLen_err {kb : Bytes} {e : PErr} (h : parseRsaExpLen kb = .error e) : Benign e := by
  unfold parseRsaExpLen at h
  cases h1 : parseNum .network 1 kb with
  | error e1 =>
    simp only [h1, bind, Except.bind, Except.error.injEq] at h
    subst h
    exact parseNum_err_benign rfl h1
  | ok r1 =>
    obtain ⟨l1, n1⟩ := r1
    simp only [h1, bind, Except.bind] at h
    split at h
    · cases h2 : parseNum .network 2 (kb.drop n1) with
      | error e2 =>
        simp only [h2, Except.error.injEq] at h
        subst h
        exact parseNum_err_benign rfl h2
      | ok r => simp [h2, pure, Except.pure] at h
    · simp [pure, Except.pure] at h

/-- what the RSA key parser accepts: a key the library reproduces, read from ALL of the key field -/
theorem parseKeyRsa_ok_inv {kb : Bytes} {k : Key} {n : Nat} (h : parseKeyRsa kb = .ok (k, n)) :
    ∃ e m, k = .rsa e m ∧ RsaOk e m ∧ n = kb.length := by
  unfold parseKeyRsa at h
  cases hh : parseRsaExpLen kb with
  | error e => simp [hh, bind, Except.bind] at h
  | ok r2 =>
    obtain ⟨el, n2⟩ := r2
    obtain ⟨hn2, hel⟩ := parseRsaExpLen_ok_inv hh
    simp only [hh, bind, Except.bind] at h
    cases h3 : parseMpint el (kb.drop n2) with
    | error e => simp [h3] at h
    | ok r3 =>
      obtain ⟨ev, n3⟩ := r3
      obtain ⟨hn3, hl3, _⟩ := parseMpint_ok_inv h3
      have helt := parseMpint_ok_lt h3
      simp only [h3, List.length_drop] at h
      cases h4 : parseMpint (kb.length - (n2 + n3)) (kb.drop (n2 + n3)) with
      | error e => simp [h4] at h
      | ok r4 =>
        obtain ⟨mv, n4⟩ := r4
        obtain ⟨hn4, _, _⟩ := parseMpint_ok_inv h4
        simp only [h4] at h
        split at h
        · simp at h
        · next he0 =>
          split at h
          · simp at h
          · next hm0 =>
            simp only [pure, Except.pure, Except.ok.injEq, Prod.mk.injEq] at h
            obtain ⟨hk, hn⟩ := h
            refine ⟨ev.toNat, mv.toNat, hk.symm, ⟨by omega, ?_, by omega⟩, ?_⟩
            · exact Nat.lt_of_lt_of_le helt (Nat.pow_le_pow_right (by decide) hel)
            · simp only [List.length_drop] at hl3
              omega

/-- the RSA key parser always reads its whole input: nothing after the exponent is dropped -/
theorem parseKeyRsa_consumes_all {kb : Bytes} {k : Key} {n : Nat} (h : parseKeyRsa kb = .ok (k, n)) :
    n = kb.length := by
  obtain ⟨_, _, _, _, hn⟩ := parseKeyRsa_ok_inv h
  exact hn

theorem parseKeyRsa_err {kb : Bytes} {e : PErr} (h : parseKeyRsa kb = .error e) : Benign e := by
  unfold parseKeyRsa at h
  cases hh : parseRsaExpLen kb with
  | error e1 =>
    simp only [hh, bind, Except.bind, Except.error.injEq] at h
    subst h
    exact parseRsaExpLen_err hh
  | ok r2 =>
    obtain ⟨el, n2⟩ := r2
    simp only [hh, bind, Except.bind] at h
    cases h3 : parseMpint el (kb.drop n2) with
    | error e3 =>
      simp only [h3, Except.error.injEq] at h
      subst h
      exact parseMpint_err h3
    | ok r3 =>
      obtain ⟨ev, n3⟩ := r3
      simp only [h3] at h
      cases h4 : parseMpint (kb.drop (n2 + n3)).length (kb.drop (n2 + n3)) with
      | error e4 =>
        simp only [h4, Except.error.injEq] at h
        subst h
        exact parseMpint_err h4
      | ok r4 =>
        obtain ⟨mv, n4⟩ := r4
        simp only [h4] at h
        split at h
        · cases h; exact benign_invalidValue
        · split at h
          · cases h; exact benign_invalidValue
          · simp [pure, Except.pure] at h

/-! ### elliptic-curve keys (RFC 6605) -/

/-- coordinates that fit `n` octets and from which the library can build its key object
(`ECPointBitString.from_coords` raises for a zero coordinate and when the wider coordinate is a
power of 256 — both are `InvalidValue` on parse; see `ecWidth_of_not_pow` for a sufficient condition) -/
def EcOk (n x y : Nat) : Prop := x < 256 ^ n ∧ y < 256 ^ n ∧ ∃ w, ecWidth x y = .ok w

/-- non-zero coordinates that are not powers of 256 (and away from the float zone) are accepted,
however many leading zero octets they have -/
theorem ecWidth_of_not_pow {x y : Nat} (hx1 : 1 ≤ x) (hy1 : 1 ≤ y) (hrx : floatRisk x = false)
    (hry : floatRisk y = false) (hpx : ∀ k, x ≠ 256 ^ k) (hpy : ∀ k, y ≠ 256 ^ k) :
    ∃ w, ecWidth x y = .ok w := by
  refine ⟨max (clog256 x) (clog256 y), ?_⟩
  have hx0 : ¬ (x = 0) := by omega
  have hy0 : ¬ (y = 0) := by omega
  have hxw : x ≤ 256 ^ max (clog256 x) (clog256 y) := (clog256_le_iff hx1 _).mp (Nat.le_max_left _ _)
  have hyw : y ≤ 256 ^ max (clog256 x) (clog256 y) := (clog256_le_iff hy1 _).mp (Nat.le_max_right _ _)
  have := hpx (max (clog256 x) (clog256 y))
  have := hpy (max (clog256 x) (clog256 y))
  have hnx : ¬ (256 ^ max (clog256 x) (clog256 y) ≤ x) := by omega
  have hny : ¬ (256 ^ max (clog256 x) (clog256 y) ≤ y) := by omega
  simp [ecWidth, hx0, hy0, hrx, hry, hnx, hny]

theorem ecWidth_err {x y : Nat} {e : PErr} (h : ecWidth x y = .error e) : Benign e := by
  unfold ecWidth at h
  split at h
  · cases h; exact benign_invalidValue
  · split at h
    · cases h; exact benign_invalidValue
    · split at h
      · cases h; exact benign_unmodelled
      · simp only at h
        split at h
        · cases h; exact benign_invalidValue
        · split at h
          · cases h; exact benign_invalidValue
          · simp at h

/-- every pair of coordinates that fit the curve's width composes to the fixed-width form -/
theorem composeKeyEc_eq_spec {g x y : Nat} (hx : x < 256 ^ groupBytes g) (hy : y < 256 ^ groupBytes g) :
    composeKeyEc g x y = .ok (Spec.Dns.encodeEcdsa (groupBytes g) x y) := by
  simp only [composeKeyEc, bind, Except.bind, composeMpint_nat hx, composeMpint_nat hy, pure, Except.pure,
    Spec.Dns.encodeEcdsa]

theorem parseKeyEc_spec {g x y : Nat} (h : EcOk (groupBytes g) x y) (s : Bytes) :
    parseKeyEc g (Spec.Dns.encodeEcdsa (groupBytes g) x y ++ s) = .ok (.ec g x y, 2 * groupBytes g) := by
  obtain ⟨hx, hy, w, hw⟩ := h
  simp only [parseKeyEc, Spec.Dns.encodeEcdsa, List.append_assoc, parseMpint_spec hx, bind, Except.bind]
  have hd : (Spec.toBytesBE (groupBytes g) x ++ (Spec.toBytesBE (groupBytes g) y ++ s)).drop (groupBytes g)
      = Spec.toBytesBE (groupBytes g) y ++ s := by
    have := List.drop_left (l₁ := Spec.toBytesBE (groupBytes g) x) (l₂ := Spec.toBytesBE (groupBytes g) y ++ s)
    rwa [toBytesBE_length] at this
  rw [hd, parseMpint_spec hy]
  simp only [Int.toNat_natCast, hw, pure, Except.pure]
  congr 2
  omega

/-- what the EC key parser accepts: coordinates the library reproduces, in exactly the fixed size -/
theorem parseKeyEc_ok_inv {g : Nat} {kb : Bytes} {k : Key} {n : Nat} (h : parseKeyEc g kb = .ok (k, n)) :
    ∃ x y, k = .ec g x y ∧ EcOk (groupBytes g) x y ∧ n = 2 * groupBytes g := by
  unfold parseKeyEc at h
  cases h1 : parseMpint (groupBytes g) kb with
  | error e => simp [h1, bind, Except.bind] at h
  | ok r1 =>
    obtain ⟨x, n1⟩ := r1
    simp only [h1, bind, Except.bind] at h
    cases h2 : parseMpint (groupBytes g) (kb.drop n1) with
    | error e => simp [h2] at h
    | ok r2 =>
      obtain ⟨y, n2⟩ := r2
      simp only [h2] at h
      cases h3 : ecWidth x.toNat y.toNat with
      | error e => simp [h3] at h
      | ok w =>
        simp only [h3, pure, Except.pure, Except.ok.injEq, Prod.mk.injEq] at h
        obtain ⟨hk, hn⟩ := h
        have := (parseMpint_ok_inv h1).1
        have := (parseMpint_ok_inv h2).1
        exact ⟨x.toNat, y.toNat, hk.symm, ⟨parseMpint_ok_lt h1, parseMpint_ok_lt h2, w, h3⟩, by omega⟩

theorem parseKeyEc_consumed {g : Nat} {kb : Bytes} {k : Key} {n : Nat} (h : parseKeyEc g kb = .ok (k, n)) :
    n = 2 * groupBytes g := by
  obtain ⟨_, _, _, _, hn⟩ := parseKeyEc_ok_inv h
  exact hn

theorem parseKeyEc_err {g : Nat} {kb : Bytes} {e : PErr} (h : parseKeyEc g kb = .error e) : Benign e := by
  unfold parseKeyEc at h
  cases h1 : parseMpint (groupBytes g) kb with
  | error e1 =>
    simp only [h1, bind, Except.bind, Except.error.injEq] at h
    subst h
    exact parseMpint_err h1
  | ok r1 =>
    obtain ⟨x, n1⟩ := r1
    simp only [h1, bind, Except.bind] at h
    cases h2 : parseMpint (groupBytes g) (kb.drop n1) with
    | error e2 =>
      simp only [h2, Except.error.injEq] at h
      subst h
      exact parseMpint_err h2
    | ok r2 =>
      obtain ⟨y, n2⟩ := r2
      simp only [h2] at h
      cases h3 : ecWidth x.toNat y.toNat with
      | error e3 =>
        simp only [h3, Except.error.injEq] at h
        subst h
        exact ecWidth_err h3
      | ok w => simp [h3, pure, Except.pure] at h

theorem parseKeyEddsa_spec {c : Nat} {d : Bytes} (h : d.length = curveBytes c) (s : Bytes) :
    parseKeyEddsa c (d ++ s) = .ok (.eddsa c d, curveBytes c) := by
  unfold parseKeyEddsa
  rw [← h, parseRaw_nat_append]
  rfl

theorem parseKeyEddsa_consumed {c : Nat} {kb : Bytes} {k : Key} {n : Nat} (h : parseKeyEddsa c kb = .ok (k, n)) :
    n = curveBytes c ∧ k = .eddsa c (kb.take (curveBytes c)) ∧ curveBytes c ≤ kb.length := by
  unfold parseKeyEddsa at h
  cases h1 : parseRaw (curveBytes c : Nat) kb with
  | error e => simp [h1, bind, Except.bind] at h
  | ok r =>
    obtain ⟨d, m⟩ := r
    obtain ⟨_, hm, hle, hd⟩ := parseRaw_ok_inv h1
    simp [h1, bind, Except.bind, pure, Except.pure] at h
    simp at hm
    refine ⟨by omega, ?_, by omega⟩
    rw [← h.1, hd, hm]

theorem parseKeyEddsa_err {c : Nat} {kb : Bytes} {e : PErr} (h : parseKeyEddsa c kb = .error e) : Benign e := by
  unfold parseKeyEddsa at h
  cases h1 : parseRaw (curveBytes c : Nat) kb with
  | error e1 =>
    simp only [h1, bind, Except.bind, Except.error.injEq] at h
    subst h
    exact parseRaw_err h1
  | ok r => simp [h1, bind, Except.bind, pure, Except.pure] at h

/-! ### DSA keys (RFC 2536) -/

/-- `T` as `_compose_public_key_dss` derives it from the size of the prime -/
def dsaT (p : Nat) : Nat := (byteLen p - 64) / 8

/-- a DSA key the library reproduces: the prime has `64 + 8 * T` octets (no fewer) for a `T` that fits
one octet, generator and public value fit that width, the order 20 octets -/
def DsaOk (p g q y : Nat) : Prop :=
  byteLen p = 64 + dsaT p * 8 ∧ dsaT p < 256 ∧ g < 256 ^ byteLen p ∧ y < 256 ^ byteLen p ∧ q < 256 ^ 20

theorem composeKeyDsa_eq_spec {p g q y : Nat} (h : DsaOk p g q y) :
    composeKeyDsa p g q y = .ok (Spec.Dns.encodeDsa (dsaT p) q p g y) := by
  obtain ⟨hw, ht, hg, hy, hq⟩ := h
  have hti : ((byteLen p : Nat) : Int) - 64 = ((dsaT p * 8 : Nat) : Int) := by omega
  have htd : (((byteLen p : Nat) : Int) - 64) / 8 = ((dsaT p : Nat) : Int) := by
    rw [hti]
    omega
  unfold composeKeyDsa
  simp only [htd, composeNum_spec (k := 1) rfl (show dsaT p < 256 ^ 1 by omega), composeMpint_nat hq,
    composeMpint_nat (lt_pow_byteLen p), composeMpint_nat hg, composeMpint_nat hy, bind, Except.bind, pure,
    Except.pure, Spec.Dns.encodeDsa, ← hw]

theorem byteLen_eq_of_bounds {p w : Nat} (h1 : p < 256 ^ w) (h2 : ¬ (p < 256 ^ (w - 1))) (hw : 1 ≤ w) : byteLen p = w := by
  have ha : byteLen p ≤ w := (byteLen_le_iff p w).mpr h1
  have hb : ¬ (byteLen p ≤ w - 1) := fun hc => h2 ((byteLen_le_iff p (w - 1)).mp hc)
  omega

theorem not_lt_pow_pred_byteLen {p : Nat} (hp : 1 ≤ byteLen p) : ¬ (p < 256 ^ (byteLen p - 1)) := by
  intro h
  have := (byteLen_le_iff p (byteLen p - 1)).mpr h
  omega

theorem drop_of_length {A rest : Bytes} {n : Nat} (h : A.length = n) : (A ++ rest).drop n = rest := by
  rw [← h, List.drop_left]

theorem parseKeyDsa_spec {p g q y : Nat} (h : DsaOk p g q y) :
    parseKeyDsa (Spec.Dns.encodeDsa (dsaT p) q p g y)
      = .ok (.dsa p g q y, (Spec.Dns.encodeDsa (dsaT p) q p g y).length) := by
  obtain ⟨hw, ht, hg, hy, hq⟩ := h
  have hp := lt_pow_byteLen p
  have hlo := not_lt_pow_pred_byteLen (p := p) (by omega)
  rw [hw] at hp hg hy hlo
  generalize dsaT p = t at *
  simp only [Spec.Dns.encodeDsa, List.append_assoc]
  generalize hA : Spec.toBytesBE 1 t = A
  generalize hB : Spec.toBytesBE 20 q = B
  generalize hC : Spec.toBytesBE (64 + t * 8) p = C
  generalize hD : Spec.toBytesBE (64 + t * 8) g = D
  generalize hE : Spec.toBytesBE (64 + t * 8) y = E
  have lA : A.length = 1 := by rw [← hA, toBytesBE_length]
  have lB : B.length = 20 := by rw [← hB, toBytesBE_length]
  have lC : C.length = 64 + t * 8 := by rw [← hC, toBytesBE_length]
  have lD : D.length = 64 + t * 8 := by rw [← hD, toBytesBE_length]
  have lE : E.length = 64 + t * 8 := by rw [← hE, toBytesBE_length]
  have hd1 : (A ++ (B ++ (C ++ (D ++ E)))).drop 1 = B ++ (C ++ (D ++ E)) := drop_of_length lA
  have hd2 : (A ++ (B ++ (C ++ (D ++ E)))).drop (1 + 20) = C ++ (D ++ E) := by
    rw [← List.drop_drop, hd1, drop_of_length lB]
  have hd3 : (A ++ (B ++ (C ++ (D ++ E)))).drop (1 + 20 + (64 + t * 8)) = D ++ E := by
    rw [← List.drop_drop, hd2, drop_of_length lC]
  have hd4 : (A ++ (B ++ (C ++ (D ++ E)))).drop (1 + 20 + (64 + t * 8) + (64 + t * 8)) = E := by
    rw [← List.drop_drop, hd3, drop_of_length lD]
  have p1 : parseNum .network 1 (A ++ (B ++ (C ++ (D ++ E)))) = .ok (t, 1) := by
    rw [← hA]; exact parseNum_spec rfl (show t < 256 ^ 1 by omega) _
  have p2 : parseMpint 20 (B ++ (C ++ (D ++ E))) = .ok ((q : Int), 20) := by rw [← hB]; exact parseMpint_spec hq _
  have p3 : parseMpint (64 + t * 8) (C ++ (D ++ E)) = .ok ((p : Int), 64 + t * 8) := by
    rw [← hC]; exact parseMpint_spec hp _
  have p4 : parseMpint (64 + t * 8) (D ++ E) = .ok ((g : Int), 64 + t * 8) := by rw [← hD]; exact parseMpint_spec hg _
  have p5 : parseMpint (64 + t * 8) E = .ok ((y : Int), 64 + t * 8) := by
    have := parseMpint_spec hy []
    rwa [List.append_nil, hE] at this
  unfold parseKeyDsa
  simp only [p1, bind, Except.bind, hd1, p2, hd2, p3, Int.toNat_natCast, hlo, if_false, hd3, p4, hd4, p5, pure,
    Except.pure, List.length_append, lA, lB, lC, lD, lE]
  congr 2
  omega

/-- what the DSA key parser accepts: a key the library reproduces (the prime fills the octets
announced by `T`), in exactly `21 + 3 * (64 + 8 * T)` octets -/
theorem parseKeyDsa_ok_inv {kb : Bytes} {k : Key} {n : Nat} (h : parseKeyDsa kb = .ok (k, n)) :
    ∃ p g q y, k = .dsa p g q y ∧ DsaOk p g q y ∧ n = 1 + 20 + 3 * byteLen p := by
  unfold parseKeyDsa at h
  cases h1 : parseNum .network 1 kb with
  | error e => simp [h1, bind, Except.bind] at h
  | ok r1 =>
    obtain ⟨t, n1⟩ := r1
    obtain ⟨hn1, _, ht, _⟩ := parseNum_ok_inv h1
    simp only [h1, bind, Except.bind] at h
    cases h2 : parseMpint 20 (kb.drop n1) with
    | error e => simp [h2] at h
    | ok r2 =>
      obtain ⟨q, n2⟩ := r2
      simp only [h2] at h
      cases h3 : parseMpint (64 + t * 8) (kb.drop (n1 + n2)) with
      | error e => simp [h3] at h
      | ok r3 =>
        obtain ⟨p, n3⟩ := r3
        simp only [h3] at h
        split at h
        · simp at h
        · next hlo =>
          cases h4 : parseMpint (64 + t * 8) (kb.drop (n1 + n2 + n3)) with
          | error e => simp [h4, bind, Except.bind] at h
          | ok r4 =>
            obtain ⟨g, n4⟩ := r4
            simp only [h4, bind, Except.bind] at h
            cases h5 : parseMpint (64 + t * 8) (kb.drop (n1 + n2 + n3 + n4)) with
            | error e => simp [h5] at h
            | ok r5 =>
              obtain ⟨y, n5⟩ := r5
              simp only [h5, pure, Except.pure, Except.ok.injEq, Prod.mk.injEq] at h
              obtain ⟨hk, hn⟩ := h
              have hbl : byteLen p.toNat = 64 + t * 8 := byteLen_eq_of_bounds (parseMpint_ok_lt h3) hlo (by omega)
              have hT : dsaT p.toNat = t := by unfold dsaT; rw [hbl]; omega
              have e2 := (parseMpint_ok_inv h2).1
              have e3 := (parseMpint_ok_inv h3).1
              have e4 := (parseMpint_ok_inv h4).1
              have e5 := (parseMpint_ok_inv h5).1
              refine ⟨p.toNat, g.toNat, q.toNat, y.toNat, hk.symm, ⟨?_, ?_, ?_, ?_, parseMpint_ok_lt h2⟩, ?_⟩
              · rw [hT]; exact hbl
              · rw [hT]; simpa using ht
              · rw [hbl]; exact parseMpint_ok_lt h4
              · rw [hbl]; exact parseMpint_ok_lt h5
              · rw [hbl]; omega

theorem parseKeyDsa_err {kb : Bytes} {e : PErr} (h : parseKeyDsa kb = .error e) : Benign e := by
  unfold parseKeyDsa at h
  cases h1 : parseNum .network 1 kb with
  | error e1 =>
    simp only [h1, bind, Except.bind, Except.error.injEq] at h
    subst h
    exact parseNum_err_benign rfl h1
  | ok r1 =>
    obtain ⟨t, n1⟩ := r1
    simp only [h1, bind, Except.bind] at h
    cases h2 : parseMpint 20 (kb.drop n1) with
    | error e2 =>
      simp only [h2, Except.error.injEq] at h
      subst h
      exact parseMpint_err h2
    | ok r2 =>
      obtain ⟨q, n2⟩ := r2
      simp only [h2] at h
      cases h3 : parseMpint (64 + t * 8) (kb.drop (n1 + n2)) with
      | error e3 =>
        simp only [h3, Except.error.injEq] at h
        subst h
        exact parseMpint_err h3
      | ok r3 =>
        obtain ⟨p, n3⟩ := r3
        simp only [h3] at h
        split at h
        · cases h; exact benign_invalidValue
        · cases h4 : parseMpint (64 + t * 8) (kb.drop (n1 + n2 + n3)) with
          | error e4 =>
            simp only [h4, bind, Except.bind, Except.error.injEq] at h
            subst h
            exact parseMpint_err h4
          | ok r4 =>
            obtain ⟨g, n4⟩ := r4
            simp only [h4, bind, Except.bind] at h
            cases h5 : parseMpint (64 + t * 8) (kb.drop (n1 + n2 + n3 + n4)) with
            | error e5 =>
              simp only [h5, Except.error.injEq] at h
              subst h
              exact parseMpint_err h5
            | ok r5 => simp [h5, pure, Except.pure] at h

/-! ### DNSKEY -/

def flagExps : List Nat := [0, 7, 8]

theorem flagCodes_eq : Gen.DnsSecFlag.codes = flagExps.map (2 ^ ·) := by decide

theorem dnskey_flags (sel : List Nat) (hsub : sel.Sublist flagExps) (s : Bytes) :
    (sel.map (2 ^ ·)).sum < 256 ^ 2 ∧
    composeFlags .network 2 0 (sel.map (2 ^ ·)) = .ok (Spec.toBytesBE 2 (sel.map (2 ^ ·)).sum) ∧
    parseFlags .network 2 0 Gen.DnsSecFlag.codes (Spec.toBytesBE 2 (sel.map (2 ^ ·)).sum ++ s)
      = .ok (sel.map (2 ^ ·), 2) := by
  have hn : flagExps.Nodup := by decide
  have hnsel : sel.Nodup := hsub.nodup hn
  have hw : ∀ e ∈ sel, e - 0 < 8 * 2 := by
    intro e he
    have : e ∈ flagExps := hsub.subset he
    simp only [flagExps, List.mem_cons, List.not_mem_nil, or_false] at this
    omega
  have hlt := flagWord_lt 0 2 sel hw
  have hsum := flagWord_eq_sum 0 sel hnsel (fun _ _ => Nat.zero_le _)
  simp only [Nat.sub_zero] at hsum
  rw [← hsum]
  refine ⟨hlt, ?_, ?_⟩
  · unfold composeFlags
    exact composeNum_spec rfl hlt
  · rw [flagCodes_eq, parseFlags_single .network 2 0 flagExps _ _ _ (parseNum_spec rfl hlt s)]
    have : (fun e => (flagWord 0 sel <<< 0).testBit e) = fun e => decide (e ∈ sel) := by
      funext e; exact flagWord_shiftLeft_testBit 0 sel (fun _ _ => Nat.zero_le _) e
    rw [this, filter_mem_of_sublist hsub hn]

/-- the RFC-format public key octets of a model key -/
def keySpecBytes : Key → Bytes
  | .rsa e m => Spec.Dns.encodeRsa e m
  | .ec g x y => Spec.Dns.encodeEcdsa (groupBytes g) x y
  | .eddsa _ d => d
  | .dsa p g q y => Spec.Dns.encodeDsa (dsaT p) q p g y

/-- the key type the algorithm calls for, with key material the library reproduces -/
def KeyOk (code : Nat) : Key → Prop
  | .rsa e m => keyKindOfCode code = some .rsa ∧ RsaOk e m
  | .ec g x y => keyKindOfCode code = some (.ec g) ∧ EcOk (groupBytes g) x y
  | .eddsa c d => keyKindOfCode code = some (.eddsa c) ∧ d.length = curveBytes c
  | .dsa p g q y => keyKindOfCode code = some .dsa ∧ DsaOk p g q y

structure DnskeyOk (k : Dnskey) : Prop where
  flags : ∃ sel : List Nat, sel.Sublist flagExps ∧ k.flags = sel.map (2 ^ ·)
  protocol : k.protocol = 3
  alg : k.algorithm < Gen.DnsSecAlgorithm.codes.length
  key : KeyOk k.algCode k.key

def Dnskey.toSpec (k : Dnskey) : Spec.Dns.Dnskey := ⟨k.flags.sum, k.protocol, k.algCode, keySpecBytes k.key⟩

theorem composeKey_eq_spec {code : Nat} {key : Key} (h : KeyOk code key) :
    composeKey key = .ok (keySpecBytes key) := by
  cases key with
  | rsa e m => exact composeKeyRsa_eq_spec h.2
  | ec g x y => exact composeKeyEc_eq_spec h.2.1 h.2.2.1
  | eddsa c d => rfl
  | dsa p g q y => exact composeKeyDsa_eq_spec h.2

theorem parseKeyN_spec {code : Nat} {key : Key} (h : KeyOk code key) :
    parseKeyN code (keySpecBytes key) = .ok (key, (keySpecBytes key).length) := by
  cases key with
  | rsa e m =>
    simp only [parseKeyN, h.1, keySpecBytes]
    exact parseKeyRsa_spec h.2
  | ec g x y =>
    simp only [parseKeyN, h.1, keySpecBytes]
    have := parseKeyEc_spec h.2 []
    rw [List.append_nil] at this
    rw [this]
    simp [Spec.Dns.encodeEcdsa, toBytesBE_length]
    omega
  | eddsa c d =>
    simp only [parseKeyN, h.1, keySpecBytes]
    have := parseKeyEddsa_spec h.2 []
    rw [List.append_nil] at this
    rw [this, h.2]
  | dsa p g q y =>
    simp only [parseKeyN, h.1, keySpecBytes]
    exact parseKeyDsa_spec h.2

theorem parseKey_spec {code : Nat} {key : Key} (h : KeyOk code key) :
    parseKey code (keySpecBytes key) = .ok key := by
  unfold parseKey
  rw [parseKeyN_spec h]
  simp [bind, Except.bind, pure, Except.pure]

/-- what `parse_key` accepts: a key of the type the algorithm calls for that the library reproduces,
read from ALL of the public key field -/
theorem parseKey_ok_inv {code : Nat} {kb : Bytes} {key : Key} (h : parseKey code kb = .ok key) :
    KeyOk code key ∧ parseKeyN code kb = .ok (key, kb.length) := by
  unfold parseKey at h
  cases h1 : parseKeyN code kb with
  | error e => simp [h1, bind, Except.bind] at h
  | ok r =>
    obtain ⟨k', n⟩ := r
    simp only [h1, bind, Except.bind] at h
    split at h
    · simp at h
    · next hn =>
      simp only [pure, Except.pure, Except.ok.injEq] at h
      subst h
      unfold parseKeyN at h1
      cases hk : keyKindOfCode code with
      | none => simp [hk] at h1
      | some kind =>
        cases kind with
        | rsa =>
          simp only [hk] at h1
          obtain ⟨e, m, rfl, hok, hl⟩ := parseKeyRsa_ok_inv h1
          exact ⟨⟨hk, hok⟩, by rw [hl]⟩
        | dsa =>
          simp only [hk] at h1
          obtain ⟨p, g, q, y, rfl, hok, hl⟩ := parseKeyDsa_ok_inv h1
          have hle : n ≤ kb.length := by
            unfold parseKeyDsa at h1
            -- the number of octets read never exceeds the input: every field parser checks its length
            cases a1 : parseNum .network 1 kb with
            | error e => simp [a1, bind, Except.bind] at h1
            | ok r1 =>
              obtain ⟨t, n1⟩ := r1
              obtain ⟨b1, c1, _⟩ := parseNum_ok_inv a1
              simp only [a1, bind, Except.bind] at h1
              cases a2 : parseMpint 20 (kb.drop n1) with
              | error e => simp [a2] at h1
              | ok r2 =>
                obtain ⟨q', n2⟩ := r2
                obtain ⟨b2, c2, _⟩ := parseMpint_ok_inv a2
                simp only [a2] at h1
                cases a3 : parseMpint (64 + t * 8) (kb.drop (n1 + n2)) with
                | error e => simp [a3] at h1
                | ok r3 =>
                  obtain ⟨p', n3⟩ := r3
                  obtain ⟨b3, c3, _⟩ := parseMpint_ok_inv a3
                  simp only [a3] at h1
                  split at h1
                  · simp at h1
                  · cases a4 : parseMpint (64 + t * 8) (kb.drop (n1 + n2 + n3)) with
                    | error e => simp [a4, bind, Except.bind] at h1
                    | ok r4 =>
                      obtain ⟨g', n4⟩ := r4
                      obtain ⟨b4, c4, _⟩ := parseMpint_ok_inv a4
                      simp only [a4, bind, Except.bind] at h1
                      cases a5 : parseMpint (64 + t * 8) (kb.drop (n1 + n2 + n3 + n4)) with
                      | error e => simp [a5] at h1
                      | ok r5 =>
                        obtain ⟨y', n5⟩ := r5
                        obtain ⟨b5, c5, _⟩ := parseMpint_ok_inv a5
                        simp only [a5, pure, Except.pure, Except.ok.injEq, Prod.mk.injEq] at h1
                        simp only [List.length_drop] at c2 c3 c4 c5
                        omega
          exact ⟨⟨hk, hok⟩, by congr 2; omega⟩
        | ec g =>
          simp only [hk] at h1
          obtain ⟨x, y, rfl, hok, hl⟩ := parseKeyEc_ok_inv h1
          have hle : n ≤ kb.length := by
            unfold parseKeyEc at h1
            cases a1 : parseMpint (groupBytes g) kb with
            | error e => simp [a1, bind, Except.bind] at h1
            | ok r1 =>
              obtain ⟨x', n1⟩ := r1
              obtain ⟨b1, c1, _⟩ := parseMpint_ok_inv a1
              simp only [a1, bind, Except.bind] at h1
              cases a2 : parseMpint (groupBytes g) (kb.drop n1) with
              | error e => simp [a2] at h1
              | ok r2 =>
                obtain ⟨y', n2⟩ := r2
                obtain ⟨b2, c2, _⟩ := parseMpint_ok_inv a2
                simp only [List.length_drop] at c2
                omega
          exact ⟨⟨hk, hok⟩, by congr 2; omega⟩
        | eddsa c =>
          simp only [hk] at h1
          obtain ⟨hc, rfl, hle⟩ := parseKeyEddsa_consumed h1
          refine ⟨⟨hk, ?_⟩, by congr 2; omega⟩
          rw [List.length_take]
          omega

theorem parseKeyN_err {code : Nat} {kb : Bytes} {e : PErr} (h : parseKeyN code kb = .error e) : Benign e := by
  unfold parseKeyN at h
  cases hk : keyKindOfCode code with
  | none =>
    simp only [hk, Except.error.injEq] at h
    subst h
    exact benign_invalidValue
  | some kind =>
    cases kind with
    | rsa => simp only [hk] at h; exact parseKeyRsa_err h
    | dsa => simp only [hk] at h; exact parseKeyDsa_err h
    | ec g => simp only [hk] at h; exact parseKeyEc_err h
    | eddsa c => simp only [hk] at h; exact parseKeyEddsa_err h

theorem parseKey_err {code : Nat} {kb : Bytes} {e : PErr} (h : parseKey code kb = .error e) : Benign e := by
  unfold parseKey at h
  cases h1 : parseKeyN code kb with
  | error e1 =>
    simp only [h1, bind, Except.bind, Except.error.injEq] at h
    subst h
    exact parseKeyN_err h1
  | ok r =>
    obtain ⟨k', n⟩ := r
    simp only [h1, bind, Except.bind] at h
    split at h
    · cases h; exact benign_tooMuch _
    · simp [pure, Except.pure] at h

theorem composeDnskey_eq_spec {k : Dnskey} (h : DnskeyOk k) :
    composeDnskey k = .ok (Spec.Dns.encodeDnskey k.toSpec) := by
  obtain ⟨sel, hsub, hfl⟩ := h.flags
  obtain ⟨_, hcf, _⟩ := dnskey_flags sel hsub []
  unfold composeDnskey
  rw [hfl, hcf, h.protocol, composeNum_spec (k := 1) (v := 3) rfl (by decide), composeCoded_eq alg_tableOk h.alg,
    composeKey_eq_spec h.key]
  simp [bind, Except.bind, pure, Except.pure, Spec.Dns.encodeDnskey, Dnskey.toSpec, hfl, h.protocol, Dnskey.algCode]

theorem parseDnskey_spec {k : Dnskey} (h : DnskeyOk k) :
    parseDnskey (Spec.Dns.encodeDnskey k.toSpec) = .ok (k, (Spec.Dns.encodeDnskey k.toSpec).length) := by
  obtain ⟨sel, hsub, hfl⟩ := h.flags
  have hcode : Gen.DnsSecAlgorithm.codes[k.algorithm]? = some k.algCode := by
    simp [Dnskey.algCode, List.getD, List.getElem?_eq_getElem h.alg]
  have hfit : k.algCode < 256 ^ 1 := alg_tableOk.fits _ (List.mem_of_getElem? hcode)
  simp only [Spec.Dns.encodeDnskey, Dnskey.toSpec, hfl, h.protocol]
  obtain ⟨_, _, hpf⟩ := dnskey_flags sel hsub (Spec.toBytesBE 1 3 ++ Spec.toBytesBE 1 k.algCode ++ keySpecBytes k.key)
  unfold parseDnskey
  have hlen : ¬ ((Spec.toBytesBE 2 (sel.map (2 ^ ·)).sum ++ Spec.toBytesBE 1 3 ++ Spec.toBytesBE 1 k.algCode ++
      keySpecBytes k.key).length < dnskeyHeaderSize) := by
    simp only [List.length_append, toBytesBE_length, dnskeyHeaderSize]
    omega
  rw [if_neg hlen]
  have hassoc : Spec.toBytesBE 2 (sel.map (2 ^ ·)).sum ++ Spec.toBytesBE 1 3 ++ Spec.toBytesBE 1 k.algCode ++
      keySpecBytes k.key = Spec.toBytesBE 2 (sel.map (2 ^ ·)).sum ++ (Spec.toBytesBE 1 3 ++ Spec.toBytesBE 1 k.algCode ++
      keySpecBytes k.key) := by simp [List.append_assoc]
  rw [hassoc, hpf]
  simp only [bind, Except.bind]
  have hd1 : (Spec.toBytesBE 2 (sel.map (2 ^ ·)).sum ++ (Spec.toBytesBE 1 3 ++ Spec.toBytesBE 1 k.algCode ++
      keySpecBytes k.key)).drop 2 = Spec.toBytesBE 1 3 ++ (Spec.toBytesBE 1 k.algCode ++ keySpecBytes k.key) := by
    have := List.drop_left (l₁ := Spec.toBytesBE 2 (sel.map (2 ^ ·)).sum)
      (l₂ := Spec.toBytesBE 1 3 ++ Spec.toBytesBE 1 k.algCode ++ keySpecBytes k.key)
    rw [toBytesBE_length] at this
    rw [this, List.append_assoc]
  have hproto : parseIntEnum protocolValues 1 (Spec.toBytesBE 1 3 ++ (Spec.toBytesBE 1 k.algCode ++ keySpecBytes k.key))
      = .ok (3, 1) := by
    unfold parseIntEnum
    rw [parseNum_spec rfl (by decide)]
    rfl
  rw [hd1, hproto]
  simp only []
  have hd2 : (Spec.toBytesBE 2 (sel.map (2 ^ ·)).sum ++ (Spec.toBytesBE 1 3 ++ Spec.toBytesBE 1 k.algCode ++
      keySpecBytes k.key)).drop (2 + 1) = Spec.toBytesBE 1 k.algCode ++ keySpecBytes k.key := by
    rw [← List.drop_drop, hd1]
    have := List.drop_left (l₁ := Spec.toBytesBE 1 3) (l₂ := Spec.toBytesBE 1 k.algCode ++ keySpecBytes k.key)
    rwa [toBytesBE_length] at this
  have halg : parseCoded Gen.DnsSecAlgorithm.codes 1 (Spec.toBytesBE 1 k.algCode ++ keySpecBytes k.key)
      = .ok (k.algorithm, 1) :=
    parseCoded_of_num (parseNum_spec rfl hfit _) (findCode_of_nodup alg_tableOk.nodup hcode)
  rw [hd2, halg]
  simp only []
  have hd3 : (Spec.toBytesBE 2 (sel.map (2 ^ ·)).sum ++ (Spec.toBytesBE 1 3 ++ Spec.toBytesBE 1 k.algCode ++
      keySpecBytes k.key)).drop (2 + 1 + 1) = keySpecBytes k.key := by
    rw [← List.drop_drop, hd2]
    have := List.drop_left (l₁ := Spec.toBytesBE 1 k.algCode) (l₂ := keySpecBytes k.key)
    rwa [toBytesBE_length] at this
  have hcodeD : Gen.DnsSecAlgorithm.codes.getD k.algorithm 0 = k.algCode := rfl
  have hkey : parseKey k.algCode (keySpecBytes k.key) = .ok k.key := parseKey_spec h.key
  have hk : (⟨sel.map (2 ^ ·), k.algorithm, k.key, 3⟩ : Dnskey) = k := by
    have hp := h.protocol
    cases k
    simp only [Dnskey.mk.injEq]
    exact ⟨hfl.symm, trivial, trivial, hp.symm⟩
  simp only [hd3, rawRest, hcodeD, hkey, pure, Except.pure, List.length_append, toBytesBE_length, hk]
  congr 2
  omega

/-- What `DnsRecordDnskey._parse` accepts: a record the library reproduces (`DnskeyOk`: known flags
only, protocol 3, a key of the algorithm's type that composes), read from ALL of the RDATA. -/
theorem parseDnskey_ok_inv {bs : Bytes} {k : Dnskey} {n : Nat} (h : parseDnskey bs = .ok (k, n)) :
    DnskeyOk k ∧ n = bs.length := by
  unfold parseDnskey at h
  split at h
  · simp at h
  · next hlen =>
    simp only [dnskeyHeaderSize] at hlen
    cases hp : parseNum .network 2 bs with
    | error e => rw [parseFlags_error _ _ _ _ _ _ hp] at h; simp [bind, Except.bind] at h
    | ok r0 =>
      obtain ⟨v, n0⟩ := r0
      have hn0 := (parseNum_ok_inv hp).1
      rw [flagCodes_eq, parseFlags_single .network 2 0 flagExps bs v n0 hp] at h
      simp only [bind, Except.bind] at h
      cases h2 : parseIntEnum protocolValues 1 (bs.drop n0) with
      | error e => simp [h2] at h
      | ok r2 =>
        obtain ⟨proto, n2⟩ := r2
        obtain ⟨hp2, hmem⟩ := parseIntEnum_ok_inv h2
        have hn2 := (parseNum_ok_inv hp2).1
        simp only [h2] at h
        cases h3 : parseCoded Gen.DnsSecAlgorithm.codes 1 (bs.drop (n0 + n2)) with
        | error e => simp [h3] at h
        | ok r3 =>
          obtain ⟨alg, n3⟩ := r3
          obtain ⟨c, hp3, hfind⟩ := parseCoded_ok_inv h3
          have hn3 := (parseNum_ok_inv hp3).1
          have hget := findCode_sound hfind
          have halg : alg < Gen.DnsSecAlgorithm.codes.length := by
            by_cases hl : alg < Gen.DnsSecAlgorithm.codes.length
            · exact hl
            · rw [List.getElem?_eq_none (by omega)] at hget; cases hget
          simp only [h3, rawRest] at h
          rw [List.getD_eq_getElem?_getD] at h
          cases h4 : parseKey (Gen.DnsSecAlgorithm.codes[alg]?.getD 0) (bs.drop (n0 + n2 + n3)) with
          | error e => simp [h4] at h
          | ok key =>
            simp only [h4, pure, Except.pure, Except.ok.injEq, Prod.mk.injEq] at h
            obtain ⟨hk, hn⟩ := h
            subst hk
            have hko := (parseKey_ok_inv h4).1
            refine ⟨⟨⟨flagExps.filter fun e => (v <<< 0).testBit e, List.filter_sublist, rfl⟩, ?_, halg, ?_⟩, ?_⟩
            · simpa [protocolValues] using hmem
            · show KeyOk (Gen.DnsSecAlgorithm.codes.getD alg 0) key
              rw [List.getD_eq_getElem?_getD]
              exact hko
            · rw [← hn, List.length_drop]
              omega

/-- `DnsRecordDnskey._parse` raises nothing but the documented parse errors (up to the model's own
boundary marker for EC coordinates in the float zone of asn1crypto's size computation) -/
theorem parseDnskey_crash {bs : Bytes} {k : String} (h : parseDnskey bs = .error (.crash k)) : k = "UNMODELLED" := by
  unfold parseDnskey at h
  split at h
  · simp at h
  · cases hp : parseNum .network 2 bs with
    | error e =>
      rw [parseFlags_error _ _ _ _ _ _ hp] at h
      simp only [bind, Except.bind, Except.error.injEq] at h
      exact parseNum_err_benign rfl hp k h
    | ok r0 =>
      obtain ⟨v, n0⟩ := r0
      rw [flagCodes_eq, parseFlags_single .network 2 0 flagExps bs v n0 hp] at h
      simp only [bind, Except.bind] at h
      cases h2 : parseIntEnum protocolValues 1 (bs.drop n0) with
      | error e =>
        simp only [h2, Except.error.injEq] at h
        subst h
        exact absurd h2 (intEnum_noCrash protocolValues (k := 1) rfl _ k)
      | ok r2 =>
        obtain ⟨proto, n2⟩ := r2
        simp only [h2] at h
        cases h3 : parseCoded Gen.DnsSecAlgorithm.codes 1 (bs.drop (n0 + n2)) with
        | error e =>
          simp only [h3, Except.error.injEq] at h
          subst h
          exact absurd h3 (codedStrict_noCrash Gen.DnsSecAlgorithm.codes (k := 1) rfl _ k)
        | ok r3 =>
          obtain ⟨alg, n3⟩ := r3
          simp only [h3, rawRest] at h
          rw [List.getD_eq_getElem?_getD] at h
          cases h4 : parseKey (Gen.DnsSecAlgorithm.codes[alg]?.getD 0) (bs.drop (n0 + n2 + n3)) with
          | error e =>
            simp only [h4, Except.error.injEq] at h
            exact parseKey_err h4 k h
          | ok key => simp [h4, pure, Except.pure] at h

/-- Every accepted DNSKEY can be composed again, and its composition parses back to the same record
with every octet consumed (C05 for `DnsRecordDnskey`). -/
theorem parseDnskey_recomposable {bs : Bytes} {k : Dnskey} {n : Nat} (h : parseDnskey bs = .ok (k, n)) :
    ∃ b, composeDnskey k = .ok b ∧ parseDnskey b = .ok (k, b.length) :=
  ⟨_, composeDnskey_eq_spec (parseDnskey_ok_inv h).1, parseDnskey_spec (parseDnskey_ok_inv h).1⟩

/-! ### canonical re-encoding: what is accepted composes back to the octets that were read -/

/-- whatever the parser accepts is composed back to exactly the octets it consumed -/
def Canonical (c : Codec α) : Prop :=
  ∀ bs v n, c.parse bs = .ok (v, n) → n ≤ bs.length ∧ c.compose v = .ok (bs.take n)

/-- … for a class that reads to the end of its input (RDATA is delimited by RDLENGTH): all of the
input is consumed and composed back -/
def CanonicalExact (c : Codec α) : Prop :=
  ∀ bs v n, c.parse bs = .ok (v, n) → n = bs.length ∧ c.compose v = .ok bs

theorem num_canonical (k : Nat) : Canonical (num .network k) := by
  intro bs v n h
  obtain ⟨hn, hk, hv, henc, hvs⟩ := parseNum_ok_inv (show parseNum .network k bs = .ok (v, n) from h)
  rw [hn]
  exact ⟨hk, by show composeNum .network k (v : Int) = _; rw [composeNum_ok hvs hv, henc]⟩

theorem codedStrict_canonical (codes : List Nat) (k : Nat) : Canonical (codedStrict codes k) := by
  intro bs i n h
  obtain ⟨c, hp, hf⟩ := parseCoded_ok_inv (show parseCoded codes k bs = .ok (i, n) from h)
  obtain ⟨hn, hk, hv, henc, hvs⟩ := parseNum_ok_inv hp
  rw [hn]
  refine ⟨hk, ?_⟩
  show composeCoded codes k i = _
  simp only [composeCoded, findCode_sound hf]
  rw [composeNum_ok hvs hv, henc]

theorem rawRest_canonicalExact : CanonicalExact rawRest := by
  intro bs v n h
  simp only [rawRest, Except.ok.injEq, Prod.mk.injEq] at h
  obtain ⟨hv, hn⟩ := h
  subst hv
  exact ⟨hn.symm, rfl⟩

theorem seq_canonical {a : Codec α} {b : Codec β} (ha : Canonical a) (hb : Canonical b) : Canonical (seq a b) := by
  intro bs ⟨x, y⟩ t h
  obtain ⟨n, m, h1, h2, ht⟩ := seq_parse_ok_inv h
  obtain ⟨hn, hca⟩ := ha _ _ _ h1
  obtain ⟨hm, hcb⟩ := hb _ _ _ h2
  simp only [List.length_drop] at hm
  subst ht
  refine ⟨by omega, ?_⟩
  simp only [seq, hca, hcb, bind, Except.bind, pure, Except.pure]
  rw [List.take_add]

theorem seq_canonicalExact {a : Codec α} {b : Codec β} (ha : Canonical a) (hb : CanonicalExact b) :
    CanonicalExact (seq a b) := by
  intro bs ⟨x, y⟩ t h
  obtain ⟨n, m, h1, h2, ht⟩ := seq_parse_ok_inv h
  obtain ⟨hn, hca⟩ := ha _ _ _ h1
  obtain ⟨hm, hcb⟩ := hb _ _ _ h2
  simp only [List.length_drop] at hm
  subst ht
  refine ⟨by omega, ?_⟩
  simp only [seq, hca, hcb, bind, Except.bind, pure, Except.pure, List.take_append_drop]

theorem mapE_canonical {c : Codec α} {f : α → Except PErr β} {g : β → α} (hc : Canonical c)
    (hfg : ∀ x y, f x = .ok y → g y = x) : Canonical (mapE c f g) := by
  intro bs y n h
  obtain ⟨x, hp, hf⟩ := mapE_parse_ok_inv h
  obtain ⟨hn, hcc⟩ := hc _ _ _ hp
  exact ⟨hn, by show c.compose (g y) = _; rw [hfg x y hf, hcc]⟩

theorem mapE_canonicalExact {c : Codec α} {f : α → Except PErr β} {g : β → α} (hc : CanonicalExact c)
    (hfg : ∀ x y, f x = .ok y → g y = x) : CanonicalExact (mapE c f g) := by
  intro bs y n h
  obtain ⟨x, hp, hf⟩ := mapE_parse_ok_inv h
  obtain ⟨hn, hcc⟩ := hc _ _ _ hp
  exact ⟨hn, by show c.compose (g y) = _; rw [hfg x y hf, hcc]⟩

theorem minSize_canonical {c : Codec α} {k : Nat} (hc : Canonical c) : Canonical (minSize k c) :=
  fun bs v n h => hc bs v n (minSize_parse_ok_inv h).1

theorem minSize_canonicalExact {c : Codec α} {k : Nat} (hc : CanonicalExact c) : CanonicalExact (minSize k c) :=
  fun bs v n h => hc bs v n (minSize_parse_ok_inv h).1

/-- a name that is accepted composes back to the octets that were read -/
theorem name_canonical : Canonical nameCodec := by
  intro bs ls n h
  obtain ⟨h1, _, h3, h4⟩ := parseName_ok_inv (show parseName bs = .ok (ls, n) from h)
  exact ⟨h1, by show composeName ls = _; rw [composeName_ok h4, h3]⟩

theorem typeCovered_canonical : Canonical typeCoveredCodec := by
  intro bs t n h
  simp only [typeCoveredCodec, parseTypeCovered, orElseInvalid] at h
  cases h1 : parseCoded Gen.DnsRrType.codes 2 bs with
  | ok r =>
    obtain ⟨i, m⟩ := r
    simp only [h1, Except.map, Except.ok.injEq, Prod.mk.injEq] at h
    obtain ⟨ht, hn⟩ := h
    subst ht; subst hn
    exact codedStrict_canonical Gen.DnsRrType.codes 2 bs i m h1
  | error e =>
    cases e with
    | invalidValue =>
      simp only [h1, Except.map] at h
      unfold parsePrivateType at h
      cases h2 : parseNum .network 2 bs with
      | error e2 => simp [h2, bind, Except.bind] at h
      | ok r2 =>
        obtain ⟨v, m⟩ := r2
        simp only [h2, bind, Except.bind] at h
        by_cases hlo : v < privateTypeMin
        · simp [hlo] at h
        · by_cases hhi : v > privateTypeMax
          · simp [hlo, hhi] at h
          · simp only [hlo, hhi, if_false, pure, Except.pure, Except.ok.injEq, Prod.mk.injEq] at h
            obtain ⟨ht, hn⟩ := h
            subst ht; subst hn
            exact num_canonical 2 bs v m h2
    | crash c => simp [h1, Except.map] at h
    | notEnough m => simp [h1, Except.map] at h
    | tooMuch m => simp [h1, Except.map] at h
    | invalidType => simp [h1, Except.map] at h

theorem instant_canonical : Canonical instantCodec := by rw [instantCodec_eq]; exact num_canonical 4

/-- `DnsRecordMx`: what is accepted composes back to the octets read -/
theorem mx_canonical : Canonical mxCodec := by
  apply minSize_canonical
  apply mapE_canonical (seq_canonical (num_canonical 2) name_canonical)
  intro x y h
  cases h
  rfl

/-- `DnsRecordDs`: all of the RDATA is read and composed back -/
theorem ds_canonicalExact : CanonicalExact dsCodec := by
  apply minSize_canonicalExact
  apply mapE_canonicalExact
    (seq_canonicalExact (num_canonical 2) (seq_canonicalExact (codedStrict_canonical _ 1)
      (seq_canonicalExact (codedStrict_canonical _ 1) rawRest_canonicalExact)))
  intro x y h
  cases h
  rfl

/-- `DnsRecordRrsig`: all of the RDATA is read and composed back -/
theorem rrsig_canonicalExact : CanonicalExact rrsigCodec := by
  apply minSize_canonicalExact
  apply mapE_canonicalExact
    (seq_canonicalExact typeCovered_canonical (seq_canonicalExact (codedStrict_canonical _ 1)
      (seq_canonicalExact (num_canonical 1) (seq_canonicalExact (num_canonical 4)
        (seq_canonicalExact instant_canonical (seq_canonicalExact instant_canonical
          (seq_canonicalExact (num_canonical 2) (seq_canonicalExact name_canonical rawRest_canonicalExact))))))))
  intro x y h
  simp only [rrsigOfTuple, Except.ok.injEq] at h
  subst h
  rfl

/-- what the RRSIG parser accepts has a signer's name within the limits of RFC 1035 §2.3.4 -/
theorem parseRrsig_name_ok {bs : Bytes} {r : Rrsig} {n : Nat} (h : parseRrsig bs = .ok (r, n)) :
    NameOk r.signersName := by
  obtain ⟨hp, _⟩ := minSize_parse_ok_inv (show (minSize rrsigHeaderSize _).parse bs = .ok (r, n) from h)
  obtain ⟨x, hx, hf⟩ := mapE_parse_ok_inv hp
  simp only [rrsigOfTuple, Except.ok.injEq] at hf
  subst hf
  obtain ⟨x1, x2, x3, x4, x5, x6, x7, x8, x9⟩ := x
  obtain ⟨_, _, _, h2, _⟩ := seq_parse_ok_inv hx
  obtain ⟨_, _, _, h3, _⟩ := seq_parse_ok_inv h2
  obtain ⟨_, _, _, h4, _⟩ := seq_parse_ok_inv h3
  obtain ⟨_, _, _, h5, _⟩ := seq_parse_ok_inv h4
  obtain ⟨_, _, _, h6, _⟩ := seq_parse_ok_inv h5
  obtain ⟨_, _, _, h7, _⟩ := seq_parse_ok_inv h6
  obtain ⟨_, _, _, h8, _⟩ := seq_parse_ok_inv h7
  obtain ⟨_, _, h9, _, _⟩ := seq_parse_ok_inv h8
  exact (parseName_ok_inv (show parseName _ = .ok (x8, _) from h9)).2.2.2

/-! ### key tag of a record -/

/-- the fold of RFC 4034 Appendix B applied to an accumulated sum -/
def foldTag (ac : Nat) : Nat := (ac + ((ac >>> 16) &&& 0xFFFF)) &&& 0xFFFF

theorem spec_keyTag_eq (rd : Bytes) : Spec.Dns.keyTag rd = foldTag (Spec.Dns.keyTagAcc 0 rd 0) := rfl

theorem keyTag_of_compose {k : Dnskey} {rd : Bytes} (h1 : k.algCode ≠ algRsaMd5) (hc : composeDnskey k = .ok rd) :
    keyTag k = .ok (foldTag (keyTagSum rd 0)) := by
  unfold keyTag
  have : (k.algCode == algRsaMd5) = false := by simpa using h1
  simp only [this, Bool.false_eq_true, if_false, hc, bind, Except.bind, pure, Except.pure]
  rfl

theorem keyTag_rsamd5_eq {k : Dnskey} {e m : Nat} (h1 : k.algCode = algRsaMd5) (hk : k.key = .rsa e m) :
    keyTag k = .ok (Spec.Dns.keyTagAlg1 (Spec.minBytesBE m)) := by
  unfold keyTag
  have : (k.algCode == algRsaMd5) = true := by simpa using h1
  simp only [this, if_true, hk]
  have hv : Spec.fromBytesBE (Spec.minBytesBE m) = m := natOfBE_minBytesBE m
  have hmask : (0xffffff : Nat) = 2 ^ 24 - 1 := by decide
  rw [Spec.Dns.keyTagAlg1, hv, hmask, Nat.and_two_pow_sub_one_eq_mod, Nat.shiftRight_eq_div_pow]

theorem not_pow256_of_odd {m : Nat} (h1 : m % 2 = 1) (h2 : 1 < m) : ∀ k, m ≠ 256 ^ k := by
  intro k hk
  cases k with
  | zero => simp at hk; omega
  | succ k =>
    rw [Nat.pow_succ] at hk
    omega

/-- bridge to the specification's name predicate -/
theorem nameWf_of_labelOk {labels : List Bytes} (h : ∀ l ∈ labels, LabelOk l)
    (hlen : (Spec.Dns.encodeName labels).length ≤ 255) : Spec.Dns.NameWf labels :=
  ⟨fun l hl => ⟨(h l hl).1, (h l hl).2.1⟩, hlen⟩

end Cp.Dns
