import CpProofs.Tls2
import CpProofs.Vector
/-
  The part of the hello-message laws that the per-extension laws (CpProofs/Ext2.lean) and the
  hello messages (CpProofs/Hello.lean) share: the `Vector` of fixed-width numbers,
  `TlsHandshakeCertificate`, the error classes of the primitives and of the item loop, the
  obligations on the regenerated tables.  (Split off CpProofs/Hello.lean; the names are unchanged.)
-/

namespace Cp.Hello
open Cp Cp.Codec

/-! ### `Vector` of fixed-width numbers (`parseVecNum` / `composeVecNum`) -/

theorem validSize_pos {k : Nat} (hk : validSize k = true) : 0 < k := by
  cases k with
  | zero => simp [validSize] at hk
  | succ k => omega

theorem mapM_ok_id (xs : List Nat) : xs.mapM (fun x => (Except.ok x : Except PErr Nat)) = .ok xs := by
  induction xs with
  | nil => rfl
  | cons x xs ih => simp [List.mapM_cons, ih, bind, Except.bind, pure, Except.pure]

/-- the body of a numeric vector: the items one after the other -/
def encNums (bo : ByteOrder) (k : Nat) : List Nat → Bytes
  | [] => []
  | x :: xs => encNat bo k x ++ encNums bo k xs

theorem encNums_length (bo : ByteOrder) (k : Nat) (xs : List Nat) :
    (encNums bo k xs).length = xs.length * k := by
  induction xs with
  | nil => simp [encNums]
  | cons x xs ih => simp [encNums, ih, Nat.add_mul]; omega

theorem composeNumArray_ok {bo : ByteOrder} {k : Nat} (hk : validSize k = true) (xs : List Nat)
    (hx : ∀ x ∈ xs, x < 256 ^ k) :
    composeNumArray bo k (xs.map Int.ofNat) = .ok (encNums bo k xs) := by
  induction xs with
  | nil => rfl
  | cons x xs ih =>
    have h1 : composeNum bo k (Int.ofNat x) = .ok (encNat bo k x) :=
      composeNum_ok hk (hx x (List.mem_cons_self ..))
    simp only [List.map_cons, composeNumArray, h1, ih (fun y hy => hx y (List.mem_cons_of_mem _ hy)),
      bind, Except.bind, pure, Except.pure, encNums]

theorem numItems_encNums {bo : ByteOrder} {k : Nat} (xs : List Nat) (hx : ∀ x ∈ xs, x < 256 ^ k)
    (s : Bytes) : numItems bo k xs.length (encNums bo k xs ++ s) = xs := by
  induction xs with
  | nil => rfl
  | cons x xs ih =>
    have htake : (encNat bo k x ++ encNums bo k xs ++ s).take k = encNat bo k x := by
      rw [List.append_assoc, List.take_append_of_le_length (by simp)]
      exact List.take_of_length_le (by simp)
    have hdrop : (encNat bo k x ++ encNums bo k xs ++ s).drop k = encNums bo k xs ++ s := by
      rw [List.append_assoc, List.drop_append_of_le_length (by simp)]
      rw [List.drop_of_length_le (by simp)]; rfl
    simp only [List.length_cons, numItems, encNums, htake, hdrop,
      decNat_encNat_of_lt bo k x (hx x (List.mem_cons_self ..)),
      ih (fun y hy => hx y (List.mem_cons_of_mem _ hy))]

/-- C01 for `Vector` (fixed-width numeric items, e.g. the session id): every item width the
primitives support, every list of items that fit the width, inside the vector's bounds. -/
theorem parseVecNum_roundTrip {p : VecParam} {k : Nat} (hk : validSize k = true)
    (hn : validSize p.numSize = true) (hmax : p.max < 256 ^ p.numSize) (xs : List Nat)
    (hx : ∀ x ∈ xs, x < 256 ^ k) (hmin : p.min ≤ xs.length * k) (hle : xs.length * k ≤ p.max) :
    ∃ b, composeVecNum p k xs = .ok b ∧ b.length = p.numSize + xs.length * k ∧
      ∀ s, parseVecNum p k (fun x => .ok x) (b ++ s) = .ok (xs, b.length) := by
  have hfit : xs.length * k < 256 ^ p.numSize := by omega
  have hk0 := validSize_pos hk
  refine ⟨encNat .network p.numSize (xs.length * k) ++ encNums .network k xs, ?_, ?_, ?_⟩
  · simp only [composeVecNum, composeNum_ok hn hfit, composeNumArray_ok hk xs hx, bind, Except.bind,
      pure, Except.pure]
  · simp [encNums_length]
  · intro s
    unfold parseVecNum
    rw [List.append_assoc, parseNum_enc hn hfit]
    simp only [bind, Except.bind]
    have hdrop : (encNat .network p.numSize (xs.length * k) ++ (encNums .network k xs ++ s)).drop p.numSize
        = encNums .network k xs ++ s := by
      rw [List.drop_append_of_le_length (by simp)]
      rw [List.drop_of_length_le (by simp)]; rfl
    have hcnt : xs.length * k / k = xs.length := Nat.mul_div_cancel _ hk0
    rw [hdrop, hcnt]
    have hlen : ¬ ((encNums .network k xs ++ s).length < xs.length * k) := by
      simp [encNums_length]
    have hvs : (!validSize k) = false := by simp [hk]
    simp only [parseNumArray, hlen, if_false, hvs, Bool.false_eq_true, numItems_encNums xs hx s,
      mapM_ok_id, checkBounds_ok hmin hle, pure, Except.pure]
    simp only [List.length_append, encNat_length, encNums_length]

end Cp.Hello

namespace Cp.Tls
open Cp Cp.Codec Cp.Hello

/-! ### `TlsHandshakeCertificate` -/

/-- the encoded size of a certificate list: three length bytes and the DER bytes per entry -/
def certsSize : List Bytes → Nat
  | [] => 0
  | c :: cs => 3 + c.length + certsSize cs

/-- the certificate lists a caller can put into a `TlsHandshakeCertificate`: every certificate
fits its 3-byte length, the list fits the vector bounds of `TlsCertificates`, and the vector with
its own length prefix fits the 24-bit handshake length -/
structure CertificatesWf (certs : List Bytes) : Prop where
  each : ∀ c ∈ certs, c.length < 256 ^ 3
  lower : certificatesParam.min ≤ certsSize certs
  upper : certsSize certs ≤ certificatesParam.max
  payload : certificatesParam.numSize + certsSize certs < 256 ^ 3

theorem certificatesParam_ok :
    validSize certificatesParam.numSize = true ∧ certificatesParam.max < 256 ^ certificatesParam.numSize := by
  decide +kernel

theorem cert_itemRT (c : Bytes) (hc : c.length < 256 ^ 3) :
    ItemRT (parseBytes .network 3) (composeBytes .network 3) c := by
  refine ⟨encNat .network 3 c.length ++ c, composeBytes_ok rfl c hc, by simp; omega, ?_⟩
  intro s
  rw [parseBytes_append rfl c s hc]
  simp

theorem composeItems_certs (certs : List Bytes) (h : ∀ c ∈ certs, c.length < 256 ^ 3) :
    ∃ body, composeItems (composeBytes .network 3) certs = .ok body ∧ body.length = certsSize certs := by
  induction certs with
  | nil => exact ⟨[], rfl, rfl⟩
  | cons c cs ih =>
    obtain ⟨r, hr, hrl⟩ := ih (fun y hy => h y (List.mem_cons_of_mem _ hy))
    refine ⟨encNat .network 3 c.length ++ c ++ r, ?_, ?_⟩
    · simp only [composeItems, composeBytes_ok rfl c (h c (List.mem_cons_self ..)), hr, bind, Except.bind,
        pure, Except.pure]
    · simp only [List.length_append, encNat_length, hrl, certsSize]

theorem certificates_roundTrip : RoundTrip certificatesCodec CertificatesWf := by
  intro certs hw
  obtain ⟨body, hbody, hbl⟩ := composeItems_certs certs hw.each
  obtain ⟨hk, hmax⟩ := certificatesParam_ok
  refine ⟨encNat .network certificatesParam.numSize body.length ++ body, ?_, ?_⟩
  · exact (parseVecItems_roundTrip hk hmax certs (fun c hc => cert_itemRT c (hw.each c hc)) body hbody
      (by rw [hbl]; exact hw.lower) (by rw [hbl]; exact hw.upper) []).1
  · intro s
    have := (parseVecItems_roundTrip hk hmax certs (fun c hc => cert_itemRT c (hw.each c hc)) body hbody
      (by rw [hbl]; exact hw.lower) (by rw [hbl]; exact hw.upper) s).2
    simp only [certificatesCodec, this, List.length_append, encNat_length]

theorem certificate_roundTrip : RoundTrip certificateCodec CertificatesWf := by
  apply hs_roundTrip hsMember_11
  intro certs hw
  obtain ⟨p, hp, hpp⟩ := certificates_roundTrip certs hw
  have hpe := hpp []
  rw [List.append_nil] at hpe
  refine ⟨p, hp, ?_, p.length, hpe⟩
  -- the payload is the vector's prefix and the entries
  obtain ⟨body, hbody, hbl⟩ := composeItems_certs certs hw.each
  obtain ⟨hk, hmax⟩ := certificatesParam_ok
  have hc := (parseVecItems_roundTrip hk hmax certs (fun c hc => cert_itemRT c (hw.each c hc)) body hbody
      (by rw [hbl]; exact hw.lower) (by rw [hbl]; exact hw.upper) []).1
  have hp' : composeVecItems certificatesParam (composeBytes .network 3) certs = .ok p := hp
  rw [hc] at hp'
  cases hp'
  simp only [List.length_append, encNat_length, hbl]
  exact hw.payload


/-! ### hello extensions: which class of the variant list handles a type code -/

/-- the class `VariantParsable._parse` ends up in for an extension of (known) type `t` and declared
length `len`: the first entry that is `TlsExtensionUnparsed` (accepts every type) or is registered
for `t` and does not decline the length with `InvalidType` (`ExtKind.declines`: the two-byte
HelloRetryRequest form of `key_share` is tried before the ServerHello form) -/
def resolve : List (String × Nat) → Nat → Nat → Option String
  | [], _, _ => none
  | (cls, code) :: more, t, len =>
    if cls == "TlsExtensionUnparsed" then some cls
    else if code != t then resolve more t len
    else
      match extKindOf cls with
      | some kind => if kind.declines len then resolve more t len else some cls
      | none => some cls

/-- what the class `cls` does with an extension whose header (type `t`, length `len`) was read -/
def classParse (t len : Nat) (bs : Bytes) (cls : String) : Except PErr (Ext × Nat) :=
  if cls == "TlsExtensionUnparsed" then parseExtUnparsed bs
  else
    match extKindOf cls with
    | none => .error unmodelled
    | some kind =>
      match parseExtBody kind len ((bs.drop 4).take len) with
      | .ok (body, m) => .ok (⟨cls, t, body⟩, 4 + m)
      | .error e => .error e

end Cp.Tls

namespace Cp.Hello
open Cp Cp.Codec

/-! ### the error classes of the primitives

`Benign e`: one of the documented parse errors that a class in the middle of a variant may raise
without ending the variant walk in a different class (`InvalidType` does that) and without being
a crash. -/

/-- the two size errors -/
def SizeErr (e : PErr) : Prop := (∃ n, e = .notEnough n) ∨ (∃ n, e = .tooMuch n)

def Benign (e : PErr) : Prop := SizeErr e ∨ e = .invalidValue

/-- an error class that contains the size errors (what the vector machinery itself can raise) -/
structure HasSizeErrs (P : PErr → Prop) : Prop where
  notEnough : ∀ n, P (.notEnough n)
  tooMuch : ∀ n, P (.tooMuch n)

theorem SizeErr.hasSizeErrs : HasSizeErrs SizeErr := ⟨fun n => .inl ⟨n, rfl⟩, fun n => .inr ⟨n, rfl⟩⟩
theorem Benign.hasSizeErrs : HasSizeErrs Benign :=
  ⟨fun n => .inl (.inl ⟨n, rfl⟩), fun n => .inl (.inr ⟨n, rfl⟩)⟩

theorem SizeErr.of {P : PErr → Prop} (hP : HasSizeErrs P) {e : PErr} (h : SizeErr e) : P e := by
  rcases h with ⟨n, rfl⟩ | ⟨n, rfl⟩
  · exact hP.notEnough n
  · exact hP.tooMuch n

theorem SizeErr.benign {e : PErr} (h : SizeErr e) : Benign e := .inl h

theorem SizeErr.ne_invalidValue {e : PErr} (h : SizeErr e) : e ≠ .invalidValue := by
  rcases h with ⟨n, rfl⟩ | ⟨n, rfl⟩ <;> simp

theorem Benign.not_crash {e : PErr} (h : Benign e) (k : String) : e ≠ .crash k := by
  rcases h with (⟨n, rfl⟩ | ⟨n, rfl⟩) | rfl <;> simp

theorem Benign.not_invalidType {e : PErr} (h : Benign e) : e ≠ .invalidType := by
  rcases h with (⟨n, rfl⟩ | ⟨n, rfl⟩) | rfl <;> simp

theorem parseNum_sizeErr {bo : ByteOrder} {k : Nat} (hk : validSize k = true) {rest : Bytes} {e : PErr}
    (h : parseNum bo k rest = .error e) : SizeErr e :=
  .inl ⟨_, (parseNum_err_inv hk h).2⟩

theorem parseNum_benign {bo : ByteOrder} {k : Nat} (hk : validSize k = true) {rest : Bytes} {e : PErr}
    (h : parseNum bo k rest = .error e) : Benign e := (parseNum_sizeErr hk h).benign

theorem parseRaw_nat_sizeErr {n : Nat} {rest : Bytes} {e : PErr} (h : parseRaw (n : Int) rest = .error e) :
    SizeErr e := by
  unfold parseRaw at h
  split at h
  · omega
  · split at h
    · cases h; exact .inl ⟨_, rfl⟩
    · cases h

theorem parseRaw_benign {size : Int} {rest : Bytes} {e : PErr} (h : parseRaw size rest = .error e) :
    Benign e := by
  unfold parseRaw at h
  split at h
  · cases h; exact .inr rfl
  · split at h
    · cases h; exact .inl (.inl ⟨_, rfl⟩)
    · cases h

theorem checkBounds_sizeErr {p : VecParam} {n : Nat} {e : PErr} (h : checkBounds p n = .error e) :
    SizeErr e := by
  unfold checkBounds at h
  split at h
  · cases h; exact .inl ⟨_, rfl⟩
  · split at h
    · cases h; exact .inr ⟨_, rfl⟩
    · cases h

theorem parseCoded_benign {codes : List Nat} {k : Nat} (hk : validSize k = true) {bs : Bytes} {e : PErr}
    (h : parseCoded codes k bs = .error e) : Benign e := by
  unfold parseCoded at h
  cases hp : parseNum .network k bs with
  | error e' =>
    simp only [hp, bind, Except.bind] at h
    cases h
    exact parseNum_benign hk hp
  | ok r =>
    obtain ⟨c, n⟩ := r
    simp only [hp, bind, Except.bind] at h
    cases hf : findCode c codes with
    | none => simp only [hf] at h; cases h; exact .inr rfl
    | some i => simp [hf, pure, Except.pure] at h

theorem parseCodedOrFallback_sizeErr {codes : List Nat} {k : Nat} (hk : validSize k = true) {bs : Bytes}
    {e : PErr} (h : parseCodedOrFallback codes k bs = .error e) : SizeErr e := by
  unfold parseCodedOrFallback at h
  split at h
  · cases h
  · unfold parseInvalidType at h
    split at h
    · cases h
    · next e' hp => cases h; exact parseNum_sizeErr hk hp
  · next e' hne hp =>
    cases h
    rcases parseCoded_benign hk hp with hs | hiv
    · exact hs
    · exact absurd hiv hne

theorem parseCodedOrFallback_ok_inv {codes : List Nat} {k : Nat} {bs : Bytes} {v : Coded} {n : Nat}
    (h : parseCodedOrFallback codes k bs = .ok (v, n)) :
    ∃ c, parseNum .network k bs = .ok (c, n) ∧
      ((∃ i, v = .known i ∧ findCode c codes = some i) ∨ (v = .unknown c ∧ findCode c codes = none)) := by
  unfold parseCodedOrFallback at h
  split at h
  · next i m hp =>
    cases h
    obtain ⟨c, hc, hf⟩ := parseCoded_ok_inv hp
    exact ⟨c, hc, .inl ⟨i, rfl, hf⟩⟩
  · next hp =>
    unfold parseInvalidType at h
    split at h
    · next c m hn =>
      cases h
      refine ⟨c, hn, .inr ⟨rfl, ?_⟩⟩
      unfold parseCoded at hp
      simp only [hn, bind, Except.bind] at hp
      cases hf : findCode c codes with
      | none => rfl
      | some i => simp [hf, pure, Except.pure] at hp
    · cases h
  · cases h

theorem parseCodedOrFallback_wf {codes : List Nat} {k : Nat} {bs : Bytes} {v : Coded} {n : Nat}
    (h : parseCodedOrFallback codes k bs = .ok (v, n)) : CodedWf codes k v ∧ n = k ∧ validSize k = true := by
  obtain ⟨c, hn, hv⟩ := parseCodedOrFallback_ok_inv h
  obtain ⟨h1, _, h3, _, h5⟩ := parseNum_ok_inv hn
  refine ⟨?_, h1, h5⟩
  rcases hv with ⟨i, rfl, hf⟩ | ⟨rfl, hf⟩
  · exact findCode_lt hf
  · exact ⟨h3, findCode_none hf⟩

variable {α : Type}

/-- how the item loop can fail: with an item's error, or with the modelled non-termination — and
the latter only when the fuel does not cover the slice or an item consumed nothing -/
theorem parseItems_err_inv {item : Bytes → Except PErr (α × Nat)} {fuel : Nat} {b : Bytes} {e : PErr}
    (h : parseItems item fuel b = .error e) :
    (∃ b', item b' = .error e) ∨
      (e = .crash "NonTermination" ∧ (fuel < b.length ∨ ∃ b' x, item b' = .ok (x, 0))) := by
  induction fuel generalizing b with
  | zero =>
    simp only [parseItems] at h
    split at h
    · cases h
    · next hb =>
      cases h
      refine .inr ⟨rfl, .inl ?_⟩
      cases b with
      | nil => simp at hb
      | cons _ _ => simp
  | succ fuel ih =>
    simp only [parseItems] at h
    split at h
    · cases h
    · split at h
      · next e' he => cases h; exact .inl ⟨b, he⟩
      · next x n hx =>
        split at h
        · next hn =>
          cases h
          have : n = 0 := by simpa using hn
          subst this
          exact .inr ⟨rfl, .inr ⟨b, x, hx⟩⟩
        · next hn =>
          have hn' : n ≠ 0 := by simpa using hn
          cases hr : parseItems item fuel (b.drop n) with
          | ok r => simp [hr, Except.map] at h
          | error e' =>
            simp only [hr, Except.map] at h
            cases h
            rcases ih hr with hl | ⟨he, hlt | hz⟩
            · exact .inl hl
            · refine .inr ⟨he, .inl ?_⟩
              simp only [List.length_drop] at hlt
              omega
            · exact .inr ⟨he, .inr hz⟩

theorem parseItems_errP {P : PErr → Prop} {item : Bytes → Except PErr (α × Nat)}
    (hb : ∀ b e, item b = .error e → P e) (hpos : ∀ b x n, item b = .ok (x, n) → 0 < n)
    {fuel : Nat} {b : Bytes} {e : PErr} (hf : b.length ≤ fuel) (h : parseItems item fuel b = .error e) :
    P e := by
  rcases parseItems_err_inv h with ⟨b', hb'⟩ | ⟨_, hlt | ⟨b', x, hx⟩⟩
  · exact hb _ _ hb'
  · omega
  · exact absurd (hpos _ _ _ hx) (by omega)

/-- every item of a parsed slice was produced by the item parser -/
theorem parseItems_ok_forall {item : Bytes → Except PErr (α × Nat)} {fuel : Nat} {b : Bytes} {xs : List α}
    (h : parseItems item fuel b = .ok xs) : ∀ x ∈ xs, ∃ b' n, item b' = .ok (x, n) := by
  induction fuel generalizing b xs with
  | zero =>
    simp only [parseItems] at h
    split at h
    · cases h; simp
    · cases h
  | succ fuel ih =>
    simp only [parseItems] at h
    split at h
    · cases h; simp
    · split at h
      · cases h
      · next x n hx =>
        split at h
        · cases h
        · cases hr : parseItems item fuel (b.drop n) with
          | error e' => simp [hr, Except.map] at h
          | ok r =>
            simp only [hr, Except.map] at h
            cases h
            intro y hy
            rcases List.mem_cons.mp hy with rfl | hy
            · exact ⟨b, n, hx⟩
            · exact ih hr y hy

theorem sumSizes_err_inv {sizeOf : α → Except PErr Nat} {xs : List α} {e : PErr}
    (h : sumSizes sizeOf xs = .error e) : ∃ x ∈ xs, sizeOf x = .error e := by
  induction xs with
  | nil => simp [sumSizes] at h
  | cons x xs ih =>
    simp only [sumSizes] at h
    cases hx : sizeOf x with
    | error e' =>
      simp only [hx, bind, Except.bind] at h
      cases h
      exact ⟨x, List.mem_cons_self .., hx⟩
    | ok a =>
      simp only [hx, bind, Except.bind] at h
      cases hr : sumSizes sizeOf xs with
      | error e' =>
        simp only [hr] at h
        cases h
        obtain ⟨y, hy, hye⟩ := ih hr
        exact ⟨y, List.mem_cons_of_mem _ hy, hye⟩
      | ok r => simp [hr, pure, Except.pure] at h

/-- a successful vector parse, taken apart -/
theorem parseVecItems_ok_inv {p : VecParam} {item : Bytes → Except PErr (α × Nat)}
    {sizeOf : α → Except PErr Nat} {bs : Bytes} {xs : List α} {t : Nat}
    (h : parseVecItems p item sizeOf bs = .ok (xs, t)) :
    ∃ len sz, parseNum .network p.numSize bs = .ok (len, p.numSize) ∧ len ≤ (bs.drop p.numSize).length ∧
      parseItems item len ((bs.drop p.numSize).take len) = .ok xs ∧ sumSizes sizeOf xs = .ok sz ∧
      p.min ≤ sz ∧ sz ≤ p.max ∧ t = p.numSize + len := by
  unfold parseVecItems at h
  cases hp : parseNum .network p.numSize bs with
  | error e => simp [hp, bind, Except.bind] at h
  | ok r =>
    obtain ⟨len, n⟩ := r
    have hn := (parseNum_ok_inv hp).1
    subst n
    simp only [hp, bind, Except.bind] at h
    split at h
    · cases h
    · next hlen =>
      cases hi : parseItems item len ((bs.drop p.numSize).take len) with
      | error e => simp [hi] at h
      | ok items =>
        simp only [hi] at h
        cases hs : sumSizes sizeOf items with
        | error e => simp [hs] at h
        | ok sz =>
          simp only [hs] at h
          cases hc : checkBounds p sz with
          | error e => simp [hc] at h
          | ok u =>
            simp only [hc, pure, Except.pure] at h
            cases h
            obtain ⟨h1, h2⟩ := checkBounds_ok_inv hc
            exact ⟨len, sz, rfl, by omega, hi, hs, h1, h2, rfl⟩

theorem parseVecItems_errP {P : PErr → Prop} (hP : HasSizeErrs P) {p : VecParam}
    {item : Bytes → Except PErr (α × Nat)}
    {sizeOf : α → Except PErr Nat} (hk : validSize p.numSize = true)
    (hb : ∀ b e, item b = .error e → P e) (hpos : ∀ b x n, item b = .ok (x, n) → 0 < n)
    (hs : ∀ x e, (∃ b n, item b = .ok (x, n)) → sizeOf x = .error e → P e)
    {bs : Bytes} {e : PErr} (h : parseVecItems p item sizeOf bs = .error e) : P e := by
  unfold parseVecItems at h
  cases hp : parseNum .network p.numSize bs with
  | error e' =>
    simp only [hp, bind, Except.bind] at h
    cases h
    exact (parseNum_sizeErr hk hp).of hP
  | ok r =>
    obtain ⟨len, n⟩ := r
    simp only [hp, bind, Except.bind] at h
    split at h
    · cases h; exact hP.notEnough _
    · next hlen =>
      cases hi : parseItems item len ((bs.drop n).take len) with
      | error e' =>
        simp only [hi] at h
        cases h
        exact parseItems_errP hb hpos (by simp; omega) hi
      | ok items =>
        simp only [hi] at h
        cases hss : sumSizes sizeOf items with
        | error e' =>
          simp only [hss] at h
          cases h
          obtain ⟨x, hxm, hx⟩ := sumSizes_err_inv hss
          exact hs x _ (parseItems_ok_forall hi x hxm) hx
        | ok sz =>
          simp only [hss] at h
          cases hc : checkBounds p sz with
          | error e' =>
            simp only [hc] at h
            cases h
            exact (checkBounds_sizeErr hc).of hP
          | ok u => simp [hc, pure, Except.pure] at h

theorem parseVecCoded_sizeErr {p : VecParam} {codes : List Nat} {k : Nat} (hn : validSize p.numSize = true)
    (hk : validSize k = true) {bs : Bytes} {e : PErr} (h : parseVecCoded p codes k bs = .error e) :
    SizeErr e :=
  parseVecItems_errP SizeErr.hasSizeErrs hn (fun _ _ h => parseCodedOrFallback_sizeErr hk h)
    (fun _ _ _ h => by have := (parseCodedOrFallback_wf h).2.1; have := validSize_pos hk; omega)
    (fun _ _ _ h => by cases h) h

/-- what a coded vector parser accepts: canonical items, inside the vector's bounds -/
theorem parseVecCoded_ok_inv {p : VecParam} {codes : List Nat} {k : Nat} {bs : Bytes} {xs : List Coded}
    {t : Nat} (h : parseVecCoded p codes k bs = .ok (xs, t)) :
    (∀ x ∈ xs, CodedWf codes k x) ∧ p.min ≤ xs.length * k ∧ xs.length * k ≤ p.max ∧
      validSize p.numSize = true := by
  obtain ⟨len, sz, hp, _, hi, hs, h1, h2, _⟩ := parseVecItems_ok_inv h
  rw [sumSizes_const] at hs
  cases hs
  refine ⟨?_, h1, h2, (parseNum_ok_inv hp).2.2.2.2⟩
  intro x hx
  obtain ⟨b', n, hb'⟩ := parseItems_ok_forall hi x hx
  exact (parseCodedOrFallback_wf hb').1

theorem parseOpaque_sizeErr {p : VecParam} (hk : validSize p.numSize = true) {bs : Bytes} {e : PErr}
    (h : parseOpaque p bs = .error e) : SizeErr e := by
  unfold parseOpaque at h
  cases hp : parseNum .network p.numSize bs with
  | error e' =>
    simp only [hp, bind, Except.bind] at h
    cases h
    exact parseNum_sizeErr hk hp
  | ok r =>
    obtain ⟨len, n⟩ := r
    simp only [hp, bind, Except.bind] at h
    cases hr : parseRaw (len : Int) (bs.drop n) with
    | error e' =>
      simp only [hr] at h
      cases h
      exact parseRaw_nat_sizeErr hr
    | ok r2 =>
      obtain ⟨body, m⟩ := r2
      simp only [hr] at h
      cases hc : checkBounds p body.length with
      | error e' =>
        simp only [hc] at h
        cases h
        exact checkBounds_sizeErr hc
      | ok u => simp [hc, pure, Except.pure] at h

theorem parseOpaque_ok_inv {p : VecParam} {bs : Bytes} {v : Bytes} {t : Nat}
    (h : parseOpaque p bs = .ok (v, t)) : p.min ≤ v.length ∧ v.length ≤ p.max := by
  unfold parseOpaque at h
  cases hp : parseNum .network p.numSize bs with
  | error e' => simp [hp, bind, Except.bind] at h
  | ok r =>
    obtain ⟨len, n⟩ := r
    simp only [hp, bind, Except.bind] at h
    cases hr : parseRaw (len : Int) (bs.drop n) with
    | error e' => simp [hr] at h
    | ok r2 =>
      obtain ⟨body, m⟩ := r2
      simp only [hr] at h
      cases hc : checkBounds p body.length with
      | error e' => simp [hc] at h
      | ok u =>
        simp only [hc, pure, Except.pure] at h
        cases h
        exact checkBounds_ok_inv hc

end Cp.Hello

namespace Cp.Tls
open Cp Cp.Codec Cp.Hello

/-! ### obligations on the regenerated tables (decided by the kernel on the live data) -/

/-- `x` differs from every entry -/
def allNe (x : Nat) : List Nat → Bool
  | [] => true
  | y :: ys => !(Nat.beq x y) && allNe x ys

/-- pairwise distinct, as a Boolean check the kernel evaluates quickly on a 400-entry table -/
def nodupB : List Nat → Bool
  | [] => true
  | x :: xs => allNe x xs && nodupB xs

theorem allNe_sound {x : Nat} {l : List Nat} (h : allNe x l = true) : x ∉ l := by
  induction l with
  | nil => simp
  | cons y ys ih =>
    simp only [allNe, Bool.and_eq_true, Bool.not_eq_true'] at h
    simp only [List.mem_cons, not_or]
    refine ⟨fun e => ?_, ih h.2⟩
    subst e
    simp [Nat.beq_refl] at h

theorem nodupB_sound {l : List Nat} (h : nodupB l = true) : l.Nodup := by
  induction l with
  | nil => exact List.nodup_nil
  | cons x xs ih =>
    simp only [nodupB, Bool.and_eq_true] at h
    exact List.nodup_cons.mpr ⟨allNe_sound h.1, ih h.2⟩

theorem cipherSuites_tableOk : TableOk Gen.TlsCipherSuite.codes 2 :=
  ⟨rfl, nodupB_sound (by decide +kernel), by decide +kernel⟩
theorem compressionMethods_tableOk : TableOk Gen.TlsCompressionMethod.codes 1 :=
  ⟨rfl, nodupB_sound (by decide +kernel), by decide +kernel⟩
theorem ecPointFormats_tableOk : TableOk Gen.TlsECPointFormat.codes 1 :=
  ⟨rfl, nodupB_sound (by decide +kernel), by decide +kernel⟩
theorem namedCurves_tableOk : TableOk Gen.TlsNamedCurve.codes 2 :=
  ⟨rfl, nodupB_sound (by decide +kernel), by decide +kernel⟩
theorem signatureAlgorithms_tableOk : TableOk Gen.TlsSignatureAndHashAlgorithm.codes 2 :=
  ⟨rfl, nodupB_sound (by decide +kernel), by decide +kernel⟩
theorem pskKeyExchangeModes_tableOk : TableOk Gen.TlsPskKeyExchangeMode.codes 1 :=
  ⟨rfl, nodupB_sound (by decide +kernel), by decide +kernel⟩
theorem certCompression_tableOk : TableOk Gen.TlsCertificateCompressionAlgorithm.codes 2 :=
  ⟨rfl, nodupB_sound (by decide +kernel), by decide +kernel⟩

/-- a vector parameter whose ceiling fits its own length prefix -/
def ParamOk (p : VecParam) : Prop := validSize p.numSize = true ∧ p.max < 256 ^ p.numSize

instance (p : VecParam) : Decidable (ParamOk p) := by unfold ParamOk; infer_instance

theorem renegParam_ok : ParamOk (vp Gen.vec_TlsRenegotiatedConnection) := by decide +kernel
theorem supportedVersionsParam_ok : ParamOk (vp Gen.vec_TlsSupportedVersionVector) := by decide +kernel
theorem sessionIdParam_ok : ParamOk sessionIdParam := by decide +kernel
theorem cipherSuiteParam_ok : ParamOk cipherSuiteParam := by decide +kernel
theorem compressionParam_ok : ParamOk compressionParam := by decide +kernel
theorem extensionsClientParam_ok : ParamOk (vp Gen.vec_TlsExtensionsClient) := by decide +kernel
theorem extensionsServerParam_ok : ParamOk (vp Gen.vec_TlsExtensionsServer) := by decide +kernel

/-- what the proofs need to know about an extension body layout -/
def KindOk : ExtKind → Prop
  | .vecCoded p codes k => TableOk codes k ∧ ParamOk p
  | _ => True

theorem extKindOf_ok {cls : String} {kind : ExtKind} (h : extKindOf cls = some kind) : KindOk kind := by
  unfold extKindOf at h
  split at h <;> first
    | (cases h; exact trivial)
    | (cases h; exact ⟨ecPointFormats_tableOk, by decide +kernel⟩)
    | (cases h; exact ⟨namedCurves_tableOk, by decide +kernel⟩)
    | (cases h; exact ⟨signatureAlgorithms_tableOk, by decide +kernel⟩)
    | (cases h; exact ⟨pskKeyExchangeModes_tableOk, by decide +kernel⟩)
    | (cases h; exact ⟨certCompression_tableOk, by decide +kernel⟩)
    | cases h

theorem exceptBind_err_inv {α β : Type} {x : Except PErr α} {f : α → Except PErr β} {e : PErr}
    (h : (x >>= f) = .error e) : x = .error e ∨ ∃ a, x = .ok a ∧ f a = .error e := by
  cases x with
  | error e' => left; simpa [bind, Except.bind] using h
  | ok a => right; exact ⟨a, rfl, h⟩

theorem exceptBind_ok_inv {α β : Type} {x : Except PErr α} {f : α → Except PErr β} {b : β}
    (h : (x >>= f) = .ok b) : ∃ a, x = .ok a ∧ f a = .ok b := by
  cases x with
  | error e' => simp [bind, Except.bind] at h
  | ok a => exact ⟨a, rfl, h⟩

end Cp.Tls
