import CpModel.Prim
import CpProofs.Num
import CpProofs.Enum
/-
  Helper lemmas about the flag-set primitives (`composeFlags`, `parseFlags`) for flag classes whose
  members are single bits `2^e`.
-/
namespace Cp

/-! ### bit facts -/

/-- OR-ing in a bit that is clear is the same as adding it. -/
theorem or_two_pow_of_not_testBit {a j : Nat} (h : a.testBit j = false) :
    a ||| 2 ^ j = a + 2 ^ j := by
  have hlo : a % 2 ^ j < 2 ^ j := Nat.mod_lt _ (Nat.two_pow_pos j)
  have hbit : a / 2 ^ j % 2 = 0 := by
    rw [Nat.testBit_eq_decide_div_mod_eq] at h
    have := Nat.mod_two_eq_zero_or_one (a / 2 ^ j)
    simp at h
    omega
  have hmod : a % 2 ^ (j + 1) = a % 2 ^ j := by
    rw [Nat.mod_pow_succ, hbit]; simp
  have hdecomp : a = 2 ^ (j + 1) * (a / 2 ^ (j + 1)) + a % 2 ^ j := by
    rw [← hmod]; exact (Nat.div_add_mod a (2 ^ (j + 1))).symm
  have hlo' : a % 2 ^ j < 2 ^ (j + 1) := by rw [Nat.pow_succ]; omega
  have hsum : a % 2 ^ j + 2 ^ j < 2 ^ (j + 1) := by rw [Nat.pow_succ]; omega
  generalize a / 2 ^ (j + 1) = hi at hdecomp
  generalize a % 2 ^ j = lo at *
  rw [hdecomp, Nat.add_assoc, Nat.two_pow_add_eq_or_of_lt hsum, ← Nat.or_two_pow_eq_add_of_lt hlo,
    ← Nat.or_assoc, ← Nat.two_pow_add_eq_or_of_lt hlo']

/-- Masking a single bit. -/
theorem two_pow_and (e w : Nat) : 2 ^ e &&& w = if w.testBit e then 2 ^ e else 0 := by
  apply Nat.eq_of_testBit_eq
  intro i
  rw [Nat.testBit_and, Nat.testBit_two_pow]
  by_cases hei : e = i
  · subst hei
    cases hw : w.testBit e <;> simp
  · cases hw : w.testBit e <;> simp [hei]

theorem two_pow_and_ne_zero (e w : Nat) : (2 ^ e &&& w != 0) = w.testBit e := by
  rw [two_pow_and]
  cases hw : w.testBit e
  · simp
  · simp

theorem two_pow_shiftRight (e sh : Nat) (h : sh ≤ e) : 2 ^ e >>> sh = 2 ^ (e - sh) := by
  rw [Nat.shiftRight_eq_div_pow, Nat.pow_div h (by decide)]

/-! ### the composed word -/

/-- the word `compose_numeric_flags` packs for the single-bit values `2^e`, `e ∈ sel` -/
def flagWord (sh : Nat) (sel : List Nat) : Nat :=
  (sel.map (2 ^ ·)).foldl (fun a v => a ||| (v >>> sh)) 0

theorem foldl_or_testBit (sh : Nat) (sel : List Nat) (a i : Nat) :
    ((sel.map (2 ^ ·)).foldl (fun a v => a ||| (v >>> sh)) a).testBit i
      = (a.testBit i || decide (sh + i ∈ sel)) := by
  induction sel generalizing a with
  | nil => simp
  | cons e es ih =>
    simp only [List.map_cons, List.foldl_cons, ih, Nat.testBit_or, Nat.testBit_shiftRight,
      Nat.testBit_two_pow, List.mem_cons]
    by_cases h1 : e = sh + i
    · simp [h1]
    · have h2 : ¬ (sh + i = e) := fun h => h1 h.symm
      simp [h1, h2]

theorem flagWord_testBit (sh : Nat) (sel : List Nat) (i : Nat) :
    (flagWord sh sel).testBit i = decide (sh + i ∈ sel) := by
  unfold flagWord
  rw [foldl_or_testBit]; simp

theorem flagWord_lt (sh k : Nat) (sel : List Nat) (hw : ∀ e ∈ sel, e - sh < 8 * k) :
    flagWord sh sel < 256 ^ k := by
  have : (256 : Nat) ^ k = 2 ^ (8 * k) := by rw [Nat.pow_mul]
  rw [this]
  apply Nat.lt_pow_two_of_testBit
  intro i hi
  rw [flagWord_testBit]
  simp only [decide_eq_false_iff_not]
  intro hm
  have := hw _ hm
  omega

theorem foldl_or_eq_sum (sh : Nat) (sel : List Nat) (hn : sel.Nodup) (hs : ∀ e ∈ sel, sh ≤ e)
    (a : Nat) (ha : ∀ e ∈ sel, a.testBit (e - sh) = false) :
    (sel.map (2 ^ ·)).foldl (fun a v => a ||| (v >>> sh)) a
      = a + (sel.map fun e => 2 ^ (e - sh)).sum := by
  induction sel generalizing a with
  | nil => simp
  | cons e es ih =>
    have hne : e ∉ es := (List.nodup_cons.mp hn).1
    have hes : es.Nodup := (List.nodup_cons.mp hn).2
    have hse : sh ≤ e := hs e (by simp)
    simp only [List.map_cons, List.foldl_cons, List.sum_cons]
    rw [two_pow_shiftRight e sh hse, or_two_pow_of_not_testBit (ha e (by simp))]
    rw [ih hes (fun x hx => hs x (List.mem_cons_of_mem _ hx))]
    · omega
    · intro x hx
      have hsx : sh ≤ x := hs x (List.mem_cons_of_mem _ hx)
      have hxe : x ≠ e := fun h => hne (h ▸ hx)
      have h1 := ha x (List.mem_cons_of_mem _ hx)
      have h2 : (2 ^ (e - sh)).testBit (x - sh) = false :=
        Nat.testBit_two_pow_of_ne (by omega)
      have h3 := or_two_pow_of_not_testBit (ha e (by simp))
      rw [← h3, Nat.testBit_or, h1, h2]; rfl

/-- With pairwise distinct members above the shift, the OR is the sum. -/
theorem flagWord_eq_sum (sh : Nat) (sel : List Nat) (hn : sel.Nodup) (hs : ∀ e ∈ sel, sh ≤ e) :
    flagWord sh sel = (sel.map fun e => 2 ^ (e - sh)).sum := by
  unfold flagWord
  rw [foldl_or_eq_sum sh sel hn hs 0 (fun _ _ => Nat.zero_testBit _)]
  simp

/-! ### sublists of duplicate-free lists -/

theorem filter_mem_of_sublist {sel es : List Nat} (hsub : sel.Sublist es) (hn : es.Nodup) :
    es.filter (fun e => decide (e ∈ sel)) = sel := by
  induction hsub with
  | slnil => rfl
  | @cons l₁ l₂ a hs ih =>
    have ha : a ∉ l₂ := (List.nodup_cons.mp hn).1
    have hl : l₂.Nodup := (List.nodup_cons.mp hn).2
    have : a ∉ l₁ := fun h => ha (hs.subset h)
    simp only [List.filter_cons, this, decide_false, Bool.false_eq_true, if_false]
    exact ih hl
  | @cons_cons l₁ l₂ a hs ih =>
    have ha : a ∉ l₂ := (List.nodup_cons.mp hn).1
    have hl : l₂.Nodup := (List.nodup_cons.mp hn).2
    simp only [List.filter_cons, List.mem_cons, true_or, decide_true, if_true]
    congr 1
    rw [← ih hl]
    apply List.filter_congr
    intro x hx
    have : x ≠ a := fun h => ha (h ▸ hx)
    simp [this, ih hl]

/-! ### parsing with single-bit members -/

/-- For single-bit members `parseFlags` never fails once the number is read, and returns exactly
the members whose bit is set in the shifted word, in member order. -/
theorem parseFlags_single (bo : ByteOrder) (k sh : Nat) (es : List Nat) (rest : Bytes) (v n : Nat)
    (h : parseNum bo k rest = .ok (v, n)) :
    parseFlags bo k sh (es.map (2 ^ ·)) rest =
      .ok ((es.filter fun e => (v <<< sh).testBit e).map (2 ^ ·), n) := by
  unfold parseFlags
  rw [h]
  simp only [bind, Except.bind]
  have hhits : ((es.map (2 ^ ·)).filter fun f => f &&& v <<< sh != 0).map (fun f => f &&& v <<< sh)
      = (es.filter fun e => (v <<< sh).testBit e).map (2 ^ ·) := by
    rw [List.filter_map, List.map_map]
    have : ((fun f => f &&& v <<< sh != 0) ∘ fun x => 2 ^ x) = fun e => (v <<< sh).testBit e := by
      funext e; exact two_pow_and_ne_zero e _
    rw [this]
    apply List.map_congr_left
    intro e he
    have := (List.mem_filter.mp he).2
    simp only [Function.comp]
    rw [two_pow_and, this]; rfl
  rw [hhits]
  have hall : (((es.filter fun e => (v <<< sh).testBit e).map (2 ^ ·)).all
      fun h => (es.map (2 ^ ·)).contains h) = true := by
    rw [List.all_eq_true]
    intro x hx
    obtain ⟨e, he, rfl⟩ := List.mem_map.mp hx
    have : e ∈ es := (List.mem_filter.mp he).1
    simp only [List.contains_eq_mem, decide_eq_true_eq]
    exact List.mem_map.mpr ⟨e, this, rfl⟩
  rw [if_pos hall]
  rfl

theorem parseFlags_error (bo : ByteOrder) (k sh : Nat) (members : List Nat) (rest : Bytes) (e : PErr)
    (h : parseNum bo k rest = .error e) : parseFlags bo k sh members rest = .error e := by
  unfold parseFlags
  rw [h]; rfl

/-- For arbitrary members: whatever is returned is a non-zero member value (so a member whose value
is zero is never returned), and exactly the width is consumed. -/
theorem parseFlags_ok_inv (bo : ByteOrder) (k sh : Nat) (members : List Nat) (rest : Bytes)
    (hits : List Nat) (n : Nat) (h : parseFlags bo k sh members rest = .ok (hits, n)) :
    n = k ∧ ∀ x ∈ hits, x ≠ 0 ∧ x ∈ members := by
  unfold parseFlags at h
  cases hp : parseNum bo k rest with
  | error e => rw [hp] at h; simp [bind, Except.bind] at h
  | ok r =>
    obtain ⟨v, m⟩ := r
    rw [hp] at h
    simp only [bind, Except.bind] at h
    split at h
    · next hall =>
      simp only [pure, Except.pure, Except.ok.injEq, Prod.mk.injEq] at h
      obtain ⟨h1, h2⟩ := h
      have hk := (parseNum_ok_inv hp).1
      refine ⟨by omega, ?_⟩
      intro x hx
      rw [← h1] at hx
      constructor
      · obtain ⟨f, hf, rfl⟩ := List.mem_map.mp hx
        have := (List.mem_filter.mp hf).2
        simpa using this
      · rw [List.all_eq_true] at hall
        have := hall x hx
        simpa using this
    · simp at h

theorem foldl_or_shift (sh : Nat) (sel : List Nat) (hs : ∀ e ∈ sel, sh ≤ e) (a : Nat) :
    (sel.map (2 ^ ·)).foldl (fun a v => a ||| (v >>> sh)) a
      = sel.foldl (fun a e => a ||| 2 ^ (e - sh)) a := by
  induction sel generalizing a with
  | nil => rfl
  | cons e es ih =>
    simp only [List.map_cons, List.foldl_cons]
    rw [two_pow_shiftRight e sh (hs e (by simp)), ih (fun x hx => hs x (List.mem_cons_of_mem _ hx))]

theorem flagWord_eq_or (sh : Nat) (sel : List Nat) (hs : ∀ e ∈ sel, sh ≤ e) :
    flagWord sh sel = sel.foldl (fun a e => a ||| 2 ^ (e - sh)) 0 :=
  foldl_or_shift sh sel hs 0

/-- the shifted word has exactly the selected bits among those at or above the shift -/
theorem flagWord_shiftLeft_testBit (sh : Nat) (sel : List Nat) (hs : ∀ e ∈ sel, sh ≤ e) (e : Nat) :
    (flagWord sh sel <<< sh).testBit e = decide (e ∈ sel) := by
  rw [Nat.testBit_shiftLeft, flagWord_testBit]
  by_cases h : sh ≤ e
  · have : sh + (e - sh) = e := by omega
    simp [h, this]
  · have : e ∉ sel := fun hm => h (hs e hm)
    simp [h, this]

end Cp
