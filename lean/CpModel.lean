import CpModel.Basic
import CpModel.Prim
import CpModel.Gen.Enums
import CpModel.Enum
import CpModel.Tls.Version
import CpModel.Drv.Util
import CpModel.Drv.Prim
import CpModel.Drv.Tls
