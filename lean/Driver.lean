import CpModel
/-
  cpdrv — line-protocol driver of the executable model.  One operation per input line, one
  result line per operation; `BAD-OP` for anything the model does not understand (never a default).
-/
open Cp Cp.Drv

def handlers : List (List String → Option String) := [primOp, tlsOp, enumOp, classOp, arrayOp, serialOp, textOp, dnsOp, sshOp, fieldsOp, costOp]

def dispatch (toks : List String) : String :=
  match handlers.findSome? (fun h => h toks) with
  | some r => r
  | none => "BAD-OP"

partial def loop (hin : IO.FS.Stream) (hout : IO.FS.Stream) : IO Unit := do
  let line ← hin.getLine
  if line.isEmpty then return ()
  let toks := (line.trimAscii.toString.splitOn " ").filter (· ≠ "")
  hout.putStrLn (dispatch toks)
  loop hin hout

def main : IO Unit := do
  let hin ← IO.getStdin
  let hout ← IO.getStdout
  loop hin hout
