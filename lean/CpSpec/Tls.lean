import CpSpec.Wire
/-
  CpSpec.Tls — the TLS wire layouts written down from the RFC presentation language
  (RFC 5246 §4.3/§6.2.1/§7.2/§7.4, RFC 8446 §3.4/§4/§5.1), independently of the model's
  combinators: only `Spec.toBytesBE` is used.  Vector ceilings are the RFC's, hard-coded here.
-/
namespace Cp.Spec.Tls
open Cp

def u8 (v : Nat) : Bytes := Spec.toBytesBE 1 v
def u16 (v : Nat) : Bytes := Spec.toBytesBE 2 v
def u24 (v : Nat) : Bytes := Spec.toBytesBE 3 v
def u32 (v : Nat) : Bytes := Spec.toBytesBE 4 v

/-- RFC 5246 §4.3: "the length ... is encoded in as many bytes as required to hold the vector's
specified maximum (ceiling) length" -/
def prefixWidth (ceiling : Nat) : Nat :=
  if ceiling < 256 then 1 else if ceiling < 65536 then 2 else if ceiling < 16777216 then 3 else 4

/-- `opaque data<floor..ceiling>` -/
def opaqueVec (ceiling : Nat) (data : Bytes) : Bytes :=
  Spec.toBytesBE (prefixWidth ceiling) data.length ++ data

/-- a vector `T items<floor..ceiling>` whose elements are already encoded -/
def vec (ceiling : Nat) (items : List Bytes) : Bytes := opaqueVec ceiling items.flatten

/-- RFC 5246 §6.2.1 TLSPlaintext: type, version {major, minor}, uint16 length, fragment -/
def encodeRecord (contentType versionCode : Nat) (fragment : Bytes) : Bytes :=
  u8 contentType ++ u16 versionCode ++ u16 fragment.length ++ fragment

/-- RFC 5246 §7.2 Alert: level, description -/
def encodeAlert (level description : Nat) : Bytes := u8 level ++ u8 description

/-- RFC 5246 §7.1 ChangeCipherSpec -/
def encodeChangeCipherSpec : Bytes := u8 1

/-- RFC 5246 §7.4 Handshake: msg_type, uint24 length, body -/
def encodeHandshake (msgType : Nat) (body : Bytes) : Bytes := u8 msgType ++ u24 body.length ++ body

/-- RFC ceilings of the vectors the library defines: (class name, floor, ceiling).
RFC 5246 §7.4.1.2 (session_id<0..32>, cipher_suites<2..2^16-2>, compression_methods<1..2^8-1>,
extensions<0..2^16-1>), §7.4.2 (certificate_list<0..2^24-1>), §7.4.4 (certificate_types<1..2^8-1>,
DistinguishedName<1..2^16-1>, certificate_authorities<0..2^16-1>), §7.4.1.4.1
(supported_signature_algorithms<2..2^16-2>), RFC 8422 §5.1 (named_group_list<2..2^16-1>,
ec_point_format_list<1..2^8-1>), RFC 5746 §3.2 (renegotiated_connection<0..255>), RFC 8446 §4.2.1
(versions<2..254>), §4.2.9 (ke_modes<1..255>), RFC 8879 §3 (algorithms<2..2^8-2>), RFC 6066 §3
(HostName<1..2^16-1>), RFC 8446 §4.2.8 (key_exchange<1..2^16-1>, client_shares<0..2^16-1>),
RFC 6066 §8 (responder_id_list<0..2^16-1>, ResponderID<1..2^16-1>, request_extensions<0..2^16-1>),
RFC 7301 §3.1 (ProtocolName<1..2^8-1>, protocol_name_list<2..2^16-1>), RFC 8472 §2
(key_parameters_list<1..2^8-1>). -/
def rfcVectors : List (String × Nat × Nat) := [
  ("TlsSessionIdVector", 0, 32),
  ("TlsCipherSuiteVector", 2, 65534),
  ("TlsCompressionMethodVector", 1, 255),
  ("TlsExtensionsClient", 0, 65535),
  ("TlsExtensionsServer", 0, 65535),
  ("TlsCertificates", 0, 16777215),
  ("TlsClientCertificateTypeVector", 1, 255),
  ("TlsDistinguishedName", 1, 65535),
  ("TlsDistinguishedNameVector", 0, 65535),
  ("TlsSignatureAndHashAlgorithmVector", 2, 65534),
  ("TlsEllipticCurveVector", 2, 65535),
  ("TlsECPointFormatVector", 1, 255),
  ("TlsRenegotiatedConnection", 0, 255),
  ("TlsSupportedVersionVector", 2, 254),
  ("TlsPskKeyExchangeModeVector", 1, 255),
  ("TlsCertificateCompressionAlgorithmVector", 2, 254),
  ("TlsServerName", 1, 65535),
  ("TlsKeyExchangeVector", 1, 65535),
  ("TlsKeyShareEntryVector", 0, 65535),
  ("TlsCertificateStatusRequestResponderIdList", 0, 65535),
  ("TlsCertificateStatusRequestResponderId", 1, 65535),
  ("TlsCertificateStatusRequestExtensions", 0, 65535),
  ("TlsProtocolNameFactory", 1, 255),
  ("TlsProtocolNameList", 2, 65535),
  ("TlsTokenBindingParamaterVector", 1, 255)
]

end Cp.Spec.Tls
