import CpSpec.Wire
import CpSpec.Mpint
/-
  CpSpec.Dns — the RDATA wire formats and the key tag as the RFCs define them, written without
  reference to the model's primitives (only `Bytes`, and the big-endian digit functions of
  `CpSpec.Wire` / `CpSpec.Mpint`).

    RFC 1035 §3.1   domain names: a sequence of labels, each a length octet followed by that number
                    of octets, terminated by the zero length octet of the root; labels are 63 octets
                    or less (the two high bits of a length octet are 00), names 255 octets or less
    RFC 1035 §3.3   <character-string>: a length octet followed by that number of characters (≤ 255)
    RFC 1035 §3.3.9 MX RDATA: PREFERENCE (16 bit), EXCHANGE (domain name)
    RFC 1035 §3.3.14 TXT RDATA: one or more <character-string>s
    RFC 4034 §2.1   DNSKEY RDATA: Flags (2), Protocol (1), Algorithm (1), Public Key
    RFC 4034 §3.1   RRSIG RDATA: Type Covered (2), Algorithm (1), Labels (1), Original TTL (4),
                    Signature Expiration (4), Signature Inception (4), Key Tag (2), Signer's Name,
                    Signature
    RFC 4034 §5.1   DS RDATA: Key Tag (2), Algorithm (1), Digest Type (1), Digest
    RFC 4034 App. B key tag;  B.1 key tag for algorithm 1
    RFC 3110 §2     RSA public key: exponent length (1 octet, or 0 followed by 2 octets), exponent,
                    modulus; leading zero octets are prohibited in the exponent and modulus
    RFC 6605 §4     ECDSA public key: `x | y`, 32 + 32 octets for P-256, 48 + 48 for P-384
    RFC 8080 §3     Ed25519 public key: 32 octets; Ed448 public key: 57 octets
    RFC 2536 §2     DSA public key: T (1), Q (20), P, G, Y (64 + T*8 each)
-/
namespace Cp.Spec.Dns
open Cp (Bytes)

/-! ### RFC 4034 Appendix B — key tag -/

/-- `for ( ac = 0, i = 0; i < keysize; ++i ) ac += (i & 1) ? key[i] : key[i] << 8;`
(`i` = index of the head of the remaining octets) -/
def keyTagAcc : Nat → Bytes → Nat → Nat
  | _, [], ac => ac
  | i, b :: rest, ac => keyTagAcc (i + 1) rest (ac + (if i &&& 1 = 1 then b.toNat else b.toNat <<< 8))

/-- RFC 4034 Appendix B over the whole RDATA:
`ac += (ac >> 16) & 0xFFFF; return ac & 0xFFFF;`.  The accumulator of the reference code is a
32-bit `unsigned long`; RDATA is at most 65535 octets long, so it never wraps and the natural
number computed here is the same. -/
def keyTag (rdata : Bytes) : Nat :=
  let ac := keyTagAcc 0 rdata 0
  let ac := ac + ((ac >>> 16) &&& 0xFFFF)
  ac &&& 0xFFFF

/-- RFC 4034 Appendix B.1: "the most significant 16 bits of the least significant 24 bits of the
public key modulus" — of the modulus octets, as an unsigned big-endian integer. -/
def keyTagAlg1 (modulus : Bytes) : Nat := fromBytesBE modulus % 2 ^ 24 / 2 ^ 8

/-! ### RFC 1035 §3.1 — uncompressed domain names -/

def encodeLabel (l : Bytes) : Bytes := toBytesBE 1 l.length ++ l

/-- the labels in order, then the zero length octet of the root -/
def encodeName (labels : List Bytes) : Bytes := labels.flatMap encodeLabel ++ [0]

/-- labels of 1..63 octets, at most 255 octets in all -/
def NameWf (labels : List Bytes) : Prop :=
  (∀ l ∈ labels, 1 ≤ l.length ∧ l.length ≤ 63) ∧ (encodeName labels).length ≤ 255

/-- Read labels up to and including the root label; the rest of the octets is returned.  A length
octet above 63 is not a label (compression pointer or reserved). -/
def decodeLabels : Nat → Bytes → Option (List Bytes × Bytes)
  | 0, _ => none
  | _ + 1, [] => none
  | fuel + 1, n :: rest =>
    if n.toNat = 0 then some ([], rest)
    else if 63 < n.toNat then none
    else if rest.length < n.toNat then none
    else (decodeLabels fuel (rest.drop n.toNat)).map fun (ls, r) => (rest.take n.toNat :: ls, r)

def decodeName (b : Bytes) : Option (List Bytes × Bytes) :=
  match decodeLabels (b.length + 1) b with
  | some (ls, r) => if b.length - r.length ≤ 255 then some (ls, r) else none
  | none => none

/-! ### RFC 1035 §3.3.9 — MX -/

structure Mx where
  preference : Nat
  exchange : List Bytes
deriving DecidableEq, Repr

def encodeMx (m : Mx) : Bytes := toBytesBE 2 m.preference ++ encodeName m.exchange

def decodeMx : Bytes → Option Mx
  | a :: b :: rest =>
    match decodeName rest with
    | some (ls, []) => some ⟨fromBytesBE [a, b], ls⟩
    | _ => none
  | _ => none

/-! ### RFC 1035 §3.3.14 — TXT -/

def encodeCharString (s : Bytes) : Bytes := toBytesBE 1 s.length ++ s

/-- one or more character-strings of at most 255 octets -/
def encodeTxt (strs : List Bytes) : Bytes := strs.flatMap encodeCharString

def TxtWf (strs : List Bytes) : Prop := strs ≠ [] ∧ ∀ s ∈ strs, s.length ≤ 255

def decodeCharStrings : Nat → Bytes → Option (List Bytes)
  | _, [] => some []
  | 0, _ :: _ => none
  | fuel + 1, n :: rest =>
    if rest.length < n.toNat then none
    else (decodeCharStrings fuel (rest.drop n.toNat)).map (rest.take n.toNat :: ·)

def decodeTxt (b : Bytes) : Option (List Bytes) :=
  if b = [] then none else decodeCharStrings b.length b

/-! ### RFC 4034 §5.1 — DS -/

structure Ds where
  keyTag : Nat
  algorithm : Nat
  digestType : Nat
  digest : Bytes
deriving DecidableEq, Repr

def encodeDs (d : Ds) : Bytes :=
  toBytesBE 2 d.keyTag ++ toBytesBE 1 d.algorithm ++ toBytesBE 1 d.digestType ++ d.digest

def decodeDs : Bytes → Option Ds
  | a :: b :: alg :: dt :: digest => some ⟨fromBytesBE [a, b], alg.toNat, dt.toNat, digest⟩
  | _ => none

/-! ### RFC 4034 §3.1 — RRSIG -/

structure Rrsig where
  typeCovered : Nat
  algorithm : Nat
  labels : Nat
  originalTtl : Nat
  expiration : Nat     -- 32-bit unsigned seconds since 1 January 1970 00:00:00 UTC
  inception : Nat
  keyTag : Nat
  signersName : List Bytes
  signature : Bytes
deriving DecidableEq, Repr

def encodeRrsig (r : Rrsig) : Bytes :=
  toBytesBE 2 r.typeCovered ++ toBytesBE 1 r.algorithm ++ toBytesBE 1 r.labels ++ toBytesBE 4 r.originalTtl ++
  toBytesBE 4 r.expiration ++ toBytesBE 4 r.inception ++ toBytesBE 2 r.keyTag ++ encodeName r.signersName ++
  r.signature

def decodeRrsig (b : Bytes) : Option Rrsig :=
  if b.length < 18 then none
  else
    match decodeName (b.drop 18) with
    | some (name, sig) =>
      some ⟨fromBytesBE (b.take 2), fromBytesBE ((b.drop 2).take 1), fromBytesBE ((b.drop 3).take 1),
        fromBytesBE ((b.drop 4).take 4), fromBytesBE ((b.drop 8).take 4), fromBytesBE ((b.drop 12).take 4),
        fromBytesBE ((b.drop 16).take 2), name, sig⟩
    | none => none

/-! ### RFC 4034 §2.1 — DNSKEY -/

/-- bit 7 of the Flags field (bit 0 is the most significant of the 16): Zone Key -/
def flagZoneKey : Nat := 2 ^ (15 - 7)
/-- bit 15: Secure Entry Point -/
def flagSecureEntryPoint : Nat := 2 ^ (15 - 15)
/-- bit 8 (RFC 5011 §7): REVOKE -/
def flagRevoke : Nat := 2 ^ (15 - 8)

structure Dnskey where
  flags : Nat
  protocol : Nat      -- MUST be 3
  algorithm : Nat
  publicKey : Bytes
deriving DecidableEq, Repr

def encodeDnskey (k : Dnskey) : Bytes :=
  toBytesBE 2 k.flags ++ toBytesBE 1 k.protocol ++ toBytesBE 1 k.algorithm ++ k.publicKey

def decodeDnskey : Bytes → Option Dnskey
  | a :: b :: p :: alg :: key => some ⟨fromBytesBE [a, b], p.toNat, alg.toNat, key⟩
  | _ => none

/-! ### public key formats -/

/-- RFC 3110 §2: the exponent length is one octet if it is in the range 1..255, otherwise a zero
octet followed by a two-octet unsigned length -/
def rsaExponentLength (n : Nat) : Bytes :=
  if 1 ≤ n ∧ n ≤ 255 then toBytesBE 1 n else [0] ++ toBytesBE 2 n

/-- RFC 3110 §2 on the exponent and modulus octets (no leading zero octets) -/
def encodeRsaOctets (exponent modulus : Bytes) : Bytes :=
  rsaExponentLength exponent.length ++ exponent ++ modulus

/-- the RSA public key of the integers `e`, `n`: their minimal big-endian octets -/
def encodeRsa (e n : Nat) : Bytes := encodeRsaOctets (Spec.minBytesBE e) (Spec.minBytesBE n)

/-- exponent octets and modulus octets -/
def decodeRsaOctets : Bytes → Option (Bytes × Bytes)
  | [] => none
  | l :: rest =>
    if l.toNat ≠ 0 then
      if rest.length < l.toNat then none else some (rest.take l.toNat, rest.drop l.toNat)
    else
      match rest with
      | a :: b :: rest2 =>
        let n := fromBytesBE [a, b]
        if rest2.length < n then none else some (rest2.take n, rest2.drop n)
      | _ => none

/-- RFC 6605 §4: `x | y`, each coordinate in `n` octets (32 for P-256, 48 for P-384) -/
def encodeEcdsa (n x y : Nat) : Bytes := toBytesBE n x ++ toBytesBE n y

def decodeEcdsa (n : Nat) (b : Bytes) : Option (Nat × Nat) :=
  if b.length = 2 * n then some (fromBytesBE (b.take n), fromBytesBE (b.drop n)) else none

/-- coordinate octets per DNSSEC algorithm number (RFC 6605 §3: 13 = ECDSAP256SHA256,
14 = ECDSAP384SHA384) -/
def ecdsaCoordinateOctets : Nat → Option Nat
  | 13 => some 32
  | 14 => some 48
  | _ => none

/-- RFC 8080 §3: public key octets per algorithm number (15 = Ed25519: 32, 16 = Ed448: 57) -/
def eddsaKeyOctets : Nat → Option Nat
  | 15 => some 32
  | 16 => some 57
  | _ => none

/-- RFC 2536 §2: T, Q (20 octets), P, G, Y (64 + T*8 octets each) -/
def encodeDsa (t q p g y : Nat) : Bytes :=
  toBytesBE 1 t ++ toBytesBE 20 q ++ toBytesBE (64 + t * 8) p ++ toBytesBE (64 + t * 8) g ++ toBytesBE (64 + t * 8) y

end Cp.Spec.Dns
