import CpModel.Basic
import CpSpec.Wire
/-
  CpSpec.Opp — the application messages that precede an opportunistic TLS handshake, written down
  from the protocol documentation, independently of the code and of the model's primitives
  (no import of CpModel.Prim / Codec / Vector).

  Sources
  * MySQL client/server protocol: "MySQL Packets" (int<3> payload_length, int<1> sequence_id,
    payload), `Protocol::HandshakeV10`, `Protocol::SSLRequest`; integers are little-endian.
  * ITU-T T.123 §8 (TPKT: version 3, reserved 0, 16-bit big-endian length INCLUDING the 4 header octets).
  * ITU-T X.224 §13.3 / §13.4 (CR / CC TPDU: LI, 1110 xxxx / 1101 xxxx, DST-REF, SRC-REF, class option),
    as used by MS-RDPBCGR §2.2.1.1/§2.2.1.2 (the length indicator covers everything after itself).
  * MS-RDPBCGR §2.2.1.1.1 RDP_NEG_REQ, §2.2.1.2.1 RDP_NEG_RSP (type, flags, length = 8, 32-bit
    little-endian protocols).
  * OpenVPN control channel (openvpn `ssl_pkt.h` / the protocol description in `ssl.h`): one octet
    `opcode << 3 | key_id`, 64-bit session id, acknowledgement array (one-octet count, 32-bit packet
    ids, then the 64-bit remote session id iff the count is not zero), 32-bit packet id, payload;
    over TCP each packet is preceded by its 16-bit length.
  * PostgreSQL frontend/backend protocol, `SSLRequest`: Int32(8), Int32(80877103); `Sync`: Byte1('S').
  * RFC 4511 §4.12 / RFC 4511 §4.14.1 (StartTLS): ExtendedRequest / ExtendedResponse in BER.
-/
namespace Cp.Spec.Opp
open Cp Cp.Spec

/-- `int.from_bytes(b, 'little')` -/
def fromBytesLE (b : Bytes) : Nat := b.foldr (fun x a => x.toNat + 256 * a) 0

/-! ### a minimal reader vocabulary for the decoders: each step takes its octets off the front -/

/-- a `k`-octet big-endian integer -/
def rdBE (k : Nat) (b : Bytes) : Option (Nat × Bytes) :=
  if b.length < k then none else some (fromBytesBE (b.take k), b.drop k)

/-- a `k`-octet little-endian integer -/
def rdLE (k : Nat) (b : Bytes) : Option (Nat × Bytes) :=
  if b.length < k then none else some (fromBytesLE (b.take k), b.drop k)

/-- `n` octets -/
def rdN (n : Nat) (b : Bytes) : Option (Bytes × Bytes) :=
  if b.length < n then none else some (b.take n, b.drop n)

/-- octets up to (excluding) the first `00`, which is consumed as well -/
def rdNul : Bytes → Option (Bytes × Bytes)
  | [] => none
  | x :: xs => if x = 0 then some ([], xs) else (rdNul xs).map fun (s, r) => (x :: s, r)

/-- `n` 32-bit big-endian integers -/
def rdU32s : Nat → Bytes → Option (List Nat × Bytes)
  | 0, b => some ([], b)
  | n + 1, b => do
    let (x, r) ← rdBE 4 b
    let (xs, r') ← rdU32s n r
    pure (x :: xs, r')

/-! ### MySQL -/

/-- a MySQL packet: `int<3> payload_length`, `int<1> sequence_id`, `string<var> payload` -/
structure MySqlPacket where
  sequenceId : Nat
  payload : Bytes
deriving DecidableEq, Repr

def MySqlPacket.wf (p : MySqlPacket) : Prop := p.sequenceId < 256 ∧ p.payload.length < 2 ^ 24

def encodeMySqlPacket (p : MySqlPacket) : Bytes :=
  toBytesLE 3 p.payload.length ++ toBytesLE 1 p.sequenceId ++ p.payload

def decodeMySqlPacket (b : Bytes) : Option (MySqlPacket × Nat) := do
  let (len, r) ← rdLE 3 b
  let (seq, r) ← rdLE 1 r
  let (pl, _) ← rdN len r
  pure (⟨seq, pl⟩, 4 + len)

/-- `CLIENT_PROTOCOL_41`, `CLIENT_PLUGIN_AUTH`, `CLIENT_SECURE_CONNECTION` capability bits -/
def clientProtocol41 : Nat := 0x00000200
def clientPluginAuth : Nat := 0x00080000
def clientSecureConnection : Nat := 0x00008000

/-- `Protocol::SSLRequest`.  With `CLIENT_PROTOCOL_41`: `int<4> client_flag`, `int<4> max_packet_size`,
`int<1> character_set`, `string[23] filler`.  Without: `int<2> client_flag`, `int<3> max_packet_size`. -/
structure MySqlSslRequest where
  clientFlag : Nat
  maxPacketSize : Nat
  characterSet : Option Nat      -- present exactly in the 4.1 form
deriving DecidableEq, Repr

def MySqlSslRequest.is41 (r : MySqlSslRequest) : Bool := r.clientFlag.testBit 9

def MySqlSslRequest.wf (r : MySqlSslRequest) : Prop :=
  if r.is41 then r.clientFlag < 2 ^ 32 ∧ r.maxPacketSize < 2 ^ 32 ∧ ∃ c, r.characterSet = some c ∧ c < 256
  else r.clientFlag < 2 ^ 16 ∧ r.maxPacketSize < 2 ^ 24 ∧ r.characterSet = none

def encodeMySqlSslRequest (r : MySqlSslRequest) : Bytes :=
  if r.is41 then
    toBytesLE 4 r.clientFlag ++ toBytesLE 4 r.maxPacketSize ++ toBytesLE 1 (r.characterSet.getD 0)
      ++ List.replicate 23 0
  else toBytesLE 2 r.clientFlag ++ toBytesLE 3 r.maxPacketSize

def decodeMySqlSslRequest (b : Bytes) : Option (MySqlSslRequest × Nat) := do
  let (lo, r) ← rdLE 2 b
  if lo.testBit 9 then
    let (hi, r) ← rdLE 2 r
    let (mx, r) ← rdLE 4 r
    let (cs, r) ← rdLE 1 r
    let (_, _) ← rdN 23 r
    pure (⟨lo + 2 ^ 16 * hi, mx, some cs⟩, 32)
  else
    let (mx, _) ← rdLE 3 r
    pure (⟨lo, mx, none⟩, 5)

/-- `Protocol::HandshakeV10`:
`int<1> 10`, `string<NUL> server version`, `int<4> thread id`, `string[8] auth-plugin-data-part-1`,
`int<1> filler`, `int<2> capability_flags_1` (lower 16 bits), `int<1> character_set`,
`int<2> status_flags`, `int<2> capability_flags_2` (upper 16 bits),
`int<1> auth_plugin_data_len` if `CLIENT_PLUGIN_AUTH` else `int<1> 00`, `string[10] reserved`,
`string[$len] auth-plugin-data-part-2` with `$len = MAX(13, auth_plugin_data_len - 8)` — present
when `CLIENT_SECURE_CONNECTION` is set (every server since 4.1; servers before 5.5.7 set it without
`CLIENT_PLUGIN_AUTH`, the length octet is then `00` and the part has its 13 octets) or
`CLIENT_PLUGIN_AUTH` is —, and `string<NUL> auth_plugin_name` if `CLIENT_PLUGIN_AUTH`. -/
structure MySqlHandshakeV10 where
  protocolVersion : Nat
  serverVersion : Bytes
  threadId : Nat
  authPluginDataPart1 : Bytes
  capabilityFlags : Nat
  characterSet : Nat
  statusFlags : Nat
  authPluginDataPart2 : Bytes
  authPluginName : Bytes
deriving DecidableEq, Repr

def MySqlHandshakeV10.plugin (h : MySqlHandshakeV10) : Bool := h.capabilityFlags.testBit 19
def MySqlHandshakeV10.secure (h : MySqlHandshakeV10) : Bool := h.capabilityFlags.testBit 15

def noNul (b : Bytes) : Prop := (0 : UInt8) ∉ b

def MySqlHandshakeV10.wf (h : MySqlHandshakeV10) : Prop :=
  h.protocolVersion < 256 ∧ noNul h.serverVersion ∧ h.threadId < 2 ^ 32 ∧ h.authPluginDataPart1.length = 8 ∧
  h.capabilityFlags < 2 ^ 32 ∧ h.characterSet < 256 ∧ h.statusFlags < 2 ^ 16 ∧
  (if h.plugin then 13 ≤ h.authPluginDataPart2.length ∧ h.authPluginDataPart2.length ≤ 247 ∧ noNul h.authPluginName
   else h.authPluginName = [] ∧
    (if h.secure then h.authPluginDataPart2.length = 13 else h.authPluginDataPart2 = []))

def encodeMySqlHandshakeV10 (h : MySqlHandshakeV10) : Bytes :=
  toBytesLE 1 h.protocolVersion ++ h.serverVersion ++ [0] ++ toBytesLE 4 h.threadId ++ h.authPluginDataPart1 ++ [0]
    ++ toBytesLE 2 (h.capabilityFlags % 2 ^ 16) ++ toBytesLE 1 h.characterSet ++ toBytesLE 2 h.statusFlags
    ++ toBytesLE 2 (h.capabilityFlags / 2 ^ 16)
    ++ toBytesLE 1 (if h.plugin then 8 + h.authPluginDataPart2.length else 0)
    ++ List.replicate 10 0 ++ h.authPluginDataPart2
    ++ (if h.plugin then h.authPluginName ++ [0] else [])

def decodeMySqlHandshakeV10 (b : Bytes) : Option (MySqlHandshakeV10 × Nat) := do
  let (pv, r) ← rdLE 1 b
  let (sv, r) ← rdNul r
  let (tid, r) ← rdLE 4 r
  let (p1, r) ← rdN 8 r
  let (_, r) ← rdN 1 r
  let (lo, r) ← rdLE 2 r
  let (cs, r) ← rdLE 1 r
  let (st, r) ← rdLE 2 r
  let (hi, r) ← rdLE 2 r
  let (adl, r) ← rdLE 1 r
  let (_, r) ← rdN 10 r
  let caps := lo + 2 ^ 16 * hi
  if caps.testBit 19 then
    let (p2, r) ← rdN (max 13 (adl - 8)) r
    let (nm, _) ← rdNul r
    pure (⟨pv, sv, tid, p1, caps, cs, st, p2, nm⟩, 33 + sv.length + p2.length + nm.length + 1)
  else if caps.testBit 15 then
    -- the length octet is the constant `00` here: MAX(13, 0 - 8) = 13
    let (p2, _) ← rdN 13 r
    pure (⟨pv, sv, tid, p1, caps, cs, st, p2, []⟩, 33 + sv.length + p2.length)
  else
    pure (⟨pv, sv, tid, p1, caps, cs, st, [], []⟩, 33 + sv.length)

/-! ### TPKT and X.224 -/

/-- T.123 TPKT: `03 00`, 16-bit length of the whole packet, the TPDU -/
def encodeTpkt (tpdu : Bytes) : Bytes := [3, 0] ++ toBytesBE 2 (tpdu.length + 4) ++ tpdu

def decodeTpkt (b : Bytes) : Option (Bytes × Nat) := do
  let (v, r) ← rdBE 1 b
  let (_, r) ← rdBE 1 r
  let (len, r) ← rdBE 2 r
  if v ≠ 3 ∨ len < 4 then none
  else
    let (tpdu, _) ← rdN (len - 4) r
    pure (tpdu, len)

inductive X224Kind where
  | cr   -- connection request, code 1110
  | cc   -- connection confirm, code 1101
deriving DecidableEq, Repr

def X224Kind.code : X224Kind → Nat
  | .cr => 0xE0
  | .cc => 0xD0

/-- X.224 class 0 CR / CC TPDU: LI, code (credit 0), DST-REF, SRC-REF, class option 0, and the
variable part / user data, which the length indicator covers in the RDP connection sequence -/
structure X224Connection where
  kind : X224Kind
  dstRef : Nat
  srcRef : Nat
  data : Bytes
deriving DecidableEq, Repr

def X224Connection.wf (c : X224Connection) : Prop := c.dstRef < 2 ^ 16 ∧ c.srcRef < 2 ^ 16 ∧ c.data.length ≤ 249

def encodeX224 (c : X224Connection) : Bytes :=
  toBytesBE 1 (6 + c.data.length) ++ toBytesBE 1 c.kind.code ++ toBytesBE 2 c.dstRef ++ toBytesBE 2 c.srcRef
    ++ toBytesBE 1 0 ++ c.data

def decodeX224 (b : Bytes) : Option (X224Connection × Nat) := do
  let (li, r) ← rdBE 1 b
  let (code, r) ← rdBE 1 r
  let (dst, r) ← rdBE 2 r
  let (src, r) ← rdBE 2 r
  let (cls, r) ← rdBE 1 r
  if li < 6 ∨ cls ≠ 0 then none
  else
    let (data, _) ← rdN (li - 6) r
    if code / 16 = 0xE then pure (⟨.cr, dst, src, data⟩, li + 1)
    else if code / 16 = 0xD then pure (⟨.cc, dst, src, data⟩, li + 1)
    else none

/-! ### RDP negotiation -/

inductive RdpNegKind where
  | req   -- TYPE_RDP_NEG_REQ = 0x01
  | rsp   -- TYPE_RDP_NEG_RSP = 0x02
deriving DecidableEq, Repr

def RdpNegKind.code : RdpNegKind → Nat
  | .req => 1
  | .rsp => 2

/-- RDP_NEG_REQ / RDP_NEG_RSP: type, flags, length (always 8), requested / selected protocols -/
structure RdpNeg where
  kind : RdpNegKind
  flags : Nat
  protocols : Nat
deriving DecidableEq, Repr

def RdpNeg.wf (r : RdpNeg) : Prop := r.flags < 256 ∧ r.protocols < 2 ^ 32

def encodeRdpNeg (r : RdpNeg) : Bytes :=
  toBytesLE 1 r.kind.code ++ toBytesLE 1 r.flags ++ toBytesLE 2 8 ++ toBytesLE 4 r.protocols

def decodeRdpNeg (b : Bytes) : Option (RdpNeg × Nat) := do
  let (t, r) ← rdLE 1 b
  let (f, r) ← rdLE 1 r
  let (len, r) ← rdLE 2 r
  let (p, _) ← rdLE 4 r
  if len ≠ 8 then none
  else if t = 1 then pure (⟨.req, f, p⟩, 8)
  else if t = 2 then pure (⟨.rsp, f, p⟩, 8)
  else none

/-! ### OpenVPN -/

inductive OvpnOp where
  | controlV1          -- P_CONTROL_V1 = 4
  | ackV1              -- P_ACK_V1 = 5
  | hardResetClientV2  -- P_CONTROL_HARD_RESET_CLIENT_V2 = 7
  | hardResetServerV2  -- P_CONTROL_HARD_RESET_SERVER_V2 = 8
deriving DecidableEq, Repr

def OvpnOp.code : OvpnOp → Nat
  | .controlV1 => 4
  | .ackV1 => 5
  | .hardResetClientV2 => 7
  | .hardResetServerV2 => 8

/-- A control-channel packet (key id 0).  `packetId` is absent exactly in `P_ACK_V1`; only
`P_CONTROL_V1` carries a payload. -/
structure OvpnPacket where
  op : OvpnOp
  sessionId : Nat
  acks : List Nat
  remoteSessionId : Option Nat   -- present iff `acks` is not empty
  packetId : Option Nat
  payload : Bytes
deriving DecidableEq, Repr

def OvpnPacket.wf (p : OvpnPacket) : Prop :=
  p.sessionId < 2 ^ 64 ∧ p.acks.length < 256 ∧ (∀ a ∈ p.acks, a < 2 ^ 32) ∧
  (match p.remoteSessionId with
    | some r => p.acks ≠ [] ∧ r < 2 ^ 64
    | none => p.acks = []) ∧
  (match p.packetId with
    | some i => p.op ≠ .ackV1 ∧ i < 2 ^ 32
    | none => p.op = .ackV1) ∧
  (p.op ≠ .controlV1 → p.payload = [])

def encodeOvpn (p : OvpnPacket) : Bytes :=
  toBytesBE 1 (p.op.code * 8) ++ toBytesBE 8 p.sessionId ++ toBytesBE 1 p.acks.length
    ++ (p.acks.map (toBytesBE 4)).flatten
    ++ (match p.remoteSessionId with
        | some r => toBytesBE 8 r
        | none => [])
    ++ (match p.packetId with
        | some i => toBytesBE 4 i
        | none => [])
    ++ p.payload

def ovpnOpOf : Nat → Option OvpnOp
  | 4 => some .controlV1
  | 5 => some .ackV1
  | 7 => some .hardResetClientV2
  | 8 => some .hardResetServerV2
  | _ => none

/-- decoding of one datagram (the payload of a `P_CONTROL_V1` is the rest of the datagram) -/
def decodeOvpn (b : Bytes) : Option OvpnPacket := do
  let (t, r) ← rdBE 1 b
  let op ← ovpnOpOf (t / 8)
  let (sid, r) ← rdBE 8 r
  let (n, r) ← rdBE 1 r
  let (acks, r) ← rdU32s n r
  let (rsid, r) ← if n = 0 then some (none, r) else (rdBE 8 r).map fun (x, r) => (some x, r)
  match op with
  | .ackV1 => if r = [] then some ⟨op, sid, acks, rsid, none, []⟩ else none
  | .controlV1 => do
    let (i, r) ← rdBE 4 r
    pure ⟨op, sid, acks, rsid, some i, r⟩
  | _ => do
    let (i, r) ← rdBE 4 r
    if r = [] then pure ⟨op, sid, acks, rsid, some i, []⟩ else none

/-- OpenVPN over TCP: each packet is preceded by its length as a 16-bit big-endian integer -/
def encodeOvpnTcp (packet : Bytes) : Bytes := toBytesBE 2 packet.length ++ packet

def decodeOvpnTcp (b : Bytes) : Option (Bytes × Nat) := do
  let (len, r) ← rdBE 2 b
  let (p, _) ← rdN len r
  pure (p, 2 + len)

/-! ### PostgreSQL -/

/-- `SSLRequest`: Int32(8) — length of the message including itself — and Int32(80877103), the
"SSL request code" 1234 in the most significant 16 bits and 5679 in the least significant -/
def pgSslRequestCode : Nat := 1234 * 2 ^ 16 + 5679

def encodePgSslRequest : Bytes := toBytesBE 4 8 ++ toBytesBE 4 pgSslRequestCode

def decodePgSslRequest (b : Bytes) : Option Nat := do
  let (len, r) ← rdBE 4 b
  let (code, _) ← rdBE 4 r
  if len = 8 ∧ code = pgSslRequestCode then some 8 else none

/-- `Sync`: Byte1('S') (the rest of that message is not sent by the library) -/
def encodePgSync : Bytes := [0x53]

/-! ### LDAP StartTLS (RFC 4511 §4.14.1, BER/DER) — stated byte by byte

    LDAPMessage ::= SEQUENCE { messageID INTEGER (1), protocolOp [APPLICATION 23] ExtendedRequest }
    ExtendedRequest ::= [APPLICATION 23] SEQUENCE { requestName [0] LDAPOID }
    with LDAPOID = "1.3.6.1.4.1.1466.20037" (22 octets of ASCII). -/

def ldapStartTlsOid : Bytes :=
  [0x31, 0x2e, 0x33, 0x2e, 0x36, 0x2e, 0x31, 0x2e, 0x34, 0x2e, 0x31, 0x2e, 0x31, 0x34, 0x36, 0x36, 0x2e,
   0x32, 0x30, 0x30, 0x33, 0x37]

/-- `30 1d | 02 01 01 | 77 18 | 80 16 <oid>` -/
def ldapStartTlsRequest : Bytes :=
  [0x30, 0x1d, 0x02, 0x01, 0x01, 0x77, 0x18, 0x80, 0x16] ++ ldapStartTlsOid

/-- ExtendedResponse ::= [APPLICATION 24] SEQUENCE { resultCode ENUMERATED, matchedDN "", diagnosticMessage "" }:
`30 0c | 02 01 01 | 78 07 | 0a 01 <rc> | 04 00 | 04 00` for a result code below 128 -/
def ldapStartTlsResponse (resultCode : Nat) : Bytes :=
  [0x30, 0x0c, 0x02, 0x01, 0x01, 0x78, 0x07, 0x0a, 0x01, UInt8.ofNat resultCode, 0x04, 0x00, 0x04, 0x00]

end Cp.Spec.Opp
