import CpSpec.Tls
/-
  CpSpec.TlsExt — the wire layouts of the hello extensions with structured bodies and of the
  CertificateRequest message, written down from the RFC presentation language, independently of the
  model's combinators: only `Spec.toBytesBE` and the vector helpers of `CpSpec/Tls.lean` are used.
  Every ceiling is the RFC's, hard-coded here.

    RFC 6066 §3   server_name            RFC 7301 §3.1  application_layer_protocol_negotiation
    RFC 6066 §8   status_request         draft-agl-tls-nextprotoneg-04 §3   next_protocol_negotiation
    RFC 8446 §4.2.8  key_share           RFC 8472 §2    token_binding
    RFC 6962 §3.2/§3.3  signed_certificate_timestamp     RFC 5246 §7.4.4  CertificateRequest
-/
namespace Cp.Spec.TlsExt
open Cp Cp.Spec.Tls

def u64 (v : Nat) : Bytes := Spec.toBytesBE 8 v

/-- RFC 5246 §7.4.1.4: `struct { ExtensionType extension_type; opaque extension_data<0..2^16-1>; } Extension;` -/
def encodeExtension (typ : Nat) (data : Bytes) : Bytes := u16 typ ++ opaqueVec 65535 data

/-- RFC 6066 §3: `struct { NameType name_type; select (name_type) { case host_name: HostName; } name; }
ServerName;  opaque HostName<1..2^16-1>;  struct { ServerName server_name_list<1..2^16-1> } ServerNameList;`
— a list with the one host name -/
def encodeServerName (nameType : Nat) (host : Bytes) : Bytes :=
  vec 65535 [u8 nameType ++ opaqueVec 65535 host]

/-- RFC 7301 §3.1: `opaque ProtocolName<1..2^8-1>;  struct { ProtocolName protocol_name_list<2..2^16-1> }
ProtocolNameList;` (ALPS, draft-vvv-tls-alps-01 §4, reuses the structure) -/
def encodeProtocolNames (names : List Bytes) : Bytes := vec 65535 (names.map (opaqueVec 255))

/-- draft-agl-tls-nextprotoneg-04 §3: "the extension_data field … contains … a list of 8-bit length
prefixed strings" — no list prefix of its own -/
def encodeNextProtocolNames (names : List Bytes) : Bytes := (names.map (opaqueVec 255)).flatten

/-- RFC 6066 §8: `struct { CertificateStatusType status_type; select (status_type) { case ocsp:
OCSPStatusRequest; } request; } CertificateStatusRequest;  struct { ResponderID responder_id_list<0..2^16-1>;
Extensions request_extensions; } OCSPStatusRequest;  opaque ResponderID<1..2^16-1>;  opaque Extensions<0..2^16-1>;`
with `ocsp(1)` -/
def encodeStatusRequest (responderIds : List Bytes) (extensions : Bytes) : Bytes :=
  u8 1 ++ vec 65535 (responderIds.map (opaqueVec 65535)) ++ opaqueVec 65535 extensions

/-- RFC 8446 §4.2.8: `struct { NamedGroup group; opaque key_exchange<1..2^16-1>; } KeyShareEntry;` -/
def encodeKeyShareEntry (group : Nat) (keyExchange : Bytes) : Bytes := u16 group ++ opaqueVec 65535 keyExchange

/-- `struct { KeyShareEntry client_shares<0..2^16-1>; } KeyShareClientHello;` -/
def encodeKeyShareClientHello (shares : List (Nat × Bytes)) : Bytes :=
  vec 65535 (shares.map fun s => encodeKeyShareEntry s.1 s.2)

/-- `struct { KeyShareEntry server_share; } KeyShareServerHello;` -/
def encodeKeyShareServerHello (group : Nat) (keyExchange : Bytes) : Bytes := encodeKeyShareEntry group keyExchange

/-- `struct { NamedGroup selected_group; } KeyShareHelloRetryRequest;` -/
def encodeKeyShareHelloRetryRequest (group : Nat) : Bytes := u16 group

/-- RFC 8472 §2: `struct { uint8 major; uint8 minor; } TB_ProtocolVersion;  struct { TB_ProtocolVersion
token_binding_version; TokenBindingKeyParameters key_parameters_list<1..2^8-1> } TokenBindingParameters;` -/
def encodeTokenBinding (major minor : Nat) (keyParameters : List Nat) : Bytes :=
  u8 major ++ u8 minor ++ vec 255 (keyParameters.map u8)

/-- RFC 6962 §3.2: `struct { Version sct_version; LogID id; uint64 timestamp; CtExtensions extensions;
digitally-signed struct { … } } SignedCertificateTimestamp;` with `opaque key_id[32]`,
`opaque CtExtensions<0..2^16-1>`, and the digitally-signed element of RFC 5246 §4.7
(`SignatureAndHashAlgorithm algorithm; opaque signature<0..2^16-1>`) -/
def encodeSct (version : Nat) (logId : Bytes) (timestamp : Nat) (extensions : Bytes) (algorithm : Nat)
    (signature : Bytes) : Bytes :=
  u8 version ++ logId ++ u64 timestamp ++ opaqueVec 65535 extensions ++ u16 algorithm ++ opaqueVec 65535 signature

/-- RFC 6962 §3.3: `opaque SerializedSCT<1..2^16-1>;  struct { SerializedSCT sct_list <1..2^16-1>; }
SignedCertificateTimestampList;` over already encoded SCTs -/
def encodeSctList (scts : List Bytes) : Bytes := vec 65535 (scts.map (opaqueVec 65535))

/-- RFC 5246 §7.4.4: `struct { ClientCertificateType certificate_types<1..2^8-1>; SignatureAndHashAlgorithm
supported_signature_algorithms<2^16-1>; DistinguishedName certificate_authorities<0..2^16-1>; }
CertificateRequest;  opaque DistinguishedName<1..2^16-1>;` — before TLS 1.2 without the algorithms -/
def encodeCertificateRequest (certificateTypes : List Nat) (signatureAlgorithms : Option (List Nat))
    (authorities : List Bytes) : Bytes :=
  vec 255 (certificateTypes.map u8) ++
    (match signatureAlgorithms with
      | none => []
      | some algs => vec 65534 (algs.map u16)) ++
    vec 65535 (authorities.map (opaqueVec 65535))

/-- RFC ceilings of the vectors of these structures: (class name, floor, ceiling); RFC 6962 §3.2/§3.3
(CtExtensions<0..2^16-1>, signature<0..2^16-1>, sct_list<1..2^16-1>), the NPN draft (names of 1..255 bytes) -/
def rfcVectors : List (String × Nat × Nat) := [
  ("CtExtensions", 0, 65535),
  ("CtSignature", 0, 65535),
  ("SignedCertificateTimestampList", 1, 65535),
  ("TlsNextProtocolNameFactory", 1, 255),
  ("TlsNextProtocolNameList", 1, 65535)
]

end Cp.Spec.TlsExt
