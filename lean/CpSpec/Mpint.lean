import CpSpec.Wire
/-
  CpSpec.Mpint — the `mpint` wire form of RFC 4251 §5 for non-negative integers, written without
  reference to the model's primitives:

    "Represents multiple precision integers in two's complement format, stored as a string, 8 bits
     per byte, MSB first. [...] Unnecessary leading bytes with the value 0 or 255 MUST NOT be
     included.  The value zero MUST be stored as a string with zero bytes of data. [...] If the most
     significant bit would be set for a positive number, the number MUST be preceded by a zero byte."
-/
namespace Cp.Spec

/-- radix-256 digits of `v`, most significant first, no leading zero digit; `fuel` bounds the
number of digits produced (any `fuel ≥ v` is enough since `v / 256 < v`). -/
def minBytesBEAux : Nat → Nat → Cp.Bytes
  | 0, _ => []
  | fuel + 1, v => if v = 0 then [] else minBytesBEAux fuel (v / 256) ++ [UInt8.ofNat (v % 256)]

/-- The shortest big-endian byte string with value `v` (empty for zero). -/
def minBytesBE (v : Nat) : Cp.Bytes := minBytesBEAux v v

/-- The data bytes of the `mpint` for a non-negative `v`: the minimal big-endian bytes, preceded by
exactly one `00` when the most significant bit of the first byte is set. -/
def sshMpintBodyNonneg (v : Nat) : Cp.Bytes :=
  match minBytesBE v with
  | [] => []
  | x :: xs => if 128 ≤ x.toNat then 0 :: x :: xs else x :: xs

/-- An SSH `string`: `uint32` length (network byte order) followed by the data. -/
def sshString (body : Cp.Bytes) : Cp.Bytes := toBytesBE 4 body.length ++ body

/-- The complete RFC 4251 `mpint` encoding of a non-negative integer. -/
def sshMpintNonneg (v : Nat) : Cp.Bytes := sshString (sshMpintBodyNonneg v)

end Cp.Spec
