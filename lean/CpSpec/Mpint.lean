import CpSpec.Wire
/-
  CpSpec.Mpint — the `mpint` wire form of RFC 4251 §5, written without reference to the model's
  primitives: first for non-negative integers (minimal digits and the `00` rule), then for every
  integer (the shortest two's complement):

    "Represents multiple precision integers in two's complement format, stored as a string, 8 bits
     per byte, MSB first. [...] Unnecessary leading bytes with the value 0 or 255 MUST NOT be
     included.  The value zero MUST be stored as a string with zero bytes of data. [...] If the most
     significant bit would be set for a positive number, the number MUST be preceded by a zero byte."
-/
namespace Cp.Spec

/-- radix-256 digits of `v`, most significant first, no leading zero digit; `fuel` bounds the
number of digits produced (any `fuel ≥ v` is enough since `v / 256 < v`). -/
def minBytesBEAux : Nat → Nat → Cp.Bytes
  | 0, _ => []
  | fuel + 1, v => if v = 0 then [] else minBytesBEAux fuel (v / 256) ++ [UInt8.ofNat (v % 256)]

/-- The shortest big-endian byte string with value `v` (empty for zero). -/
def minBytesBE (v : Nat) : Cp.Bytes := minBytesBEAux v v

/-- The data bytes of the `mpint` for a non-negative `v`: the minimal big-endian bytes, preceded by
exactly one `00` when the most significant bit of the first byte is set. -/
def sshMpintBodyNonneg (v : Nat) : Cp.Bytes :=
  match minBytesBE v with
  | [] => []
  | x :: xs => if 128 ≤ x.toNat then 0 :: x :: xs else x :: xs

/-- An SSH `string`: `uint32` length (network byte order) followed by the data. -/
def sshString (body : Cp.Bytes) : Cp.Bytes := toBytesBE 4 body.length ++ body

/-- The complete RFC 4251 `mpint` encoding of a non-negative integer. -/
def sshMpintNonneg (v : Nat) : Cp.Bytes := sshString (sshMpintBodyNonneg v)

/-! ### every integer: the shortest two's complement

RFC 4251 §5 examples: `0 ↦ 00 00 00 00`, `0x80 ↦ 00 00 00 02 00 80`, `-0x1234 ↦ 00 00 00 02 ed cc`,
`-0xdeadbeef ↦ 00 00 00 05 ff 21 52 41 11`. -/

/-- `v` can be written as an `L`-byte two's complement: `-2^(8L-1) ≤ v < 2^(8L-1)` (both sides
doubled so that `L = 0`, which holds only `0`, needs no fraction). -/
def FitsSigned (v : Int) (L : Nat) : Prop :=
  -((256 ^ L : Nat) : Int) ≤ 2 * v ∧ 2 * v < ((256 ^ L : Nat) : Int)

instance (v : Int) (L : Nat) : Decidable (FitsSigned v L) := by
  unfold FitsSigned; exact inferInstance

/-- the first `L ≥ start` with `FitsSigned v L`, trying at most `fuel` candidates -/
def minSignedLenAux : Nat → Nat → Int → Nat
  | 0, L, _ => L
  | fuel + 1, L, v => if FitsSigned v L then L else minSignedLenAux fuel (L + 1) v

/-- The least number of bytes whose two's complement range contains `v` (`0` for `v = 0`); the
search is bounded by `2|v| + 1` candidates, which is always enough (`L < 256^L`). -/
def minSignedLen (v : Int) : Nat := minSignedLenAux (2 * v.natAbs + 1) 0 v

/-- The `L`-byte two's complement of `v`, MSB first: the digits of `v` itself, or of `2^(8L) + v` for
a negative `v` (`int.to_bytes(L, 'big', signed=True)`). -/
def twosComplementBE (L : Nat) (v : Int) : Cp.Bytes :=
  toBytesBE L (if v < 0 then (((256 ^ L : Nat) : Int) + v).toNat else v.toNat)

/-- The data bytes of the `mpint` of any integer: its two's complement in the least number of bytes
("unnecessary leading bytes with the value 0 or 255 MUST NOT be included", zero has no data). -/
def sshMpintBody (v : Int) : Cp.Bytes := twosComplementBE (minSignedLen v) v

/-- The complete RFC 4251 `mpint` encoding of an integer. -/
def sshMpint (v : Int) : Cp.Bytes := sshString (sshMpintBody v)

/-- The integer that `mpint` data bytes denote: big-endian two's complement, the sign is the top bit
of the first byte (no data is zero). -/
def fromBytesSigned (b : Cp.Bytes) : Int :=
  match b with
  | [] => 0
  | x :: _ => if 128 ≤ x.toNat then (fromBytesBE b : Int) - ((256 ^ b.length : Nat) : Int) else (fromBytesBE b : Int)

end Cp.Spec
