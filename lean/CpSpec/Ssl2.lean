import CpSpec.Wire
/-
  CpSpec.Ssl2 — the SSL 2.0 wire format written down from the protocol text (Hickman, "The SSL
  Protocol", Netscape, 1995: §"SSL Record Header Format", §"Client Only Protocol Messages",
  §"Server Only Protocol Messages", §"Client/Server Protocol Messages"), independently of the model:
  only `Spec.toBytesBE` is used, all values are plain naturals and byte strings.

  Record header.  "If the most significant bit is set in the first byte of the record length code then
  the record has no padding and the total header length will be 2 bytes, otherwise the record has
  padding and the total header length will be 3 bytes":

      2-byte header:  RECORD-LENGTH = ((byte[0] & 0x7f) << 8) | byte[1]
      3-byte header:  RECORD-LENGTH = ((byte[0] & 0x3f) << 8) | byte[1]
                      IS-ESCAPE     =  (byte[0] & 0x40) != 0
                      PADDING       =   byte[2]

  "The record length code does not include the number of bytes consumed by the record header"; in the
  3-byte form the padding follows the data and is counted in RECORD-LENGTH.
-/
namespace Cp.Spec.Ssl2
open Cp

def u8 (v : Nat) : Bytes := Spec.toBytesBE 1 v
def u16 (v : Nat) : Bytes := Spec.toBytesBE 2 v
def u24 (v : Nat) : Bytes := Spec.toBytesBE 3 v

/-- message type codes -/
def MSG_ERROR : Nat := 0
def MSG_CLIENT_HELLO : Nat := 1
def MSG_SERVER_HELLO : Nat := 4

/-- SSL_CLIENT_VERSION / SSL_SERVER_VERSION -/
def VERSION : Nat := 0x0002

/-- SSL_CT_X509_CERTIFICATE -/
def CT_X509_CERTIFICATE : Nat := 1

/-- `1 | 15-bit length`, then the data (no padding) -/
def encodeRecord2 (data : Bytes) : Bytes := u16 (0x8000 + data.length) ++ data

/-- `0 | is-escape | 14-bit length`, padding length, data, padding; the length counts both -/
def encodeRecord3 (isEscape : Bool) (data padding : Bytes) : Bytes :=
  u16 ((if isEscape then 0x4000 else 0) + (data.length + padding.length)) ++ u8 padding.length ++ data ++ padding

/-- ERROR: char MSG-ERROR; char ERROR-CODE-MSB; char ERROR-CODE-LSB -/
def encodeError (errorCode : Nat) : Bytes := u8 MSG_ERROR ++ u16 errorCode

/-- CLIENT-HELLO: char MSG-CLIENT-HELLO; char CLIENT-VERSION-MSB, -LSB; char CIPHER-SPECS-LENGTH-MSB,
-LSB; char SESSION-ID-LENGTH-MSB, -LSB; char CHALLENGE-LENGTH-MSB, -LSB; char CIPHER-SPECS-DATA[];
char SESSION-ID-DATA[]; char CHALLENGE-DATA[].  A cipher spec is three bytes. -/
def encodeClientHello (version : Nat) (cipherSpecs : List Nat) (sessionId challenge : Bytes) : Bytes :=
  u8 MSG_CLIENT_HELLO ++ u16 version ++ u16 (3 * cipherSpecs.length) ++ u16 sessionId.length ++
    u16 challenge.length ++ (cipherSpecs.map u24).flatten ++ sessionId ++ challenge

/-- SERVER-HELLO: char MSG-SERVER-HELLO; char SESSION-ID-HIT; char CERTIFICATE-TYPE; char
SERVER-VERSION-MSB, -LSB; char CERTIFICATE-LENGTH-MSB, -LSB; char CIPHER-SPECS-LENGTH-MSB, -LSB; char
CONNECTION-ID-LENGTH-MSB, -LSB; char CERTIFICATE-DATA[]; char CIPHER-SPECS-DATA[]; char
CONNECTION-ID-DATA[] -/
def encodeServerHello (sessionIdHit : Bool) (certificateType version : Nat) (certificate : Bytes)
    (cipherSpecs : List Nat) (connectionId : Bytes) : Bytes :=
  u8 MSG_SERVER_HELLO ++ u8 (if sessionIdHit then 1 else 0) ++ u8 certificateType ++ u16 version ++
    u16 certificate.length ++ u16 (3 * cipherSpecs.length) ++ u16 connectionId.length ++
    certificate ++ (cipherSpecs.map u24).flatten ++ connectionId

/-- the record length a header declares, read back as the protocol text defines it -/
def declaredLength (b0 b1 : Nat) : Nat :=
  if b0 / 128 % 2 = 1 then (b0 % 128) * 256 + b1 else (b0 % 64) * 256 + b1

end Cp.Spec.Ssl2
