/-
  CpSpec.TextRfc — what the governing specifications say about the CASE of directive / parameter / attribute / tag
  names of the text fields, written by hand from the RFC texts (no import of the model, no data from the code).

  One rule per (class, directive name).  The class is named as the library names it, the directive name is written in
  lower case (the join with the regenerated component table `Cp.Gen.fieldTables` compares names case-insensitively, so
  a change of the library's canonical SPELLING of a name does not detach it from its rule).

    insensitive   the specification says the name is compared case-insensitively
    sensitive     the specification says it is case-sensitive
    unspecified   there is no governing specification (X-XSS-Protection, the positional first element)

  References
  * RFC 7234 §5.2        "Cache directives are identified by a token, to be compared case-insensitively"
  * RFC 9163 §2.1 (3.)   "Directive names are case insensitive."                                   (Expect-CT)
  * RFC 6797 §6.1 (3.)   "Directive names are case-insensitive."                                   (HSTS)
  * RFC 7469 §2.1 (3.)   "Directive names are case insensitive."                                   (HPKP)
  * Expect-Staple         no RFC; the draft reuses the HSTS/HPKP directive grammar ("directive names are
                          case-insensitive")
  * RFC 7231 §3.1.1.1    "The type, subtype, and parameter name tokens are case-insensitive."      (Content-Type)
  * RFC 6265 §5.2.1–§5.2.6 "If the attribute-name case-insensitively matches the string "Expires" / "Max-Age" /
                          "Domain" / "Path" / "Secure" / "HttpOnly""; SameSite: draft-ietf-httpbis-rfc6265bis §5.6.7
                          "If the attribute-name case-insensitively matches the string "SameSite""
  * RFC 7489 §6.3        DMARC records follow the tag-value syntax of DKIM; RFC 6376 §3.2 "Tags MUST be interpreted in a
                          case-sensitive manner."
  * RFC 8461 §3.1        `sts-version = %s"v=STSv1"`, `sts-id = %s"id=" …` (%s: case-sensitive, RFC 7405)
  * RFC 8460 §3          `tlsrpt-version = %s"v=TLSRPTv1"`, `tlsrpt-rua = %s"rua=" …`
-/
namespace Cp.Spec.TextRfc

inductive NameCase where
  | insensitive | sensitive | unspecified
deriving DecidableEq, Repr

structure NameRule where
  cls : String
  /-- directive name, lower case; `""` is the positional first element -/
  name : String
  rule : NameCase
  ref : String
deriving DecidableEq, Repr

private def ins (cls ref : String) (names : List String) : List NameRule := names.map fun n => ⟨cls, n, .insensitive, ref⟩
private def sen (cls ref : String) (names : List String) : List NameRule := names.map fun n => ⟨cls, n, .sensitive, ref⟩

def nameRules : List NameRule :=
  ins "HttpHeaderFieldValueCacheControlResponse" "RFC 7234 5.2"
    ["max-age", "s-maxage", "must-revalidate", "proxy-revalidate", "no-cache", "no-store", "public", "private", "no-transform"] ++
  ins "HttpHeaderFieldValueExpectCT" "RFC 9163 2.1" ["max-age", "enforce", "report-uri"] ++
  ins "HttpHeaderFieldValueSTS" "RFC 6797 6.1" ["max-age", "includesubdomains", "preload"] ++
  ins "HttpHeaderFieldValueExpectStaple" "Expect-Staple draft (RFC 6797 6.1 grammar)"
    ["max-age", "includesubdomains", "preload", "report-uri"] ++
  [⟨"HttpHeaderFieldValueContentType", "", .unspecified, "RFC 7231 3.1.1.1 (type/subtype: positional)"⟩] ++
  ins "HttpHeaderFieldValueContentType" "RFC 7231 3.1.1.1" ["charset", "boundary"] ++
  ins "HttpHeaderFieldValuePublicKeyPinning" "RFC 7469 2.1" ["pin-sha256", "max-age", "includesubdomains", "report-uri"] ++
  ins "HttpHeaderFieldValueSetCookieParams" "RFC 6265 5.2.1-5.2.6" ["expires", "max-age", "domain", "path", "secure", "httponly"] ++
  ins "HttpHeaderFieldValueSetCookieParams" "draft-ietf-httpbis-rfc6265bis 5.6.7" ["samesite"] ++
  [⟨"HttpHeaderFieldValueXXSSProtection", "", .unspecified, "no specification"⟩,
   ⟨"HttpHeaderFieldValueXXSSProtection", "mode", .unspecified, "no specification"⟩,
   ⟨"HttpHeaderFieldValueXXSSProtection", "report", .unspecified, "no specification"⟩] ++
  sen "DnsRecordTxtValueDmarc" "RFC 7489 6.3 / RFC 6376 3.2"
    ["v", "p", "adkim", "aspf", "fo", "pct", "rua", "ruf", "rf", "ri", "sp"] ++
  sen "DnsRecordTxtValueMtaSts" "RFC 8461 3.1" ["v", "id"] ++
  sen "DnsRecordTxtValueTlsRpt" "RFC 8460 3" ["v", "rua"]

/-- the rule for a (class, lower-case name), if one is written -/
def ruleFor (cls name : String) : Option NameRule :=
  nameRules.find? fun r => r.cls == cls && r.name == name

end Cp.Spec.TextRfc
