/-
  CpSpec.Codes — protocol constants written down from the specifications, independently of
  the code (never generated).
-/
namespace Cp.Spec

/-- Code points that a protocol itself assigns to two message names. RFC 4253 §7 assigns 31 to
SSH_MSG_KEXDH_REPLY and RFC 4419 §5 assigns 31 to SSH_MSG_KEX_DH_GEX_GROUP. -/
def sanctionedShared : List (String × Nat) := [("SshMessageCode", 31)]

/-- RFC 8701 §2: GREASE values for cipher suites, extensions, named groups, signature algorithms,
versions: 0x0A0A, 0x1A1A, …, 0xFAFA. -/
def grease16 : List Nat := (List.range 16).map fun i => (16 * i + 10) * 257

/-- RFC 8701 §2: GREASE values for PskKeyExchangeModes: 0x0B, 0x2A, 0x49, 0x68, 0x87, 0xA6, 0xC5, 0xE4. -/
def grease8 : List Nat := (List.range 8).map fun i => 31 * i + 11

/-- RFC 7507 TLS_FALLBACK_SCSV and RFC 5746 TLS_EMPTY_RENEGOTIATION_INFO_SCSV -/
def fallbackScsv : Nat := 0x5600
def emptyRenegotiationInfoScsv : Nat := 0x00ff

end Cp.Spec
