import CpSpec.Wire
import CpSpec.Codes
/-
  CpSpec.Ja3 — the published JA3 definition (salesforce/ja3 README) applied DIRECTLY to the bytes of
  a ClientHello handshake message: "SSLVersion,Cipher,SSLExtension,EllipticCurve,
  EllipticCurvePointFormat", decimal values joined by "-", sections joined by ",", GREASE values
  (RFC 8701) ignored in every section, nothing else added, removed or reordered.
  Written without any reference to the model (only `Spec.fromBytesBE`).
-/
namespace Cp.Spec.Ja3
open Cp

def u (b : Bytes) : Nat := Spec.fromBytesBE b

def isGrease16 (c : Nat) : Bool := Spec.grease16.contains c
/-- GREASE for one-byte code spaces does not exist for point formats; RFC 8701 defines one-byte
GREASE only for PskKeyExchangeModes, so no point-format value is ever dropped. -/
def isGrease8 (_ : Nat) : Bool := false

def chunks (k : Nat) : Nat → Bytes → List Nat
  | 0, _ => []
  | fuel + 1, b => if b.length < k then [] else u (b.take k) :: chunks k fuel (b.drop k)

/-- (type, data) pairs of an extension block -/
def extList : Nat → Bytes → Option (List (Nat × Bytes))
  | 0, b => if b.isEmpty then some [] else none
  | fuel + 1, b =>
    if b.isEmpty then some []
    else if b.length < 4 then none
    else
      let t := u (b.take 2)
      let len := u ((b.drop 2).take 2)
      if (b.drop 4).length < len then none
      else (extList fuel (b.drop (4 + len))).map (fun r => (t, (b.drop 4).take len) :: r)

def dec (xs : List Nat) : String := "-".intercalate (xs.map toString)

/-- the last stage of the definition: filter GREASE from every section, decimal, join -/
def ja3OfFields (version : Nat) (suites exts groups formats : List Nat) : String :=
  ",".intercalate [
    toString version,
    dec (suites.filter (fun c => !isGrease16 c)),
    dec (exts.filter (fun c => !isGrease16 c)),
    dec (groups.filter (fun c => !isGrease16 c)),
    dec (formats.filter (fun c => !isGrease8 c))]

/-- JA3 of the bytes of one ClientHello handshake message (type 1, uint24 length, body) -/
def ja3Ref (m : Bytes) : Option String :=
  if m.length < 4 || m.headD 0 != 1 then none else
  let len := u ((m.drop 1).take 3)
  let b := (m.drop 4).take len
  if b.length < len || b.length < 35 then none else
  let version := u (b.take 2)
  let sidLen := u ((b.drop 34).take 1)
  let b1 := b.drop (35 + sidLen)
  if b1.length < 2 then none else
  let csLen := u (b1.take 2)
  let suites := chunks 2 csLen ((b1.drop 2).take csLen)
  let b2 := b1.drop (2 + csLen)
  if b2.length < 1 then none else
  let cmLen := u (b2.take 1)
  let b3 := b2.drop (1 + cmLen)
  let exts : Option (List (Nat × Bytes)) :=
    if b3.isEmpty then some []
    else if b3.length < 2 then none
    else extList (u (b3.take 2) + 1) ((b3.drop 2).take (u (b3.take 2)))
  match exts with
  | none => none
  | some es =>
    let groups := (es.filter (·.1 == 10)).getLast?.map (fun e =>
      chunks 2 e.2.length ((e.2.drop 2).take (u (e.2.take 2)))) |>.getD []
    let formats := (es.filter (·.1 == 11)).getLast?.map (fun e =>
      chunks 1 e.2.length ((e.2.drop 1).take (u (e.2.take 1)))) |>.getD []
    some (ja3OfFields version suites (es.map (·.1)) groups formats)

end Cp.Spec.Ja3
