import CpModel.Basic
/-
  CpSpec.Wire — integer encodings as the specifications define them (RFC 8446 §3.3 / RFC 4251 §5:
  "multi-byte values are stored in network byte order"), written without reference to the model's
  primitives.  Digit `i` (from the most significant end) of a `k`-byte value is `v / 256^(k-1-i) % 256`.
-/
namespace Cp.Spec

/-- `int.to_bytes(k, 'big')` -/
def toBytesBE (k v : Nat) : Cp.Bytes := (List.range k).map fun i => UInt8.ofNat (v / 256 ^ (k - 1 - i) % 256)

/-- `int.to_bytes(k, 'little')` -/
def toBytesLE (k v : Nat) : Cp.Bytes := (List.range k).map fun i => UInt8.ofNat (v / 256 ^ i % 256)

/-- `int.from_bytes(b, 'big')` -/
def fromBytesBE (b : Cp.Bytes) : Nat := b.foldl (fun a x => a * 256 + x.toNat) 0

end Cp.Spec
