import CpSpec.Mpint
/-
  CpSpec.Ssh — the SSH wire formats written from the specification text, without reference to the
  model's combinators:

    RFC 4251 §5   byte, boolean, uint32, string, mpint, name-list
    RFC 4253 §4.2 identification string        §6 binary packet       §6.6 ssh-rsa / ssh-dss blobs
    RFC 4253 §7.1 SSH_MSG_KEXINIT              §8 KEXDH_INIT / REPLY  §11 DISCONNECT, UNIMPLEMENTED
    RFC 4419 §3   DH group exchange            RFC 5656 §3.1 ecdsa-sha2-*   RFC 8709 §4 ssh-ed25519
    RFC 4648 §4   base 64
    HASSH (Salesforce): MD5 of "kex;enc;mac;cmp" — the four name-list strings as sent.
-/
namespace Cp.Spec.Ssh
open Cp Cp.Spec

/-! ### RFC 4251 §5 data types -/

def uint32 (v : Nat) : Bytes := toBytesBE 4 v
def uint64 (v : Nat) : Bytes := toBytesBE 8 v
def boolean (b : Bool) : Bytes := [if b then 1 else 0]
/-- `string`: uint32 length, then the bytes -/
def string (s : Bytes) : Bytes := sshString s
/-- `mpint` of a non-negative integer -/
def mpint (v : Nat) : Bytes := sshMpintNonneg v

def comma : UInt8 := 0x2c
def semicolon : UInt8 := 0x3b

/-- names separated by commas, no trailing comma -/
def joinNames : List Bytes → Bytes
  | [] => []
  | [a] => a
  | a :: b :: rest => a ++ comma :: joinNames (b :: rest)

/-- `name-list`: "a string containing a comma-separated list of names" -/
def nameList (names : List Bytes) : Bytes := string (joinNames names)

/-- "A name MUST have a non-zero length, and it MUST NOT contain a comma"; "US-ASCII" -/
def validName (n : Bytes) : Bool := !n.isEmpty && n.all fun c => c != comma && decide (c.toNat < 128)

/-- split a name-list string at commas (the empty string is the empty list) -/
def splitComma : Bytes → List Bytes
  | [] => [[]]
  | x :: xs =>
    match splitComma xs with
    | [] => [[x]]
    | p :: ps => if x = comma then [] :: p :: ps else (x :: p) :: ps

def decodeNames (s : Bytes) : Option (List Bytes) :=
  if s.isEmpty then some []
  else
    let l := splitComma s
    if l.all validName then some l else none

/-- read one `string` from the front: its content and what follows -/
def takeString (b : Bytes) : Option (Bytes × Bytes) :=
  if b.length < 4 then none
  else
    let len := fromBytesBE (b.take 4)
    let rest := b.drop 4
    if rest.length < len then none else some (rest.take len, rest.drop len)

/-! ### RFC 4253 §6 binary packet (no MAC, block size 8)

  "random padding: Arbitrary-length padding, such that the total length of
   (packet_length || padding_length || payload || random padding) is a multiple of the cipher block
   size or 8, whichever is larger.  There MUST be at least four bytes of padding. […] The maximum
   amount of padding is 255 bytes."  `packet_length` = length of the packet not counting itself. -/

/-- the least admissible padding length -/
def paddingLength (payload : Nat) : Nat :=
  let r := (4 + 1 + payload + 4) % 8
  if r = 0 then 4 else 4 + (8 - r)

/-- `b` is a binary packet carrying `payload` -/
def IsBinaryPacket (b payload : Bytes) : Prop :=
  ∃ padding : Bytes, 4 ≤ padding.length ∧ padding.length ≤ 255 ∧
    (4 + 1 + payload.length + padding.length) % 8 = 0 ∧
    b = uint32 (1 + payload.length + padding.length) ++ [UInt8.ofNat padding.length] ++ payload ++ padding

/-- the packet with the least padding, padding bytes zero -/
def binaryPacket (payload : Bytes) : Bytes :=
  let p := paddingLength payload.length
  uint32 (1 + payload.length + p) ++ [UInt8.ofNat p] ++ payload ++ List.replicate p 0

/-- decode a binary packet from the front of `b`: payload and the rest of the stream -/
def decodePacket (b : Bytes) : Option (Bytes × Bytes) :=
  if b.length < 5 then none
  else
    let plen := fromBytesBE (b.take 4)
    let pad := (b.getD 4 0).toNat
    if b.length < 4 + plen ∨ plen < 1 + pad ∨ pad < 4 ∨ (4 + plen) % 8 ≠ 0 then none
    else some ((b.drop 5).take (plen - pad - 1), b.drop (4 + plen))

/-! ### RFC 4253 §7.1 SSH_MSG_KEXINIT -/

structure KexInit where
  cookie : Bytes
  kex : List Bytes
  serverHostKey : List Bytes
  encC2S : List Bytes
  encS2C : List Bytes
  macC2S : List Bytes
  macS2C : List Bytes
  compC2S : List Bytes
  compS2C : List Bytes
  langC2S : List Bytes
  langS2C : List Bytes
  firstKexPacketFollows : Bool
  reserved : Nat
deriving Repr, DecidableEq

def SSH_MSG_DISCONNECT : UInt8 := 1
def SSH_MSG_UNIMPLEMENTED : UInt8 := 3
def SSH_MSG_KEXINIT : UInt8 := 20
def SSH_MSG_NEWKEYS : UInt8 := 21
def SSH_MSG_KEXDH_INIT : UInt8 := 30
def SSH_MSG_KEXDH_REPLY : UInt8 := 31
def SSH_MSG_KEX_DH_GEX_GROUP : UInt8 := 31
def SSH_MSG_KEX_DH_GEX_INIT : UInt8 := 32
def SSH_MSG_KEX_DH_GEX_REPLY : UInt8 := 33
def SSH_MSG_KEX_DH_GEX_REQUEST : UInt8 := 34

def encodeKexInit (k : KexInit) : Bytes :=
  [SSH_MSG_KEXINIT] ++ k.cookie ++ nameList k.kex ++ nameList k.serverHostKey ++
    nameList k.encC2S ++ nameList k.encS2C ++ nameList k.macC2S ++ nameList k.macS2C ++
    nameList k.compC2S ++ nameList k.compS2C ++ nameList k.langC2S ++ nameList k.langS2C ++
    boolean k.firstKexPacketFollows ++ uint32 k.reserved

/-- the ten name-list strings of a KEXINIT payload exactly as sent (no interpretation), and the rest -/
def kexInitStrings (b : Bytes) : Option (List Bytes × Bytes) :=
  match b with
  | [] => none
  | t :: rest =>
    if t ≠ SSH_MSG_KEXINIT ∨ rest.length < 16 then none
    else go 10 (rest.drop 16)
where
  go : Nat → Bytes → Option (List Bytes × Bytes)
    | 0, r => some ([], r)
    | n + 1, r =>
      match takeString r with
      | none => none
      | some (s, r') =>
        match go n r' with
        | none => none
        | some (l, r'') => some (s :: l, r'')

def joinWith (sep : UInt8) : List Bytes → Bytes
  | [] => []
  | [a] => a
  | a :: b :: rest => a ++ sep :: joinWith sep (b :: rest)

/-- HASSH preimage: kex_algorithms;encryption_algorithms_client_to_server;mac_…_client_to_server;
compression_…_client_to_server, each the name-list string as on the wire -/
def hasshPreimageOfWire (b : Bytes) : Option Bytes :=
  match kexInitStrings b with
  | some ([kex, _, encC, _, macC, _, cmpC, _, _, _], _) => some (joinWith semicolon [kex, encC, macC, cmpC])
  | _ => none

/-- HASSH-server preimage: the server-to-client lists -/
def hasshServerPreimageOfWire (b : Bytes) : Option Bytes :=
  match kexInitStrings b with
  | some ([kex, _, _, encS, _, macS, _, cmpS, _, _], _) => some (joinWith semicolon [kex, encS, macS, cmpS])
  | _ => none

def decodeKexInit (b : Bytes) : Option KexInit :=
  match kexInitStrings b with
  | some ([a, h, c, d, e, f, g, i, j, k], rest) =>
    if rest.length ≠ 5 then none
    else do
      let a ← decodeNames a; let h ← decodeNames h; let c ← decodeNames c; let d ← decodeNames d
      let e ← decodeNames e; let f ← decodeNames f; let g ← decodeNames g; let i ← decodeNames i
      let j ← decodeNames j; let k ← decodeNames k
      some ⟨(b.drop 1).take 16, a, h, c, d, e, f, g, i, j, k, rest.headD 0 != 0, fromBytesBE (rest.drop 1)⟩
  | _ => none

/-! ### RFC 4253 §8, RFC 4419 §3, §11 -/

def encodeKexdhInit (e : Nat) : Bytes := [SSH_MSG_KEXDH_INIT] ++ mpint e
def encodeKexdhReply (hostKeyBlob : Bytes) (f : Nat) (signature : Bytes) : Bytes :=
  [SSH_MSG_KEXDH_REPLY] ++ string hostKeyBlob ++ mpint f ++ string signature
def encodeGexRequest (min n max : Nat) : Bytes := [SSH_MSG_KEX_DH_GEX_REQUEST] ++ uint32 min ++ uint32 n ++ uint32 max
def encodeGexGroup (p g : Nat) : Bytes := [SSH_MSG_KEX_DH_GEX_GROUP] ++ mpint p ++ mpint g
def encodeGexInit (e : Nat) : Bytes := [SSH_MSG_KEX_DH_GEX_INIT] ++ mpint e
def encodeGexReply (hostKeyBlob : Bytes) (f : Nat) (signature : Bytes) : Bytes :=
  [SSH_MSG_KEX_DH_GEX_REPLY] ++ string hostKeyBlob ++ mpint f ++ string signature
def encodeNewKeys : Bytes := [SSH_MSG_NEWKEYS]
def encodeDisconnect (reason : Nat) (description language : Bytes) : Bytes :=
  [SSH_MSG_DISCONNECT] ++ uint32 reason ++ string description ++ string language
def encodeUnimplemented (seq : Nat) : Bytes := [SSH_MSG_UNIMPLEMENTED] ++ uint32 seq

/-! ### public key blobs -/

/-- "ssh-rsa" -/
def sshRsa : Bytes := [115, 115, 104, 45, 114, 115, 97]
/-- "ssh-dss" -/
def sshDss : Bytes := [115, 115, 104, 45, 100, 115, 115]
/-- "ssh-ed25519" -/
def sshEd25519 : Bytes := [115, 115, 104, 45, 101, 100, 50, 53, 53, 49, 57]
/-- "ecdsa-sha2-" -/
def ecdsaSha2 : Bytes := [101, 99, 100, 115, 97, 45, 115, 104, 97, 50, 45]

/-- RFC 4253 §6.6: string "ssh-rsa", mpint e, mpint n -/
def rsaBlob (e n : Nat) : Bytes := string sshRsa ++ mpint e ++ mpint n
/-- RFC 4253 §6.6: string "ssh-dss", mpint p, q, g, y -/
def dssBlob (p q g y : Nat) : Bytes := string sshDss ++ mpint p ++ mpint q ++ mpint g ++ mpint y
/-- RFC 5656 §3.1: string "ecdsa-sha2-[identifier]", string [identifier], string Q -/
def ecdsaBlob (identifier q : Bytes) : Bytes := string (ecdsaSha2 ++ identifier) ++ string identifier ++ string q
/-- RFC 8709 §4: string "ssh-ed25519", string key -/
def ed25519Blob (key : Bytes) : Bytes := string sshEd25519 ++ string key

/-! ### PROTOCOL.certkeys: critical options and extensions

  "The format of this field is a sequence of zero or more tuples: string name, string data".  The
  flag extensions have empty data; the data of `force-command` and `source-address` is itself a
  buffer holding one `string` (ssh-keygen: `put_cstring(name); put_stringb(buffer with put_cstring(value))`). -/

def certOption (name data : Bytes) : Bytes := string name ++ string data
def certFlag (name : Bytes) : Bytes := certOption name []
def certStringOption (name value : Bytes) : Bytes := certOption name (string value)
/-- "force-command" -/
def forceCommand : Bytes := [102, 111, 114, 99, 101, 45, 99, 111, 109, 109, 97, 110, 100]

/-! ### RFC 4253 §4.2 identification string: SSH-protoversion-softwareversion SP comments CR LF -/

def digits (n : Nat) : Bytes := (Nat.toDigits 10 n).map fun c => UInt8.ofNat c.toNat

def identification (major minor : Nat) (software : Bytes) (comments : Option Bytes) : Bytes :=
  [0x53, 0x53, 0x48, 0x2d] ++ digits major ++ [0x2e] ++ digits minor ++ [0x2d] ++ software ++
    (match comments with | none => [] | some c => 0x20 :: c) ++ [0x0d, 0x0a]

/-! ### RFC 4648 §4 base 64; colon-separated lower-case hex -/

def b64Char (n : Nat) : UInt8 :=
  if n < 26 then UInt8.ofNat (65 + n)
  else if n < 52 then UInt8.ofNat (97 + (n - 26))
  else if n < 62 then UInt8.ofNat (48 + (n - 52))
  else if n = 62 then 43 else 47

def pad : UInt8 := 61

/-- 24-bit groups as four 6-bit groups; a final group of 8 bits gives two characters and "==", of 16
bits three characters and "=" -/
def base64 : Bytes → Bytes
  | [] => []
  | [a] =>
    let n := a.toNat * 65536
    [b64Char (n / 262144), b64Char (n / 4096 % 64), pad, pad]
  | [a, b] =>
    let n := a.toNat * 65536 + b.toNat * 256
    [b64Char (n / 262144), b64Char (n / 4096 % 64), b64Char (n / 64 % 64), pad]
  | a :: b :: c :: rest =>
    let n := a.toNat * 65536 + b.toNat * 256 + c.toNat
    b64Char (n / 262144) :: b64Char (n / 4096 % 64) :: b64Char (n / 64 % 64) :: b64Char (n % 64) :: base64 rest

def hexChar (n : Nat) : UInt8 := if n < 10 then UInt8.ofNat (48 + n) else UInt8.ofNat (87 + n)

def colonHex : Bytes → Bytes
  | [] => []
  | [a] => [hexChar (a.toNat / 16), hexChar (a.toNat % 16)]
  | a :: b :: rest => hexChar (a.toNat / 16) :: hexChar (a.toNat % 16) :: 0x3a :: colonHex (b :: rest)

/-- "SHA256:" / "SHA1:" / "MD5:" -/
def prefixSha256 : Bytes := [83, 72, 65, 50, 53, 54, 58]
def prefixSha1 : Bytes := [83, 72, 65, 49, 58]
def prefixMd5 : Bytes := [77, 68, 53, 58]

end Cp.Spec.Ssh
