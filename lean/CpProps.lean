import CpProps.C10
import CpProps.C11
import CpProps.C11b
import CpProps.C17
