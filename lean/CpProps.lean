import CpProps.C10
import CpProps.C11
import CpProps.C17
