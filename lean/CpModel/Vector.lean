import CpModel.Codec
import CpModel.Enum
import CpModel.Gen.Vectors
/-
  CpModel.Vector — the length-prefixed containers of `cryptoparser/common/base.py`
  (`Vector`, `Opaque`, `VectorParsable`, `VectorEnumCodeNumeric`, `VectorParsableDerived`).

  Every `_parse` ends in `cls(items)`; the constructor re-computes the body size from the items
  (`param.get_item_size`) and enforces the protocol's floor and ceiling:
  `NotEnoughData(min_byte_num)` / `TooMuchData(max_byte_num)`.
-/
namespace Cp

structure VecParam where
  min : Nat
  max : Nat
  numSize : Nat
deriving Repr, DecidableEq

def VecParam.ofGen (g : Gen.VecP) : VecParam := ⟨g.min, g.max, g.numSize⟩

/-- `ArrayBase._update_items_size` as run by the constructor -/
def checkBounds (p : VecParam) (size : Nat) : Except PErr Unit :=
  if size < p.min then .error (.notEnough (p.min : Int))
  else if size > p.max then .error (.tooMuch (p.max : Int))
  else .ok ()

def sumSizes (sizeOf : α → Except PErr Nat) : List α → Except PErr Nat
  | [] => .ok 0
  | x :: xs => do
    let a ← sizeOf x
    let r ← sumSizes sizeOf xs
    pure (a + r)

/-- `VectorParsable._parse` / `VectorParsableDerived._parse` / enum-coded vectors: length prefix,
then items parsed from exactly the declared slice, then the constructor's bound check on the
RE-COMPOSED size of the items. -/
def parseVecItems (p : VecParam) (item : Bytes → Except PErr (α × Nat)) (sizeOf : α → Except PErr Nat)
    (bs : Bytes) : Except PErr (List α × Nat) := do
  let (len, n) ← parseNum .network p.numSize bs
  let rest := bs.drop n
  if rest.length < len then .error (.notEnough ((len - rest.length : Nat) : Int))
  else
    let items ← Codec.parseItems item len (rest.take len)
    let sz ← sumSizes sizeOf items
    checkBounds p sz
    pure (items, n + len)

/-- `compose()` of those vectors: body, then the prefix computed from the body length -/
def composeVecItems (p : VecParam) (f : α → Except PErr Bytes) (items : List α) : Except PErr Bytes := do
  let body ← Codec.composeItems f items
  let h ← composeNum .network p.numSize (body.length : Int)
  pure (h ++ body)

/-- `Vector._parse` (fixed-width numeric items): `item_num = int(L / item_size)`, a remainder is
ignored; `numeric_class(item)` raising `ValueError` is `InvalidValue`. -/
def parseVecNum (p : VecParam) (itemSize : Nat) (conv : Nat → Except PErr Nat) (bs : Bytes) :
    Except PErr (List Nat × Nat) := do
  let (len, n) ← parseNum .network p.numSize bs
  let cnt := len / itemSize
  let (raw, m) ← parseNumArray .network cnt itemSize (bs.drop n)
  let items ← raw.mapM conv
  checkBounds p (cnt * itemSize)
  pure (items, n + m)

def composeVecNum (p : VecParam) (itemSize : Nat) (items : List Nat) : Except PErr Bytes := do
  let h ← composeNum .network p.numSize ((items.length * itemSize : Nat) : Int)
  let body ← composeNumArray .network itemSize (items.map Int.ofNat)
  pure (h ++ body)

/-- `Opaque._parse` -/
def parseOpaque (p : VecParam) (bs : Bytes) : Except PErr (Bytes × Nat) := do
  let (len, n) ← parseNum .network p.numSize bs
  let (body, m) ← parseRaw (len : Int) (bs.drop n)
  checkBounds p body.length
  pure (body, n + m)

def composeOpaque (p : VecParam) (v : Bytes) : Except PErr Bytes := do
  let h ← composeNum .network p.numSize (v.length : Int)
  pure (h ++ v)

/-- a vector of coded enumeration members with an "invalid type" fallback
(`VectorParamEnumCodeNumeric`): every item is `k` bytes; `get_item_size` is `fallback.get_byte_num()`. -/
def parseVecCoded (p : VecParam) (codes : List Nat) (k : Nat) (bs : Bytes) : Except PErr (List Coded × Nat) :=
  parseVecItems p (parseCodedOrFallback codes k) (fun _ => .ok k) bs

def composeVecCoded (p : VecParam) (codes : List Nat) (k : Nat) (items : List Coded) : Except PErr Bytes :=
  composeVecItems p (composeCodedOrFallback codes k) items

end Cp
