import CpModel.Basic
/-
  CpModel.Prim — the binary primitives of `cryptoparser/common/parse.py`
  (`ParserBinary` / `ComposerBinary`), transcribed operation by operation.
  Every function works on `rest`, the unparsed tail `_parsable[_parsed_length:]`, and returns
  the value with the number of bytes by which `_parsed_length` advances.
-/
namespace Cp

inductive ByteOrder where
  | native | little | big | network
deriving DecidableEq, Repr, BEq

/-- `byte_order in [BIG_ENDIAN, NETWORK]`; `NATIVE` is little-endian on the hosts the
correspondence runs on (x86-64), recorded in the trusted base. -/
def ByteOrder.isBig : ByteOrder → Bool
  | .big | .network => true
  | _ => false

/-- keys of `_SIZE_TO_FORMAT` -/
def validSize (k : Nat) : Bool := k == 1 || k == 2 || k == 3 || k == 4 || k == 8

/-- little-endian digits of `v`, exactly `k` of them (value taken mod 256^k) -/
def leBytes : Nat → Nat → Bytes
  | 0, _ => []
  | k + 1, v => UInt8.ofNat (v % 256) :: leBytes k (v / 256)

def leVal : Bytes → Nat
  | [] => 0
  | x :: xs => x.toNat + 256 * leVal xs

def beBytes (k v : Nat) : Bytes := (leBytes k v).reverse
def beVal (b : Bytes) : Nat := leVal b.reverse

def encNat (bo : ByteOrder) (k v : Nat) : Bytes := if bo.isBig then beBytes k v else leBytes k v
def decNat (bo : ByteOrder) (b : Bytes) : Nat := if bo.isBig then beVal b else leVal b

/-- `ComposerBinary._compose_numeric_array([value], size)`.
`struct.pack` rejects negatives and values that do not fit (`struct.error` → `InvalidValue`);
an unknown size is a `KeyError` on `_SIZE_TO_FORMAT`; three-byte values are packed as four
bytes and the dropped byte must be zero (repaired: it used to be dropped silently). -/
def composeNum (bo : ByteOrder) (k : Nat) (v : Int) : Except PErr Bytes :=
  if !validSize k then .error (.crash "KeyError")
  else if v < 0 then .error .invalidValue
  else if v.toNat ≥ 256 ^ k then .error .invalidValue
  else .ok (encNat bo k v.toNat)

def composeNumArray (bo : ByteOrder) (k : Nat) : List Int → Except PErr Bytes
  | [] => .ok []
  | v :: vs => do
    let a ← composeNum bo k v
    let r ← composeNumArray bo k vs
    pure (a ++ r)

/-- `parse_numeric(name, size)` = `_parse_numeric_array(name, 1, size, int)` on the unparsed
tail: the length check comes first, then the size check (`NotImplementedError`). -/
def parseNum (bo : ByteOrder) (k : Nat) (rest : Bytes) : Except PErr (Nat × Nat) :=
  if rest.length < k then .error (.notEnough (k - rest.length : Nat))
  else if !validSize k then .error (.crash "NotImplementedError")
  else .ok (decNat bo (rest.take k), k)

/-- the same function for the compiled driver: the length test looks at `k` bytes only, so item loops
over long buffers stay linear (the reference definition measures the whole rest at every item).
`parseNum_eq_parseNumFast` is a kernel-checked equation; `@[csimp]` only tells the code generator to
use it. -/
def parseNumFast (bo : ByteOrder) (k : Nat) (rest : Bytes) : Except PErr (Nat × Nat) :=
  if (rest.take k).length < k then .error (.notEnough (k - rest.length : Nat))
  else if !validSize k then .error (.crash "NotImplementedError")
  else .ok (decNat bo (rest.take k), k)

@[csimp] theorem parseNum_eq_parseNumFast : @parseNum = @parseNumFast := by
  funext bo k rest
  have h : (rest.take k).length < k ↔ rest.length < k := by rw [List.length_take]; omega
  unfold parseNum parseNumFast
  by_cases hk : rest.length < k
  · rw [if_pos hk, if_pos (h.mpr hk)]
  · rw [if_neg hk, if_neg (fun x => hk (h.mp x))]

/-- items of `_parse_numeric_array` once the length check has passed -/
def numItems (bo : ByteOrder) (k : Nat) : Nat → Bytes → List Nat
  | 0, _ => []
  | n + 1, b => decNat bo (b.take k) :: numItems bo k n (b.drop k)

/-- `ParserBinary._parse_numeric_array(name, n, size, int)` -/
def parseNumArray (bo : ByteOrder) (n k : Nat) (rest : Bytes) : Except PErr ((List Nat) × Nat) :=
  if rest.length < n * k then .error (.notEnough (n * k - rest.length : Nat))
  else if !validSize k then .error (.crash "NotImplementedError")
  else .ok (numItems bo k n rest, n * k)

/-! ### flags -/

/-- `compose_numeric_flags(values, size, shift_right)`: OR of `value >> shift`. -/
def composeFlags (bo : ByteOrder) (k shift : Nat) (vals : List Nat) : Except PErr Bytes :=
  composeNum bo k ((vals.foldl (fun a v => a ||| (v >>> shift)) 0 : Nat) : Int)

/-- `parse_numeric_flags(name, size, flags_class, shift_left)`: for each member `f` of the flag
class, in declaration order, keep `f & (v << shift)` when it is non-zero.  `flags_class(x)` is a
`ValueError` when `x` is not a member value (possible only for multi-bit members). -/
def parseFlags (bo : ByteOrder) (k shift : Nat) (members : List Nat) (rest : Bytes) :
    Except PErr ((List Nat) × Nat) := do
  let (v, n) ← parseNum bo k rest
  let w := v <<< shift
  let hits := (members.filter fun f => f &&& w != 0).map fun f => f &&& w
  if hits.all fun h => members.contains h then pure (hits, n)
  else .error (.crash "ValueError")

/-! ### raw bytes -/

/-- `_parse_bytes(size)` / `parse_raw(name, size)` with the repaired guard: a negative size is an
`InvalidValue` (it used to move the cursor backwards). -/
def parseRaw (size : Int) (rest : Bytes) : Except PErr (Bytes × Nat) :=
  if size < 0 then .error .invalidValue
  else if rest.length < size.toNat then .error (.notEnough (size - rest.length))
  else .ok (rest.take size.toNat, size.toNat)

/-- compiled form of `parseRaw`: the length test looks at `size` bytes only -/
def parseRawFast (size : Int) (rest : Bytes) : Except PErr (Bytes × Nat) :=
  if size < 0 then .error .invalidValue
  else if (rest.take size.toNat).length < size.toNat then .error (.notEnough (size - rest.length))
  else .ok (rest.take size.toNat, size.toNat)

@[csimp] theorem parseRaw_eq_parseRawFast : @parseRaw = @parseRawFast := by
  funext size rest
  have h : (rest.take size.toNat).length < size.toNat ↔ rest.length < size.toNat := by
    rw [List.length_take]; omega
  unfold parseRaw parseRawFast
  by_cases hs : size < 0
  · rw [if_pos hs, if_pos hs]
  · rw [if_neg hs, if_neg hs]
    by_cases hk : rest.length < size.toNat
    · rw [if_pos hk, if_pos (h.mpr hk)]
    · rw [if_neg hk, if_neg (fun x => hk (h.mp x))]

/-- `parse_bytes(name, size)`: a `size`-byte length prefix followed by that many bytes.  On a
short body the error is `NotEnoughData(missing body bytes)`. -/
def parseBytes (bo : ByteOrder) (k : Nat) (rest : Bytes) : Except PErr (Bytes × Nat) := do
  let (len, n) ← parseNum bo k rest
  let (body, m) ← parseRaw len (rest.drop n)
  pure (body, n + m)

/-- `compose_bytes(value, item_size)` -/
def composeBytes (bo : ByteOrder) (k : Nat) (v : Bytes) : Except PErr Bytes := do
  let h ← composeNum bo k v.length
  pure (h ++ v)

/-! ### multiple-precision integers -/

/-- big-endian value of a byte string (any length) -/
def natOfBE (b : Bytes) : Nat := b.foldl (fun a x => a * 256 + x.toNat) 0

/-- `_parse_mpint(L, offset, negative)` read from `data` (= the buffer after `offset`): left-pad
to a multiple of four with `00`/`ff`, read big-endian words, two's complement if negative. The
result depends only on the first `L` bytes; short data is `NotEnoughData(L - available)`. -/
def parseMpintCore (len : Nat) (negative : Bool) (data : Bytes) : Except PErr Int :=
  if data.length < len then .error (.notEnough (len - data.length : Nat))
  else
    let padLen := if len % 4 == 0 then 0 else 4 - len % 4
    let padByte : UInt8 := if negative then 0xff else 0x00
    let v := natOfBE (List.replicate padLen padByte ++ data.take len)
    if negative then .ok ((v : Int) - ((2 : Int) ^ (8 * (len + padLen))))
    else .ok v

/-- `parse_mpint(name, length)` -/
def parseMpint (len : Nat) (rest : Bytes) : Except PErr (Int × Nat) := do
  let v ← parseMpintCore len false rest
  pure (v, len)

/-- `parse_ssh_mpint(name)` with the repaired bounds check before the sign byte is read. -/
def parseSshMpint (rest : Bytes) : Except PErr (Int × Nat) :=
  if rest.length < 4 then .error (.notEnough (4 - rest.length : Nat))
  else
    let len := beVal (rest.take 4)
    if rest.length < 4 + len then .error (.notEnough (4 + len - rest.length : Nat))
    else
      let negative := len != 0 && (rest.getD 4 0).toNat ≥ 0x80
      match parseMpintCore len negative (rest.drop 4) with
      | .ok v => .ok (v, 4 + len)
      | .error e => .error e

/-- Python `int.bit_length()` of `|v|` -/
def bitLength (v : Int) : Nat := if v = 0 then 0 else Nat.log2 v.natAbs + 1

def stripLeadingZeros : Bytes → Bytes
  | [] => []
  | x :: xs => if x == 0 then stripLeadingZeros xs else x :: xs

/-- `_compose_mpint(value, length, byte_order)` for the big-endian orders: `length` 32-bit words of
the (two's-complement adjusted) value, most significant first, leading zero bytes stripped.  The
width of the two's complement of a negative value is taken from `(~value).bit_length()`, with
`~value = -value - 1 ≥ 0` (repaired: it was `value.bit_length()`, one byte too many at `-2^(8k-1)`). -/
def composeMpintCore (v : Int) (words : Nat) : Bytes :=
  let pos : Nat := if v < 0 then (((2 : Int) ^ (bitLength (-v - 1) / 8 * 8 + 8)) + v).toNat else v.toNat
  stripLeadingZeros (beBytes (4 * words) pos)

/-- `compose_ssh_mpint(value)` (network byte order); the bit length of a negative value is that of
`~value = -value - 1`, rounded up to whole bytes (repaired, as in `composeMpintCore`). -/
def composeSshMpint (v : Int) : Except PErr Bytes :=
  let bl := if v < 0 then bitLength (-v - 1) / 8 * 8 + 8 else bitLength v
  let words := bl / 32 + (if bl % 32 == 0 then 0 else 1)
  let m := composeMpintCore v words
  let negative := decide (v < 0)
  let pad : Bytes :=
    match m with
    | [] => []
    | x :: _ => if (decide (x.toNat ≥ 0x80)) != negative then [if negative then 0xff else 0x00] else []
  do
    let h ← composeNum .network 4 ((pad.length + m.length : Nat) : Int)
    pure (h ++ pad ++ m)

/-- `compose_mpint(value, length)` (big-endian orders): fixed-length, left padded. The word count
handed to `_compose_mpint` is `length` itself, as in the code; a value wider than `8 * length` bits
is rejected first (repaired: wider than `32 * length` bits used to be truncated silently). -/
def composeMpint (v : Int) (len : Nat) : Except PErr Bytes :=
  if bitLength v > 8 * len then .error .invalidValue else
  let m := composeMpintCore v len
  if len < m.length then .error .invalidValue
  else
    let padByte : UInt8 := if v < 0 then 0xff else 0x00
    .ok (List.replicate (len - m.length) padByte ++ m)

/-! ### timestamps

Instants are carried as `Option Nat`: `none` is the "forever" sentinel, `some t` is whole seconds
(or milliseconds) since the epoch.  The calendar conversion itself (`datetime` ↔ epoch) is
CPython's and is not modelled. -/

/-- The last whole second `datetime` can carry: 9999-12-31T23:59:59Z. -/
def maxEpochSeconds : Nat := 253402300799

/-- `parse_timestamp(name, milliseconds, item_size)`: all-ones of the field's width is `None`;
otherwise the field value is taken as it is (repaired: the seconds used to be masked with
`0xffffffff` whatever the width).  With `milliseconds` the value splits into `v / 1000` seconds and
`v % 1000` milliseconds.  An instant whose seconds exceed `maxEpochSeconds` is later than
9999-12-31T23:59:59.999Z, which `datetime` cannot carry: `InvalidValue`.  Result in the unit of the
field (ms if `milliseconds`). -/
def parseTimestamp (bo : ByteOrder) (ms : Bool) (k : Nat) (rest : Bytes) : Except PErr ((Option Nat) × Nat) := do
  let (v, n) ← parseNum bo k rest
  if v == 256 ^ k - 1 then pure (none, n)
  else if (if ms then v / 1000 else v) > maxEpochSeconds then throw .invalidValue
  else pure (some v, n)

/-- `compose_timestamp(value, milliseconds, item_size)` after the repair: sentinel of the field's own
width; the epoch value is computed from the UTC calendar fields (zone independent). -/
def composeTimestamp (bo : ByteOrder) (k : Nat) (t : Option Nat) : Except PErr Bytes :=
  match t with
  | none => composeNum bo k ((256 ^ k - 1 : Nat) : Int)
  | some v => composeNum bo k (v : Int)

end Cp
