import CpModel.Codec
import CpModel.Enum
/-
  CpModel.Dns.Msg — the DNS record data classes of `cryptoparser/dnsrec/record.py`
  (`DnsNameUncompressed`, `DnsRecordMx`, `DnsRecordDs`, `DnsRecordRrsig`, `DnsRecordTxt`,
  `DnsRecordDnskey` with `key_tag`, `DnsRrTypePrivate`), transcribed `_parse`/`compose` by
  `_parse`/`compose`, quirks included.

  What lies outside the model is reported as the pseudo-error `crash "UNMODELLED"`:
    * labels that leave the ASCII fast path of CPython's `idna` codec (a byte ≥ 0x80, or the ACE
      prefix `xn--` anywhere in the label): nameprep/punycode are library behaviour;
    * EC coordinates within 2⁻³² (relative) of a power of 256 once they are ≥ 2³²: the point is sized
      by asn1crypto's `ceil(math.log(v, 2) / 8)`, a float computation that is exact away from powers
      of two only (`floatRisk`).  (RSA moduli and DSA primes are sized by `bit_length()`.)

  Constants that `tools/extract.py` does not regenerate (`DnsSecProtocol.V3`, the `HEADER_SIZE`s,
  the key type and curve size per algorithm, the private RR type range) are written down here and
  compared with the live code by `harness/props/c08.py` on every run.
-/
namespace Cp.Dns
open Cp Cp.Codec

def unmodelled : PErr := .crash "UNMODELLED"

/-! ### constants (tied to the live code by the harness) -/

def dnskeyHeaderSize : Nat := 4
def dsHeaderSize : Nat := 4
def rrsigHeaderSize : Nat := 18
def mxHeaderSize : Nat := 2
def txtHeaderSize : Nat := 1
/-- `DnsSecProtocol` members -/
def protocolValues : List Nat := [3]
/-- `DnsRrTypePrivate._get_value_min/_max` -/
def privateTypeMin : Nat := 0xff00
def privateTypeMax : Nat := 0xfffe
/-- `DnsSecAlgorithm.RSAMD5.value.code` -/
def algRsaMd5 : Nat := 1

inductive KeyKind where
  | rsa
  | dsa
  | ec (group : Nat)      -- 0 = SECP256K1 (sic, for ECDSAP256SHA256), 1 = SECP384R1, 2 = GC256B
  | eddsa (curve : Nat)   -- 0 = CURVE25519, 1 = CURVE448
deriving Repr, DecidableEq

/-- `dnssec_algorithm.value.algorithm.value.key_type` and the dispatch of `parse_key`, by algorithm
code.  `DELETE` (no algorithm) and `DH` (a key exchange, not a `Signature`) have none: `parse_key`
raises `InvalidValue(..., 'algorithm_type')` for them, as the constructor does. -/
def keyKindOfCode : Nat → Option KeyKind
  | 1 | 5 | 7 | 8 | 10 => some .rsa
  | 3 | 6 => some .dsa
  | 12 => some (.ec 2)
  | 13 => some (.ec 0)
  | 14 => some (.ec 1)
  | 15 => some (.eddsa 0)
  | 16 => some (.eddsa 1)
  | _ => none

/-- `named_group.value.size // 8` -/
def groupBytes : Nat → Nat
  | 1 => 48
  | _ => 32

/-- bytes read by `_parse_public_key_eddsa`: `256 // 8`, `448 // 8` -/
def curveBytes : Nat → Nat
  | 0 => 32
  | _ => 56

/-! ### domain names -/

def lowerByte (x : UInt8) : UInt8 := if 0x41 ≤ x.toNat ∧ x.toNat ≤ 0x5a then UInt8.ofNat (x.toNat + 32) else x

/-- `b'xn--' in label.lower()` -/
def hasAce : Bytes → Bool
  | [] => false
  | x :: xs => ((x :: xs).take 4).map lowerByte == [0x78, 0x6e, 0x2d, 0x2d] || hasAce xs

/-- the label stays on the ASCII fast path of the `idna` codec in both directions -/
def labelModelled (l : Bytes) : Bool := l.all (fun x => x.toNat < 0x80) && !hasAce l

/-- `'.' in label` -/
def hasDot (l : Bytes) : Bool := l.any (fun x => x.toNat == 0x2e)

/-- RFC 1035 §2.3.4 -/
def maxLabelSize : Nat := 63
/-- `DnsNameUncompressed.MAX_SIZE` (RFC 1035 §2.3.4) -/
def maxNameSize : Nat := 255

/-- what `_parse_label` (on parse) and `compose` (before and inside `compose_string(label, 'idna', 1)`)
refuse with `InvalidValue`: a label holding the label separator, and — the length check of
`encodings.idna.Codec.encode` on its ASCII fast path, which for a text without a dot is one piece —
a label of 64 octets or more -/
def labelRefused (l : Bytes) : Bool := hasDot l || maxLabelSize < l.length

/-- `parser.parse_string('label', 1, encoding='idna', converter=cls._parse_label)`: one length byte,
that many bytes (`NotEnoughData(missing)`), decoded with the `idna` codec, then checked -/
def parseLabel (bs : Bytes) : Except PErr (Bytes × Nat) := do
  let (l, n) ← parseBytes .network 1 bs
  if !labelModelled l then .error unmodelled
  else if labelRefused l then .error .invalidValue
  else pure (l, n)

/-- the `while True` loop of `DnsNameUncompressed._parse`; every round consumes at least the length
byte, so `len + 1` rounds of fuel are never exhausted -/
def parseLabels : Nat → Bytes → Except PErr (List Bytes × Nat)
  | 0, _ => .error (.crash "NonTermination")
  | fuel + 1, bs => do
    let (l, n) ← parseLabel bs
    if l.isEmpty then pure ([], n)
    else
      let (ls, m) ← parseLabels fuel (bs.drop n)
      pure (l :: ls, n + m)

/-- `DnsNameUncompressed._parse`: the labels, then the limit on the size of the whole name -/
def parseName (bs : Bytes) : Except PErr (List Bytes × Nat) := do
  let (ls, n) ← parseLabels (bs.length + 1) bs
  if maxNameSize < n then .error .invalidValue else pure (ls, n)

/-- `if '.' in label: raise InvalidValue`, then `composer.compose_string(label, 'idna', 1)` -/
def composeLabel (l : Bytes) : Except PErr Bytes :=
  if l.isEmpty then composeBytes .network 1 []
  else if !labelModelled l then .error unmodelled
  else if labelRefused l then .error .invalidValue
  else composeBytes .network 1 l

/-- `DnsNameUncompressed.compose`: the labels, the root octet, then the limit on the size of the name -/
def composeName (labels : List Bytes) : Except PErr Bytes := do
  let body ← composeItems composeLabel labels
  let z ← composeNum .network 1 0
  if maxNameSize < (body ++ z).length then .error .invalidValue else pure (body ++ z)

def nameCodec : Codec (List Bytes) := ⟨parseName, composeName⟩

/-! ### MX -/

structure Mx where
  priority : Nat
  exchange : List Bytes
deriving Repr, DecidableEq

def mxInner : Codec (Nat × List Bytes) := seq (num .network 2) nameCodec

/-- `DnsRecordMx` -/
def mxCodec : Codec Mx :=
  minSize mxHeaderSize (mapE mxInner (fun x => .ok ⟨x.1, x.2⟩) (fun m => (m.priority, m.exchange)))

def parseMx (bs : Bytes) : Except PErr (Mx × Nat) := mxCodec.parse bs
def composeMx (m : Mx) : Except PErr Bytes := mxCodec.compose m

/-! ### DS -/

/-- `parser.parse_raw(name, parser.unparsed_length)` / `compose_raw`: everything that is left -/
def rawRest : Codec Bytes := ⟨fun bs => .ok (bs, bs.length), fun v => .ok v⟩

def algCodec : Codec Nat := codedStrict Gen.DnsSecAlgorithm.codes 1
def digestTypeCodec : Codec Nat := codedStrict Gen.DnsSecDigestType.codes 1

structure Ds where
  keyTag : Nat
  algorithm : Nat     -- index into `Gen.DnsSecAlgorithm.codes`
  digestType : Nat    -- index into `Gen.DnsSecDigestType.codes`
  digest : Bytes
deriving Repr, DecidableEq

def dsInner : Codec (Nat × Nat × Nat × Bytes) := seq (num .network 2) (seq algCodec (seq digestTypeCodec rawRest))

/-- `DnsRecordDs` -/
def dsCodec : Codec Ds :=
  minSize dsHeaderSize (mapE dsInner (fun x => .ok ⟨x.1, x.2.1, x.2.2.1, x.2.2.2⟩)
    (fun d => (d.keyTag, d.algorithm, d.digestType, d.digest)))

def parseDs (bs : Bytes) : Except PErr (Ds × Nat) := dsCodec.parse bs
def composeDs (d : Ds) : Except PErr Bytes := dsCodec.compose d

/-! ### RRSIG -/

/-- `DnsRrTypePrivate._parse`: a two-byte number, the validator rejects what is outside the range -/
def parsePrivateType (bs : Bytes) : Except PErr (Nat × Nat) := do
  let (v, n) ← parseNum .network 2 bs
  if v < privateTypeMin then .error .invalidValue
  else if v > privateTypeMax then .error .invalidValue
  else pure (v, n)

def composePrivateType (v : Nat) : Except PErr Bytes := composeNum .network 2 (v : Int)

/-- `try: parse_parsable(DnsRrTypeFactory) except InvalidValue: parse_parsable(DnsRrTypePrivate)`;
a member is `.known index`, a private type `.unknown value` -/
def parseTypeCovered (bs : Bytes) : Except PErr (Coded × Nat) :=
  orElseInvalid (fun b => (parseCoded Gen.DnsRrType.codes 2 b).map fun (i, n) => (Coded.known i, n))
    (fun b => (parsePrivateType b).map fun (v, n) => (Coded.unknown v, n)) bs

def composeTypeCovered : Coded → Except PErr Bytes
  | .known i => composeCoded Gen.DnsRrType.codes 2 i
  | .unknown v => composePrivateType v

def typeCoveredCodec : Codec Coded := ⟨parseTypeCovered, composeTypeCovered⟩

/-- an instant of `DnsRecordRrsig`: `parse_numeric(name, 4, cls._parse_instant)` — every 32-bit value is
an instant (seconds since the epoch) — and `compose_timestamp(value, item_size=4)` of a `datetime` -/
def instantCodec : Codec Nat := ⟨parseNum .network 4, fun t => composeTimestamp .network 4 (some t)⟩

structure Rrsig where
  typeCovered : Coded
  algorithm : Nat
  labels : Nat
  originalTtl : Nat
  expiration : Nat     -- seconds since the epoch (a `datetime` in the code)
  inception : Nat
  keyTag : Nat
  signersName : List Bytes
  signature : Bytes
deriving Repr, DecidableEq

abbrev RrsigTuple := Coded × Nat × Nat × Nat × Nat × Nat × Nat × List Bytes × Bytes

def rrsigInner : Codec RrsigTuple :=
  seq typeCoveredCodec (seq algCodec (seq (num .network 1) (seq (num .network 4) (seq instantCodec (seq instantCodec
    (seq (num .network 2) (seq nameCodec rawRest)))))))

/-- `cls(**parser)` -/
def rrsigOfTuple (x : RrsigTuple) : Except PErr Rrsig :=
  .ok ⟨x.1, x.2.1, x.2.2.1, x.2.2.2.1, x.2.2.2.2.1, x.2.2.2.2.2.1, x.2.2.2.2.2.2.1, x.2.2.2.2.2.2.2.1, x.2.2.2.2.2.2.2.2⟩

def rrsigToTuple (r : Rrsig) : RrsigTuple :=
  (r.typeCovered, r.algorithm, r.labels, r.originalTtl, r.expiration, r.inception, r.keyTag,
    r.signersName, r.signature)

/-- `DnsRecordRrsig` -/
def rrsigCodec : Codec Rrsig := minSize rrsigHeaderSize (mapE rrsigInner rrsigOfTuple rrsigToTuple)

def parseRrsig (bs : Bytes) : Except PErr (Rrsig × Nat) := rrsigCodec.parse bs
def composeRrsig (r : Rrsig) : Except PErr Bytes := rrsigCodec.compose r

/-! ### TXT -/

/-- `parser.parse_string('value', 1, encoding='ascii')` -/
def parseCharString (bs : Bytes) : Except PErr (Bytes × Nat) := do
  let (s, n) ← parseBytes .network 1 bs
  if s.all (fun x => x.toNat < 0x80) then pure (s, n) else .error .invalidValue

/-- `while parser.unparsed_length: parse_string(...); value += ...` -/
def parseTxtLoop : Nat → Bytes → Except PErr Bytes
  | 0, bs => if bs.isEmpty then .ok [] else .error (.crash "NonTermination")
  | fuel + 1, bs =>
    if bs.isEmpty then .ok []
    else do
      let (s, n) ← parseCharString bs
      let r ← parseTxtLoop fuel (bs.drop n)
      pure (s ++ r)

/-- `DnsRecordTxt._parse`: the value is the concatenation of the character-strings -/
def parseTxt (bs : Bytes) : Except PErr (Bytes × Nat) :=
  if bs.length < txtHeaderSize then .error (.notEnough ((txtHeaderSize - bs.length : Nat) : Int))
  else (parseTxtLoop bs.length bs).map fun v => (v, bs.length)

/-- `composer.compose_string(chunk, 'ascii', 1)` -/
def composeCharString (s : Bytes) : Except PErr Bytes :=
  if s.all (fun x => x.toNat < 0x80) then composeBytes .network 1 s else .error .invalidValue

/-- `value[offset:offset + n] for offset in range(0, len(value), n)`; every round takes at least one
octet, so `len` rounds of fuel are never exhausted -/
def chunks (n : Nat) : Nat → Bytes → List Bytes
  | 0, _ => []
  | fuel + 1, v => if v.isEmpty then [] else v.take n :: chunks n fuel (v.drop n)

/-- the slices of `for offset in range(0, max(len(self.value), 1), 255)`: the empty value gives one
empty slice -/
def txtChunks (v : Bytes) : List Bytes := if v.isEmpty then [[]] else chunks 255 v.length v

/-- `DnsRecordTxt.compose`: character-strings of at most 255 octets -/
def composeTxt (v : Bytes) : Except PErr Bytes := composeItems composeCharString (txtChunks v)

def txtCodec : Codec Bytes := ⟨parseTxt, composeTxt⟩

/-! ### DNSKEY -/

inductive Key where
  | rsa (exponent modulus : Nat)
  | dsa (p g q y : Nat)
  | ec (group : Nat) (x y : Nat)
  | eddsa (curve : Nat) (data : Bytes)
deriving Repr, DecidableEq

/-- number of base-256 digits (`(v.bit_length() + 7) // 8`) -/
def byteLen (v : Nat) : Nat := (bitLength (v : Int) + 7) / 8

/-- `ceil(log2 v / 8)` for `v ≥ 1`: the least `n` with `v ≤ 256 ^ n` — the `x_bytes` of asn1crypto's
`ECPointBitString.from_coords` computed exactly -/
def clog256 (v : Nat) : Nat := byteLen (v - 1)

/-- the float computation `math.log(v, 2)` may differ from the exact logarithm: `v ≥ 2^32` within a
relative distance of `2^-32` of a power of 256 -/
def floatRisk (v : Nat) : Bool :=
  if v < 2 ^ 32 then false
  else
    let t := 256 ^ (byteLen v - 1)
    (v - t) * 2 ^ 32 ≤ t || (256 * t - v) * 2 ^ 32 ≤ 256 * t

/-- the coordinate width chosen by `ECPointBitString.from_coords(x, y)`: `math.log(0, 2)` is a
`ValueError`, and a coordinate equal to `256 ^ width` does not fit `int_to_bytes(v, width=width)`
(`OverflowError`); `_parse_public_key_ecdsa` turns both into `InvalidValue` -/
def ecWidth (x y : Nat) : Except PErr Nat :=
  if x = 0 then .error .invalidValue
  else if y = 0 then .error .invalidValue
  else if floatRisk x || floatRisk y then .error unmodelled
  else
    let w := max (clog256 x) (clog256 y)
    if 256 ^ w ≤ x then .error .invalidValue
    else if 256 ^ w ≤ y then .error .invalidValue
    else .ok w

/-- the exponent length of `_parse_public_key_rsa`: one octet, or — when that octet is zero — the
two octets that follow; returns the length and the number of octets the field took -/
def parseRsaExpLen (kb : Bytes) : Except PErr (Nat × Nat) := do
  let (l1, n1) ← parseNum .network 1 kb
  if l1 == 0 then do
    let (v, n) ← parseNum .network 2 (kb.drop n1)
    pure (v, n1 + n)
  else pure (l1, n1)

/-- `_parse_public_key_rsa` on the key bytes: an exponent or a modulus of zero (no octets, or zero
octets only) is an `InvalidValue`; with the key, the number of key bytes the key parser has read
(`key_parser.parsed_length`) -/
def parseKeyRsa (kb : Bytes) : Except PErr (Key × Nat) := do
  let (el, n2) ← parseRsaExpLen kb
  let (e, n3) ← parseMpint el (kb.drop n2)
  let rest := kb.drop (n2 + n3)
  let (m, n4) ← parseMpint rest.length rest
  if e.toNat = 0 then .error .invalidValue
  else if m.toNat = 0 then .error .invalidValue
  else pure (.rsa e.toNat m.toNat, n2 + n3 + n4)

/-- `_parse_public_key_ecdsa`: two fixed-width coordinates; `PublicKey.from_params` then builds the
point octet string with `from_coords` -/
def parseKeyEc (group : Nat) (kb : Bytes) : Except PErr (Key × Nat) := do
  let w := groupBytes group
  let (x, n1) ← parseMpint w kb
  let (y, n2) ← parseMpint w (kb.drop n1)
  let _ ← ecWidth x.toNat y.toNat
  pure (.ec group x.toNat y.toNat, n1 + n2)

/-- `_parse_public_key_eddsa` -/
def parseKeyEddsa (curve : Nat) (kb : Bytes) : Except PErr (Key × Nat) := do
  let (d, n) ← parseRaw (curveBytes curve : Nat) kb
  pure (.eddsa curve d, n)

/-- `_parse_public_key_dss`: the prime must fill the `64 + 8 * T` octets announced by `T` (its first
octet is not zero: `p >> (8 * (mpint_length - 1)) == 0` is an `InvalidValue`, raised before G and Y
are read) -/
def parseKeyDsa (kb : Bytes) : Except PErr (Key × Nat) := do
  let (t, n1) ← parseNum .network 1 kb
  let (q, n2) ← parseMpint 20 (kb.drop n1)
  let w := 64 + t * 8
  let (p, n3) ← parseMpint w (kb.drop (n1 + n2))
  if p.toNat < 256 ^ (w - 1) then .error .invalidValue
  else do
    let (g, n4) ← parseMpint w (kb.drop (n1 + n2 + n3))
    let (y, n5) ← parseMpint w (kb.drop (n1 + n2 + n3 + n4))
    pure (.dsa p.toNat g.toNat q.toNat y.toNat, n1 + n2 + n3 + n4 + n5)

/-- the key parsers of `DnsRecordDnskey.parse_key(parsable, dnssec_algorithm)` with the number of key
bytes read; an algorithm that is not a `Signature` is an `InvalidValue` -/
def parseKeyN (algCode : Nat) (kb : Bytes) : Except PErr (Key × Nat) :=
  match keyKindOfCode algCode with
  | none => .error .invalidValue
  | some .rsa => parseKeyRsa kb
  | some .dsa => parseKeyDsa kb
  | some (.ec g) => parseKeyEc g kb
  | some (.eddsa c) => parseKeyEddsa c kb

/-- `DnsRecordDnskey.parse_key`: what the key parser leaves unread is `TooMuchData(unparsed_length)` -/
def parseKey (algCode : Nat) (kb : Bytes) : Except PErr Key := do
  let (k, n) ← parseKeyN algCode kb
  if n < kb.length then .error (.tooMuch ((kb.length - n : Nat) : Int)) else pure k

/-- the exponent length of `_compose_public_key_rsa` -/
def composeRsaExpLen (el : Nat) : Except PErr Bytes :=
  if el > 255 then do
    let a ← composeNum .network 1 0
    let b ← composeNum .network 2 (el : Int)
    pure (a ++ b)
  else composeNum .network 1 (el : Int)

/-- `_compose_public_key_rsa`: exponent and modulus in `(v.bit_length() + 7) // 8` octets -/
def composeKeyRsa (e m : Nat) : Except PErr Bytes := do
  let el := byteLen e
  let h ← composeRsaExpLen el
  let eb ← composeMpint (e : Int) el
  let mb ← composeMpint (m : Int) (byteLen m)
  pure (h ++ eb ++ mb)

/-- `_compose_public_key_ecdsa`: both coordinates in the width of the key's curve
(`key_params.named_group.value.size // 8`) -/
def composeKeyEc (group x y : Nat) : Except PErr Bytes := do
  let w := groupBytes group
  let a ← composeMpint (x : Int) w
  let b ← composeMpint (y : Int) w
  pure (a ++ b)

/-- `_compose_public_key_dss`: `key_size = (prime.bit_length() + 7) // 8` -/
def composeKeyDsa (p g q y : Nat) : Except PErr Bytes := do
  let w := byteLen p
  let t ← composeNum .network 1 (((w : Int) - 64) / 8)
  let qb ← composeMpint (q : Int) 20
  let pb ← composeMpint (p : Int) w
  let gb ← composeMpint (g : Int) w
  let yb ← composeMpint (y : Int) w
  pure (t ++ qb ++ pb ++ gb ++ yb)

/-- `DnsRecordDnskey.compose_key(key)` (dispatch on the key's own type) -/
def composeKey : Key → Except PErr Bytes
  | .rsa e m => composeKeyRsa e m
  | .dsa p g q y => composeKeyDsa p g q y
  | .ec g x y => composeKeyEc g x y
  | .eddsa _ d => .ok d

structure Dnskey where
  flags : List Nat      -- members of `DnsSecFlag`, in declaration order
  algorithm : Nat       -- index into `Gen.DnsSecAlgorithm.codes`
  key : Key
  protocol : Nat
deriving Repr, DecidableEq

def Dnskey.algCode (k : Dnskey) : Nat := Gen.DnsSecAlgorithm.codes.getD k.algorithm 0

/-- `DnsRecordDnskey._parse` -/
def parseDnskey (bs : Bytes) : Except PErr (Dnskey × Nat) :=
  if bs.length < dnskeyHeaderSize then .error (.notEnough ((dnskeyHeaderSize - bs.length : Nat) : Int))
  else do
    let (flags, n1) ← parseFlags .network 2 0 Gen.DnsSecFlag.codes bs
    let (proto, n2) ← parseIntEnum protocolValues 1 (bs.drop n1)
    let (alg, n3) ← parseCoded Gen.DnsSecAlgorithm.codes 1 (bs.drop (n1 + n2))
    let (kb, n4) ← rawRest.parse (bs.drop (n1 + n2 + n3))
    let key ← parseKey (Gen.DnsSecAlgorithm.codes.getD alg 0) kb
    pure (⟨flags, alg, key, proto⟩, n1 + n2 + n3 + n4)

/-- `DnsRecordDnskey.compose` -/
def composeDnskey (k : Dnskey) : Except PErr Bytes := do
  let f ← composeFlags .network 2 0 k.flags
  let p ← composeNum .network 1 (k.protocol : Int)
  let a ← composeCoded Gen.DnsSecAlgorithm.codes 1 k.algorithm
  let kb ← composeKey k.key
  pure (f ++ p ++ a ++ kb)

def dnskeyCodec : Codec Dnskey := ⟨parseDnskey, composeDnskey⟩

/-- the two loops of `key_tag`: `while unparsed_length > 1: parse_numeric(2)`, then
`if unparsed_length: parse_numeric(1)` (big-endian parser) -/
def keyTagSum : Bytes → Nat → Nat
  | a :: b :: rest, acc => keyTagSum rest (acc + decNat .big [a, b])
  | [a], acc => acc + decNat .big [a]
  | [], acc => acc

/-- `DnsRecordDnskey.key_tag` -/
def keyTag (k : Dnskey) : Except PErr Nat :=
  if k.algCode == algRsaMd5 then
    match k.key with
    | .rsa _ m => .ok ((m &&& 0xffffff) >>> 8)
    | _ => .error (.crash "AttributeError")
  else do
    let b ← composeDnskey k
    let s := keyTagSum b 0
    let s := s + ((s >>> 16) &&& 0xffff)
    pure (s &&& 0xffff)

end Cp.Dns
