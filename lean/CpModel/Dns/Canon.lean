import CpModel.Dns.Msg
import CpModel.Tls.Canon
/-
  Canonical one-line rendering of the DNS model values for the line protocol (no spaces), and the
  DNS classes behind the class-level driver ops.  Same conventions as `CpModel/Tls/Canon.lean`;
  `harness/canon_dns.py` produces the same text from the implementation's objects.
  Labels and TXT values are rendered as the hex of their ASCII bytes; a coded member as `E<code>`,
  a private RR type as `P<value>`; instants as seconds since the epoch.
-/
namespace Cp.Dns
open Cp Cp.Tls

def cLabels (ls : List Bytes) : String := cList (ls.map hexOrDash)
def cAlg (i : Nat) : String := s!"E{Gen.DnsSecAlgorithm.codes.getD i 0}"
def cDigestType (i : Nat) : String := s!"E{Gen.DnsSecDigestType.codes.getD i 0}"

def cTypeCovered : Coded → String
  | .known i => s!"E{Gen.DnsRrType.codes.getD i 0}"
  | .unknown v => s!"P{v}"

def cName (ls : List Bytes) : String := s!"DnsNameUncompressed({cLabels ls})"
def cMx (m : Mx) : String := s!"DnsRecordMx({m.priority},{cLabels m.exchange})"
def cDs (d : Ds) : String :=
  s!"DnsRecordDs({d.keyTag},{cAlg d.algorithm},{cDigestType d.digestType},{hexOrDash d.digest})"
def cRrsig (r : Rrsig) : String :=
  "DnsRecordRrsig(" ++ ",".intercalate [cTypeCovered r.typeCovered, cAlg r.algorithm, toString r.labels,
    toString r.originalTtl, toString r.expiration, toString r.inception, toString r.keyTag,
    cLabels r.signersName, hexOrDash r.signature] ++ ")"
def cTxt (v : Bytes) : String := s!"DnsRecordTxt({hexOrDash v})"

def cKey : Key → String
  | .rsa e m => s!"Rsa({e},{m})"
  | .dsa p g q y => s!"Dsa({p},{g},{q},{y})"
  | .ec g x y => s!"Ec({g},{x},{y})"
  | .eddsa c d => s!"Eddsa({c},{hexOrDash d})"

def cDnskey (k : Dnskey) : String :=
  s!"DnsRecordDnskey({cList (k.flags.map toString)},{cAlg k.algorithm},{cKey k.key},{k.protocol})"

def dnsClasses : List DrvClass := [
  mkClass "DnsNameUncompressed" parseName composeName cName,
  mkClass "DnsRecordMx" parseMx composeMx cMx,
  mkClass "DnsRecordDs" parseDs composeDs cDs,
  mkClass "DnsRecordRrsig" parseRrsig composeRrsig cRrsig,
  mkClass "DnsRecordTxt" parseTxt composeTxt cTxt,
  mkClass "DnsRecordDnskey" parseDnskey composeDnskey cDnskey,
  mkClass "DnsRrTypePrivate" parsePrivateType composePrivateType (fun v => s!"DnsRrTypePrivate({v})")
]

end Cp.Dns
