import CpModel.Codec
/-
  CpModel.Reader — the reader loop a client of the library runs over `parse_mutable`
  (property C04), as an executable model.

  The client keeps a receive buffer.  Whenever new bytes arrive it appends them and, as long as
  the buffer holds at least the number of bytes it decided to wait for, calls
  `Class.parse_mutable(buffer)`:

    * success: the record is delivered, `parse_mutable` has deleted the consumed bytes from the
      buffer, the reader goes on with what is left;
    * `NotEnoughData(bytes_needed)`: the reader decides to wait until `bytes_needed` MORE bytes
      than it has now have arrived (`want := len(buffer) + bytes_needed`) and goes back to the
      socket;
    * anything else: the reader gives up for good.

  Two readers are defined: the chunk-driven one (`feed`, bytes arrive in arbitrary fragments) and
  the exact-pull one (`pull`, the reader itself fetches exactly `bytes_needed` more bytes of a
  fixed stream).
-/
namespace Cp.Reader
open Cp

/-- State of the chunk-driven reader.
`buf`  the receive buffer (bytes received and not yet consumed by a successful parse);
`want` the total buffer length the reader waits for before it calls the parser again;
`out`  the records delivered so far, oldest first;
`failed` set once the parser raised anything but not-enough-data; the reader is then dead. -/
structure RState (α : Type) where
  buf : Bytes
  want : Nat
  out : List α
  failed : Option PErr

/-- What `want` is reset to after a record has been delivered: with one byte in the buffer the
parser is called (it is never called on an empty buffer). -/
def wantInit : Nat := 1

def init : RState α := { buf := [], want := wantInit, out := [], failed := none }

/-- The inner loop, on fuel.  One iteration = one call of `parse_mutable` on the whole buffer.

A successful parse that consumes nothing would make the real loop spin forever on an unchanged
buffer; as in `Codec.parseItems` this is modelled as the crash `NonTermination`.  With that, every
continuing iteration shortens the buffer, so `buf.length + 1` iterations always suffice
(`CpProofs.Reader.loop_fuel`: the result does not depend on the fuel beyond that), and the
`0`-fuel line is never reached from `feed`. -/
def loop (c : Codec α) : Nat → RState α → RState α
  | 0, st => st
  | fuel + 1, st =>
    match st.failed with
    | some _ => st
    | none =>
      if st.buf.isEmpty || decide (st.buf.length < st.want) then st
      else
        match c.parse st.buf with
        | .ok (v, n) =>
          if n = 0 then { st with failed := some (.crash "NonTermination") }
          else
            -- `parse_mutable` did `del buffer[:n]`
            loop c fuel { buf := st.buf.drop n, want := wantInit, out := st.out ++ [v], failed := none }
        | .error (.notEnough m) => { st with want := st.buf.length + m.toNat }
        | .error e => { st with failed := some e }

/-- A fragment arrives. -/
def feed (c : Codec α) (st : RState α) (chunk : Bytes) : RState α :=
  loop c (st.buf.length + chunk.length + 1) { st with buf := st.buf ++ chunk }

/-- The whole conversation: the fragments in the order they arrive. -/
def run (c : Codec α) (chunks : List Bytes) : RState α := chunks.foldl (feed c) init

/-! ### the exact-pull reader -/

/-- Outcome of the exact-pull reader for one record.
`trace` the successive numbers of bytes held, in order (first = where it started, last = where it
stopped); `result` what the last parser call returned, `none` if the fuel ran out. -/
structure PullOut (α : Type) where
  trace : List Nat
  result : Option (Except PErr (α × Nat))

/-- The exact-pull reader on the fixed stream `s`: it holds the first `got` bytes, calls the parser
on them, and on `NotEnoughData(m)` pulls exactly `m` more bytes (never fewer, never more) and
retries.  It stops at the first answer that is not not-enough-data. -/
def pull (c : Codec α) (s : Bytes) : Nat → Nat → PullOut α
  | 0, got => { trace := [got], result := none }
  | fuel + 1, got =>
    match c.parse (s.take got) with
    | .error (.notEnough m) =>
      let r := pull c s fuel (got + m.toNat)
      { trace := got :: r.trace, result := r.result }
    | r => { trace := [got], result := some r }

/-- The byte string a value is sent as (empty when it cannot be composed). -/
def encOf (c : Codec α) (v : α) : Bytes :=
  match c.compose v with
  | .ok b => b
  | .error _ => []

/-- The byte stream of a sequence of records. -/
def enc (c : Codec α) (rs : List α) : Bytes := (rs.map (encOf c)).flatten

end Cp.Reader
