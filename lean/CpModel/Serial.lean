import CpModel.Basic
/-
  CpModel.Serial — executable model of `Serializable` (cryptoparser/common/base.py): the JSON
  traversal behind `as_json()` (`json.dumps(obj)` with the monkey-patched `JSONEncoder.default`)
  and the Markdown traversal behind `as_markdown()`.

  `PyVal` is a Python value *as far as the two traversals can tell values apart*: every constructor
  records the answers to the `isinstance` / `hasattr` / `attr.has` questions the code asks, plus the
  sub-values it descends into.  The functions below ask those questions in the order of the code.

  Outside the model's domain (the harness abstraction refuses such objects, it never guesses):
  plain `dict`s with two or more keys that are floats, tuples or other orderable objects (the model
  sorts str / int / bool / bytes keys only); tuples or frozensets used as dict keys; `str`s with
  lone surrogates; non-ASCII characters in `str` dict keys (`str.title()` is modelled for ASCII);
  objects whose `str()` raises; enum members that are themselves `Gradeable` / `Serializable`;
  scalar subclasses that carry a `__dict__`.
  A class's own `post_text_encoder` attribute is looked up by the exact class, not along the MRO.

  Sets: `_json_traverse` and `_markdown_result_list` take the items of a `set` / `frozenset` from
  `_get_ordered_set`, i.e. `sorted(items, key=<JSON text of the item>)` (`orderSet`).

  Errors: the only exception the traversals themselves can raise is the `TypeError` of `sorted(keys)`
  (and of `json.dumps` for a dict key it cannot coerce); both are `crash "TypeError"`.

  State: `Serializable.post_text_encoder` is class-level mutable state that
  `_markdown_human_readable_names` swaps (on `Serializable`) and restores in a `finally`; `EncState` models
  the attribute of `Serializable` and the attributes applications may have defined on subclasses (the code
  only reads those).  The error path of the model does not carry a state: that the `finally` restores the
  encoder when rendering raises is checked on the implementation by the harness only.
-/
namespace Cp.Serial

/-! ## Python values -/

/-- one attrs field: `name`, `metadata.get('human_friendly', True)`, `metadata['human_readable_name']` if present -/
structure FieldMeta where
  name : String
  humanFriendly : Bool
  readable : Option String
deriving Repr, DecidableEq, Inhabited

/-- What the traversals ask of an object that is not a scalar, enum, sequence or dict. -/
structure ObjHdr where
  cls : String                  -- qualified class name (`type(obj)`), the `cls` of the classmethods
  strv : String                 -- `str(obj)`
  gradeable : Bool              -- isinstance(obj, Gradeable)
  serializable : Bool           -- isinstance(obj, Serializable)
  strClass : Bool               -- isinstance(obj, (IPv4Network, IPv6Network, urllib3 Url))
  seconds : Option Nat          -- isinstance(obj, datetime.timedelta): `obj.seconds`
  params : Bool                 -- isinstance(obj, CryptoDataParamsBase)
  mdLit : Option (Bool × String) -- the class's own `_as_markdown` returned this literal without calling `_markdown_result`
deriving Repr, DecidableEq, Inhabited

inductive PyVal where
  | none
  | bool (b : Bool)
  | int (i : Int)
  | float (repr : String)                    -- carried as `repr(x)`
  | str (s : String)
  | bytes (b : Bytes)
  /-- enum member whose `.value` is a `CryptoDataParamsBase`; `valueStr = str(obj.value)`;
      `serValue = some v` iff the value is also `Serializable` -/
  | enumParams (name valueStr : String) (serValue : Option PyVal)
  /-- any other enum member: `name`, `value`; `native` iff the member itself is an `int`/`str`/`float`
      instance (IntEnum, str mix-in), which `json.dumps` encodes as such when it meets it un-traversed -/
  | enumPlain (name : String) (native : Bool) (value : PyVal)
  /-- list / tuple (`isSet = false`) or set / frozenset (`isSet = true`), in iteration order -/
  | seq (isSet : Bool) (items : List PyVal)
  /-- `OrderedDict` (`ordered = true`) or plain `dict`, pairs in iteration order -/
  | dict (ordered : Bool) (kvs : List (PyVal × PyVal))
  /-- object with `_asdict`: `inner = obj._asdict()`;
      `metas = some fields` iff `attr.has(type(obj))`; `mdArg = some x` iff the class's own
      `_as_markdown(level)` is `self._markdown_result(x, level)` -/
  | hasAsdict (h : ObjHdr) (metas : Option (List FieldMeta)) (mdArg : Option PyVal) (inner : PyVal)
  /-- attrs instance without `_asdict`: all fields (declared order) as `(str name, value)` -/
  | attrs (h : ObjHdr) (metas : List FieldMeta) (fields : List (PyVal × PyVal))
  /-- neither of the above but has `__dict__`: its items as `(str name, value)` in iteration order -/
  | hasDict (h : ObjHdr) (vars : List (PyVal × PyVal))
  /-- everything else (datetime, ipaddress addresses, ...) -/
  | opaque (h : ObjHdr)
deriving Repr, Inhabited

def PyVal.isEnum : PyVal → Bool
  | .enumParams .. => true
  | .enumPlain .. => true
  | _ => false

def PyVal.enumName : PyVal → String
  | .enumParams n _ _ => n
  | .enumPlain n _ _ => n
  | _ => ""

/-! ## JSON documents -/

inductive Json where
  | null
  | bool (b : Bool)
  | int (i : Int)
  | float (repr : String)
  | str (s : String)
  | arr (xs : List Json)
  | obj (kvs : List (String × Json))
deriving Repr, Inhabited

/-! ### scalars -/

def hexUpper (n : Nat) : Char :=
  if n < 10 then Char.ofNat (48 + n) else Char.ofNat (55 + n)

/-- `bytes_to_hex_string(b, separator=':', lowercase=False)` -/
def hexColon (b : Bytes) : String :=
  ":".intercalate (b.map fun x => String.ofList [hexUpper (x.toNat / 16), hexUpper (x.toNat % 16)])

/-- `float.__repr__` as used by `json` (`allow_nan=True`): `nan`/`inf`/`-inf` become `NaN`/`Infinity`/`-Infinity` -/
def jsonFloat (r : String) : String :=
  if r == "nan" then "NaN" else if r == "inf" then "Infinity" else if r == "-inf" then "-Infinity" else r

/-- The key of an output object: `key.name` for an enum key, else `_json_result(key)`, then the coercion
`json.dumps` applies to non-string keys (`True` → `true`, `None` → `null`, numbers → their repr). -/
def keyString : PyVal → String
  | .enumParams n _ _ => n
  | .enumPlain n _ _ => n
  | .str s => s
  | .int i => toString i
  | .bool b => if b then "true" else "false"
  | .none => "null"
  | .float r => jsonFloat r
  | .bytes b => hexColon b
  | .hasAsdict h .. => h.strv
  | .attrs h .. => h.strv
  | .hasDict h .. => h.strv
  | .opaque h => h.strv
  | .seq .. => "<seq>"      -- tuple / frozenset keys: outside the domain
  | .dict .. => "<dict>"    -- unhashable, cannot be a key

/-! ### `sorted(keys)` of `_get_ordered_dict` -/

inductive KeyClass where
  | enum | str | num | bytes | other
deriving DecidableEq, Repr

def keyClass : PyVal → KeyClass
  | .enumParams .. => .enum
  | .enumPlain .. => .enum
  | .str _ => .str
  | .int _ => .num
  | .bool _ => .num
  | .bytes _ => .bytes
  | _ => .other

def bytesLe : Bytes → Bytes → Bool
  | [], _ => true
  | _ :: _, [] => false
  | a :: as, b :: bs => if a < b then true else if b < a then false else bytesLe as bs

/-- `a ≤ b` for two keys of the same class (`name` order for enums) -/
def keyLe (a b : PyVal) : Bool :=
  match a, b with
  | .str s, .str t => decide (s ≤ t)
  | .int i, .int j => decide (i ≤ j)
  | .int i, .bool c => decide (i ≤ (if c then 1 else 0))
  | .bool c, .int j => decide ((if c then (1 : Int) else 0) ≤ j)
  | .bool c, .bool d => decide ((if c then (1 : Int) else 0) ≤ (if d then 1 else 0))
  | .bytes x, .bytes y => bytesLe x y
  | x, y => decide (x.enumName ≤ y.enumName)

/-- The guard under which `_get_ordered_dict` does not raise for a plain `dict` with these keys:
all keys enums (sorted by name), or fewer than two keys (nothing is compared), or all keys of one
orderable class. -/
def keysSortable (keys : List PyVal) : Bool :=
  keys.all (·.isEnum) || keys.length ≤ 1 ||
  keys.all (fun k => keyClass k == .str) || keys.all (fun k => keyClass k == .num) ||
  keys.all (fun k => keyClass k == .bytes)

/-- insert `x`, which preceded every element of the (sorted) list in the input, in front of the first
element that is not smaller: the sort is stable, as Python's is -/
def insertBy {α : Type} (le : α → α → Bool) (x : α) : List α → List α
  | [] => [x]
  | y :: ys => if le x y then x :: y :: ys else y :: insertBy le x ys

def sortBy {α : Type} (le : α → α → Bool) (xs : List α) : List α :=
  xs.foldr (insertBy le) []

/-- the pairs of a dict in the order `_get_ordered_dict` yields them -/
def orderPairs {β : Type} (ordered : Bool) (kvs : List (PyVal × β)) : Except PErr (List (PyVal × β)) :=
  if ordered then .ok kvs
  else if keysSortable (kvs.map (·.1)) then .ok (sortBy (fun a b => keyLe a.1 b.1) kvs)
  else .error (.crash "TypeError")

def isPrivateKey : PyVal → Bool
  | .str s => s.startsWith "_"
  | _ => false

/-! ### `json.dumps` text (defaults: `ensure_ascii=True`, separators `", "` and `": "`) -/

def hexLower (n : Nat) : Char :=
  if n < 10 then Char.ofNat (48 + n) else Char.ofNat (87 + n)

/-- `\uXXXX`, lowercase hex as `'\\u{0:04x}'.format(n)` -/
def u4 (n : Nat) : List Char :=
  ['\\', 'u', hexLower (n / 4096 % 16), hexLower (n / 256 % 16), hexLower (n / 16 % 16), hexLower (n % 16)]

/-- `py_encode_basestring_ascii` for one character -/
def escapeChar (c : Char) : List Char :=
  if c = '"' then ['\\', '"']
  else if c = '\\' then ['\\', '\\']
  else if c = '\n' then ['\\', 'n']
  else if c = '\r' then ['\\', 'r']
  else if c = '\t' then ['\\', 't']
  else if c.toNat = 8 then ['\\', 'b']
  else if c.toNat = 12 then ['\\', 'f']
  else if 32 ≤ c.toNat ∧ c.toNat ≤ 126 then [c]
  else if c.toNat < 65536 then u4 c.toNat
  else
    let n := c.toNat - 65536
    -- 0xd800 | ((n >> 10) & 0x3ff), 0xdc00 | (n & 0x3ff): n < 2^20, so these are sums
    u4 (0xd800 + n / 1024) ++ u4 (0xdc00 + n % 1024)

def escape (s : List Char) : List Char := s.flatMap escapeChar

def quote (s : String) : List Char := '"' :: escape s.toList ++ ['"']

mutual
def renderChars : Json → List Char
  | .null => "null".toList
  | .bool true => "true".toList
  | .bool false => "false".toList
  | .int i => (toString i).toList
  | .float r => (jsonFloat r).toList
  | .str s => quote s
  | .arr [] => ['[', ']']
  | .arr (x :: xs) => '[' :: renderChars x ++ renderTail xs
  | .obj [] => ['{', '}']
  | .obj ((k, v) :: rest) => '{' :: quote k ++ [':', ' '] ++ renderChars v ++ renderMembers rest
def renderTail : List Json → List Char
  | [] => [']']
  | x :: xs => [',', ' '] ++ renderChars x ++ renderTail xs
def renderMembers : List (String × Json) → List Char
  | [] => ['}']
  | (k, v) :: rest => [',', ' '] ++ quote k ++ [':', ' '] ++ renderChars v ++ renderMembers rest
end

def Json.render (j : Json) : String := String.ofList (renderChars j)

/-! ### `_get_ordered_set` -/

/-- `sorted(set_value, key=lambda item: json.dumps(_json_traverse(item, _json_result)))`: `keys` are the JSON
texts of the items in iteration order; `str` comparison is by code point and the sort is stable. -/
def orderSet {β : Type} (keys : List String) (xs : List β) : List β :=
  (sortBy (fun a b => decide (a.1 ≤ b.1)) (keys.zip xs)).map (·.2)

/-! ### `_json_traverse` / `json.dumps` -/

/-- keys `json.dumps` itself accepts in a dict it encodes natively -/
def nativeKeyOk : PyVal → Bool
  | .str _ => true
  | .int _ => true
  | .bool _ => true
  | .none => true
  | .float _ => true
  | _ => false

mutual
/-- `Serializable._json_traverse(obj, Serializable._json_result)` followed by `json.dumps`' own
encoding of what it returned. -/
def jsonTraverse : PyVal → Except PErr Json
  -- isinstance(obj, enum.Enum) → _json_result
  | .enumParams n _ _ => .ok (.str n)
  | .enumPlain n _ v => do
      let j ← jsonNative v                      -- `{obj.name: obj.value}`: the raw value goes back to json.dumps
      pure (.obj [(n, j)])
  -- hasattr(obj, '_asdict')
  | .hasAsdict _ _ _ inner => jsonTraverse inner
  -- isinstance(obj, dict) or attr.has(type(obj))
  | .dict ordered kvs => do
      -- `_get_ordered_dict` runs before the values are traversed; both can only fail with TypeError,
      -- so checking the order afterwards is not observable
      let items ← jsonKVs kvs
      let sorted ← orderPairs ordered items
      pure (.obj (sorted.map fun kv => (keyString kv.1, kv.2)))
  | .attrs _ _ fields => do
      let items ← jsonKVs fields
      pure (.obj ((items.filter fun kv => !isPrivateKey kv.1).map fun kv => (keyString kv.1, kv.2)))
  -- hasattr(obj, '__dict__') → traverse(obj.__dict__), a plain dict (private names included)
  | .hasDict _ vars => do
      let items ← jsonKVs vars
      let sorted ← orderPairs false items
      pure (.obj (sorted.map fun kv => (keyString kv.1, kv.2)))
  -- frozenset, set: the items in the order of `_get_ordered_set`
  | .seq true items => do
      let js ← jsonList items
      pure (.arr (orderSet (js.map Json.render) js))
  -- list, tuple: iteration order
  | .seq false items => do
      let js ← jsonList items
      pure (.arr js)
  -- _json_result
  | .none => .ok .null
  | .bool b => .ok (.bool b)
  | .int i => .ok (.int i)
  | .float r => .ok (.float r)
  | .str s => .ok (.str s)
  | .bytes b => .ok (.str (hexColon b))
  | .opaque h => .ok (.str h.strv)

def jsonList : List PyVal → Except PErr (List Json)
  | [] => .ok []
  | x :: xs => do
      let j ← jsonTraverse x
      let js ← jsonList xs
      pure (j :: js)

def jsonKVs : List (PyVal × PyVal) → Except PErr (List (PyVal × Json))
  | [] => .ok []
  | (k, v) :: rest => do
      let j ← jsonTraverse v
      let js ← jsonKVs rest
      pure ((k, j) :: js)

/-- `json.dumps`' native encoding of a raw value (reached through a plain enum's `.value`):
basic types, list/tuple and dict are encoded without calling `default`; everything else goes
through `default`, i.e. `_json_traverse`. -/
def jsonNative : PyVal → Except PErr Json
  | .none => .ok .null
  | .bool b => .ok (.bool b)
  | .int i => .ok (.int i)
  | .float r => .ok (.float r)
  | .str s => .ok (.str s)
  | .seq false items => do
      let js ← jsonNativeList items
      pure (.arr js)
  | .dict _ kvs => do
      let items ← jsonNativeKVs kvs            -- insertion order, no sorting
      pure (.obj items)
  | .seq true items => do                       -- default(set) → list, in the order of `_get_ordered_set`
      let js ← jsonList items
      pure (.arr (orderSet (js.map Json.render) js))
  | .bytes b => .ok (.str (hexColon b))
  | .enumParams n _ _ => .ok (.str n)
  | .enumPlain _ true v => jsonNative v         -- an int / str / float instance: encoded natively
  | .enumPlain n false v => do
      let j ← jsonNative v
      pure (.obj [(n, j)])
  | .hasAsdict _ _ _ inner => jsonTraverse inner
  | .attrs _ _ fields => do
      let items ← jsonKVs fields
      pure (.obj ((items.filter fun kv => !isPrivateKey kv.1).map fun kv => (keyString kv.1, kv.2)))
  | .hasDict _ vars => do
      let items ← jsonKVs vars
      let sorted ← orderPairs false items
      pure (.obj (sorted.map fun kv => (keyString kv.1, kv.2)))
  | .opaque h => .ok (.str h.strv)

def jsonNativeList : List PyVal → Except PErr (List Json)
  | [] => .ok []
  | x :: xs => do
      let j ← jsonNative x
      let js ← jsonNativeList xs
      pure (j :: js)

def jsonNativeKVs : List (PyVal × PyVal) → Except PErr (List (String × Json))
  | [] => .ok []
  | (k, v) :: rest => do
      if !nativeKeyOk k then throw (.crash "TypeError")   -- "keys must be str, int, float, bool or None"
      let j ← jsonNative v
      let js ← jsonNativeKVs rest
      pure ((keyString k, j) :: js)
end

/-- `obj.as_json()`, i.e. `json.dumps(obj)`: `json` first tries its native encoding and calls `default`
(`_json_traverse`) for everything else -/
def asJson (v : PyVal) : Except PErr String := (jsonNative v).map Json.render

/-! ## Markdown -/

/-- A `post_text_encoder`: the default `SerializableTextEncoder` is `⟨"", ""⟩` (`str(obj)` unchanged);
an application's replacement is modelled as decorating the text. -/
structure Enc where
  pre : String
  post : String
deriving Repr, DecidableEq, Inhabited

def Enc.dflt : Enc := ⟨"", ""⟩

/-- The class-level state: `Serializable.post_text_encoder` (`base`) and the `post_text_encoder` attributes
subclasses carry themselves (`pins`; such an attribute shadows the one of `Serializable`).  The code assigns
`base` only (`_markdown_human_readable_names`); it never creates or changes a subclass attribute. -/
structure EncState where
  base : Enc
  pins : List (String × Enc)
deriving Repr, DecidableEq, Inhabited

def EncState.init : EncState := ⟨Enc.dflt, []⟩

/-- `cls.post_text_encoder` -/
def EncState.get (σ : EncState) (cls : String) : Enc :=
  if cls == "Serializable" then σ.base else (σ.pins.lookup cls).getD σ.base

abbrev MdRes := Bool × String
/-- a suspended call `cls._markdown_result(value, level)` / `value._as_markdown(level)` -/
abbrev MdAct := String → Nat → EncState → Except PErr (MdRes × EncState)

/-- `cls.post_text_encoder(text, level)` where `text` is already `str(obj)` -/
def encode (text : String) : MdAct := fun cls _ σ =>
  let e := σ.get cls
  .ok ((false, e.pre ++ text ++ e.post), σ)

def constRes (r : MdRes) : MdAct := fun _ _ σ => .ok (r, σ)

def indentOf (level : Nat) : String := String.ofList (List.replicate (4 * level) ' ')

/-- Python's `str.title()` restricted to ASCII letters -/
def titleAux : Bool → List Char → List Char
  | _, [] => []
  | prevCased, c :: cs =>
    if c.isLower then (if prevCased then c else c.toUpper) :: titleAux true cs
    else if c.isUpper then (if prevCased then c.toLower else c) :: titleAux true cs
    else c :: titleAux false cs

/-- `' '.join(name.split('_')).title()` -/
def humanName (name : String) : String :=
  String.ofList (titleAux false (name.toList.map fun c => if c = '_' then ' ' else c))

def lookupMeta (metas : List FieldMeta) (name : String) : Option FieldMeta :=
  metas.find? (·.name == name)

/-- `_filter_out_non_human_friendly(obj, dict_value, True)` for an attrs `obj` -/
def humanFriendlyKey (metas : List FieldMeta) : PyVal → Bool
  | .str s => match lookupMeta metas s with
    | some m => m.humanFriendly
    | none => true
  | _ => true

/-- an entry of the dict `_markdown_result_complex` walks: the key, how to render the key when it is not a
string (`cls._markdown_result(name)`), how to render the value (`cls._markdown_result(value, level + 1)`) -/
structure MdEntry where
  key : PyVal
  keyAct : MdAct
  valAct : MdAct

/-- `_markdown_human_readable_names` for one name -/
def nameOf (metas : List FieldMeta) (e : MdEntry) (cls : String) (σ : EncState) : Except PErr (String × EncState) :=
  match e.key with
  | .str s =>
    match lookupMeta metas s with
    | some ⟨_, _, some hr⟩ => .ok (hr, σ)
    | _ => .ok (humanName s, σ)
  | _ => do
    let saved := σ.base                                  -- post_text_encoder = Serializable.post_text_encoder
    let σ₁ := { σ with base := Enc.dflt }                -- Serializable.post_text_encoder = SerializableTextEncoder()
    let (r, σ₂) ← e.keyAct cls 0 σ₁                      -- _, human_readable_name = cls._markdown_result(name)
    pure (r.2, { σ₂ with base := saved })                -- finally: Serializable.post_text_encoder = post_text_encoder

def namesOf (metas : List FieldMeta) (cls : String) : List MdEntry → EncState → Except PErr (List String × EncState)
  | [], σ => .ok ([], σ)
  | e :: es, σ => do
    let (n, σ₁) ← nameOf metas e cls σ
    let (ns, σ₂) ← namesOf metas cls es σ₁
    pure (n :: ns, σ₂)

/-- the item loop of `_markdown_result_complex` -/
def complexItems (cls : String) (level : Nat) : List (String × MdEntry) → String → EncState → Except PErr (String × EncState)
  | [], acc, σ => .ok (acc, σ)
  | (name, e) :: rest, acc, σ => do
    let (r, σ₁) ← e.valAct cls (level + 1) σ
    let line := indentOf level ++ "* " ++ name ++ (if r.1 then ":\n" ++ r.2 else ": " ++ r.2 ++ "\n")
    complexItems cls level rest (acc ++ line) σ₁

/-- `_markdown_result_complex` once `dict_value` is known -/
def runComplex (metas : List FieldMeta) (entries : List MdEntry) : MdAct := fun cls level σ => do
  let (names, σ₁) ← namesOf metas cls entries σ
  let (text, σ₂) ← complexItems cls level (names.zip entries) "" σ₁
  if text.isEmpty then pure ((false, "-"), σ₂) else pure ((true, text), σ₂)

/-- the item loop of `_markdown_result_list` -/
def listItems (cls : String) (level : Nat) : List MdAct → Nat → String → EncState → Except PErr (String × EncState)
  | [], _, acc, σ => .ok (acc, σ)
  | a :: rest, index, acc, σ => do
    let (r, σ₁) ← a cls (level + 1) σ
    let line := indentOf level ++ toString (index + 1) ++ "." ++ (if r.1 then "\n" else " ") ++ r.2 ++ (if r.1 then "" else "\n")
    listItems cls level rest (index + 1) (acc ++ line) σ₁

/-- `_markdown_result_list` -/
def runList (items : List MdAct) : MdAct := fun cls level σ =>
  if items.isEmpty then .ok ((false, "-"), σ)
  else do
    let (text, σ₁) ← listItems cls level items 0 "" σ
    pure ((true, text), σ₁)

/-- `_markdown_result_list` of a set: the items in the order of `_get_ordered_set`, whose keys are the JSON texts
of the items (`keys`: `jsonList items`, which can raise the `TypeError` of an unorderable dict inside an item) -/
def runSet (keys : Except PErr (List Json)) (items : List MdAct) : MdAct := fun cls level σ =>
  match keys with
  | .error e => .error e
  | .ok js => runList (orderSet (js.map Json.render) items) cls level σ

/-- `_get_ordered_dict(dict_value, human_friendly_only=True)` on a dict, then `runComplex` -/
def runDict (ordered : Bool) (entries : List MdEntry) : MdAct := fun cls level σ => do
  let sorted ← orderPairs ordered (entries.map fun e => (e.key, e))
  runComplex [] (sorted.map (·.2)) cls level σ

/-- the part of `_markdown_result` that only looks at the object's header (tests between `Gradeable`
and `CryptoDataParamsBase`); `none` when none of them applies -/
def hdrResult (h : ObjHdr) (asMarkdown : MdAct) : Option MdAct :=
  if h.gradeable then some (encode h.strv)
  else if h.serializable then some (fun _ level σ => asMarkdown h.cls level σ)   -- obj._as_markdown(level): cls becomes type(obj)
  else if h.strClass then some (constRes (false, h.strv))
  else match h.seconds with
    | some s => some (constRes (false, toString s))
    | none => if h.params then some (constRes (false, h.strv)) else none

/-- `obj._as_markdown(level)` for a `Serializable` object, given its pieces: the literal its own
`_as_markdown` returns, or the call `self._markdown_result(x, level)` it makes, or (not overridden)
`Serializable._as_markdown`, i.e. `_markdown_result_complex(self, level)` -/
def asMarkdownOf (h : ObjHdr) (argAct : Option MdAct) (complexAct : MdAct) : MdAct :=
  match h.mdLit with
  | some lit => constRes lit
  | none =>
    match argAct with
    | some a => a
    | none => complexAct

def PyVal.hdr? : PyVal → Option ObjHdr
  | .hasAsdict h .. => Option.some h
  | .attrs h .. => Option.some h
  | .hasDict h .. => Option.some h
  | .opaque h => Option.some h
  | _ => Option.none

/-- isinstance(v, Serializable) -/
def PyVal.isSer (v : PyVal) : Bool := match v.hdr? with
  | Option.some h => h.serializable
  | Option.none => false

def baseCls : String := "Serializable"

def PyVal.clsOf (v : PyVal) : String := match v.hdr? with
  | Option.some h => h.cls
  | Option.none => baseCls

/-- the tests of `_markdown_result` on an object: first those that only look at the header, then `fallback` -/
def objResult (h : ObjHdr) (asMarkdown : MdAct) (fallback : MdAct) : MdAct :=
  match hdrResult h asMarkdown with
  | some act => act
  | none => fallback

mutual
/-- `cls._markdown_result(obj, level)` as a suspended call -/
def mdResult : PyVal → MdAct
  | .none => encode "n/a"
  | .bool b => encode (if b then "yes" else "no")
  -- _markdown_is_directly_printable
  | .str s => encode s
  | .int i => encode (toString i)
  | .float r => encode r
  -- isinstance(obj, enum.Enum)
  | .enumParams _ _ (some v) => fun _ level σ => mdAsMarkdown v (PyVal.clsOf v) level σ   -- obj.value._as_markdown(level)
  | .enumParams _ vs none => encode vs                                                      -- post_text_encoder(obj.value)
  | .enumPlain n _ v =>
    if PyVal.isSer v then fun _ level σ => mdAsMarkdown v (PyVal.clsOf v) level σ
    else encode n                                                                           -- post_text_encoder(obj.name)
  -- attr.has(type(obj)) → _markdown_result_complex(obj); else hasattr(obj, '_asdict') → _markdown_result(obj._asdict())
  | .hasAsdict h metas (some x) inner =>
    objResult h (asMarkdownOf h (some (mdResult x)) (mdComplexAsdict inner metas (mdResult inner)))
      (if metas.isSome then mdComplexAsdict inner metas (mdResult inner) else mdResult inner)
  | .hasAsdict h metas none inner =>
    objResult h (asMarkdownOf h none (mdComplexAsdict inner metas (mdResult inner)))
      (if metas.isSome then mdComplexAsdict inner metas (mdResult inner) else mdResult inner)
  | .attrs h metas fields =>
    objResult h
      (runComplex metas ((mdEntries fields).filter fun e => !isPrivateKey e.key && humanFriendlyKey metas e.key))
      (runComplex metas ((mdEntries fields).filter fun e => !isPrivateKey e.key && humanFriendlyKey metas e.key))
  | .hasDict h vars =>
    objResult h (runDict false ((mdEntries vars).filter fun e => !isPrivateKey e.key))
      (runDict false ((mdEntries vars).filter fun e => !isPrivateKey e.key))
  | .dict ordered kvs => runDict ordered (mdEntries kvs)
  | .seq true items => runSet (jsonList items) (mdActs items)
  | .seq false items => runList (mdActs items)
  | .bytes b => encode (hexColon b)
  | .opaque h => objResult h (encode h.strv) (encode h.strv)

/-- `obj._as_markdown(level)` -/
def mdAsMarkdown : PyVal → MdAct
  | .hasAsdict h metas (some x) inner =>
    asMarkdownOf h (some (mdResult x)) (mdComplexAsdict inner metas (mdResult inner))
  | .hasAsdict h metas none inner =>
    asMarkdownOf h none (mdComplexAsdict inner metas (mdResult inner))
  | .none => constRes (false, "")         -- the remaining cases are not reachable: every Serializable has `_asdict`
  | .bool _ => constRes (false, "")
  | .int _ => constRes (false, "")
  | .float _ => constRes (false, "")
  | .str _ => constRes (false, "")
  | .bytes _ => constRes (false, "")
  | .enumParams .. => constRes (false, "")
  | .enumPlain .. => constRes (false, "")
  | .seq .. => constRes (false, "")
  | .dict .. => constRes (false, "")
  | .attrs .. => constRes (false, "")
  | .hasDict .. => constRes (false, "")
  | .opaque .. => constRes (false, "")

/-- `_markdown_result_complex(obj, level)` for an object with `_asdict`, by the value `_asdict()` returned;
`self` is `cls._markdown_result(dict_value, level)`, taken when the value is not a dict -/
def mdComplexAsdict : PyVal → Option (List FieldMeta) → MdAct → MdAct
  | .dict _ kvs, some ms, _ => runComplex ms ((mdEntries kvs).filter fun e => humanFriendlyKey ms e.key)
  | .dict _ kvs, none, _ => runComplex [] (mdEntries kvs)
  | .none, _, self => self
  | .bool _, _, self => self
  | .int _, _, self => self
  | .float _, _, self => self
  | .str _, _, self => self
  | .bytes _, _, self => self
  | .enumParams .., _, self => self
  | .enumPlain .., _, self => self
  | .seq .., _, self => self
  | .hasAsdict .., _, self => self
  | .attrs .., _, self => self
  | .hasDict .., _, self => self
  | .opaque .., _, self => self

def mdActs : List PyVal → List MdAct
  | [] => []
  | x :: xs => mdResult x :: mdActs xs

def mdEntries : List (PyVal × PyVal) → List MdEntry
  | [] => []
  | (k, v) :: rest => ⟨k, mdResult k, mdResult v⟩ :: mdEntries rest
end

/-- `cls._markdown_result(v, level)` from the initial class state -/
def markdownSt (v : PyVal) (level : Nat) (σ : EncState) : Except PErr (MdRes × EncState) :=
  mdResult v baseCls level σ

/-- `Serializable._markdown_result(v, level)` with the default encoder installed -/
def markdown (v : PyVal) (level : Nat) : Except PErr MdRes :=
  (markdownSt v level EncState.init).map (·.1)

/-- `obj.as_markdown()`: `_, result = self._as_markdown(0)` -/
def asMarkdownSt (v : PyVal) (σ : EncState) : Except PErr (String × EncState) :=
  (if v.isSer then mdAsMarkdown v v.clsOf 0 σ else mdResult v baseCls 0 σ).map fun r => (r.1.2, r.2)

def asMarkdown (v : PyVal) : Except PErr String := (asMarkdownSt v EncState.init).map (·.1)

/-! ## the hypothesis of the set-order theorems (evaluated by the driver's `DK` op) -/

/-- the traversed item (`null` stands in when the traversal raises: the whole call raises then) -/
def jsonOf (x : PyVal) : Json :=
  match jsonTraverse x with
  | .ok j => j
  | .error _ => .null

/-- `json.dumps(Serializable._json_traverse(item, Serializable._json_result))` -/
def setKey (x : PyVal) : String := Json.render (jsonOf x)

def jsonOk (x : PyVal) : Bool :=
  match jsonTraverse x with
  | .ok _ => true
  | .error _ => false

mutual
/-- in every set inside the value, different elements have different keys (`setKey`).  Elements of a Python set
are pairwise different objects; this asks that their JSON documents differ too. -/
def distinctKeys : PyVal → Bool
  | .none => true
  | .bool _ => true
  | .int _ => true
  | .float _ => true
  | .str _ => true
  | .bytes _ => true
  | .enumParams _ _ (some v) => distinctKeys v
  | .enumParams _ _ none => true
  | .enumPlain _ _ v => distinctKeys v
  | .seq isSet xs => (!isSet || decide ((xs.map setKey).Nodup)) && distinctKeysL xs
  | .dict _ kvs => distinctKeysKV kvs
  | .hasAsdict _ _ (some x) inner => distinctKeys x && distinctKeys inner
  | .hasAsdict _ _ none inner => distinctKeys inner
  | .attrs _ _ fs => distinctKeysKV fs
  | .hasDict _ vars => distinctKeysKV vars
  | .opaque _ => true
def distinctKeysL : List PyVal → Bool
  | [] => true
  | x :: xs => distinctKeys x && distinctKeysL xs
def distinctKeysKV : List (PyVal × PyVal) → Bool
  | [] => true
  | (k, v) :: rest => distinctKeys k && distinctKeys v && distinctKeysKV rest
end

end Cp.Serial
