import CpModel.Gen.Defaults
/-
  CpModel.Own — a small ownership model of attrs default values (property C13, "objects created with
  default arguments do not share mutable state").

  attrs evaluates a plain `default=<object>` ONCE, at class creation; every instance built without
  that argument stores this very object unless the field's converter makes a copy.  An
  `attr.Factory` default, or a copying converter, gives each instance its own object.
-/
namespace Cp.Own
open Cp.Gen

/-- does an instance built with default arguments store the class-level default object itself? -/
def shares (f : FieldDefault) : Bool :=
  f.dflt == .mutableShared && f.conv != .copies

/-- where the value of a default-constructed field lives -/
inductive Loc where
  | classLevel (field : Nat)        -- the one object created when the class was defined
  | own (inst field : Nat)          -- an object created for this instance
deriving DecidableEq, Repr

/-- location held by field `i` of the `inst`-th default-constructed instance -/
def fieldLoc (tbl : List FieldDefault) (inst i : Nat) : Loc :=
  match tbl[i]? with
  | some f => if shares f then .classLevel i else .own inst i
  | none => .own inst i

/-- a heap of abstract cell contents, and an in-place edit through one field of one instance -/
abbrev Heap := Loc → Nat

def editField (tbl : List FieldDefault) (h : Heap) (inst i : Nat) (v : Nat) : Heap :=
  fun l => if l = fieldLoc tbl inst i then v else h l

def readField (tbl : List FieldDefault) (h : Heap) (inst i : Nat) : Nat := h (fieldLoc tbl inst i)

end Cp.Own
