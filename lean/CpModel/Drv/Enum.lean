import CpModel.Drv.Util
import CpModel.Enum
/- Handlers for coded-enumeration ops (C10): EA EI ES. -/
namespace Cp.Drv

def findNum (name : String) : Option Gen.NumTable := Gen.numTables.find? (·.name == name)
def findStr (name : String) : Option Gen.StrTable := Gen.strTables.find? (·.name == name)

def showCoded (codes : List Nat) : Coded → String
  | .known i => s!"E{codes.getD i 0}"
  | .unknown c => s!"U{c}"

def enumOp : List String → Option String
  | ["EA", tbl, k, fb, hex] => do
    let t ← findNum tbl; let k ← k.toNat?; let b ← bytesOfHex hex
    pure (match parseCodedArray t.codes k (fb == "1") (b.length + 1) b with
      | .ok items =>
        let recomposed := items.map (composeCodedOrFallback t.codes k)
        let bytes := recomposed.foldl (fun acc r => match acc, r with
          | some a, .ok x => some (a ++ x)
          | _, _ => none) (some [])
        s!"OK {showList (items.map (showCoded t.codes))} {match bytes with | some x => hexOrDash x | none => "COMPOSE-ERR"}"
      | .error e => showErr e)
  | ["EI", tbl, k, hex] => do
    let t ← findNum tbl; let k ← k.toNat?; let b ← bytesOfHex hex
    pure (match parseIntEnum t.memberCodes k b with
      | .ok (c, n) => s!"OK {n} E{c}"
      | .error e => showErr e)
  | ["ES", tbl, hex] => do
    let t ← findStr tbl; let b ← bytesOfHex hex
    if b.any (fun x => x.toNat ≥ 128) then pure "ERR InvalidValue"
    else
      let text := String.ofList (b.map fun x => Char.ofNat x.toNat)
      pure (match parseStrEnum t.insensitive t.codes text with
        | .ok (i, n) => s!"OK {n} {i}"
        | .error e => showErr e)
  | _ => none

end Cp.Drv
