import CpModel.Drv.Util
import CpModel.Tls.Canon
import CpModel.Opp.Canon
import CpModel.Dns.Canon
import CpModel.Ssh.Canon
import CpModel.Tls.Ssl2Canon
/- Class-level ops: P (parse_immutable), X (parse_exact_size), M (parse_mutable), R (parse + recompose). -/
namespace Cp.Drv
open Cp.Tls

def allClasses : List DrvClass := tlsClasses ++ Cp.Opp.oppClasses ++ Cp.Dns.dnsClasses ++ Cp.Ssh.sshClasses ++ Cp.Ssl2.ssl2Classes

def findClass (name : String) : Option DrvClass := allClasses.find? (·.name == name)

def showErr' (e : PErr) : String :=
  match e with
  | .crash "UNMODELLED" => "UNMODELLED"
  | e => showErr e

def showCompose : Except PErr Bytes → String
  | .ok b => hexOrDash b
  | .error (.crash "UNMODELLED") => "UNMODELLED"
  | .error e => "COMPOSE-" ++ (showErr e).replace " " "_"

def classOp : List String → Option String
  | ["P", cls, hex] => do
    let c ← findClass cls; let b ← bytesOfHex hex
    pure (match c.run b with
      | .ok (s, n, _) => s!"OK {n} {s}"
      | .error e => showErr' e)
  | ["X", cls, hex] => do
    let c ← findClass cls; let b ← bytesOfHex hex
    pure (match c.run b with
      | .ok (s, n, _) => if b.length > n then s!"ERR TooMuchData {n}" else s!"OK {s}"
      | .error e => showErr' e)
  | ["M", cls, hex] => do
    let c ← findClass cls; let b ← bytesOfHex hex
    pure (match c.run b with
      | .ok (s, n, _) => s!"OK {s} {hexOrDash (b.drop n)}"
      | .error e => s!"{showErr' e} {hexOrDash b}")
  | ["R", cls, hex] => do
    let c ← findClass cls; let b ← bytesOfHex hex
    pure (match c.run b with
      | .ok (s, n, r) => s!"OK {n} {s} {showCompose r}"
      | .error e => showErr' e)
  | ["CLASSES"] => some (" ".intercalate (allClasses.map (·.name)))
  | _ => none

end Cp.Drv
