import CpModel.Drv.Util
import CpModel.Tls.Version
/- Handlers for TLS-level ops. -/
namespace Cp.Drv
open Cp.Tls

def b01 (b : Bool) : String := if b then "1" else "0"

def tlsOp : List String → Option String
  | ["LT", a, b] => do
    let a ← a.toNat?; let b ← b.toNat?
    pure (" ".intercalate [b01 (lt a b), b01 (le a b), b01 (eq a b), b01 (!(eq a b)), b01 (gt a b), b01 (ge a b),
      b01 (hashKey a == hashKey b)])
  | _ => none

end Cp.Drv
