import CpModel.Drv.Util
import CpModel.Tls.Version
import CpModel.Tls.Ja3
import CpSpec.Ja3
/- Handlers for TLS-level ops. -/
namespace Cp.Drv
open Cp.Tls

def b01 (b : Bool) : String := if b then "1" else "0"

def tlsOp : List String → Option String
  | ["LT", a, b] => do
    let a ← a.toNat?; let b ← b.toNat?
    pure (" ".intercalate [b01 (lt a b), b01 (le a b), b01 (eq a b), b01 (!(eq a b)), b01 (gt a b), b01 (ge a b),
      b01 (hashKey a == hashKey b)])
  | ["J3", hex] => do
    let b ← bytesOfHex hex
    let model := match parseClientHello b with
      | .ok (h, n) => s!"OK {n} {hexOfBytes (ja3 h).toUTF8.toList}"
      | .error (.crash "UNMODELLED") => "UNMODELLED"
      | .error e => showErr e
    let spec := match Cp.Spec.Ja3.ja3Ref b with
      | some s => hexOfBytes s.toUTF8.toList
      | none => "NONE"
    pure s!"{model} {spec}"
  | _ => none

end Cp.Drv
