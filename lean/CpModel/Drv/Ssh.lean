import CpModel.Drv.Util
import CpModel.Ssh.Canon
import CpModel.Ssh.Fingerprint
import CpSpec.Ssh
/- Handlers for the SSH-level ops: HS (HASSH preimages), SK (key blob), SP (padding rule). -/
namespace Cp.Drv
open Cp Cp.Ssh

def showOptBytes : Option Bytes → String
  | some b => hexOrDash b
  | none => "NONE"

def showExBytes : Except PErr Bytes → String
  | .ok b => hexOrDash b
  | .error e => (showErr e).replace " " "_"

def sshOp : List String → Option String
  | ["HS", hex] => do
    let b ← bytesOfHex hex
    pure (match kexInitCodec.parse b with
      | .ok (k, n) =>
        s!"OK {n} {showExBytes (hasshPreimage k)} {showExBytes (hasshServerPreimage k)} " ++
          s!"{showOptBytes (Spec.Ssh.hasshPreimageOfWire b)} {showOptBytes (Spec.Ssh.hasshServerPreimageOfWire b)}"
      | .error e => if e == .crash "UNMODELLED" then "UNMODELLED" else showErr e)
  | ["SK", hex] => do
    let b ← bytesOfHex hex
    pure (match parseHostKeyVariant b with
      | .ok (k, n) => s!"OK {n} {cHostKey k} {showExBytes (keyBytes k)}"
      | .error e => if e == .crash "UNMODELLED" then "UNMODELLED" else showErr e)
  | ["SP", len] => do
    let n ← len.toNat?
    pure s!"OK {padLen n} {n + padLen n + 1} {Spec.Ssh.paddingLength n}"
  | ["FE", kind, hex] => do
    -- fingerprint text for a given digest: the model's rendering and the specification's
    let d ← bytesOfHex hex
    let (k, pre) ← match kind with
      | "SHA256" => some (FpKind.sha256, Spec.Ssh.prefixSha256)
      | "SHA1" => some (FpKind.sha1, Spec.Ssh.prefixSha1)
      | "MD5" => some (FpKind.md5, Spec.Ssh.prefixMd5)
      | _ => none
    let spec := pre ++ (if kind == "MD5" then Spec.Ssh.colonHex d else Spec.Ssh.base64 d)
    pure s!"OK {hexOrDash (renderFingerprint k d)} {hexOrDash spec}"
  | ["KH", hex] => do
    let b ← bytesOfHex hex
    pure s!"OK {hexOrDash (b64encode b)} {hexOrDash (Spec.Ssh.base64 b)}"
  | ["SE", hex] => do
    -- independent reference encoder of a binary packet around a payload
    let b ← bytesOfHex hex
    pure s!"OK {hexOrDash (Spec.Ssh.binaryPacket b)}"
  | _ => none

end Cp.Drv
