import CpModel.Drv.Util
/- Handlers for the primitive ops (C11): CN PN CF PF CM PM CS PS CT PT CB PB PR. -/
namespace Cp.Drv

def natList? (s : String) : Option (List Nat) :=
  if s == "-" then some [] else (s.splitOn ",").mapM String.toNat?

def primOp : List String → Option String
  | ["CN", bo, k, v] => do
    let bo ← parseBo bo; let k ← k.toNat?; let v ← v.toInt?
    pure (showBytesRes (composeNum bo k v))
  | ["PN", bo, k, hex] => do
    let bo ← parseBo bo; let k ← k.toNat?; let b ← bytesOfHex hex
    pure (match parseNum bo k b with
      | .ok (v, n) => s!"OK {n} {v}"
      | .error e => showErr e)
  | ["PA", bo, n, k, hex] => do
    let bo ← parseBo bo; let n ← n.toNat?; let k ← k.toNat?; let b ← bytesOfHex hex
    pure (match parseNumArray bo n k b with
      | .ok (v, n) => s!"OK {n} {showList (v.map toString)}"
      | .error e => showErr e)
  | ["CF", bo, k, sh, vals] => do
    let bo ← parseBo bo; let k ← k.toNat?; let sh ← sh.toNat?; let vs ← natList? vals
    pure (showBytesRes (composeFlags bo k sh vs))
  | ["PF", bo, k, sh, members, hex] => do
    let bo ← parseBo bo; let k ← k.toNat?; let sh ← sh.toNat?; let ms ← natList? members
    let b ← bytesOfHex hex
    pure (match parseFlags bo k sh ms b with
      | .ok (v, n) => s!"OK {n} {showList (v.map toString)}"
      | .error e => showErr e)
  | ["CM", len, v] => do
    let len ← len.toNat?; let v ← v.toInt?
    pure (showBytesRes (composeMpint v len))
  | ["PM", len, hex] => do
    let len ← len.toNat?; let b ← bytesOfHex hex
    pure (match parseMpint len b with
      | .ok (v, n) => s!"OK {n} {v}"
      | .error e => showErr e)
  | ["CS", v] => do
    let v ← v.toInt?
    pure (showBytesRes (composeSshMpint v))
  | ["PS", hex] => do
    let b ← bytesOfHex hex
    pure (match parseSshMpint b with
      | .ok (v, n) => s!"OK {n} {v}"
      | .error e => showErr e)
  | ["CT", bo, k, t] => do
    let bo ← parseBo bo; let k ← k.toNat?
    let t ← if t == "~" then some none else t.toNat?.map some
    pure (showBytesRes (composeTimestamp bo k t))
  | ["PT", bo, ms, k, hex] => do
    let bo ← parseBo bo; let k ← k.toNat?; let b ← bytesOfHex hex
    pure (match parseTimestamp bo (ms == "1") k b with
      | .ok (v, n) => s!"OK {n} {optNat v}"
      | .error e => showErr e)
  | ["PR", size, hex] => do
    let size ← size.toInt?; let b ← bytesOfHex hex
    pure (match parseRaw size b with
      | .ok (v, n) => s!"OK {n} {hexOrDash v}"
      | .error e => showErr e)
  | ["PB", bo, k, hex] => do
    let bo ← parseBo bo; let k ← k.toNat?; let b ← bytesOfHex hex
    pure (match parseBytes bo k b with
      | .ok (v, n) => s!"OK {n} {hexOrDash v}"
      | .error e => showErr e)
  | ["CB", bo, k, hex] => do
    let bo ← parseBo bo; let k ← k.toNat?; let b ← bytesOfHex hex
    pure (showBytesRes (composeBytes bo k b))
  | _ => none

end Cp.Drv
