import CpModel.Drv.Util
import CpModel.ArrayOps
/-
  Handler for vector edit histories (C12): one line is one history.

    V <min> <max> <items> <ops>

  <items>  `-` for none, otherwise `tag:size` pairs separated by `,`
           (tag = identity of the item under `==`, size = `param.get_item_size(item)`)
  <ops>    `-` for none, otherwise operations separated by `;`, fields separated by `/`,
           an int is a decimal with optional `-`, an absent slice bound (`None`) is `~`:
             A/<item>                 append(item)
             I/<i>/<item>             insert(i, item)
             E/<items>                extend(items)
             P/<items>                += items
             O/<i>   O/~              pop(i)   pop()
             R/<item>                 remove(item)
             D/<i>                    del v[i]
             DS/<a>/<b>/<st>          del v[a:b:st]
             S/<i>/<item>             v[i] = item
             SS/<a>/<b>/<st>/<items>  v[a:b:st] = items
             V                        reverse()
             C                        clear()

  Result: one line.  If the constructor refuses: `ERR NotEnoughData <n>` / `ERR TooMuchData <n>`.
  Otherwise ` | `-separated entries `<outcome> [<tags>] <itemsSize>`, the first entry for the
  construction (`init`), then one per operation, with outcome one of
    ok | popped <tag> | IndexError | ValueError | NotEnoughData <n> | TooMuchData <n>
  e.g.  `init [1,2,3] 3 | ok [1,2,3,4] 4 | TooMuchData 4 [1,2,3,4] 4`.
-/
namespace Cp.Drv
open Cp.ArrayOps

def parseItem (s : String) : Option Item :=
  match s.splitOn ":" with
  | [t, z] => do pure ⟨← t.toNat?, ← z.toNat?⟩
  | _ => none

def parseItems (s : String) : Option (List Item) :=
  if s == "-" then some [] else (s.splitOn ",").mapM parseItem

def parseOptInt (s : String) : Option (Option Int) :=
  if s == "~" then some none else s.toInt?.map some

def parseOp (s : String) : Option Op :=
  match s.splitOn "/" with
  | ["A", x] => do pure (.append (← parseItem x))
  | ["I", i, x] => do pure (.insert (← i.toInt?) (← parseItem x))
  | ["E", xs] => do pure (.extend (← parseItems xs))
  | ["P", xs] => do pure (.iadd (← parseItems xs))
  | ["O", i] => do pure (.pop (← parseOptInt i))
  | ["R", x] => do pure (.remove (← parseItem x))
  | ["D", i] => do pure (.delItem (← i.toInt?))
  | ["DS", a, b, st] => do pure (.delSlice (← parseOptInt a) (← parseOptInt b) (← parseOptInt st))
  | ["S", i, x] => do pure (.setItem (← i.toInt?) (← parseItem x))
  | ["SS", a, b, st, xs] => do
    pure (.setSlice (← parseOptInt a) (← parseOptInt b) (← parseOptInt st) (← parseItems xs))
  | ["V"] => some .reverse
  | ["C"] => some .clear
  | _ => none

def parseOps (s : String) : Option (List Op) :=
  if s == "-" then some [] else (s.splitOn ";").mapM parseOp

def showOut : Out → String
  | .ok => "ok"
  | .popped x => s!"popped {x.tag}"
  | .indexError => "IndexError"
  | .valueError => "ValueError"
  | .notEnough n => s!"NotEnoughData {n}"
  | .tooMuch n => s!"TooMuchData {n}"

def showState (s : VState) : String :=
  s!"{showList (s.items.map fun x => toString x.tag)} {s.itemsSize}"

def runShow : VState → List Op → List String
  | _, [] => []
  | s, op :: ops =>
    let r := step s op
    s!"{showOut r.2} {showState r.1}" :: runShow r.1 ops

def arrayOp : List String → Option String
  | ["V", mn, mx, items, ops] => do
    let mn ← mn.toNat?; let mx ← mx.toNat?
    let items ← parseItems items; let ops ← parseOps ops
    pure (match mk items mn mx with
      | .error e => s!"ERR {showOut e}"
      | .ok s => " | ".intercalate (s!"init {showState s}" :: runShow s ops))
  | _ => none

end Cp.Drv
