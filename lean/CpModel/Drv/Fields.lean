import CpModel.Drv.Util
import CpModel.Text.Fields
/-
  Handler for the field-layer op (C18, header/record layer).

    TX <Class> <input hex>
        `FieldValueMultiple._parse` of the class up to the component value parsers, over the regenerated table
        `Cp.Gen.fieldTables`:
        → `OK <attr><slot>,… ext=[<name hex>:<value hex|~>,…]`
          slot `-` default, `!` matched by a pair without value (named component), `=<hex|->` the value text (named
          component) or the whole text handed over (positional component)
        → `ERR InvalidValue` (a component without default has no pair; non-ASCII item)
        a class that is not in the table is `BAD-OP`
-/
namespace Cp.Drv
open Cp.Text Cp.Gen

def showSlot : Slot → String
  | .absent => "-"
  | .flag => "!"
  | .value t => "=" ++ hexOrDash t

def showPair (p : Pair) : String :=
  hexOrDash p.1 ++ ":" ++ (match p.2 with | none => "~" | some v => hexOrDash v)

def fieldsOp : List String → Option String
  | ["TX", cls, hex] => do
    let T ← fieldTables.find? (fun t => t.cls == cls)
    let b ← bytesOfHex hex
    pure (match parseFields T b with
      | .ok a =>
        let slots := (T.comps.zip a.slots).map fun (c, s) => c.attr ++ showSlot s
        s!"OK {",".intercalate slots} ext={showList (a.rest.map showPair)}"
      | .error e => showErr e)
  | _ => none

end Cp.Drv
