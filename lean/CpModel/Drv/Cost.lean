import CpModel.Drv.Util
import CpModel.Cost
/-
  Handler of the cost-model op (C19).

    TK <Class> <input hex>   →  OK <ticks> <bound> <OK|ERR>    | UNMODELLED | (BAD-OP for a class outside the table)

  `ticks` is the tick count of the class's parse on the input (`CpModel/Cost.lean`), `bound` the value of the proven
  linear bound `A * len + B` for that class at this input length, the last token the outcome class of the model's
  parse.  (The five-token `TK` of the text scanner is a different op, handled by `textOp`.)
-/
namespace Cp.Drv
open Cp Cp.Tls Cp.Cost

def outcomeTok {α : Type} : Except PErr α → Option String
  | .ok _ => some "OK"
  | .error (.crash "UNMODELLED") => none
  | .error _ => some "ERR"

def costLine {α : Type} (ticks bound : Nat) (r : Except PErr α) : String :=
  match outcomeTok r with
  | some o => s!"OK {ticks} {bound} {o}"
  | none => "UNMODELLED"

def costOp : List String → Option String
  | ["TK", cls, hex] => do
    let b ← bytesOfHex hex
    match cls with
    | "TlsRecord" => pure (costLine (recordTicks b) recordB (parseRecord b))
    | "TlsHandshakeClientHello" =>
      pure (costLine (clientHelloTicks b) (clientHelloA * b.length + (clientHelloB + hsHeaderTicks)) (parseClientHello b))
    | "TlsHandshakeServerHello" =>
      pure (costLine (serverHelloTicks 2 b) (serverHelloA * b.length + (serverHelloB + hsHeaderTicks)) (parseServerHello 2 b))
    | "TlsHandshakeCertificate" =>
      pure (costLine (certificateTicks b) (certificatesA * b.length + (certificatesB + hsHeaderTicks)) (parseCertificate b))
    | "TlsHandshakeMessageVariant" =>
      pure (costLine (handshakeVariantTicks b)
        ((Gen.handshakeVariants.length + 1) * (1 + ((clientHelloA + serverHelloA + certificatesA + certificateRequestA) * b.length +
          (clientHelloB + serverHelloB + certificatesB + certificateRequestB + 3 + hsHeaderTicks))))
        (parseHandshakeVariant b))
    | _ => none
  | ["TKCONST"] =>
    some s!"clientHelloA={clientHelloA} clientHelloB={clientHelloB + hsHeaderTicks} serverHelloA={serverHelloA} serverHelloB={serverHelloB + hsHeaderTicks} certificatesA={certificatesA} certificatesB={certificatesB + hsHeaderTicks} recordB={recordB}"
  | _ => none

end Cp.Drv
