import CpModel.Drv.Util
import CpModel.Dns.Msg
import CpSpec.Dns
/- Handler for the DNS-level op `KT <hex DNSKEY RDATA>`: the key tag the model of `key_tag` reports
for the parsed record, next to the RFC 4034 Appendix B (B.1 for algorithm 1) value of the RDATA. -/
namespace Cp.Drv
open Cp.Dns

def specKeyTagText (algCode : Nat) (rdata : Bytes) : String :=
  if algCode == 1 then
    match (Spec.Dns.decodeDnskey rdata).bind fun r => Spec.Dns.decodeRsaOctets r.publicKey with
    | some (_, m) => toString (Spec.Dns.keyTagAlg1 m)
    | none => "~"
  else toString (Spec.Dns.keyTag rdata)

def dnsOp : List String → Option String
  | ["KT", hex] => do
    let b ← bytesOfHex hex
    pure (match parseDnskey b with
      | .ok (k, _) =>
        match keyTag k with
        | .ok t => s!"OK {t} {specKeyTagText k.algCode b}"
        | .error (.crash "UNMODELLED") => "UNMODELLED"
        | .error e => "KEYTAG-" ++ (showErr e).replace " " "_"
      | .error (.crash "UNMODELLED") => "UNMODELLED"
      | .error e => showErr e)
  | _ => none

end Cp.Drv
