import CpModel.Drv.Util
import CpModel.Text.Scan
/-
  Handlers for the text-scanner ops (C18, scanner layer).  Byte strings are hex, `-` is the empty byte
  string (also "parameter not given" for `ws`), optional numbers are `-` for `None`.

    TA <sep set hex> <ws hex|-> <skipEmpty 0|1> <maxItems|-> <input hex>
        `_parse_string_array(name, sep, max_item_num, str, None, ws, skip_empty)` from `_parsed_length = 0`
        → `OK <new _parsed_length> [<item hex>,…]`
    TU <seps> <mayEnd 0|1> <ws hex|-> <offset> <input hex>
        `_parse_string_until_separator(name, offset, seps, str, None, may_end, ws)`;
        <seps> is a comma-separated list of hex strings (each one separator, `-` the empty one), `~` the empty list
        → `OK <length> <item hex|->`
    TAQ / TUQ  the same two calls with `quote_aware=True` (same arguments, same answers)
    TKQ        the cost model of the TAQ call (arguments and answer as TK)
    TC <sep set hex|-> <min|-> <max|-> <offset> <input hex>
        `_check_separators(name, offset, seps, min, max)` → `OK <count>`
    TN <input hex>
        `parse_numeric(name)` from `_parsed_length = 0` → `OK <consumed> <value>`
    TS <value hex> <offset> <input hex>
        `parse_string(name, value)` → `OK <consumed>`
    TL <min> <max|-> <offset> <input hex>
        `_parse_string_by_length(name, min, max, 'ascii', str)` → `OK <length> <text hex|->` | `ERR NotEnoughData <k>`
    TK <sep set hex> <ws hex|-> <skipEmpty 0|1> <input hex>
        cost model of the TA call (no `max_item_num`): `OK <interpreter-step ticks>`
    every op: `ERR InvalidValue` | `CRASH <kind>` (`OutOfContract`: the real call returns a negative length
    or does not terminate)
-/
namespace Cp.Drv
open Cp.Text

def optNat? (s : String) : Option (Option Nat) :=
  if s == "-" then some none else s.toNat?.map some

def sepList? (s : String) : Option (List Bytes) :=
  if s == "~" then some [] else (s.splitOn ",").mapM bytesOfHex

def textOp : List String → Option String
  | ["TA", sep, ws, skip, mx, hex] => do
    let sep ← bytesOfHex sep; let ws ← bytesOfHex ws; let mx ← optNat? mx; let b ← bytesOfHex hex
    pure (match parseStringArray b 0 sep ws (skip == "1") mx with
      | .ok (items, off) => s!"OK {off} {showList (items.map hexOrDash)}"
      | .error e => showErr e)
  | ["TU", seps, mayEnd, ws, off, hex] => do
    let seps ← sepList? seps; let ws ← bytesOfHex ws; let off ← off.toNat?; let b ← bytesOfHex hex
    pure (match parseStringUntilSeparator b off seps (mayEnd == "1") ws with
      | .ok (item, n) => s!"OK {n} {hexOrDash item}"
      | .error e => showErr e)
  | ["TAQ", sep, ws, skip, mx, hex] => do
    let sep ← bytesOfHex sep; let ws ← bytesOfHex ws; let mx ← optNat? mx; let b ← bytesOfHex hex
    pure (match parseStringArrayQ b 0 sep ws (skip == "1") mx with
      | .ok (items, off) => s!"OK {off} {showList (items.map hexOrDash)}"
      | .error e => showErr e)
  | ["TUQ", seps, mayEnd, ws, off, hex] => do
    let seps ← sepList? seps; let ws ← bytesOfHex ws; let off ← off.toNat?; let b ← bytesOfHex hex
    pure (match parseStringUntilSeparatorQ b off seps (mayEnd == "1") ws with
      | .ok (item, n) => s!"OK {n} {hexOrDash item}"
      | .error e => showErr e)
  | ["TC", seps, mn, mx, off, hex] => do
    let seps ← bytesOfHex seps; let mn ← optNat? mn; let mx ← optNat? mx; let off ← off.toNat?
    let b ← bytesOfHex hex
    pure (match checkSeparators b off seps mn mx with
      | .ok n => s!"OK {n}"
      | .error e => showErr e)
  | ["TN", hex] => do
    let b ← bytesOfHex hex
    pure (match parseNumeric b 0 with
      | .ok (v, n) => s!"OK {n} {v}"
      | .error e => showErr e)
  | ["TL", mn, mx, off, hex] => do
    let mn ← mn.toNat?; let mx ← optNat? mx; let off ← off.toNat?; let b ← bytesOfHex hex
    pure (match parseStringByLength b off mn mx with
      | .ok (text, n) => s!"OK {n} {hexOrDash text}"
      | .error e => showErr e)
  | ["TK", sep, ws, skip, hex] => do
    let sep ← bytesOfHex sep; let ws ← bytesOfHex ws; let b ← bytesOfHex hex
    pure s!"OK {arrayTicks b 0 sep ws (skip == "1") none}"
  | ["TKQ", sep, ws, skip, hex] => do
    let sep ← bytesOfHex sep; let ws ← bytesOfHex ws; let b ← bytesOfHex hex
    pure s!"OK {arrayTicksQ b 0 sep ws (skip == "1") none}"
  | ["TS", value, off, hex] => do
    let value ← bytesOfHex value; let off ← off.toNat?; let b ← bytesOfHex hex
    pure (match parseString b off value with
      | .ok n => s!"OK {n}"
      | .error e => showErr e)
  | _ => none

end Cp.Drv
