import CpModel.Drv.Util
import CpModel.Serial
/-
  Driver handler for the serialisation ops (C14).

    JS <term>   →  OK <hex of the utf-8 JSON text>      | CRASH TypeError
    MD <term>   →  OK <hex of the utf-8 Markdown text>  | CRASH TypeError
    MDS <term>  →  OK <hex Markdown text> <hex of the comma-joined sorted names of the classes that carry their own
                   `post_text_encoder` attribute after the call, starting from a clean class state>  | CRASH TypeError
                   (the code never creates such an attribute: the list is empty, `-`)
    MDE <term>  →  OK <hex Markdown text>  | CRASH TypeError        the same call with an encoder installed on `Serializable`
                   that renders every leaf text t as `<<t>>` (exercises the swap / restore of `post_text_encoder`)
    DK <term>   →  OK T | OK F        `distinctKeys`: in every set inside the value different elements have different
                   JSON documents (the hypothesis of the set-order theorems)
    (`-` stands for the empty text)

  `<term>` is a prefix encoding of a `Cp.Serial.PyVal` without spaces.  `<hex>` is the lowercase or
  uppercase hexadecimal utf-8 encoding of a string (possibly empty), `<n>` a decimal natural number.

    term  ::= 'N'                                        None
            | 'T' | 'F'                                  True | False
            | 'I' ['-'] <n> ';'                          int
            | 'D' <hex> ';'                              float, repr(x)
            | 'S' <hex> ';'                              str
            | 'B' <hex> ';'                              bytes / bytearray
            | 'E' <hex name> ';' <hex str(value)> ';' opt      enum member whose value is a CryptoDataParamsBase;
                                                               opt = the value when it is also Serializable
            | 'P' <hex name> ';' ('0' | '1') term        any other enum member: name, is the member itself an
                                                         int/str/float instance (IntEnum, str mix-in), value
            | 'L' <n> ';' term*                          list / tuple with n items
            | 'Z' <n> ';' term*                          set / frozenset with n items, in iteration order (the model
                                                         orders them as `_get_ordered_set` does)
            | 'O' <n> ';' (term term)*                   OrderedDict with n (key, value) pairs
            | 'U' <n> ';' (term term)*                   plain dict, pairs in iteration order
            | 'A' hdr metas opt term                     object with _asdict: attrs metadata (if attrs class), the
                                                         argument its own _as_markdown passes on (if any), _asdict()
            | 'C' hdr metas <n> ';' (term term)*         attrs object without _asdict: all fields as ('S'name, value)
            | 'V' hdr <n> ';' (term term)*               object with __dict__ only: items as ('S'name, value)
            | 'Q' hdr                                    any other object
    opt   ::= '0' | '1' term
    hdr   ::= <hex class> ';' <hex str(obj)> ';' g s u p secs lit
              g, s, u, p ::= '0' | '1'                   Gradeable, Serializable, url/ipnetwork class, CryptoDataParamsBase
              secs ::= '~' | <n> ';'                     timedelta.seconds
              lit  ::= '~' | ('0' | '1') <hex> ';'       literal (multiline, text) returned by the class's own _as_markdown
    metas ::= '~' | <n> ';' meta*
    meta  ::= <hex name> ';' ('0' | '1') ('~' | '=' <hex> ';')       name, human_friendly, human_readable_name
-/
namespace Cp.Drv
open Cp.Serial

abbrev P (α : Type) := List Char → Option (α × List Char)

def pChar : P Char
  | [] => none
  | c :: cs => some (c, cs)

/-- characters up to (excluding) the next ';', which is consumed -/
def pUntilSemi : List Char → List Char → Option (List Char × List Char)
  | _, [] => none
  | acc, c :: cs => if c = ';' then some (acc.reverse, cs) else pUntilSemi (c :: acc) cs

def pNat : P Nat := fun cs => do
  let (ds, rest) ← pUntilSemi [] cs
  let n ← (String.ofList ds).toNat?
  pure (n, rest)

def pInt : P Int := fun cs => do
  let (ds, rest) ← pUntilSemi [] cs
  let n ← (String.ofList ds).toInt?
  pure (n, rest)

def pHexBytes : P Bytes := fun cs => do
  let (ds, rest) ← pUntilSemi [] cs
  let b ← bytesOfHexAux ds
  pure (b, rest)

def pHexStr : P String := fun cs => do
  let (b, rest) ← pHexBytes cs
  let s ← String.fromUTF8? (ByteArray.mk b.toArray)
  pure (s, rest)

def pBit : P Bool
  | '0' :: cs => some (false, cs)
  | '1' :: cs => some (true, cs)
  | _ => none

def pHdr : P ObjHdr := fun cs => do
  let (cls, cs) ← pHexStr cs
  let (strv, cs) ← pHexStr cs
  let (g, cs) ← pBit cs
  let (s, cs) ← pBit cs
  let (u, cs) ← pBit cs
  let (p, cs) ← pBit cs
  let (secs, cs) ← match cs with
    | '~' :: rest => some (none, rest)
    | _ => (pNat cs).map fun (n, rest) => (some n, rest)
  let (lit, cs) ← match cs with
    | '~' :: rest => some (none, rest)
    | _ => do
      let (b, rest) ← pBit cs
      let (t, rest) ← pHexStr rest
      pure (some (b, t), rest)
  pure (⟨cls, strv, g, s, u, secs, p, lit⟩, cs)

def pMeta : P FieldMeta := fun cs => do
  let (name, cs) ← pHexStr cs
  let (hf, cs) ← pBit cs
  match cs with
  | '~' :: rest => pure (⟨name, hf, none⟩, rest)
  | '=' :: rest => do
    let (hr, rest) ← pHexStr rest
    pure (⟨name, hf, some hr⟩, rest)
  | _ => none

def pRepeat {α : Type} (p : P α) : Nat → P (List α)
  | 0 => fun cs => some ([], cs)
  | n + 1 => fun cs => do
    let (x, cs) ← p cs
    let (xs, cs) ← pRepeat p n cs
    pure (x :: xs, cs)

def pMetas : P (Option (List FieldMeta))
  | '~' :: rest => some (none, rest)
  | cs => do
    let (n, cs) ← pNat cs
    let (ms, cs) ← pRepeat pMeta n cs
    pure (some ms, cs)

mutual
/-- `fuel` bounds the nesting depth plus the number of siblings consumed; the input length is enough -/
def pTerm : Nat → P PyVal
  | 0 => fun _ => none
  | fuel + 1 => fun cs =>
    match cs with
    | 'N' :: cs => some (.none, cs)
    | 'T' :: cs => some (.bool true, cs)
    | 'F' :: cs => some (.bool false, cs)
    | 'I' :: cs => (pInt cs).map fun (i, cs) => (.int i, cs)
    | 'D' :: cs => (pHexStr cs).map fun (s, cs) => (.float s, cs)
    | 'S' :: cs => (pHexStr cs).map fun (s, cs) => (.str s, cs)
    | 'B' :: cs => (pHexBytes cs).map fun (b, cs) => (.bytes b, cs)
    | 'E' :: cs => do
      let (name, cs) ← pHexStr cs
      let (vs, cs) ← pHexStr cs
      let (sv, cs) ← pOpt fuel cs
      pure (.enumParams name vs sv, cs)
    | 'P' :: cs => do
      let (name, cs) ← pHexStr cs
      let (native, cs) ← pBit cs
      let (v, cs) ← pTerm fuel cs
      pure (.enumPlain name native v, cs)
    | 'L' :: cs => do
      let (n, cs) ← pNat cs
      let (xs, cs) ← pTerms fuel n cs
      pure (.seq false xs, cs)
    | 'Z' :: cs => do
      let (n, cs) ← pNat cs
      let (xs, cs) ← pTerms fuel n cs
      pure (.seq true xs, cs)
    | 'O' :: cs => do
      let (n, cs) ← pNat cs
      let (kvs, cs) ← pPairs fuel n cs
      pure (.dict true kvs, cs)
    | 'U' :: cs => do
      let (n, cs) ← pNat cs
      let (kvs, cs) ← pPairs fuel n cs
      pure (.dict false kvs, cs)
    | 'A' :: cs => do
      let (h, cs) ← pHdr cs
      let (ms, cs) ← pMetas cs
      let (arg, cs) ← pOpt fuel cs
      let (inner, cs) ← pTerm fuel cs
      pure (.hasAsdict h ms arg inner, cs)
    | 'C' :: cs => do
      let (h, cs) ← pHdr cs
      let (ms, cs) ← pMetas cs
      let (n, cs) ← pNat cs
      let (kvs, cs) ← pPairs fuel n cs
      pure (.attrs h (ms.getD []) kvs, cs)
    | 'V' :: cs => do
      let (h, cs) ← pHdr cs
      let (n, cs) ← pNat cs
      let (kvs, cs) ← pPairs fuel n cs
      pure (.hasDict h kvs, cs)
    | 'Q' :: cs => (pHdr cs).map fun (h, cs) => (.opaque h, cs)
    | _ => none

def pOpt : Nat → P (Option PyVal)
  | 0 => fun _ => none
  | fuel + 1 => fun cs =>
    match cs with
    | '0' :: cs => some (none, cs)
    | '1' :: cs => (pTerm fuel cs).map fun (v, cs) => (some v, cs)
    | _ => none

def pTerms : Nat → Nat → P (List PyVal)
  | 0, _ => fun _ => none
  | _ + 1, 0 => fun cs => some ([], cs)
  | fuel + 1, n + 1 => fun cs => do
    let (x, cs) ← pTerm fuel cs
    let (xs, cs) ← pTerms fuel n cs
    pure (x :: xs, cs)

def pPairs : Nat → Nat → P (List (PyVal × PyVal))
  | 0, _ => fun _ => none
  | _ + 1, 0 => fun cs => some ([], cs)
  | fuel + 1, n + 1 => fun cs => do
    let (k, cs) ← pTerm fuel cs
    let (v, cs) ← pTerm fuel cs
    let (rest, cs) ← pPairs fuel n cs
    pure ((k, v) :: rest, cs)
end

def parseTerm (s : String) : Option PyVal :=
  let cs := s.toList
  match pTerm (cs.length + 1) cs with
  | some (v, []) => some v
  | _ => none

def hexOfString (s : String) : String := hexOfBytes s.toUTF8.toList

def hexOrDashStr (s : String) : String := if s.isEmpty then "-" else hexOfString s

def showText : Except PErr String → String
  | .ok s => s!"OK {hexOrDashStr s}"
  | .error e => showErr e

def sortedNames (xs : List String) : List String := (xs.toArray.qsort (· < ·)).toList

def serialOp : List String → Option String
  | ["JS", term] => do
    let v ← parseTerm term
    pure (showText (asJson v))
  | ["MD", term] => do
    let v ← parseTerm term
    pure (showText (asMarkdown v))
  | ["MDS", term] => do
    let v ← parseTerm term
    pure (match asMarkdownSt v EncState.init with
      | .ok (s, σ) => s!"OK {hexOrDashStr s} {hexOrDashStr (",".intercalate (sortedNames (σ.pins.map (·.1))))}"
      | .error e => showErr e)
  | ["MDE", term] => do
    let v ← parseTerm term
    pure (showText ((asMarkdownSt v ⟨⟨"<<", ">>"⟩, []⟩).map (·.1)))
  | ["DK", term] => do
    let v ← parseTerm term
    pure (if distinctKeys v then "OK T" else "OK F")
  | _ => none

end Cp.Drv
