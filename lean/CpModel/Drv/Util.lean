import CpModel.Basic
import CpModel.Prim
/- Line-protocol helpers shared by the driver's handlers. -/
namespace Cp.Drv

def showErr : PErr → String
  | .notEnough n => s!"ERR NotEnoughData {n}"
  | .tooMuch n => s!"ERR TooMuchData {n}"
  | .invalidValue => "ERR InvalidValue"
  | .invalidType => "ERR InvalidType"
  | .crash k => s!"CRASH {k}"

def parseBo : String → Option ByteOrder
  | "native" => some .native
  | "little" => some .little
  | "big" => some .big
  | "network" => some .network
  | _ => none

def showBytesRes : Except PErr Bytes → String
  | .ok b => s!"OK {hexOrDash b}"
  | .error e => showErr e

def showList (xs : List String) : String := "[" ++ ",".intercalate xs ++ "]"

def optNat : Option Nat → String
  | none => "~"
  | some n => toString n

end Cp.Drv
