import CpModel.Prim
/-
  CpModel.Opp.Ldap — the one piece of `cryptoparser/tls/ldap.py` that is the library's own logic and
  not asn1crypto's: `LDAPMessageParsableBase._get_message_size`, which reads the BER header of the
  outer SEQUENCE again to tell the caller how many octets the message occupies (short form, or long
  form with any number of length octets, minimal or not).
-/
namespace Cp.Opp
open Cp

/-- the loop `length = (length << 8) | length_octet` over the length octets -/
def ldapLenFold (ls : Bytes) : Nat := ls.foldl (fun a x => (a <<< 8) ||| x.toNat) 0

/-- `_get_message_size(parsable)`.  `six.indexbytes(parsable, 1)` raises IndexError on fewer than two
octets (not reachable through `_parse`: asn1crypto has already loaded a message from `parsable`);
the slice `parsable[2:2 + length_size]` takes what is there. -/
def ldapMessageSize (b : Bytes) : Except PErr Nat :=
  match b with
  | _ :: l :: rest =>
    if l.toNat < 0x80 then .ok (2 + l.toNat)
    else
      let k := l.toNat &&& 0x7f
      .ok (2 + k + ldapLenFold (rest.take k))
  | _ => .error (.crash "IndexError")

end Cp.Opp
