import CpModel.Opp.Msg
import CpModel.Opp.Ldap
import CpModel.Tls.Canon
import CpSpec.Opp
/-
  Canonical one-line rendering of the opportunistic-TLS model values for the line protocol (same
  conventions as `CpModel/Tls/Canon.lean`): `ClassName(field,…)`; naturals in decimal; bytes and
  ASCII strings in hex (`-` when empty); an absent optional value as `~`; a flag set as the list of
  its members' values in increasing order; a coded member as `E<code>`.
  The Python side is `harness/canon_opp.py`; both must agree character for character.
-/
namespace Cp.Opp
open Cp Cp.Tls

/-- a set of flag members: values in increasing order, without repetition -/
def cSet (xs : List Nat) : String := cList ((xs.mergeSort (· ≤ ·)).eraseDups.map toString)
def cNats (xs : List Nat) : String := cList (xs.map toString)
def cOptBytes : Option Bytes → String
  | none => "~"
  | some b => hexOrDash b
def cOptNat : Option Nat → String
  | none => "~"
  | some n => toString n

def cMySqlRecord (r : MySqlRecord) : String := s!"MySQLRecord({r.packetNumber},{hexOrDash r.packetBytes})"

def cMySqlSslRequest (r : MySqlSslRequest) : String :=
  let cs := match r.characterSet with
    | none => "~"
    | some c => s!"E{c}"
  s!"MySQLHandshakeSslRequest({cSet r.capabilities},{r.maxPacketSize},{cs})"

def cMySqlHandshakeV10 (h : MySqlHandshakeV10) : String :=
  "MySQLHandshakeV10(" ++ ",".intercalate [
    toString h.protocolVersion, hexOrDash h.serverVersion, toString h.connectionId, hexOrDash h.authPluginData,
    cSet h.capabilities, s!"E{h.characterSet}", cSet h.states, cOptBytes h.authPluginData2,
    cOptBytes h.authPluginName] ++ ")"

def cTpkt (t : Tpkt) : String := s!"TPKT({t.version},{hexOrDash t.message})"

def CotpClass.name : CotpClass → String
  | .request => "COTPConnectionRequest"
  | .confirm => "COTPConnectionConfirm"

def cCotp (c : Cotp) : String :=
  s!"{c.cls.name}({c.srcRef},{c.dstRef},{c.classOption},{hexOrDash c.userData})"

def RdpNegClass.name : RdpNegClass → String
  | .request => "RDPNegotiationRequest"
  | .response => "RDPNegotiationResponse"

def cRdpNeg (r : RdpNeg) : String := s!"{r.cls.name}({cSet r.flags},{cSet r.protocol})"

def cOvpnHeader (h : OvpnHeader) : String :=
  s!"{h.sessionId},{cNats h.packetIdArray},{cOptNat h.remoteSessionId}"

def cOvpn : OvpnPacket → String
  | .control h pid pl => s!"OpenVpnPacketControlV1({cOvpnHeader h},{pid},{hexOrDash pl})"
  | .ack h => s!"OpenVpnPacketAckV1({cOvpnHeader h})"
  | .hardResetClient sid pid => s!"OpenVpnPacketHardResetClientV2({sid},{pid})"
  | .hardResetServer h pid => s!"OpenVpnPacketHardResetServerV2({cOvpnHeader h},{pid})"

/-- the class constants of the model, rendered for comparison with the live class attributes -/
def cConsts : String :=
  "OppConsts(" ++ ",".intercalate [
    toString MySQLRecord_HEADER_SIZE, toString MySQLHandshakeV10_MINIMUM_SIZE,
    toString MySQLHandshakeSslRequest_MINIMUM_SIZE, toString TPKT_HEADER_SIZE,
    toString COTPConnectionBase_HEADER_SIZE, toString RDPNegotiationBase_PACKET_LENGTH,
    toString OpenVpnPacketBase_HEADER_SIZE, toString Sync_MESSAGE_SIZE, hexOrDash Sync_COMMAND,
    toString SslRequest_MESSAGE_SIZE, toString SslRequest_REQUEST_CODE,
    toString CLIENT_PROTOCOL_41, toString CLIENT_PLUGIN_AUTH, toString CLIENT_SECURE_CONNECTION,
    toString CotpClass.request.typeCode, toString CotpClass.confirm.typeCode,
    toString RdpNegClass.request.typeCode, toString RdpNegClass.response.typeCode,
    toString OP_CONTROL_V1, toString OP_ACK_V1, toString OP_HARD_RESET_CLIENT_V2,
    toString OP_HARD_RESET_SERVER_V2] ++ ")"

def oppClasses : List DrvClass := [
  mkClass "MySQLRecord" parseMySqlRecord composeMySqlRecord cMySqlRecord,
  mkClass "MySQLHandshakeSslRequest" parseMySqlSslRequest composeMySqlSslRequest cMySqlSslRequest,
  mkClass "MySQLHandshakeV10" parseMySqlHandshakeV10 composeMySqlHandshakeV10 cMySqlHandshakeV10,
  mkClass "TPKT" parseTpkt composeTpkt cTpkt,
  mkClass "COTPConnectionRequest" (parseCotp .request) composeCotp cCotp,
  mkClass "COTPConnectionConfirm" (parseCotp .confirm) composeCotp cCotp,
  mkClass "RDPNegotiationRequest" (parseRdpNeg .request) composeRdpNeg cRdpNeg,
  mkClass "RDPNegotiationResponse" (parseRdpNeg .response) composeRdpNeg cRdpNeg,
  mkClass "OpenVpnPacketWrapperTcp" wrapperTcpCodec.parse wrapperTcpCodec.compose
    (fun p => s!"OpenVpnPacketWrapperTcp({hexOrDash p})"),
  mkClass "OpenVpnPacketControlV1" parseOvpnControl composeOvpn cOvpn,
  mkClass "OpenVpnPacketAckV1" parseOvpnAck composeOvpn cOvpn,
  mkClass "OpenVpnPacketHardResetClientV2" parseOvpnHardResetClient composeOvpn cOvpn,
  mkClass "OpenVpnPacketHardResetServerV2" parseOvpnHardResetServer composeOvpn cOvpn,
  mkClass "OpenVpnPacketVariant" parseOvpnVariant composeOvpn cOvpn,
  mkClass "SslRequest" parseSslRequest composeSslRequest (fun _ => "SslRequest()"),
  mkClass "Sync" parseSync composeSync (fun _ => "Sync()"),
  -- not a class: the model's constants (input ignored)
  ⟨"OppConsts", fun _ => .ok (cConsts, 0, .ok [])⟩,
  -- not classes: the specification's LDAP StartTLS constants (`CpSpec/Opp.lean`), handed out as the
  -- "recomposition" so that the harness can compare them with what the implementation composes;
  -- the response takes the result code as its one input byte
  ⟨"SpecLdapStartTlsRequest", fun _ => .ok ("SpecLdapStartTlsRequest()", 0, .ok Spec.Opp.ldapStartTlsRequest)⟩,
  ⟨"SpecLdapStartTlsResponse", fun bs =>
    match bs with
    | [rc] => .ok (s!"SpecLdapStartTlsResponse({rc.toNat})", 1, .ok (Spec.Opp.ldapStartTlsResponse rc.toNat))
    | _ => .error .invalidValue⟩,
  -- not a class: `LDAPMessageParsableBase._get_message_size` on the given octets (the size is reported
  -- as the consumed length)
  ⟨"LdapMessageSize", fun bs => (ldapMessageSize bs).map fun n => ("LdapMessageSize()", n, .ok [])⟩
]

end Cp.Opp
