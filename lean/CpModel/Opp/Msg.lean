import CpModel.Codec
import CpModel.Enum
/-
  CpModel.Opp.Msg — the application messages that precede an opportunistic TLS handshake
  (`cryptoparser/tls/mysql.py`, `rdp.py`, `openvpn.py`, `postgresql.py`), transcribed
  `_parse`/`compose` by `_parse`/`compose`, quirks included.  `r1, r2, …` is the unparsed tail
  `_parsable[_parsed_length:]` after each step, `n1, n2, …` the amounts `_parsed_length` advanced.

  A parsed value carries its CLASS TAG (which Python class the parser constructed): the canonical
  rendering starts with the class name, and the type-preservation clause of C09 is a statement
  about that tag.

  `cryptoparser/tls/ldap.py` is outside the model: both directions go through asn1crypto
  (`LDAPMessage.load(...)`, `.native`, `.dump()`); nothing of `_parse`/`compose` is left once that
  library is taken away.  The two StartTLS encodings are stated byte by byte in `CpSpec/Opp.lean`
  and tied to the implementation by the correspondence check only.
-/
namespace Cp.Opp
open Cp Cp.Codec

def unmodelled : PErr := .crash "UNMODELLED"

/-! ### class constants (compared with the live class attributes on every run through the
pseudo-class `OppConsts` of the driver) -/

def MySQLRecord_HEADER_SIZE : Nat := 4
def MySQLHandshakeV10_MINIMUM_SIZE : Nat := 33
def MySQLHandshakeSslRequest_MINIMUM_SIZE : Nat := 5
def TPKT_HEADER_SIZE : Nat := 4
def COTPConnectionBase_HEADER_SIZE : Nat := 7
def RDPNegotiationBase_PACKET_LENGTH : Nat := 8
def OpenVpnPacketBase_HEADER_SIZE : Nat := 10
def Sync_MESSAGE_SIZE : Nat := 1
def Sync_COMMAND : Bytes := [0x53]
def SslRequest_MESSAGE_SIZE : Nat := 8
def SslRequest_REQUEST_CODE : Nat := 80877103

/-- `MySQLCapability.CLIENT_PROTOCOL_41`, `CLIENT_SECURE_CONNECTION`, `CLIENT_PLUGIN_AUTH` (members of the
regenerated table) -/
def CLIENT_PROTOCOL_41 : Nat := 0x200
def CLIENT_SECURE_CONNECTION : Nat := 0x8000
def CLIENT_PLUGIN_AUTH : Nat := 0x80000

/-! ### primitives of `common/parse.py` used only by these classes -/

/-- offset of the first `00` byte (`next(i for i, value in enumerate(rest) if value == 0)`) -/
def findNul : Bytes → Option Nat
  | [] => none
  | x :: xs => if x == 0 then some 0 else (findNul xs).map (· + 1)

def isAscii (b : Bytes) : Bool := b.all fun c => c.toNat < 128

/-- `parse_string_null_terminated(name, 'ascii')`: the text up to the first `00`; no terminator is
an `InvalidValue`; a byte that is not ASCII is a `UnicodeDecodeError` → `InvalidValue`.  The text is
carried as its ASCII bytes. Advances by length + 1. -/
def parseStrNul (rest : Bytes) : Except PErr (Bytes × Nat) :=
  match findNul rest with
  | none => .error .invalidValue
  | some len =>
    if isAscii (rest.take len) then .ok (rest.take len, len + 1) else .error .invalidValue

/-- `compose_string_null_terminated(value, 'ascii')`: a character outside ASCII is `InvalidValue`;
so is an embedded NUL (repaired: it used to be written as it was, and the field was read back
truncated). -/
def composeStrNul (v : Bytes) : Except PErr Bytes :=
  if !isAscii v then .error .invalidValue
  else if v.contains 0 then .error .invalidValue
  else .ok (v ++ [0])

/-- `parse_numeric(name, k, IntEnumClass)`: the converter's `ValueError` is `InvalidValue` -/
def parseNumConv (bo : ByteOrder) (k : Nat) (members : List Nat) (rest : Bytes) : Except PErr (Nat × Nat) := do
  let (c, n) ← parseNum bo k rest
  if members.contains c then pure (c, n) else .error .invalidValue

/-- `parse_parsable(name, MySQLCharacterSetFactory)`: one byte, strictly decoded; the value kept is
the member's code -/
def parseCharset (rest : Bytes) : Except PErr (Nat × Nat) := do
  let (i, n) ← parseCoded Gen.MySQLCharacterSet.codes 1 rest
  pure (Gen.MySQLCharacterSet.codes.getD i 0, n)

/-- `compose_parsable(character_set)`: `OneByteEnumComposer.compose` of a member -/
def composeCharset (code : Nat) : Except PErr Bytes :=
  if Gen.MySQLCharacterSet.codes.contains code then composeNum .network 1 (code : Int)
  else .error (.crash "AttributeError")

/-! ### MySQL -/

structure MySqlRecord where
  packetNumber : Nat
  packetBytes : Bytes
deriving Repr, DecidableEq

/-- `MySQLRecord._parse` -/
def parseMySqlRecord (bs : Bytes) : Except PErr (MySqlRecord × Nat) :=
  if bs.length < MySQLRecord_HEADER_SIZE then
    .error (.notEnough ((MySQLRecord_HEADER_SIZE - bs.length : Nat) : Int))
  else do
    let (len, n1) ← parseNum .little 3 bs
    let r1 := bs.drop n1
    let (num, n2) ← parseNum .little 1 r1
    let r2 := r1.drop n2
    let (body, n3) ← parseRaw (len : Int) r2
    pure (⟨num, body⟩, n1 + n2 + n3)

/-- `MySQLRecord.compose` -/
def composeMySqlRecord (r : MySqlRecord) : Except PErr Bytes := do
  let a ← composeNum .little 3 (r.packetBytes.length : Int)
  let b ← composeNum .little 1 (r.packetNumber : Int)
  pure (a ++ b ++ r.packetBytes)

def mySqlRecordCodec : Codec MySqlRecord := ⟨parseMySqlRecord, composeMySqlRecord⟩

structure MySqlSslRequest where
  capabilities : List Nat
  maxPacketSize : Nat
  characterSet : Option Nat
deriving Repr, DecidableEq

/-- `MySQLHandshakeSslRequest._parse`. The constructor's `__attrs_post_init__` cannot reject what
the parser hands it (three-byte size, two-byte capabilities in the short form). -/
def parseMySqlSslRequest (bs : Bytes) : Except PErr (MySqlSslRequest × Nat) :=
  if bs.length < MySQLHandshakeSslRequest_MINIMUM_SIZE then
    .error (.notEnough ((MySQLHandshakeSslRequest_MINIMUM_SIZE - bs.length : Nat) : Int))
  else do
    let (caps, n1) ← parseFlags .little 2 0 Gen.MySQLCapability.codes bs
    if caps.contains CLIENT_PROTOCOL_41 then
      let r1 := bs.drop n1
      let (caps2, n2) ← parseFlags .little 2 16 Gen.MySQLCapability.codes r1
      let r2 := r1.drop n2
      let (mx, n3) ← parseNum .little 4 r2
      let r3 := r2.drop n3
      let (cs, n4) ← parseCharset r3
      let r4 := r3.drop n4
      let (_, n5) ← parseRaw 23 r4
      pure (⟨caps ++ caps2, mx, some cs⟩, n1 + n2 + n3 + n4 + n5)
    else
      let (mx, n2) ← parseNum .little 3 (bs.drop n1)
      pure (⟨caps, mx, none⟩, n1 + n2)

/-- `MySQLHandshakeSslRequest.compose` -/
def composeMySqlSslRequest (r : MySqlSslRequest) : Except PErr Bytes :=
  if r.capabilities.contains CLIENT_PROTOCOL_41 then do
    let a ← composeFlags .little 4 0 r.capabilities
    let b ← composeNum .little 4 (r.maxPacketSize : Int)
    let c ← match r.characterSet with
      | some cs => composeCharset cs
      | none => .error (.crash "AttributeError")
    pure (a ++ b ++ c ++ List.replicate 23 0)
  else do
    let a ← composeFlags .little 2 0 r.capabilities
    let b ← composeNum .little 3 (r.maxPacketSize : Int)
    pure (a ++ b)

structure MySqlHandshakeV10 where
  protocolVersion : Nat
  serverVersion : Bytes
  connectionId : Nat
  authPluginData : Bytes
  capabilities : List Nat
  characterSet : Nat
  states : List Nat
  authPluginData2 : Option Bytes
  authPluginName : Option Bytes
deriving Repr, DecidableEq

/-- `MySQLHandshakeV10._get_auth_plugin_data_2_len(capabilities, auth_plugin_data_len)`:
`MAX(13, auth_plugin_data_len - 8)` with `CLIENT_PLUGIN_AUTH` (a length below 8 gives 13: the
difference is negative in Python, zero here); 13 with `CLIENT_SECURE_CONNECTION` alone, where the
length octet is a filler; no second part otherwise. -/
def authPluginData2Len (caps : List Nat) (apdl : Nat) : Nat :=
  if caps.contains CLIENT_PLUGIN_AUTH then max 13 (apdl - 8)
  else if caps.contains CLIENT_SECURE_CONNECTION then 13
  else 0

/-- `if auth_plugin_data_2_len: parser.parse_raw('auth_plugin_data_2', auth_plugin_data_2_len)`: the
attribute stays `None` when the length is 0 -/
def parseAuthData2 (len2 : Nat) (rest : Bytes) : Except PErr (Option Bytes × Nat) :=
  if len2 != 0 then (parseRaw (len2 : Int) rest).map fun (d, n) => (some d, n)
  else pure (none, 0)

/-- `MySQLHandshakeV10._parse` (repaired: the second part of the auth plugin data used to be read
only with `CLIENT_PLUGIN_AUTH`, and as `auth_plugin_data_len - 8` bytes) -/
def parseMySqlHandshakeV10 (bs : Bytes) : Except PErr (MySqlHandshakeV10 × Nat) :=
  if bs.length < MySQLHandshakeV10_MINIMUM_SIZE then
    .error (.notEnough ((MySQLHandshakeV10_MINIMUM_SIZE - bs.length : Nat) : Int))
  else do
    let (pv, n1) ← parseNumConv .little 1 Gen.MySQLVersion.memberCodes bs
    let r1 := bs.drop n1
    let (sv, n2) ← parseStrNul r1
    let r2 := r1.drop n2
    let (cid, n3) ← parseNum .little 4 r2
    let r3 := r2.drop n3
    let (apd, n4) ← parseRaw 8 r3
    let r4 := r3.drop n4
    let (_, n5) ← parseRaw 1 r4
    let r5 := r4.drop n5
    let (caps1, n6) ← parseFlags .little 2 0 Gen.MySQLCapability.codes r5
    let r6 := r5.drop n6
    let (cs, n7) ← parseCharset r6
    let r7 := r6.drop n7
    let (states, n8) ← parseFlags .little 2 0 Gen.MySQLStatusFlag.codes r7
    let r8 := r7.drop n8
    let (caps2, n9) ← parseFlags .little 2 16 Gen.MySQLCapability.codes r8
    let r9 := r8.drop n9
    let caps := caps1 ++ caps2
    let (apdl, n10) ← parseNum .little 1 r9
    let r10 := r9.drop n10
    let (_, n11) ← parseRaw 10 r10
    let r11 := r10.drop n11
    let p11 := n1 + n2 + n3 + n4 + n5 + n6 + n7 + n8 + n9 + n10 + n11
    let plugin := caps.contains CLIENT_PLUGIN_AUTH
    if plugin && apdl == 0 then .error .invalidValue
    else
      let (apd2, n12) ← parseAuthData2 (authPluginData2Len caps apdl) r11
      let r12 := r11.drop n12
      if plugin then
        let (name, n13) ← parseStrNul r12
        pure (⟨pv, sv, cid, apd, caps, cs, states, apd2, some name⟩, p11 + n12 + n13)
      else
        pure (⟨pv, sv, cid, apd, caps, cs, states, apd2, none⟩, p11 + n12)

/-- `b'' if self.auth_plugin_data_2 is None else self.auth_plugin_data_2` -/
def data2Bytes : Option Bytes → Bytes
  | some d => d
  | none => []

/-- `MySQLHandshakeV10.compose` (repaired: a second part that `_parse` would not read back as it is
written — its length is not the one `authPluginData2Len` gives for the length octet that goes on
the wire — is an `InvalidValue`; so is a missing plugin name with `CLIENT_PLUGIN_AUTH`) -/
def composeMySqlHandshakeV10 (h : MySqlHandshakeV10) : Except PErr Bytes := do
  let a ← composeNum .little 1 (h.protocolVersion : Int)
  let b ← composeStrNul h.serverVersion
  let c ← composeNum .little 4 (h.connectionId : Int)
  let lower := h.capabilities.filter (· < 2 ^ 16)
  let d ← composeFlags .little 2 0 lower
  let upper := h.capabilities.filter (· ≥ 2 ^ 16)
  let e ← composeCharset h.characterSet
  let f ← composeFlags .little 2 0 h.states
  let g ← composeFlags .little 2 16 upper
  let plugin := h.capabilities.contains CLIENT_PLUGIN_AUTH
  let d2 := data2Bytes h.authPluginData2
  let apdl : Nat := if plugin then 8 + d2.length else 0
  if d2.length != authPluginData2Len h.capabilities apdl then .error .invalidValue
  else
    let l ← composeNum .little 1 (apdl : Int)
    let nm ←
      if plugin then
        match h.authPluginName with
        | some nm => composeStrNul nm
        | none => .error .invalidValue
      else pure []
    pure (a ++ b ++ c ++ h.authPluginData ++ [0] ++ d ++ e ++ f ++ g ++ l ++ List.replicate 10 0 ++ d2 ++ nm)

/-! ### RDP: TPKT, X.224 connection request / confirm, negotiation request / response -/

structure Tpkt where
  version : Nat
  message : Bytes
deriving Repr, DecidableEq

/-- `TPKT._parse` -/
def parseTpkt (bs : Bytes) : Except PErr (Tpkt × Nat) :=
  if bs.length < TPKT_HEADER_SIZE then .error (.notEnough ((TPKT_HEADER_SIZE - bs.length : Nat) : Int))
  else do
    let (v, n1) ← parseNum .network 1 bs
    if v != 3 then .error .invalidValue
    else
      let r1 := bs.drop n1
      let (_, n2) ← parseNum .network 1 r1
      let r2 := r1.drop n2
      let (len, n3) ← parseNum .network 2 r2
      if bs.length < len then .error (.notEnough ((len - bs.length : Nat) : Int))
      else
        let r3 := r2.drop n3
        let (msg, n4) ← parseRaw ((len : Int) - 4) r3
        pure (⟨v, msg⟩, n1 + n2 + n3 + n4)

/-- `TPKT.compose` -/
def composeTpkt (t : Tpkt) : Except PErr Bytes := do
  let a ← composeNum .network 1 (t.version : Int)
  let b ← composeNum .network 1 0
  let c ← composeNum .network 2 ((t.message.length + 4 : Nat) : Int)
  pure (a ++ b ++ c ++ t.message)

def tpktCodec : Codec Tpkt := ⟨parseTpkt, composeTpkt⟩

/-- which class an X.224 connection object belongs to -/
inductive CotpClass where
  | request   -- `COTPConnectionRequest`, `COTPType.CONNECTION_REQUEST = 0xe`
  | confirm   -- `COTPConnectionConfirm`, `COTPType.CONNECTION_CONFIRM = 0xd`
deriving Repr, DecidableEq

/-- `cls._get_type()` -/
def CotpClass.typeCode : CotpClass → Nat
  | .request => 0xe
  | .confirm => 0xd

structure Cotp where
  cls : CotpClass
  srcRef : Nat
  dstRef : Nat
  classOption : Nat
  userData : Bytes
deriving Repr, DecidableEq

/-- `COTPConnectionBase._parse` called on class `want`; the object is built with `cls(...)`
(repaired: it used to be a `COTPConnectionRequest` whatever the class). `__attrs_post_init__`
rejects a non-zero class option with `InvalidValue`. -/
def parseCotp (want : CotpClass) (bs : Bytes) : Except PErr (Cotp × Nat) :=
  if bs.length < COTPConnectionBase_HEADER_SIZE then
    .error (.notEnough ((COTPConnectionBase_HEADER_SIZE - bs.length : Nat) : Int))
  else do
    let (li, n1) ← parseNum .network 1 bs
    if bs.length - n1 < li then .error (.notEnough ((li - (bs.length - n1) : Nat) : Int))
    else
      let r1 := bs.drop n1
      let (pt, n2) ← parseNum .network 1 r1
      if pt >>> 4 != want.typeCode then .error .invalidType
      else
        let r2 := r1.drop n2
        let (src, n3) ← parseNum .network 2 r2
        let r3 := r2.drop n3
        let (dst, n4) ← parseNum .network 2 r3
        let r4 := r3.drop n4
        let (co, n5) ← parseNum .network 1 r4
        let r5 := r4.drop n5
        let p := n1 + n2 + n3 + n4 + n5
        let (ud, n6) ← parseRaw ((li : Int) - (p : Int) + 1) r5
        if co != 0 then .error .invalidValue
        else pure (⟨want, src, dst, co, ud⟩, p + n6)

/-- `COTPConnectionBase.compose` (the type code comes from the object's own class) -/
def composeCotp (c : Cotp) : Except PErr Bytes := do
  let t ← composeNum .network 1 ((c.cls.typeCode <<< 4 : Nat) : Int)
  let s ← composeNum .network 2 (c.srcRef : Int)
  let d ← composeNum .network 2 (c.dstRef : Int)
  let o ← composeNum .network 1 (c.classOption : Int)
  let body := t ++ s ++ d ++ o ++ c.userData
  let h ← composeNum .network 1 (body.length : Int)
  pure (h ++ body)

inductive RdpNegClass where
  | request   -- `RDPNegotiationRequest`, `RDPPacketType.NEG_REQ = 1`, flags `RDPNegotiationRequestFlags`
  | response  -- `RDPNegotiationResponse`, `RDPPacketType.NEG_RSP = 2`, flags `RDPNegotiationResponseFlags`
deriving Repr, DecidableEq

def RdpNegClass.typeCode : RdpNegClass → Nat
  | .request => 1
  | .response => 2

def RdpNegClass.flagCodes : RdpNegClass → List Nat
  | .request => Gen.RDPNegotiationRequestFlags.codes
  | .response => Gen.RDPNegotiationResponseFlags.codes

structure RdpNeg where
  cls : RdpNegClass
  flags : List Nat
  protocol : List Nat
deriving Repr, DecidableEq

/-- `cls(flags, protocol)`: the converter of the `protocol` attribute drops the zero-valued member
`RDPProtocol.RDP` (repaired: `{RDP}` used to be a value of its own, which composed to the zero
field and parsed back as the empty set) -/
def RdpNeg.construct (cls : RdpNegClass) (flags protocol : List Nat) : RdpNeg :=
  ⟨cls, flags, protocol.filter (· != 0)⟩

/-- `RDPNegotiationBase._parse` called on class `want`; the object is built with `cls(...)` -/
def parseRdpNeg (want : RdpNegClass) (bs : Bytes) : Except PErr (RdpNeg × Nat) :=
  if bs.length < RDPNegotiationBase_PACKET_LENGTH then
    .error (.notEnough ((RDPNegotiationBase_PACKET_LENGTH - bs.length : Nat) : Int))
  else do
    let (t, n1) ← parseNumConv .little 1 Gen.RDPPacketType.memberCodes bs
    if t != want.typeCode then .error .invalidType
    else
      let r1 := bs.drop n1
      let (flags, n2) ← parseFlags .little 1 0 want.flagCodes r1
      let r2 := r1.drop n2
      let (len, n3) ← parseNum .little 2 r2
      if len != RDPNegotiationBase_PACKET_LENGTH then .error .invalidValue
      else
        let r3 := r2.drop n3
        let (proto, n4) ← parseFlags .little 4 0 Gen.RDPProtocol.codes r3
        pure (RdpNeg.construct want flags proto, n1 + n2 + n3 + n4)

/-- `RDPNegotiationBase.compose` -/
def composeRdpNeg (r : RdpNeg) : Except PErr Bytes := do
  let a ← composeNum .little 1 (r.cls.typeCode : Int)
  let b ← composeFlags .little 1 0 r.flags
  let c ← composeNum .little 2 (RDPNegotiationBase_PACKET_LENGTH : Int)
  let d ← composeFlags .little 4 0 r.protocol
  pure (a ++ b ++ c ++ d)

/-! ### OpenVPN -/

/-- `OpenVpnPacketWrapperTcp`: a two-byte length and the packet -/
def wrapperTcpCodec : Codec Bytes := bytesPrefixed .network 2

structure OvpnHeader where
  sessionId : Nat
  packetIdArray : List Nat
  remoteSessionId : Option Nat
deriving Repr, DecidableEq

/-- `OpenVpnPacketBase.parse_header` for a class whose op code is `op` -/
def parseOvpnHeader (op : Nat) (bs : Bytes) : Except PErr (OvpnHeader × Nat) :=
  if bs.length < OpenVpnPacketBase_HEADER_SIZE then
    .error (.notEnough ((OpenVpnPacketBase_HEADER_SIZE - bs.length : Nat) : Int))
  else do
    let (pt, n1) ← parseNum .network 1 bs
    if pt >>> 3 != op then .error .invalidType
    else
      let r1 := bs.drop n1
      let (sid, n2) ← parseNum .network 8 r1
      let r2 := r1.drop n2
      let (alen, n3) ← parseNum .network 1 r2
      let r3 := r2.drop n3
      let p := n1 + n2 + n3
      if alen != 0 then
        let (arr, n4) ← parseNumArray .network alen 4 r3
        let r4 := r3.drop n4
        let (rsid, n5) ← parseNum .network 8 r4
        pure (⟨sid, arr, some rsid⟩, p + n4 + n5)
      else pure (⟨sid, [], none⟩, p)

/-- `OpenVpnPacketBase._compose_header`; `struct.pack` of `None` is a `struct.error` → `InvalidValue` -/
def composeOvpnHeader (op : Nat) (h : OvpnHeader) : Except PErr Bytes := do
  let a ← composeNum .network 1 ((op <<< 3 : Nat) : Int)
  let b ← composeNum .network 8 (h.sessionId : Int)
  let c ← composeNum .network 1 (h.packetIdArray.length : Int)
  if h.packetIdArray.isEmpty then pure (a ++ b ++ c)
  else
    let d ← composeNumArray .network 4 (h.packetIdArray.map Int.ofNat)
    let e ← match h.remoteSessionId with
      | some r => composeNum .network 8 (r : Int)
      | none => .error .invalidValue
    pure (a ++ b ++ c ++ d ++ e)

def OP_CONTROL_V1 : Nat := 4
def OP_ACK_V1 : Nat := 5
def OP_HARD_RESET_CLIENT_V2 : Nat := 7
def OP_HARD_RESET_SERVER_V2 : Nat := 8

/-- an OpenVPN control-channel packet; the constructor is the Python class -/
inductive OvpnPacket where
  | control (h : OvpnHeader) (packetId : Nat) (payload : Bytes)   -- `OpenVpnPacketControlV1`
  | ack (h : OvpnHeader)                                          -- `OpenVpnPacketAckV1`
  | hardResetClient (sessionId : Nat) (packetId : Nat)            -- `OpenVpnPacketHardResetClientV2`
  | hardResetServer (h : OvpnHeader) (packetId : Nat)             -- `OpenVpnPacketHardResetServerV2`
deriving Repr, DecidableEq

/-- `OpenVpnPacketControlV1._parse`: the payload is whatever follows the packet id -/
def parseOvpnControl (bs : Bytes) : Except PErr (OvpnPacket × Nat) := do
  let (h, hl) ← parseOvpnHeader OP_CONTROL_V1 bs
  let body := bs.drop hl
  let (pid, n1) ← parseNum .network 4 body
  let (pl, n2) ← parseRaw ((body.length - n1 : Nat) : Int) (body.drop n1)
  pure (.control h pid pl, hl + (n1 + n2))

/-- `OpenVpnPacketAckV1._parse` -/
def parseOvpnAck (bs : Bytes) : Except PErr (OvpnPacket × Nat) := do
  let (h, hl) ← parseOvpnHeader OP_ACK_V1 bs
  pure (.ack h, hl)

/-- `OpenVpnPacketHardResetClientV2._parse`: acknowledgements are an `InvalidValue` -/
def parseOvpnHardResetClient (bs : Bytes) : Except PErr (OvpnPacket × Nat) := do
  let (h, hl) ← parseOvpnHeader OP_HARD_RESET_CLIENT_V2 bs
  if !h.packetIdArray.isEmpty then .error .invalidValue
  else
    let (pid, n1) ← parseNum .network 4 (bs.drop hl)
    pure (.hardResetClient h.sessionId pid, hl + n1)

/-- `OpenVpnPacketHardResetServerV2._parse` -/
def parseOvpnHardResetServer (bs : Bytes) : Except PErr (OvpnPacket × Nat) := do
  let (h, hl) ← parseOvpnHeader OP_HARD_RESET_SERVER_V2 bs
  let (pid, n1) ← parseNum .network 4 (bs.drop hl)
  pure (.hardResetServer h pid, hl + n1)

/-- `compose()` of the four packet classes -/
def composeOvpn : OvpnPacket → Except PErr Bytes
  | .control h pid pl => do
    let b ← composeNum .network 4 (pid : Int)
    let hd ← composeOvpnHeader OP_CONTROL_V1 h
    pure (hd ++ (b ++ pl))
  | .ack h => composeOvpnHeader OP_ACK_V1 h
  | .hardResetClient sid pid => do
    let b ← composeNum .network 4 (pid : Int)
    let hd ← composeOvpnHeader OP_HARD_RESET_CLIENT_V2 ⟨sid, [], none⟩
    pure (hd ++ b)
  | .hardResetServer h pid => do
    let b ← composeNum .network 4 (pid : Int)
    let hd ← composeOvpnHeader OP_HARD_RESET_SERVER_V2 h
    pure (hd ++ b)

/-- `OpenVpnPacketVariant._parse` (`VariantParsable`): ack, control, hard reset client, hard reset
server, in the order of `_VARIANTS`; the first that does not raise `InvalidType` -/
def parseOvpnVariant (bs : Bytes) : Except PErr (OvpnPacket × Nat) :=
  firstNotInvalidType [parseOvpnAck, parseOvpnControl, parseOvpnHardResetClient, parseOvpnHardResetServer] bs

/-! ### PostgreSQL -/

/-- `SslRequest`: length 8 and the request code, behind the size check; the object has no fields -/
def sslRequestCodec : Codec (Nat × Nat) :=
  minSize SslRequest_MESSAGE_SIZE
    (seq (guardE (num .network 4) (fun l => l == SslRequest_MESSAGE_SIZE) .invalidValue)
         (guardE (num .network 4) (fun c => c == SslRequest_REQUEST_CODE) .invalidValue))

/-- `SslRequest._parse` (returns `cls(), MESSAGE_SIZE`) -/
def parseSslRequest (bs : Bytes) : Except PErr (Unit × Nat) :=
  (sslRequestCodec.parse bs).map fun _ => ((), SslRequest_MESSAGE_SIZE)

/-- `SslRequest.compose` -/
def composeSslRequest (_ : Unit) : Except PErr Bytes :=
  sslRequestCodec.compose (SslRequest_MESSAGE_SIZE, SslRequest_REQUEST_CODE)

def sslRequestUnitCodec : Codec Unit := ⟨parseSslRequest, composeSslRequest⟩

/-- `Sync._parse`: one byte, `S` -/
def parseSync (bs : Bytes) : Except PErr (Unit × Nat) := do
  let (c, _) ← parseRaw (Sync_MESSAGE_SIZE : Int) bs
  if c != Sync_COMMAND then .error .invalidValue else pure ((), Sync_MESSAGE_SIZE)

/-- `Sync.compose` -/
def composeSync (_ : Unit) : Except PErr Bytes := .ok Sync_COMMAND

end Cp.Opp
