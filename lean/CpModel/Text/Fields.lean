import CpModel.Text.Scan
import CpModel.Gen.Fields
/-
  CpModel.Text.Fields — `NameValuePair`, `NameValuePairList` and `FieldValueMultiple._parse_basic_params`
  (cryptoparser/common/field.py), GENERICALLY over a component table `Cp.Gen.FieldTable` (regenerated from the live
  classes by tools/extract_fields.py: attribute, canonical directive name, kind, has-default, name-match mode).

  What is modelled
  * `NameValuePairList._parse`: `parse_string_array('value', sep, item_class=NameValuePair, separator_spaces=' \t',
    skip_empty=True, quote_aware=True)` — the quote-aware scanner of `Text/Scan.lean` (a separator inside an RFC 7230
    quoted-string does not split); every item is then `NameValuePair.parse_exact_size(item)`; a list with an item in which
    a double quote is anything but the delimiter of a quoted-string value is `InvalidValue` (`pairOk`).
  * `NameValuePair._parse`: the name is the text before the first `=` (`parse_string_until_separator_or_end`); if
    anything is left, `parse_separator('=')` consumes the whole RUN of `=` (`min_length=1`, no maximum), the value is the
    rest with leading SP/HTAB removed; a leading `"` is removed and then a trailing one (`quoted`); trailing SP/HTAB of the
    name are removed.  Never fails on ASCII text.
  * the `OrderedDict` built from the pairs: a later duplicate name replaces the value and keeps the first position.
  * `_parse_basic_params`: for every component in attribute order, the FIRST key of the dictionary (in its order) that
    `_check_name` accepts is renamed to the canonical name (`components[canonical] = components.pop(key)`: the pair
    leaves its place; an existing pair under the canonical name is overwritten) and popped again at once; so both the
    matched key and the canonical key disappear from the dictionary.  The component parser receives
    `canonical + '=' + value`, or — when the pair has no value — the name AS SPELLED.  No accepted key: the default, or
    `InvalidValue` when the attribute has none.  (In that branch `canonical in components` cannot hold: every match mode
    accepts the canonical name itself, `nameMatches_self`.)
  * what is left in the dictionary goes to the attribute marked `extension`, if the class has one.

  The component VALUE parsers are outside the model: a `Slot` records what text a component is handed.
  `tools/extract_fields.observe_assignment` observes exactly this on the real class (driver op `TX`).
-/
namespace Cp.Text
open Cp Cp.Gen

/-- a `NameValuePair`: name and optional value (`quoted` does not reach `_parse_basic_params`) -/
abbrev Pair := Bytes × Option Bytes

/-- the text before the first `=` and the text after it; `none` when there is no `=` -/
def splitFirstEq : Bytes → Option (Bytes × Bytes)
  | [] => none
  | x :: xs =>
    if x = 0x3d then some ([], xs)
    else match splitFirstEq xs with
      | none => none
      | some (n, v) => some (x :: n, v)

/-- `if value and value[0] == '"': value = value[1:]; if value and value[-1:] == '"': value = value[:-1]` -/
def stripQuotes : Bytes → Bytes
  | 0x22 :: rest => if rest.getLast? = some 0x22 then rest.dropLast else rest
  | v => v

/-- `separator_spaces=' \t'` of `NameValuePairList`; also the characters `NameValuePair` strips around `=` -/
def fieldWs : Bytes := [0x20, 0x09]

/-- `NameValuePair.parse_exact_size(item)` for an ASCII item: `name.rstrip(' \t')`; the value is what follows the run of
`=`, `lstrip(' \t')`, then unquoted (RFC 6797 implied *LWS, RFC 7489 `*WSP "=" *WSP`, RFC 6265 §5.2 WSP trimming) -/
def nameValue (item : Bytes) : Pair :=
  match splitFirstEq item with
  | none => (trimEnd fieldWs item, none)
  | some (n, v) => (trimEnd fieldWs n, some (stripQuotes (trimStart fieldWs (v.dropWhile (· = 0x3d)))))

/-! ### the ordered dictionary -/

/-- `d[k] = v` -/
def odInsert (d : List Pair) (k : Bytes) (v : Option Bytes) : List Pair :=
  if d.any (fun p => p.1 == k) then d.map (fun p => if p.1 == k then (k, v) else p) else d ++ [(k, v)]

/-- `OrderedDict([(c.name, c.value) for c in items])` -/
def odOfList (ps : List Pair) : List Pair := ps.foldl (fun d p => odInsert d p.1 p.2) []

/-- `d.pop(k)` (the dictionary without the key) -/
def odErase (d : List Pair) (k : Bytes) : List Pair := d.filter (fun p => p.1 != k)

/-! ### `_check_name` -/

/-- `str.lower()` of ASCII text -/
def asciiLower (b : Bytes) : Bytes := b.map fun x => if 65 ≤ x.toNat ∧ x.toNat ≤ 90 then x + 32 else x

/-- `_check_name(key)` does not raise `InvalidType` -/
def nameMatches (mode : MatchMode) (canonical key : Bytes) : Bool :=
  match mode with
  | .exact => key == canonical
  | .caseInsensitive => asciiLower key == asciiLower canonical
  | .anyName => true

/-- the canonical directive name as bytes -/
def nameBytes (s : String) : Bytes := s.toUTF8.toList

/-- what a component is handed -/
inductive Slot where
  /-- no accepted key: `attribute.default` -/
  | absent
  /-- a NAMED component matched by a pair without value: the component parser gets the name as spelled -/
  | flag
  /-- named component: the value text (the parser gets `canonical=text`); positional component (`anyName`): the whole
  text handed over (`key`, or `=value`) -/
  | value (text : Bytes)
deriving DecidableEq, Repr

def slotOf (mode : MatchMode) (key : Bytes) (v : Option Bytes) : Slot :=
  match mode, v with
  | .anyName, none => .value key
  | .anyName, some t => .value (0x3d :: t)
  | _, none => .flag
  | _, some t => .value t

/-- one pass of the outer `for` of `_parse_basic_params` -/
def stepComp (c : FieldComp) (d : List Pair) : Except PErr (Slot × List Pair) :=
  match d.find? (fun p => nameMatches c.mode (nameBytes c.name) p.1) with
  | some (k, v) => .ok (slotOf c.mode k v, odErase (odErase d k) (nameBytes c.name))
  | none => if c.optional then .ok (.absent, d) else .error .invalidValue

def runComps : List FieldComp → List Pair → Except PErr (List Slot × List Pair)
  | [], d => .ok ([], d)
  | c :: cs, d =>
    match stepComp c d with
    | .error e => .error e
    | .ok (s, d') =>
      match runComps cs d' with
      | .error e => .error e
      | .ok (ss, d'') => .ok (s :: ss, d'')

/-- the component assignment: one slot per component in table order, and the pairs nothing consumed -/
structure Assignment where
  slots : List Slot
  rest : List Pair
deriving DecidableEq, Repr

/-- `_parse_basic_params` on the pairs of the list -/
def parsePairs (T : FieldTable) (ps : List Pair) : Except PErr Assignment :=
  match runComps T.comps (odOfList ps) with
  | .error e => .error e
  | .ok (ss, rest) => .ok ⟨ss, rest⟩

/-- the value text of an item as `NameValuePair._parse` sees it before the quotes are removed: what follows the run of
`=`, `lstrip(' \t')`; `none` when the item has no `=` -/
def rawValue (item : Bytes) : Option Bytes :=
  match splitFirstEq item with
  | none => none
  | some (_, v) => some (trimStart fieldWs (v.dropWhile (· = 0x3d)))

/-- `_is_value_well_formed(value, quoted)` on the value text before the quotes are removed (`quoted` is "the text begins
with a double quote") -/
def valueOk : Option Bytes → Bool
  | none => true
  | some v => if v.head? = some 0x22 then quotedBody .inq (stripQuotes v) else !v.contains 0x22

/-- the check of `NameValuePairList._parse` on one item: a double quote is the delimiter of a quoted-string value and
nothing else — none in the name; an unquoted value (`quoted` is False) contains none; the content of a quoted value
(`_is_value_well_formed(value, True)`) has a double quote only as the second character of a quoted-pair and does not end in
a lone backslash (`quotedBody .inq`).  A quoted value that is not closed (the last item of the list) passes. -/
def pairOk (item : Bytes) : Bool :=
  !(nameValue item).1.contains 0x22 && valueOk (rawValue item)

/-- `FieldValueMultiple._parse` up to the component value parsers: the quote-aware list scanner, the well-formedness
check of every item (`InvalidValue`), the pairs, the component assignment -/
def parseFields (T : FieldTable) (b : Bytes) : Except PErr Assignment :=
  match parseStringArrayQ b 0 [T.sep] fieldWs true none with
  | .error e => .error e
  | .ok (items, _) => if items.all pairOk then parsePairs T (items.map nameValue) else .error .invalidValue

end Cp.Text
