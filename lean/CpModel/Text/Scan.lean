import CpModel.Basic
/-
  CpModel.Text.Scan — the text scanner `ParserText` of `cryptoparser/common/parse.py`, transcribed
  function by function on `Bytes` with explicit offsets (`off` is `_parsed_length` / `item_offset`).

  Conventions
  * `InvalidValue` is `.invalidValue`; every other Python exception is `.crash kind`.
  * Only `item_class = str` with `fallback_class = None` is modelled: `_apply_item_class` is then
    `six.ensure_text(slice, 'ascii')` under `except (InvalidValue, ValueError, UnicodeError)` →
    `InvalidValue`, i.e. `asciiText`.
  * `separators`/`separator_spaces` handed to `_check_separators` are SETS of single bytes (the code
    tests `self._parsable[i:i + 1] in separators`, a one-byte substring test).
  * `_parse_string_array` hands its `separator` STRING to `_parse_string_until_separator`, which iterates
    over it: every character becomes a one-byte separator.  `parseStringArray` therefore takes the
    separator as a byte set `sepSet`.
  * Out-of-contract states of `_parse_string_until_separator` are modelled as `.crash "OutOfContract"`:
    the backward whitespace scan is guarded only by `item_end > item_offset`; when every byte of the item
    (and the byte before it) is in `separator_spaces` the real scan continues in front of the item, returns a
    NEGATIVE length, and from index −1 on (`b'' in spaces` is True for the empty slice) wraps around or
    never terminates.  The same class covers `item_offset > len(buffer)` with `may_end` (negative length).
    `C18.array_no_crash` proves that `parseStringArray` never reaches that state.
  * Loops are structural recursions over the part of the buffer the Python loop walks through; only the
    `while True` of `_parse_string_array` needs fuel (`.crash "Fuel"` on exhaustion, proved unreachable).
-/
namespace Cp.Text
open Cp

/-- every byte is below 0x80 -/
def isAscii (bs : Bytes) : Bool := bs.all (fun x => x.toNat < 128)

/-- `six.ensure_text(bs, 'ascii')` with `UnicodeError` translated to `InvalidValue`
(`_apply_item_class` for `str`, `_parse_string_by_length`). The text is kept as its bytes. -/
def asciiText (bs : Bytes) : Except PErr Bytes :=
  if isAscii bs then .ok bs else .error .invalidValue

/-- `b[i:j]` for `0 ≤ i`, `0 ≤ j` -/
def slice (b : Bytes) (i j : Nat) : Bytes := (b.take j).drop i

/-- `max_count is not None and count > max_count` -/
def exceeds : Option Nat → Nat → Bool
  | none, _ => false
  | some m, c => decide (m < c)

/-- `min_count is not None and count < min_count` -/
def below : Option Nat → Nat → Bool
  | none, _ => false
  | some m, c => decide (c < m)

/-- the `while` loop of `_check_separators`, walking the buffer from `actual_offset` on -/
def sepRun (seps : Bytes) (max : Option Nat) : Bytes → Nat → Except PErr Nat
  | [], c => .ok c
  | x :: xs, c =>
    if seps.contains x then
      if exceeds max (c + 1) then .error .invalidValue else sepRun seps max xs (c + 1)
    else .ok c

/-- `_check_separators(name, off, seps, min, max)`: number of consecutive bytes at `off` that are
members of `seps`; `InvalidValue` as soon as the count exceeds `max`, or if it ends below `min`. -/
def checkSeparators (b : Bytes) (off : Nat) (seps : Bytes) (min max : Option Nat) : Except PErr Nat :=
  match sepRun seps max (b.drop off) 0 with
  | .error e => .error e
  | .ok c => if below min c then .error .invalidValue else .ok c

/-- `parse_separator(separator, min_length, max_length)`: the new `_parsed_length` -/
def parseSeparator (b : Bytes) (off : Nat) (seps : Bytes) (min max : Option Nat) : Except PErr Nat :=
  match checkSeparators b off seps min max with
  | .error e => .error e
  | .ok n => .ok (off + n)

/-- `_parse_string_by_length(name, min, max, 'ascii', str)` at `_parsed_length = off ≤ len`:
`NotEnoughData(min - rest)` if `min > rest`; the length is `rest` if `max is None` else `min(max, rest)`;
the decoded text and the length (the caller advances). -/
def parseStringByLength (b : Bytes) (off : Nat) (min : Nat) (max : Option Nat) : Except PErr (Bytes × Nat) :=
  if b.length < off then .error (.crash "OutOfContract")
  else
    let rest := b.length - off
    if rest < min then .error (.notEnough ((min - rest : Nat) : Int))
    else
      let n := match max with
        | none => rest
        | some m => if m < rest then m else rest
      match asciiText (slice b off (off + n)) with
      | .error e => .error e
      | .ok text => .ok (text, n)

/-- `parse_string(name, value)`: exact match of `len(value)` bytes; short input (NotEnoughData is
converted), a non-ASCII byte or a mismatch are `InvalidValue`.  Returns the consumed length. -/
def parseString (b : Bytes) (off : Nat) (value : Bytes) : Except PErr Nat :=
  if b.length - off < value.length then .error .invalidValue
  else match asciiText (slice b off (off + value.length)) with
    | .error e => .error e
    | .ok text => if text == value then .ok value.length else .error .invalidValue

/-! ### `_parse_string_until_separator` -/

/-- `for separator_end in range(item_offset, len + 1): for separator in byte_separators: if
buf[item_offset:separator_end].endswith(separator)`: first end position (then first separator in the
given order) — returns `item_end = separator_end - len(separator)`.  `n` is the number of end
positions still to try. -/
def sepSearch (b : Bytes) (off : Nat) (seps : List Bytes) : Nat → Nat → Option Nat
  | 0, _ => none
  | n + 1, e =>
    match seps.find? (fun s => s.isSuffixOf (slice b off e)) with
    | some s => some (e - s.length)
    | none => sepSearch b off seps n (e + 1)

/-- the backward whitespace scan, fed with the bytes in the order it reads them
(`buf[item_end-1]`, `buf[item_end-2]`, …, `buf[0]`); running off the front of the buffer is the
out-of-contract state (empty slice, `b'' in spaces` is True, negative indices wrap). -/
def trimRun (ws : Bytes) : Bytes → Nat → Except PErr Nat
  | [], _ => .error (.crash "OutOfContract")
  | x :: xs, c => if ws.contains x then trimRun ws xs (c + 1) else .ok c

/-- `separator_space_count` -/
def trimCount (b ws : Bytes) (itemOff itemEnd : Nat) : Except PErr Nat :=
  if itemOff < itemEnd then trimRun ws (b.take itemEnd).reverse 0 else .ok 0

/-- What the real scan does once it has run off the front of the buffer (index −1 reads the empty slice, which
is "in" every byte string; indices −2, −3, … wrap around to `buf[len-2]`, `buf[len-3]`, …): it either never
terminates (all of them whitespace; from index `-len-1` on every slice is empty again) or stops with
`separator_space_count > item_end`, decodes `buf[item_offset : -(j+1)]` (`InvalidValue` if that is not ASCII)
and returns a NEGATIVE length.  Hang and negative length are the out-of-contract class. -/
def wrapAround (b ws : Bytes) (off : Nat) : Except PErr (Bytes × Nat) :=
  let j := (b.dropLast.reverse.takeWhile ws.contains).length
  if j + 1 == b.length then .error (.crash "OutOfContract")
  else match asciiText (slice b off (b.length - (j + 1))) with
    | .error e => .error e
    | .ok _ => .error (.crash "OutOfContract")

/-- the `for … else` around the search: `item_end`, or `None` when `InvalidValue` is due -/
def findItemEnd (b : Bytes) (off : Nat) (seps : List Bytes) (mayEnd : Bool) : Option Nat :=
  match sepSearch b off seps (b.length + 1 - off) off with
  | some e => some e
  | none => if mayEnd then some b.length else none

/-- `_parse_string_until_separator(name, off, seps, str, None, may_end, ws)`:
the item (decoded) and `item_end - item_offset - separator_space_count`. -/
def parseStringUntilSeparator (b : Bytes) (off : Nat) (seps : List Bytes) (mayEnd : Bool) (ws : Bytes) :
    Except PErr (Bytes × Nat) :=
  match findItemEnd b off seps mayEnd with
  | none => .error .invalidValue
  | some itemEnd =>
    if itemEnd < off then .error (.crash "OutOfContract")
    else match trimCount b ws off itemEnd with
      | .error _ => wrapAround b ws off
      | .ok c =>
        if itemEnd - off < c then .error (.crash "OutOfContract")
        else match asciiText (slice b off (itemEnd - c)) with
          | .error e => .error e
          | .ok item => .ok (item, itemEnd - off - c)

/-! ### `_parse_string_array` -/

/-- `if separator_spaces: item_offset += self._check_separators('separator', item_offset, separator_spaces, None, None)` -/
def skipWs (b ws : Bytes) (off : Nat) : Except PErr Nat :=
  if ws.isEmpty then .ok off
  else match checkSeparators b off ws none none with
    | .error e => .error e
    | .ok n => .ok (off + n)

/-- outcome of one pass through the body of `while True`: `break` or go round again -/
inductive Step where
  | done (items : List Bytes) (off : Nat)
  | more (items : List Bytes) (off : Nat)
deriving Repr, DecidableEq

/-- first half of the loop body: the item up to the separator or the end, `value.append`, and the
whitespace after the item.  Returns `value` and `item_offset`. -/
def stepItem (b sepSet ws : Bytes) (skipEmpty : Bool) (off : Nat) (acc : List Bytes) :
    Except PErr (List Bytes × Nat) :=
  match parseStringUntilSeparator b off (sepSet.map fun x => [x]) true ws with
  | .error e => .error e
  | .ok (_, n) =>
    let r : Except PErr (List Bytes × Nat) :=
      if n ≠ 0 then
        match asciiText (slice b off (off + n)) with
        | .error e => .error e
        | .ok item => .ok (acc ++ [item], off + n)
      else if skipEmpty then .ok (acc, off)
      else .error .invalidValue
    match r with
    | .error e => .error e
    | .ok (acc, off) =>
      match skipWs b ws off with
      | .error e => .error e
      | .ok off => .ok (acc, off)

/-- second half of the loop body: end of input?, the separator(s), whitespace, end of input?, `max_item_num`? -/
def stepSep (b sepSet ws : Bytes) (skipEmpty : Bool) (maxItems : Option Nat) (off : Nat) (acc : List Bytes) :
    Except PErr Step :=
  if off == b.length then .ok (.done acc off)
  else match checkSeparators b off sepSet (some 1) (if skipEmpty then none else some 1) with
    | .error e => .error e
    | .ok k =>
      match skipWs b ws (off + k) with
      | .error e => .error e
      | .ok off =>
        if off == b.length then .ok (.done acc off)
        else if maxItems == some acc.length then .ok (.done acc off)
        else .ok (.more acc off)

/-- one iteration of the `while True` loop of `_parse_string_array` (`item_class = str`) -/
def arrayStep (b sepSet ws : Bytes) (skipEmpty : Bool) (maxItems : Option Nat) (off : Nat) (acc : List Bytes) :
    Except PErr Step :=
  match stepItem b sepSet ws skipEmpty off acc with
  | .error e => .error e
  | .ok (acc, off) => stepSep b sepSet ws skipEmpty maxItems off acc

/-- the `while True` loop -/
def arrayLoop (b sepSet ws : Bytes) (skipEmpty : Bool) (maxItems : Option Nat) :
    Nat → Nat → List Bytes → Except PErr (List Bytes × Nat)
  | 0, _, _ => .error (.crash "Fuel")
  | fuel + 1, off, acc =>
    match arrayStep b sepSet ws skipEmpty maxItems off acc with
    | .error e => .error e
    | .ok (.done items off) => .ok (items, off)
    | .ok (.more items off) => arrayLoop b sepSet ws skipEmpty maxItems fuel off items

/-- `_parse_string_array(name, separator, max_item_num, str, None, separator_spaces, skip_empty)` started
with `_parsed_length = off`: the items and the new `_parsed_length`. -/
def parseStringArray (b : Bytes) (off : Nat) (sepSet ws : Bytes) (skipEmpty : Bool) (maxItems : Option Nat) :
    Except PErr (List Bytes × Nat) :=
  match skipWs b ws off with
  | .error e => .error e
  | .ok off => arrayLoop b sepSet ws skipEmpty maxItems (b.length + 1) off []

/-! ### quote-aware splitting (`quote_aware=True`, the value lists of `NameValuePairList`)

With `quote_aware` the search of `_parse_string_until_separator` keeps the state of an RFC 7230 §3.2.6 quoted-string
(`DQUOTE *( qdtext / quoted-pair ) DQUOTE`, a quoted-pair is a backslash and any character) over the bytes of the item
read so far and does not test the separators at an end position that lies inside a quoted-string.  Everything else
(`may_end`, the backward whitespace scan, the decode) is unchanged.  A quoted-string that is not closed extends to the end
of the input. -/

/-- the pair `(quoted, escaped)` of the code: `out` = `(False, False)`, `inq` = `(True, False)`, `esc` = `(True, True)` -/
inductive QState where
  | out | inq | esc
deriving DecidableEq, Repr

/-- `_get_quoted_string_state(quoted, escaped, char)` -/
def qNext : QState → UInt8 → QState
  | .out, x => if x = 0x22 then .inq else .out
  | .inq, x => if x = 0x5c then .esc else if x = 0x22 then .out else .inq
  | .esc, _ => .inq

/-- the state after a run of bytes -/
def qAfter (q : QState) (l : Bytes) : QState := l.foldl qNext q

/-- the body of a quoted-string read from state `q`: the state never becomes `out` and ends as `inq` (qdtext and
quoted-pairs; every byte, the separator too, is allowed) -/
def quotedBody : QState → Bytes → Bool
  | q, [] => decide (q = .inq)
  | q, x :: xs => !decide (qNext q x = .out) && quotedBody (qNext q x) xs

/-- the state after the byte `buf[e]` as well (no byte there: unchanged) -/
def qStepAt (b : Bytes) (e : Nat) (q : QState) : QState :=
  match b[e]? with
  | some x => qNext q x
  | none => q

/-- the search loop with `quote_aware`: `q` is the state after the bytes `buf[item_offset:e]` (the code updates it at the
top of the pass for end position `e` with the byte `buf[e-1]`; here the update for the next pass is computed when
recursing — the same sequence of states).  Inside a quoted-string (`if quoted: continue`) no separator is tested. -/
def sepSearchQ (b : Bytes) (off : Nat) (seps : List Bytes) : Nat → Nat → QState → Option Nat
  | 0, _, _ => none
  | n + 1, e, q =>
    if q ≠ .out then sepSearchQ b off seps n (e + 1) (qStepAt b e q)
    else match seps.find? (fun s => s.isSuffixOf (slice b off e)) with
      | some s => some (e - s.length)
      | none => sepSearchQ b off seps n (e + 1) (qStepAt b e q)

def findItemEndQ (b : Bytes) (off : Nat) (seps : List Bytes) (mayEnd : Bool) : Option Nat :=
  match sepSearchQ b off seps (b.length + 1 - off) off .out with
  | some e => some e
  | none => if mayEnd then some b.length else none

/-- `_parse_string_until_separator(name, off, seps, str, None, may_end, ws, quote_aware=True)` -/
def parseStringUntilSeparatorQ (b : Bytes) (off : Nat) (seps : List Bytes) (mayEnd : Bool) (ws : Bytes) :
    Except PErr (Bytes × Nat) :=
  match findItemEndQ b off seps mayEnd with
  | none => .error .invalidValue
  | some itemEnd =>
    if itemEnd < off then .error (.crash "OutOfContract")
    else match trimCount b ws off itemEnd with
      | .error _ => wrapAround b ws off
      | .ok c =>
        if itemEnd - off < c then .error (.crash "OutOfContract")
        else match asciiText (slice b off (itemEnd - c)) with
          | .error e => .error e
          | .ok item => .ok (item, itemEnd - off - c)

/-- first half of the loop body of `_parse_string_array(…, quote_aware=True)` -/
def stepItemQ (b sepSet ws : Bytes) (skipEmpty : Bool) (off : Nat) (acc : List Bytes) :
    Except PErr (List Bytes × Nat) :=
  match parseStringUntilSeparatorQ b off (sepSet.map fun x => [x]) true ws with
  | .error e => .error e
  | .ok (_, n) =>
    let r : Except PErr (List Bytes × Nat) :=
      if n ≠ 0 then
        match asciiText (slice b off (off + n)) with
        | .error e => .error e
        | .ok item => .ok (acc ++ [item], off + n)
      else if skipEmpty then .ok (acc, off)
      else .error .invalidValue
    match r with
    | .error e => .error e
    | .ok (acc, off) =>
      match skipWs b ws off with
      | .error e => .error e
      | .ok off => .ok (acc, off)

/-- one iteration of the `while True` loop; the second half (`stepSep`) does not depend on `quote_aware` -/
def arrayStepQ (b sepSet ws : Bytes) (skipEmpty : Bool) (maxItems : Option Nat) (off : Nat) (acc : List Bytes) :
    Except PErr Step :=
  match stepItemQ b sepSet ws skipEmpty off acc with
  | .error e => .error e
  | .ok (acc, off) => stepSep b sepSet ws skipEmpty maxItems off acc

def arrayLoopQ (b sepSet ws : Bytes) (skipEmpty : Bool) (maxItems : Option Nat) :
    Nat → Nat → List Bytes → Except PErr (List Bytes × Nat)
  | 0, _, _ => .error (.crash "Fuel")
  | fuel + 1, off, acc =>
    match arrayStepQ b sepSet ws skipEmpty maxItems off acc with
    | .error e => .error e
    | .ok (.done items off) => .ok (items, off)
    | .ok (.more items off) => arrayLoopQ b sepSet ws skipEmpty maxItems fuel off items

/-- `_parse_string_array(name, separator, max_item_num, str, None, separator_spaces, skip_empty, quote_aware=True)` -/
def parseStringArrayQ (b : Bytes) (off : Nat) (sepSet ws : Bytes) (skipEmpty : Bool) (maxItems : Option Nat) :
    Except PErr (List Bytes × Nat) :=
  match skipWs b ws off with
  | .error e => .error e
  | .ok off => arrayLoopQ b sepSet ws skipEmpty maxItems (b.length + 1) off []

/-! ### numbers -/

def isDigit (x : UInt8) : Bool := 48 ≤ x.toNat && x.toNat ≤ 57

def decVal (ds : Bytes) : Nat := ds.foldl (fun a x => a * 10 + (x.toNat - 48)) 0

/-- CPython's `sys.int_info.default_max_str_digits`: `int(b'1' * 4301)` is a `ValueError` -/
def maxStrDigits : Nat := 4300

/-- `parse_numeric(name)` = `_parse_numeric_array(name, 1, None, int, False)`: the run of ASCII digits at
`off`; none → `InvalidValue`; the value and the consumed length.  A run longer than `maxStrDigits` makes
`int()` raise `ValueError`, which is translated to `InvalidValue` (repaired: it used to escape). -/
def parseNumeric (b : Bytes) (off : Nat) : Except PErr (Nat × Nat) :=
  let ds := (b.drop off).takeWhile isDigit
  if ds.isEmpty then .error .invalidValue
  else if maxStrDigits < ds.length then .error .invalidValue
  else .ok (decVal ds, ds.length)

/-! ### cost model of `_parse_string_array` (feeds C19)

`…Ticks` count interpreter steps: one tick per evaluation of a loop condition / per pass through a loop body, one
per decode, one per `if`.  They follow the control flow of the functions above (same tests, same order) and stop
counting where the model raises.  `sepSearchBytes` counts something the ticks do not see: the BYTES copied by the
slices `self._parsable[item_offset:separator_end]` that the search builds before every `endswith`. -/

/-- evaluations of the `while` condition of `_check_separators` -/
def sepRunTicks (seps : Bytes) (max : Option Nat) : Bytes → Nat → Nat
  | [], _ => 1
  | x :: xs, c =>
    if seps.contains x then
      if exceeds max (c + 1) then 1 else 1 + sepRunTicks seps max xs (c + 1)
    else 1

def checkTicks (b : Bytes) (off : Nat) (seps : Bytes) (max : Option Nat) : Nat :=
  sepRunTicks seps max (b.drop off) 0

/-- separators tested at one end position: up to and including the first that matches -/
def triedCount (seps : List Bytes) (sl : Bytes) : Nat :=
  match seps.findIdx? (fun s => s.isSuffixOf sl) with
  | some i => i + 1
  | none => seps.length

/-- one tick per end position plus one per separator tested there -/
def sepSearchTicks (b : Bytes) (off : Nat) (seps : List Bytes) : Nat → Nat → Nat
  | 0, _ => 0
  | n + 1, e =>
    match seps.find? (fun s => s.isSuffixOf (slice b off e)) with
    | some _ => 1 + triedCount seps (slice b off e)
    | none => 1 + triedCount seps (slice b off e) + sepSearchTicks b off seps n (e + 1)

/-- bytes copied by the slices of the search: `separator_end - item_offset` per separator tested -/
def sepSearchBytes (b : Bytes) (off : Nat) (seps : List Bytes) : Nat → Nat → Nat
  | 0, _ => 0
  | n + 1, e =>
    match seps.find? (fun s => s.isSuffixOf (slice b off e)) with
    | some _ => triedCount seps (slice b off e) * (slice b off e).length
    | none => triedCount seps (slice b off e) * (slice b off e).length + sepSearchBytes b off seps n (e + 1)

/-- evaluations of the condition of the backward whitespace scan -/
def trimRunTicks (ws : Bytes) : Bytes → Nat
  | [] => 1
  | x :: xs => if ws.contains x then 1 + trimRunTicks ws xs else 1

def trimTicks (b ws : Bytes) (itemOff itemEnd : Nat) : Nat :=
  if itemOff < itemEnd then trimRunTicks ws (b.take itemEnd).reverse else 1

def untilTicks (b : Bytes) (off : Nat) (seps : List Bytes) (mayEnd : Bool) (ws : Bytes) : Nat :=
  sepSearchTicks b off seps (b.length + 1 - off) off +
    match findItemEnd b off seps mayEnd with
    | none => 0
    | some itemEnd => if itemEnd < off then 0 else trimTicks b ws off itemEnd + 1

def skipWsTicks (b ws : Bytes) (off : Nat) : Nat :=
  if ws.isEmpty then 1 else 1 + checkTicks b off ws none

def stepItemTicks (b sepSet ws : Bytes) (skipEmpty : Bool) (off : Nat) : Nat :=
  untilTicks b off (sepSet.map fun x => [x]) true ws +
    match parseStringUntilSeparator b off (sepSet.map fun x => [x]) true ws with
    | .error _ => 0
    | .ok (_, n) =>
      if n ≠ 0 then
        2 + match asciiText (slice b off (off + n)) with
          | .error _ => 0
          | .ok _ => skipWsTicks b ws (off + n)
      else if skipEmpty then 2 + skipWsTicks b ws off
      else 2

def stepSepTicks (b sepSet ws : Bytes) (skipEmpty : Bool) (off : Nat) : Nat :=
  if off == b.length then 1
  else 1 + checkTicks b off sepSet (if skipEmpty then none else some 1) +
    match checkSeparators b off sepSet (some 1) (if skipEmpty then none else some 1) with
    | .error _ => 0
    | .ok k => skipWsTicks b ws (off + k) + 2

def arrayStepTicks (b sepSet ws : Bytes) (skipEmpty : Bool) (off : Nat) (acc : List Bytes) : Nat :=
  stepItemTicks b sepSet ws skipEmpty off +
    match stepItem b sepSet ws skipEmpty off acc with
    | .error _ => 0
    | .ok (_, off) => stepSepTicks b sepSet ws skipEmpty off

def arrayLoopTicks (b sepSet ws : Bytes) (skipEmpty : Bool) (maxItems : Option Nat) : Nat → Nat → List Bytes → Nat
  | 0, _, _ => 0
  | fuel + 1, off, acc =>
    arrayStepTicks b sepSet ws skipEmpty off acc +
      match arrayStep b sepSet ws skipEmpty maxItems off acc with
      | .ok (.more items off) => arrayLoopTicks b sepSet ws skipEmpty maxItems fuel off items
      | _ => 0

/-- interpreter steps of `_parse_string_array` -/
def arrayTicks (b : Bytes) (off : Nat) (sepSet ws : Bytes) (skipEmpty : Bool) (maxItems : Option Nat) : Nat :=
  skipWsTicks b ws off +
    match skipWs b ws off with
    | .error _ => 0
    | .ok off => arrayLoopTicks b sepSet ws skipEmpty maxItems (b.length + 1) off []

/-! ### cost model of the quote-aware `_parse_string_array` -/

/-- per end position: one tick for the pass, one for the state update (`_get_quoted_string_state`), and — outside a
quoted-string — one per separator tested -/
def sepSearchTicksQ (b : Bytes) (off : Nat) (seps : List Bytes) : Nat → Nat → QState → Nat
  | 0, _, _ => 0
  | n + 1, e, q =>
    if q ≠ .out then 2 + sepSearchTicksQ b off seps n (e + 1) (qStepAt b e q)
    else match seps.find? (fun s => s.isSuffixOf (slice b off e)) with
      | some _ => 2 + triedCount seps (slice b off e)
      | none => 2 + triedCount seps (slice b off e) + sepSearchTicksQ b off seps n (e + 1) (qStepAt b e q)

def untilTicksQ (b : Bytes) (off : Nat) (seps : List Bytes) (mayEnd : Bool) (ws : Bytes) : Nat :=
  sepSearchTicksQ b off seps (b.length + 1 - off) off .out +
    match findItemEndQ b off seps mayEnd with
    | none => 0
    | some itemEnd => if itemEnd < off then 0 else trimTicks b ws off itemEnd + 1

def stepItemTicksQ (b sepSet ws : Bytes) (skipEmpty : Bool) (off : Nat) : Nat :=
  untilTicksQ b off (sepSet.map fun x => [x]) true ws +
    match parseStringUntilSeparatorQ b off (sepSet.map fun x => [x]) true ws with
    | .error _ => 0
    | .ok (_, n) =>
      if n ≠ 0 then
        2 + match asciiText (slice b off (off + n)) with
          | .error _ => 0
          | .ok _ => skipWsTicks b ws (off + n)
      else if skipEmpty then 2 + skipWsTicks b ws off
      else 2

def arrayStepTicksQ (b sepSet ws : Bytes) (skipEmpty : Bool) (off : Nat) (acc : List Bytes) : Nat :=
  stepItemTicksQ b sepSet ws skipEmpty off +
    match stepItemQ b sepSet ws skipEmpty off acc with
    | .error _ => 0
    | .ok (_, off) => stepSepTicks b sepSet ws skipEmpty off

def arrayLoopTicksQ (b sepSet ws : Bytes) (skipEmpty : Bool) (maxItems : Option Nat) : Nat → Nat → List Bytes → Nat
  | 0, _, _ => 0
  | fuel + 1, off, acc =>
    arrayStepTicksQ b sepSet ws skipEmpty off acc +
      match arrayStepQ b sepSet ws skipEmpty maxItems off acc with
      | .ok (.more items off) => arrayLoopTicksQ b sepSet ws skipEmpty maxItems fuel off items
      | _ => 0

/-- interpreter steps of `_parse_string_array(…, quote_aware=True)` -/
def arrayTicksQ (b : Bytes) (off : Nat) (sepSet ws : Bytes) (skipEmpty : Bool) (maxItems : Option Nat) : Nat :=
  skipWsTicks b ws off +
    match skipWs b ws off with
    | .error _ => 0
    | .ok off => arrayLoopTicksQ b sepSet ws skipEmpty maxItems (b.length + 1) off []

/-! ### the functional specification of `_parse_string_array` (no offsets) -/

/-- split on a single-byte separator; `n` separators give `n + 1` elements -/
def splitSep (sep : UInt8) : Bytes → List Bytes
  | [] => [[]]
  | x :: xs =>
    if x = sep then [] :: splitSep sep xs
    else match splitSep sep xs with
      | [] => [[x]]
      | h :: t => (x :: h) :: t

def trimStart (ws : Bytes) (l : Bytes) : Bytes := l.dropWhile ws.contains
def trimEnd (ws : Bytes) (l : Bytes) : Bytes := (l.reverse.dropWhile ws.contains).reverse
def trim (ws : Bytes) (l : Bytes) : Bytes := trimEnd ws (trimStart ws l)

/-- every kept item must decode as ASCII -/
def keepAscii (items : List Bytes) : Except PErr (List Bytes) :=
  if items.all isAscii then .ok items else .error .invalidValue

/-- a final empty element after a separator (`a;`, `a; `) is not an element -/
def strictBody (elems : List Bytes) : List Bytes :=
  if 2 ≤ elems.length && elems.getLast?.any (·.isEmpty) then elems.dropLast else elems

/-- Split on `sep`, trim the bytes of `ws` at both ends of every element; with `dropEmpty`
(`skip_empty=True`) empty elements disappear, otherwise an empty element is `InvalidValue` — except a
final one after a separator (`a;` and `a; ` are accepted as `[a]`, the empty input is not). -/
def splitTrimDrop (sep : UInt8) (ws : Bytes) (dropEmpty : Bool) (b : Bytes) : Except PErr (List Bytes) :=
  let elems := (splitSep sep b).map (trim ws)
  if dropEmpty then keepAscii (elems.filter fun e => !e.isEmpty)
  else
    let body := strictBody elems
    if body.any (·.isEmpty) then .error .invalidValue else keepAscii body

/-! ### the functional specification of the quote-aware `_parse_string_array` -/

/-- split on a single-byte separator that is read OUTSIDE a quoted-string; `q` is the state at the start -/
def splitQ (sep : UInt8) : QState → Bytes → List Bytes
  | _, [] => [[]]
  | q, x :: xs =>
    if qNext q x = .out ∧ x = sep then [] :: splitQ sep .out xs
    else match splitQ sep (qNext q x) xs with
      | [] => [[x]]
      | h :: t => (x :: h) :: t

/-- `splitTrimDrop` with the quote-aware split -/
def splitTrimDropQ (sep : UInt8) (ws : Bytes) (dropEmpty : Bool) (b : Bytes) : Except PErr (List Bytes) :=
  let elems := (splitQ sep .out b).map (trim ws)
  if dropEmpty then keepAscii (elems.filter fun e => !e.isEmpty)
  else
    let body := strictBody elems
    if body.any (·.isEmpty) then .error .invalidValue else keepAscii body

end Cp.Text
