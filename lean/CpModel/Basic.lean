/-
  CpModel.Basic — common vocabulary of the executable model of cryptoparser.
  No Mathlib below CpModel: the driver `cpdrv` is linked natively.
-/
namespace Cp

/-- A byte string (`bytes`/`bytearray` in the implementation). -/
abbrev Bytes := List UInt8

/-- The outcome classes a parse/compose call of the implementation can have besides success.
`crash k` is ANY Python exception outside the four documented parse errors. -/
inductive PErr where
  | notEnough (n : Int)   -- NotEnoughData(bytes_needed)
  | tooMuch (n : Int)     -- TooMuchData(bytes_needed)
  | invalidValue          -- cryptodatahub InvalidValue
  | invalidType           -- InvalidType
  | crash (kind : String) -- IndexError, ValueError, TypeError, UnicodeError, KeyError, struct.error, …
deriving Repr, DecidableEq, BEq, Inhabited

def PErr.isCrash : PErr → Bool
  | .crash _ => true
  | _ => false

/-- Result of `Class._parse(parsable)`: the value and the consumed length. -/
abbrev PRes (α : Type) := Except PErr (α × Nat)

instance [BEq α] [BEq ε] : BEq (Except ε α) where
  beq
    | .ok a, .ok b => a == b
    | .error a, .error b => a == b
    | _, _ => false

instance [DecidableEq ε] [DecidableEq α] : DecidableEq (Except ε α) := fun a b =>
  match a, b with
  | .ok x, .ok y => if h : x = y then isTrue (by rw [h]) else isFalse (by intro e; cases e; exact h rfl)
  | .error x, .error y => if h : x = y then isTrue (by rw [h]) else isFalse (by intro e; cases e; exact h rfl)
  | .ok _, .error _ => isFalse (by intro e; cases e)
  | .error _, .ok _ => isFalse (by intro e; cases e)

def hexDigit (n : Nat) : Char :=
  if n < 10 then Char.ofNat (48 + n) else Char.ofNat (87 + n)

def hexOfBytes (b : Bytes) : String :=
  String.ofList (b.flatMap fun x => [hexDigit (x.toNat / 16), hexDigit (x.toNat % 16)])

def hexVal (c : Char) : Option Nat :=
  if '0' ≤ c ∧ c ≤ '9' then some (c.toNat - 48)
  else if 'a' ≤ c ∧ c ≤ 'f' then some (c.toNat - 87)
  else if 'A' ≤ c ∧ c ≤ 'F' then some (c.toNat - 55)
  else none

def bytesOfHexAux : List Char → Option Bytes
  | [] => some []
  | [_] => none
  | a :: b :: rest => do
    let x ← hexVal a
    let y ← hexVal b
    let r ← bytesOfHexAux rest
    pure (UInt8.ofNat (x * 16 + y) :: r)

/-- `-` stands for the empty byte string in the line protocol. -/
def bytesOfHex (s : String) : Option Bytes :=
  if s == "-" then some [] else bytesOfHexAux s.toList

def hexOrDash (b : Bytes) : String := if b.isEmpty then "-" else hexOfBytes b

end Cp
