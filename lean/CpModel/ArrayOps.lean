import CpModel.Prim
/-
  CpModel.ArrayOps — the sequence interface of `ArrayBase` (cryptoparser/common/base.py), the
  length-prefixed protocol vector, transcribed operation by operation.

  * Items are abstract: an `Item` carries a `tag` (its identity under Python `==`) and the `size`
    that `param.get_item_size(item)` returns for it.  (Assumption recorded for the tie: the size of
    an item does not change while it sits in a vector.)
  * `itemsSize` is the private `_items_size`.  It is maintained INCREMENTALLY, exactly as
    `_update_items_size(del_items, insert_items)` does: a signed difference is computed from the
    deleted and inserted items, the two bounds are checked (`NotEnoughData(min_byte_num)` first,
    then `TooMuchData(max_byte_num)`), and only then is the difference added.  That the counter
    never drifts away from the sum over the items is a theorem (CpProps.C12), not a definition.
  * The methods that `ArrayBase` does not define come from `collections.abc.MutableSequence`:
    `pop(i=-1)` = `v = self[i]; del self[i]; return v`, `remove(x)` = `del self[self.index(x)]`,
    `__iadd__(values)` = `self.extend(values); return self`.
  * The list primitives underneath (`list.insert`, `del l[i]`, `l[i] = x`, slices with
    `slice.indices(len)` semantics, `range(start, stop, step)`) are CPython's; `listSpec` is what a
    plain Python list does for the same operation.
  No Mathlib.
-/
namespace Cp.ArrayOps

structure Item where
  tag : Nat
  size : Nat
deriving DecidableEq, Repr

structure VState where
  items : List Item
  itemsSize : Nat
  min : Nat
  max : Nat
deriving DecidableEq, Repr

inductive Op where
  | append (x : Item)
  | insert (i : Int) (x : Item)
  | extend (xs : List Item)
  | iadd (xs : List Item)
  | pop (i : Option Int)                       -- `pop()` is `pop(-1)`
  | remove (x : Item)
  | delItem (i : Int)
  | delSlice (a b st : Option Int)
  | setItem (i : Int) (x : Item)
  | setSlice (a b st : Option Int) (xs : List Item)
  | reverse
  | clear
deriving DecidableEq, Repr

inductive Out where
  | ok
  | popped (x : Item)
  | indexError
  | valueError
  | notEnough (n : Nat)
  | tooMuch (n : Nat)
deriving DecidableEq, Repr

def Out.accepted : Out → Bool
  | .ok | .popped _ => true
  | _ => false

/-- sum of `get_item_size` over a list of items -/
def sizes (l : List Item) : Nat := (l.map (·.size)).sum

/-! ### CPython list primitives -/

/-- `l[i]` index normalisation for a list of length `n`; `none` is `IndexError`. -/
def normIdx (n : Nat) (i : Int) : Option Nat :=
  if 0 ≤ i then (if i < n then some i.toNat else none)
  else if 0 ≤ i + n then some (i + n).toNat else none

/-- `self._items[i]` for an int index: position and item, `none` is `IndexError`. -/
def getItem (l : List Item) (i : Int) : Option (Nat × Item) :=
  match normIdx l.length i with
  | none => none
  | some k =>
    match l[k]? with
    | none => none
    | some x => some (k, x)

/-- `list.insert(i, x)`: a negative index counts from the end, everything is clamped. -/
def clampIns (n : Nat) (i : Int) : Nat :=
  if i < 0 then (if i + n < 0 then 0 else (i + n).toNat)
  else if i > n then n else i.toNat

def pyInsert (l : List Item) (i : Int) (x : Item) : List Item :=
  let k := clampIns l.length i
  l.take k ++ x :: l.drop k

/-- `slice(a, b, st).indices(n)`; `none` is `ValueError: slice step cannot be zero`. -/
def sliceAdjust (n : Nat) (a b st : Option Int) : Option (Int × Int × Int) :=
  let step : Int := st.getD 1
  if step = 0 then none
  else
    let lower : Int := if step < 0 then -1 else 0
    let upper : Int := if step < 0 then (n : Int) - 1 else n
    let adj (v : Int) : Int := if v < 0 then Max.max (v + n) lower else Min.min v upper
    let start : Int := match a with
      | none => if step < 0 then upper else lower
      | some v => adj v
    let stop : Int := match b with
      | none => if step < 0 then lower else upper
      | some v => adj v
    some (start, stop, step)

/-- membership in `range(start, stop, step)` -/
def inRange (start stop step : Int) (p : Nat) : Bool :=
  if step > 0 then decide (start ≤ p ∧ (p : Int) < stop ∧ ((p : Int) - start) % step = 0)
  else decide (stop < (p : Int) ∧ (p : Int) ≤ start ∧ (start - (p : Int)) % (-step) = 0)

/-- the items of `l` (whose first item sits at position `p`) at the positions satisfying `P`, in
list order -/
def pickPos (P : Nat → Bool) : Nat → List Item → List Item
  | _, [] => []
  | p, x :: xs => if P p then x :: pickPos P (p + 1) xs else pickPos P (p + 1) xs

/-- the items at the positions satisfying `P` are replaced, in list order, by `vals` -/
def setPos (P : Nat → Bool) : Nat → List Item → List Item → List Item
  | _, [], _ => []
  | p, x :: xs, vals =>
    if P p then
      match vals with
      | v :: vs => v :: setPos P (p + 1) xs vs
      | [] => x :: setPos P (p + 1) xs []
    else x :: setPos P (p + 1) xs vals

/-- the items at the positions of the adjusted slice, in ascending position order -/
def sliceHit (l : List Item) (start stop step : Int) : List Item :=
  pickPos (inRange start stop step) 0 l

/-- `l[a:b:st]`: the slice visits its positions in ascending order for a positive step and in
descending order for a negative one -/
def pyGetSlice (l : List Item) (a b st : Option Int) : Option (List Item) :=
  match sliceAdjust l.length a b st with
  | none => none
  | some (start, stop, step) =>
    let hit := sliceHit l start stop step
    some (if step > 0 then hit else hit.reverse)

/-- `del l[a:b:st]`: every position of the slice is removed, the rest keeps its order -/
def pyDelSlice (l : List Item) (a b st : Option Int) : Option (List Item) :=
  match sliceAdjust l.length a b st with
  | none => none
  | some (start, stop, step) => some (pickPos (fun p => !inRange start stop step p) 0 l)

/-- `l[a:b:st] = vals` on a plain list (`list_ass_subscript`): a step of 1 is a splice (with
`stop` raised to `start`); any other step needs as many values as positions (`ValueError`) and
hands them out in the order in which the slice visits its positions. -/
def pySetSlice (l : List Item) (a b st : Option Int) (vals : List Item) : Option (List Item) :=
  match sliceAdjust l.length a b st with
  | none => none
  | some (start, stop, step) =>
    if step = 1 then some (l.take start.toNat ++ vals ++ l.drop (Max.max start stop).toNat)
    else if vals.length = (sliceHit l start stop step).length then
      some (setPos (inRange start stop step) 0 l (if step > 0 then vals else vals.reverse))
    else none

/-- `Sequence.index(x)`: the first position holding an equal item, `none` is `ValueError`. -/
def pyIndex (l : List Item) (x : Item) : Option Nat := l.idxOf? x

/-! ### what a plain Python list does (`none` = `IndexError` / `ValueError`) -/

def listSpec (l : List Item) : Op → Option (List Item)
  | .append x => some (l ++ [x])
  | .insert i x => some (pyInsert l i x)
  | .extend xs => some (l ++ xs)
  | .iadd xs => some (l ++ xs)
  | .pop i => (normIdx l.length (i.getD (-1))).map l.eraseIdx
  | .remove x => if x ∈ l then some (l.erase x) else none
  | .delItem i => (normIdx l.length i).map l.eraseIdx
  | .delSlice a b st => pyDelSlice l a b st
  | .setItem i x => (normIdx l.length i).map (l.set · x)
  | .setSlice a b st xs => pySetSlice l a b st xs
  | .reverse => some l.reverse
  | .clear => some []

/-! ### the vector -/

/-- `_update_items_size(del_items, insert_items)`: the new `_items_size`, or the refusal. -/
def updSize (s : VState) (del ins : List Item) : Except Out Nat :=
  let sizeDiff : Int := 0 - (sizes del : Int) + (sizes ins : Int)
  let n : Int := (s.itemsSize : Int) + sizeDiff
  if n < s.min then .error (.notEnough s.min)
  else if n > s.max then .error (.tooMuch s.max)
  else .ok n.toNat

/-- size check first, then the list is changed; a refusal leaves the state as it was -/
def commit (s : VState) (del ins : List Item) (items' : List Item) (out : Out) : VState × Out :=
  match updSize s del ins with
  | .error e => (s, e)
  | .ok n => ({ s with items := items', itemsSize := n }, out)

/-- `ArrayBase.__delitem__` with an int index -/
def delItem (s : VState) (i : Int) (out : Item → Out) : VState × Out :=
  match getItem s.items i with
  | none => (s, .indexError)                                  -- `self._items[index]` raises
  | some (k, x) => commit s [x] [] (s.items.eraseIdx k) (out x)

def step (s : VState) : Op → VState × Out
  -- `insert`: `_update_items_size(insert_items=[value])`, then `self._items.insert(index, value)`
  | .insert i x => commit s [] [x] (pyInsert s.items i x) .ok
  -- `append`: `self.insert(len(self._items), value)`
  | .append x => commit s [] [x] (pyInsert s.items s.items.length x) .ok
  -- `extend`: `values = list(values)`, size check over all of them, `self._items.extend(values)`
  | .extend xs => commit s [] xs (s.items ++ xs) .ok
  -- `MutableSequence.__iadd__`: `self.extend(values); return self`
  | .iadd xs => commit s [] xs (s.items ++ xs) .ok
  -- `MutableSequence.pop`: `v = self[i]` (IndexError), `del self[i]`, `return v`
  | .pop i => delItem s (i.getD (-1)) .popped
  -- `MutableSequence.remove`: `del self[self.index(value)]` (`index` raises ValueError)
  | .remove x =>
    match pyIndex s.items x with
    | none => (s, .valueError)
    | some k => delItem s (k : Int) (fun _ => .ok)
  | .delItem i => delItem s i (fun _ => .ok)
  -- `__delitem__` with a slice: `del_items = self._items[index]` (ValueError for step 0)
  | .delSlice a b st =>
    match pyGetSlice s.items a b st, pyDelSlice s.items a b st with
    | some del, some items' => commit s del [] items' .ok
    | _, _ => (s, .valueError)
  -- `__setitem__` with an int index: `self._items[index]` (IndexError) before any size check
  | .setItem i x =>
    match getItem s.items i with
    | none => (s, .indexError)
    | some (k, old) => commit s [old] [x] (s.items.set k x) .ok
  -- `__setitem__` with a slice: `value = list(value)`, `self._items[index]` (ValueError for step 0),
  -- `items = list(self._items); items[index] = value` (ValueError for an extended slice of another
  -- length), then the size check, then `self._items = items`
  | .setSlice a b st xs =>
    match pyGetSlice s.items a b st with
    | none => (s, .valueError)
    | some del =>
      match pySetSlice s.items a b st xs with
      | none => (s, .valueError)
      | some items' => commit s del xs items' .ok
  -- `reverse`: `self._items.reverse()`
  | .reverse => ({ s with items := s.items.reverse }, .ok)
  -- `clear`: `_update_items_size(del_items=self._items)`, `self._items = []`
  | .clear => commit s s.items [] [] .ok

/-- `ArrayBase.__attrs_post_init__`: the sizes of all items are summed, then the bounds are
checked by `_update_items_size()` with nothing deleted and nothing inserted. -/
def mk (items : List Item) (min max : Nat) : Except Out VState :=
  let s : VState := { items := items, itemsSize := sizes items, min := min, max := max }
  match updSize s [] [] with
  | .error e => .error e
  | .ok n => .ok { s with itemsSize := n }

/-- the state after a whole history -/
def run (s : VState) (ops : List Op) : VState := ops.foldl (fun s o => (step s o).1) s

/-- the operations of a history which the vector accepted, in order -/
def acceptedOps : VState → List Op → List Op
  | _, [] => []
  | s, op :: ops =>
    let r := step s op
    if r.2.accepted then op :: acceptedOps r.1 ops else acceptedOps r.1 ops

/-- a plain Python list going through a history; `none` as soon as one operation raises -/
def plainFold (l : List Item) : List Op → Option (List Item)
  | [] => some l
  | op :: ops =>
    match listSpec l op with
    | none => none
    | some l' => plainFold l' ops

/-! ### composition

`compose()` of every vector kind writes the body length in `item_num_size` bytes (network order)
in front of the body.  The body is built from the item encodings; the kinds differ in the framing:
`Vector`, `Opaque`, `VectorParsable`, `VectorParsableDerived`, `VectorEnumCodeNumeric` concatenate
them (`Vector.compose` writes `len(items) * item_size`, the same number for fixed-size items);
`VectorEnumCodeString` puts a length prefix in front of every item (`compose_string_enum_coded`);
`VectorString` joins them with a separator (`compose_parsable_array(items, separator)`). -/

structure Framing where
  itemPrefix : Nat      -- width of a per-item length prefix inside the body, 0 for none
  sep : Bytes           -- separator between items, `[]` for none

/-- plain concatenation -/
def Framing.plain : Framing := ⟨0, []⟩

def joinSep (sep : Bytes) : List Bytes → Bytes
  | [] => []
  | [x] => x
  | x :: y :: r => x ++ sep ++ joinSep sep (y :: r)

def body (f : Framing) (enc : Item → Bytes) (l : List Item) : Bytes :=
  joinSep f.sep (l.map fun x => beBytes f.itemPrefix (enc x).length ++ enc x)

def compose (f : Framing) (k : Nat) (enc : Item → Bytes) (s : VState) : Except PErr Bytes := do
  let b := body f enc s.items
  let h ← composeNum .network k (b.length : Int)
  pure (h ++ b)

end Cp.ArrayOps
