import CpModel.Vector
import CpModel.Gen.Consts
import CpModel.Tls.Version
/-
  CpModel.Tls.Msg — TLS record layer, alert, change-cipher-spec, handshake messages and hello
  extensions (`cryptoparser/tls/record.py`, `subprotocol.py`, `extension.py`), transcribed
  `_parse`/`compose` by `_parse`/`compose`, quirks included.

  A class that is not modelled is reported as the pseudo-error `crash "UNMODELLED"`: the model
  knows its own boundary and the correspondence check skips (and counts) such inputs.
-/
namespace Cp.Tls
open Cp Cp.Codec

def unmodelled : PErr := .crash "UNMODELLED"

/-! ### protocol version -/

/-- `TlsProtocolVersion._parse`: a strictly decoded `TlsVersion` member (index into the table) -/
def parseVersion (bs : Bytes) : Except PErr (Nat × Nat) := parseCoded Gen.TlsVersion.codes 2 bs

/-- `TlsProtocolVersion.compose`: major, minor -/
def composeVersion (i : Nat) : Except PErr Bytes :=
  match Gen.TlsVersion.codes[i]? with
  | some c => do
    let a ← composeNum .network 1 (major c : Int)
    let b ← composeNum .network 1 (minor c : Int)
    pure (a ++ b)
  | none => .error (.crash "AttributeError")

def versionCodec : Codec Nat := ⟨parseVersion, composeVersion⟩

/-! ### record layer -/

structure Record where
  contentType : Nat
  version : Nat
  fragment : Bytes
deriving Repr, DecidableEq

/-- `TlsRecord._parse` -/
def parseRecord (bs : Bytes) : Except PErr (Record × Nat) :=
  if bs.length < Gen.TlsRecord_HEADER_SIZE then
    .error (.notEnough ((Gen.TlsRecord_HEADER_SIZE - bs.length : Nat) : Int))
  else do
    let (ct, n1) ← parseIntEnum Gen.TlsContentType.memberCodes 1 bs
    let (v, n2) ← parseVersion (bs.drop n1)
    let (frag, n3) ← parseBytes .network 2 (bs.drop (n1 + n2))
    pure (⟨ct, v, frag⟩, n1 + n2 + n3)

/-- `TlsRecord.compose` -/
def composeRecord (r : Record) : Except PErr Bytes := do
  let a ← composeNum .network 1 (r.contentType : Int)
  let b ← composeVersion r.version
  let c ← composeBytes .network 2 r.fragment
  pure (a ++ b ++ c)

def recordCodec : Codec Record := ⟨parseRecord, composeRecord⟩

def Record.wf (r : Record) : Prop :=
  r.contentType ∈ Gen.TlsContentType.memberCodes ∧ r.version < Gen.TlsVersion.codes.length ∧
  r.fragment.length < 65536

/-! ### alert, change cipher spec, application data -/

structure Alert where
  level : Nat
  description : Nat
deriving Repr, DecidableEq

/-- `TlsAlertMessage._parse`; the attrs validators convert level, then description -/
def parseAlert (bs : Bytes) : Except PErr (Alert × Nat) :=
  if bs.length < Gen.TlsAlertMessage_SIZE then
    .error (.notEnough ((Gen.TlsAlertMessage_SIZE - bs.length : Nat) : Int))
  else do
    let (l, n1) ← parseNum .network 1 bs
    let (d, n2) ← parseNum .network 1 (bs.drop n1)
    if !(Gen.TlsAlertLevel.memberCodes.contains l) then .error .invalidValue
    else if !(Gen.TlsAlertDescription.memberCodes.contains d) then .error .invalidValue
    else pure (⟨l, d⟩, n1 + n2)

def composeAlert (a : Alert) : Except PErr Bytes := do
  let x ← composeNum .network 1 (a.level : Int)
  let y ← composeNum .network 1 (a.description : Int)
  pure (x ++ y)

def alertCodec : Codec Alert := ⟨parseAlert, composeAlert⟩

def Alert.wf (a : Alert) : Prop :=
  a.level ∈ Gen.TlsAlertLevel.memberCodes ∧ a.description ∈ Gen.TlsAlertDescription.memberCodes

/-- `TlsChangeCipherSpecMessage` -/
def parseCcs (bs : Bytes) : Except PErr (Nat × Nat) :=
  parseIntEnum Gen.TlsChangeCipherSpecType.memberCodes 1 bs

def composeCcs (v : Nat) : Except PErr Bytes := composeNum .network 1 (v : Int)

def ccsCodec : Codec Nat := ⟨parseCcs, composeCcs⟩

/-- `TlsApplicationDataMessage`: everything -/
def appDataCodec : Codec Bytes := ⟨fun bs => .ok (bs, bs.length), fun v => .ok v⟩

/-! ### hello extensions -/

inductive ExtBody where
  | raw (data : Bytes)            -- `TlsExtensionUnparsed.extension_data`, session ticket
  | empty                         -- `TlsExtensionUnusedData` family
  | coded (items : List Coded)    -- a vector of coded enumeration members
  | opaque (data : Bytes)         -- renegotiated_connection
  | num (v : Nat)                 -- padding length, record size limit
  | version (idx : Nat)           -- selected_version
deriving Repr, DecidableEq

/-- An extension as parsed: the class that produced it, the type code, the body. -/
structure Ext where
  cls : String
  typ : Nat
  body : ExtBody
deriving Repr, DecidableEq

inductive ExtKind where
  | unusedData
  | vecCoded (p : VecParam) (codes : List Nat) (k : Nat)
  | renegotiationInfo
  | sessionTicket
  | padding
  | recordSizeLimit
  | supportedVersionsClient
  | supportedVersionsServer

def vp (g : Gen.VecP) : VecParam := VecParam.ofGen g

/-- Which parsed extension classes are inside the model, and how their body is laid out. -/
def extKindOf : String → Option ExtKind
  | "TlsExtensionChannelId" | "TlsExtensionEncryptThenMAC" | "TlsExtensionExtendedMasterSecret"
  | "TlsExtensionShortRecordHeader" | "TlsExtensionNextProtocolNegotiationClient"
  | "TlsExtensionServerNameServer" | "TlsExtensionCertificateStatusRequestServer"
  | "TlsExtensionSignedCertificateTimestampClient" => some .unusedData
  | "TlsExtensionECPointFormats" =>
    some (.vecCoded (vp Gen.vec_TlsECPointFormatVector) Gen.TlsECPointFormat.codes 1)
  | "TlsExtensionEllipticCurves" =>
    some (.vecCoded (vp Gen.vec_TlsEllipticCurveVector) Gen.TlsNamedCurve.codes 2)
  | "TlsExtensionSignatureAlgorithms" | "TlsExtensionSignatureAlgorithmsCert"
  | "TlsExtensionDelegatedCredentials" =>
    some (.vecCoded (vp Gen.vec_TlsSignatureAndHashAlgorithmVector) Gen.TlsSignatureAndHashAlgorithm.codes 2)
  | "TlsExtensionPskKeyExchangeModes" =>
    some (.vecCoded (vp Gen.vec_TlsPskKeyExchangeModeVector) Gen.TlsPskKeyExchangeMode.codes 1)
  | "TlsExtensionCompressCertificate" =>
    some (.vecCoded (vp Gen.vec_TlsCertificateCompressionAlgorithmVector)
      Gen.TlsCertificateCompressionAlgorithm.codes 2)
  | "TlsExtensionRenegotiationInfo" => some .renegotiationInfo
  | "TlsExtensionSessionTicket" => some .sessionTicket
  | "TlsExtensionPadding" => some .padding
  | "TlsExtensionRecordSizeLimit" => some .recordSizeLimit
  | "TlsExtensionSupportedVersionsClient" => some .supportedVersionsClient
  | "TlsExtensionSupportedVersionsServer" => some .supportedVersionsServer
  | _ => none

/-- one item of `TlsSupportedVersionVector`: a version, or the two-byte invalid-type fallback -/
def parseVersionOrFallback (bs : Bytes) : Except PErr (Coded × Nat) :=
  parseCodedOrFallback Gen.TlsVersion.codes 2 bs

/-- `TlsExtensionUnparsed._parse`: any type code; `NotEnoughData(extension_length + 4)` when the
declared data is not there. -/
def parseExtUnparsed (bs : Bytes) : Except PErr (Ext × Nat) := do
  let (t, _) ← parseNum .network 2 bs
  let (len, _) ← parseNum .network 2 (bs.drop 2)
  if (bs.drop 4).length < len then .error (.notEnough ((len + 4 : Nat) : Int))
  else
    let (data, m) ← parseRaw (len : Int) (bs.drop 4)
    pure (⟨"TlsExtensionUnparsed", t, .raw data⟩, 4 + m)

/-- body of a parsed extension class; `rest` is the buffer after the 4-byte header (NOT confined
to `len`, as in the code); returns the body and the bytes consumed after the header -/
def parseExtBody (kind : ExtKind) (len : Nat) (rest : Bytes) : Except PErr (ExtBody × Nat) :=
  match kind with
  | .unusedData => do
    let (d, m) ← parseRaw (len : Int) rest
    if d.isEmpty then pure (.empty, m) else .error .invalidValue
  | .vecCoded p codes k => do
    let (items, m) ← parseVecCoded p codes k rest
    pure (.coded items, m)
  | .renegotiationInfo => do
    let (d, m) ← parseOpaque (vp Gen.vec_TlsRenegotiatedConnection) rest
    pure (.opaque d, m)
  | .sessionTicket => do
    let (d, m) ← parseRaw (len : Int) rest
    pure (.raw d, m)
  | .padding => do
    let (d, m) ← parseRaw (len : Int) rest
    if d.all (· == 0) then pure (.num len, m) else .error .invalidValue
  | .recordSizeLimit => do
    let (v, m) ← parseNum .network 2 rest
    pure (.num v, m)
  | .supportedVersionsClient => do
    let (items, m) ← parseVecItems (vp Gen.vec_TlsSupportedVersionVector) parseVersionOrFallback
      (fun _ => .ok 2) rest
    pure (.coded items, m)
  | .supportedVersionsServer => do
    let (i, m) ← parseVersion rest
    pure (.version i, m)

/-- Walk the variant list of `TlsExtensionVariantClient/Server` (`VariantParsable._parse`) for an
extension whose (known) type code is `t`: a class of another type raises `InvalidType` (next),
`TlsExtensionUnparsed` accepts anything, a matching class parses the body; `InvalidValue` from the
body escapes the variant; exhaustion is `InvalidValue`. -/
def walkExtVariants (t len : Nat) (bs : Bytes) : List (String × Nat) → Except PErr (Ext × Nat)
  | [] => .error .invalidValue
  | (cls, code) :: more =>
    if cls == "TlsExtensionUnparsed" then parseExtUnparsed bs
    else if code != t then walkExtVariants t len bs more
    else
      match extKindOf cls with
      | none => .error unmodelled
      | some kind =>
        match parseExtBody kind len (bs.drop 4) with
        | .ok (body, m) => .ok (⟨cls, t, body⟩, 4 + m)
        | .error .invalidType => walkExtVariants t len bs more
        | .error e => .error e

/-- `TlsExtensionVariantClient/Server._parse`. The first class tried is a parsed class: its
`_check_header` decodes the type strictly (`InvalidValue` for an unknown type), reads the length
and checks that the declared data is present, before any type comparison. -/
def parseExtVariant (variants : List (String × Nat)) (bs : Bytes) : Except PErr (Ext × Nat) :=
  match parseCoded Gen.ExtensionType.codes 2 bs with
  | .error e => .error e
  | .ok (ti, _) =>
    let t := Gen.ExtensionType.codes.getD ti 0
    match parseNum .network 2 (bs.drop 2) with
    | .error e => .error e
    | .ok (len, _) =>
      if (bs.drop 4).length < len then .error (.notEnough ((len + 4 : Nat) : Int))
      else walkExtVariants t len bs variants

/-- one item of `TlsExtensionsClient/Server`: the variant, and on `InvalidValue` the fallback class
`TlsExtensionUnparsed` -/
def parseExt (variants : List (String × Nat)) (bs : Bytes) : Except PErr (Ext × Nat) :=
  Codec.orElseInvalid (parseExtVariant variants) parseExtUnparsed bs

def composeExtHeader (t : Nat) (payloadLen : Nat) : Except PErr Bytes := do
  let a ← composeNum .network 2 (t : Int)
  let b ← composeNum .network 2 (payloadLen : Int)
  pure (a ++ b)

/-- `compose()` of the modelled extension classes -/
def composeExt (e : Ext) : Except PErr Bytes := do
  let payload ←
    match e.cls, e.body with
    | "TlsExtensionUnparsed", .raw d => pure d
    | cls, body =>
      match extKindOf cls, body with
      | some .unusedData, .empty => pure []
      | some (.vecCoded p codes k), .coded items => composeVecCoded p codes k items
      | some .renegotiationInfo, .opaque d => composeOpaque (vp Gen.vec_TlsRenegotiatedConnection) d
      | some .sessionTicket, .raw d => pure d
      | some .padding, .num n => pure (List.replicate n 0)
      | some .recordSizeLimit, .num v => composeNum .network 2 (v : Int)
      | some .supportedVersionsClient, .coded items =>
        composeVecItems (vp Gen.vec_TlsSupportedVersionVector)
          (composeCodedOrFallback Gen.TlsVersion.codes 2) items
      | some .supportedVersionsServer, .version i => composeVersion i
      | _, _ => .error (.crash "TypeError")
  let h ← composeExtHeader e.typ payload.length
  pure (h ++ payload)

def extSize (e : Ext) : Except PErr Nat := (composeExt e).map (·.length)

/-- `TlsExtensionsClient/Server._parse` -/
def parseExtensions (variants : List (String × Nat)) (p : VecParam) (bs : Bytes) :
    Except PErr (List Ext × Nat) :=
  parseVecItems p (parseExt variants) extSize bs

/-- `TlsHandshakeHello._compose_extensions`: the 2-byte length only when there are extensions -/
def composeExtensions (exts : List Ext) : Except PErr Bytes := do
  let body ← composeItems composeExt exts
  if exts.isEmpty then pure []
  else
    let h ← composeNum .network 2 (body.length : Int)
    pure (h ++ body)

/-! ### handshake messages -/

/-- `_parse_handshake_header` for a class whose handshake type is `typ`: returns the payload and
the total length of the message (header + payload). -/
def parseHsHeader (typ : Nat) (bs : Bytes) : Except PErr (Bytes × Nat) :=
  if bs.length < Gen.TlsHandshakeMessage_HEADER_SIZE then
    .error (.notEnough ((Gen.TlsHandshakeMessage_HEADER_SIZE - bs.length : Nat) : Int))
  else do
    let (t, n1) ← parseIntEnum Gen.TlsHandshakeType.memberCodes 1 bs
    if t != typ then .error .invalidType
    else
      let (payload, n2) ← parseBytes .network 3 (bs.drop n1)
      pure (payload, n1 + n2)

def composeHsHeader (typ : Nat) (payloadLen : Nat) : Except PErr Bytes := do
  let a ← composeNum .network 1 (typ : Int)
  let b ← composeNum .network 3 (payloadLen : Int)
  pure (a ++ b)

structure Random where
  time : Nat
  bytes : Bytes
deriving Repr, DecidableEq

/-- `TlsHandshakeHelloRandom._parse`: 4-byte time, 28 random bytes (through a length-less `Vector`) -/
def parseRandom (bs : Bytes) : Except PErr (Random × Nat) := do
  let (t, n1) ← parseNum .network 4 bs
  let (r, n2) ← parseRaw 28 (bs.drop n1)
  pure (⟨t, r⟩, n1 + n2)

def composeRandom (r : Random) : Except PErr Bytes := do
  let a ← composeNum .network 4 (r.time : Int)
  if r.bytes.length != 28 then .error (.crash "WrongLength") else pure (a ++ r.bytes)

def sessionIdParam : VecParam := vp Gen.vec_TlsSessionIdVector
def cipherSuiteParam : VecParam := vp Gen.vec_TlsCipherSuiteVector
def compressionParam : VecParam := vp Gen.vec_TlsCompressionMethodVector

structure ClientHello where
  version : Nat
  random : Random
  sessionId : List Nat
  cipherSuites : List Coded
  compressionMethods : List Coded
  extensions : List Ext
  fallbackScsv : Bool
  emptyRenegotiationInfoScsv : Bool
deriving Repr, DecidableEq

def codeOfSuite (c : Coded) : Nat :=
  match c with
  | .known i => Gen.TlsCipherSuite.codes.getD i 0
  | .unknown x => x

def scsvFallback : Nat := Gen.TlsCipherSuiteExtension.codes.getD 0 0
def scsvRenegotiation : Nat := Gen.TlsCipherSuiteExtension.codes.getD 1 0

/-- common prefix of the hello messages (`_parse_hello_header`), on the payload -/
def parseHelloHeader (pl : Bytes) : Except PErr ((Nat × Random × List Nat) × Nat) := do
  let (v, n1) ← parseVersion pl
  let (r, n2) ← parseRandom (pl.drop n1)
  let (sid, n3) ← parseVecNum sessionIdParam 1 (fun x => .ok x) (pl.drop (n1 + n2))
  pure ((v, r, sid), n1 + n2 + n3)

/-- `_parse_extensions`: nothing left in the payload → no extensions -/
def parseOptExtensions (variants : List (String × Nat)) (p : VecParam) (pl : Bytes) (pos : Nat) :
    Except PErr (List Ext) :=
  if pos ≥ pl.length then .ok []
  else (parseExtensions variants p (pl.drop pos)).map (·.1)

/-- `TlsHandshakeClientHello._parse` -/
def parseClientHello (bs : Bytes) : Except PErr (ClientHello × Nat) := do
  let (pl, total) ← parseHsHeader 1 bs
  let ((v, r, sid), n1) ← parseHelloHeader pl
  let (cs, n2) ← parseVecCoded cipherSuiteParam Gen.TlsCipherSuite.codes 2 (pl.drop n1)
  let (cm, n3) ← parseVecCoded compressionParam Gen.TlsCompressionMethod.codes 1 (pl.drop (n1 + n2))
  let exts ← parseOptExtensions Gen.extVariantsClient (vp Gen.vec_TlsExtensionsClient) pl (n1 + n2 + n3)
  let fb := cs.any (fun c => codeOfSuite c == scsvFallback)
  let rn := cs.any (fun c => codeOfSuite c != scsvFallback && codeOfSuite c == scsvRenegotiation)
  let kept := cs.filter (fun c => codeOfSuite c != scsvFallback && codeOfSuite c != scsvRenegotiation)
  -- the constructor converts the folded list into a TlsCipherSuiteVector: bounds are re-checked
  checkBounds cipherSuiteParam (kept.length * 2)
  pure (⟨v, r, sid, kept, cm, exts, fb, rn⟩, total)

/-- `TlsHandshakeClientHello.compose`; the SCSV markers are appended to the vector first (the
append is refused with `TooMuchData` when the vector is full) -/
def composeClientHello (h : ClientHello) : Except PErr Bytes := do
  let a ← composeVersion h.version
  let b ← composeRandom h.random
  let c ← composeVecNum sessionIdParam 1 h.sessionId
  let n0 := h.cipherSuites.length * 2
  let n1 := if h.fallbackScsv then n0 + 2 else n0
  if n1 > cipherSuiteParam.max then .error (.tooMuch (cipherSuiteParam.max : Int)) else
  let n2 := if h.emptyRenegotiationInfoScsv then n1 + 2 else n1
  if n2 > cipherSuiteParam.max then .error (.tooMuch (cipherSuiteParam.max : Int)) else
  let suites := h.cipherSuites
    ++ (if h.fallbackScsv then [Coded.unknown scsvFallback] else [])
    ++ (if h.emptyRenegotiationInfoScsv then [Coded.unknown scsvRenegotiation] else [])
  let d ← composeVecCoded cipherSuiteParam Gen.TlsCipherSuite.codes 2 suites
  let e ← composeVecCoded compressionParam Gen.TlsCompressionMethod.codes 1 h.compressionMethods
  let x ← composeExtensions h.extensions
  let payload := a ++ b ++ c ++ d ++ e ++ x
  let hd ← composeHsHeader 1 payload.length
  pure (hd ++ payload)

structure ServerHello where
  hsType : Nat                -- 2 = ServerHello, 6 = HelloRetryRequest
  version : Nat
  random : Random
  sessionId : List Nat
  cipherSuite : Nat
  compressionMethod : Nat
  extensions : List Ext
deriving Repr, DecidableEq

/-- `TlsHandshakeServerHello._parse` / `TlsHandshakeHelloRetryRequest._parse` -/
def parseServerHello (typ : Nat) (bs : Bytes) : Except PErr (ServerHello × Nat) := do
  let (pl, total) ← parseHsHeader typ bs
  let ((v, r, sid), n1) ← parseHelloHeader pl
  let (cs, n2) ← parseCoded Gen.TlsCipherSuite.codes 2 (pl.drop n1)
  let (cm, n3) ← parseCoded Gen.TlsCompressionMethod.codes 1 (pl.drop (n1 + n2))
  let exts ← parseOptExtensions Gen.extVariantsServer (vp Gen.vec_TlsExtensionsServer) pl (n1 + n2 + n3)
  pure (⟨typ, v, r, sid, cs, cm, exts⟩, total)

def composeServerHello (h : ServerHello) : Except PErr Bytes := do
  let a ← composeVersion h.version
  let b ← composeRandom h.random
  let c ← composeVecNum sessionIdParam 1 h.sessionId
  let d ← composeCoded Gen.TlsCipherSuite.codes 2 h.cipherSuite
  let e ← composeCoded Gen.TlsCompressionMethod.codes 1 h.compressionMethod
  let x ← composeExtensions h.extensions
  let payload := a ++ b ++ c ++ d ++ e ++ x
  let hd ← composeHsHeader h.hsType payload.length
  pure (hd ++ payload)

def certificatesParam : VecParam := vp Gen.vec_TlsCertificates

/-- `TlsHandshakeCertificate._parse`: a vector of 3-byte-prefixed certificates; whatever follows the
vector inside the payload is ignored -/
def parseCertificate (bs : Bytes) : Except PErr (List Bytes × Nat) := do
  let (pl, total) ← parseHsHeader 11 bs
  let (certs, _) ← parseVecItems certificatesParam (parseBytes .network 3)
    (fun c => (composeBytes .network 3 c).map (·.length)) pl
  pure (certs, total)

def composeCertificate (certs : List Bytes) : Except PErr Bytes := do
  let body ← composeVecItems certificatesParam (composeBytes .network 3) certs
  let hd ← composeHsHeader 11 body.length
  pure (hd ++ body)

/-- `TlsHandshakeServerHelloDone._parse`: the payload must be empty -/
def parseServerHelloDone (bs : Bytes) : Except PErr (Unit × Nat) := do
  let (pl, total) ← parseHsHeader 14 bs
  if pl.isEmpty then pure ((), total) else .error .invalidValue

def composeServerHelloDone (_ : Unit) : Except PErr Bytes := composeHsHeader 14 0

/-- `TlsHandshakeServerKeyExchange._parse`: opaque payload -/
def parseServerKeyExchange (bs : Bytes) : Except PErr (Bytes × Nat) := parseHsHeader 12 bs

def composeServerKeyExchange (p : Bytes) : Except PErr Bytes := do
  let hd ← composeHsHeader 12 p.length
  pure (hd ++ p)

/-- `TlsHandshakeCertificateStatus._parse` -/
def parseCertificateStatus (bs : Bytes) : Except PErr ((Nat × Bytes) × Nat) := do
  let (pl, total) ← parseHsHeader 22 bs
  let (t, n1) ← parseIntEnum Gen.TlsCertificateStatusType.memberCodes 1 pl
  let (st, _) ← parseBytes .network 3 (pl.drop n1)
  pure ((t, st), total)

def composeCertificateStatus (v : Nat × Bytes) : Except PErr Bytes := do
  let a ← composeNum .network 1 (v.1 : Int)
  let b ← composeBytes .network 3 v.2
  let hd ← composeHsHeader 22 (a ++ b).length
  pure (hd ++ a ++ b)

inductive Handshake where
  | clientHello (h : ClientHello)
  | serverHello (h : ServerHello)
  | certificate (certs : List Bytes)
  | serverKeyExchange (params : Bytes)
  | certificateStatus (statusType : Nat) (status : Bytes)
  | serverHelloDone
deriving Repr, DecidableEq

def parseHandshakeClass (cls : String) (bs : Bytes) : Except PErr (Handshake × Nat) :=
  match cls with
  | "TlsHandshakeClientHello" => (parseClientHello bs).map fun (h, n) => (.clientHello h, n)
  | "TlsHandshakeServerHello" => (parseServerHello 2 bs).map fun (h, n) => (.serverHello h, n)
  | "TlsHandshakeHelloRetryRequest" => (parseServerHello 6 bs).map fun (h, n) => (.serverHello h, n)
  | "TlsHandshakeCertificate" => (parseCertificate bs).map fun (c, n) => (.certificate c, n)
  | "TlsHandshakeServerKeyExchange" => (parseServerKeyExchange bs).map fun (p, n) => (.serverKeyExchange p, n)
  | "TlsHandshakeCertificateStatus" => (parseCertificateStatus bs).map fun ((t, s), n) => (.certificateStatus t s, n)
  | "TlsHandshakeServerHelloDone" => (parseServerHelloDone bs).map fun (_, n) => (.serverHelloDone, n)
  | _ =>
    -- a class outside the model: its header check is the common one, so a type mismatch is still
    -- `InvalidType`; only a message of that very type is beyond the model
    .error unmodelled

/-- `TlsHandshakeMessageVariant._parse`: the classes in the regenerated order, first that does
not raise `InvalidType`. An unmodelled class (certificate request) is skipped when the type byte
shows it would raise `InvalidType`. -/
def parseHandshakeVariantAux (bs : Bytes) : List (String × Nat) → Except PErr (Handshake × Nat)
  | [] => .error .invalidValue
  | (cls, typ) :: more =>
    let r :=
      match cls with
      | "TlsHandshakeClientHello" | "TlsHandshakeServerHello" | "TlsHandshakeHelloRetryRequest"
      | "TlsHandshakeCertificate" | "TlsHandshakeServerKeyExchange" | "TlsHandshakeCertificateStatus"
      | "TlsHandshakeServerHelloDone" => parseHandshakeClass cls bs
      | _ =>
        match parseHsHeader typ bs with
        | .ok _ => .error unmodelled
        | .error e => .error e
    match r with
    | .error .invalidType => parseHandshakeVariantAux bs more
    | r => r

def parseHandshakeVariant (bs : Bytes) : Except PErr (Handshake × Nat) :=
  parseHandshakeVariantAux bs Gen.handshakeVariants

def composeHandshake : Handshake → Except PErr Bytes
  | .clientHello h => composeClientHello h
  | .serverHello h => composeServerHello h
  | .certificate c => composeCertificate c
  | .serverKeyExchange p => composeServerKeyExchange p
  | .certificateStatus t s => composeCertificateStatus (t, s)
  | .serverHelloDone => composeServerHelloDone ()

def handshakeCodec : Codec Handshake := ⟨parseHandshakeVariant, composeHandshake⟩

end Cp.Tls
