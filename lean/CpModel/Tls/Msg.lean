import CpModel.Vector
import CpModel.Gen.Consts
import CpModel.Tls.Version
import CpModel.Tls.Ext2
/-
  CpModel.Tls.Msg — TLS record layer, alert, change-cipher-spec, handshake messages and hello
  extensions (`cryptoparser/tls/record.py`, `subprotocol.py`, `extension.py`), transcribed
  `_parse`/`compose` by `_parse`/`compose`, quirks included.

  A class that is not modelled is reported as the pseudo-error `crash "UNMODELLED"` (`unmodelled`,
  CpModel/Tls/Ext2.lean): the model knows its own boundary and the correspondence check skips (and
  counts) such inputs.  After the extension classes with structured bodies (Ext2.lean) and the
  certificate request joined the model, the only inputs reported that way are server names the
  `idna` codec would not leave unchanged.
-/
namespace Cp.Tls
open Cp Cp.Codec

/-! ### protocol version -/

/-- `TlsProtocolVersion._parse`: a strictly decoded `TlsVersion` member (index into the table) -/
def parseVersion (bs : Bytes) : Except PErr (Nat × Nat) := parseCoded Gen.TlsVersion.codes 2 bs

/-- `TlsProtocolVersion.compose`: major, minor -/
def composeVersion (i : Nat) : Except PErr Bytes :=
  match Gen.TlsVersion.codes[i]? with
  | some c => do
    let a ← composeNum .network 1 (major c : Int)
    let b ← composeNum .network 1 (minor c : Int)
    pure (a ++ b)
  | none => .error (.crash "AttributeError")

def versionCodec : Codec Nat := ⟨parseVersion, composeVersion⟩

/-! ### record layer -/

structure Record where
  contentType : Nat
  version : Nat
  fragment : Bytes
deriving Repr, DecidableEq

/-- `TlsRecord`: content type, version, 2-byte-prefixed fragment, behind the 5-byte size check -/
def recordCodec : Codec Record :=
  minSize Gen.TlsRecord_HEADER_SIZE
    (mapE (seq (intEnum Gen.TlsContentType.memberCodes 1) (seq versionCodec (bytesPrefixed .network 2)))
      (fun x => .ok ⟨x.1, x.2.1, x.2.2⟩) (fun r => (r.contentType, r.version, r.fragment)))

/-- `TlsRecord._parse` -/
def parseRecord (bs : Bytes) : Except PErr (Record × Nat) := recordCodec.parse bs
/-- `TlsRecord.compose` -/
def composeRecord (r : Record) : Except PErr Bytes := recordCodec.compose r

def Record.wf (r : Record) : Prop :=
  r.contentType ∈ Gen.TlsContentType.memberCodes ∧ r.version < Gen.TlsVersion.codes.length ∧
  r.fragment.length < 65536

/-! ### alert, change cipher spec, application data -/

structure Alert where
  level : Nat
  description : Nat
deriving Repr, DecidableEq

/-- `TlsAlertMessage`: two bytes behind the size check; the attrs validators then convert level
(first) and description, `ValueError` → `InvalidValue` -/
def alertCodec : Codec Alert :=
  minSize Gen.TlsAlertMessage_SIZE
    (mapE (seq (num .network 1) (num .network 1))
      (fun x =>
        if !(Gen.TlsAlertLevel.memberCodes.contains x.1) then .error .invalidValue
        else if !(Gen.TlsAlertDescription.memberCodes.contains x.2) then .error .invalidValue
        else .ok ⟨x.1, x.2⟩)
      (fun a => (a.level, a.description)))

def parseAlert (bs : Bytes) : Except PErr (Alert × Nat) := alertCodec.parse bs
def composeAlert (a : Alert) : Except PErr Bytes := alertCodec.compose a

def Alert.wf (a : Alert) : Prop :=
  a.level ∈ Gen.TlsAlertLevel.memberCodes ∧ a.description ∈ Gen.TlsAlertDescription.memberCodes

/-- `TlsChangeCipherSpecMessage` -/
def ccsCodec : Codec Nat := intEnum Gen.TlsChangeCipherSpecType.memberCodes 1
def parseCcs (bs : Bytes) : Except PErr (Nat × Nat) := ccsCodec.parse bs
def composeCcs (v : Nat) : Except PErr Bytes := ccsCodec.compose v

/-- `TlsApplicationDataMessage`: everything -/
def appDataCodec : Codec Bytes := ⟨fun bs => .ok (bs, bs.length), fun v => .ok v⟩

/-! ### hello extensions -/

inductive ExtBody where
  | raw (data : Bytes)            -- `TlsExtensionUnparsed.extension_data`, session ticket
  | empty                         -- `TlsExtensionUnusedData` family
  | coded (items : List Coded)    -- a vector of coded enumeration members
  | opaque (data : Bytes)         -- renegotiated_connection
  | num (v : Nat)                 -- padding length, record size limit
  | version (idx : Nat)           -- selected_version
  | ext2 (b : Ext2Body)           -- the structured bodies of CpModel/Tls/Ext2.lean
deriving Repr, DecidableEq

/-- An extension as parsed: the class that produced it, the type code, the body. -/
structure Ext where
  cls : String
  typ : Nat
  body : ExtBody
deriving Repr, DecidableEq

inductive ExtKind where
  | unusedData
  | vecCoded (p : VecParam) (codes : List Nat) (k : Nat)
  | renegotiationInfo
  | sessionTicket
  | padding
  | recordSizeLimit
  | supportedVersionsClient
  | supportedVersionsServer
  | ext2 (k : Ext2Kind)

/-- Which parsed extension classes are inside the model, and how their body is laid out. -/
def extKindOf : String → Option ExtKind
  | "TlsExtensionChannelId" | "TlsExtensionEncryptThenMAC" | "TlsExtensionExtendedMasterSecret"
  | "TlsExtensionShortRecordHeader" | "TlsExtensionNextProtocolNegotiationClient"
  | "TlsExtensionServerNameServer" | "TlsExtensionCertificateStatusRequestServer"
  | "TlsExtensionSignedCertificateTimestampClient" => some .unusedData
  | "TlsExtensionECPointFormats" =>
    some (.vecCoded (vp Gen.vec_TlsECPointFormatVector) Gen.TlsECPointFormat.codes 1)
  | "TlsExtensionEllipticCurves" =>
    some (.vecCoded (vp Gen.vec_TlsEllipticCurveVector) Gen.TlsNamedCurve.codes 2)
  | "TlsExtensionSignatureAlgorithms" | "TlsExtensionSignatureAlgorithmsCert"
  | "TlsExtensionDelegatedCredentials" =>
    some (.vecCoded (vp Gen.vec_TlsSignatureAndHashAlgorithmVector) Gen.TlsSignatureAndHashAlgorithm.codes 2)
  | "TlsExtensionPskKeyExchangeModes" =>
    some (.vecCoded (vp Gen.vec_TlsPskKeyExchangeModeVector) Gen.TlsPskKeyExchangeMode.codes 1)
  | "TlsExtensionCompressCertificate" =>
    some (.vecCoded (vp Gen.vec_TlsCertificateCompressionAlgorithmVector)
      Gen.TlsCertificateCompressionAlgorithm.codes 2)
  | "TlsExtensionRenegotiationInfo" => some .renegotiationInfo
  | "TlsExtensionSessionTicket" => some .sessionTicket
  | "TlsExtensionPadding" => some .padding
  | "TlsExtensionRecordSizeLimit" => some .recordSizeLimit
  | "TlsExtensionSupportedVersionsClient" => some .supportedVersionsClient
  | "TlsExtensionSupportedVersionsServer" => some .supportedVersionsServer
  | "TlsExtensionServerNameClient" => some (.ext2 .serverName)
  | "TlsExtensionApplicationLayerProtocolNegotiation" | "TlsExtensionApplicationLayerProtocolSettings" =>
    some (.ext2 .protocolNames)
  | "TlsExtensionNextProtocolNegotiationServer" => some (.ext2 .nextProtocolNames)
  | "TlsExtensionCertificateStatusRequestClient" => some (.ext2 .statusRequest)
  | "TlsExtensionKeyShareClient" | "TlsExtensionKeyShareReservedClient" => some (.ext2 .keyShareClient)
  | "TlsExtensionKeyShareServer" => some (.ext2 .keyShareServer)
  | "TlsExtensionKeyShareClientHelloRetry" => some (.ext2 .keyShareHelloRetry)
  | "TlsExtensionTokenBinding" => some (.ext2 .tokenBinding)
  | "TlsExtensionSignedCertificateTimestampServer" => some (.ext2 .sctList)
  | _ => none

/-- does the class decline an extension of declared length `len` with `InvalidType`? -/
def ExtKind.declines : ExtKind → Nat → Bool
  | .ext2 k, len => k.declines len
  | _, _ => false

/-- one item of `TlsSupportedVersionVector`: a version, or the two-byte invalid-type fallback -/
def parseVersionOrFallback (bs : Bytes) : Except PErr (Coded × Nat) :=
  parseCodedOrFallback Gen.TlsVersion.codes 2 bs

/-- `TlsExtensionUnparsed._parse`: any type code; `NotEnoughData(extension_length + 4)` when the
declared data is not there. -/
def parseExtUnparsed (bs : Bytes) : Except PErr (Ext × Nat) := do
  let (t, _) ← parseNum .network 2 bs
  let (len, _) ← parseNum .network 2 (bs.drop 2)
  if (bs.drop 4).length < len then .error (.notEnough ((len + 4 : Nat) : Int))
  else
    let (data, m) ← parseRaw (len : Int) (bs.drop 4)
    pure (⟨"TlsExtensionUnparsed", t, .raw data⟩, 4 + m)

/-- body of a parsed extension class; `rest` is what the class is given to read: the variant walk
hands it exactly the `len` declared bytes after the 4-byte header (`_check_header` returns a parser
confined to the extension); returns the body and the bytes consumed after the header -/
def parseExtBody (kind : ExtKind) (len : Nat) (rest : Bytes) : Except PErr (ExtBody × Nat) :=
  match kind with
  | .unusedData => do
    let (d, m) ← parseRaw (len : Int) rest
    if d.isEmpty then pure (.empty, m) else .error .invalidValue
  | .vecCoded p codes k => do
    let (items, m) ← parseVecCoded p codes k rest
    pure (.coded items, m)
  | .renegotiationInfo => do
    let (d, m) ← parseOpaque (vp Gen.vec_TlsRenegotiatedConnection) rest
    pure (.opaque d, m)
  | .sessionTicket => do
    let (d, m) ← parseRaw (len : Int) rest
    pure (.raw d, m)
  | .padding => do
    let (d, m) ← parseRaw (len : Int) rest
    if d.all (· == 0) then pure (.num len, m) else .error .invalidValue
  | .recordSizeLimit => do
    let (v, m) ← parseNum .network 2 rest
    pure (.num v, m)
  | .supportedVersionsClient => do
    let (items, m) ← parseVecItems (vp Gen.vec_TlsSupportedVersionVector) parseVersionOrFallback
      (fun _ => .ok 2) rest
    pure (.coded items, m)
  | .supportedVersionsServer => do
    let (i, m) ← parseVersion rest
    pure (.version i, m)
  | .ext2 k => do
    let (b, m) ← parseExt2Body k len rest
    pure (.ext2 b, m)

/-- Walk the variant list of `TlsExtensionVariantClient/Server` (`VariantParsable._parse`) for an
extension whose (known) type code is `t`: a class of another type raises `InvalidType` (next),
`TlsExtensionUnparsed` accepts anything, a matching class parses the body — from the declared
extension data ONLY, reading beyond it is `NotEnoughData` —; `InvalidValue` from the body escapes the
variant; exhaustion is `InvalidValue`. (What the variant makes of a `NotEnoughData`: `completeExt` below.) -/
def walkExtVariants (t len : Nat) (bs : Bytes) : List (String × Nat) → Except PErr (Ext × Nat)
  | [] => .error .invalidValue
  | (cls, code) :: more =>
    if cls == "TlsExtensionUnparsed" then parseExtUnparsed bs
    else if code != t then walkExtVariants t len bs more
    else
      match extKindOf cls with
      | none => .error unmodelled
      | some kind =>
        match parseExtBody kind len ((bs.drop 4).take len) with
        | .ok (body, m) => .ok (⟨cls, t, body⟩, 4 + m)
        | .error .invalidType => walkExtVariants t len bs more
        | .error e => .error e

/-- the wrapper of `TlsExtensionVariantBase._parse` around the walk: the extension is present in full
(the header check has passed), so a `NotEnoughData` of the class — its body declares more than the
extension holds, and no further byte can help — is reported as `InvalidValue` -/
def completeExt (r : Except PErr (Ext × Nat)) : Except PErr (Ext × Nat) :=
  match r with
  | .error (.notEnough _) => .error .invalidValue
  | r => r

/-- `TlsExtensionVariantClient/Server._parse`. The first class tried is a parsed class: its
`_check_header` decodes the type strictly (`InvalidValue` for an unknown type), reads the length
and checks that the declared data is present, before any type comparison. Once the extension is
known to be complete, `NotEnoughData` from the walk becomes `InvalidValue` (`completeExt`); a
truncated extension stays `NotEnoughData`. Parsing an extension CLASS directly (`parseExtBody`
and the classes of Canon.lean) is not affected. -/
def parseExtVariant (variants : List (String × Nat)) (bs : Bytes) : Except PErr (Ext × Nat) :=
  match parseCoded Gen.ExtensionType.codes 2 bs with
  | .error e => .error e
  | .ok (ti, _) =>
    let t := Gen.ExtensionType.codes.getD ti 0
    match parseNum .network 2 (bs.drop 2) with
    | .error e => .error e
    | .ok (len, _) =>
      if (bs.drop 4).length < len then .error (.notEnough ((len + 4 : Nat) : Int))
      else completeExt (walkExtVariants t len bs variants)

/-- one item of `TlsExtensionsClient/Server`: the variant, and on `InvalidValue` the fallback class
`TlsExtensionUnparsed` (so a complete extension whose class runs short of data inside it is kept as
`TlsExtensionUnparsed`, like any other data the class rejects) -/
def parseExt (variants : List (String × Nat)) (bs : Bytes) : Except PErr (Ext × Nat) :=
  Codec.orElseInvalid (parseExtVariant variants) parseExtUnparsed bs

def composeExtHeader (t : Nat) (payloadLen : Nat) : Except PErr Bytes := do
  let a ← composeNum .network 2 (t : Int)
  let b ← composeNum .network 2 (payloadLen : Int)
  pure (a ++ b)

/-- the payload of `compose()` of a parsed extension class, by body layout -/
def composeExtBody : ExtKind → ExtBody → Except PErr Bytes
  | .unusedData, .empty => pure []
  | .vecCoded p codes k, .coded items => composeVecCoded p codes k items
  | .renegotiationInfo, .opaque d => composeOpaque (vp Gen.vec_TlsRenegotiatedConnection) d
  | .sessionTicket, .raw d => pure d
  | .padding, .num n => pure (List.replicate n 0)
  | .recordSizeLimit, .num v => composeNum .network 2 (v : Int)
  | .supportedVersionsClient, .coded items =>
    composeVecItems (vp Gen.vec_TlsSupportedVersionVector) (composeCodedOrFallback Gen.TlsVersion.codes 2) items
  | .supportedVersionsServer, .version i => composeVersion i
  | .ext2 k, .ext2 b => composeExt2Body k b
  | _, _ => .error (.crash "TypeError")

/-- `compose()` of the modelled extension classes -/
def composeExt (e : Ext) : Except PErr Bytes := do
  let payload ←
    match e.cls, e.body with
    | "TlsExtensionUnparsed", .raw d => pure d
    | cls, body =>
      match extKindOf cls with
      | some kind => composeExtBody kind body
      | none => .error (.crash "TypeError")
  let h ← composeExtHeader e.typ payload.length
  pure (h ++ payload)

def extSize (e : Ext) : Except PErr Nat := (composeExt e).map (·.length)

/-- `TlsExtensionsClient/Server._parse` -/
def parseExtensions (variants : List (String × Nat)) (p : VecParam) (bs : Bytes) :
    Except PErr (List Ext × Nat) :=
  parseVecItems p (parseExt variants) extSize bs

/-- `TlsHandshakeHello._compose_extensions`: the 2-byte length only when there are extensions -/
def composeExtensions (exts : List Ext) : Except PErr Bytes := do
  let body ← composeItems composeExt exts
  if exts.isEmpty then pure []
  else
    let h ← composeNum .network 2 (body.length : Int)
    pure (h ++ body)

/-! ### handshake messages -/

/-- `_parse_handshake_header` / `_compose_header` for a class whose handshake type is `typ`, as a
frame codec over the payload: the 4-byte size check, the type byte (an `IntEnum` conversion, then
`InvalidType` when it is another class's type), the 3-byte-prefixed payload. -/
def hsHeaderCodec (typ : Nat) : Codec Bytes :=
  minSize Gen.TlsHandshakeMessage_HEADER_SIZE
    (mapE (seq (guardE (intEnum Gen.TlsHandshakeType.memberCodes 1) (fun t => t == typ) .invalidType)
        (bytesPrefixed .network 3))
      (fun x => .ok x.2) (fun p => (typ, p)))

/-- returns the payload and the total length of the message (header + payload) -/
def parseHsHeader (typ : Nat) (bs : Bytes) : Except PErr (Bytes × Nat) := (hsHeaderCodec typ).parse bs

/-- A handshake message class: the common header, then the class's own parser on the payload. -/
def hsFramed (typ : Nat) (inner : Codec α) : Codec α := framed (hsHeaderCodec typ) inner

structure Random where
  time : Nat
  bytes : Bytes
deriving Repr, DecidableEq

/-- `TlsHandshakeHelloRandom`: 4-byte time, 28 random bytes (through a length-less `Vector`) -/
def randomCodec : Codec Random :=
  mapE (seq (num .network 4) (rawFixed 28)) (fun x => .ok ⟨x.1, x.2⟩) (fun r => (r.time, r.bytes))

def parseRandom (bs : Bytes) : Except PErr (Random × Nat) := randomCodec.parse bs
def composeRandom (r : Random) : Except PErr Bytes := randomCodec.compose r

def sessionIdParam : VecParam := vp Gen.vec_TlsSessionIdVector
def cipherSuiteParam : VecParam := vp Gen.vec_TlsCipherSuiteVector
def compressionParam : VecParam := vp Gen.vec_TlsCompressionMethodVector

structure ClientHello where
  version : Nat
  random : Random
  sessionId : List Nat
  cipherSuites : List Coded
  compressionMethods : List Coded
  extensions : List Ext
  fallbackScsv : Bool
  emptyRenegotiationInfoScsv : Bool
deriving Repr, DecidableEq

def codeOfSuite (c : Coded) : Nat :=
  match c with
  | .known i => Gen.TlsCipherSuite.codes.getD i 0
  | .unknown x => x

def scsvFallback : Nat := Gen.TlsCipherSuiteExtension.codes.getD 0 0
def scsvRenegotiation : Nat := Gen.TlsCipherSuiteExtension.codes.getD 1 0

/-- common prefix of the hello messages (`_parse_hello_header`), on the payload -/
def parseHelloHeader (pl : Bytes) : Except PErr ((Nat × Random × List Nat) × Nat) := do
  let (v, n1) ← parseVersion pl
  let (r, n2) ← parseRandom (pl.drop n1)
  let (sid, n3) ← parseVecNum sessionIdParam 1 (fun x => .ok x) (pl.drop (n1 + n2))
  pure ((v, r, sid), n1 + n2 + n3)

/-- `_parse_extensions`: nothing left in the payload → no extensions -/
def parseOptExtensions (variants : List (String × Nat)) (p : VecParam) (pl : Bytes) (pos : Nat) :
    Except PErr (List Ext × Nat) :=
  if pos ≥ pl.length then .ok ([], 0)
  else parseExtensions variants p (pl.drop pos)

/-- `TlsHandshakeClientHello._parse` on the payload -/
def parseClientHelloInner (pl : Bytes) : Except PErr (ClientHello × Nat) := do
  let ((v, r, sid), n1) ← parseHelloHeader pl
  let (cs, n2) ← parseVecCoded cipherSuiteParam Gen.TlsCipherSuite.codes 2 (pl.drop n1)
  let (cm, n3) ← parseVecCoded compressionParam Gen.TlsCompressionMethod.codes 1 (pl.drop (n1 + n2))
  let (exts, n4) ← parseOptExtensions Gen.extVariantsClient (vp Gen.vec_TlsExtensionsClient) pl (n1 + n2 + n3)
  let fb := cs.any (fun c => codeOfSuite c == scsvFallback)
  let rn := cs.any (fun c => codeOfSuite c != scsvFallback && codeOfSuite c == scsvRenegotiation)
  let kept := cs.filter (fun c => codeOfSuite c != scsvFallback && codeOfSuite c != scsvRenegotiation)
  -- the constructor converts the folded list into a TlsCipherSuiteVector: bounds are re-checked
  checkBounds cipherSuiteParam (kept.length * 2)
  pure (⟨v, r, sid, kept, cm, exts, fb, rn⟩, n1 + n2 + n3 + n4)

/-- `TlsHandshakeClientHello.compose`, payload part; the SCSV markers are appended to the vector
first (the append is refused with `TooMuchData` when the vector is full) -/
def composeClientHelloInner (h : ClientHello) : Except PErr Bytes := do
  let a ← composeVersion h.version
  let b ← composeRandom h.random
  let c ← composeVecNum sessionIdParam 1 h.sessionId
  let n0 := h.cipherSuites.length * 2
  let n1 := if h.fallbackScsv then n0 + 2 else n0
  if n1 > cipherSuiteParam.max then .error (.tooMuch (cipherSuiteParam.max : Int)) else
  let n2 := if h.emptyRenegotiationInfoScsv then n1 + 2 else n1
  if n2 > cipherSuiteParam.max then .error (.tooMuch (cipherSuiteParam.max : Int)) else
  let suites := h.cipherSuites
    ++ (if h.fallbackScsv then [Coded.unknown scsvFallback] else [])
    ++ (if h.emptyRenegotiationInfoScsv then [Coded.unknown scsvRenegotiation] else [])
  let d ← composeVecCoded cipherSuiteParam Gen.TlsCipherSuite.codes 2 suites
  let e ← composeVecCoded compressionParam Gen.TlsCompressionMethod.codes 1 h.compressionMethods
  let x ← composeExtensions h.extensions
  pure (a ++ b ++ c ++ d ++ e ++ x)

def clientHelloCodec : Codec ClientHello := hsFramed 1 ⟨parseClientHelloInner, composeClientHelloInner⟩
def parseClientHello (bs : Bytes) : Except PErr (ClientHello × Nat) := clientHelloCodec.parse bs
def composeClientHello (h : ClientHello) : Except PErr Bytes := clientHelloCodec.compose h

structure ServerHello where
  hsType : Nat                -- 2 = ServerHello, 6 = HelloRetryRequest
  version : Nat
  random : Random
  sessionId : List Nat
  cipherSuite : Nat
  compressionMethod : Nat
  extensions : List Ext
deriving Repr, DecidableEq

/-- `TlsHandshakeServerHello._parse` / `TlsHandshakeHelloRetryRequest._parse` on the payload -/
def parseServerHelloInner (typ : Nat) (pl : Bytes) : Except PErr (ServerHello × Nat) := do
  let ((v, r, sid), n1) ← parseHelloHeader pl
  let (cs, n2) ← parseCoded Gen.TlsCipherSuite.codes 2 (pl.drop n1)
  let (cm, n3) ← parseCoded Gen.TlsCompressionMethod.codes 1 (pl.drop (n1 + n2))
  let (exts, n4) ← parseOptExtensions Gen.extVariantsServer (vp Gen.vec_TlsExtensionsServer) pl (n1 + n2 + n3)
  pure (⟨typ, v, r, sid, cs, cm, exts⟩, n1 + n2 + n3 + n4)

def composeServerHelloInner (h : ServerHello) : Except PErr Bytes := do
  let a ← composeVersion h.version
  let b ← composeRandom h.random
  let c ← composeVecNum sessionIdParam 1 h.sessionId
  let d ← composeCoded Gen.TlsCipherSuite.codes 2 h.cipherSuite
  let e ← composeCoded Gen.TlsCompressionMethod.codes 1 h.compressionMethod
  let x ← composeExtensions h.extensions
  pure (a ++ b ++ c ++ d ++ e ++ x)

def serverHelloCodec (typ : Nat) : Codec ServerHello :=
  hsFramed typ ⟨parseServerHelloInner typ, composeServerHelloInner⟩
def parseServerHello (typ : Nat) (bs : Bytes) : Except PErr (ServerHello × Nat) := (serverHelloCodec typ).parse bs
def composeServerHello (h : ServerHello) : Except PErr Bytes := (serverHelloCodec h.hsType).compose h

def certificatesParam : VecParam := vp Gen.vec_TlsCertificates

/-- `TlsCertificates`: a vector of 3-byte-prefixed certificates -/
def certificatesCodec : Codec (List Bytes) where
  parse := parseVecItems certificatesParam (parseBytes .network 3)
    (fun c => (composeBytes .network 3 c).map (·.length))
  compose := composeVecItems certificatesParam (composeBytes .network 3)

/-- `TlsHandshakeCertificate`; whatever follows the vector inside the payload is ignored -/
def certificateCodec : Codec (List Bytes) := hsFramed 11 certificatesCodec
def parseCertificate (bs : Bytes) : Except PErr (List Bytes × Nat) := certificateCodec.parse bs
def composeCertificate (certs : List Bytes) : Except PErr Bytes := certificateCodec.compose certs

/-- `TlsHandshakeServerHelloDone`: the payload must be empty -/
def serverHelloDoneCodec : Codec Unit :=
  hsFramed 14 ⟨fun pl => if pl.isEmpty then .ok ((), 0) else .error .invalidValue, fun _ => .ok []⟩
def parseServerHelloDone (bs : Bytes) : Except PErr (Unit × Nat) := serverHelloDoneCodec.parse bs
def composeServerHelloDone (u : Unit) : Except PErr Bytes := serverHelloDoneCodec.compose u

/-- `TlsHandshakeServerKeyExchange`: opaque payload -/
def serverKeyExchangeCodec : Codec Bytes := hsFramed 12 appDataCodec
def parseServerKeyExchange (bs : Bytes) : Except PErr (Bytes × Nat) := serverKeyExchangeCodec.parse bs
def composeServerKeyExchange (p : Bytes) : Except PErr Bytes := serverKeyExchangeCodec.compose p

/-- `TlsHandshakeCertificateStatus`: status type, 3-byte-prefixed status -/
def certificateStatusCodec : Codec (Nat × Bytes) :=
  hsFramed 22 (seq (intEnum Gen.TlsCertificateStatusType.memberCodes 1) (bytesPrefixed .network 3))
def parseCertificateStatus (bs : Bytes) : Except PErr ((Nat × Bytes) × Nat) := certificateStatusCodec.parse bs
def composeCertificateStatus (v : Nat × Bytes) : Except PErr Bytes := certificateStatusCodec.compose v

/-! ### certificate request (RFC 5246 §7.4.4) -/

structure CertificateRequest where
  certificateTypes : List Nat                     -- `TlsClientCertificateType` values
  signatureAlgorithms : Option (List Coded)       -- absent before TLS 1.2
  authorities : List Bytes                        -- DistinguishedName items
deriving Repr, DecidableEq

def clientCertificateTypeParam : VecParam := vp Gen.vec_TlsClientCertificateTypeVector
def distinguishedNameParam : VecParam := vp Gen.vec_TlsDistinguishedName
def distinguishedNameListParam : VecParam := vp Gen.vec_TlsDistinguishedNameVector
def signatureAlgorithmsParam : VecParam := vp Gen.vec_TlsSignatureAndHashAlgorithmVector

/-- `TlsClientCertificateType(item)` as `numeric_class` of the vector: `ValueError` → `InvalidValue` -/
def convCertificateType (x : Nat) : Except PErr Nat :=
  if Gen.TlsClientCertificateType.memberCodes.contains x then .ok x else .error .invalidValue

/-- `TlsDistinguishedNameVector._parse` -/
def parseDistinguishedNames (bs : Bytes) : Except PErr (List Bytes × Nat) :=
  parseVecItems distinguishedNameListParam (parseOpaque distinguishedNameParam)
    (fun d => (composeOpaque distinguishedNameParam d).map (·.length)) bs

/-- `TlsHandshakeCertificateRequest._parse` on the payload: the certificate types; then a look-ahead
at the next 16-bit length — when it spans exactly the rest of the payload the message has no
`supported_signature_algorithms`; then the certificate authorities. -/
def parseCertificateRequestInner (pl : Bytes) : Except PErr (CertificateRequest × Nat) := do
  let (types, n1) ← parseVecNum clientCertificateTypeParam 1 convCertificateType pl
  let (vl, _) ← parseNum .network 2 (pl.drop n1)
  if vl + 2 == (pl.drop n1).length then do
    let (cas, n3) ← parseDistinguishedNames (pl.drop n1)
    pure (⟨types, none, cas⟩, n1 + n3)
  else do
    let (algs, n2) ← parseVecCoded signatureAlgorithmsParam Gen.TlsSignatureAndHashAlgorithm.codes 2 (pl.drop n1)
    let (cas, n3) ← parseDistinguishedNames (pl.drop (n1 + n2))
    pure (⟨types, some algs, cas⟩, n1 + n2 + n3)

def composeCertificateRequestInner (r : CertificateRequest) : Except PErr Bytes := do
  let a ← composeVecNum clientCertificateTypeParam 1 r.certificateTypes
  let b ← match r.signatureAlgorithms with
    | none => pure []
    | some algs => composeVecCoded signatureAlgorithmsParam Gen.TlsSignatureAndHashAlgorithm.codes 2 algs
  let c ← composeVecItems distinguishedNameListParam (composeOpaque distinguishedNameParam) r.authorities
  pure (a ++ b ++ c)

def certificateRequestCodec : Codec CertificateRequest :=
  hsFramed 13 ⟨parseCertificateRequestInner, composeCertificateRequestInner⟩
def parseCertificateRequest (bs : Bytes) : Except PErr (CertificateRequest × Nat) := certificateRequestCodec.parse bs
def composeCertificateRequest (r : CertificateRequest) : Except PErr Bytes := certificateRequestCodec.compose r

inductive Handshake where
  | clientHello (h : ClientHello)
  | serverHello (h : ServerHello)
  | certificate (certs : List Bytes)
  | serverKeyExchange (params : Bytes)
  | certificateStatus (statusType : Nat) (status : Bytes)
  | serverHelloDone
  | certificateRequest (r : CertificateRequest)
deriving Repr, DecidableEq

/-- the handshake message classes inside the model -/
inductive HsClass where
  | clientHello | serverHello | helloRetryRequest | certificate | serverKeyExchange
  | certificateStatus | serverHelloDone | certificateRequest
deriving DecidableEq, Repr

def hsClassOfName : String → Option HsClass
  | "TlsHandshakeClientHello" => some .clientHello
  | "TlsHandshakeServerHello" => some .serverHello
  | "TlsHandshakeHelloRetryRequest" => some .helloRetryRequest
  | "TlsHandshakeCertificate" => some .certificate
  | "TlsHandshakeServerKeyExchange" => some .serverKeyExchange
  | "TlsHandshakeCertificateStatus" => some .certificateStatus
  | "TlsHandshakeServerHelloDone" => some .serverHelloDone
  | "TlsHandshakeCertificateRequest" => some .certificateRequest
  | _ => none

/-- `get_handshake_type()` of the class, as its codec is built -/
def HsClass.typ : HsClass → Nat
  | .clientHello => 1 | .serverHello => 2 | .helloRetryRequest => 6 | .certificate => 11
  | .serverKeyExchange => 12 | .certificateStatus => 22 | .serverHelloDone => 14 | .certificateRequest => 13

def parseHsClass : HsClass → Bytes → Except PErr (Handshake × Nat)
  | .clientHello, bs => (parseClientHello bs).map fun (h, n) => (.clientHello h, n)
  | .serverHello, bs => (parseServerHello 2 bs).map fun (h, n) => (.serverHello h, n)
  | .helloRetryRequest, bs => (parseServerHello 6 bs).map fun (h, n) => (.serverHello h, n)
  | .certificate, bs => (parseCertificate bs).map fun (c, n) => (.certificate c, n)
  | .serverKeyExchange, bs => (parseServerKeyExchange bs).map fun (p, n) => (.serverKeyExchange p, n)
  | .certificateStatus, bs => (parseCertificateStatus bs).map fun ((t, s), n) => (.certificateStatus t s, n)
  | .serverHelloDone, bs => (parseServerHelloDone bs).map fun (_, n) => (.serverHelloDone, n)
  | .certificateRequest, bs => (parseCertificateRequest bs).map fun (r, n) => (.certificateRequest r, n)

def parseHandshakeClass (cls : String) (bs : Bytes) : Except PErr (Handshake × Nat) :=
  match hsClassOfName cls with
  | some c => parseHsClass c bs
  | none => .error unmodelled

/-- one alternative of `TlsHandshakeMessageVariant`: a modelled class is its parser; a class the
model does not know (none in the regenerated list at present) still runs the common header check
with ITS type, so it raises `InvalidType` for other types — only a message of that very type would
be beyond the model -/
def hsAlt (e : String × Nat) (bs : Bytes) : Except PErr (Handshake × Nat) :=
  match hsClassOfName e.1 with
  | some c => parseHsClass c bs
  | none =>
    match parseHsHeader e.2 bs with
    | .ok _ => .error unmodelled
    | .error err => .error err

/-- `TlsHandshakeMessageVariant._parse` (`VariantParsable`): the classes in the regenerated order,
first that does not raise `InvalidType`; exhaustion is `InvalidValue` -/
def parseHandshakeVariant (bs : Bytes) : Except PErr (Handshake × Nat) :=
  firstNotInvalidType (Gen.handshakeVariants.map hsAlt) bs

def composeHandshake : Handshake → Except PErr Bytes
  | .clientHello h => composeClientHello h
  | .serverHello h => composeServerHello h
  | .certificate c => composeCertificate c
  | .serverKeyExchange p => composeServerKeyExchange p
  | .certificateStatus t s => composeCertificateStatus (t, s)
  | .serverHelloDone => composeServerHelloDone ()
  | .certificateRequest r => composeCertificateRequest r

def handshakeCodec : Codec Handshake := ⟨parseHandshakeVariant, composeHandshake⟩

end Cp.Tls
