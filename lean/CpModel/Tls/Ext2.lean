import CpModel.Vector
import CpModel.Gen.Consts
import CpModel.Gen.TlsExt
/-
  CpModel.Tls.Ext2 — the hello extension classes with structured bodies
  (`cryptoparser/tls/extension.py`, `cryptoparser/common/x509.py`), `_parse`/`compose` transcribed
  field by field:

    TlsExtensionServerNameClient                      (RFC 6066 §3)
    TlsExtensionApplicationLayerProtocolNegotiation   (RFC 7301), …Settings
    TlsExtensionNextProtocolNegotiationServer         (draft-agl-tls-nextprotoneg)
    TlsExtensionCertificateStatusRequestClient        (RFC 6066 §8)
    TlsExtensionKeyShareClient / …ReservedClient / …Server / …ClientHelloRetry   (RFC 8446 §4.2.8)
    TlsExtensionTokenBinding                          (RFC 8472)
    TlsExtensionSignedCertificateTimestampServer      (RFC 6962 §3.3)

  Every body parser reads from `rest`; the variant walk (`walkExtVariants`) hands it exactly the
  declared extension data (`_check_header` returns a parser confined to the extension), so reading
  beyond the extension is `NotEnoughData` of the class (which the variant, `parseExtVariant`, reports as
  `InvalidValue` once the extension is there in full).  `TlsExtensionNextProtocolNegotiationServer` does not go
  through `_check_header`; it reads its list from the same bytes (its list prefix IS the length).
-/
namespace Cp.Tls
open Cp Cp.Codec

/-- the pseudo-error by which the model reports its own boundary -/
def unmodelled : PErr := .crash "UNMODELLED"

def vp (g : Gen.VecP) : VecParam := VecParam.ofGen g

/-! ### host names

The `idna` codec of CPython is outside the model.  A host name is inside the model when the codec
is the identity on it in both directions: ASCII only, no `xn--` label prefix anywhere (in any
case), every label but the last 1..63 bytes, the last at most 63.  Anything else is reported as
`UNMODELLED`. -/

def asciiLowerByte (x : UInt8) : UInt8 := if 65 ≤ x.toNat ∧ x.toNat ≤ 90 then UInt8.ofNat (x.toNat + 32) else x

/-- `xn--` (any case of the letters) occurs somewhere -/
def hasAcePrefix : Bytes → Bool
  | [] => false
  | x :: xs => (((x :: xs).take 4).map asciiLowerByte == ([120, 110, 45, 45] : Bytes)) || hasAcePrefix xs

/-- label lengths of a dot-separated name: `cur` bytes of the current label have been seen -/
def labelsOk : Bytes → Nat → Bool
  | [], cur => cur < 64
  | x :: xs, cur => if x.toNat = 46 then (0 < cur && cur < 64) && labelsOk xs 0 else labelsOk xs (cur + 1)

def hostPlain (h : Bytes) : Bool := h.all (fun x => x.toNat < 128) && !hasAcePrefix h && labelsOk h 0

/-! ### opaque-coded names (`OpaqueEnumParsable`) -/

/-- index of the first member whose code is spelled by exactly these bytes -/
def findName (b : Bytes) : List Gen.WireName → Option Nat
  | [] => none
  | e :: es => if e.wire = b then some 0 else (findName b es).map (· + 1)

/-- `OpaqueEnumParsable._parse`: `Vector._parse` with one-byte items (length prefix, bytes, the
constructor's bound check), the bytes decoded (`UnicodeDecodeError` → `InvalidValue`) and looked
up among the members' codes (no member → `InvalidValue`).  A byte string that is not valid in the
encoding equals no member's encoded code, so both failures are "no entry spells these bytes". -/
def parseName (p : VecParam) (table : List Gen.WireName) (bs : Bytes) : Except PErr (Nat × Nat) := do
  let (raw, n) ← parseOpaque p bs
  match findName raw table with
  | some i => pure (i, n)
  | none => .error .invalidValue

/-- `compose_string_enum_coded(item, item_num_size)`: the code in ASCII behind its length -/
def composeName (p : VecParam) (table : List Gen.WireName) (i : Nat) : Except PErr Bytes :=
  match table[i]? with
  | none => .error (.crash "AttributeError")
  | some e => if e.ascii then composeBytes .network p.numSize e.wire else .error .invalidValue

/-- `VectorParamEnumCodeString.get_item_size`: `item_num_size + len(item.value.code)` -/
def nameSize (p : VecParam) (table : List Gen.WireName) (i : Nat) : Except PErr Nat :=
  match table[i]? with
  | none => .error (.crash "AttributeError")
  | some e => .ok (p.numSize + e.chars)

/-- the part of `VectorParsable._parse` after the length prefix has been read: items from exactly
`len` bytes, then the constructor's bound check; consumes `len` -/
def parseVecBody (p : VecParam) (item : Bytes → Except PErr (α × Nat)) (sizeOf : α → Except PErr Nat)
    (len : Nat) (rest : Bytes) : Except PErr (List α × Nat) :=
  if rest.length < len then .error (.notEnough ((len - rest.length : Nat) : Int))
  else do
    let items ← Codec.parseItems item len (rest.take len)
    let sz ← sumSizes sizeOf items
    checkBounds p sz
    pure (items, len)

/-! ### key shares -/

/-- one `KeyShareEntry`: a known group with its `key_exchange<1..2^16-1>` (`TlsKeyShareEntry`), or
an unknown group code with the opaque data that follows it (`TlsKeyShareEntryInvalidType`) -/
structure KeyShare where
  group : Coded
  key : Bytes
deriving Repr, DecidableEq

def keyExchangeParam : VecParam := vp Gen.vec_TlsKeyExchangeVector

/-- `TlsKeyShareEntry._parse`: strictly decoded group, then `TlsKeyExchangeVector` (a `Vector` of
one-byte items: length prefix, bytes, bound check — the steps of `Opaque._parse`) -/
def parseKeyShareKnown (bs : Bytes) : Except PErr ((Nat × Bytes) × Nat) := do
  let (g, n1) ← parseCoded Gen.TlsNamedCurve.codes 2 bs
  let (key, n2) ← parseOpaque keyExchangeParam (bs.drop n1)
  pure ((g, key), n1 + n2)

def keyShareOfKnown (r : (Nat × Bytes) × Nat) : KeyShare × Nat := (⟨.known r.1.1, r.1.2⟩, r.2)

/-- `TlsKeyShareEntryInvalidType._parse` -/
def parseKeyShareInvalid (bs : Bytes) : Except PErr (KeyShare × Nat) := do
  let (c, n1) ← parseInvalidType 2 bs
  let (d, n2) ← parseBytes .network 2 (bs.drop n1)
  pure (⟨.unknown c, d⟩, n1 + n2)

/-- one position of `TlsKeyShareEntryVector` -/
def parseKeyShare : Bytes → Except PErr (KeyShare × Nat) :=
  Codec.orElseInvalid (fun bs => (parseKeyShareKnown bs).map keyShareOfKnown) parseKeyShareInvalid

def composeKeyShareKnown (g : Nat) (key : Bytes) : Except PErr Bytes := do
  let a ← composeCoded Gen.TlsNamedCurve.codes 2 g
  let b ← composeOpaque keyExchangeParam key
  pure (a ++ b)

def composeKeyShare (e : KeyShare) : Except PErr Bytes :=
  match e.group with
  | .known g => composeKeyShareKnown g e.key
  | .unknown c => do
    let a ← composeNum .network 2 (c : Int)
    let b ← composeBytes .network 2 e.key
    pure (a ++ b)

/-! ### signed certificate timestamps (`cryptoparser/common/x509.py`) -/

structure Sct where
  version : Nat
  log : Bytes            -- the 32-byte log id (`CertificateTransparencyLog.from_log_id` keeps an unknown id)
  timestamp : Nat        -- milliseconds since the epoch as `parse_timestamp` keeps them
  extensions : Bytes
  algorithm : Nat        -- index in `TlsSignatureAndHashAlgorithm`
  signature : Bytes
deriving Repr, DecidableEq

/-- `SignedCertificateTimestamp._parse`: a 2-byte-prefixed blob, the fields parsed from the blob
ONLY (what they leave unconsumed inside it is ignored); the "no timestamp" sentinel is rejected as an
invalid value after every field has been read -/
def parseSct (bs : Bytes) : Except PErr (Sct × Nat) := do
  let (sct, n) ← parseBytes .network 2 bs
  let (ver, a) ← parseIntEnum Gen.CtVersion.memberCodes 1 sct
  let r1 := sct.drop a
  let (log, b) ← parseRaw (32 : Int) r1
  let r2 := r1.drop b
  let (ts, c) ← parseTimestamp .network true 8 r2
  let r3 := r2.drop c
  let (ext, d) ← parseOpaque (vp Gen.vec_CtExtensions) r3
  let r4 := r3.drop d
  let (alg, e) ← parseCoded Gen.TlsSignatureAndHashAlgorithm.codes 2 r4
  let r5 := r4.drop e
  let (sig, _) ← parseOpaque (vp Gen.vec_CtSignature) r5
  match ts with
  | none => .error .invalidValue
  | some t => pure (⟨ver, log, t, ext, alg, sig⟩, n)

def composeSctBody (s : Sct) : Except PErr Bytes := do
  let a ← composeNum .network 1 (s.version : Int)
  let c ← composeTimestamp .network 8 (some s.timestamp)
  let d ← composeOpaque (vp Gen.vec_CtExtensions) s.extensions
  let e ← composeCoded Gen.TlsSignatureAndHashAlgorithm.codes 2 s.algorithm
  let f ← composeOpaque (vp Gen.vec_CtSignature) s.signature
  pure (a ++ s.log ++ c ++ d ++ e ++ f)

def composeSct (s : Sct) : Except PErr Bytes := do
  let body ← composeSctBody s
  composeBytes .network 2 body

/-! ### the bodies -/

inductive Ext2Kind where
  | serverName            -- TlsExtensionServerNameClient
  | protocolNames         -- TlsExtensionApplicationLayerProtocolNegotiation / …Settings
  | nextProtocolNames     -- TlsExtensionNextProtocolNegotiationServer
  | statusRequest         -- TlsExtensionCertificateStatusRequestClient
  | keyShareClient        -- TlsExtensionKeyShareClient / …ReservedClient
  | keyShareServer        -- TlsExtensionKeyShareServer
  | keyShareHelloRetry    -- TlsExtensionKeyShareClientHelloRetry
  | tokenBinding          -- TlsExtensionTokenBinding
  | sctList               -- TlsExtensionSignedCertificateTimestampServer
deriving Repr, DecidableEq

inductive Ext2Body where
  | hostName (host : Bytes)
  | names (items : List Nat)                       -- indices into the name table of the class
  | statusRequest (responderIds : List Bytes) (extensions : Bytes)
  | keyShares (entries : List KeyShare)
  | keyShare (group : Nat) (key : Bytes)           -- index in `TlsNamedCurve`
  | group (idx : Nat)                              -- selected_group, index in `TlsNamedCurve`
  | tokenBinding (major minor : Nat) (params : List Coded)
  | scts (items : List Sct)
deriving Repr, DecidableEq

def protocolNameParam : VecParam := vp Gen.vec_TlsProtocolNameFactory
def protocolNameListParam : VecParam := vp Gen.vec_TlsProtocolNameList
def nextProtocolNameParam : VecParam := vp Gen.vec_TlsNextProtocolNameFactory
def nextProtocolNameListParam : VecParam := vp Gen.vec_TlsNextProtocolNameList
def responderIdParam : VecParam := vp Gen.vec_TlsCertificateStatusRequestResponderId
def responderIdListParam : VecParam := vp Gen.vec_TlsCertificateStatusRequestResponderIdList
def requestExtensionsParam : VecParam := vp Gen.vec_TlsCertificateStatusRequestExtensions
def keyShareListParam : VecParam := vp Gen.vec_TlsKeyShareEntryVector
def tokenBindingParam : VecParam := vp Gen.vec_TlsTokenBindingParamaterVector
def sctListParam : VecParam := vp Gen.vec_SignedCertificateTimestampList
def serverNameParam : VecParam := vp Gen.vec_TlsServerName

/-- `TlsServerNameType.HOST_NAME`, the attrs default of `name_type` (the parsed type is dropped) -/
def hostNameType : Nat := Gen.TlsServerNameType.codes.getD 0 0
/-- `TlsCertificateStatusType.OCSP`, written unconditionally by `compose` -/
def ocspStatusType : Nat := Gen.TlsCertificateStatusType.codes.getD 0 0

/-- `TlsTokenBindingProtocolVersion._parse` (`ProtocolVersionMajorMinorBase`) -/
def tokenBindingVersionCodec : Codec (Nat × Nat) := minSize 2 (seq (num .network 1) (num .network 1))

/-- does the class decline an extension of declared length `len` with `InvalidType`, leaving it to
the next class registered for the same type? (`TlsExtensionKeyShareClientHelloRetry`) -/
def Ext2Kind.declines : Ext2Kind → Nat → Bool
  | .keyShareHelloRetry, len => len != 2
  | _, _ => false

/-- body parser of the class; `len` is the declared extension length -/
def parseExt2Body (kind : Ext2Kind) (len : Nat) (rest : Bytes) : Except PErr (Ext2Body × Nat) :=
  match kind with
  | .serverName => do
    let (_, n1) ← parseNum .network 2 rest               -- server_name_list_length: read, never used
    let r1 := rest.drop n1
    let (_, n2) ← parseIntEnum Gen.TlsServerNameType.memberCodes 1 r1
    let r2 := r1.drop n2
    let (host, n3) ← parseOpaque serverNameParam r2
    if hostPlain host then pure (.hostName host, n1 + n2 + n3) else .error unmodelled
  | .protocolNames => do
    let (items, m) ← parseVecItems protocolNameListParam (parseName protocolNameParam Gen.TlsProtocolName_wire)
      (nameSize protocolNameParam Gen.TlsProtocolName_wire) rest
    pure (.names items, m)
  | .nextProtocolNames => do
    -- no `_parse_header`: the 2 bytes after the type are read as the length prefix of the name list
    let (items, m) ← parseVecBody nextProtocolNameListParam
      (parseName nextProtocolNameParam Gen.TlsNextProtocolName_wire)
      (nameSize nextProtocolNameParam Gen.TlsNextProtocolName_wire) len rest
    pure (.names items, m)
  | .statusRequest => do
    let (_, n1) ← parseIntEnum Gen.TlsCertificateStatusType.memberCodes 1 rest
    let r1 := rest.drop n1
    let (ids, n2) ← parseVecItems responderIdListParam (parseOpaque responderIdParam)
      (fun d => (composeOpaque responderIdParam d).map (·.length)) r1
    let r2 := r1.drop n2
    let (exts, n3) ← parseOpaque requestExtensionsParam r2
    pure (.statusRequest ids exts, n1 + n2 + n3)
  | .keyShareClient => do
    let (entries, m) ← parseVecItems keyShareListParam parseKeyShare
      (fun e => (composeKeyShare e).map (·.length)) rest
    pure (.keyShares entries, m)
  | .keyShareServer => do
    let ((g, key), m) ← parseKeyShareKnown rest
    pure (.keyShare g key, m)
  | .keyShareHelloRetry =>
    if len != 2 then .error .invalidType
    else do
      let (g, m) ← parseCoded Gen.TlsNamedCurve.codes 2 rest
      pure (.group g, m)
  | .tokenBinding => do
    let ((major, minor), n1) ← tokenBindingVersionCodec.parse rest
    let (params, n2) ← parseVecCoded tokenBindingParam Gen.TlsTokenBindingParamater.codes 1 (rest.drop n1)
    pure (.tokenBinding major minor params, n1 + n2)
  | .sctList => do
    let (items, m) ← parseVecItems sctListParam parseSct (fun s => (composeSct s).map (·.length)) rest
    pure (.scts items, m)

/-- payload of `compose()`: what follows the 4-byte header (for NPN: what follows type and the
list's own length prefix, which sits where the extension length is) -/
def composeExt2Body : Ext2Kind → Ext2Body → Except PErr Bytes
  | .serverName, .hostName host =>
    if hostPlain host then do
      let a ← composeNum .network 2 ((3 + host.length : Nat) : Int)
      let b ← composeNum .network 1 (hostNameType : Int)
      let c ← composeBytes .network 2 host
      pure (a ++ b ++ c)
    else .error unmodelled
  | .protocolNames, .names items =>
    composeVecItems protocolNameListParam (composeName protocolNameParam Gen.TlsProtocolName_wire) items
  | .nextProtocolNames, .names items =>
    Codec.composeItems (composeName nextProtocolNameParam Gen.TlsNextProtocolName_wire) items
  | .statusRequest, .statusRequest ids exts => do
    let a ← composeNum .network 1 (ocspStatusType : Int)
    let b ← composeVecItems responderIdListParam (composeOpaque responderIdParam) ids
    let c ← composeOpaque requestExtensionsParam exts
    pure (a ++ b ++ c)
  | .keyShareClient, .keyShares entries => composeVecItems keyShareListParam composeKeyShare entries
  | .keyShareServer, .keyShare g key => composeKeyShareKnown g key
  | .keyShareHelloRetry, .group g => composeCoded Gen.TlsNamedCurve.codes 2 g
  | .tokenBinding, .tokenBinding major minor params => do
    let a ← tokenBindingVersionCodec.compose (major, minor)
    let b ← composeVecCoded tokenBindingParam Gen.TlsTokenBindingParamater.codes 1 params
    pure (a ++ b)
  | .sctList, .scts items => composeVecItems sctListParam composeSct items
  | _, _ => .error (.crash "TypeError")

end Cp.Tls
