import CpModel.Tls.Msg
/-
  CpModel.Tls.Ja3 — `TlsHandshakeClientHello.ja3()` transcribed over the parsed value.
-/
namespace Cp.Tls
open Cp

def greaseTwo (c : Nat) : Bool := isGrease Gen.TlsGreaseTwoByte.codes c
def greaseOne (c : Nat) : Bool := isGrease Gen.TlsGreaseOneByte.codes c

/-- `str(item.value.code)` for the items that survive the GREASE filter
`not isinstance(item, TlsInvalidType…) or item.value.value_type != GREASE` -/
def ja3Items (codes : List Nat) (grease : Nat → Bool) (items : List Coded) : List String :=
  items.filterMap fun c =>
    match c with
    | .known i => some (toString (codes.getD i 0))
    | .unknown x => if grease x then none else some (toString x)

/-- the extension's type takes part unless it is an invalid-type wrapper classified GREASE; only
`TlsExtensionUnparsed` carries a wrapper as its type -/
def ja3ExtType (e : Ext) : Option String :=
  if e.cls == "TlsExtensionUnparsed" && greaseTwo e.typ then none else some (toString e.typ)

/-- `extension.extension_type == TlsExtensionType.SUPPORTED_GROUPS` holds only for the parsed class
(a wrapper never equals an enum member); a later extension of the same type overwrites an earlier one -/
def ja3Groups (exts : List Ext) : List String :=
  exts.foldl (fun acc e =>
    match e.cls, e.body with
    | "TlsExtensionEllipticCurves", .coded items => ja3Items Gen.TlsNamedCurve.codes greaseTwo items
    | _, _ => acc) []

def ja3Formats (exts : List Ext) : List String :=
  exts.foldl (fun acc e =>
    match e.cls, e.body with
    | "TlsExtensionECPointFormats", .coded items => ja3Items Gen.TlsECPointFormat.codes greaseOne items
    | _, _ => acc) []

/-- `TlsHandshakeClientHello.ja3()`: note that the cipher-suite section is NOT filtered for GREASE
and that the SCSV markers are not in `cipher_suites` any more (they were folded into flags). -/
def ja3 (h : ClientHello) : String :=
  ",".intercalate [
    toString (Gen.TlsVersion.codes.getD h.version 0),
    "-".intercalate (h.cipherSuites.map fun c => toString (codeOfSuite c)),
    "-".intercalate (h.extensions.filterMap ja3ExtType),
    "-".intercalate (ja3Groups h.extensions),
    "-".intercalate (ja3Formats h.extensions)]

end Cp.Tls
