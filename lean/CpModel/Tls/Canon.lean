import CpModel.Tls.Msg
/-
  Canonical one-line rendering of TLS model values for the line protocol (no spaces).
  `Name(field,field,…)`; naturals in decimal; bytes in hex (`-` when empty); a coded member as
  `E<code>`, an invalid-type wrapper as `U<code>`; lists as `[a,b]`; booleans as `T`/`F`.
-/
namespace Cp.Tls
open Cp

def cList (xs : List String) : String := "[" ++ ",".intercalate xs ++ "]"
def cBool (b : Bool) : String := if b then "T" else "F"
def cCoded (codes : List Nat) : Coded → String
  | .known i => s!"E{codes.getD i 0}"
  | .unknown c => s!"U{c}"
def cVersion (i : Nat) : String := s!"E{Gen.TlsVersion.codes.getD i 0}"

def cRecord (r : Record) : String :=
  s!"TlsRecord({r.contentType},{cVersion r.version},{hexOrDash r.fragment})"
def cAlert (a : Alert) : String := s!"TlsAlertMessage({a.level},{a.description})"
def cRandom (r : Random) : String := s!"Random({r.time},{hexOrDash r.bytes})"

def extCodes (cls : String) : List Nat :=
  match extKindOf cls with
  | some (.vecCoded _ codes _) => codes
  | some .supportedVersionsClient => Gen.TlsVersion.codes
  | _ => []

/-- the name table of an extension class with opaque-coded names -/
def extNames (cls : String) : List Gen.WireName :=
  if cls == "TlsExtensionNextProtocolNegotiationServer" then Gen.TlsNextProtocolName_wire
  else Gen.TlsProtocolName_wire

def cName (table : List Gen.WireName) (i : Nat) : String :=
  match table[i]? with
  | some e => hexOrDash e.wire
  | none => "?"

def cGroup (i : Nat) : String := s!"E{Gen.TlsNamedCurve.codes.getD i 0}"

def cKeyShare (e : KeyShare) : String :=
  s!"{cCoded Gen.TlsNamedCurve.codes e.group}:{hexOrDash e.key}"

def cSct (s : Sct) : String :=
  "Sct(" ++ ",".intercalate [toString s.version, hexOrDash s.log, toString s.timestamp, hexOrDash s.extensions,
    s!"E{Gen.TlsSignatureAndHashAlgorithm.codes.getD s.algorithm 0}", hexOrDash s.signature] ++ ")"

def cExt2Body (cls : String) : Ext2Body → String
  | .hostName h => hexOrDash h
  | .names items => cList (items.map (cName (extNames cls)))
  | .statusRequest ids exts => cList (ids.map hexOrDash) ++ "/" ++ hexOrDash exts
  | .keyShares entries => cList (entries.map cKeyShare)
  | .keyShare g key => s!"{cGroup g}:{hexOrDash key}"
  | .group g => cGroup g
  | .tokenBinding major minor params =>
    s!"{major}.{minor}:{cList (params.map (cCoded Gen.TlsTokenBindingParamater.codes))}"
  | .scts items => cList (items.map cSct)

def cExtBody (cls : String) : ExtBody → String
  | .raw d => hexOrDash d
  | .empty => "~"
  | .coded items => cList (items.map (cCoded (extCodes cls)))
  | .opaque d => hexOrDash d
  | .num v => toString v
  | .version i => cVersion i
  | .ext2 b => cExt2Body cls b

def cExt (e : Ext) : String := s!"{e.cls}({e.typ},{cExtBody e.cls e.body})"

def cClientHello (h : ClientHello) : String :=
  "TlsHandshakeClientHello(" ++ ",".intercalate [
    cVersion h.version, cRandom h.random, cList (h.sessionId.map toString),
    cList (h.cipherSuites.map (cCoded Gen.TlsCipherSuite.codes)),
    cList (h.compressionMethods.map (cCoded Gen.TlsCompressionMethod.codes)),
    cList (h.extensions.map cExt), cBool h.fallbackScsv, cBool h.emptyRenegotiationInfoScsv] ++ ")"

def cServerHello (h : ServerHello) : String :=
  (if h.hsType == 6 then "TlsHandshakeHelloRetryRequest(" else "TlsHandshakeServerHello(") ++
  ",".intercalate [
    cVersion h.version, cRandom h.random, cList (h.sessionId.map toString),
    s!"E{Gen.TlsCipherSuite.codes.getD h.cipherSuite 0}",
    s!"E{Gen.TlsCompressionMethod.codes.getD h.compressionMethod 0}",
    cList (h.extensions.map cExt)] ++ ")"

def cHandshake : Handshake → String
  | .clientHello h => cClientHello h
  | .serverHello h => cServerHello h
  | .certificate c => s!"TlsHandshakeCertificate({cList (c.map hexOrDash)})"
  | .serverKeyExchange p => s!"TlsHandshakeServerKeyExchange({hexOrDash p})"
  | .certificateStatus t s => s!"TlsHandshakeCertificateStatus({t},{hexOrDash s})"
  | .serverHelloDone => "TlsHandshakeServerHelloDone()"
  | .certificateRequest r =>
    "TlsHandshakeCertificateRequest(" ++ ",".intercalate [
      cList (r.certificateTypes.map toString),
      (match r.signatureAlgorithms with
        | none => "~"
        | some algs => cList (algs.map (cCoded Gen.TlsSignatureAndHashAlgorithm.codes))),
      cList (r.authorities.map hexOrDash)] ++ ")"

/-- A modelled class behind the line protocol: parse to (canonical text, consumed, recomposition). -/
structure DrvClass where
  name : String
  run : Bytes → Except PErr (String × Nat × Except PErr Bytes)

def mkClass (name : String) (parse : Bytes → Except PErr (α × Nat)) (compose : α → Except PErr Bytes)
    (canon : α → String) : DrvClass :=
  ⟨name, fun bs => (parse bs).map fun (v, n) => (canon v, n, compose v)⟩

def hsOnly (cls : String) : DrvClass :=
  mkClass cls (parseHandshakeClass cls) composeHandshake cHandshake

def tlsClasses : List DrvClass := [
  mkClass "TlsProtocolVersion" parseVersion composeVersion cVersion,
  mkClass "TlsRecord" parseRecord composeRecord cRecord,
  mkClass "TlsAlertMessage" parseAlert composeAlert cAlert,
  mkClass "TlsChangeCipherSpecMessage" parseCcs composeCcs (fun v => s!"TlsChangeCipherSpecMessage({v})"),
  mkClass "TlsApplicationDataMessage" appDataCodec.parse appDataCodec.compose
    (fun v => s!"TlsApplicationDataMessage({hexOrDash v})"),
  hsOnly "TlsHandshakeClientHello", hsOnly "TlsHandshakeServerHello", hsOnly "TlsHandshakeHelloRetryRequest",
  hsOnly "TlsHandshakeCertificate", hsOnly "TlsHandshakeServerKeyExchange",
  hsOnly "TlsHandshakeCertificateStatus", hsOnly "TlsHandshakeServerHelloDone",
  hsOnly "TlsHandshakeCertificateRequest",
  mkClass "TlsHandshakeMessageVariant" parseHandshakeVariant composeHandshake cHandshake,
  mkClass "TlsExtensionVariantClient" (parseExtVariant Gen.extVariantsClient) composeExt cExt,
  mkClass "TlsExtensionVariantServer" (parseExtVariant Gen.extVariantsServer) composeExt cExt,
  mkClass "TlsExtensionUnparsed" parseExtUnparsed composeExt cExt,
  mkClass "TlsExtensionsClient" (parseExtensions Gen.extVariantsClient (vp Gen.vec_TlsExtensionsClient))
    (composeVecItems (vp Gen.vec_TlsExtensionsClient) composeExt) (fun xs => cList (xs.map cExt)),
  mkClass "TlsExtensionsServer" (parseExtensions Gen.extVariantsServer (vp Gen.vec_TlsExtensionsServer))
    (composeVecItems (vp Gen.vec_TlsExtensionsServer) composeExt) (fun xs => cList (xs.map cExt)),
  mkClass "TlsSessionIdVector" (parseVecNum sessionIdParam 1 (fun x => .ok x)) (composeVecNum sessionIdParam 1)
    (fun xs => cList (xs.map toString)),
  mkClass "TlsCipherSuiteVector" (parseVecCoded cipherSuiteParam Gen.TlsCipherSuite.codes 2)
    (composeVecCoded cipherSuiteParam Gen.TlsCipherSuite.codes 2)
    (fun xs => cList (xs.map (cCoded Gen.TlsCipherSuite.codes))),
  mkClass "TlsCompressionMethodVector" (parseVecCoded compressionParam Gen.TlsCompressionMethod.codes 1)
    (composeVecCoded compressionParam Gen.TlsCompressionMethod.codes 1)
    (fun xs => cList (xs.map (cCoded Gen.TlsCompressionMethod.codes))),
  mkClass "TlsEllipticCurveVector"
    (parseVecCoded (vp Gen.vec_TlsEllipticCurveVector) Gen.TlsNamedCurve.codes 2)
    (composeVecCoded (vp Gen.vec_TlsEllipticCurveVector) Gen.TlsNamedCurve.codes 2)
    (fun xs => cList (xs.map (cCoded Gen.TlsNamedCurve.codes))),
  mkClass "TlsECPointFormatVector"
    (parseVecCoded (vp Gen.vec_TlsECPointFormatVector) Gen.TlsECPointFormat.codes 1)
    (composeVecCoded (vp Gen.vec_TlsECPointFormatVector) Gen.TlsECPointFormat.codes 1)
    (fun xs => cList (xs.map (cCoded Gen.TlsECPointFormat.codes))),
  mkClass "TlsSignatureAndHashAlgorithmVector"
    (parseVecCoded (vp Gen.vec_TlsSignatureAndHashAlgorithmVector) Gen.TlsSignatureAndHashAlgorithm.codes 2)
    (composeVecCoded (vp Gen.vec_TlsSignatureAndHashAlgorithmVector) Gen.TlsSignatureAndHashAlgorithm.codes 2)
    (fun xs => cList (xs.map (cCoded Gen.TlsSignatureAndHashAlgorithm.codes))),
  mkClass "TlsRenegotiatedConnection" (parseOpaque (vp Gen.vec_TlsRenegotiatedConnection))
    (composeOpaque (vp Gen.vec_TlsRenegotiatedConnection)) hexOrDash,
  mkClass "TlsCertificate" (parseBytes .network 3) (composeBytes .network 3)
    (fun c => s!"TlsCertificate({hexOrDash c})"),
  mkClass "TlsCertificates" certificatesCodec.parse certificatesCodec.compose (fun xs => cList (xs.map hexOrDash))
]

end Cp.Tls
