import CpModel.Enum
/-
  CpModel.Tls.Version — `TlsProtocolVersion` comparison (`cryptoparser/tls/version.py`).
  A version is identified by the code of its `TlsVersion` member; the set of versions is the
  regenerated table `Gen.TlsVersion`.
-/
namespace Cp.Tls

def major (c : Nat) : Nat := (c &&& 0xff00) >>> 8
def minor (c : Nat) : Nat := c &&& 0x00ff
def isDraft (c : Nat) : Bool := major c == 0x7f
def isGoogleExperimental (c : Nat) : Bool := major c == 0x7e

/-- `TlsVersion.<name>.value.code`, looked up in the regenerated table -/
def versionCode (name : String) : Nat :=
  match (List.zip Gen.TlsVersion.names Gen.TlsVersion.codes).find? (fun p => p.1 == name) with
  | some p => p.2
  | none => 0

/-- `TlsProtocolVersion._order_key` -/
def orderKey (c : Nat) : Nat × Nat :=
  if isDraft c || isGoogleExperimental c then (versionCode "TLS1_2", c) else (c, 0)

/-- Python tuple comparison `<` on pairs -/
def pairLt (a b : Nat × Nat) : Bool := a.1 < b.1 || (a.1 == b.1 && a.2 < b.2)

/-- `__lt__` -/
def lt (a b : Nat) : Bool := pairLt (orderKey a) (orderKey b)
/-- `__eq__`: equality of codes -/
def eq (a b : Nat) : Bool := a == b
/-- `functools.total_ordering`: `__le__ = lt or eq`, `__gt__ = not lt and not eq`, `__ge__ = not lt` -/
def le (a b : Nat) : Bool := lt a b || eq a b
def gt (a b : Nat) : Bool := !(lt a b) && !(eq a b)
def ge (a b : Nat) : Bool := !(lt a b)

/-- attrs `hash=True` hashes the `version` field, an enum member: equal members hash equally.
The member is the first one in iteration order carrying the code. -/
def hashKey (c : Nat) : Option Nat := findCode c Gen.TlsVersion.codes

/-- `str(version)` draft number -/
def draftNumber (c : Nat) : Nat := minor c

end Cp.Tls
