import CpModel.Tls.Ssl2
import CpModel.Tls.Canon
/-
  Canonical one-line rendering of the SSL 2.0 model values for the line protocol; must coincide
  character for character with `harness/canon_ssl2.py`.
  `ClassName(field,…)`; naturals in decimal; bytes in hex (`-` when empty); a cipher kind as
  `E<code>`; lists as `[a,b]`; booleans as `T`/`F`.
-/
namespace Cp.Ssl2
open Cp Cp.Tls

def cKind (i : Nat) : String := s!"E{Gen.SslCipherKind.codes.getD i 0}"

def cMsg : Msg → String
  | .error c => s!"SslErrorMessage({c})"
  | .clientHello kinds sid ch =>
    s!"SslHandshakeClientHello({cList (kinds.map cKind)},{hexOrDash sid},{hexOrDash ch})"
  | .serverHello cert kinds cid hit =>
    s!"SslHandshakeServerHello({hexOrDash cert},{cList (kinds.map cKind)},{hexOrDash cid},{cBool hit})"

def cRecord (r : Record) : String := s!"SslRecord({cMsg r.message})"

/-- the four classes behind the line protocol, under their Python class names -/
def ssl2Classes : List DrvClass := [
  mkClass "SslRecord" parseRecord composeRecord cRecord,
  mkClass "SslErrorMessage" parseError composeMsg cMsg,
  mkClass "SslHandshakeClientHello" parseClientHello composeMsg cMsg,
  mkClass "SslHandshakeServerHello" parseServerHello composeMsg cMsg
]

end Cp.Ssl2
